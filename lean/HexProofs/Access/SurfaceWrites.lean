import HexProofs.Access.SurfaceEq
import HexProofs.Writes.Hexital
/-
C19 for the operations of `HexModel/Core/Surface.lean`: the read-only ones are functions of the state (by typing);
the two WRITES – `CandleManager.purge(str)` and the `Candle.tag` setter – change exactly what they say; the inputs
`append` accepts besides `Input` (ISO-8601 string timestamps, foreign objects) and the members `Hexital(...)` rejects.
-/
namespace Hex.Surf
open Hex
set_option linter.unusedSectionVars false
variable {F : Type} [PyF F]

/-! ### read-only operations: functions of the state -/

/-- Every read accessor of the surface is a total function from the state (and its arguments) to a VALUE – none
returns a state.  The record below is the list of their types: it type-checks, which is the whole content. -/
structure ReadOnlySurface (F : Type) [PyF F] where
  readCandle : IndState F → Candle F → Option String → Val F := IndState.readCandle
  readCandleAt : IndState F → Int → Option String → PyM (Val F) := IndState.readCandleAt
  indicator : Hexital F → String → PyM (IndState F) := Hexital.indicator
  indicatorSettings : HexMembers F → List (Settings.SDict F) := HexMembers.indicatorSettings
  findIndicator : List (Candle F) → String → Bool := Hex.findIndicator
  ident : Manager F → Option String → MgrIdent := Manager.ident
  candlesEqAt : List (Candle F) → Int → Int → PyM Bool := Hex.candlesEqAt
  candleEqAt : List (Candle F) → Int → Option (Candle F) → PyM Bool := Hex.candleEqAt
  readingOpt : Hexital F → String → Option Int → PyM (Val F) := Hexital.readingOpt
  readingByIndexOpt : List (Candle F) → String → Option Int → Val F := Hex.readingByIndexOpt
  readingPeriodOpt : List (Candle F) → Int → String → Option Int → Bool := Hex.readingPeriodOpt
  validateIndex : Option Int → Nat → Int → Option Int := Hex.validateIndex

def readOnlySurface (F : Type) [PyF F] : ReadOnlySurface F := {}

/-- `Hexital.indicator` hands out the member as found: asking twice gives the same object, and the Hexital it was
asked of is (trivially) the same afterwards – here: the object is determined by the two look-ups alone -/
theorem indicator_deterministic (h h' : Hexital F) (name : String)
    (hi : dlookup name h.indicators = dlookup name h'.indicators)
    (hm : ∀ k, dlookup k h.managers = dlookup k h'.managers) : h.indicator name = h'.indicator name := by
  unfold Hexital.indicator Hexital.manager
  rw [hi]
  cases dlookup name h'.indicators with
  | none => rfl
  | some x => dsimp only; rw [hm]

/-! ### `CandleManager.purge(str)` -/

omit [PyF F] in
theorem derase_eq_filter {α : Type} (k : String) (l : List (String × α)) :
    derase k l = l.filter fun p => p.1 ≠ k := by
  induction l with
  | nil => rfl
  | cons p r ih =>
    obtain ⟨k', v⟩ := p
    unfold derase
    by_cases h : k' = k
    · simp [h, ih]
    · simp [h, ih]

/-- **`purge(name)` removes exactly the entries under `name`**: every candle keeps all its other entries, IN ORDER,
in both dicts, and every other field -/
theorem purgeName_candles (m : Manager F) (name : String) :
    (m.purgeName name).candles = m.candles.map fun c =>
      { c with inds := c.inds.filter (fun p => p.1 ≠ name), subs := c.subs.filter (fun p => p.1 ≠ name) } := by
  simp only [Manager.purgeName, purgeNames, List.foldl_cons, List.foldl_nil, derase_eq_filter]

theorem purgeName_cfg (m : Manager F) (name : String) : (m.purgeName name).cfg = m.cfg := rfl

/-- … stated with the relation of the write-locality library: nothing but entries stored under `name` changes
(prices, volume, timestamp, tag, clean values, every other key of both dicts, the number of candles) -/
theorem purgeName_agree (m : Manager F) (name : String) :
    AgreeOff [name] m.candles (m.purgeName name).candles :=
  purgeNames_agree [name] m.candles

/-- … and the entries under `name` are gone from every candle, in both dicts -/
theorem purgeName_removes (m : Manager F) (name : String) (c : Candle F) (hc : c ∈ (m.purgeName name).candles) :
    dlookup name c.inds = none ∧ dlookup name c.subs = none :=
  purgeNames_removes [name] m.candles c hc name (List.mem_singleton.2 rfl)

theorem purgeName_length (m : Manager F) (name : String) :
    (m.purgeName name).candles.length = m.candles.length := purgeNames_length _ _

/-- every reading under another name – plain or dotted, with another primary part – is untouched, at every
position, for every accessor built on `reading_by_candle` -/
theorem purgeName_other_readings (m : Manager F) (name other : String) (hne : other ≠ name)
    (hp : (splitDot other).headD "" ≠ name) :
    (m.purgeName name).candles.map (fun c => readingByCandle c other) =
      m.candles.map (fun c => readingByCandle c other) := by
  symm
  apply (purgeName_agree m name).map_eq
  intro a b hab
  exact readingByCandle_agree hab other (by simpa using hne) (by simpa using hp)

/-- after the purge the name has no reading anywhere: `find_indicator` is false, `reading_count` is 0 -/
theorem purgeName_gone (m : Manager F) (name : String) (hk : IsKey name) :
    (∀ c ∈ (m.purgeName name).candles, readingByCandle c name = .none) ∧
    findIndicator (m.purgeName name).candles name = false ∧
    readingCount (m.purgeName name).candles name = 0 := by
  have h1 : ∀ c ∈ (m.purgeName name).candles, readingByCandle c name = .none := by
    intro c hc
    obtain ⟨a, b⟩ := purgeName_removes m name c hc
    rw [readingByCandle_key name hk, lookupKey, a, b]
  refine ⟨h1, ?_, ?_⟩
  · rw [findIndicator_eq_false_iff]
    intro c hc; rw [h1 c hc]; rfl
  · unfold readingCount
    cases hr : (m.purgeName name).candles.reverse with
    | nil => rfl
    | cons c r =>
      have : c ∈ (m.purgeName name).candles := List.mem_reverse.1 (by rw [hr]; exact List.mem_cons_self ..)
      simp [h1 c this, Val.isNone]

/-- the indicator-level form -/
theorem ind_purgeName (s : IndState F) (name : String) :
    (s.purgeName name).tree = s.tree ∧ (s.purgeName name).active = s.active ∧
    (s.purgeName name).mgr = s.mgr.purgeName name := ⟨rfl, rfl, rfl⟩

/-- purging twice is purging once; purging an absent name changes nothing -/
theorem purgeName_idem (m : Manager F) (name : String) : (m.purgeName name).purgeName name = m.purgeName name := by
  have : ∀ c : Candle F,
      ({ c with inds := derase name (derase name c.inds), subs := derase name (derase name c.subs) } : Candle F)
        = { c with inds := derase name c.inds, subs := derase name c.subs } := by
    intro c
    simp only [derase_eq_filter, List.filter_filter, Bool.and_self]
  simp only [Manager.purgeName, purgeNames, List.foldl_cons, List.foldl_nil, List.map_map]
  congr 1
  apply List.map_congr_left
  intro c _
  exact this c

theorem purgeName_absent (m : Manager F) (name : String)
    (h : ∀ c ∈ m.candles, name ∉ keys c.inds ∧ name ∉ keys c.subs) : m.purgeName name = m := by
  have : (m.purgeName name).candles = m.candles := by
    rw [purgeName_candles]
    conv => rhs; rw [← List.map_id m.candles]
    apply List.map_congr_left
    intro c hc
    obtain ⟨h1, h2⟩ := h c hc
    have f1 : c.inds.filter (fun p => p.1 ≠ name) = c.inds := by
      apply List.filter_eq_self.2
      intro p hp
      have : p.1 ≠ name := fun e => h1 (List.mem_map.2 ⟨p, hp, e⟩)
      simpa using this
    have f2 : c.subs.filter (fun p => p.1 ≠ name) = c.subs := by
      apply List.filter_eq_self.2
      intro p hp
      have : p.1 ≠ name := fun e => h2 (List.mem_map.2 ⟨p, hp, e⟩)
      simpa using this
    rw [f1, f2]; rfl
  cases m
  simp only [Manager.purgeName] at this ⊢
  simp only [this]

/-! ### the `Candle.tag` setter -/

/-- the candle with its tag set and NOTHING else changed -/
def retag (c : Candle F) : Candle F := { c with tag := true }

/-- the manager with the tag of candle `k` set and NOTHING else changed -/
def taggedAt (m : Manager F) (k : Nat) (h : k < m.candles.length) : Manager F :=
  { m with candles := m.candles.set k (retag m.candles[k]) }

theorem setTag_spec (c : Candle F) :
    (c.tag = true ∧ c.setTag = .error .alreadyTagged) ∨ (c.tag = false ∧ c.setTag = .ok (retag c)) := by
  unfold Candle.setTag
  cases h : c.tag <;> simp [retag]

/-- tagging changes the tag only: same prices / volume / timestamp / dicts / clean values, and neither
`reading_by_candle` nor `==` can see it -/
theorem setTag_only_tag (c c' : Candle F) (h : c.setTag = .ok c') :
    c' = retag c ∧ c.tag = false ∧
    (∀ name, readingByCandle c' name = readingByCandle c name) ∧
    (∀ other, c'.pyEq other = c.pyEq other) ∧ (∀ other : Candle F, other.pyEq (some c') = other.pyEq (some c)) := by
  rcases setTag_spec c with ⟨_, e⟩ | ⟨ht, e⟩
  · rw [e] at h; cases h
  · rw [e] at h; cases h
    refine ⟨rfl, ht, fun _ => rfl, fun other => ?_, fun _ => rfl⟩
    cases other <;> rfl

/-- **`manager.candles[idx].tag = "Heikin-Ashi"`, complete case analysis**: out of range → `IndexError`;
in range on a tagged candle → `CandleAlreadyTagged`; otherwise the manager with that ONE candle's tag set. -/
theorem tagAt_spec (m : Manager F) (i : Int) :
    (validIndex i m.candles.length = false ∧ m.tagAt i = .error .indexError) ∨
    (∃ hv : validIndex i m.candles.length = true,
      (m.candles[normIdx i m.candles.length]'(normIdx_lt _ _ hv)).tag = true ∧
      m.tagAt i = .error .alreadyTagged) ∨
    (∃ hv : validIndex i m.candles.length = true,
      (m.candles[normIdx i m.candles.length]'(normIdx_lt _ _ hv)).tag = false ∧
      m.tagAt i = .ok (taggedAt m (normIdx i m.candles.length) (normIdx_lt _ _ hv))) := by
  by_cases hv : validIndex i m.candles.length = true
  · right
    rcases setTag_spec (m.candles[normIdx i m.candles.length]'(normIdx_lt _ _ hv)) with ⟨ht, e⟩ | ⟨ht, e⟩
    · left; refine ⟨hv, ht, ?_⟩
      simp only [Manager.tagAt, pyModifyM, pyIndex_valid _ i hv, e, bind, Except.bind]
    · right; refine ⟨hv, ht, ?_⟩
      simp only [Manager.tagAt, pyModifyM, pyIndex_valid _ i hv, e, bind, Except.bind, pure, Except.pure]
      rfl
  · left
    have hv' : validIndex i m.candles.length = false := by simpa using hv
    refine ⟨hv', ?_⟩
    simp only [Manager.tagAt, pyModifyM, pyIndex_invalid _ i hv', bind, Except.bind]

/-- **`tagAt` changes only the tag of one candle or raises**: on success the configuration and the number of
candles are the same, every other position holds the same candle, and the addressed candle differs in its tag only
(so no reading and no `==` comparison changes) -/
theorem tagAt_ok (m m' : Manager F) (i : Int) (h : m.tagAt i = .ok m') :
    ∃ hv : validIndex i m.candles.length = true,
      m'.cfg = m.cfg ∧ m'.candles.length = m.candles.length ∧
      (∀ j, j ≠ normIdx i m.candles.length → m'.candles[j]? = m.candles[j]?) ∧
      (m.candles[normIdx i m.candles.length]'(normIdx_lt _ _ hv)).tag = false ∧
      m'.candles[normIdx i m.candles.length]? =
        some (retag (m.candles[normIdx i m.candles.length]'(normIdx_lt _ _ hv))) ∧
      (∀ name, m'.candles.map (fun c => readingByCandle c name) = m.candles.map (fun c => readingByCandle c name)) := by
  rcases tagAt_spec m i with ⟨_, e⟩ | ⟨_, _, e⟩ | ⟨hv, ht, e⟩
  · rw [e] at h; cases h
  · rw [e] at h; cases h
  · rw [e] at h; cases h
    have hlt := normIdx_lt _ _ hv
    refine ⟨hv, rfl, by simp [taggedAt], fun j hj => ?_, ht, ?_, fun name => ?_⟩
    · simp only [taggedAt, List.getElem?_set]
      rw [if_neg (fun e => hj e.symm)]
    · simp only [taggedAt, List.getElem?_set, hlt, if_true]
    · apply List.ext_getElem?
      intro j
      simp only [taggedAt, List.getElem?_map, List.getElem?_set]
      by_cases hj : normIdx i m.candles.length = j
      · subst hj
        simp only [if_true, hlt, List.getElem?_eq_getElem hlt, Option.map_some]
        rfl
      · simp only [hj, if_false]

/-- the only errors of `tagAt` -/
theorem tagAt_error (m : Manager F) (i : Int) (e : PyErr) (h : m.tagAt i = .error e) :
    e = .indexError ∨ e = .alreadyTagged := by
  rcases tagAt_spec m i with ⟨_, e'⟩ | ⟨_, _, e'⟩ | ⟨_, _, e'⟩ <;> rw [e'] at h <;> cases h <;> simp

/-- a candle is tagged at most once: a second `tagAt` at the same index raises `CandleAlreadyTagged` -/
theorem tagAt_twice (m m' : Manager F) (i : Int) (h : m.tagAt i = .ok m') : m'.tagAt i = .error .alreadyTagged := by
  obtain ⟨hv, _, hlen, _, _, hat, _⟩ := tagAt_ok m m' i h
  have hv' : validIndex i m'.candles.length = true := by rw [hlen]; exact hv
  rcases tagAt_spec m' i with ⟨e, _⟩ | ⟨_, _, e⟩ | ⟨hv2, ht, _⟩
  · rw [hv'] at e; cases e
  · exact e
  · exfalso
    have hlt := normIdx_lt _ _ hv2
    have h1 : m'.candles[normIdx i m'.candles.length]? =
        some (retag (m.candles[normIdx i m.candles.length]'(normIdx_lt _ _ hv))) := by rw [hlen]; exact hat
    rw [List.getElem?_eq_getElem hlt] at h1
    rw [Option.some.inj h1] at ht
    cases ht

/-! ### input encodings: ISO-8601 string timestamps and foreign objects -/

/-- a candle as the caller constructs it (the definition of `HexProps/C19.lean`, restated verbatim) -/
def Fresh (c : Candle F) : Prop := c.inds = [] ∧ c.subs = [] ∧ c.tag = false ∧ c.clean = none

/-- at the model's level of abstraction (whole naive seconds) the ISO string IS the instant it denotes, so the
ISO dict form and the datetime dict form are the same dict -/
theorem encodeDictIso_eq (c : Candle F) : encodeDictIso c = encodeDict c := rfl

theorem fromDict_encodeDictIso (c : Candle F) (hf : Fresh c) : Candle.fromDict (encodeDictIso c) = c := by
  obtain ⟨o, h, l, cl, v, ts, inds, subs, tag, clean⟩ := c
  obtain ⟨h1, h2, h3, h4⟩ := hf
  simp only at h1 h2 h3 h4
  subst h1 h2 h3 h4
  cases ts <;> simp [Candle.fromDict, encodeDictIso, isoCell, dictGet, dlookup, Cell.asNum]

/-- **C19, "identical results" for the ISO string form**: a list of fresh candles handed to `append` as dicts with
ISO-8601 string timestamps decodes to the very same candles as the `Candle` form, the datetime dict form, and the
list forms – so everything downstream is the same computation. -/
theorem encodings_agree_iso (cs : List (Candle F)) (hf : ∀ c ∈ cs, Fresh c) :
    decodeAny (.valid (.dicts (cs.map encodeDictIso))) = .ok cs ∧
    decodeAny (.valid (.dicts (cs.map encodeDictIso))) = decodeAny (.valid (.candles cs)) ∧
    decodeAny (.valid (.dicts (cs.map encodeDictIso))) = decodeAny (.valid (.dicts (cs.map encodeDict))) := by
  have main : decodeAny (.valid (.dicts (cs.map encodeDictIso))) = .ok cs := by
    simp only [decodeAny, decodeInput, List.map_map]
    congr 1
    conv => rhs; rw [← List.map_id cs]
    exact List.map_congr_left (fun c hc => fromDict_encodeDictIso c (hf c hc))
  refine ⟨main, main, ?_⟩
  simp only [show (cs.map (encodeDictIso (F := F))) = cs.map encodeDict from rfl]

/-- … and a single candle handed over bare -/
theorem encodings_agree_iso_single (c : Candle F) (hf : Fresh c) :
    decodeAny (.valid (.dict (encodeDictIso c))) = .ok [c] ∧
    decodeAny (.valid (.dict (encodeDictIso c))) = decodeAny (.valid (.candle c)) := by
  have : decodeAny (.valid (.dict (encodeDictIso c))) = .ok [c] := by
    simp only [decodeAny, decodeInput, fromDict_encodeDictIso c hf]
  exact ⟨this, this⟩

/-- `decodeAny` extends `decodeInput`; the two foreign shapes are `TypeError`s (nothing is appended) -/
theorem decodeAny_valid (i : Input F) : decodeAny (.valid i) = decodeInput i := rfl
theorem decodeAny_foreign :
    decodeAny (F := F) .otherObject = .error .typeError ∧ decodeAny (F := F) .listOfOther = .error .typeError :=
  ⟨rfl, rfl⟩

/-! ### members that are neither an `Indicator` nor a `dict` -/

theorem validMembers_valid (ms : List (Member F)) : validMembers (ms.map .valid) = .ok ms := by
  induction ms with
  | nil => rfl
  | cons m r ih => simp only [List.map_cons, validMembers, ih, bind, Except.bind, pure, Except.pure]

theorem validMembers_other (l : List (AnyMember F)) (h : ∃ x ∈ l, ∀ m, x ≠ .valid m) :
    validMembers l = .error .invalidConfig := by
  induction l with
  | nil => obtain ⟨x, hx, _⟩ := h; cases hx
  | cons a r ih =>
    cases a with
    | other => rfl
    | valid m =>
      have : ∃ x ∈ r, ∀ m, x ≠ .valid m := by
        obtain ⟨x, hx, hn⟩ := h
        rcases List.mem_cons.1 hx with e | e
        · exact absurd e (hn m)
        · exact ⟨x, e, hn⟩
      simp only [validMembers, ih this, bind, Except.bind]

/-- with proper members only, `Hexital(...)` is the old constructor -/
theorem initAny_valid (cfg : MgrCfg) (tf : Option String) (cs : List (Candle F)) (ms : List (Member F)) :
    Hexital.initAny cfg tf cs (ms.map .valid) = Hexital.init cfg tf cs ms := by
  unfold Hexital.initAny Hexital.init
  rw [validMembers_valid]
  cases Manager.init cfg cs <;> rfl

/-- a foreign member is `InvalidIndicator` – but only AFTER the default manager was built: bad candles win -/
theorem initAny_other (cfg : MgrCfg) (tf : Option String) (cs : List (Candle F)) (l : List (AnyMember F))
    (h : ∃ x ∈ l, ∀ m, x ≠ .valid m) :
    Hexital.initAny cfg tf cs l =
      match Manager.init cfg cs with
      | .ok _ => .error .invalidConfig
      | .error e => .error e := by
  unfold Hexital.initAny
  rw [validMembers_other l h]
  cases Manager.init cfg cs <;> rfl

/-- `add_indicator` with a foreign member leaves the Hexital as it was (an error, no new state) -/
theorem addIndicatorsAny_other (hx : Hexital F) (l : List (AnyMember F)) (h : ∃ x ∈ l, ∀ m, x ≠ .valid m) :
    hx.addIndicatorsAny l = .error .invalidConfig := by
  unfold Hexital.addIndicatorsAny
  rw [validMembers_other l h]; rfl

theorem addIndicatorsAny_valid (hx : Hexital F) (ms : List (Member F)) :
    hx.addIndicatorsAny (ms.map .valid) = hx.addIndicators ms := by
  unfold Hexital.addIndicatorsAny
  rw [validMembers_valid]; rfl

end Hex.Surf

#print axioms Hex.Surf.purgeName_candles
#print axioms Hex.Surf.purgeName_agree
#print axioms Hex.Surf.purgeName_removes
#print axioms Hex.Surf.purgeName_other_readings
#print axioms Hex.Surf.purgeName_gone
#print axioms Hex.Surf.purgeName_idem
#print axioms Hex.Surf.purgeName_absent
#print axioms Hex.Surf.tagAt_spec
#print axioms Hex.Surf.tagAt_ok
#print axioms Hex.Surf.tagAt_twice
#print axioms Hex.Surf.encodings_agree_iso
#print axioms Hex.Surf.encodings_agree_iso_single
#print axioms Hex.Surf.initAny_valid
#print axioms Hex.Surf.initAny_other

import HexProofs.Analysis.Order
/-
C17: the reference predicates in "for all positions of the window" form, and – under `OrdLaws` –
the order-theoretic meaning of rising / falling / highest / lowest / value_range / highestbar /
lowestbar (strictness, extremes include the current candle, the most recent extreme on ties).
-/
set_option linter.unusedSectionVars false
namespace Hex
namespace Ana
variable {F : Type} [PyF F]

/-! ### above / below -/

theorem aboveRef_iff (cs : List (Candle F)) (a b : String) (i : Int) :
    aboveRef cs a b i = true ↔
      ∃ x y, numOf (readingByIndex cs a i) = some x ∧ numOf (readingByIndex cs b i) = some y ∧ Num.lt y x = true := by
  unfold aboveRef
  cases numOf (readingByIndex cs a i) with
  | none => simp
  | some x =>
    cases numOf (readingByIndex cs b i) with
    | none => simp
    | some y => simp [Num.gt]

theorem belowRef_iff (cs : List (Candle F)) (a b : String) (i : Int) :
    belowRef cs a b i = true ↔
      ∃ x y, numOf (readingByIndex cs a i) = some x ∧ numOf (readingByIndex cs b i) = some y ∧ Num.lt x y = true := by
  unfold belowRef
  cases numOf (readingByIndex cs a i) with
  | none => simp
  | some x =>
    cases numOf (readingByIndex cs b i) with
    | none => simp
    | some y => simp

/-! ### rising / falling -/

theorem monoRef_iff (cs : List (Candle F)) (ind : String) (n i : Int) (bad : Num F → Num F → Bool) :
    monoRef cs ind n i bad = true ↔
      ∃ l, numOf (readingByIndex cs ind i) = some l ∧ window cs ind (lo i n) i ≠ [] ∧
        ∀ r ∈ window cs ind (lo i n) i, bad r l = false := by
  unfold monoRef
  cases numOf (readingByIndex cs ind i) with
  | none => simp
  | some l =>
    simp only [Bool.and_eq_true, Bool.not_eq_true', Option.some.injEq, exists_eq_left', List.any_eq_false,
      List.isEmpty_eq_false_iff, ne_eq]
    constructor
    · rintro ⟨h1, h2⟩; exact ⟨h1, fun r hr => by simpa using h2 r hr⟩
    · rintro ⟨h1, h2⟩; exact ⟨h1, fun r hr => by simpa using h2 r hr⟩

/-- position form: quantification over the candles of the window -/
theorem monoRef_iff_pos (cs : List (Candle F)) (ind : String) (n i : Int) (bad : Num F → Num F → Bool) :
    monoRef cs ind n i bad = true ↔
      ∃ l, numOf (readingByIndex cs ind i) = some l ∧
        (∃ j, lo i n ≤ j ∧ j < i ∧ (numOf (readingByIndex cs ind j)).isSome = true) ∧
        ∀ j r, lo i n ≤ j → j < i → numOf (readingByIndex cs ind j) = some r → bad r l = false := by
  rw [monoRef_iff]
  constructor
  · rintro ⟨l, h1, h2, h3⟩
    refine ⟨l, h1, (window_ne_nil cs ind _ _).1 h2, ?_⟩
    intro j r hj1 hj2 hr
    exact h3 r ((mem_window cs ind _ _ r).2 ⟨j, hj1, hj2, hr⟩)
  · rintro ⟨l, h1, h2, h3⟩
    refine ⟨l, h1, (window_ne_nil cs ind _ _).2 h2, ?_⟩
    intro r hr
    obtain ⟨j, hj1, hj2, hjr⟩ := (mem_window cs ind _ _ r).1 hr
    exact h3 j r hj1 hj2 hjr

/-! ### mean_rising / mean_falling -/

theorem meanRef_iff (cs : List (Candle F)) (ind : String) (n i : Int) (good : Num F → Num F → Bool) :
    meanRef cs ind n i good = true ↔
      ∃ l, numOf (readingByIndex cs ind i) = some l ∧ window cs ind (lo i n) i ≠ [] ∧
        good (meanOf (window cs ind (lo i n) i)) l = true := by
  unfold meanRef
  cases numOf (readingByIndex cs ind i) with
  | none => simp
  | some l => simp

/-! ### highest / lowest -/

/-- `R best y` of `highest`: `y` is strictly higher -/
def hiR (a b : Scalar F) : Bool := Num.lt (Mov.scalarNum a) (Mov.scalarNum b)
/-- `R best y` of `lowest`: `y` is strictly lower -/
def loR (a b : Scalar F) : Bool := Num.lt (Mov.scalarNum b) (Mov.scalarNum a)

theorem hiR_strictWeak [OrdLaws F] : StrictWeak (hiR (F := F)) := Num.lt_strictWeak.comap Mov.scalarNum
theorem loR_strictWeak [OrdLaws F] : StrictWeak (loR (F := F)) := (Num.lt_strictWeak.comap Mov.scalarNum).flip

theorem highest_eq (cs : List (Candle F)) (ind : String) (n i : Int) (h0 : 0 ≤ i) (hi : i < cs.length)
    (hn : 1 ≤ n) :
    Mov.highest cs ind n i = .ok (extremeOut (pickFirst hiR (windowS cs ind (lo i n) (i + 1)))) :=
  extreme_eq cs ind n i _ h0 hi hn

theorem lowest_eq (cs : List (Candle F)) (ind : String) (n i : Int) (h0 : 0 ≤ i) (hi : i < cs.length)
    (hn : 1 ≤ n) :
    Mov.lowest cs ind n i = .ok (extremeOut (pickFirst loR (windowS cs ind (lo i n) (i + 1)))) :=
  extreme_eq cs ind n i _ h0 hi hn

/-! ### value_range -/

theorem rangeOut_spec [OrdLaws F] (n : Int) (w : List (Num F)) (hn : 2 ≤ n) (hw : 2 ≤ w.length) :
    ∃ mn mx, rangeOut n w = .num (mn.sub mx).abs ∧ mn ∈ w ∧ mx ∈ w ∧
      ∀ r ∈ w, Num.le mn r = true ∧ Num.le r mx = true := by
  have hne : w ≠ [] := by intro h; rw [h] at hw; simp at hw
  obtain ⟨mn, hmn⟩ := pickFirst_isSome (fun a b : Num F => b.lt a) w hne
  obtain ⟨mx, hmx⟩ := pickFirst_isSome (fun a b : Num F => b.gt a) w hne
  have s1 := pickFirst_best (Num.lt_strictWeak (F := F)).flip w mn hmn
  have s2 := pickFirst_best (R := fun a b : Num F => b.gt a) (Num.lt_strictWeak (F := F)) w mx hmx
  refine ⟨mn, mx, ?_, s1.1, s2.1, ?_⟩
  · unfold rangeOut
    have a : ¬ n < 2 := by omega
    have b : ¬ w.length < 2 := by omega
    simp only [a, b, if_false, hmn, hmx]
  · intro r hr
    exact ⟨(Num.le_true_iff mn r).2 (s1.2 r hr), (Num.le_true_iff r mx).2 (s2.2 r hr)⟩

theorem rangeOut_none (n : Int) (w : List (Num F)) (h : n < 2 ∨ w.length < 2) : rangeOut n w = .none := by
  unfold rangeOut
  rcases h with h | h
  · simp [h]
  · simp [h]

/-! ### highestbar / lowestbar -/

/-- how many candles the bar loop visits: `min(n, i + 1)` (none for a negative length) -/
def barCount (i n : Int) : Int := if i - n < -1 then i + 1 else n

theorem pyRangeDown_getElem? (a b : Int) (k : Nat) :
    (pyRangeDown a b)[k]? = if k < (a - b).toNat then some (a - (k : Int)) else none := by
  unfold pyRangeDown
  rw [List.getElem?_map]
  by_cases hk : k < (a - b).toNat
  · rw [List.getElem?_range hk]; simp [hk]
  · rw [List.getElem?_eq_none (by simp; omega)]; simp [hk]

theorem mem_zipIdx_pyRangeDown (a b : Int) (p : Int × Nat) :
    p ∈ (pyRangeDown a b).zipIdx ↔ (p.2 : Int) < a - b ∧ p.1 = a - (p.2 : Int) := by
  rw [List.mem_zipIdx_iff_getElem?, pyRangeDown_getElem?]
  by_cases hk : p.2 < (a - b).toNat
  · simp only [hk, if_true, Option.some.injEq]
    constructor
    · intro h; exact ⟨by omega, h.symm⟩
    · intro h; exact h.2.symm
  · simp only [hk, if_false]
    constructor
    · intro h; cases h
    · intro h; omega

theorem barCount_eq (i n : Int) : i - (if i - n < -1 then -1 else i - n) = barCount i n := by
  unfold barCount; split <;> omega

theorem mem_barObs (cs : List (Candle F)) (ind : String) (n i : Int) (c : Num F) (k : Int) :
    (c, k) ∈ barObs cs ind n i ↔
      0 ≤ k ∧ k < barCount i n ∧ numOf (readingByIndex cs ind (i - k)) = some c := by
  unfold barObs
  rw [List.mem_filterMap, ← barCount_eq]
  generalize (if i - n < -1 then (-1 : Int) else i - n) = stop
  constructor
  · rintro ⟨p, hp, he⟩
    obtain ⟨hp1, hp2⟩ := (mem_zipIdx_pyRangeDown i stop p).1 hp
    cases hv : numOf (readingByIndex cs ind p.1) with
    | none => rw [hv] at he; simp at he
    | some c' =>
      rw [hv] at he
      simp only [Option.map_some, Option.some.injEq, Prod.mk.injEq] at he
      obtain ⟨rfl, rfl⟩ := he
      exact ⟨by omega, hp1, by rw [← hp2]; exact hv⟩
  · rintro ⟨hk0, hk1, hr⟩
    refine ⟨(i - k, k.toNat), (mem_zipIdx_pyRangeDown i stop _).2 ⟨?_, ?_⟩, ?_⟩
    · simp only; omega
    · simp only; omega
    · simp only [hr, Option.map_some, Option.some.injEq, Prod.mk.injEq, true_and]; omega

theorem zipIdx_pairwise {α : Type} (l : List α) (k : Nat) :
    (l.zipIdx k).Pairwise (fun a b => a.2 < b.2) := by
  induction l generalizing k with
  | nil => simp
  | cons a r ih =>
    rw [List.zipIdx_cons, List.pairwise_cons]
    refine ⟨?_, ih (k + 1)⟩
    intro p hp
    have := List.le_snd_of_mem_zipIdx hp
    simp only; omega

theorem barObs_pairwise (cs : List (Candle F)) (ind : String) (n i : Int) :
    (barObs cs ind n i).Pairwise (fun a b => a.2 < b.2) := by
  unfold barObs
  apply List.Pairwise.filterMap _ _ (zipIdx_pairwise _ 0)
  intro p q hpq x hx y hy
  cases hp : numOf (readingByIndex cs ind p.1) with
  | none => rw [hp] at hx; simp at hx
  | some c =>
    cases hq : numOf (readingByIndex cs ind q.1) with
    | none => rw [hq] at hy; simp at hy
    | some d =>
      rw [hp] at hx; rw [hq] at hy
      simp only [Option.map_some, Option.some.injEq] at hx hy
      subst hx; subst hy
      simp only; omega

/-- **The bar loop returns the offset of the FIRST (most recent) extreme.**  `R best c` is the
loop's replacement test (`best < c` for `highestbar`, `best > c` for `lowestbar`). -/
theorem extremeBar_spec {R : Num F → Num F → Bool} (hR : StrictWeak R)
    (cs : List (Candle F)) (ind : String) (n i : Int) (h0 : 0 ≤ i) (hi : i < cs.length) :
    ∃ d, Mov.extremeBar cs ind n i R = .ok (.int d) ∧
      (((∀ k, 0 ≤ k → k < barCount i n → numOf (readingByIndex cs ind (i - k)) = none) ∧ d = 0) ∨
       (0 ≤ d ∧ d < barCount i n ∧ ∃ m, numOf (readingByIndex cs ind (i - d)) = some m ∧
          (∀ k r, 0 ≤ k → k < d → numOf (readingByIndex cs ind (i - k)) = some r → R r m = true) ∧
          (∀ k r, d ≤ k → k < barCount i n → numOf (readingByIndex cs ind (i - k)) = some r → R m r = false))) := by
  rw [extremeBar_eq cs ind n i R h0 hi]
  refine ⟨_, rfl, ?_⟩
  unfold barOut
  cases hp : pickFirst (fun best y : Num F × Int => R best.1 y.1) (barObs cs ind n i) with
  | none =>
    left
    refine ⟨?_, rfl⟩
    have hnil : barObs cs ind n i = [] := by
      cases hb : barObs cs ind n i with
      | nil => rfl
      | cons x xs => rw [hb] at hp; simp [pickFirst] at hp
    intro k hk0 hk1
    cases hv : numOf (readingByIndex cs ind (i - k)) with
    | none => rfl
    | some c =>
      have := (mem_barObs cs ind n i c k).2 ⟨hk0, hk1, hv⟩
      rw [hnil] at this; simp at this
  | some p =>
    right
    obtain ⟨m, d⟩ := p
    dsimp only
    obtain ⟨pre, post, he, hpre, hpost⟩ := pickFirst_spec (hR.comap Prod.fst) _ _ hp
    have hmem : (m, d) ∈ barObs cs ind n i := by rw [he]; simp
    obtain ⟨hd0, hd1, hdm⟩ := (mem_barObs cs ind n i m d).1 hmem
    have hpw := barObs_pairwise cs ind n i
    rw [he, List.pairwise_append] at hpw
    obtain ⟨_, hpw2, hpw3⟩ := hpw
    rw [List.pairwise_cons] at hpw2
    refine ⟨hd0, hd1, m, hdm, ?_, ?_⟩
    · intro k r hk0 hkd hr
      have hm : (r, k) ∈ barObs cs ind n i := (mem_barObs cs ind n i r k).2 ⟨hk0, by omega, hr⟩
      rw [he] at hm
      rcases List.mem_append.1 hm with hm | hm
      · exact hpre _ hm
      · rcases List.mem_cons.1 hm with hm | hm
        · simp only [Prod.mk.injEq] at hm; omega
        · have := hpw2.1 _ hm; simp only at this; omega
    · intro k r hdk hk1 hr
      have hm : (r, k) ∈ barObs cs ind n i := (mem_barObs cs ind n i r k).2 ⟨by omega, hk1, hr⟩
      rw [he] at hm
      rcases List.mem_append.1 hm with hm | hm
      · have := hpw3 _ hm (m, d) (by simp); simp only at this; omega
      · rcases List.mem_cons.1 hm with hm | hm
        · simp only [Prod.mk.injEq] at hm; rw [hm.1]; exact hR.irrefl m
        · exact hpost _ hm

/-! ### crossover / crossunder -/

theorem any_crossIdxs_iff (i n : Int) (p : Int → Bool) :
    (Mov.crossIdxs i n).any p = true ↔ ∃ idx, lo i n < idx ∧ idx ≤ i ∧ p idx = true := by
  rw [List.any_eq_true]
  constructor
  · rintro ⟨x, hx, hp⟩; exact ⟨x, ((mem_crossIdxs_iff i n x).1 hx).1, ((mem_crossIdxs_iff i n x).1 hx).2, hp⟩
  · rintro ⟨x, h1, h2, hp⟩; exact ⟨x, (mem_crossIdxs_iff i n x).2 ⟨h1, h2⟩, hp⟩

end Ana
end Hex

import HexProofs.Analysis.PatternSpec
/-
C17: `highest` / `lowest` in position form under `OrdLaws`: the result is a reading of the window
`max(i-n,0) … i` (current candle included), no reading of the window beats it, and every more
recent reading is strictly worse (the most recent extreme on ties).
-/
set_option linter.unusedSectionVars false
namespace Hex
namespace Ana
variable {F : Type} [PyF F]

theorem foldl_best_map {α β : Type} (f : α → β) (R : β → β → Bool) (xs : List α) (x : α) :
    (xs.map f).foldl (fun best y => if R best y then y else best) (f x)
      = f (xs.foldl (fun best y => if R (f best) (f y) then y else best) x) := by
  induction xs generalizing x with
  | nil => rfl
  | cons y ys ih =>
    simp only [List.map_cons, List.foldl_cons]
    by_cases h : R (f x) (f y) = true
    · simp only [h, if_true]; exact ih y
    · simp only [h, if_false]; exact ih x

theorem pickFirst_map {α β : Type} (f : α → β) (R : β → β → Bool) (l : List α) :
    pickFirst R (l.map f) = (pickFirst (fun a b => R (f a) (f b)) l).map f := by
  cases l with
  | nil => rfl
  | cons x xs => simp only [List.map_cons, pickFirst, Option.map_some, foldl_best_map]

/-- observations tagged with strictly increasing keys: the pick is the first extreme by key -/
theorem pickFirst_pos {α : Type} {R : α → α → Bool} (hR : StrictWeak R) (obs : List (α × Int))
    (hpw : obs.Pairwise (fun a b => a.2 < b.2)) (m : α) (d : Int)
    (h : pickFirst (fun a b : α × Int => R a.1 b.1) obs = some (m, d)) :
    (m, d) ∈ obs ∧ (∀ r k, (r, k) ∈ obs → k < d → R r m = true) ∧
      (∀ r k, (r, k) ∈ obs → d ≤ k → R m r = false) := by
  obtain ⟨pre, post, he, hpre, hpost⟩ := pickFirst_spec (hR.comap Prod.fst) _ _ h
  rw [he, List.pairwise_append] at hpw
  obtain ⟨_, hpw2, hpw3⟩ := hpw
  rw [List.pairwise_cons] at hpw2
  refine ⟨by rw [he]; simp, ?_, ?_⟩
  · intro r k hm hk
    rw [he] at hm
    rcases List.mem_append.1 hm with hm | hm
    · exact hpre _ hm
    · rcases List.mem_cons.1 hm with hm | hm
      · simp only [Prod.mk.injEq] at hm; omega
      · have := hpw2.1 _ hm; simp only at this; omega
  · intro r k hm hk
    rw [he] at hm
    rcases List.mem_append.1 hm with hm | hm
    · have := hpw3 _ hm (m, d) (by simp); simp only at this; omega
    · rcases List.mem_cons.1 hm with hm | hm
      · simp only [Prod.mk.injEq] at hm; rw [hm.1]; exact hR.irrefl m
      · exact hpost _ hm

/-- the clean readings of the window with their offsets `i - j` from the evaluated candle -/
def obsS (cs : List (Candle F)) (ind : String) (lo' hi' i : Int) : List (Scalar F × Int) :=
  (idxsDown lo' hi').filterMap fun j => (scalarOf (readingByIndex cs ind j)).map fun s => (s, i - j)

theorem windowS_eq_obsS (cs : List (Candle F)) (ind : String) (lo' hi' i : Int) :
    windowS cs ind lo' hi' = (obsS cs ind lo' hi' i).map Prod.fst := by
  unfold windowS obsS
  rw [List.map_filterMap]
  apply filterMap_congr'
  intro j _
  cases scalarOf (readingByIndex cs ind j) <;> rfl

theorem mem_obsS (cs : List (Candle F)) (ind : String) (lo' hi' i : Int) (s : Scalar F) (k : Int) :
    (s, k) ∈ obsS cs ind lo' hi' i ↔
      lo' ≤ i - k ∧ i - k < hi' ∧ scalarOf (readingByIndex cs ind (i - k)) = some s := by
  unfold obsS
  rw [List.mem_filterMap]
  constructor
  · rintro ⟨j, hj, he⟩
    obtain ⟨h1, h2⟩ := (mem_idxsDown lo' hi' j).1 hj
    cases hv : scalarOf (readingByIndex cs ind j) with
    | none => rw [hv] at he; simp at he
    | some s' =>
      rw [hv] at he
      simp only [Option.map_some, Option.some.injEq, Prod.mk.injEq] at he
      obtain ⟨rfl, rfl⟩ := he
      have e : i - (i - j) = j := by omega
      rw [e]; exact ⟨h1, h2, hv⟩
  · rintro ⟨h1, h2, hv⟩
    refine ⟨i - k, (mem_idxsDown lo' hi' _).2 ⟨h1, h2⟩, ?_⟩
    simp only [hv, Option.map_some, Option.some.injEq, Prod.mk.injEq, true_and]; omega

theorem pyRange_pairwise (a b : Int) : (pyRange a b).Pairwise (· < ·) := by
  unfold pyRange
  rw [List.pairwise_map]
  apply List.Pairwise.imp _ (List.pairwise_lt_range)
  intro x y h; omega

theorem obsS_pairwise (cs : List (Candle F)) (ind : String) (lo' hi' i : Int) :
    (obsS cs ind lo' hi' i).Pairwise (fun a b => a.2 < b.2) := by
  unfold obsS idxsDown
  have hdown : ((pyRange lo' hi').reverse).Pairwise (fun a b => b < a) := by
    rw [List.pairwise_reverse]; exact pyRange_pairwise lo' hi'
  apply List.Pairwise.filterMap _ _ hdown
  intro p q hpq x hx y hy
  cases hp : scalarOf (readingByIndex cs ind p) with
  | none => rw [hp] at hx; simp at hx
  | some c =>
    cases hq : scalarOf (readingByIndex cs ind q) with
    | none => rw [hq] at hy; simp at hy
    | some d =>
      rw [hp] at hx; rw [hq] at hy
      simp only [Option.map_some, Option.some.injEq] at hx hy
      subst hx; subst hy
      simp only; omega

theorem numOf_of_scalarOf {v : Val F} {s : Scalar F} (h : scalarOf v = some s) :
    numOf v = some (Mov.scalarNum s) := by rw [numOf_eq_scalarOf, h]; rfl

theorem scalarOf_of_numOf {v : Val F} {r : Num F} (h : numOf v = some r) :
    ∃ s, scalarOf v = some s ∧ Mov.scalarNum s = r := by
  rw [numOf_eq_scalarOf] at h
  cases hs : scalarOf v with
  | none => rw [hs] at h; simp at h
  | some s => rw [hs] at h; simp at h; exact ⟨s, rfl, h⟩

/-- **`highest` / `lowest` pick the most recent extreme of the window that includes the current
candle.**  `R a b` reads "`b` beats `a`" on clean readings (`hiR` / `loR`). -/
theorem extreme_spec {R : Scalar F → Scalar F → Bool} (hR : StrictWeak R)
    (cs : List (Candle F)) (ind : String) (n i : Int) :
    ((∀ j, lo i n ≤ j → j ≤ i → scalarOf (readingByIndex cs ind j) = none) ∧
        pickFirst R (windowS cs ind (lo i n) (i + 1)) = none) ∨
    ∃ (m : Scalar F) (jm : Int), pickFirst R (windowS cs ind (lo i n) (i + 1)) = some m ∧
      lo i n ≤ jm ∧ jm ≤ i ∧ scalarOf (readingByIndex cs ind jm) = some m ∧
      (∀ j s, lo i n ≤ j → j ≤ i → scalarOf (readingByIndex cs ind j) = some s → R m s = false) ∧
      (∀ j s, jm < j → j ≤ i → scalarOf (readingByIndex cs ind j) = some s → R s m = true) := by
  rw [windowS_eq_obsS cs ind (lo i n) (i + 1) i, pickFirst_map]
  cases hp : pickFirst (fun a b : Scalar F × Int => R a.1 b.1) (obsS cs ind (lo i n) (i + 1) i) with
  | none =>
    left
    refine ⟨?_, rfl⟩
    have hnil : obsS cs ind (lo i n) (i + 1) i = [] := by
      cases hb : obsS cs ind (lo i n) (i + 1) i with
      | nil => rfl
      | cons x xs => rw [hb] at hp; simp [pickFirst] at hp
    intro j h1 h2
    cases hv : scalarOf (readingByIndex cs ind j) with
    | none => rfl
    | some s =>
      have : (s, i - j) ∈ obsS cs ind (lo i n) (i + 1) i := by
        rw [mem_obsS]
        have e : i - (i - j) = j := by omega
        rw [e]; exact ⟨h1, by omega, hv⟩
      rw [hnil] at this; simp at this
  | some p =>
    right
    obtain ⟨m, d⟩ := p
    obtain ⟨hmem, hlt, hge⟩ := pickFirst_pos hR _ (obsS_pairwise cs ind _ _ i) m d hp
    obtain ⟨hm1, hm2, hm3⟩ := (mem_obsS cs ind _ _ i m d).1 hmem
    refine ⟨m, i - d, rfl, hm1, by omega, hm3, ?_, ?_⟩
    · intro j s h1 h2 hs
      have hin : (s, i - j) ∈ obsS cs ind (lo i n) (i + 1) i := by
        rw [mem_obsS]
        have e : i - (i - j) = j := by omega
        rw [e]; exact ⟨h1, by omega, hs⟩
      by_cases hk : i - j < d
      · exact hR.asymm _ _ (hlt s (i - j) hin hk)
      · exact hge s (i - j) hin (by omega)
    · intro j s h1 h2 hs
      have hin : (s, i - j) ∈ obsS cs ind (lo i n) (i + 1) i := by
        rw [mem_obsS]
        have e : i - (i - j) = j := by omega
        rw [e]
        exact ⟨by omega, by omega, hs⟩
      exact hlt s (i - j) hin (by omega)

end Ana
end Hex

import HexProofs.Analysis.MovementSpec
import HexProofs.Lib.IntInst
/-
The small order-law class used by the "extreme" half of C17, the induced order on `Num`, and the
characterisation of "keep the first best" folds (`max`, `min`, the `highestbar` loop).

The laws say that `lt` is a strict weak order (asymmetric, negatively transitive – i.e. the strict
part of a total preorder), that `le` is its complement reversed, and that `ofInt` preserves `<`
(exact on the stated domain |int| < 2^53).  They hold for every linearly ordered field and for the
toy `Int` carrier; they fail for IEEE floats only in the presence of NaN.
-/
set_option linter.unusedSectionVars false
namespace Hex
namespace Ana

class OrdLaws (F : Type) [PyF F] : Prop where
  lt_asymm : ∀ x y : F, PyF.lt x y = true → PyF.lt y x = false
  lt_negtrans : ∀ x y z : F, PyF.lt x y = false → PyF.lt y z = false → PyF.lt x z = false
  le_eq_not_lt : ∀ x y : F, PyF.le x y = !PyF.lt y x
  ofInt_lt : ∀ a b : Int, PyF.lt (PyF.ofInt a : F) (PyF.ofInt b) = decide (a < b)

instance : OrdLaws Int where
  lt_asymm := by
    intro x y h
    change decide (x < y) = true at h
    change decide (y < x) = false
    simp only [decide_eq_true_eq, decide_eq_false_iff_not] at *; omega
  lt_negtrans := by
    intro x y z h1 h2
    change decide (x < y) = false at h1
    change decide (y < z) = false at h2
    change decide (x < z) = false
    simp only [decide_eq_false_iff_not] at *; omega
  le_eq_not_lt := by
    intro x y
    change decide (x ≤ y) = !decide (y < x)
    by_cases h : x ≤ y
    · have : ¬ y < x := by omega
      simp [h, this]
    · have : y < x := by omega
      simp [h, this]
  ofInt_lt := by intro a b; rfl

/-! ### strict weak orders as Bool relations -/

/-- `R a b` reads "`b` is strictly better than `a`" -/
structure StrictWeak {α : Type} (R : α → α → Bool) : Prop where
  asymm : ∀ a b, R a b = true → R b a = false
  negtrans : ∀ a b c, R a b = false → R b c = false → R a c = false

namespace StrictWeak
variable {α : Type} {R : α → α → Bool}

theorem irrefl (h : StrictWeak R) (a : α) : R a a = false := by
  cases hr : R a a with
  | false => rfl
  | true => have := h.asymm a a hr; rw [hr] at this; exact this

theorem trans (h : StrictWeak R) {a b c : α} (h1 : R a b = true) (h2 : R b c = true) : R a c = true := by
  cases hac : R a c with
  | true => rfl
  | false =>
    -- ¬ a<c and (c<b is false by asymmetry) give ¬ a<b
    have hcb : R c b = false := h.asymm b c h2
    have := h.negtrans a c b hac hcb
    rw [h1] at this; cases this

/-- `a < b` and `¬ a < r` give `r < b` -/
theorem lt_of_lt_of_not_lt (h : StrictWeak R) {a b r : α} (h1 : R a b = true) (h2 : R a r = false) :
    R r b = true := by
  cases hrb : R r b with
  | true => rfl
  | false => have := h.negtrans a r b h2 hrb; rw [h1] at this; cases this

theorem flip (h : StrictWeak R) : StrictWeak (fun a b => R b a) where
  asymm := fun a b hab => h.asymm b a hab
  negtrans := fun a b c h1 h2 => h.negtrans c b a h2 h1

theorem comap {β : Type} (h : StrictWeak R) (f : β → α) : StrictWeak (fun a b => R (f a) (f b)) where
  asymm := fun a b hab => h.asymm (f a) (f b) hab
  negtrans := fun a b c h1 h2 => h.negtrans (f a) (f b) (f c) h1 h2

end StrictWeak

/-! ### "keep the first best" -/

theorem foldl_best_spec {α : Type} {R : α → α → Bool} (hR : StrictWeak R) (xs : List α) :
    ∀ (pre : List α) (b : α) (post : List α),
      (∀ r ∈ pre, R r b = true) → (∀ r ∈ post, R b r = false) →
      ∃ pre' post', pre ++ b :: post ++ xs
          = pre' ++ (xs.foldl (fun best y => if R best y then y else best) b) :: post' ∧
        (∀ r ∈ pre', R r (xs.foldl (fun best y => if R best y then y else best) b) = true) ∧
        (∀ r ∈ post', R (xs.foldl (fun best y => if R best y then y else best) b) r = false) := by
  induction xs with
  | nil => intro pre b post h1 h2; exact ⟨pre, post, by simp, h1, h2⟩
  | cons y ys ih =>
    intro pre b post h1 h2
    simp only [List.foldl_cons]
    by_cases hby : R b y = true
    · simp only [hby, if_true]
      obtain ⟨pre', post', he, hp1, hp2⟩ := ih (pre ++ b :: post) y [] (by
        intro r hr
        rcases List.mem_append.1 hr with hr | hr
        · exact hR.trans (h1 r hr) hby
        · rcases List.mem_cons.1 hr with rfl | hr
          · exact hby
          · exact hR.lt_of_lt_of_not_lt hby (h2 r hr)) (by simp)
      exact ⟨pre', post', by rw [← he]; simp, hp1, hp2⟩
    · have hby' : R b y = false := by simpa using hby
      simp only [hby', Bool.false_eq_true, if_false]
      obtain ⟨pre', post', he, hp1, hp2⟩ := ih pre b (post ++ [y]) h1 (by
        intro r hr
        rcases List.mem_append.1 hr with hr | hr
        · exact h2 r hr
        · simp at hr; subst hr; exact hby')
      exact ⟨pre', post', by rw [← he]; simp, hp1, hp2⟩

/-- **The first extremal element.**  `pickFirst R l = some m` splits `l` around `m`: everything
before `m` is strictly worse than `m`, nothing after `m` is strictly better. -/
theorem pickFirst_spec {α : Type} {R : α → α → Bool} (hR : StrictWeak R) (l : List α) (m : α)
    (h : pickFirst R l = some m) :
    ∃ pre post, l = pre ++ m :: post ∧ (∀ r ∈ pre, R r m = true) ∧ (∀ r ∈ post, R m r = false) := by
  cases l with
  | nil => simp [pickFirst] at h
  | cons x xs =>
    simp only [pickFirst, Option.some.injEq] at h
    obtain ⟨pre', post', he, hp1, hp2⟩ := foldl_best_spec hR xs [] x [] (by simp) (by simp)
    rw [h] at he hp1 hp2
    exact ⟨pre', post', by simpa using he, hp1, hp2⟩

theorem pickFirst_isSome {α : Type} (R : α → α → Bool) (l : List α) (h : l ≠ []) :
    ∃ m, pickFirst R l = some m := by
  cases l with
  | nil => exact absurd rfl h
  | cons x xs => exact ⟨_, rfl⟩

theorem pickFirst_nil {α : Type} (R : α → α → Bool) : pickFirst R ([] : List α) = none := rfl

/-- consequences: the pick is a member and nothing in the list is strictly better -/
theorem pickFirst_best {α : Type} {R : α → α → Bool} (hR : StrictWeak R) (l : List α) (m : α)
    (h : pickFirst R l = some m) : m ∈ l ∧ ∀ r ∈ l, R m r = false := by
  obtain ⟨pre, post, rfl, h1, h2⟩ := pickFirst_spec hR l m h
  refine ⟨by simp, ?_⟩
  intro r hr
  rcases List.mem_append.1 hr with hr | hr
  · exact hR.asymm r m (h1 r hr)
  · rcases List.mem_cons.1 hr with rfl | hr
    · exact hR.irrefl _
    · exact h2 r hr

/-! ### the induced order on `Num` -/

variable {F : Type} [PyF F]

theorem Num.lt_toF [OrdLaws F] (a b : Num F) : Num.lt a b = PyF.lt a.toF b.toF := by
  cases a <;> cases b <;> simp only [Num.lt, Num.toF, OrdLaws.ofInt_lt]

theorem Num.le_eq_not_lt [OrdLaws F] (a b : Num F) : Num.le a b = !Num.lt b a := by
  cases a with
  | int x =>
    cases b with
    | int y =>
      simp only [Num.le, Num.lt]
      by_cases h : x ≤ y
      · have : ¬ y < x := by omega
        simp [h, this]
      · have : y < x := by omega
        simp [h, this]
    | flt y => simp only [Num.le, Num.lt, OrdLaws.le_eq_not_lt]
  | flt x => cases b <;> simp only [Num.le, Num.lt, OrdLaws.le_eq_not_lt]

/-- `Num.lt` is a strict weak order: `R a b := a < b` -/
theorem Num.lt_strictWeak [OrdLaws F] : StrictWeak (fun a b : Num F => Num.lt a b) where
  asymm := by intro a b h; rw [Num.lt_toF] at *; exact OrdLaws.lt_asymm _ _ h
  negtrans := by intro a b c h1 h2; rw [Num.lt_toF] at *; exact OrdLaws.lt_negtrans _ _ _ h1 h2

/-- `r.ge l = false` (the test `rising` makes) is `r < l` -/
theorem Num.ge_false_iff [OrdLaws F] (r l : Num F) : Num.ge r l = false ↔ Num.lt r l = true := by
  unfold Num.ge; rw [Num.le_eq_not_lt]; cases Num.lt r l <;> simp

theorem Num.le_false_iff [OrdLaws F] (r l : Num F) : Num.le r l = false ↔ Num.lt l r = true := by
  rw [Num.le_eq_not_lt]; cases Num.lt l r <;> simp

theorem Num.le_true_iff [OrdLaws F] (r l : Num F) : Num.le r l = true ↔ Num.lt l r = false := by
  rw [Num.le_eq_not_lt]; cases Num.lt l r <;> simp

end Ana
end Hex

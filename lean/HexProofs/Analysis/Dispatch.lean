import HexProofs.Analysis.PatternTotal
/-
C16 through the `Amorph` dispatch (`runAnalysis`) and through `_calculate_reading` (`calcKind`).
-/
set_option linter.unusedSectionVars false
namespace Hex
namespace Ana
variable {F : Type} [PyF F]

/-- a pure function lifted with `.ok` inherits causality -/
theorem Causal.ok {f : List (Candle F) → Int → Val F} (h : Causal f) :
    Causal (fun cs i => (.ok (f cs i) : PyM (Val F))) where
  neg := by intro cs i h0 hi; show Except.ok _ = Except.ok _; rw [h.neg cs i h0 hi]
  trunc := by intro cs i h0 hi; show Except.ok _ = Except.ok _; rw [h.trunc cs i h0 hi]

/-- all twenty wrapped functions are causal and index-consistent -/
theorem runAnalysis_causal (a : Analysis) : Causal (fun (cs : List (Candle F)) i => runAnalysis a cs i) := by
  cases a with
  | positive => exact positive_causal.ok
  | negative => exact negative_causal.ok
  | above x y => exact above_causal x y
  | below x y => exact below_causal x y
  | valueRange ind n => exact valueRange_causal ind n
  | rising ind n => exact rising_causal ind n
  | falling ind n => exact falling_causal ind n
  | meanRising ind n => exact meanRising_causal ind n
  | meanFalling ind n => exact meanFalling_causal ind n
  | highest ind n => exact highest_causal ind n
  | lowest ind n => exact lowest_causal ind n
  | highestbar ind n => exact highestbar_causal ind n
  | lowestbar ind n => exact lowestbar_causal ind n
  | cross x y n => exact cross_causal x y n
  | crossover x y n => exact crossover_causal x y n
  | crossunder x y n => exact crossunder_causal x y n
  | doji lb => exact pattern_causal dojiAt_causal lb
  | dojistar lb => exact pattern_causal dojistarAt_causal lb
  | hammer lb => exact pattern_causal hammerAt_causal lb
  | invHammer lb => exact pattern_causal invHammerAt_causal lb

/-- none of the twenty wrapped functions can raise -/
theorem runAnalysis_total (a : Analysis) : Total (fun (cs : List (Candle F)) i => runAnalysis a cs i) := by
  cases a with
  | positive => intro cs i; exact ⟨_, rfl⟩
  | negative => intro cs i; exact ⟨_, rfl⟩
  | above x y => exact above_total x y
  | below x y => exact below_total x y
  | valueRange ind n => exact valueRange_total ind n
  | rising ind n => exact monotone_total ind n _
  | falling ind n => exact monotone_total ind n _
  | meanRising ind n => exact meanCmp_total ind n _
  | meanFalling ind n => exact meanCmp_total ind n _
  | highest ind n => exact extreme_total ind n _
  | lowest ind n => exact extreme_total ind n _
  | highestbar ind n => exact extremeBar_total ind n _
  | lowestbar ind n => exact extremeBar_total ind n _
  | cross x y n => exact cross_total x y n
  | crossover x y n => exact crossover_total x y n
  | crossunder x y n => exact crossunder_total x y n
  | doji lb => intro cs i; exact pattern_total dojiAt_total cs lb (some i)
  | dojistar lb => intro cs i; exact pattern_total dojistarAt_total cs lb (some i)
  | hammer lb => intro cs i; exact pattern_total hammerAt_total cs lb (some i)
  | invHammer lb => intro cs i; exact pattern_total invHammerAt_total cs lb (some i)

/-- `Amorph._calculate_reading`: the wrapped function at the active index; candles untouched -/
theorem calcKind_amorph (ops : Ops F) (ind : Ind F) (a : Analysis) (hk : ind.kind = .amorph a) (x : Ctx F) :
    calcKind ops ind x = (do let v ← runAnalysis a x.cs x.i; return (v, x.cs)) := by
  unfold calcKind
  simp only [hk]

end Ana
end Hex

import HexProofs.Analysis.Lib
/-
C16 for the movement functions: every function depends on the list only through the prefix up to
the evaluated index (`trunc`) and on the index only through the position it denotes (`neg`).
-/
set_option linter.unusedSectionVars false
namespace Hex
namespace Ana
variable {F : Type} [PyF F]

/-- The two facts from which all of C16 (a)/(b) follows for a function of `(candles, index)`. -/
structure Causal {β : Type} (f : List (Candle F) → Int → β) : Prop where
  /-- the negative alias of a valid index gives the same answer -/
  neg : ∀ cs i, 0 ≤ i → i < cs.length → f cs (i - cs.length) = f cs i
  /-- evaluating at `i` on the prefix up to `i` gives the same answer -/
  trunc : ∀ cs i, 0 ≤ i → i < cs.length → f (upto cs i) i = f cs i

/-- the default (latest, `-1`) position of the truncated list -/
theorem Causal.latest {β : Type} {f : List (Candle F) → Int → β} (h : Causal f)
    (cs : List (Candle F)) (i : Int) (h0 : 0 ≤ i) (hi : i < cs.length) :
    f (upto cs i) (-1) = f cs i := by
  have hl := upto_length_int cs i h0 hi
  have h1 := h.neg (upto cs i) i h0 (by omega)
  rw [hl] at h1
  have e : i - (i + 1) = -1 := by omega
  rw [e] at h1
  rw [h1, h.trunc cs i h0 hi]

/-- any index that `absindex` maps to `i` gives the answer of `i` -/
theorem Causal.norm {β : Type} {f : List (Candle F) → Int → β} (h : Causal f)
    (cs : List (Candle F)) (idx i : Int) (hn : absIndex idx cs.length = some i) :
    f cs idx = f cs i := by
  obtain ⟨h0, hi, rfl | rfl⟩ := absIndex_some hn
  · rfl
  · exact h.neg cs i h0 hi

/-! ### positive / negative -/

theorem positive_causal : Causal (fun (cs : List (Candle F)) i => Mov.positive cs i) where
  neg := by
    intro cs i h0 hi
    simp only [Mov.positive]
    rw [validIndex_neg i cs.length h0 hi, validIndex_self i cs.length h0 hi, pyIndex_neg cs i h0 hi]
  trunc := by
    intro cs i h0 hi
    obtain ⟨v1, v2⟩ := validIndex_upto cs i i h0 (le_refl i) hi
    simp only [Mov.positive]
    rw [v1, v2, pyIndex_upto cs i i h0 (le_refl i)]

theorem negative_causal : Causal (fun (cs : List (Candle F)) i => Mov.negative cs i) where
  neg := by
    intro cs i h0 hi
    simp only [Mov.negative]
    rw [validIndex_neg i cs.length h0 hi, validIndex_self i cs.length h0 hi, pyIndex_neg cs i h0 hi]
  trunc := by
    intro cs i h0 hi
    obtain ⟨v1, v2⟩ := validIndex_upto cs i i h0 (le_refl i) hi
    simp only [Mov.negative]
    rw [v1, v2, pyIndex_upto cs i i h0 (le_refl i)]

/-! ### above / below -/

theorem aboveB_upto (cs : List (Candle F)) (a b : String) (i j : Int) (h0 : 0 ≤ j) (hj : j ≤ i)
    (hi : i < cs.length) : Mov.aboveB (upto cs i) a b j = Mov.aboveB cs a b j := by
  unfold Mov.aboveB
  rw [upto_ne_nil cs i (by omega) hi, isEmpty_false_of_lt cs i (by omega) hi,
    readingByIndex_upto cs a i j h0 hj hi, readingByIndex_upto cs b i j h0 hj hi]

theorem belowB_upto (cs : List (Candle F)) (a b : String) (i j : Int) (h0 : 0 ≤ j) (hj : j ≤ i)
    (hi : i < cs.length) : Mov.belowB (upto cs i) a b j = Mov.belowB cs a b j := by
  unfold Mov.belowB
  rw [upto_ne_nil cs i (by omega) hi, isEmpty_false_of_lt cs i (by omega) hi,
    readingByIndex_upto cs a i j h0 hj hi, readingByIndex_upto cs b i j h0 hj hi]

theorem aboveB_neg (cs : List (Candle F)) (a b : String) (i : Int) (h0 : 0 ≤ i) (hi : i < cs.length) :
    Mov.aboveB cs a b (i - cs.length) = Mov.aboveB cs a b i := by
  unfold Mov.aboveB
  rw [readingByIndex_neg cs a i h0 hi, readingByIndex_neg cs b i h0 hi]

theorem belowB_neg (cs : List (Candle F)) (a b : String) (i : Int) (h0 : 0 ≤ i) (hi : i < cs.length) :
    Mov.belowB cs a b (i - cs.length) = Mov.belowB cs a b i := by
  unfold Mov.belowB
  rw [readingByIndex_neg cs a i h0 hi, readingByIndex_neg cs b i h0 hi]

theorem above_causal (a b : String) : Causal (fun (cs : List (Candle F)) i => Mov.above cs a b i) where
  neg := by intro cs i h0 hi; simp only [Mov.above]; rw [aboveB_neg cs a b i h0 hi]
  trunc := by intro cs i h0 hi; simp only [Mov.above]; rw [aboveB_upto cs a b i i h0 (le_refl i) hi]

theorem below_causal (a b : String) : Causal (fun (cs : List (Candle F)) i => Mov.below cs a b i) where
  neg := by intro cs i h0 hi; simp only [Mov.below]; rw [belowB_neg cs a b i h0 hi]
  trunc := by intro cs i h0 hi; simp only [Mov.below]; rw [belowB_upto cs a b i i h0 (le_refl i) hi]

/-! ### value_range -/

theorem valueRange_causal (ind : String) (n : Int) :
    Causal (fun (cs : List (Candle F)) i => Mov.valueRange cs ind n i) where
  neg := by
    intro cs i h0 hi
    simp only [Mov.valueRange]
    rw [absIndex_neg i cs.length h0 hi, absIndex_self i cs.length h0 hi]
  trunc := by
    intro cs i h0 hi
    have hl := upto_length_int cs i h0 hi
    simp only [Mov.valueRange]
    rw [absIndex_self i (upto cs i).length h0 (by omega), absIndex_self i cs.length h0 hi]
    simp only
    rw [cleanReadings_upto cs ind n i i true h0 (le_refl i) hi]

/-! ### rising / falling -/

theorem pySlice_stop_zero {α : Type} (l : List α) (s : Int) (hs : 0 ≤ s) : pySlice l s 0 = [] := by
  unfold pySlice
  have a : ¬ s < 0 := by omega
  have b : ¬ (0 : Int) < 0 := by omega
  have c : ¬ (0 : Int) > (l.length : Int) := by omega
  simp only [a, b, c, if_false]
  rw [if_pos]
  split <;> omega

theorem cleanScalars_zero (cs : List (Candle F)) (ind : String) (n : Int) :
    Mov.cleanScalars cs ind n 0 false = [] := by
  unfold Mov.cleanScalars
  simp only [Bool.false_eq_true, if_false]
  rw [pySlice_stop_zero _ _ (by split <;> omega)]
  rfl

theorem cleanReadings_zero (cs : List (Candle F)) (ind : String) (n : Int) :
    Mov.cleanReadings cs ind n 0 false = [] := by
  unfold Mov.cleanReadings; rw [cleanScalars_zero]; rfl

/-- at the first candle there is nothing to compare with: `rising`/`falling` are false -/
theorem monotone_zero (cs : List (Candle F)) (ind : String) (n : Int) (bad : Num F → Num F → Bool)
    (hi : (0 : Int) < cs.length) : Mov.monotone cs ind n 0 bad = .ok (.bool false) := by
  unfold Mov.monotone
  rw [absIndex_self 0 cs.length (le_refl 0) hi]
  simp only
  split
  · rfl
  · obtain ⟨c, hc, _⟩ := pyIndex_ok cs 0 (le_refl 0) hi
    rw [hc]
    simp only [bind, Except.bind, cleanReadings_zero]
    generalize readingByCandle c ind = v
    cases v with
    | s x => cases x <;> rfl
    | dict k => rfl

theorem monotone_causal (ind : String) (n : Int) (bad : Num F → Num F → Bool) :
    Causal (fun (cs : List (Candle F)) i => Mov.monotone cs ind n i bad) where
  neg := by
    intro cs i h0 hi
    simp only [Mov.monotone]
    rw [absIndex_neg i cs.length h0 hi, absIndex_self i cs.length h0 hi, pyIndex_neg cs i h0 hi]
  trunc := by
    intro cs i h0 hi
    have hl := upto_length_int cs i h0 hi
    by_cases hz : i = 0
    · subst hz
      rw [monotone_zero cs ind n bad hi, monotone_zero (upto cs 0) ind n bad (by omega)]
    · simp only [Mov.monotone]
      rw [absIndex_self i (upto cs i).length h0 (by omega), absIndex_self i cs.length h0 hi]
      simp only
      have e1 : decide ((upto cs i).length < 2) = false := by
        have : ¬ (upto cs i).length < 2 := by omega
        simp [this]
      have e2 : decide (cs.length < 2) = false := by
        have : ¬ cs.length < 2 := by omega
        simp [this]
      rw [e1, e2, pyIndex_upto cs i i h0 (le_refl i), cleanReadings_upto cs ind n i i false h0 (le_refl i) hi]

theorem rising_causal (ind : String) (n : Int) :
    Causal (fun (cs : List (Candle F)) i => Mov.rising cs ind n i) := monotone_causal ind n _
theorem falling_causal (ind : String) (n : Int) :
    Causal (fun (cs : List (Candle F)) i => Mov.falling cs ind n i) := monotone_causal ind n _

/-! ### mean_rising / mean_falling -/

theorem meanCmp_zero (cs : List (Candle F)) (ind : String) (n : Int) (good : Num F → Num F → Bool)
    (hi : (0 : Int) < cs.length) : Mov.meanCmp cs ind n 0 good = .ok (.bool false) := by
  unfold Mov.meanCmp
  rw [absIndex_self 0 cs.length (le_refl 0) hi]
  simp only
  split
  · rfl
  · obtain ⟨c, hc, _⟩ := pyIndex_ok cs 0 (le_refl 0) hi
    rw [hc]
    simp only [bind, Except.bind, cleanReadings_zero]
    generalize readingByCandle c ind = v
    cases v with
    | s x => cases x <;> rfl
    | dict k => rfl

theorem meanCmp_causal (ind : String) (n : Int) (good : Num F → Num F → Bool) :
    Causal (fun (cs : List (Candle F)) i => Mov.meanCmp cs ind n i good) where
  neg := by
    intro cs i h0 hi
    simp only [Mov.meanCmp]
    rw [absIndex_neg i cs.length h0 hi, absIndex_self i cs.length h0 hi]
  trunc := by
    intro cs i h0 hi
    have hl := upto_length_int cs i h0 hi
    by_cases hz : i = 0
    · subst hz
      rw [meanCmp_zero cs ind n good hi, meanCmp_zero (upto cs 0) ind n good (by omega)]
    · simp only [Mov.meanCmp]
      rw [absIndex_self i (upto cs i).length h0 (by omega), absIndex_self i cs.length h0 hi]
      simp only
      have e1 : decide ((upto cs i).length < 2) = false := by
        have : ¬ (upto cs i).length < 2 := by omega
        simp [this]
      have e2 : decide (cs.length < 2) = false := by
        have : ¬ cs.length < 2 := by omega
        simp [this]
      rw [e1, e2, pyIndex_upto cs i i h0 (le_refl i), cleanReadings_upto cs ind n i i false h0 (le_refl i) hi]

theorem meanRising_causal (ind : String) (n : Int) :
    Causal (fun (cs : List (Candle F)) i => Mov.meanRising cs ind n i) := meanCmp_causal ind n _
theorem meanFalling_causal (ind : String) (n : Int) :
    Causal (fun (cs : List (Candle F)) i => Mov.meanFalling cs ind n i) := meanCmp_causal ind n _

/-! ### highest / lowest -/

theorem extreme_causal (ind : String) (n : Int) (better : Num F → Num F → Bool) :
    Causal (fun (cs : List (Candle F)) i => Mov.extreme cs ind n i better) where
  neg := by
    intro cs i h0 hi
    simp only [Mov.extreme]
    rw [absIndex_neg i cs.length h0 hi, absIndex_self i cs.length h0 hi]
  trunc := by
    intro cs i h0 hi
    have hl := upto_length_int cs i h0 hi
    simp only [Mov.extreme]
    rw [absIndex_self i (upto cs i).length h0 (by omega), absIndex_self i cs.length h0 hi]
    simp only
    rw [upto_ne_nil cs i h0 hi, isEmpty_false_of_lt cs i h0 hi,
      cleanScalars_upto cs ind n i i true h0 (le_refl i) hi]

theorem highest_causal (ind : String) (n : Int) :
    Causal (fun (cs : List (Candle F)) i => Mov.highest cs ind n i) := extreme_causal ind n _
theorem lowest_causal (ind : String) (n : Int) :
    Causal (fun (cs : List (Candle F)) i => Mov.lowest cs ind n i) := extreme_causal ind n _

/-! ### highestbar / lowestbar -/

theorem extremeBar_causal (ind : String) (n : Int) (better : Num F → Num F → Bool) :
    Causal (fun (cs : List (Candle F)) i => Mov.extremeBar cs ind n i better) where
  neg := by
    intro cs i h0 hi
    simp only [Mov.extremeBar]
    rw [absIndex_neg i cs.length h0 hi, absIndex_self i cs.length h0 hi]
  trunc := by
    intro cs i h0 hi
    have hl := upto_length_int cs i h0 hi
    simp only [Mov.extremeBar]
    rw [absIndex_self i (upto cs i).length h0 (by omega), absIndex_self i cs.length h0 hi]
    simp only
    congr 1
    apply foldlM_congr
    intro s p hp
    have hm := (mem_pyRangeDown _ _ _).1 (List.fst_mem_of_mem_zipIdx hp)
    have hp0 : 0 ≤ p.1 := by
      have := hm.1
      split at this <;> omega
    rw [readingByIndex_upto cs ind i p.1 hp0 hm.2 hi]

theorem highestbar_causal (ind : String) (n : Int) :
    Causal (fun (cs : List (Candle F)) i => Mov.highestbar cs ind n i) := extremeBar_causal ind n _
theorem lowestbar_causal (ind : String) (n : Int) :
    Causal (fun (cs : List (Candle F)) i => Mov.lowestbar cs ind n i) := extremeBar_causal ind n _

/-! ### cross / crossover / crossunder -/

theorem mem_crossIdxs (i n x : Int) (h : x ∈ Mov.crossIdxs i n) : 1 ≤ x ∧ x ≤ i ∧ i - n < x := by
  unfold Mov.crossIdxs at h
  have hm := (mem_pyRangeDown _ _ _).1 h
  have := hm.1
  split at this <;> omega

theorem cross_causal (a b : String) (n : Int) :
    Causal (fun (cs : List (Candle F)) i => Mov.cross cs a b n i) where
  neg := by
    intro cs i h0 hi
    simp only [Mov.cross]
    rw [absIndex_neg i cs.length h0 hi, absIndex_self i cs.length h0 hi]
  trunc := by
    intro cs i h0 hi
    have hl := upto_length_int cs i h0 hi
    simp only [Mov.cross]
    rw [absIndex_self i (upto cs i).length h0 (by omega), absIndex_self i cs.length h0 hi]
    simp only
    congr 1
    apply anyM_congr
    intro x hx
    obtain ⟨x1, xi, _⟩ := mem_crossIdxs i n x hx
    rw [readingByIndex_upto cs b i x (by omega) xi hi, readingByIndex_upto cs a i x (by omega) xi hi,
      readingByIndex_upto cs a i (x - 1) (by omega) (by omega) hi,
      readingByIndex_upto cs b i (x - 1) (by omega) (by omega) hi]

theorem crossover_causal (a b : String) (n : Int) :
    Causal (fun (cs : List (Candle F)) i => Mov.crossover cs a b n i) where
  neg := by
    intro cs i h0 hi
    simp only [Mov.crossover]
    rw [absIndex_neg i cs.length h0 hi, absIndex_self i cs.length h0 hi]
  trunc := by
    intro cs i h0 hi
    have hl := upto_length_int cs i h0 hi
    simp only [Mov.crossover]
    rw [absIndex_self i (upto cs i).length h0 (by omega), absIndex_self i cs.length h0 hi]
    simp only
    congr 1
    apply anyM_congr
    intro x hx
    obtain ⟨x1, xi, _⟩ := mem_crossIdxs i n x hx
    rw [aboveB_upto cs a b i x (by omega) xi hi, belowB_upto cs a b i (x - 1) (by omega) (by omega) hi]

theorem crossunder_causal (a b : String) (n : Int) :
    Causal (fun (cs : List (Candle F)) i => Mov.crossunder cs a b n i) where
  neg := by
    intro cs i h0 hi
    simp only [Mov.crossunder]
    rw [absIndex_neg i cs.length h0 hi, absIndex_self i cs.length h0 hi]
  trunc := by
    intro cs i h0 hi
    have hl := upto_length_int cs i h0 hi
    simp only [Mov.crossunder]
    rw [absIndex_self i (upto cs i).length h0 (by omega), absIndex_self i cs.length h0 hi]
    simp only
    congr 1
    apply anyM_congr
    intro x hx
    obtain ⟨x1, xi, _⟩ := mem_crossIdxs i n x hx
    rw [belowB_upto cs a b i x (by omega) xi hi, aboveB_upto cs a b i (x - 1) (by omega) (by omega) hi]

end Ana
end Hex

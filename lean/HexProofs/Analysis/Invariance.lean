import HexProofs.Analysis.Final
import HexProofs.Numeric.NumAlg
/-
C17, last clause: over an exact ordered field no pattern predicate (and neither `positive` /
`negative`) changes when all prices are multiplied by a positive factor and shifted by a constant.
-/
set_option linter.unusedSectionVars false
namespace Hex
namespace Ana

/-- transform the four prices of every candle -/
def mapC {F : Type} (g : Num F → Num F) (c : Candle F) : Candle F :=
  { c with o := g c.o, h := g c.h, l := g c.l, c := g c.c }

def mapPrices {F : Type} (g : Num F → Num F) (cs : List (Candle F)) : List (Candle F) := cs.map (mapC g)

/-- `x * k + s` in Python arithmetic -/
def aff {F : Type} [PyF F] (k s : Num F) (x : Num F) : Num F := (x.mul k).add s

variable {K : Type} [Field K] [LinearOrder K] [IsStrictOrderedRing K] [LawfulPyF K]
open _root_.Hex.Num

/-- the order laws and the `abs` laws of C17 hold in every lawful ordered field -/
instance : OrdLaws K where
  lt_asymm := by
    intro x y h
    rw [LawfulPyF.lt_iff] at h
    cases h' : PyF.lt y x with
    | false => rfl
    | true => rw [LawfulPyF.lt_iff] at h'; exact absurd h (not_lt.2 (le_of_lt h'))
  lt_negtrans := by
    intro x y z h1 h2
    cases h' : PyF.lt x z with
    | false => rfl
    | true =>
      rw [LawfulPyF.lt_iff] at h'
      have a : ¬ x < y := fun h => by rw [(LawfulPyF.lt_iff x y).2 h] at h1; cases h1
      have b : ¬ y < z := fun h => by rw [(LawfulPyF.lt_iff y z).2 h] at h2; cases h2
      exact absurd h' (not_lt.2 (le_trans (not_lt.1 b) (not_lt.1 a)))
  le_eq_not_lt := by
    intro x y
    rw [Bool.eq_iff_iff, LawfulPyF.le_iff]
    cases h : PyF.lt y x with
    | false =>
      simp only [Bool.not_false, iff_true]
      exact not_lt.1 (fun hh => by rw [(LawfulPyF.lt_iff y x).2 hh] at h; cases h)
    | true =>
      simp only [Bool.not_true, Bool.false_eq_true, iff_false, not_le]
      exact (LawfulPyF.lt_iff y x).1 h
  ofInt_lt := by
    intro a b
    rw [Bool.eq_iff_iff, LawfulPyF.lt_iff, LawfulPyF.ofInt_eq, LawfulPyF.ofInt_eq, Int.cast_lt]
    simp

instance : AbsLaws K where
  abs_sub_of_le := by
    intro x y h
    rw [LawfulPyF.le_iff] at h
    rw [LawfulPyF.abs_eq, LawfulPyF.sub_eq, abs_of_nonneg (sub_nonneg.2 h)]
  abs_sub_of_ge := by
    intro x y h
    rw [LawfulPyF.le_iff] at h
    rw [LawfulPyF.abs_eq, LawfulPyF.sub_eq, LawfulPyF.sub_eq, abs_of_nonpos (sub_nonpos.2 h)]; ring

/-- comparisons only see `toF` -/
theorem lt_congr {a b a' b' : Num K} (h : a'.toF < b'.toF ↔ a.toF < b.toF) : Num.lt a' b' = Num.lt a b := by
  rw [Bool.eq_iff_iff, Num.lt_iff, Num.lt_iff]; exact h
theorem le_congr {a b a' b' : Num K} (h : a'.toF ≤ b'.toF ↔ a.toF ≤ b.toF) : Num.le a' b' = Num.le a b := by
  rw [Bool.eq_iff_iff, Num.le_iff, Num.le_iff]; exact h

theorem lastN_map (g : Candle K → Candle K) (cs : List (Candle K)) (len j : Int) :
    lastN (cs.map g) len j = (lastN cs len j).map g := by
  unfold lastN; rw [List.map_take, List.map_drop]

theorem sum_scale (κ : K) (f f' : Candle K → K) (l : List (Candle K)) (g : Candle K → Candle K)
    (hf : ∀ c, f' (g c) = κ * f c) : ((l.map g).map f').sum = κ * (l.map f).sum := by
  induction l with
  | nil => simp
  | cons c r ih => simp only [List.map_cons, List.sum_cons, ih, hf]; ring

theorem toF_lit (p q : Int) (hq : q ≠ 0) : (Pat.lit p q : Num K).toF = (p : K) / (q : K) := by
  have : ((q : Int) : K) ≠ 0 := Int.cast_ne_zero.2 hq
  simp only [Pat.lit, toF_flt, LawfulPyF.ofInt_eq]
  rw [LawfulPyF.div_eq _ _ this]

theorem toF_aff (k s x : Num K) : (aff k s x).toF = x.toF * k.toF + s.toF := by
  unfold aff; rw [toF_add, toF_mul]

section candle
variable (k s : Num K) (hk : 0 < k.toF)
include hk

theorem aff_lt (a b : Num K) : (aff k s a).toF < (aff k s b).toF ↔ a.toF < b.toF := by
  rw [toF_aff, toF_aff]
  constructor
  · intro h; nlinarith
  · intro h; nlinarith

theorem aff_le (a b : Num K) : (aff k s a).toF ≤ (aff k s b).toF ↔ a.toF ≤ b.toF := by
  rw [toF_aff, toF_aff]
  constructor
  · intro h; nlinarith
  · intro h; nlinarith

theorem abs_sub_aff (a b : Num K) :
    ((aff k s a).sub (aff k s b)).abs.toF = k.toF * (a.sub b).abs.toF := by
  rw [toF_abs, toF_sub, toF_abs, toF_sub, toF_aff, toF_aff]
  have : a.toF * k.toF + s.toF - (b.toF * k.toF + s.toF) = k.toF * (a.toF - b.toF) := by ring
  rw [this, abs_mul, abs_of_pos hk]

theorem positive_mapC (c : Candle K) : (mapC (aff k s) c).positive = c.positive :=
  lt_congr ((aff_lt k s hk c.o c.c))

theorem negative_mapC (c : Candle K) : (mapC (aff k s) c).negative = c.negative :=
  lt_congr ((aff_lt k s hk c.c c.o))

theorem realbody_mapC (c : Candle K) : (mapC (aff k s) c).realbody.toF = k.toF * c.realbody.toF :=
  abs_sub_aff k s hk c.o c.c

theorem highLow_mapC (c : Candle K) : (mapC (aff k s) c).highLow.toF = k.toF * c.highLow.toF :=
  abs_sub_aff k s hk c.h c.l

theorem shadowUpper_mapC (c : Candle K) : (mapC (aff k s) c).shadowUpper.toF = k.toF * c.shadowUpper.toF := by
  unfold Candle.shadowUpper
  rw [positive_mapC k s hk c]
  cases c.positive
  · exact abs_sub_aff k s hk c.h c.o
  · exact abs_sub_aff k s hk c.h c.c

theorem shadowLower_mapC (c : Candle K) : (mapC (aff k s) c).shadowLower.toF = k.toF * c.shadowLower.toF := by
  unfold Candle.shadowLower
  rw [positive_mapC k s hk c]
  cases c.positive
  · exact abs_sub_aff k s hk c.l c.c
  · exact abs_sub_aff k s hk c.l c.o

theorem min2_aff (a b : Num K) : (Num.min2 (aff k s a) (aff k s b)).toF = (Num.min2 a b).toF * k.toF + s.toF := by
  rw [toF_min2, toF_min2, toF_aff, toF_aff]
  rcases le_total a.toF b.toF with h | h
  · rw [min_eq_left h, min_eq_left (by nlinarith)]
  · rw [min_eq_right h, min_eq_right (by nlinarith)]

theorem max2_aff (a b : Num K) : (Num.max2 (aff k s a) (aff k s b)).toF = (Num.max2 a b).toF * k.toF + s.toF := by
  rw [toF_max2, toF_max2, toF_aff, toF_aff]
  rcases le_total a.toF b.toF with h | h
  · rw [max_eq_right h, max_eq_right (by nlinarith)]
  · rw [max_eq_left h, max_eq_left (by nlinarith)]

theorem gapUp_mapC (c p : Candle K) :
    Pat.realbodyGapUp (mapC (aff k s) c) (mapC (aff k s) p) = Pat.realbodyGapUp c p := by
  unfold Pat.realbodyGapUp Num.gt
  apply lt_congr
  show (Num.max2 (aff k s p.o) (aff k s p.c)).toF < (Num.min2 (aff k s c.o) (aff k s c.c)).toF ↔ _
  rw [max2_aff k s hk, min2_aff k s hk]
  constructor
  · intro h; nlinarith
  · intro h; nlinarith

theorem gapDown_mapC (c p : Candle K) :
    Pat.realbodyGapDown (mapC (aff k s) c) (mapC (aff k s) p) = Pat.realbodyGapDown c p := by
  unfold Pat.realbodyGapDown
  apply lt_congr
  show (Num.max2 (aff k s c.o) (aff k s c.c)).toF < (Num.min2 (aff k s p.o) (aff k s p.c)).toF ↔ _
  rw [max2_aff k s hk, min2_aff k s hk]
  constructor
  · intro h; nlinarith
  · intro h; nlinarith

/-! ### averages and thresholds scale -/

theorem avgRef_scale (f : Candle K → Num K) (hf : ∀ c, (f (mapC (aff k s) c)).toF = k.toF * (f c).toF)
    (cs : List (Candle K)) (len j : Int) (hlen : len ≠ 0) :
    (avgRef f (mapPrices (aff k s) cs) len j).toF = k.toF * (avgRef f cs len j).toF := by
  have hne : ((len : Int) : K) ≠ 0 := Int.cast_ne_zero.2 hlen
  unfold avgRef mapPrices
  rw [lastN_map]
  simp only [toF_flt, LawfulPyF.ofInt_eq, toF_pySum]
  rw [LawfulPyF.div_eq _ _ hne, LawfulPyF.div_eq _ _ hne]
  have := sum_scale k.toF (fun c => (f c).toF) (fun c => (f c).toF) (lastN cs len j) (mapC (aff k s)) hf
  simp only [List.map_map] at this ⊢
  rw [show ((fun c => (f c).toF) ∘ mapC (aff k s)) = (Num.toF ∘ f ∘ mapC (aff k s)) from rfl] at this
  rw [this]
  rw [show ((fun c => (f c).toF)) = (Num.toF ∘ f) from rfl]
  ring

theorem dojiThr_scale (cs : List (Candle K)) (j : Int) :
    (dojiThr (mapPrices (aff k s) cs) j).toF = k.toF * (dojiThr cs j).toF := by
  unfold dojiThr
  rw [toF_mul, toF_mul, avgRef_scale k s hk _ (highLow_mapC k s hk) _ _ _ (by decide)]; ring

theorem bodyAvg_scale (cs : List (Candle K)) (j : Int) :
    (bodyAvg (mapPrices (aff k s) cs) j).toF = k.toF * (bodyAvg cs j).toF := by
  unfold bodyAvg
  rw [toF_mul, toF_mul, avgRef_scale k s hk _ (realbody_mapC k s hk) _ _ _ (by decide)]; ring

theorem nearThr_scale (cs : List (Candle K)) (j : Int) :
    (nearThr (mapPrices (aff k s) cs) j).toF = k.toF * (nearThr cs j).toF := by
  unfold nearThr
  rw [toF_mul, toF_mul, avgRef_scale k s hk _ (highLow_mapC k s hk) _ _ _ (by decide)]; ring

theorem candleAt_map (cs : List (Candle K)) (j : Int) (h0 : 0 ≤ j) (hj : j < cs.length) :
    candleAt (mapPrices (aff k s) cs) j = mapC (aff k s) (candleAt cs j) := by
  unfold candleAt mapPrices
  have hlt : j.toNat < cs.length := by omega
  rw [List.getElem?_map, List.getElem?_eq_getElem hlt]; rfl

/-- comparing two scaled quantities -/
theorem lt_scale {a b a' b' : Num K} (ha : a'.toF = k.toF * a.toF) (hb : b'.toF = k.toF * b.toF) :
    Num.lt a' b' = Num.lt a b := by
  apply lt_congr; rw [ha, hb]
  constructor
  · intro h; nlinarith
  · intro h; nlinarith

theorem le_scale {a b a' b' : Num K} (ha : a'.toF = k.toF * a.toF) (hb : b'.toF = k.toF * b.toF) :
    Num.le a' b' = Num.le a b := by
  apply le_congr; rw [ha, hb]
  constructor
  · intro h; nlinarith
  · intro h; nlinarith

/-! ### the reference tests are invariant -/

theorem dojiRef_inv (cs : List (Candle K)) (j : Int) (h0 : 1 ≤ j) (hj : j < cs.length) :
    dojiRef (mapPrices (aff k s) cs) j = dojiRef cs j := by
  unfold dojiRef
  rw [candleAt_map k s hk cs j (by omega) hj]
  exact lt_scale k hk (realbody_mapC k s hk _) (dojiThr_scale k s hk cs j)

theorem dojistarRef_inv (cs : List (Candle K)) (j : Int) (h0 : 1 ≤ j) (hj : j < cs.length) :
    dojistarRef (mapPrices (aff k s) cs) j = dojistarRef cs j := by
  unfold dojistarRef
  simp only
  rw [candleAt_map k s hk cs j (by omega) hj, candleAt_map k s hk cs (j - 1) (by omega) (by omega),
    positive_mapC k s hk, negative_mapC k s hk, gapUp_mapC k s hk, gapDown_mapC k s hk]
  have e1 : (mapC (aff k s) (candleAt cs (j - 1))).realbody.gt (bodyAvg (mapPrices (aff k s) cs) (j - 1))
      = (candleAt cs (j - 1)).realbody.gt (bodyAvg cs (j - 1)) :=
    lt_scale k hk (bodyAvg_scale k s hk cs (j - 1)) (realbody_mapC k s hk _)
  have e2 : (mapC (aff k s) (candleAt cs j)).realbody.le (dojiThr (mapPrices (aff k s) cs) j)
      = (candleAt cs j).realbody.le (dojiThr cs j) :=
    le_scale k hk (realbody_mapC k s hk _) (dojiThr_scale k s hk cs j)
  rw [e1, e2]

theorem hammerRef_inv (cs : List (Candle K)) (j : Int) (h0 : 1 ≤ j) (hj : j < cs.length) :
    hammerRef (mapPrices (aff k s) cs) j = hammerRef cs j := by
  unfold hammerRef
  simp only
  rw [candleAt_map k s hk cs j (by omega) hj, candleAt_map k s hk cs (j - 1) (by omega) (by omega)]
  have e1 : (mapC (aff k s) (candleAt cs j)).realbody.lt (bodyAvg (mapPrices (aff k s) cs) j)
      = (candleAt cs j).realbody.lt (bodyAvg cs j) :=
    lt_scale k hk (realbody_mapC k s hk _) (bodyAvg_scale k s hk cs j)
  have e2 : (mapC (aff k s) (candleAt cs j)).shadowLower.gt (mapC (aff k s) (candleAt cs j)).realbody
      = (candleAt cs j).shadowLower.gt (candleAt cs j).realbody :=
    lt_scale k hk (realbody_mapC k s hk _) (shadowLower_mapC k s hk _)
  have e3 : (mapC (aff k s) (candleAt cs j)).shadowUpper.lt (dojiThr (mapPrices (aff k s) cs) j)
      = (candleAt cs j).shadowUpper.lt (dojiThr cs j) :=
    lt_scale k hk (shadowUpper_mapC k s hk _) (dojiThr_scale k s hk cs j)
  have e4 : (Num.min2 (mapC (aff k s) (candleAt cs j)).c (mapC (aff k s) (candleAt cs j)).o).le
        ((mapC (aff k s) (candleAt cs (j - 1))).l.add (nearThr (mapPrices (aff k s) cs) (j - 1)))
      = (Num.min2 (candleAt cs j).c (candleAt cs j).o).le ((candleAt cs (j - 1)).l.add (nearThr cs (j - 1))) := by
    apply le_congr
    show (Num.min2 (aff k s (candleAt cs j).c) (aff k s (candleAt cs j).o)).toF
        ≤ ((aff k s (candleAt cs (j - 1)).l).add (nearThr (mapPrices (aff k s) cs) (j - 1))).toF ↔ _
    rw [min2_aff k s hk, toF_add, toF_add, toF_aff, nearThr_scale k s hk]
    constructor
    · intro h; nlinarith
    · intro h; nlinarith
  rw [e1, e2, e3, e4]

theorem invHammerRef_inv (cs : List (Candle K)) (j : Int) (h0 : 1 ≤ j) (hj : j < cs.length) :
    invHammerRef (mapPrices (aff k s) cs) j = invHammerRef cs j := by
  unfold invHammerRef
  simp only
  rw [candleAt_map k s hk cs j (by omega) hj, candleAt_map k s hk cs (j - 1) (by omega) (by omega),
    gapDown_mapC k s hk]
  have e1 : (mapC (aff k s) (candleAt cs j)).realbody.lt (bodyAvg (mapPrices (aff k s) cs) j)
      = (candleAt cs j).realbody.lt (bodyAvg cs j) :=
    lt_scale k hk (realbody_mapC k s hk _) (bodyAvg_scale k s hk cs j)
  have e2 : (mapC (aff k s) (candleAt cs j)).shadowUpper.gt (mapC (aff k s) (candleAt cs j)).realbody
      = (candleAt cs j).shadowUpper.gt (candleAt cs j).realbody :=
    lt_scale k hk (realbody_mapC k s hk _) (shadowUpper_mapC k s hk _)
  have e3 : (mapC (aff k s) (candleAt cs j)).shadowLower.lt (dojiThr (mapPrices (aff k s) cs) j)
      = (candleAt cs j).shadowLower.lt (dojiThr cs j) :=
    lt_scale k hk (shadowLower_mapC k s hk _) (dojiThr_scale k s hk cs j)
  rw [e1, e2, e3]

end candle

theorem getOrIndexError_map {α β : Type} (f : α → β) (o : Option α) :
    getOrIndexError (o.map f) = (getOrIndexError o).map f := by
  cases o <;> rfl

theorem pyIndex_map {α β : Type} (f : α → β) (l : List α) (i : Int) :
    pyIndex (l.map f) i = (pyIndex l i).map f := by
  unfold pyIndex
  simp only [List.length_map, List.getElem?_map, getOrIndexError_map]
  generalize (if i < 0 then (l.length : Int) + i else i) = j
  split <;> rfl

section final
variable {K : Type} [Field K] [LinearOrder K] [IsStrictOrderedRing K] [LawfulPyF K]

theorem length_mapPrices (g : Num K → Num K) (cs : List (Candle K)) : (mapPrices g cs).length = cs.length := by
  unfold mapPrices; simp

/-- **Scale / shift invariance of the four patterns.** -/
theorem patterns_invariant (cs : List (Candle K)) (lb index : Option Int) (k s : Num K) (hk : 0 < k.toF) :
    Pat.doji (mapPrices (aff k s) cs) lb index = Pat.doji cs lb index ∧
    Pat.dojistar (mapPrices (aff k s) cs) lb index = Pat.dojistar cs lb index ∧
    Pat.hammer (mapPrices (aff k s) cs) lb index = Pat.hammer cs lb index ∧
    Pat.invHammer (mapPrices (aff k s) cs) lb index = Pat.invHammer cs lb index :=
  ⟨pattern_invariant dojiAt_spec dojiAt_causal cs _ (length_mapPrices _ cs)
      (fun j h10 hj => dojiRef_inv k s hk cs j (by omega) hj) lb index,
   pattern_invariant dojistarAt_spec dojistarAt_causal cs _ (length_mapPrices _ cs)
      (fun j h10 hj => dojistarRef_inv k s hk cs j (by omega) hj) lb index,
   pattern_invariant hammerAt_spec hammerAt_causal cs _ (length_mapPrices _ cs)
      (fun j h10 hj => hammerRef_inv k s hk cs j (by omega) hj) lb index,
   pattern_invariant invHammerAt_spec invHammerAt_causal cs _ (length_mapPrices _ cs)
      (fun j h10 hj => invHammerRef_inv k s hk cs j (by omega) hj) lb index⟩

/-- … and of `positive` / `negative` -/
theorem positive_negative_invariant (cs : List (Candle K)) (i : Int) (k s : Num K) (hk : 0 < k.toF) :
    Mov.positive (mapPrices (aff k s) cs) i = Mov.positive cs i ∧
    Mov.negative (mapPrices (aff k s) cs) i = Mov.negative cs i := by
  unfold Mov.positive Mov.negative
  rw [length_mapPrices]
  unfold mapPrices
  rw [pyIndex_map]
  constructor
  · split
    · rfl
    · cases pyIndex cs i with
      | error e => rfl
      | ok c => simp only [Except.map]; rw [positive_mapC k s hk c]
  · split
    · rfl
    · cases pyIndex cs i with
      | error e => rfl
      | ok c => simp only [Except.map]; rw [negative_mapC k s hk c]

end final

end Ana
end Hex

import HexProofs.Analysis.MovementOrder
/-
C17: candle geometry and the pattern predicates as the conjunction of their documented clauses
over an explicit reference average (list slicing instead of the index loop).
-/
set_option linter.unusedSectionVars false
namespace Hex
namespace Ana
variable {F : Type} [PyF F]

/-! ### candle geometry (every carrier) -/

theorem realbody_def (c : Candle F) : c.realbody = (c.o.sub c.c).abs := rfl
theorem highLow_def (c : Candle F) : c.highLow = (c.h.sub c.l).abs := rfl
theorem positive_def (c : Candle F) : c.positive = Num.lt c.o c.c := rfl
theorem negative_def (c : Candle F) : c.negative = Num.lt c.c c.o := rfl

/-- upper shadow `= |high - max(open, close)|` (Python's `max`: the first maximal argument) -/
theorem shadowUpper_eq (c : Candle F) : c.shadowUpper = (c.h.sub (Num.max2 c.o c.c)).abs := by
  unfold Candle.shadowUpper Candle.positive Num.max2 Num.gt
  cases Num.lt c.o c.c <;> rfl

/-- lower shadow `= |low - min(close, open)|` -/
theorem shadowLower_eq (c : Candle F) : c.shadowLower = (c.l.sub (Num.min2 c.c c.o)).abs := by
  unfold Candle.shadowLower Candle.positive Num.min2
  cases Num.lt c.o c.c <;> rfl

/-- a candle is never both positive and negative (needs asymmetry of `<`) -/
theorem not_positive_and_negative [OrdLaws F] (c : Candle F) : (c.positive && c.negative) = false := by
  rw [positive_def, negative_def]
  cases h : Num.lt c.o c.c with
  | false => rfl
  | true => simp [Num.lt_strictWeak.asymm _ _ h]

/-- the two facts about `abs (x - y)` that turn the `abs` forms into the documented differences -/
class AbsLaws (F : Type) [PyF F] : Prop where
  abs_sub_of_le : ∀ x y : F, PyF.le y x = true → PyF.abs (PyF.sub x y) = PyF.sub x y
  abs_sub_of_ge : ∀ x y : F, PyF.le x y = true → PyF.abs (PyF.sub x y) = PyF.sub y x

instance : AbsLaws Int where
  abs_sub_of_le := by
    intro x y h
    change decide (y ≤ x) = true at h
    change ((Int.natAbs (x - y) : Nat) : Int) = x - y
    simp only [decide_eq_true_eq] at h; omega
  abs_sub_of_ge := by
    intro x y h
    change decide (x ≤ y) = true at h
    change ((Int.natAbs (x - y) : Nat) : Int) = y - x
    simp only [decide_eq_true_eq] at h; omega

theorem Num.abs_sub_of_le [AbsLaws F] (a b : Num F) (h : Num.le b a = true) : (a.sub b).abs = a.sub b := by
  cases a with
  | int x =>
    cases b with
    | int y =>
      simp only [Num.le, decide_eq_true_eq] at h
      simp only [Num.sub, Num.abs]
      congr 1; omega
    | flt y => simp only [Num.sub, Num.abs]; congr 1; exact AbsLaws.abs_sub_of_le _ _ h
  | flt x => cases b <;> (simp only [Num.sub, Num.abs]; congr 1; exact AbsLaws.abs_sub_of_le _ _ h)

theorem Num.abs_sub_of_ge [AbsLaws F] (a b : Num F) (h : Num.le a b = true) : (a.sub b).abs = b.sub a := by
  cases a with
  | int x =>
    cases b with
    | int y =>
      simp only [Num.le, decide_eq_true_eq] at h
      simp only [Num.sub, Num.abs]
      congr 1; omega
    | flt y => simp only [Num.sub, Num.abs]; congr 1; exact AbsLaws.abs_sub_of_ge _ _ h
  | flt x => cases b <;> (simp only [Num.sub, Num.abs]; congr 1; exact AbsLaws.abs_sub_of_ge _ _ h)

/-- a well-formed candle: `low ≤ min(close, open)`, `max(open, close) ≤ high`, `low ≤ high` -/
structure WellFormed (c : Candle F) : Prop where
  top : Num.le (Num.max2 c.o c.c) c.h = true
  bottom : Num.le c.l (Num.min2 c.c c.o) = true
  span : Num.le c.l c.h = true

/-- on a well-formed candle the shadows and the range are the documented differences -/
theorem geometry_wellFormed [AbsLaws F] (c : Candle F) (w : WellFormed c) :
    c.shadowUpper = c.h.sub (Num.max2 c.o c.c) ∧
    c.shadowLower = (Num.min2 c.c c.o).sub c.l ∧
    c.highLow = c.h.sub c.l :=
  ⟨by rw [shadowUpper_eq, Num.abs_sub_of_le _ _ w.top],
   by rw [shadowLower_eq, Num.abs_sub_of_ge _ _ w.bottom],
   by rw [highLow_def, Num.abs_sub_of_le _ _ w.span]⟩

/-- the body is `max(open, close) - min(close, open)` -/
theorem realbody_max_min [AbsLaws F] [OrdLaws F] (c : Candle F) :
    c.realbody = (Num.max2 c.o c.c).sub (Num.min2 c.c c.o) := by
  rw [realbody_def]
  unfold Num.max2 Num.min2 Num.gt
  cases h : Num.lt c.o c.c with
  | true =>
    simp only [if_true]
    apply Num.abs_sub_of_ge
    rw [Num.le_true_iff]; exact Num.lt_strictWeak.asymm _ _ h
  | false =>
    simp only [Bool.false_eq_true, if_false]
    apply Num.abs_sub_of_le
    rw [Num.le_true_iff]; exact h

/-! ### the reference average -/

/-- the `length` candles ending at candle `j` -/
def lastN (cs : List (Candle F)) (length j : Int) : List (Candle F) :=
  (cs.drop (j + 1 - length).toNat).take length.toNat

/-- `sum(f(c) for c in the last length candles) / length` -/
def avgRef (f : Candle F → Num F) (cs : List (Candle F)) (length j : Int) : Num F :=
  .flt (PyF.div (pySum ((lastN cs length j).map f)).toF (PyF.ofInt length))

theorem mapM_pyIndex (f : Candle F → Num F) (cs : List (Candle F)) (n : Nat) :
    ∀ s e : Int, 0 ≤ s → e ≤ cs.length → (e - s).toNat = n →
      (pyRange s e).mapM (fun i => do return f (← pyIndex cs i))
        = (.ok (((cs.drop s.toNat).take (e - s).toNat).map f) : PyM (List (Num F))) := by
  induction n with
  | zero =>
    intro s e hs he hn
    rw [pyRange_nil s e (by omega), hn]; rfl
  | succ k ih =>
    intro s e hs he hn
    rw [pyRange_cons s e (by omega), List.mapM_cons]
    obtain ⟨c, hc, hg⟩ := pyIndex_ok cs s hs (by omega)
    rw [hc, ih (s + 1) e (by omega) he (by omega)]
    have hlt : s.toNat < cs.length := by omega
    have hd : cs.drop s.toNat = c :: cs.drop (s + 1).toNat := by
      rw [List.drop_eq_getElem_cons hlt]
      rw [List.getElem?_eq_getElem hlt] at hg
      simp only [Option.some.injEq] at hg
      rw [hg]
      have : (s + 1).toNat = s.toNat + 1 := by omega
      rw [this]
    have ht : (e - s).toNat = (e - (s + 1)).toNat + 1 := by omega
    rw [hd, ht, List.take_succ_cons]
    rfl

theorem avgOf_eq (f : Candle F → Num F) (cs : List (Candle F)) (length j : Int)
    (hl : 0 < length) (hlj : length ≤ j + 1) (hj : j < cs.length) :
    Pat.avgOf f cs length j = .ok (avgRef f cs length j) := by
  unfold Pat.avgOf avgRef lastN
  have hs : ¬ j + 1 - length < 0 := by omega
  simp only [hs, if_false]
  rw [mapM_pyIndex f cs _ (j + 1 - length) (j + 1) (by omega) (by omega) rfl]
  have e : j + 1 - (j + 1 - length) = length := by omega
  rw [e]
  unfold Num.truediv
  have : Num.isZero (Num.int length : Num F) = false := by
    have : length ≠ 0 := by omega
    simp [Num.isZero, this]
  simp only [bind, Except.bind, this]
  rfl

/-! ### thresholds (TA-Lib style) -/

/-- 10 % of the average high-low range of the last 10 candles -/
def dojiThr (cs : List (Candle F)) (j : Int) : Num F := (avgRef Candle.highLow cs 10 j).mul (Pat.lit 1 10)
/-- the average real body of the last 10 candles -/
def bodyAvg (cs : List (Candle F)) (j : Int) : Num F := (avgRef Candle.realbody cs 10 j).mul (fl 1)
/-- 20 % of the average high-low range of the last 5 candles -/
def nearThr (cs : List (Candle F)) (j : Int) : Num F := (avgRef Candle.highLow cs 5 j).mul (Pat.lit 2 10)

theorem candleDoji_eq (cs : List (Candle F)) (j : Int) (h9 : 9 ≤ j) (hj : j < cs.length) :
    Pat.candleDoji cs j = .ok (dojiThr cs j) := by
  unfold Pat.candleDoji Pat.highLowAvg dojiThr
  rw [avgOf_eq _ cs 10 j (by decide) (by omega) hj]; rfl

theorem candleBodyLong_eq (cs : List (Candle F)) (j : Int) (h9 : 9 ≤ j) (hj : j < cs.length) :
    Pat.candleBodyLong cs j = .ok (bodyAvg cs j) := by
  unfold Pat.candleBodyLong Pat.realbodyAvg bodyAvg
  rw [avgOf_eq _ cs 10 j (by decide) (by omega) hj]; rfl

theorem candleNear_eq (cs : List (Candle F)) (j : Int) (h4 : 4 ≤ j) (hj : j < cs.length) :
    Pat.candleNear cs j = .ok (nearThr cs j) := by
  unfold Pat.candleNear Pat.highLowAvg nearThr
  rw [avgOf_eq _ cs 5 j (by decide) (by omega) hj]; rfl

/-! ### the per-candle pattern tests as conjunctions of their clauses -/

/-- candle at position `j` (a default candle outside the list; only used inside) -/
def candleAt (cs : List (Candle F)) (j : Int) : Candle F := cs[j.toNat]?.getD default

theorem pyIndex_candleAt (cs : List (Candle F)) (j : Int) (h0 : 0 ≤ j) (hj : j < cs.length) :
    pyIndex cs j = .ok (candleAt cs j) := by
  obtain ⟨c, hc, hg⟩ := pyIndex_ok cs j h0 hj
  rw [hc]; unfold candleAt; rw [hg]; rfl

/-- doji: the body is shorter than 10 % of the average range -/
def dojiRef (cs : List (Candle F)) (j : Int) : Bool :=
  (candleAt cs j).realbody.lt (dojiThr cs j)

/-- doji star: long previous body, doji-sized body, body gap in the direction of the previous candle -/
def dojistarRef (cs : List (Candle F)) (j : Int) : Bool :=
  let c := candleAt cs j; let p := candleAt cs (j - 1)
  p.realbody.gt (bodyAvg cs (j - 1)) && c.realbody.le (dojiThr cs j) &&
    ((p.positive && Pat.realbodyGapUp c p) || (p.negative && Pat.realbodyGapDown c p))

/-- hammer: short body, lower shadow longer than the body, very short upper shadow, body near the
previous low -/
def hammerRef (cs : List (Candle F)) (j : Int) : Bool :=
  let c := candleAt cs j; let p := candleAt cs (j - 1)
  c.realbody.lt (bodyAvg cs j) && c.shadowLower.gt c.realbody && c.shadowUpper.lt (dojiThr cs j) &&
    (Num.min2 c.c c.o).le (p.l.add (nearThr cs (j - 1)))

/-- inverted hammer: short body, upper shadow longer than the body, very short lower shadow, body
gap down from the previous candle -/
def invHammerRef (cs : List (Candle F)) (j : Int) : Bool :=
  let c := candleAt cs j; let p := candleAt cs (j - 1)
  c.realbody.lt (bodyAvg cs j) && c.shadowUpper.gt c.realbody && c.shadowLower.lt (dojiThr cs j) &&
    Pat.realbodyGapDown c p

/-- a per-candle test equals its reference from candle 10 on -/
def OneSpec (one : List (Candle F) → Int → PyM Bool) (ref : List (Candle F) → Int → Bool) : Prop :=
  ∀ cs j, 10 ≤ j → j < cs.length → one cs j = .ok (ref cs j)

theorem dojiAt_spec : OneSpec (F := F) Pat.dojiAt dojiRef := by
  intro cs j h10 hj
  unfold Pat.dojiAt dojiRef
  rw [pyIndex_candleAt cs j (by omega) hj, candleDoji_eq cs j (by omega) hj]; rfl

theorem dojistarAt_spec : OneSpec (F := F) Pat.dojistarAt dojistarRef := by
  intro cs j h10 hj
  unfold Pat.dojistarAt dojistarRef
  rw [pyIndex_candleAt cs j (by omega) hj, pyIndex_candleAt cs (j - 1) (by omega) (by omega),
    candleDoji_eq cs j (by omega) hj, candleBodyLong_eq cs (j - 1) (by omega) (by omega)]
  simp only [bind, Except.bind, pure, Except.pure]
  generalize ((candleAt cs (j - 1)).realbody.gt (bodyAvg cs (j - 1))) = A
  generalize ((candleAt cs j).realbody.le (dojiThr cs j)) = B
  cases A <;> cases B <;> rfl

theorem hammerAt_spec : OneSpec (F := F) Pat.hammerAt hammerRef := by
  intro cs j h10 hj
  unfold Pat.hammerAt hammerRef Pat.candleBodyShort Pat.candleShadowVeryShort Pat.candleShadowLong
  rw [pyIndex_candleAt cs j (by omega) hj, pyIndex_candleAt cs (j - 1) (by omega) (by omega),
    candleDoji_eq cs j (by omega) hj, candleBodyLong_eq cs j (by omega) hj,
    candleNear_eq cs (j - 1) (by omega) (by omega)]
  simp only [bind, Except.bind, pure, Except.pure]
  generalize ((candleAt cs j).realbody.lt (bodyAvg cs j)) = A
  generalize ((candleAt cs j).shadowLower.gt (candleAt cs j).realbody) = B
  generalize ((candleAt cs j).shadowUpper.lt (dojiThr cs j)) = C
  cases A <;> cases B <;> cases C <;> rfl

theorem invHammerAt_spec : OneSpec (F := F) Pat.invHammerAt invHammerRef := by
  intro cs j h10 hj
  unfold Pat.invHammerAt invHammerRef Pat.candleBodyShort Pat.candleShadowVeryShort Pat.candleShadowLong
  rw [pyIndex_candleAt cs j (by omega) hj, pyIndex_candleAt cs (j - 1) (by omega) (by omega),
    candleDoji_eq cs j (by omega) hj, candleBodyLong_eq cs j (by omega) hj]
  simp only [bind, Except.bind, pure, Except.pure]
  generalize ((candleAt cs j).realbody.lt (bodyAvg cs j)) = A
  generalize ((candleAt cs j).shadowUpper.gt (candleAt cs j).realbody) = B
  generalize ((candleAt cs j).shadowLower.lt (dojiThr cs j)) = C
  cases A <;> cases B <;> cases C <;> rfl

/-! ### the pattern driver -/

/-- reported at candle `k`: from candle 10 on, when the reference test holds -/
def atRef (ref : List (Candle F) → Int → Bool) (cs : List (Candle F)) (k : Int) : Bool :=
  decide (10 ≤ k) && ref cs k

/-- without look-back: candle `i`; with look-back `lb`: any of the candles `max(i+1-lb, 0) … i` -/
def patRef (ref : List (Candle F) → Int → Bool) (cs : List (Candle F)) (lb : Option Int) (i : Int) : Bool :=
  match lb with
  | none => atRef ref cs i
  | some lb => (pyRange (if i + 1 - lb < 0 then 0 else i + 1 - lb) (i + 1)).any (atRef ref cs)

theorem at_spec {one : List (Candle F) → Int → PyM Bool} {ref : List (Candle F) → Int → Bool}
    (h : OneSpec one ref) (cs : List (Candle F)) (k : Int) (hk : k < cs.length) :
    (if k < 10 then (pure false : PyM Bool) else one cs k) = .ok (atRef ref cs k) := by
  unfold atRef
  by_cases h10 : k < 10
  · have : ¬ 10 ≤ k := by omega
    simp only [h10, if_true, this, decide_false, Bool.false_and]; rfl
  · have : 10 ≤ k := by omega
    simp only [h10, if_false, this, decide_true, Bool.true_and]
    exact h cs k this hk

theorem pattern_spec {one : List (Candle F) → Int → PyM Bool} {ref : List (Candle F) → Int → Bool}
    (h : OneSpec one ref) (cs : List (Candle F)) (lb : Option Int) (i : Int) (h0 : 0 ≤ i) (hi : i < cs.length) :
    Pat.pattern one cs lb (some i) = .ok (.bool (patRef ref cs lb i)) := by
  simp only [Pat.pattern]
  rw [absIndex_self i cs.length h0 hi]
  cases lb with
  | none =>
    simp only [patRef]
    rw [at_spec h cs i hi]; rfl
  | some lb =>
    simp only [patRef]
    rw [anyM_pure _ _ (atRef ref cs)]
    · rfl
    · intro x hx
      have hm := (mem_pyRange _ _ _).1 hx
      exact at_spec h cs x (by omega)

theorem patRef_lookback_iff (ref : List (Candle F) → Int → Bool) (cs : List (Candle F)) (lb i : Int) :
    patRef ref cs (some lb) i = true ↔ ∃ k, i + 1 - lb ≤ k ∧ 10 ≤ k ∧ k ≤ i ∧ ref cs k = true := by
  unfold patRef atRef
  simp only [List.any_eq_true, mem_pyRange, Bool.and_eq_true, decide_eq_true_eq]
  constructor
  · rintro ⟨k, ⟨h1, h2⟩, h3, h4⟩
    exact ⟨k, by split at h1 <;> omega, h3, by omega, h4⟩
  · rintro ⟨k, h1, h2, h3, h4⟩
    exact ⟨k, ⟨by split <;> omega, by omega⟩, h2, h4⟩

/-! ### the driver -/

theorem patRef_congr {F : Type} [PyF F] (ref : List (Candle F) → Int → Bool) (cs cs' : List (Candle F))
    (lb : Option Int) (i : Int) (h : ∀ j, 10 ≤ j → j ≤ i → ref cs' j = ref cs j) :
    patRef ref cs' lb i = patRef ref cs lb i := by
  have hat : ∀ j, j ≤ i → atRef ref cs' j = atRef ref cs j := by
    intro j hj
    unfold atRef
    by_cases h10 : 10 ≤ j
    · rw [h j h10 hj]
    · simp [h10]
  cases lb with
  | none => exact hat i (le_refl i)
  | some lb =>
    simp only [patRef]
    rw [Bool.eq_iff_iff, List.any_eq_true, List.any_eq_true]
    constructor
    · rintro ⟨x, hx, hp⟩
      have := (mem_pyRange _ _ _).1 hx
      exact ⟨x, hx, by rw [← hat x (by omega)]; exact hp⟩
    · rintro ⟨x, hx, hp⟩
      have := (mem_pyRange _ _ _).1 hx
      exact ⟨x, hx, by rw [hat x (by omega)]; exact hp⟩

/-- a pattern whose per-candle reference test is the same on two equally long lists gives the same
answer on both, for every look-back and every index argument (default and invalid ones included) -/
theorem pattern_invariant {F : Type} [PyF F] {one : List (Candle F) → Int → PyM Bool}
    {ref : List (Candle F) → Int → Bool} (hspec : OneSpec one ref) (hc : OneCausal one)
    (cs cs' : List (Candle F)) (hlen : cs'.length = cs.length)
    (href : ∀ j : Int, 10 ≤ j → j < cs.length → ref cs' j = ref cs j) (lb index : Option Int) :
    Pat.pattern one cs' lb index = Pat.pattern one cs lb index := by
  have valid : ∀ i : Int, 0 ≤ i → i < cs.length →
      Pat.pattern one cs' lb (some i) = Pat.pattern one cs lb (some i) := by
    intro i h0 hi
    rw [pattern_spec hspec cs' lb i h0 (by omega), pattern_spec hspec cs lb i h0 hi,
      patRef_congr ref cs cs' lb i (fun j h10 hj => href j h10 (by omega))]
  cases index with
  | none =>
    by_cases hne : 0 < cs.length
    · rw [pattern_default one lb cs' (by omega), pattern_default one lb cs hne, hlen]
      exact valid _ (by omega) (by omega)
    · have e : cs = [] := List.eq_nil_of_length_eq_zero (by omega)
      have e' : cs' = [] := List.eq_nil_of_length_eq_zero (by omega)
      rw [e, e']
  | some idx =>
    cases hn : absIndex idx cs.length with
    | none =>
      simp only [Pat.pattern, hlen, hn]
    | some i =>
      obtain ⟨h0, hi, _⟩ := absIndex_some hn
      rw [(pattern_causal hc lb).norm cs' idx i (by rw [hlen]; exact hn),
        (pattern_causal hc lb).norm cs idx i hn]
      exact valid i h0 hi

end Ana
end Hex

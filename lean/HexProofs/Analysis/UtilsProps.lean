import HexModel.Analysis.Utils
import HexProofs.Analysis.PatternCausal
import HexProofs.Analysis.PatternSpec
import HexProofs.Numeric.NumAlg
import HexProofs.Lib.IntInst
/-
The public helpers of `hexital/analysis/utils.py` (`Hex.AUtils`, `HexModel/Analysis/Utils.lean`):

1. default index = last index (`index=None` is `len(candles) - 1`), for all 17 indexed functions, also on `[]`;
2. causality: the answer at `0 ≤ i < len` is the answer of the default call on `candles[:i+1]`;
3. the negative-index behaviour, exactly: the window averages do NOT normalise the index – every `i < 0` gives the
   empty window, i.e. `0 / length` (ZeroDivisionError for `length = 0`), whatever the candles are – whereas
   `candle_shadow_long / _verylong` index `candles[index]` and wrap; so `f(cs, n, -1) ≠ f(cs, n, len-1)` in general;
4. the divisor is `length`, also when the window was clamped at candle 0.

All 17 functions are handled at once through the driver `Fn.call` (`Fn.shape`: 15 of them are
`post (avgOf field cs len index)`, two read `candles[index]`); the four `*_avg` helpers are restated by name.
-/
set_option linter.unusedSectionVars false
namespace Hex
namespace AUtils
open Hex.Ana
variable {F : Type} [PyF F]

/-! ## the shape of the 17 indexed functions -/

/-- the 15 functions built on a window average (all but `candle_shadow_long / _verylong`) -/
def Fn.isAvg : Fn → Bool
  | .candleShadowLong | .candleShadowVeryLong => false
  | _ => true

/-- the candle measurement that is averaged -/
def Fn.field : Fn → Candle F → Num F
  | .realbodyAvg | .realbodyPercentage | .candleBodyLong | .candleBodyVeryLong | .candleBodyShort
  | .candleShadowLong | .candleShadowVeryLong => Candle.realbody
  | .shadowUpperAvg => Candle.shadowUpper
  | .shadowLowerAvg => Candle.shadowLower
  | _ => Candle.highLow

/-- the window length (the caller's, or the function's default) -/
def Fn.len (f : Fn) (length : Option Int) : Int :=
  match f with
  | .candleNear | .candleFar | .candleEqual => length.getD 5
  | _ => length.getD 10

/-- what is done with the average (resp. with `candles[index].realbody`) -/
def Fn.post (f : Fn) (percentage : Option (Num F)) (a : Num F) : Num F :=
  match f with
  | .realbodyAvg | .highLowAvg | .shadowUpperAvg | .shadowLowerAvg | .candleShadowLong => a
  | .realbodyPercentage | .highLowPercentage => a.mul (percentage.getD one)
  | .candleDoji | .candleShadowVeryShort => a.mul (Pat.lit 1 10)
  | .candleBodyLong | .candleBodyShort | .candleShadowShort => a.mul one
  | .candleBodyVeryLong => a.mul (.int 3)
  | .candleShadowVeryLong => a.mul (.int 2)
  | .candleNear => a.mul (Pat.lit 2 10)
  | .candleFar => a.mul (Pat.lit 6 10)
  | .candleEqual => a.mul (Pat.lit 5 100)

theorem bind_pure_id {α : Type} (x : PyM α) : (x >>= fun a => pure a) = x := by cases x <;> rfl

/-- the 15 average-based functions: `post (avg field cs len index)` -/
theorem call_avg (f : Fn) (h : f.isAvg = true) (cs : List (Candle F)) (len : Option Int) (idx : Option Int)
    (pct : Option (Num F)) :
    f.call cs len idx pct
      = (Pat.avgOf f.field cs (f.len len) (defIndex cs idx) >>= fun a => pure (f.post pct a)) := by
  cases f <;> first
    | (simp [Fn.isAvg] at h; done)
    | exact (bind_pure_id _).symm
    | rfl

/-- the two that index: `post (candles[index].realbody)` -/
theorem call_idx (f : Fn) (h : f.isAvg = false) (cs : List (Candle F)) (len : Option Int) (idx : Option Int)
    (pct : Option (Num F)) :
    f.call cs len idx pct = (pyIndex cs (defIndex cs idx) >>= fun c => pure (f.post pct c.realbody)) := by
  cases f <;> first
    | (simp [Fn.isAvg] at h; done)
    | rfl

/-! ## 1. default index = last index -/

theorem defIndex_none (cs : List (Candle F)) : defIndex cs none = (cs.length : Int) - 1 := rfl
theorem defIndex_some (cs : List (Candle F)) (i : Int) : defIndex cs (some i) = i := rfl

/-- **Default index.**  For every function of the module (through the driver, any `length` / `percentage`
argument, given or defaulted) `index=None` is `index=len(candles) - 1` – ALSO on the empty list, where that is
`-1` (see `call_default_nil`). -/
theorem call_default (f : Fn) (cs : List (Candle F)) (len : Option Int) (pct : Option (Num F)) :
    f.call cs len none pct = f.call cs len (some ((cs.length : Int) - 1)) pct := by
  cases f <;> rfl

theorem realbodyAvg_default (cs : List (Candle F)) (length : Int) :
    realbodyAvg cs length none = realbodyAvg cs length (some ((cs.length : Int) - 1)) := rfl
theorem highLowAvg_default (cs : List (Candle F)) (length : Int) :
    highLowAvg cs length none = highLowAvg cs length (some ((cs.length : Int) - 1)) := rfl
theorem shadowUpperAvg_default (cs : List (Candle F)) (length : Int) :
    shadowUpperAvg cs length none = shadowUpperAvg cs length (some ((cs.length : Int) - 1)) := rfl
theorem shadowLowerAvg_default (cs : List (Candle F)) (length : Int) :
    shadowLowerAvg cs length none = shadowLowerAvg cs length (some ((cs.length : Int) - 1)) := rfl
theorem realbodyPercentage_default (cs : List (Candle F)) (p : Num F) (length : Int) :
    realbodyPercentage cs none p length = realbodyPercentage cs (some ((cs.length : Int) - 1)) p length := rfl
theorem highLowPercentage_default (cs : List (Candle F)) (p : Num F) (length : Int) :
    highLowPercentage cs none p length = highLowPercentage cs (some ((cs.length : Int) - 1)) p length := rfl
theorem candleShadowLong_default (cs : List (Candle F)) :
    candleShadowLong cs none = candleShadowLong cs (some ((cs.length : Int) - 1)) := rfl
theorem candleShadowVeryLong_default (cs : List (Candle F)) :
    candleShadowVeryLong cs none = candleShadowVeryLong cs (some ((cs.length : Int) - 1)) := rfl

/-- `sum(()) / length`: `0.0` (`-0.0` for a negative length), ZeroDivisionError for `length = 0` -/
def emptyAvg (length : Int) : PyM (Num F) := (Num.int 0 : Num F).truediv (.int length)

theorem emptyAvg_eq (length : Int) :
    (emptyAvg length : PyM (Num F))
      = if length = 0 then .error .zeroDiv else .ok (.flt (PyF.div (PyF.ofInt 0) (PyF.ofInt length))) := by
  unfold emptyAvg Num.truediv
  by_cases h : length = 0
  · simp [h, Num.isZero]
  · simp [h, Num.isZero, Num.toF]

/-- an average whose (exclusive) range end `index + 1` is `≤ 0` reads no candle at all -/
theorem avgOf_neg (g : Candle F → Num F) (cs : List (Candle F)) (length i : Int) (hi : i < 0) :
    Pat.avgOf g cs length i = emptyAvg length := by
  unfold Pat.avgOf
  simp only
  rw [pyRange_nil _ _ (by split <;> omega)]
  rfl

/-- **Default index on the empty list**: the index is `-1`; the averages read nothing and return `0 / length`
(ZeroDivisionError for `length = 0`), the two indexing functions raise IndexError. -/
theorem call_default_nil (f : Fn) (len : Option Int) (pct : Option (Num F)) :
    f.call ([] : List (Candle F)) len none pct
      = if f.isAvg then (emptyAvg (f.len len) >>= fun a => pure (f.post pct a)) else .error .indexError := by
  by_cases h : f.isAvg = true
  · rw [call_avg f h, if_pos h, avgOf_neg _ _ _ _ (by simp [defIndex])]
  · have h' : f.isAvg = false := by simpa using h
    rw [call_idx f h', if_neg h]
    rfl

/-! ## 2. causality -/

theorem take_length_int {α : Type} (l : List α) (i : Int) (h0 : 0 ≤ i) (hi : i < l.length) :
    ((l.take (i + 1).toNat).length : Int) - 1 = i := by
  have := upto_length_int l i h0 hi
  unfold upto at this
  omega

/-- **Causality.**  For `0 ≤ i < len(candles)` every function of the module answers at `i` what its default call
answers on `candles[:i+1]`: no helper ever looks at a later candle. -/
theorem call_causal (f : Fn) (cs : List (Candle F)) (len : Option Int) (pct : Option (Num F)) (i : Int)
    (h0 : 0 ≤ i) (hi : i < cs.length) :
    f.call cs len (some i) pct = f.call (cs.take (i + 1).toNat) len none pct := by
  have hl := take_length_int cs i h0 hi
  by_cases h : f.isAvg = true
  · rw [call_avg f h, call_avg f h, defIndex_none, defIndex_some, hl]
    have := avgOf_upto f.field cs (f.len len) i i h0 (le_refl i)
    unfold upto at this
    rw [this]
  · have h' : f.isAvg = false := by simpa using h
    rw [call_idx f h', call_idx f h', defIndex_none, defIndex_some, hl]
    have := pyIndex_upto cs i i h0 (le_refl i)
    unfold upto at this
    rw [this]

/-- the same with a natural index: `f(cs, …, i) = f(cs[:i+1], …)` -/
theorem call_causal_nat (f : Fn) (cs : List (Candle F)) (len : Option Int) (pct : Option (Num F)) (i : Nat)
    (hi : i < cs.length) :
    f.call cs len (some (i : Int)) pct = f.call (cs.take (i + 1)) len none pct := by
  have := call_causal f cs len pct (i : Int) (by omega) (by omega)
  have e : ((i : Int) + 1).toNat = i + 1 := by omega
  rw [e] at this
  exact this

/-- two lists with the same first `i+1` candles give the same answer at `i` -/
theorem call_no_lookahead (f : Fn) (cs cs' : List (Candle F)) (len : Option Int) (pct : Option (Num F)) (i : Nat)
    (hi : i < cs.length) (hi' : i < cs'.length) (hpre : cs.take (i + 1) = cs'.take (i + 1)) :
    f.call cs len (some (i : Int)) pct = f.call cs' len (some (i : Int)) pct := by
  rw [call_causal_nat f cs len pct i hi, call_causal_nat f cs' len pct i hi', hpre]

theorem realbodyAvg_causal (cs : List (Candle F)) (length : Int) (i : Nat) (hi : i < cs.length) :
    realbodyAvg cs length (some (i : Int)) = realbodyAvg (cs.take (i + 1)) length none :=
  call_causal_nat .realbodyAvg cs (some length) none i hi
theorem highLowAvg_causal (cs : List (Candle F)) (length : Int) (i : Nat) (hi : i < cs.length) :
    highLowAvg cs length (some (i : Int)) = highLowAvg (cs.take (i + 1)) length none :=
  call_causal_nat .highLowAvg cs (some length) none i hi
theorem shadowUpperAvg_causal (cs : List (Candle F)) (length : Int) (i : Nat) (hi : i < cs.length) :
    shadowUpperAvg cs length (some (i : Int)) = shadowUpperAvg (cs.take (i + 1)) length none :=
  call_causal_nat .shadowUpperAvg cs (some length) none i hi
theorem shadowLowerAvg_causal (cs : List (Candle F)) (length : Int) (i : Nat) (hi : i < cs.length) :
    shadowLowerAvg cs length (some (i : Int)) = shadowLowerAvg (cs.take (i + 1)) length none :=
  call_causal_nat .shadowLowerAvg cs (some length) none i hi

/-! ## 3. negative indices -/

/-- **Negative index, window averages: never normalised.**  For EVERY `i < 0` (also `-1`, also the "valid"
`-len ≤ i`), whatever the candles: the window is empty and the result is `post (0 / length)` – `0.0` scaled, or
ZeroDivisionError for `length = 0`. -/
theorem call_neg (f : Fn) (h : f.isAvg = true) (cs : List (Candle F)) (len : Option Int) (pct : Option (Num F))
    (i : Int) (hi : i < 0) :
    f.call cs len (some i) pct = (emptyAvg (f.len len) >>= fun a => pure (f.post pct a)) := by
  rw [call_avg f h, defIndex_some, avgOf_neg _ _ _ _ hi]

/-- so a negative index tells nothing about the candles: any two lists, any two negative indices -/
theorem call_neg_const (f : Fn) (h : f.isAvg = true) (cs cs' : List (Candle F)) (len : Option Int)
    (pct : Option (Num F)) (i j : Int) (hi : i < 0) (hj : j < 0) :
    f.call cs len (some i) pct = f.call cs' len (some j) pct := by
  rw [call_neg f h cs len pct i hi, call_neg f h cs' len pct j hj]

theorem realbodyAvg_neg (cs : List (Candle F)) (length i : Int) (hi : i < 0) :
    realbodyAvg cs length (some i)
      = if length = 0 then .error .zeroDiv else .ok (.flt (PyF.div (PyF.ofInt 0) (PyF.ofInt length))) := by
  rw [← emptyAvg_eq]; exact avgOf_neg _ cs length i hi
theorem highLowAvg_neg (cs : List (Candle F)) (length i : Int) (hi : i < 0) :
    highLowAvg cs length (some i)
      = if length = 0 then .error .zeroDiv else .ok (.flt (PyF.div (PyF.ofInt 0) (PyF.ofInt length))) := by
  rw [← emptyAvg_eq]; exact avgOf_neg _ cs length i hi
theorem shadowUpperAvg_neg (cs : List (Candle F)) (length i : Int) (hi : i < 0) :
    shadowUpperAvg cs length (some i)
      = if length = 0 then .error .zeroDiv else .ok (.flt (PyF.div (PyF.ofInt 0) (PyF.ofInt length))) := by
  rw [← emptyAvg_eq]; exact avgOf_neg _ cs length i hi
theorem shadowLowerAvg_neg (cs : List (Candle F)) (length i : Int) (hi : i < 0) :
    shadowLowerAvg cs length (some i)
      = if length = 0 then .error .zeroDiv else .ok (.flt (PyF.div (PyF.ofInt 0) (PyF.ofInt length))) := by
  rw [← emptyAvg_eq]; exact avgOf_neg _ cs length i hi

/-- **Negative index, the two indexing functions: Python wrap-around.**  `-len ≤ i < 0` is position `i + len` … -/
theorem call_idx_wrap (f : Fn) (h : f.isAvg = false) (cs : List (Candle F)) (len : Option Int)
    (pct : Option (Num F)) (j : Int) (h0 : 0 ≤ j) (hj : j < cs.length) :
    f.call cs len (some (j - cs.length)) pct = f.call cs len (some j) pct := by
  rw [call_idx f h, call_idx f h, defIndex_some, defIndex_some, pyIndex_neg cs j h0 hj]

/-- … and anything below `-len` is an IndexError (as is anything `≥ len`) -/
theorem call_idx_out (f : Fn) (h : f.isAvg = false) (cs : List (Candle F)) (len : Option Int)
    (pct : Option (Num F)) (i : Int) (hi : i < -(cs.length : Int) ∨ (cs.length : Int) ≤ i) :
    f.call cs len (some i) pct = .error .indexError := by
  rw [call_idx f h, defIndex_some]
  have : pyIndex cs i = .error .indexError := by
    unfold pyIndex
    rcases hi with hi | hi
    · have a : i < 0 := by omega
      have b : (cs.length : Int) + i < 0 := by omega
      simp [a, b]
    · have a : ¬ i < 0 := by omega
      have b : cs.length ≤ i.toNat := by omega
      simp only [a, if_false]
      rw [List.getElem?_eq_none b]
      rfl
  rw [this]; rfl

/-- in particular `-1` IS the default there (every list, the empty one included) -/
theorem call_idx_minus_one (f : Fn) (h : f.isAvg = false) (cs : List (Candle F)) (len : Option Int)
    (pct : Option (Num F)) :
    f.call cs len (some (-1)) pct = f.call cs len none pct := by
  rw [call_default]
  cases cs with
  | nil => rfl
  | cons c r =>
    have := call_idx_wrap f h (c :: r) len pct (((c :: r).length : Int) - 1) (by simp) (by omega)
    rw [← this]
    congr 2
    omega

theorem candleShadowLong_wrap (cs : List (Candle F)) (j : Int) (h0 : 0 ≤ j) (hj : j < cs.length) :
    candleShadowLong cs (some (j - cs.length)) = candleShadowLong cs (some j) :=
  call_idx_wrap .candleShadowLong rfl cs none none j h0 hj
theorem candleShadowVeryLong_wrap (cs : List (Candle F)) (j : Int) (h0 : 0 ≤ j) (hj : j < cs.length) :
    candleShadowVeryLong cs (some (j - cs.length)) = candleShadowVeryLong cs (some j) :=
  call_idx_wrap .candleShadowVeryLong rfl cs none none j h0 hj
theorem candleShadowLong_minus_one (cs : List (Candle F)) :
    candleShadowLong cs (some (-1)) = candleShadowLong cs none :=
  call_idx_minus_one .candleShadowLong rfl cs none none
theorem candleShadowVeryLong_minus_one (cs : List (Candle F)) :
    candleShadowVeryLong cs (some (-1)) = candleShadowVeryLong cs none :=
  call_idx_minus_one .candleShadowVeryLong rfl cs none none

/-! ## 4. the divisor -/

/-- the candles the average at `i` reads: `candles[max(0, i+1-length) : i+1]` -/
def window (cs : List (Candle F)) (length i : Int) : List (Candle F) :=
  (cs.take (i + 1).toNat).drop (i + 1 - length).toNat

/-- when fewer than `length` candles exist up to `i`, the window is all of them -/
theorem window_clamped (cs : List (Candle F)) (length i : Int) (h : i + 1 ≤ length) :
    window cs length i = cs.take (i + 1).toNat := by
  unfold window
  have : (i + 1 - length).toNat = 0 := by omega
  rw [this, List.drop_zero]

theorem window_length (cs : List (Candle F)) (length i : Int) (h0 : 0 ≤ i) (hi : i < cs.length) (hl : 0 ≤ length) :
    ((window cs length i).length : Int) = min (i + 1) length := by
  unfold window
  rw [List.length_drop, List.length_take]
  omega

/-- **Divisor.**  For `0 ≤ i < len(candles)` and ANY `length`: the result is the sum over the available window
divided by `length` – not by the number of candles summed (`min(i+1, length)`); ZeroDivisionError iff `length = 0`. -/
theorem avgOf_window (g : Candle F → Num F) (cs : List (Candle F)) (length i : Int)
    (h0 : 0 ≤ i) (hi : i < cs.length) :
    Pat.avgOf g cs length i = (pySum ((window cs length i).map g)).truediv (.int length) := by
  unfold Pat.avgOf window
  simp only
  rw [mapM_pyIndex g cs _ _ (i + 1) (by split <;> omega) (by omega) rfl]
  rw [List.drop_take]
  by_cases hc : i + 1 - length < 0
  · simp only [hc, if_true]
    have e1 : (i + 1 - length).toNat = 0 := by omega
    have e2 : (i + 1 - 0).toNat = (i + 1).toNat - 0 := by omega
    rw [e1, e2]
    rfl
  · simp only [hc, if_false]
    have e2 : (i + 1 - (i + 1 - length)).toNat = (i + 1).toNat - (i + 1 - length).toNat := by omega
    rw [e2]
    rfl

/-- the same for all 15 average-based functions -/
theorem call_window (f : Fn) (h : f.isAvg = true) (cs : List (Candle F)) (len : Option Int) (pct : Option (Num F))
    (i : Int) (h0 : 0 ≤ i) (hi : i < cs.length) :
    f.call cs len (some i) pct
      = ((pySum ((window cs (f.len len) i).map f.field)).truediv (.int (f.len len))
          >>= fun a => pure (f.post pct a)) := by
  rw [call_avg f h, defIndex_some, avgOf_window _ cs _ i h0 hi]

/-- clamped window (`i + 1 < length`): ALL `i+1` candles summed, still divided by `length` -/
theorem avgOf_clamped (g : Candle F → Num F) (cs : List (Candle F)) (length i : Int)
    (h0 : 0 ≤ i) (hi : i < cs.length) (hc : i + 1 < length) :
    Pat.avgOf g cs length i
      = .ok (.flt (PyF.div (pySum ((cs.take (i + 1).toNat).map g)).toF (PyF.ofInt length))) := by
  rw [avgOf_window g cs length i h0 hi, window_clamped cs length i (by omega)]
  unfold Num.truediv
  have : length ≠ 0 := by omega
  simp [Num.isZero, this, Num.toF]

theorem realbodyAvg_window (cs : List (Candle F)) (length i : Int) (h0 : 0 ≤ i) (hi : i < cs.length) :
    realbodyAvg cs length (some i)
      = (pySum ((window cs length i).map Candle.realbody)).truediv (.int length) :=
  avgOf_window _ cs length i h0 hi
theorem highLowAvg_window (cs : List (Candle F)) (length i : Int) (h0 : 0 ≤ i) (hi : i < cs.length) :
    highLowAvg cs length (some i)
      = (pySum ((window cs length i).map Candle.highLow)).truediv (.int length) :=
  avgOf_window _ cs length i h0 hi
theorem shadowUpperAvg_window (cs : List (Candle F)) (length i : Int) (h0 : 0 ≤ i) (hi : i < cs.length) :
    shadowUpperAvg cs length (some i)
      = (pySum ((window cs length i).map Candle.shadowUpper)).truediv (.int length) :=
  avgOf_window _ cs length i h0 hi
theorem shadowLowerAvg_window (cs : List (Candle F)) (length i : Int) (h0 : 0 ≤ i) (hi : i < cs.length) :
    shadowLowerAvg cs length (some i)
      = (pySum ((window cs length i).map Candle.shadowLower)).truediv (.int length) :=
  avgOf_window _ cs length i h0 hi

/-! ### over an exact ordered field: the real-number identity -/
section Exact
variable {K : Type} [Field K] [LinearOrder K] [IsStrictOrderedRing K] [LawfulPyF K]

/-- **avg = (sum of the available ones) / length** as an identity of numbers -/
theorem avgOf_exact (g : Candle K → Num K) (cs : List (Candle K)) (length i : Int)
    (h0 : 0 ≤ i) (hi : i < cs.length) (hl : length ≠ 0) :
    Pat.avgOf g cs length i
      = .ok (.flt ((((window cs length i).map fun c => (g c).toF).sum) / (length : K))) := by
  rw [avgOf_window g cs length i h0 hi]
  unfold Num.truediv
  have hk : ((length : Int) : K) ≠ 0 := by exact_mod_cast hl
  simp only [Num.isZero, beq_iff_eq, hl, if_false, toF_pySum, Num.toF_int, List.map_map]
  rw [LawfulPyF.div_eq _ _ hk]
  rfl

/-- with `k = i + 1 < length` candles available the result is `k / length` times their mean -/
theorem avgOf_exact_clamped (g : Candle K → Num K) (cs : List (Candle K)) (length i : Int)
    (h0 : 0 ≤ i) (hi : i < cs.length) (hc : i + 1 < length) :
    Pat.avgOf g cs length i
      = .ok (.flt ((((cs.take (i + 1).toNat).map fun c => (g c).toF).sum) / (length : K))) := by
  rw [avgOf_exact g cs length i h0 hi (by omega), window_clamped cs length i (by omega)]

end Exact

/-! ## witnesses over the toy carrier `Int` -/
section Witness

def mk (o h l c : Int) : Candle Int := { o := .int o, h := .int h, l := .int l, c := .int c, v := .int 0 }
/-- bodies 2, 5, 1, 7; ranges 4, 9, 5, 12 -/
def demo : List (Candle Int) := [mk 1 4 0 3, mk 2 9 0 7, mk 6 8 3 5, mk 3 12 0 10]

/-- comparable view of a result: `(is_float, value)` -/
def view : PyM (Num Int) → Except PyErr (Bool × Int)
  | .ok (.int i) => .ok (false, i)
  | .ok (.flt x) => .ok (true, x)
  | .error e => .error e

instance : DecidableEq (Except PyErr (Bool × Int)) := fun a b =>
  match a, b with
  | .ok x, .ok y => if h : x = y then isTrue (by rw [h]) else isFalse (by intro e; cases e; exact h rfl)
  | .error x, .error y => if h : x = y then isTrue (by rw [h]) else isFalse (by intro e; cases e; exact h rfl)
  | .ok _, .error _ => isFalse (by intro e; cases e)
  | .error _, .ok _ => isFalse (by intro e; cases e)

/-- 1: default = last index, on a real list -/
example : view (realbodyAvg demo 2 none) = .ok (true, 4) ∧ view (realbodyAvg demo 2 (some 3)) = .ok (true, 4) := by
  decide +kernel
/-- 1: the empty list: `0 / length`, ZeroDivisionError, IndexError -/
example : view (realbodyAvg ([] : List (Candle Int)) 2 none) = .ok (true, 0)
    ∧ view (realbodyAvg ([] : List (Candle Int)) 0 none) = .error .zeroDiv
    ∧ view (candleShadowLong ([] : List (Candle Int)) none) = .error .indexError := by decide +kernel
/-- 2: causality at `i = 1` (`(2 + 5) / 3`, toy division) -/
example : view (realbodyAvg demo 3 (some 1)) = .ok (true, 2)
    ∧ view (realbodyAvg (demo.take 2) 3 none) = .ok (true, 2) := by decide +kernel
/-- 3: **`f(cs, n, -1) ≠ f(cs, n, len-1)`** for the averages … -/
theorem realbodyAvg_minus_one_ne_last :
    realbodyAvg demo 2 (some (-1)) ≠ realbodyAvg demo 2 (some ((demo.length : Int) - 1)) := by
  intro h
  have : view (realbodyAvg demo 2 (some (-1))) = view (realbodyAvg demo 2 (some ((demo.length : Int) - 1))) := by
    rw [h]
  revert this
  decide +kernel
example : view (realbodyAvg demo 2 (some (-1))) = .ok (true, 0)
    ∧ view (realbodyAvg demo 2 (some 3)) = .ok (true, 4)
    ∧ view (realbodyAvg demo 2 none) = .ok (true, 4)
    ∧ view (highLowAvg demo 2 (some (-2))) = .ok (true, 0)
    ∧ view (candleDoji demo (some (-1))) = .ok (true, 0)
    ∧ view (realbodyAvg demo 0 (some (-3))) = .error .zeroDiv := by decide +kernel
/-- … whereas the indexing pair wraps -/
example : view (candleShadowLong demo (some (-1))) = .ok (false, 7)
    ∧ view (candleShadowLong demo none) = .ok (false, 7)
    ∧ view (candleShadowVeryLong demo (some (-3))) = .ok (false, 10)
    ∧ view (candleShadowVeryLong demo (some 1)) = .ok (false, 10)
    ∧ view (candleShadowLong demo (some (-5))) = .error .indexError := by decide +kernel
/-- 4: the divisor is `length` (10) although only 2 candles exist: `(2 + 5) / 10 = 0` in the toy carrier, and
`(4 + 9) / 10 = 1` for the ranges -/
example : view (realbodyAvg demo 10 (some 1)) = .ok (true, 0)
    ∧ view (highLowAvg demo 10 (some 1)) = .ok (true, 1)
    ∧ view (highLowAvg demo 13 (some 1)) = .ok (true, 1)
    ∧ view (highLowAvg demo 14 (some 1)) = .ok (true, 0) := by decide +kernel

end Witness

end AUtils
end Hex

#print axioms Hex.AUtils.call_default
#print axioms Hex.AUtils.call_default_nil
#print axioms Hex.AUtils.call_causal
#print axioms Hex.AUtils.call_causal_nat
#print axioms Hex.AUtils.call_no_lookahead
#print axioms Hex.AUtils.call_neg
#print axioms Hex.AUtils.call_neg_const
#print axioms Hex.AUtils.call_idx_wrap
#print axioms Hex.AUtils.call_idx_out
#print axioms Hex.AUtils.call_idx_minus_one
#print axioms Hex.AUtils.realbodyAvg_minus_one_ne_last
#print axioms Hex.AUtils.avgOf_window
#print axioms Hex.AUtils.call_window
#print axioms Hex.AUtils.avgOf_clamped
#print axioms Hex.AUtils.avgOf_exact
#print axioms Hex.AUtils.avgOf_exact_clamped

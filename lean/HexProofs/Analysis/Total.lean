import HexProofs.Analysis.PatternCausal
/-
C16 (c): the movement and pattern functions never raise – for EVERY candle list (readings may be
missing, `None`, bools, numbers or dicts) and EVERY index (valid or not).  In the model there is no
input left on which they can error: comparisons are only reached behind the
`isinstance(.., (float, int))` guards, the divisors are non-zero literals / lengths of non-empty
windows, and every list access is behind the index normalisation.
-/
set_option linter.unusedSectionVars false
namespace Hex
namespace Ana
variable {F : Type} [PyF F]

/-- never raises, whatever the list and the index -/
def Total {β : Type} (f : List (Candle F) → Int → PyM β) : Prop := ∀ cs idx, ∃ v, f cs idx = .ok v

/-- numeric view of a reading: `isinstance(v, (float, int))` (bools are ints) -/
def numOf : Val F → Option (Num F)
  | .s (.num n) => some n
  | .s (.bool b) => some (.int (if b then 1 else 0))
  | _ => none

theorem isNumber_eq (v : Val F) : v.isNumber = (numOf v).isSome := by
  cases v with
  | s x => cases x <;> rfl
  | dict k => rfl

theorem asNum_of_numOf {v : Val F} {n : Num F} (h : numOf v = some n) : v.asNum = .ok n := by
  cases v with
  | s x => cases x <;> simp_all [numOf, Val.asNum, Scalar.asNum]
  | dict k => simp [numOf] at h

theorem anyM_total {α : Type} (l : List α) (p : α → PyM Bool) (h : ∀ x ∈ l, ∃ b, p x = .ok b) :
    ∃ b, l.anyM p = .ok b := by
  induction l with
  | nil => exact ⟨false, rfl⟩
  | cons a r ih =>
    obtain ⟨b, hb⟩ := h a (by simp)
    obtain ⟨b', hb'⟩ := ih (fun x hx => h x (by simp [hx]))
    simp only [List.anyM, hb]
    cases b
    · exact ⟨b', hb'⟩
    · exact ⟨true, rfl⟩

theorem foldlM_total {α β : Type} (l : List α) (f : β → α → PyM β) (h : ∀ s, ∀ x ∈ l, ∃ s', f s x = .ok s')
    (s : β) : ∃ r, l.foldlM f s = .ok r := by
  induction l generalizing s with
  | nil => exact ⟨s, rfl⟩
  | cons a r ih =>
    obtain ⟨s', hs'⟩ := h s a (by simp)
    simp only [List.foldlM_cons, hs']
    exact ih (fun s x hx => h s x (by simp [hx])) s'

theorem mapM_total {α β : Type} (l : List α) (f : α → PyM β) (h : ∀ x ∈ l, ∃ y, f x = .ok y) :
    ∃ ys, l.mapM f = .ok ys := by
  induction l with
  | nil => exact ⟨[], rfl⟩
  | cons a r ih =>
    obtain ⟨y, hy⟩ := h a (by simp)
    obtain ⟨ys, hys⟩ := ih (fun x hx => h x (by simp [hx]))
    simp only [List.mapM_cons, hy, hys]
    exact ⟨y :: ys, rfl⟩

theorem bind_total {α β : Type} (m : PyM α) (k : α → PyM β) (hm : ∃ r, m = .ok r)
    (hk : ∀ r, ∃ v, k r = .ok v) : ∃ v, (m >>= k) = .ok v := by
  obtain ⟨r, rfl⟩ := hm; exact hk r

/-! ### above / below: the pure form -/

def aboveRef (cs : List (Candle F)) (a b : String) (i : Int) : Bool :=
  match numOf (readingByIndex cs a i), numOf (readingByIndex cs b i) with
  | some x, some y => x.gt y
  | _, _ => false

def belowRef (cs : List (Candle F)) (a b : String) (i : Int) : Bool :=
  match numOf (readingByIndex cs a i), numOf (readingByIndex cs b i) with
  | some x, some y => x.lt y
  | _, _ => false

theorem readingByIndex_nil (name : String) (i : Int) : readingByIndex ([] : List (Candle F)) name i = .none := by
  unfold readingByIndex
  have : validIndex i ([] : List (Candle F)).length = false :=
    Bool.eq_false_iff.2 (fun h => by have := (validIndex_iff i 0).1 h; omega)
  rw [this]; rfl

theorem aboveB_eq (cs : List (Candle F)) (a b : String) (i : Int) :
    Mov.aboveB cs a b i = .ok (aboveRef cs a b i) := by
  unfold Mov.aboveB aboveRef
  cases cs with
  | nil => simp only [readingByIndex_nil]; rfl
  | cons c r =>
    generalize readingByIndex (c :: r) a i = r1
    generalize readingByIndex (c :: r) b i = r2
    cases r1 with
    | dict k => rfl
    | s x =>
      cases r2 with
      | dict k => cases x <;> rfl
      | s y => cases x <;> cases y <;> rfl

theorem belowB_eq (cs : List (Candle F)) (a b : String) (i : Int) :
    Mov.belowB cs a b i = .ok (belowRef cs a b i) := by
  unfold Mov.belowB belowRef
  cases cs with
  | nil => simp only [readingByIndex_nil]; rfl
  | cons c r =>
    generalize readingByIndex (c :: r) a i = r1
    generalize readingByIndex (c :: r) b i = r2
    cases r1 with
    | dict k => rfl
    | s x =>
      cases r2 with
      | dict k => cases x <;> rfl
      | s y => cases x <;> cases y <;> rfl

theorem above_eq (cs : List (Candle F)) (a b : String) (i : Int) :
    Mov.above cs a b i = .ok (.bool (aboveRef cs a b i)) := by
  unfold Mov.above; rw [aboveB_eq]; rfl

theorem below_eq (cs : List (Candle F)) (a b : String) (i : Int) :
    Mov.below cs a b i = .ok (.bool (belowRef cs a b i)) := by
  unfold Mov.below; rw [belowB_eq]; rfl

theorem above_total (a b : String) : Total (fun (cs : List (Candle F)) i => Mov.above cs a b i) :=
  fun cs i => ⟨_, above_eq cs a b i⟩
theorem below_total (a b : String) : Total (fun (cs : List (Candle F)) i => Mov.below cs a b i) :=
  fun cs i => ⟨_, below_eq cs a b i⟩

/-! ### value_range, highest, lowest: every branch returns -/

theorem valueRange_total (ind : String) (n : Int) :
    Total (fun (cs : List (Candle F)) i => Mov.valueRange cs ind n i) := by
  intro cs i
  simp only [Mov.valueRange]
  repeat' split
  all_goals exact ⟨_, rfl⟩

theorem extreme_total (ind : String) (n : Int) (better : Num F → Num F → Bool) :
    Total (fun (cs : List (Candle F)) i => Mov.extreme cs ind n i better) := by
  intro cs i
  simp only [Mov.extreme]
  repeat' split
  all_goals exact ⟨_, rfl⟩

/-! ### rising / falling / mean_rising / mean_falling -/

theorem pyIndex_of_absIndex {α : Type} (l : List α) (idx i : Int) (h : absIndex idx l.length = some i) :
    ∃ x, pyIndex l idx = .ok x ∧ pyIndex l i = .ok x := by
  obtain ⟨h0, hi, rfl | rfl⟩ := absIndex_some h
  · obtain ⟨x, hx, _⟩ := pyIndex_ok l idx h0 hi; exact ⟨x, hx, hx⟩
  · obtain ⟨x, hx, _⟩ := pyIndex_ok l i h0 hi
    exact ⟨x, by rw [pyIndex_neg l i h0 hi]; exact hx, hx⟩

theorem monotone_total (ind : String) (n : Int) (bad : Num F → Num F → Bool) :
    Total (fun (cs : List (Candle F)) i => Mov.monotone cs ind n i bad) := by
  intro cs idx
  simp only [Mov.monotone]
  cases h : absIndex idx cs.length with
  | none => exact ⟨_, rfl⟩
  | some i =>
    simp only
    split
    · exact ⟨_, rfl⟩
    · obtain ⟨c, hc, _⟩ := pyIndex_of_absIndex cs idx i h
      rw [hc]
      simp only [bind, Except.bind]
      generalize readingByCandle c ind = v
      cases v with
      | dict k => exact ⟨_, rfl⟩
      | s x =>
        cases x with
        | none => exact ⟨_, rfl⟩
        | bool b => simp only [Val.asNum, Scalar.asNum]; split <;> exact ⟨_, rfl⟩
        | num m => simp only [Val.asNum, Scalar.asNum]; split <;> exact ⟨_, rfl⟩

theorem truediv_length_ok (a : Num F) (rs : List (Num F)) (h : rs.isEmpty = false) :
    ∃ m, a.truediv (.int rs.length) = .ok m := by
  unfold Num.truediv
  have : Num.isZero (Num.int (rs.length : Int) : Num F) = false := by
    cases rs with
    | nil => simp at h
    | cons x r => simp [Num.isZero]; omega
  rw [this]; exact ⟨_, rfl⟩

theorem meanCmp_total (ind : String) (n : Int) (good : Num F → Num F → Bool) :
    Total (fun (cs : List (Candle F)) i => Mov.meanCmp cs ind n i good) := by
  intro cs idx
  simp only [Mov.meanCmp]
  cases h : absIndex idx cs.length with
  | none => exact ⟨_, rfl⟩
  | some i =>
    simp only
    split
    · exact ⟨_, rfl⟩
    · obtain ⟨c, _, hc⟩ := pyIndex_of_absIndex cs idx i h
      rw [hc]
      simp only [bind, Except.bind]
      generalize readingByCandle c ind = v
      cases v with
      | dict k => exact ⟨_, rfl⟩
      | s x =>
        cases x with
        | none => exact ⟨_, rfl⟩
        | bool b =>
          simp only [Val.asNum, Scalar.asNum]
          cases he : (Mov.cleanReadings cs ind n i false).isEmpty with
          | true => exact ⟨_, rfl⟩
          | false =>
            obtain ⟨m', hm⟩ := truediv_length_ok (pySum (Mov.cleanReadings cs ind n i false)) _ he
            simp only [Bool.false_eq_true, if_false, hm]; exact ⟨_, rfl⟩
        | num m =>
          simp only [Val.asNum, Scalar.asNum]
          cases he : (Mov.cleanReadings cs ind n i false).isEmpty with
          | true => exact ⟨_, rfl⟩
          | false =>
            obtain ⟨m', hm⟩ := truediv_length_ok (pySum (Mov.cleanReadings cs ind n i false)) _ he
            simp only [Bool.false_eq_true, if_false, hm]; exact ⟨_, rfl⟩

/-! ### highestbar / lowestbar -/

theorem extremeBar_total (ind : String) (n : Int) (better : Num F → Num F → Bool) :
    Total (fun (cs : List (Candle F)) i => Mov.extremeBar cs ind n i better) := by
  intro cs idx
  simp only [Mov.extremeBar]
  cases h : absIndex idx cs.length with
  | none => exact ⟨_, rfl⟩
  | some i =>
    simp only
    apply bind_total
    · apply foldlM_total
      intro s p _
      generalize readingByIndex cs ind p.1 = v
      cases hv : numOf v with
      | none =>
        have : v.isNumber = false := by rw [isNumber_eq, hv]; rfl
        simp only [this]; exact ⟨_, rfl⟩
      | some c =>
        have : v.isNumber = true := by rw [isNumber_eq, hv]; rfl
        simp only [this, asNum_of_numOf hv, bind, Except.bind]
        cases s.1 with
        | none => exact ⟨_, rfl⟩
        | some best => simp only [Bool.not_true, Bool.false_eq_true, if_false]; split <;> exact ⟨_, rfl⟩
    · intro r; exact ⟨_, rfl⟩

/-! ### cross / crossover / crossunder -/

theorem cross_total (a b : String) (n : Int) :
    Total (fun (cs : List (Candle F)) i => Mov.cross cs a b n i) := by
  intro cs idx
  simp only [Mov.cross]
  cases h : absIndex idx cs.length with
  | none => exact ⟨_, rfl⟩
  | some i =>
    simp only
    apply bind_total
    · apply anyM_total
      intro x _
      generalize readingByIndex cs b x = r1
      generalize readingByIndex cs a x = r2
      generalize readingByIndex cs a (x - 1) = p1
      generalize readingByIndex cs b (x - 1) = p2
      cases h1 : numOf r1 with
      | none => simp only [isNumber_eq, h1]; exact ⟨_, rfl⟩
      | some a1 =>
      cases h2 : numOf r2 with
      | none => simp only [isNumber_eq, h1, h2]; exact ⟨_, rfl⟩
      | some a2 =>
      cases h3 : numOf p1 with
      | none => simp only [isNumber_eq, h1, h2, h3]; exact ⟨_, rfl⟩
      | some a3 =>
      cases h4 : numOf p2 with
      | none => simp only [isNumber_eq, h1, h2, h3, h4]; exact ⟨_, rfl⟩
      | some a4 =>
        simp only [isNumber_eq, h1, h2, h3, h4, asNum_of_numOf h1, asNum_of_numOf h2,
          asNum_of_numOf h3, asNum_of_numOf h4, bind, Except.bind]
        exact ⟨_, rfl⟩
    · intro r; exact ⟨_, rfl⟩

theorem crossover_total (a b : String) (n : Int) :
    Total (fun (cs : List (Candle F)) i => Mov.crossover cs a b n i) := by
  intro cs idx
  simp only [Mov.crossover]
  cases h : absIndex idx cs.length with
  | none => exact ⟨_, rfl⟩
  | some i =>
    simp only
    apply bind_total
    · apply anyM_total
      intro x _
      simp only [aboveB_eq, belowB_eq, bind, Except.bind]
      split <;> exact ⟨_, rfl⟩
    · intro r; exact ⟨_, rfl⟩

theorem crossunder_total (a b : String) (n : Int) :
    Total (fun (cs : List (Candle F)) i => Mov.crossunder cs a b n i) := by
  intro cs idx
  simp only [Mov.crossunder]
  cases h : absIndex idx cs.length with
  | none => exact ⟨_, rfl⟩
  | some i =>
    simp only
    apply bind_total
    · apply anyM_total
      intro x _
      simp only [aboveB_eq, belowB_eq, bind, Except.bind]
      split <;> exact ⟨_, rfl⟩
    · intro r; exact ⟨_, rfl⟩

end Ana
end Hex

import HexProofs.Analysis.Total
/-
C16 (c) for the pattern functions: never an error, for every list, look-back and index
(including the default index `None` and invalid indices).
-/
set_option linter.unusedSectionVars false
namespace Hex
namespace Ana
variable {F : Type} [PyF F]

theorem avgOf_total (f : Candle F → Num F) (cs : List (Candle F)) (length j : Int) (hl : length ≠ 0)
    (h0 : 0 ≤ j) (hj : j < cs.length) : ∃ m, Pat.avgOf f cs length j = .ok m := by
  unfold Pat.avgOf
  simp only
  apply bind_total
  · apply mapM_total
    intro x hx
    have hm := (mem_pyRange _ _ _).1 hx
    have hx0 : 0 ≤ x := by
      have := hm.1
      split at this <;> omega
    obtain ⟨c, hc, _⟩ := pyIndex_ok cs x hx0 (by omega)
    rw [hc]; exact ⟨_, rfl⟩
  · intro vals
    unfold Num.truediv
    have : Num.isZero (Num.int length : Num F) = false := by simp [Num.isZero, hl]
    rw [this]; exact ⟨_, rfl⟩

theorem candleDoji_total (cs : List (Candle F)) (j : Int) (h0 : 0 ≤ j) (hj : j < cs.length) :
    ∃ m, Pat.candleDoji cs j = .ok m := by
  unfold Pat.candleDoji Pat.highLowAvg
  obtain ⟨m, hm⟩ := avgOf_total Candle.highLow cs 10 j (by decide) h0 hj
  rw [hm]; exact ⟨_, rfl⟩

theorem candleBodyLong_total (cs : List (Candle F)) (j : Int) (h0 : 0 ≤ j) (hj : j < cs.length) :
    ∃ m, Pat.candleBodyLong cs j = .ok m := by
  unfold Pat.candleBodyLong Pat.realbodyAvg
  obtain ⟨m, hm⟩ := avgOf_total Candle.realbody cs 10 j (by decide) h0 hj
  rw [hm]; exact ⟨_, rfl⟩

theorem candleNear_total (cs : List (Candle F)) (j : Int) (h0 : 0 ≤ j) (hj : j < cs.length) :
    ∃ m, Pat.candleNear cs j = .ok m := by
  unfold Pat.candleNear Pat.highLowAvg
  obtain ⟨m, hm⟩ := avgOf_total Candle.highLow cs 5 j (by decide) h0 hj
  rw [hm]; exact ⟨_, rfl⟩

theorem candleShadowLong_total (cs : List (Candle F)) (j : Int) (h0 : 0 ≤ j) (hj : j < cs.length) :
    ∃ m, Pat.candleShadowLong cs j = .ok m := by
  unfold Pat.candleShadowLong
  obtain ⟨c, hc, _⟩ := pyIndex_ok cs j h0 hj
  rw [hc]; exact ⟨_, rfl⟩

/-- a per-candle pattern test that returns for every candle that has a predecessor -/
def OneTotal (one : List (Candle F) → Int → PyM Bool) : Prop :=
  ∀ cs j, 1 ≤ j → j < cs.length → ∃ b, one cs j = .ok b

theorem dojiAt_total : OneTotal (F := F) Pat.dojiAt := by
  intro cs j h1 hj
  unfold Pat.dojiAt
  obtain ⟨c, hc, _⟩ := pyIndex_ok cs j (by omega) hj
  obtain ⟨d, hd⟩ := candleDoji_total cs j (by omega) hj
  rw [hc, hd]; exact ⟨_, rfl⟩

theorem dojistarAt_total : OneTotal (F := F) Pat.dojistarAt := by
  intro cs j h1 hj
  unfold Pat.dojistarAt
  obtain ⟨c, hc, _⟩ := pyIndex_ok cs j (by omega) hj
  obtain ⟨p, hp, _⟩ := pyIndex_ok cs (j - 1) (by omega) (by omega)
  obtain ⟨d, hd⟩ := candleDoji_total cs j (by omega) hj
  obtain ⟨l, hl⟩ := candleBodyLong_total cs (j - 1) (by omega) (by omega)
  rw [hc, hp, hd, hl]
  simp only [bind, Except.bind, pure, Except.pure]
  repeat' split
  all_goals exact ⟨_, rfl⟩

theorem hammerAt_total : OneTotal (F := F) Pat.hammerAt := by
  intro cs j h1 hj
  unfold Pat.hammerAt Pat.candleBodyShort Pat.candleShadowVeryShort
  obtain ⟨c, hc, _⟩ := pyIndex_ok cs j (by omega) hj
  obtain ⟨p, hp, _⟩ := pyIndex_ok cs (j - 1) (by omega) (by omega)
  obtain ⟨d, hd⟩ := candleDoji_total cs j (by omega) hj
  obtain ⟨l, hl⟩ := candleBodyLong_total cs j (by omega) hj
  obtain ⟨sl, hsl⟩ := candleShadowLong_total cs j (by omega) hj
  obtain ⟨nr, hnr⟩ := candleNear_total cs (j - 1) (by omega) (by omega)
  rw [hc, hp, hd, hl, hsl, hnr]
  simp only [bind, Except.bind, pure, Except.pure]
  repeat' split
  all_goals exact ⟨_, rfl⟩

theorem invHammerAt_total : OneTotal (F := F) Pat.invHammerAt := by
  intro cs j h1 hj
  unfold Pat.invHammerAt Pat.candleBodyShort Pat.candleShadowVeryShort
  obtain ⟨c, hc, _⟩ := pyIndex_ok cs j (by omega) hj
  obtain ⟨p, hp, _⟩ := pyIndex_ok cs (j - 1) (by omega) (by omega)
  obtain ⟨d, hd⟩ := candleDoji_total cs j (by omega) hj
  obtain ⟨l, hl⟩ := candleBodyLong_total cs j (by omega) hj
  obtain ⟨sl, hsl⟩ := candleShadowLong_total cs j (by omega) hj
  rw [hc, hp, hd, hl, hsl]
  simp only [bind, Except.bind, pure, Except.pure]
  repeat' split
  all_goals exact ⟨_, rfl⟩

theorem at_total {one : List (Candle F) → Int → PyM Bool} (h : OneTotal one)
    (cs : List (Candle F)) (j : Int) (hj : j < cs.length) :
    ∃ b, (if j < 10 then (pure false : PyM Bool) else one cs j) = .ok b := by
  by_cases h10 : j < 10
  · simp only [h10, if_true]; exact ⟨_, rfl⟩
  · simp only [h10, if_false]; exact h cs j (by omega) hj

/-- `pattern` never raises: any look-back, any index argument (default, valid, invalid) -/
theorem pattern_total {one : List (Candle F) → Int → PyM Bool} (h : OneTotal one)
    (cs : List (Candle F)) (lb : Option Int) (index : Option Int) :
    ∃ v, Pat.pattern one cs lb index = .ok v := by
  have tailNone : ∀ i : Int, i < cs.length → ∃ v : Val F,
      ((if i < 10 then (pure false : PyM Bool) else one cs i) >>= fun b => pure (Val.bool b)) = .ok v := by
    intro i hi
    apply bind_total
    · exact at_total h cs i hi
    · intro r; exact ⟨_, rfl⟩
  have tailSome : ∀ (i l : Int), i < cs.length → ∃ v : Val F,
      (((pyRange (if i + 1 - l < 0 then 0 else i + 1 - l) (i + 1)).anyM
          fun j => if j < 10 then (pure false : PyM Bool) else one cs j) >>= fun b => pure (Val.bool b)) = .ok v := by
    intro i l hi
    apply bind_total
    · apply anyM_total
      intro x hx
      have hm := (mem_pyRange _ _ _).1 hx
      exact at_total h cs x (by omega)
    · intro r; exact ⟨_, rfl⟩
  simp only [Pat.pattern]
  cases index with
  | none =>
    cases lb with
    | none => exact tailNone _ (by omega)
    | some l => exact tailSome _ l (by omega)
  | some idx =>
    simp only
    cases hn : absIndex idx cs.length with
    | none => exact ⟨_, rfl⟩
    | some i =>
      obtain ⟨_, hi, _⟩ := absIndex_some hn
      simp only
      cases lb with
      | none => exact tailNone i hi
      | some l => exact tailSome i l hi

end Ana
end Hex

import HexProofs.Analysis.Extreme
/-
C17: the statements in the form used by `HexProps/C17.lean`.
-/
set_option linter.unusedSectionVars false
namespace Hex
namespace Ana
variable {F : Type} [PyF F]

/-- the numeric reading of series `ind` at candle `j`: `none` when the candle does not exist or the
reading is missing, `None` or a dict (bools count as ints) -/
abbrev rd (cs : List (Candle F)) (ind : String) (j : Int) : Option (Num F) := numOf (readingByIndex cs ind j)

/-- `r` returns a Python bool, and that bool is `True` exactly when `P` -/
def Decides (r : PyM (Val F)) (P : Prop) : Prop := ∃ v, r = .ok (.bool v) ∧ (v = true ↔ P)

theorem decides_of_eq {r : PyM (Val F)} {b : Bool} {P : Prop} (h : r = .ok (.bool b)) (hp : b = true ↔ P) :
    Decides r P := ⟨b, h, hp⟩

theorem Decides.false_of_not {r : PyM (Val F)} {P : Prop} (h : Decides r P) (hn : ¬ P) : r = .ok (.bool false) := by
  obtain ⟨v, hv, hiff⟩ := h
  cases v with
  | false => exact hv
  | true => exact absurd (hiff.1 rfl) hn

theorem Decides.true_of {r : PyM (Val F)} {P : Prop} (h : Decides r P) (hp : P) : r = .ok (.bool true) := by
  obtain ⟨v, hv, hiff⟩ := h
  rw [hiff.2 hp] at hv; exact hv

theorem Decides.congr {r : PyM (Val F)} {P Q : Prop} (h : Decides r P) (hpq : P ↔ Q) : Decides r Q := by
  obtain ⟨v, hv, hiff⟩ := h; exact ⟨v, hv, hiff.trans hpq⟩

theorem scalarOf_none_iff (v : Val F) : scalarOf v = none ↔ numOf v = none := by
  rw [numOf_eq_scalarOf]; cases scalarOf v <;> simp

/-! ### rising / falling -/

theorem rising_decides (cs : List (Candle F)) (ind : String) (n i : Int) (h0 : 0 ≤ i) (hi : i < cs.length) :
    Decides (Mov.rising cs ind n i)
      (∃ l, rd cs ind i = some l ∧ (∃ j, lo i n ≤ j ∧ j < i ∧ (rd cs ind j).isSome = true) ∧
        ∀ j r, lo i n ≤ j → j < i → rd cs ind j = some r → Num.ge r l = false) :=
  decides_of_eq (monotone_eq cs ind n i _ h0 hi) (monoRef_iff_pos cs ind n i _)

theorem falling_decides (cs : List (Candle F)) (ind : String) (n i : Int) (h0 : 0 ≤ i) (hi : i < cs.length) :
    Decides (Mov.falling cs ind n i)
      (∃ l, rd cs ind i = some l ∧ (∃ j, lo i n ≤ j ∧ j < i ∧ (rd cs ind j).isSome = true) ∧
        ∀ j r, lo i n ≤ j → j < i → rd cs ind j = some r → Num.le r l = false) :=
  decides_of_eq (monotone_eq cs ind n i _ h0 hi) (monoRef_iff_pos cs ind n i _)

theorem rising_strict [OrdLaws F] (cs : List (Candle F)) (ind : String) (n i : Int) (h0 : 0 ≤ i) (hi : i < cs.length) :
    Decides (Mov.rising cs ind n i)
      (∃ l, rd cs ind i = some l ∧ (∃ j, lo i n ≤ j ∧ j < i ∧ (rd cs ind j).isSome = true) ∧
        ∀ j r, lo i n ≤ j → j < i → rd cs ind j = some r → Num.lt r l = true) := by
  apply (rising_decides cs ind n i h0 hi).congr
  constructor
  · rintro ⟨l, h1, h2, h3⟩; exact ⟨l, h1, h2, fun j r a b c => (Num.ge_false_iff r l).1 (h3 j r a b c)⟩
  · rintro ⟨l, h1, h2, h3⟩; exact ⟨l, h1, h2, fun j r a b c => (Num.ge_false_iff r l).2 (h3 j r a b c)⟩

theorem falling_strict [OrdLaws F] (cs : List (Candle F)) (ind : String) (n i : Int) (h0 : 0 ≤ i) (hi : i < cs.length) :
    Decides (Mov.falling cs ind n i)
      (∃ l, rd cs ind i = some l ∧ (∃ j, lo i n ≤ j ∧ j < i ∧ (rd cs ind j).isSome = true) ∧
        ∀ j r, lo i n ≤ j → j < i → rd cs ind j = some r → Num.lt l r = true) := by
  apply (falling_decides cs ind n i h0 hi).congr
  constructor
  · rintro ⟨l, h1, h2, h3⟩; exact ⟨l, h1, h2, fun j r a b c => (Num.le_false_iff r l).1 (h3 j r a b c)⟩
  · rintro ⟨l, h1, h2, h3⟩; exact ⟨l, h1, h2, fun j r a b c => (Num.le_false_iff r l).2 (h3 j r a b c)⟩

/-! ### mean_rising / mean_falling -/

theorem meanRising_decides (cs : List (Candle F)) (ind : String) (n i : Int) (h0 : 0 ≤ i) (hi : i < cs.length) :
    Decides (Mov.meanRising cs ind n i)
      (∃ l, rd cs ind i = some l ∧ window cs ind (lo i n) i ≠ [] ∧
        Num.lt (meanOf (window cs ind (lo i n) i)) l = true) :=
  decides_of_eq (meanCmp_eq cs ind n i _ h0 hi) (meanRef_iff cs ind n i _)

theorem meanFalling_decides (cs : List (Candle F)) (ind : String) (n i : Int) (h0 : 0 ≤ i) (hi : i < cs.length) :
    Decides (Mov.meanFalling cs ind n i)
      (∃ l, rd cs ind i = some l ∧ window cs ind (lo i n) i ≠ [] ∧
        Num.lt l (meanOf (window cs ind (lo i n) i)) = true) :=
  decides_of_eq (meanCmp_eq cs ind n i _ h0 hi) (meanRef_iff cs ind n i _)

/-! ### above / below / crosses -/

theorem above_decides (cs : List (Candle F)) (a b : String) (i : Int) :
    Decides (Mov.above cs a b i) (∃ x y, rd cs a i = some x ∧ rd cs b i = some y ∧ Num.lt y x = true) :=
  decides_of_eq (above_eq cs a b i) (aboveRef_iff cs a b i)

theorem below_decides (cs : List (Candle F)) (a b : String) (i : Int) :
    Decides (Mov.below cs a b i) (∃ x y, rd cs a i = some x ∧ rd cs b i = some y ∧ Num.lt x y = true) :=
  decides_of_eq (below_eq cs a b i) (belowRef_iff cs a b i)

theorem above_true_iff (cs : List (Candle F)) (a b : String) (i : Int) :
    Mov.above cs a b i = .ok (.bool true) ↔ aboveRef cs a b i = true := by
  rw [above_eq]; constructor
  · intro h; injection h with h; injection h with h; injection h
  · intro h; rw [h]

theorem below_true_iff (cs : List (Candle F)) (a b : String) (i : Int) :
    Mov.below cs a b i = .ok (.bool true) ↔ belowRef cs a b i = true := by
  rw [below_eq]; constructor
  · intro h; injection h with h; injection h with h; injection h
  · intro h; rw [h]

theorem crossover_decides (cs : List (Candle F)) (a b : String) (n i : Int) (h0 : 0 ≤ i) (hi : i < cs.length) :
    Decides (Mov.crossover cs a b n i)
      (∃ k, lo i n < k ∧ k ≤ i ∧ Mov.above cs a b k = .ok (.bool true) ∧ Mov.below cs a b (k - 1) = .ok (.bool true)) := by
  apply decides_of_eq (crossover_eq cs a b n i h0 hi)
  rw [any_crossIdxs_iff]
  simp only [Bool.and_eq_true, above_true_iff, below_true_iff]

theorem crossunder_decides (cs : List (Candle F)) (a b : String) (n i : Int) (h0 : 0 ≤ i) (hi : i < cs.length) :
    Decides (Mov.crossunder cs a b n i)
      (∃ k, lo i n < k ∧ k ≤ i ∧ Mov.below cs a b k = .ok (.bool true) ∧ Mov.above cs a b (k - 1) = .ok (.bool true)) := by
  apply decides_of_eq (crossunder_eq cs a b n i h0 hi)
  rw [any_crossIdxs_iff]
  simp only [Bool.and_eq_true, above_true_iff, below_true_iff]

theorem crossAt_iff (cs : List (Candle F)) (a b : String) (k : Int) :
    crossAt cs a b k = true ↔
      ∃ an bn ap bp, rd cs a k = some an ∧ rd cs b k = some bn ∧ rd cs a (k - 1) = some ap ∧ rd cs b (k - 1) = some bp ∧
        ((Num.lt bn an = true ∧ Num.le ap bp = true) ∨ (Num.lt an bn = true ∧ Num.le bp ap = true)) := by
  unfold crossAt rd
  cases numOf (readingByIndex cs a k) with
  | none => simp
  | some an =>
  cases numOf (readingByIndex cs b k) with
  | none => simp
  | some bn =>
  cases numOf (readingByIndex cs a (k - 1)) with
  | none => simp
  | some ap =>
  cases numOf (readingByIndex cs b (k - 1)) with
  | none => simp
  | some bp => simp [Num.gt, Num.ge]

theorem cross_decides (cs : List (Candle F)) (a b : String) (n i : Int) (h0 : 0 ≤ i) (hi : i < cs.length) :
    Decides (Mov.cross cs a b n i) (∃ k, lo i n < k ∧ k ≤ i ∧ crossAt cs a b k = true) :=
  decides_of_eq (cross_eq cs a b n i h0 hi) (any_crossIdxs_iff i n _)

theorem lo_one (i : Int) (h1 : 1 ≤ i) : lo i 1 = i - 1 := by unfold lo; split <;> omega

/-! ### highest / lowest -/

theorem highest_spec [OrdLaws F] (cs : List (Candle F)) (ind : String) (n i : Int)
    (h0 : 0 ≤ i) (hi : i < cs.length) (hn : 1 ≤ n) :
    ((∀ j, lo i n ≤ j → j ≤ i → rd cs ind j = none) ∧ Mov.highest cs ind n i = .ok .none) ∨
    ∃ (m : Scalar F) (jm : Int), Mov.highest cs ind n i = .ok (extremeOut (some m)) ∧
      lo i n ≤ jm ∧ jm ≤ i ∧ scalarOf (readingByIndex cs ind jm) = some m ∧
      (∀ j r, lo i n ≤ j → j ≤ i → rd cs ind j = some r → Num.le r (Mov.scalarNum m) = true) ∧
      (∀ j r, jm < j → j ≤ i → rd cs ind j = some r → Num.lt r (Mov.scalarNum m) = true) := by
  rw [highest_eq cs ind n i h0 hi hn]
  rcases extreme_spec (hiR_strictWeak (F := F)) cs ind n i with ⟨h1, h2⟩ | ⟨m, jm, h1, h2, h3, h4, h5, h6⟩
  · left; rw [h2]; exact ⟨fun j a b => (scalarOf_none_iff _).1 (h1 j a b), rfl⟩
  · right
    refine ⟨m, jm, by rw [h1], h2, h3, h4, ?_, ?_⟩
    · intro j r a b hr
      obtain ⟨s, hs, rfl⟩ := scalarOf_of_numOf hr
      exact (Num.le_true_iff _ _).2 (h5 j s a b hs)
    · intro j r a b hr
      obtain ⟨s, hs, rfl⟩ := scalarOf_of_numOf hr
      exact h6 j s a b hs

theorem lowest_spec [OrdLaws F] (cs : List (Candle F)) (ind : String) (n i : Int)
    (h0 : 0 ≤ i) (hi : i < cs.length) (hn : 1 ≤ n) :
    ((∀ j, lo i n ≤ j → j ≤ i → rd cs ind j = none) ∧ Mov.lowest cs ind n i = .ok .none) ∨
    ∃ (m : Scalar F) (jm : Int), Mov.lowest cs ind n i = .ok (extremeOut (some m)) ∧
      lo i n ≤ jm ∧ jm ≤ i ∧ scalarOf (readingByIndex cs ind jm) = some m ∧
      (∀ j r, lo i n ≤ j → j ≤ i → rd cs ind j = some r → Num.le (Mov.scalarNum m) r = true) ∧
      (∀ j r, jm < j → j ≤ i → rd cs ind j = some r → Num.lt (Mov.scalarNum m) r = true) := by
  rw [lowest_eq cs ind n i h0 hi hn]
  rcases extreme_spec (loR_strictWeak (F := F)) cs ind n i with ⟨h1, h2⟩ | ⟨m, jm, h1, h2, h3, h4, h5, h6⟩
  · left; rw [h2]; exact ⟨fun j a b => (scalarOf_none_iff _).1 (h1 j a b), rfl⟩
  · right
    refine ⟨m, jm, by rw [h1], h2, h3, h4, ?_, ?_⟩
    · intro j r a b hr
      obtain ⟨s, hs, rfl⟩ := scalarOf_of_numOf hr
      exact (Num.le_true_iff _ _).2 (h5 j s a b hs)
    · intro j r a b hr
      obtain ⟨s, hs, rfl⟩ := scalarOf_of_numOf hr
      exact h6 j s a b hs

/-- what `extremeOut` does to the picked reading: returned as stored, except the bool `False` -/
theorem extremeOut_some (m : Scalar F) :
    extremeOut (some m) = (match m with | .bool false => Val.none | v => .s v) := by
  cases m with
  | none => rfl
  | num x => rfl
  | bool b => cases b <;> rfl

/-! ### value_range -/

theorem valueRange_spec [OrdLaws F] (cs : List (Candle F)) (ind : String) (n i : Int)
    (h0 : 0 ≤ i) (hi : i < cs.length) :
    ((n < 2 ∨ (window cs ind (lo i n) (i + 1)).length < 2) ∧ Mov.valueRange cs ind n i = .ok .none) ∨
    (2 ≤ n ∧ 2 ≤ (window cs ind (lo i n) (i + 1)).length ∧
      ∃ mn mx, Mov.valueRange cs ind n i = .ok (.num (mn.sub mx).abs) ∧
        mn ∈ window cs ind (lo i n) (i + 1) ∧ mx ∈ window cs ind (lo i n) (i + 1) ∧
        ∀ r ∈ window cs ind (lo i n) (i + 1), Num.le mn r = true ∧ Num.le r mx = true) := by
  rw [valueRange_eq cs ind n i h0 hi]
  by_cases h : n < 2 ∨ (window cs ind (lo i n) (i + 1)).length < 2
  · left; exact ⟨h, by rw [rangeOut_none n _ h]⟩
  · right
    have hn : 2 ≤ n := by omega
    have hw : 2 ≤ (window cs ind (lo i n) (i + 1)).length := by omega
    obtain ⟨mn, mx, he, h1, h2, h3⟩ := rangeOut_spec n _ hn hw
    exact ⟨hn, hw, mn, mx, by rw [he], h1, h2, h3⟩

/-! ### highestbar / lowestbar -/

theorem highestbar_spec [OrdLaws F] (cs : List (Candle F)) (ind : String) (n i : Int)
    (h0 : 0 ≤ i) (hi : i < cs.length) :
    ∃ d, Mov.highestbar cs ind n i = .ok (.int d) ∧
      (((∀ k, 0 ≤ k → k < barCount i n → rd cs ind (i - k) = none) ∧ d = 0) ∨
       (0 ≤ d ∧ d < barCount i n ∧ ∃ m, rd cs ind (i - d) = some m ∧
          (∀ k r, 0 ≤ k → k < d → rd cs ind (i - k) = some r → Num.lt r m = true) ∧
          (∀ k r, d ≤ k → k < barCount i n → rd cs ind (i - k) = some r → Num.le r m = true))) := by
  obtain ⟨d, hd, hs⟩ := extremeBar_spec (R := fun best c : Num F => best.lt c) Num.lt_strictWeak cs ind n i h0 hi
  refine ⟨d, hd, ?_⟩
  rcases hs with h | ⟨a, b, m, hm, h1, h2⟩
  · left; exact h
  · right; exact ⟨a, b, m, hm, h1, fun k r x y z => (Num.le_true_iff r m).2 (h2 k r x y z)⟩

theorem lowestbar_spec [OrdLaws F] (cs : List (Candle F)) (ind : String) (n i : Int)
    (h0 : 0 ≤ i) (hi : i < cs.length) :
    ∃ d, Mov.lowestbar cs ind n i = .ok (.int d) ∧
      (((∀ k, 0 ≤ k → k < barCount i n → rd cs ind (i - k) = none) ∧ d = 0) ∨
       (0 ≤ d ∧ d < barCount i n ∧ ∃ m, rd cs ind (i - d) = some m ∧
          (∀ k r, 0 ≤ k → k < d → rd cs ind (i - k) = some r → Num.lt m r = true) ∧
          (∀ k r, d ≤ k → k < barCount i n → rd cs ind (i - k) = some r → Num.le m r = true))) := by
  obtain ⟨d, hd, hs⟩ := extremeBar_spec (R := fun best c : Num F => best.gt c) (Num.lt_strictWeak (F := F)).flip cs ind n i h0 hi
  refine ⟨d, hd, ?_⟩
  rcases hs with h | ⟨a, b, m, hm, h1, h2⟩
  · left; exact h
  · right; exact ⟨a, b, m, hm, h1, fun k r x y z => (Num.le_true_iff m r).2 (h2 k r x y z)⟩

end Ana
end Hex

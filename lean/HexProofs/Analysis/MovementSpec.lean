import HexProofs.Analysis.Window
/-
C17, structural part (every float carrier, no order laws): each movement function equals a pure
reference over the position-defined window of numeric readings.
-/
set_option linter.unusedSectionVars false
namespace Hex
namespace Ana
variable {F : Type} [PyF F]

theorem latest_reading (cs : List (Candle F)) (ind : String) (i : Int) (h0 : 0 ≤ i) (hi : i < cs.length) :
    ∃ c, pyIndex cs i = .ok c ∧ readingByCandle c ind = readingByIndex cs ind i := by
  obtain ⟨c, hc, hg⟩ := pyIndex_ok cs i h0 hi
  exact ⟨c, hc, (readingByIndex_eq cs ind i h0 hi c hg).symm⟩

theorem lo_ge_of_short (i n : Int) (len : Nat) (h0 : 0 ≤ i) (hi : i < len)
    (h : (decide (n < 1) || decide (len < 2)) = true) : i ≤ lo i n := by
  simp only [Bool.or_eq_true, decide_eq_true_eq] at h
  unfold lo
  split <;> omega

/-! ### rising / falling -/

/-- the latest reading is a number, the window of the `n` candles before it (clamped at candle 0,
missing readings dropped) is non-empty, and no reading of the window is `bad` against the latest -/
def monoRef (cs : List (Candle F)) (ind : String) (n i : Int) (bad : Num F → Num F → Bool) : Bool :=
  match numOf (readingByIndex cs ind i) with
  | none => false
  | some l => !(window cs ind (lo i n) i).isEmpty && !((window cs ind (lo i n) i).any fun r => bad r l)

theorem monotone_eq (cs : List (Candle F)) (ind : String) (n i : Int) (bad : Num F → Num F → Bool)
    (h0 : 0 ≤ i) (hi : i < cs.length) :
    Mov.monotone cs ind n i bad = .ok (.bool (monoRef cs ind n i bad)) := by
  obtain ⟨c, hc, hr⟩ := latest_reading cs ind i h0 hi
  unfold Mov.monotone monoRef
  rw [absIndex_self i cs.length h0 hi]
  simp only
  split
  · rename_i hshort
    rw [window_empty_range cs ind _ _ (lo_ge_of_short i n cs.length h0 hi hshort)]
    cases numOf (readingByIndex cs ind i) <;> rfl
  · rw [hc]
    simp only [bind, Except.bind]
    rw [hr, cleanReadings_eq cs ind n i false h0 hi]
    simp only [Bool.false_eq_true, if_false]
    generalize readingByIndex cs ind i = v
    generalize window cs ind (lo i n) i = w
    cases v with
    | dict k => rfl
    | s x =>
      cases x with
      | none => rfl
      | bool b => simp only [Val.asNum, Scalar.asNum, numOf]; cases w <;> rfl
      | num m => simp only [Val.asNum, Scalar.asNum, numOf]; cases w <;> rfl

/-! ### mean_rising / mean_falling -/

/-- Python `sum(w) / len(w)` on a non-empty window (float division) -/
def meanOf (w : List (Num F)) : Num F := .flt (PyF.div (pySum w).toF (PyF.ofInt (w.length : Int)))

def meanRef (cs : List (Candle F)) (ind : String) (n i : Int) (good : Num F → Num F → Bool) : Bool :=
  match numOf (readingByIndex cs ind i) with
  | none => false
  | some l => !(window cs ind (lo i n) i).isEmpty && good (meanOf (window cs ind (lo i n) i)) l

theorem truediv_length (a : Num F) (w : List (Num F)) (h : w.isEmpty = false) :
    a.truediv (.int w.length) = .ok (.flt (PyF.div a.toF (PyF.ofInt (w.length : Int)))) := by
  unfold Num.truediv
  have : Num.isZero (Num.int (w.length : Int) : Num F) = false := by
    cases w with
    | nil => simp at h
    | cons x r => simp [Num.isZero]; omega
  rw [this]; rfl

theorem meanCmp_eq (cs : List (Candle F)) (ind : String) (n i : Int) (good : Num F → Num F → Bool)
    (h0 : 0 ≤ i) (hi : i < cs.length) :
    Mov.meanCmp cs ind n i good = .ok (.bool (meanRef cs ind n i good)) := by
  obtain ⟨c, hc, hr⟩ := latest_reading cs ind i h0 hi
  unfold Mov.meanCmp meanRef
  rw [absIndex_self i cs.length h0 hi]
  simp only
  split
  · rename_i hshort
    rw [window_empty_range cs ind _ _ (lo_ge_of_short i n cs.length h0 hi hshort)]
    cases numOf (readingByIndex cs ind i) <;> rfl
  · rw [hc]
    simp only [bind, Except.bind]
    rw [hr, cleanReadings_eq cs ind n i false h0 hi]
    simp only [Bool.false_eq_true, if_false]
    generalize readingByIndex cs ind i = v
    generalize window cs ind (lo i n) i = w
    have tail : ∀ l : Num F,
        (if w.isEmpty = true then (pure (Val.bool false) : PyM (Val F))
          else (pySum w).truediv (Num.int w.length) >>= fun m => pure (Val.bool (good m l)))
        = .ok (.bool (!w.isEmpty && good (meanOf w) l)) := by
      intro l
      cases he : w.isEmpty with
      | true => rfl
      | false => rw [truediv_length _ w he]; rfl
    cases v with
    | dict k => rfl
    | s x =>
      cases x with
      | none => rfl
      | bool b => simp only [Val.asNum, Scalar.asNum, numOf]; exact tail _
      | num m => simp only [Val.asNum, Scalar.asNum, numOf]; exact tail _

/-! ### highest / lowest -/

/-- keep the incumbent unless the next element is strictly better (`R incumbent next`): the shape of
Python's `max` / `min` and of the `highestbar` loop – returns the FIRST extremal element -/
def pickFirst {α : Type} (R : α → α → Bool) : List α → Option α
  | [] => none
  | x :: xs => some (xs.foldl (fun best y => if R best y then y else best) x)

/-- `max_reading if max_reading is not False else None` -/
def extremeOut : Option (Scalar F) → Val F
  | some (.bool false) => .none
  | some v => .s v
  | none => .none

theorem pickScalar_eq (better : Num F → Num F → Bool) (l : List (Scalar F)) :
    Mov.pickScalar better l = pickFirst (fun best y => better (Mov.scalarNum y) (Mov.scalarNum best)) l := by
  cases l <;> rfl

theorem extreme_eq (cs : List (Candle F)) (ind : String) (n i : Int) (better : Num F → Num F → Bool)
    (h0 : 0 ≤ i) (hi : i < cs.length) (hn : 1 ≤ n) :
    Mov.extreme cs ind n i better = .ok (extremeOut
      (pickFirst (fun best y => better (Mov.scalarNum y) (Mov.scalarNum best)) (windowS cs ind (lo i n) (i + 1)))) := by
  unfold Mov.extreme
  rw [absIndex_self i cs.length h0 hi]
  have hg : (decide (n < 1) || cs.isEmpty) = false := by
    rw [isEmpty_false_of_lt cs i h0 hi]
    have : ¬ n < 1 := by omega
    simp [this]
  simp only [hg, Bool.false_eq_true, if_false]
  rw [cleanScalars_eq cs ind n i true h0 hi, pickScalar_eq]
  simp only [if_true]
  generalize pickFirst _ _ = r
  cases r with
  | none => rfl
  | some v =>
    cases v with
    | none => rfl
    | num m => rfl
    | bool b => cases b <;> rfl

/-- `length < 1`: the function returns `False` -/
theorem extreme_short (cs : List (Candle F)) (ind : String) (n i : Int) (better : Num F → Num F → Bool)
    (h0 : 0 ≤ i) (hi : i < cs.length) (hn : n < 1) :
    Mov.extreme cs ind n i better = .ok (.bool false) := by
  unfold Mov.extreme
  rw [absIndex_self i cs.length h0 hi]
  simp [hn]

/-! ### value_range -/

def rangeOut (n : Int) (w : List (Num F)) : Val F :=
  if n < 2 then .none else if w.length < 2 then .none else
  match pickFirst (fun a b => b.lt a) w, pickFirst (fun a b => b.gt a) w with
  | some lo, some hi => .num (lo.sub hi).abs
  | _, _ => .none

theorem minList_eq (w : List (Num F)) : Num.minList w = pickFirst (fun a b => b.lt a) w := by
  cases w <;> rfl
theorem maxList_eq (w : List (Num F)) : Num.maxList w = pickFirst (fun a b => b.gt a) w := by
  cases w <;> rfl

theorem valueRange_eq (cs : List (Candle F)) (ind : String) (n i : Int) (h0 : 0 ≤ i) (hi : i < cs.length) :
    Mov.valueRange cs ind n i = .ok (rangeOut n (window cs ind (lo i n) (i + 1))) := by
  unfold Mov.valueRange rangeOut
  rw [absIndex_self i cs.length h0 hi]
  simp only
  rw [cleanReadings_eq cs ind n i true h0 hi, minList_eq, maxList_eq]
  simp only [if_true]
  split
  · rfl
  · split
    · rfl
    · split <;> simp_all

/-! ### highestbar / lowestbar -/

/-- the numeric readings met by the bar loop with their offsets from the evaluated candle:
offsets `0, 1, …` address candles `i, i-1, …` down to `max(i - n, -1) + 1` -/
def barObs (cs : List (Candle F)) (ind : String) (n i : Int) : List (Num F × Int) :=
  ((pyRangeDown i (if i - n < -1 then -1 else i - n)).zipIdx).filterMap fun p =>
    (numOf (readingByIndex cs ind p.1)).map fun c => (c, (p.2 : Int))

/-- the loop result: offset of the first extreme met, `0` when there is no number -/
def barOut (R : Num F → Num F → Bool) (obs : List (Num F × Int)) : Int :=
  match pickFirst (fun best y => R best.1 y.1) obs with
  | none => 0
  | some p => p.2

/-- one iteration of the bar loop, pure form -/
def barStep (cs : List (Candle F)) (ind : String) (better : Num F → Num F → Bool)
    (acc : Option (Num F) × Int) (p : Int × Nat) : Option (Num F) × Int :=
  match numOf (readingByIndex cs ind p.1) with
  | none => acc
  | some c =>
    match acc.1 with
    | none => (some c, (p.2 : Int))
    | some best => if better best c then (some c, (p.2 : Int)) else acc

theorem barFold_some (cs : List (Candle F)) (ind : String) (better : Num F → Num F → Bool)
    (l : List (Int × Nat)) (c0 : Num F) (k0 : Int) :
    l.foldl (barStep cs ind better) (some c0, k0)
    = (let r := (l.filterMap fun p => (numOf (readingByIndex cs ind p.1)).map fun c => (c, (p.2 : Int))).foldl
          (fun best y => if better best.1 y.1 then y else best) (c0, k0)
       (some r.1, r.2)) := by
  induction l generalizing c0 k0 with
  | nil => rfl
  | cons p r ih =>
    simp only [List.foldl_cons, List.filterMap_cons]
    cases hv : numOf (readingByIndex cs ind p.1) with
    | none =>
      have e : barStep cs ind better (some c0, k0) p = (some c0, k0) := by simp only [barStep, hv]
      rw [e]; exact ih c0 k0
    | some c =>
      by_cases hb : better c0 c = true
      · have e : barStep cs ind better (some c0, k0) p = (some c, (p.2 : Int)) := by
          simp only [barStep, hv, hb, if_true]
        rw [e]; simp only [Option.map_some, List.foldl_cons, hb, if_true]; exact ih c _
      · have e : barStep cs ind better (some c0, k0) p = (some c0, k0) := by
          simp only [barStep, hv, hb]; rfl
        rw [e]; simp only [Option.map_some, List.foldl_cons, hb]; exact ih c0 k0

theorem barFold_none (cs : List (Candle F)) (ind : String) (better : Num F → Num F → Bool)
    (l : List (Int × Nat)) :
    l.foldl (barStep cs ind better) ((none : Option (Num F)), (0 : Int))
    = (match pickFirst (fun best y => better best.1 y.1)
          (l.filterMap fun p => (numOf (readingByIndex cs ind p.1)).map fun c => (c, (p.2 : Int))) with
        | none => (none, 0)
        | some r => (some r.1, r.2)) := by
  induction l with
  | nil => rfl
  | cons p r ih =>
    simp only [List.foldl_cons, List.filterMap_cons]
    cases hv : numOf (readingByIndex cs ind p.1) with
    | none =>
      have e : barStep cs ind better (none, 0) p = (none, 0) := by simp only [barStep, hv]
      rw [e]; exact ih
    | some c =>
      have e : barStep cs ind better (none, 0) p = (some c, (p.2 : Int)) := by simp only [barStep, hv]
      rw [e]; simp only [Option.map_some]
      exact barFold_some cs ind better r c _

theorem extremeBar_eq (cs : List (Candle F)) (ind : String) (n i : Int) (better : Num F → Num F → Bool)
    (h0 : 0 ≤ i) (hi : i < cs.length) :
    Mov.extremeBar cs ind n i better = .ok (.int (barOut better (barObs cs ind n i))) := by
  unfold Mov.extremeBar barOut barObs
  rw [absIndex_self i cs.length h0 hi]
  simp only
  rw [foldlM_pure _ _ (barStep cs ind better)]
  · rw [barFold_none]
    generalize pickFirst _ _ = r
    cases r <;> rfl
  · intro s p _
    unfold barStep
    generalize readingByIndex cs ind p.1 = v
    cases hv : numOf v with
    | none =>
      have : v.isNumber = false := by rw [isNumber_eq, hv]; rfl
      simp only [this]; rfl
    | some c =>
      have : v.isNumber = true := by rw [isNumber_eq, hv]; rfl
      simp only [this, asNum_of_numOf hv, bind, Except.bind]
      cases s.1 with
      | none => rfl
      | some best => simp only [Bool.not_true, Bool.false_eq_true, if_false]; split <;> rfl

/-! ### cross / crossover / crossunder -/

theorem mem_crossIdxs_iff (i n x : Int) : x ∈ Mov.crossIdxs i n ↔ lo i n < x ∧ x ≤ i := by
  unfold Mov.crossIdxs lo; exact mem_pyRangeDown _ _ _

theorem crossIdxs_one (i : Int) (h1 : 1 ≤ i) : Mov.crossIdxs i 1 = [i] := by
  unfold Mov.crossIdxs
  have : ¬ i - 1 < 0 := by omega
  simp only [this, if_false]
  rw [pyRangeDown_cons i (i - 1) (by omega), pyRangeDown_nil (i - 1) (i - 1) (le_refl _)]

theorem crossIdxs_zero (n : Int) : Mov.crossIdxs 0 n = [] := by
  unfold Mov.crossIdxs
  apply pyRangeDown_nil; split <;> omega

/-- one step of `cross`: all four readings are numbers and `a` went from `≤ b` to `> b`
or from `≥ b` to `< b` between candle `idx-1` and candle `idx` -/
def crossAt (cs : List (Candle F)) (a b : String) (idx : Int) : Bool :=
  match numOf (readingByIndex cs a idx), numOf (readingByIndex cs b idx),
        numOf (readingByIndex cs a (idx - 1)), numOf (readingByIndex cs b (idx - 1)) with
  | some an, some bn, some ap, some bp => (bn.lt an && ap.le bp) || (bn.gt an && ap.ge bp)
  | _, _, _, _ => false

theorem cross_eq (cs : List (Candle F)) (a b : String) (n i : Int) (h0 : 0 ≤ i) (hi : i < cs.length) :
    Mov.cross cs a b n i = .ok (.bool ((Mov.crossIdxs i n).any (crossAt cs a b))) := by
  unfold Mov.cross
  rw [absIndex_self i cs.length h0 hi]
  simp only
  rw [anyM_pure (Mov.crossIdxs i n) _ (crossAt cs a b)]
  · rfl
  · intro x _
    unfold crossAt
    generalize readingByIndex cs b x = r1
    generalize readingByIndex cs a x = r2
    generalize readingByIndex cs a (x - 1) = p1
    generalize readingByIndex cs b (x - 1) = p2
    cases h1 : numOf r1 with
    | none => simp only [isNumber_eq, h1]; cases numOf r2 <;> rfl
    | some a1 =>
    cases h2 : numOf r2 with
    | none => simp only [isNumber_eq, h1, h2]; rfl
    | some a2 =>
    cases h3 : numOf p1 with
    | none => simp only [isNumber_eq, h1, h2, h3]; rfl
    | some a3 =>
    cases h4 : numOf p2 with
    | none => simp only [isNumber_eq, h1, h2, h3, h4]; rfl
    | some a4 =>
      simp only [isNumber_eq, h1, h2, h3, h4, asNum_of_numOf h1, asNum_of_numOf h2,
        asNum_of_numOf h3, asNum_of_numOf h4, bind, Except.bind]
      rfl

theorem crossover_eq (cs : List (Candle F)) (a b : String) (n i : Int) (h0 : 0 ≤ i) (hi : i < cs.length) :
    Mov.crossover cs a b n i
      = .ok (.bool ((Mov.crossIdxs i n).any fun idx => aboveRef cs a b idx && belowRef cs a b (idx - 1))) := by
  unfold Mov.crossover
  rw [absIndex_self i cs.length h0 hi]
  simp only
  rw [anyM_pure (Mov.crossIdxs i n) _ (fun idx => aboveRef cs a b idx && belowRef cs a b (idx - 1))]
  · rfl
  · intro x _
    simp only [aboveB_eq, belowB_eq, bind, Except.bind]
    cases aboveRef cs a b x <;> rfl

theorem crossunder_eq (cs : List (Candle F)) (a b : String) (n i : Int) (h0 : 0 ≤ i) (hi : i < cs.length) :
    Mov.crossunder cs a b n i
      = .ok (.bool ((Mov.crossIdxs i n).any fun idx => belowRef cs a b idx && aboveRef cs a b (idx - 1))) := by
  unfold Mov.crossunder
  rw [absIndex_self i cs.length h0 hi]
  simp only
  rw [anyM_pure (Mov.crossIdxs i n) _ (fun idx => belowRef cs a b idx && aboveRef cs a b (idx - 1))]
  · rfl
  · intro x _
    simp only [aboveB_eq, belowB_eq, bind, Except.bind]
    cases belowRef cs a b x <;> rfl

end Ana
end Hex

import HexProofs.Access.Basic
import HexModel.Core.Eval
/-
Generic lemmas for the movement / pattern proofs: index normalisation, Python ranges, congruence
of the monadic list combinators (`anyM`, `foldlM`, `mapM`) in `PyM`, `_get_clean_readings` on a
prefix.
-/
set_option linter.unusedSectionVars false
namespace Hex
namespace Ana
variable {F : Type} [PyF F]

/-! ### index normalisation -/

theorem validIndex_self (i : Int) (n : Nat) (h0 : 0 ≤ i) (hi : i < n) : validIndex i n = true := by
  simp [validIndex]; omega

theorem validIndex_neg (i : Int) (n : Nat) (h0 : 0 ≤ i) (hi : i < n) : validIndex (i - n) n = true := by
  simp [validIndex]; omega

theorem absIndex_self (i : Int) (n : Nat) (h0 : 0 ≤ i) (hi : i < n) : absIndex i n = some i := by
  unfold absIndex
  have : ¬ i < 0 := by omega
  simp [validIndex_self i n h0 hi, this]

theorem absIndex_neg (i : Int) (n : Nat) (h0 : 0 ≤ i) (hi : i < n) : absIndex (i - n) n = some i := by
  unfold absIndex
  have : i - (n : Int) < 0 := by omega
  simp [validIndex_neg i n h0 hi, this]

/-- `absindex` succeeds exactly on the valid indices, and then names a position of the list that
the index denotes either directly or as its negative alias. -/
theorem absIndex_some {idx : Int} {n : Nat} {i : Int} (h : absIndex idx n = some i) :
    0 ≤ i ∧ i < n ∧ (idx = i ∨ idx = i - n) := by
  unfold absIndex at h
  by_cases hv : validIndex idx n = true
  · have hv' := (validIndex_iff idx n).1 hv
    simp only [hv, Bool.not_true, Bool.false_eq_true, if_false] at h
    by_cases hneg : idx < 0
    · simp only [hneg, if_true, Option.some.injEq] at h; omega
    · simp only [hneg, if_false, Option.some.injEq] at h; omega
  · simp [hv] at h

theorem absIndex_none {idx : Int} {n : Nat} (h : absIndex idx n = none) : validIndex idx n = false := by
  unfold absIndex at h
  by_cases hv : validIndex idx n = true
  · simp only [hv, Bool.not_true, Bool.false_eq_true, if_false] at h
    split at h <;> cases h
  · simpa using hv

theorem readingByIndex_neg (cs : List (Candle F)) (name : String) (i : Int)
    (h0 : 0 ≤ i) (hi : i < cs.length) :
    readingByIndex cs name (i - cs.length) = readingByIndex cs name i := by
  unfold readingByIndex
  rw [validIndex_neg i cs.length h0 hi, validIndex_self i cs.length h0 hi, pyIndex_neg cs i h0 hi]

theorem pyIndex_ok {α : Type} (l : List α) (i : Int) (h0 : 0 ≤ i) (hi : i < l.length) :
    ∃ x, pyIndex l i = .ok x ∧ l[i.toNat]? = some x := by
  rw [pyIndex_nonneg l i h0]
  have : i.toNat < l.length := by omega
  refine ⟨l[i.toNat], ?_, ?_⟩
  · rw [List.getElem?_eq_getElem this]; rfl
  · rw [List.getElem?_eq_getElem this]

theorem upto_length_int {α : Type} (l : List α) (i : Int) (h0 : 0 ≤ i) (h1 : i < l.length) :
    ((upto l i).length : Int) = i + 1 := by
  rw [upto_length l i h0 h1]; omega

theorem upto_ne_nil {α : Type} (l : List α) (i : Int) (h0 : 0 ≤ i) (h1 : i < l.length) :
    (upto l i).isEmpty = false := by
  have := upto_length l i h0 h1
  cases h : upto l i with
  | nil => rw [h] at this; simp at this; omega
  | cons _ _ => rfl

theorem isEmpty_false_of_lt {α : Type} (l : List α) (i : Int) (h0 : 0 ≤ i) (h1 : i < l.length) :
    l.isEmpty = false := by
  cases l with
  | nil => simp at h1; omega
  | cons _ _ => rfl

/-- truncating twice: the prefix up to `i` of the list is its own prefix up to `i` -/
theorem upto_upto {α : Type} (l : List α) (i : Int) : upto (upto l i) i = upto l i := by
  unfold upto; rw [List.take_take]; simp

/-! ### Python ranges -/

theorem mem_pyRange (a b x : Int) : x ∈ pyRange a b ↔ a ≤ x ∧ x < b := by
  unfold pyRange
  simp only [List.mem_map, List.mem_range]
  constructor
  · rintro ⟨k, hk, rfl⟩; omega
  · intro h; exact ⟨(x - a).toNat, by omega, by omega⟩

theorem mem_pyRangeDown (a b x : Int) : x ∈ pyRangeDown a b ↔ b < x ∧ x ≤ a := by
  unfold pyRangeDown
  simp only [List.mem_map, List.mem_range]
  constructor
  · rintro ⟨k, hk, rfl⟩; omega
  · intro h; exact ⟨(a - x).toNat, by omega, by omega⟩

theorem pyRangeDown_nil (a b : Int) (h : a ≤ b) : pyRangeDown a b = [] := by
  unfold pyRangeDown
  have : (a - b).toNat = 0 := by omega
  simp [this]

theorem pyRangeDown_cons (a b : Int) (h : b < a) : pyRangeDown a b = a :: pyRangeDown (a - 1) b := by
  unfold pyRangeDown
  have : (a - b).toNat = (a - 1 - b).toNat + 1 := by omega
  rw [this, List.range_succ_eq_map]
  simp only [List.map_cons, List.map_map]
  congr 1
  · simp
  · apply List.map_congr_left; intro k _; simp only [Function.comp]; omega

theorem pyRange_nil (a b : Int) (h : b ≤ a) : pyRange a b = [] := by
  unfold pyRange
  have : (b - a).toNat = 0 := by omega
  simp [this]

theorem pyRange_cons (a b : Int) (h : a < b) : pyRange a b = a :: pyRange (a + 1) b := by
  unfold pyRange
  have : (b - a).toNat = (b - (a + 1)).toNat + 1 := by omega
  rw [this, List.range_succ_eq_map]
  simp only [List.map_cons, List.map_map]
  congr 1
  · simp
  · apply List.map_congr_left; intro k _; simp only [Function.comp]; omega

/-! ### monadic list combinators in `PyM` -/

theorem anyM_congr {α : Type} (l : List α) (p q : α → PyM Bool) (h : ∀ x ∈ l, p x = q x) :
    l.anyM p = l.anyM q := by
  induction l with
  | nil => rfl
  | cons a r ih =>
    simp only [List.anyM]
    rw [h a (by simp), ih (fun x hx => h x (by simp [hx]))]

/-- a loop whose body never raises is the pure `any` -/
theorem anyM_pure {α : Type} (l : List α) (p : α → PyM Bool) (b : α → Bool)
    (h : ∀ x ∈ l, p x = .ok (b x)) : l.anyM p = .ok (l.any b) := by
  induction l with
  | nil => rfl
  | cons a r ih =>
    simp only [List.anyM, List.any_cons]
    rw [h a (by simp), ih (fun x hx => h x (by simp [hx]))]
    cases b a <;> rfl

theorem foldlM_congr {α β : Type} (l : List α) (f g : β → α → PyM β) (h : ∀ s, ∀ x ∈ l, f s x = g s x)
    (s : β) : l.foldlM f s = l.foldlM g s := by
  induction l generalizing s with
  | nil => rfl
  | cons a r ih =>
    simp only [List.foldlM_cons]
    rw [h s a (by simp)]
    congr 1; funext s'
    exact ih (fun s x hx => h s x (by simp [hx])) s'

/-- a fold whose body never raises is the pure fold -/
theorem foldlM_pure {α β : Type} (l : List α) (f : β → α → PyM β) (g : β → α → β)
    (h : ∀ s, ∀ x ∈ l, f s x = .ok (g s x)) (s : β) : l.foldlM f s = .ok (l.foldl g s) := by
  induction l generalizing s with
  | nil => rfl
  | cons a r ih =>
    simp only [List.foldlM_cons, List.foldl_cons]
    rw [h s a (by simp)]
    exact ih (fun s x hx => h s x (by simp [hx])) (g s a)

theorem mapM_congr {α β : Type} (l : List α) (f g : α → PyM β) (h : ∀ x ∈ l, f x = g x) :
    l.mapM f = l.mapM g := by
  induction l with
  | nil => rfl
  | cons a r ih =>
    simp only [List.mapM_cons]
    rw [h a (by simp), ih (fun x hx => h x (by simp [hx]))]

/-- a map whose body never raises is the pure map -/
theorem mapM_pure {α β : Type} (l : List α) (f : α → PyM β) (g : α → β)
    (h : ∀ x ∈ l, f x = .ok (g x)) : l.mapM f = .ok (l.map g) := by
  induction l with
  | nil => rfl
  | cons a r ih =>
    simp only [List.mapM_cons, List.map_cons]
    rw [h a (by simp), ih (fun x hx => h x (by simp [hx]))]
    rfl

/-! ### `_get_clean_readings` on a prefix -/

theorem cleanScalars_upto (cs : List (Candle F)) (ind : String) (length : Int) (i j : Int) (incl : Bool)
    (h0 : 0 ≤ j) (hj : j ≤ i) (hi : i < cs.length) :
    Mov.cleanScalars (upto cs i) ind length j incl = Mov.cleanScalars cs ind length j incl := by
  unfold Mov.cleanScalars
  simp only
  rw [pySlice_upto cs i _ _ (by omega) hi (by split <;> omega) (by split <;> omega) (by split <;> omega)]

theorem cleanReadings_upto (cs : List (Candle F)) (ind : String) (length : Int) (i j : Int) (incl : Bool)
    (h0 : 0 ≤ j) (hj : j ≤ i) (hi : i < cs.length) :
    Mov.cleanReadings (upto cs i) ind length j incl = Mov.cleanReadings cs ind length j incl := by
  unfold Mov.cleanReadings; rw [cleanScalars_upto cs ind length i j incl h0 hj hi]

end Ana
end Hex

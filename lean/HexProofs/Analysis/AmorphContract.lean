import HexProofs.Analysis.Final
import HexProofs.Analysis.Dispatch
import HexProofs.Framework.Schedule
import HexProofs.Framework.Column
/-
`Amorph` (any wrapped movement / pattern function) satisfies the leaf `Contract` of the framework:
no look-ahead (C16 (a)) and key locality (the wrapped function sees the candles only through the
price fields and through the columns of the readings it names).  With the generic refinement
`runIndicator_refines` this gives "live column = batch column" for every wrapped function.
-/
set_option linter.unusedSectionVars false
namespace Hex
namespace Ana
variable {F : Type} [PyF F]

/-- the reading names a wrapped function looks at -/
def names : Analysis → List String
  | .positive | .negative => []
  | .above a b | .below a b => [a, b]
  | .valueRange ind _ | .rising ind _ | .falling ind _ | .meanRising ind _ | .meanFalling ind _
  | .highest ind _ | .lowest ind _ | .highestbar ind _ | .lowestbar ind _ => [ind]
  | .cross a b _ | .crossover a b _ | .crossunder a b _ => [a, b]
  | .doji _ | .dojistar _ | .hammer _ | .invHammer _ => []

/-- a candle reduced to its four prices -/
def strip (c : Candle F) : Candle F := { o := c.o, h := c.h, l := c.l, c := c.c, v := .int 0 }

/-! ### congruence of the movement references in the readings -/

section readings
variable (cs cs' : List (Candle F)) (nm : String)
  (h : ∀ j, readingByIndex cs nm j = readingByIndex cs' nm j)
include h

theorem window_congr (lo' hi' : Int) : window cs nm lo' hi' = window cs' nm lo' hi' := by
  unfold window; simp only [h]
theorem windowS_congr (lo' hi' : Int) : windowS cs nm lo' hi' = windowS cs' nm lo' hi' := by
  unfold windowS; simp only [h]
theorem barObs_congr (n i : Int) : barObs cs nm n i = barObs cs' nm n i := by
  unfold barObs; simp only [h]
theorem monoRef_congr (n i : Int) (bad : Num F → Num F → Bool) :
    monoRef cs nm n i bad = monoRef cs' nm n i bad := by
  unfold monoRef; rw [h, window_congr cs cs' nm h]
theorem meanRef_congr (n i : Int) (good : Num F → Num F → Bool) :
    meanRef cs nm n i good = meanRef cs' nm n i good := by
  unfold meanRef; rw [h, window_congr cs cs' nm h]
end readings

section two
variable (cs cs' : List (Candle F)) (a b : String)
  (ha : ∀ j, readingByIndex cs a j = readingByIndex cs' a j)
  (hb : ∀ j, readingByIndex cs b j = readingByIndex cs' b j)
include ha hb

theorem aboveRef_congr (i : Int) : aboveRef cs a b i = aboveRef cs' a b i := by
  unfold aboveRef; rw [ha, hb]
theorem belowRef_congr (i : Int) : belowRef cs a b i = belowRef cs' a b i := by
  unfold belowRef; rw [ha, hb]
theorem crossAt_congr (i : Int) : crossAt cs a b i = crossAt cs' a b i := by
  unfold crossAt; rw [ha, hb, ha, hb]
end two

/-! ### the pattern references only see the prices -/

theorem candleAt_map_strip (cs : List (Candle F)) (j : Int) (h0 : 0 ≤ j) (hj : j < cs.length) :
    candleAt (cs.map strip) j = strip (candleAt cs j) := by
  unfold candleAt
  have hlt : j.toNat < cs.length := by omega
  rw [List.getElem?_map, List.getElem?_eq_getElem hlt]; rfl

theorem lastN_map' (g : Candle F → Candle F) (cs : List (Candle F)) (len j : Int) :
    lastN (cs.map g) len j = (lastN cs len j).map g := by
  unfold lastN; rw [List.map_take, List.map_drop]

theorem avgRef_strip (f : Candle F → Num F) (hf : ∀ c, f (strip c) = f c) (cs : List (Candle F)) (len j : Int) :
    avgRef f (cs.map strip) len j = avgRef f cs len j := by
  unfold avgRef
  rw [lastN_map', List.map_map]
  have : f ∘ strip = f := funext hf
  rw [this]

theorem dojiThr_strip (cs : List (Candle F)) (j : Int) : dojiThr (cs.map strip) j = dojiThr cs j := by
  unfold dojiThr; rw [avgRef_strip _ (fun _ => rfl)]
theorem bodyAvg_strip (cs : List (Candle F)) (j : Int) : bodyAvg (cs.map strip) j = bodyAvg cs j := by
  unfold bodyAvg; rw [avgRef_strip _ (fun _ => rfl)]
theorem nearThr_strip (cs : List (Candle F)) (j : Int) : nearThr (cs.map strip) j = nearThr cs j := by
  unfold nearThr; rw [avgRef_strip _ (fun _ => rfl)]

theorem dojiRef_strip (cs : List (Candle F)) (j : Int) (h1 : 1 ≤ j) (hj : j < cs.length) :
    dojiRef (cs.map strip) j = dojiRef cs j := by
  unfold dojiRef
  rw [candleAt_map_strip cs j (by omega) hj, dojiThr_strip]; rfl

theorem dojistarRef_strip (cs : List (Candle F)) (j : Int) (h1 : 1 ≤ j) (hj : j < cs.length) :
    dojistarRef (cs.map strip) j = dojistarRef cs j := by
  unfold dojistarRef
  simp only
  rw [candleAt_map_strip cs j (by omega) hj, candleAt_map_strip cs (j - 1) (by omega) (by omega),
    dojiThr_strip, bodyAvg_strip]; rfl

theorem hammerRef_strip (cs : List (Candle F)) (j : Int) (h1 : 1 ≤ j) (hj : j < cs.length) :
    hammerRef (cs.map strip) j = hammerRef cs j := by
  unfold hammerRef
  simp only
  rw [candleAt_map_strip cs j (by omega) hj, candleAt_map_strip cs (j - 1) (by omega) (by omega),
    dojiThr_strip, bodyAvg_strip, nearThr_strip]; rfl

theorem invHammerRef_strip (cs : List (Candle F)) (j : Int) (h1 : 1 ≤ j) (hj : j < cs.length) :
    invHammerRef (cs.map strip) j = invHammerRef cs j := by
  unfold invHammerRef
  simp only
  rw [candleAt_map_strip cs j (by omega) hj, candleAt_map_strip cs (j - 1) (by omega) (by omega),
    dojiThr_strip, bodyAvg_strip]; rfl

/-- a reference test that only sees the prices agrees on two lists with the same prices -/
theorem ref_samePrices (ref : List (Candle F) → Int → Bool)
    (hstrip : ∀ (cs : List (Candle F)) (j : Int), 1 ≤ j → j < cs.length → ref (cs.map strip) j = ref cs j)
    (cs cs' : List (Candle F)) (hs : cs.map strip = cs'.map strip) (j : Int) (h10 : 10 ≤ j) (hj : j < cs.length) :
    ref cs' j = ref cs j := by
  have hlen : cs.length = cs'.length := by
    have := congrArg List.length hs; simpa using this
  rw [← hstrip cs j (by omega) hj, ← hstrip cs' j (by omega) (by omega), hs]

theorem positive_samePrices (cs cs' : List (Candle F)) (hs : cs.map strip = cs'.map strip) (i : Int) :
    Mov.positive cs i = Mov.positive cs' i ∧ Mov.negative cs i = Mov.negative cs' i := by
  have hlen : cs.length = cs'.length := by
    have := congrArg List.length hs; simpa using this
  have hp : (pyIndex cs i).map strip = (pyIndex cs' i).map strip := by
    rw [← pyIndex_map, ← pyIndex_map, hs]
  unfold Mov.positive Mov.negative
  rw [hlen]
  cases h1 : pyIndex cs i with
  | error e =>
    cases h2 : pyIndex cs' i with
    | error e' => exact ⟨rfl, rfl⟩
    | ok c' => rw [h1, h2] at hp; cases hp
  | ok c =>
    cases h2 : pyIndex cs' i with
    | error e' => rw [h1, h2] at hp; cases hp
    | ok c' =>
      rw [h1, h2] at hp
      have hc : strip c = strip c' := by injection hp
      have ho : c.o = c'.o := by have := congrArg Candle.o hc; exact this
      have hcl : c.c = c'.c := by have := congrArg Candle.c hc; exact this
      constructor
      · split
        · rfl
        · show Val.bool (Num.lt c.o c.c) = Val.bool (Num.lt c'.o c'.c); rw [ho, hcl]
      · split
        · rfl
        · show Val.bool (Num.lt c.c c.o) = Val.bool (Num.lt c'.c c'.o); rw [ho, hcl]

/-! ### key locality of `runAnalysis` -/

/-- **A wrapped function sees the candles only through their prices and through the columns of
the readings it names.** -/
theorem runAnalysis_congr (a : Analysis) (cs cs' : List (Candle F)) (hs : cs.map strip = cs'.map strip)
    (hc : ∀ nm ∈ names a, col nm cs = col nm cs') (i : Int) (h0 : 0 ≤ i) (hi : i < cs.length) :
    runAnalysis a cs i = runAnalysis a cs' i := by
  have hlen : cs.length = cs'.length := by
    have := congrArg List.length hs; simpa using this
  have hi' : i < cs'.length := by omega
  have rd : ∀ nm ∈ names a, ∀ j, readingByIndex cs nm j = readingByIndex cs' nm j :=
    fun nm hnm j => readingByIndex_congr (hc nm hnm) j
  cases a with
  | positive => simp only [runAnalysis]; rw [(positive_samePrices cs cs' hs i).1]
  | negative => simp only [runAnalysis]; rw [(positive_samePrices cs cs' hs i).2]
  | above x y =>
    simp only [runAnalysis]
    rw [above_eq, above_eq, aboveRef_congr cs cs' x y (rd x (by simp [names])) (rd y (by simp [names]))]
  | below x y =>
    simp only [runAnalysis]
    rw [below_eq, below_eq, belowRef_congr cs cs' x y (rd x (by simp [names])) (rd y (by simp [names]))]
  | valueRange ind n =>
    simp only [runAnalysis]
    rw [valueRange_eq cs ind n i h0 hi, valueRange_eq cs' ind n i h0 hi',
      window_congr cs cs' ind (rd ind (by simp [names]))]
  | rising ind n =>
    simp only [runAnalysis, Mov.rising]
    rw [monotone_eq cs ind n i _ h0 hi, monotone_eq cs' ind n i _ h0 hi',
      monoRef_congr cs cs' ind (rd ind (by simp [names]))]
  | falling ind n =>
    simp only [runAnalysis, Mov.falling]
    rw [monotone_eq cs ind n i _ h0 hi, monotone_eq cs' ind n i _ h0 hi',
      monoRef_congr cs cs' ind (rd ind (by simp [names]))]
  | meanRising ind n =>
    simp only [runAnalysis, Mov.meanRising]
    rw [meanCmp_eq cs ind n i _ h0 hi, meanCmp_eq cs' ind n i _ h0 hi',
      meanRef_congr cs cs' ind (rd ind (by simp [names]))]
  | meanFalling ind n =>
    simp only [runAnalysis, Mov.meanFalling]
    rw [meanCmp_eq cs ind n i _ h0 hi, meanCmp_eq cs' ind n i _ h0 hi',
      meanRef_congr cs cs' ind (rd ind (by simp [names]))]
  | highest ind n =>
    simp only [runAnalysis, Mov.highest]
    by_cases hn : 1 ≤ n
    · rw [extreme_eq cs ind n i _ h0 hi hn, extreme_eq cs' ind n i _ h0 hi' hn,
        windowS_congr cs cs' ind (rd ind (by simp [names]))]
    · rw [extreme_short cs ind n i _ h0 hi (by omega), extreme_short cs' ind n i _ h0 hi' (by omega)]
  | lowest ind n =>
    simp only [runAnalysis, Mov.lowest]
    by_cases hn : 1 ≤ n
    · rw [extreme_eq cs ind n i _ h0 hi hn, extreme_eq cs' ind n i _ h0 hi' hn,
        windowS_congr cs cs' ind (rd ind (by simp [names]))]
    · rw [extreme_short cs ind n i _ h0 hi (by omega), extreme_short cs' ind n i _ h0 hi' (by omega)]
  | highestbar ind n =>
    simp only [runAnalysis, Mov.highestbar]
    rw [extremeBar_eq cs ind n i _ h0 hi, extremeBar_eq cs' ind n i _ h0 hi',
      barObs_congr cs cs' ind (rd ind (by simp [names]))]
  | lowestbar ind n =>
    simp only [runAnalysis, Mov.lowestbar]
    rw [extremeBar_eq cs ind n i _ h0 hi, extremeBar_eq cs' ind n i _ h0 hi',
      barObs_congr cs cs' ind (rd ind (by simp [names]))]
  | cross x y n =>
    simp only [runAnalysis]
    rw [cross_eq cs x y n i h0 hi, cross_eq cs' x y n i h0 hi']
    have : crossAt cs x y = crossAt cs' x y :=
      funext (crossAt_congr cs cs' x y (rd x (by simp [names])) (rd y (by simp [names])))
    rw [this]
  | crossover x y n =>
    simp only [runAnalysis]
    rw [crossover_eq cs x y n i h0 hi, crossover_eq cs' x y n i h0 hi']
    have e1 := funext (aboveRef_congr cs cs' x y (rd x (by simp [names])) (rd y (by simp [names])))
    have e2 := funext (belowRef_congr cs cs' x y (rd x (by simp [names])) (rd y (by simp [names])))
    simp only [e1, e2]
  | crossunder x y n =>
    simp only [runAnalysis]
    rw [crossunder_eq cs x y n i h0 hi, crossunder_eq cs' x y n i h0 hi']
    have e1 := funext (aboveRef_congr cs cs' x y (rd x (by simp [names])) (rd y (by simp [names])))
    have e2 := funext (belowRef_congr cs cs' x y (rd x (by simp [names])) (rd y (by simp [names])))
    simp only [e1, e2]
  | doji lb =>
    exact (pattern_invariant dojiAt_spec dojiAt_causal cs cs' hlen.symm
      (fun j h10 hj => ref_samePrices dojiRef dojiRef_strip cs cs' hs j h10 hj) lb (some i)).symm
  | dojistar lb =>
    exact (pattern_invariant dojistarAt_spec dojistarAt_causal cs cs' hlen.symm
      (fun j h10 hj => ref_samePrices dojistarRef dojistarRef_strip cs cs' hs j h10 hj) lb (some i)).symm
  | hammer lb =>
    exact (pattern_invariant hammerAt_spec hammerAt_causal cs cs' hlen.symm
      (fun j h10 hj => ref_samePrices hammerRef hammerRef_strip cs cs' hs j h10 hj) lb (some i)).symm
  | invHammer lb =>
    exact (pattern_invariant invHammerAt_spec invHammerAt_causal cs cs' hlen.symm
      (fun j h10 hj => ref_samePrices invHammerRef invHammerRef_strip cs cs' hs j h10 hj) lb (some i)).symm

theorem strip_setKey (isSub : Bool) (name : String) (v : Val F) (c : Candle F) :
    strip (setKey isSub name v c) = strip c := by
  unfold setKey; cases isSub <;> rfl

/-- **`Amorph` satisfies the leaf contract** for every wrapped function `a`, provided the readings
it names do not see the indicator's own entry (`Indep`: true of every candle field, and of every
other indicator's key). -/
def amorphContract (ind : Ind F) (a : Analysis) (hk : ind.kind = .amorph a)
    (hind : ∀ nm ∈ names a, Indep F ind.name nm) : Contract ind where
  Inv := fun _ => True
  inv_nil := trivial
  inv_step := fun _ _ _ _ _ _ => trivial
  local_ := by
    intro done c rest _
    rw [hk]
    show runAnalysis a (done ++ c :: rest) done.length = runAnalysis a (done ++ [c]) done.length
    have h := (runAnalysis_causal a).trunc (done ++ c :: rest) (done.length : Int) (by omega) (by simp)
    rw [upto_append_cons] at h
    exact h.symm
  key_indep := by
    intro done c v _ _
    rw [hk]
    show runAnalysis a (done ++ [setKey ind.isSub ind.name v c]) done.length
        = runAnalysis a (done ++ [c]) done.length
    apply runAnalysis_congr
    · simp only [List.map_append, List.map_cons, List.map_nil, strip_setKey]
    · intro nm hnm
      exact (sameCol_last nm done c _ ind.name (hind nm hnm _ _ _)).col
    · omega
    · simp

/-- `Amorph` as a top-level indicator is a leaf of the framework -/
theorem isLeaf_amorph (a : Analysis) (name : String) (round : Nat) :
    IsLeaf (mkTop (F := F) (.amorph a) name round) := ⟨rfl, rfl, rfl⟩

/-- **Live = batch for every wrapped function.**  Any construction prefix and any append schedule
of a raw stream end with the candles (prices and both reading dicts) of one batch `calculate()`
over the whole stream; both are the row-major run. -/
theorem amorph_schedule (a : Analysis) (name : String) (round : Nat)
    (hind : ∀ nm ∈ names a, Indep F name nm)
    (init : List (Candle F)) (chunks : List (List (Candle F)))
    (hp : ∀ c ∈ init ++ chunks.flatten, Plain c) :
    candlesOf (runIndicator (mkTop (.amorph a) name round) {} init chunks)
      = candlesOf (runIndicator (mkTop (.amorph a) name round) {} (init ++ chunks.flatten) []) := by
  have K := amorphContract (mkTop (F := F) (.amorph a) name round) a rfl hind
  rw [runIndicator_refines _ (isLeaf_amorph a name round) K init chunks hp,
    runIndicator_refines _ (isLeaf_amorph a name round) K (init ++ chunks.flatten) []
      (by rw [List.flatten_nil, List.append_nil]; exact hp)]
  simp

end Ana
end Hex

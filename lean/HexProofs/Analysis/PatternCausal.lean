import HexProofs.Analysis.MovementCausal
/-
C16 for the pattern functions (doji, dojistar, hammer, inverted hammer) and the TA-Lib helpers.
-/
set_option linter.unusedSectionVars false
namespace Hex
namespace Ana
variable {F : Type} [PyF F]

theorem avgOf_upto (f : Candle F → Num F) (cs : List (Candle F)) (length i j : Int)
    (h0 : 0 ≤ j) (hj : j ≤ i) : Pat.avgOf f (upto cs i) length j = Pat.avgOf f cs length j := by
  unfold Pat.avgOf
  simp only
  congr 1
  apply mapM_congr
  intro x hx
  have hm := (mem_pyRange _ _ _).1 hx
  have hx0 : 0 ≤ x := by
    have := hm.1
    split at this <;> omega
  rw [pyIndex_upto cs i x hx0 (by omega)]

theorem candleDoji_upto (cs : List (Candle F)) (i j : Int) (h0 : 0 ≤ j) (hj : j ≤ i) :
    Pat.candleDoji (upto cs i) j = Pat.candleDoji cs j := by
  unfold Pat.candleDoji Pat.highLowAvg; rw [avgOf_upto _ cs 10 i j h0 hj]

theorem candleBodyLong_upto (cs : List (Candle F)) (i j : Int) (h0 : 0 ≤ j) (hj : j ≤ i) :
    Pat.candleBodyLong (upto cs i) j = Pat.candleBodyLong cs j := by
  unfold Pat.candleBodyLong Pat.realbodyAvg; rw [avgOf_upto _ cs 10 i j h0 hj]

theorem candleNear_upto (cs : List (Candle F)) (i j : Int) (h0 : 0 ≤ j) (hj : j ≤ i) :
    Pat.candleNear (upto cs i) j = Pat.candleNear cs j := by
  unfold Pat.candleNear Pat.highLowAvg; rw [avgOf_upto _ cs 5 i j h0 hj]

theorem candleShadowLong_upto (cs : List (Candle F)) (i j : Int) (h0 : 0 ≤ j) (hj : j ≤ i) :
    Pat.candleShadowLong (upto cs i) j = Pat.candleShadowLong cs j := by
  unfold Pat.candleShadowLong; rw [pyIndex_upto cs i j h0 hj]

/-- a per-candle pattern test that only looks at candles `≤ j` (for `j ≥ 1`) -/
def OneCausal (one : List (Candle F) → Int → PyM Bool) : Prop :=
  ∀ cs i j, 1 ≤ j → j ≤ i → one (upto cs i) j = one cs j

theorem dojiAt_causal : OneCausal (F := F) Pat.dojiAt := by
  intro cs i j h1 hj
  unfold Pat.dojiAt
  rw [pyIndex_upto cs i j (by omega) hj, candleDoji_upto cs i j (by omega) hj]

theorem dojistarAt_causal : OneCausal (F := F) Pat.dojistarAt := by
  intro cs i j h1 hj
  unfold Pat.dojistarAt
  rw [pyIndex_upto cs i j (by omega) hj, pyIndex_upto cs i (j - 1) (by omega) (by omega),
    candleDoji_upto cs i j (by omega) hj, candleBodyLong_upto cs i (j - 1) (by omega) (by omega)]

theorem hammerAt_causal : OneCausal (F := F) Pat.hammerAt := by
  intro cs i j h1 hj
  unfold Pat.hammerAt Pat.candleBodyShort Pat.candleShadowVeryShort
  rw [pyIndex_upto cs i j (by omega) hj, pyIndex_upto cs i (j - 1) (by omega) (by omega),
    candleDoji_upto cs i j (by omega) hj, candleBodyLong_upto cs i j (by omega) hj,
    candleShadowLong_upto cs i j (by omega) hj, candleNear_upto cs i (j - 1) (by omega) (by omega)]

theorem invHammerAt_causal : OneCausal (F := F) Pat.invHammerAt := by
  intro cs i j h1 hj
  unfold Pat.invHammerAt Pat.candleBodyShort Pat.candleShadowVeryShort
  rw [pyIndex_upto cs i j (by omega) hj, pyIndex_upto cs i (j - 1) (by omega) (by omega),
    candleDoji_upto cs i j (by omega) hj, candleBodyLong_upto cs i j (by omega) hj,
    candleShadowLong_upto cs i j (by omega) hj]

/-- the guarded per-candle test of `pattern` -/
theorem at_upto {one : List (Candle F) → Int → PyM Bool} (h : OneCausal one)
    (cs : List (Candle F)) (i j : Int) (hj : j ≤ i) :
    (if j < 10 then (pure false : PyM Bool) else one (upto cs i) j)
      = (if j < 10 then pure false else one cs j) := by
  by_cases h10 : j < 10
  · simp [h10]
  · simp only [h10, if_false]; exact h cs i j (by omega) hj

theorem pattern_causal {one : List (Candle F) → Int → PyM Bool} (h : OneCausal one) (lb : Option Int) :
    Causal (fun (cs : List (Candle F)) i => Pat.pattern one cs lb (some i)) where
  neg := by
    intro cs i h0 hi
    simp only [Pat.pattern]
    rw [absIndex_neg i cs.length h0 hi, absIndex_self i cs.length h0 hi]
  trunc := by
    intro cs i h0 hi
    have hl := upto_length_int cs i h0 hi
    simp only [Pat.pattern]
    rw [absIndex_self i (upto cs i).length h0 (by omega), absIndex_self i cs.length h0 hi]
    cases lb with
    | none => simp only; rw [at_upto h cs i i (le_refl i)]
    | some lb =>
      simp only
      congr 1
      apply anyM_congr
      intro x hx
      have hm := (mem_pyRange _ _ _).1 hx
      exact at_upto h cs i x (by omega)

/-- the default index (`index=None`): the last candle of the list -/
theorem pattern_default (one : List (Candle F) → Int → PyM Bool) (lb : Option Int)
    (cs : List (Candle F)) (hne : 0 < cs.length) :
    Pat.pattern one cs lb none = Pat.pattern one cs lb (some (cs.length - 1)) := by
  simp only [Pat.pattern]
  rw [absIndex_self ((cs.length : Int) - 1) cs.length (by omega) (by omega)]

/-- the default index on the truncated list is the evaluated index -/
theorem pattern_latest_none {one : List (Candle F) → Int → PyM Bool} (h : OneCausal one) (lb : Option Int)
    (cs : List (Candle F)) (i : Int) (h0 : 0 ≤ i) (hi : i < cs.length) :
    Pat.pattern one (upto cs i) lb none = Pat.pattern one cs lb (some i) := by
  have hl := upto_length_int cs i h0 hi
  rw [pattern_default one lb (upto cs i) (by omega), hl]
  have e : i + 1 - 1 = i := by omega
  rw [e]
  exact (pattern_causal h lb).trunc cs i h0 hi

end Ana
end Hex

import HexProofs.Analysis.Total
/-
The reference window of C17: the numeric readings of a named series at a range of candle positions,
newest first, defined by position (`readingByIndex`) – independently of the slice / reverse / filter
pipeline of `_get_clean_readings`, to which it is proved equal.
-/
set_option linter.unusedSectionVars false
namespace Hex
namespace Ana
variable {F : Type} [PyF F]

theorem pySlice_length {α : Type} (l : List α) (s e : Int) (hs : 0 ≤ s) (he0 : 0 ≤ e) (he : e ≤ l.length) :
    (pySlice l s e).length = (e - s).toNat := by
  unfold pySlice
  have a : ¬ s < 0 := by omega
  simp only [a, if_false]
  by_cases hse : s ≥ e
  · have c1 : (if s > (l.length : Int) then (l.length : Int) else s) ≥ (if e < 0 then (if e + (l.length : Int) < 0 then 0 else e + l.length) else (if e > (l.length : Int) then (l.length : Int) else e)) := by
      split <;> split <;> (try split) <;> omega
    simp only [c1, if_true, List.length_nil]; omega
  · have b : ¬ e < 0 := by omega
    have c : ¬ e > (l.length : Int) := by omega
    have d : ¬ s > (l.length : Int) := by omega
    simp only [b, c, d, if_false, hse]
    rw [List.length_take, List.length_drop]; omega

theorem pySlice_getElem {α : Type} (l : List α) (s e : Int) (hs : 0 ≤ s) (he0 : 0 ≤ e) (he : e ≤ l.length)
    (k : Nat) (hk : k < (pySlice l s e).length) :
    (pySlice l s e)[k]? = l[s.toNat + k]? := by
  have hlen := pySlice_length l s e hs he0 he
  have hse : ¬ s ≥ e := by omega
  unfold pySlice
  have a : ¬ s < 0 := by omega
  have b : ¬ e < 0 := by omega
  have c : ¬ e > (l.length : Int) := by omega
  have d : ¬ s > (l.length : Int) := by omega
  simp only [a, b, c, d, if_false, hse]
  rw [List.getElem?_take_of_lt (by omega), List.getElem?_drop]


theorem readingByIndex_eq (cs : List (Candle F)) (ind : String) (j : Int) (h0 : 0 ≤ j) (hj : j < cs.length)
    (c : Candle F) (hc : cs[j.toNat]? = some c) : readingByIndex cs ind j = readingByCandle c ind := by
  unfold readingByIndex
  rw [validIndex_self j cs.length h0 hj, pyIndex_nonneg cs j h0, hc]
  rfl

theorem pyRange_length (a b : Int) : (pyRange a b).length = (b - a).toNat := by
  unfold pyRange; simp

theorem pyRange_getElem? (a b : Int) (k : Nat) (hk : k < (b - a).toNat) : (pyRange a b)[k]? = some (a + k) := by
  unfold pyRange
  rw [List.getElem?_map, List.getElem?_range hk]; rfl

/-- the slice of readings is the list of readings by position -/
theorem pySlice_map_reading (cs : List (Candle F)) (ind : String) (s e : Int) (hs : 0 ≤ s) (he0 : 0 ≤ e)
    (he : e ≤ cs.length) :
    (pySlice cs s e).map (fun c => readingByCandle c ind) = (pyRange s e).map (fun j => readingByIndex cs ind j) := by
  have hlen := pySlice_length cs s e hs he0 he
  apply List.ext_getElem?
  intro k
  by_cases hk : k < (pySlice cs s e).length
  · rw [List.getElem?_map, pySlice_getElem cs s e hs he0 he k hk, List.getElem?_map,
      pyRange_getElem? s e k (by omega)]
    have hlt : s.toNat + k < cs.length := by omega
    rw [List.getElem?_eq_getElem hlt]
    simp only [Option.map_some]
    congr 1
    symm
    apply readingByIndex_eq cs ind (s + k) (by omega) (by omega)
    have : (s + (k : Int)).toNat = s.toNat + k := by omega
    rw [this, List.getElem?_eq_getElem hlt]
  · rw [List.getElem?_eq_none (by simp; omega), List.getElem?_eq_none (by simp [pyRange_length]; omega)]

theorem filterMap_congr' {α β : Type} (l : List α) (f g : α → Option β) (h : ∀ x ∈ l, f x = g x) :
    l.filterMap f = l.filterMap g := by
  induction l with
  | nil => rfl
  | cons a r ih =>
    rw [List.filterMap_cons, List.filterMap_cons, h a (by simp), ih (fun x hx => h x (by simp [hx]))]

/-! ### the reference window -/

/-- clean scalar view of a reading: `isinstance(v, (float, int))`, type preserved -/
def scalarOf : Val F → Option (Scalar F)
  | .s (.num n) => some (.num n)
  | .s (.bool b) => some (.bool b)
  | _ => none

theorem numOf_eq_scalarOf (v : Val F) : numOf v = (scalarOf v).map Mov.scalarNum := by
  cases v with
  | s x => cases x <;> rfl
  | dict k => rfl

/-- candle positions `hi-1, hi-2, …, lo` (newest first) -/
def idxsDown (lo hi : Int) : List Int := (pyRange lo hi).reverse

theorem mem_idxsDown (lo hi j : Int) : j ∈ idxsDown lo hi ↔ lo ≤ j ∧ j < hi := by
  unfold idxsDown; rw [List.mem_reverse, mem_pyRange]

/-- the clean readings (numbers and bools, type preserved) of `ind` at positions `lo ≤ j < hi`, newest first -/
def windowS (cs : List (Candle F)) (ind : String) (lo hi : Int) : List (Scalar F) :=
  (idxsDown lo hi).filterMap fun j => scalarOf (readingByIndex cs ind j)

/-- their numeric values -/
def window (cs : List (Candle F)) (ind : String) (lo hi : Int) : List (Num F) :=
  (idxsDown lo hi).filterMap fun j => numOf (readingByIndex cs ind j)

theorem window_eq_map (cs : List (Candle F)) (ind : String) (lo hi : Int) :
    window cs ind lo hi = (windowS cs ind lo hi).map Mov.scalarNum := by
  unfold window windowS
  rw [List.map_filterMap]
  apply filterMap_congr'
  intro j _
  rw [numOf_eq_scalarOf]

/-- **Membership**: exactly the numeric readings at the positions of the range; missing / `None` /
dict readings contribute nothing. -/
theorem mem_window (cs : List (Candle F)) (ind : String) (lo hi : Int) (r : Num F) :
    r ∈ window cs ind lo hi ↔ ∃ j, lo ≤ j ∧ j < hi ∧ numOf (readingByIndex cs ind j) = some r := by
  unfold window
  rw [List.mem_filterMap]
  constructor
  · rintro ⟨j, hj, h⟩; exact ⟨j, ((mem_idxsDown lo hi j).1 hj).1, ((mem_idxsDown lo hi j).1 hj).2, h⟩
  · rintro ⟨j, h1, h2, h⟩; exact ⟨j, (mem_idxsDown lo hi j).2 ⟨h1, h2⟩, h⟩

theorem window_ne_nil (cs : List (Candle F)) (ind : String) (lo hi : Int) :
    window cs ind lo hi ≠ [] ↔ ∃ j, lo ≤ j ∧ j < hi ∧ (numOf (readingByIndex cs ind j)).isSome = true := by
  constructor
  · intro h
    obtain ⟨r, hr⟩ := List.exists_mem_of_ne_nil _ h
    obtain ⟨j, h1, h2, h3⟩ := (mem_window cs ind lo hi r).1 hr
    exact ⟨j, h1, h2, by rw [h3]; rfl⟩
  · rintro ⟨j, h1, h2, h3⟩ hnil
    obtain ⟨r, hr⟩ := Option.isSome_iff_exists.1 h3
    have := (mem_window cs ind lo hi r).2 ⟨j, h1, h2, hr⟩
    rw [hnil] at this; simp at this

theorem window_empty_range (cs : List (Candle F)) (ind : String) (lo hi : Int) (h : hi ≤ lo) :
    window cs ind lo hi = [] := by
  unfold window idxsDown; rw [pyRange_nil lo hi h]; rfl

/-- lower end of every movement window: `max(index - length, 0)` -/
def lo (i n : Int) : Int := if i - n < 0 then 0 else i - n

/-- **`_get_clean_readings` is the reference window** (type-preserving form). -/
theorem cleanScalars_eq (cs : List (Candle F)) (ind : String) (n i : Int) (incl : Bool)
    (h0 : 0 ≤ i) (hi : i < cs.length) :
    Mov.cleanScalars cs ind n i incl = windowS cs ind (lo i n) (if incl then i + 1 else i) := by
  unfold Mov.cleanScalars windowS idxsDown lo
  simp only
  rw [pySlice_map_reading cs ind _ _ (by split <;> omega) (by split <;> omega) (by split <;> omega),
    ← List.map_reverse, List.filterMap_map]
  apply filterMap_congr'
  intro j _
  simp only [Function.comp]
  generalize readingByIndex cs ind j = v
  cases v with
  | s x => cases x <;> rfl
  | dict k => rfl

/-- **`_get_clean_readings` is the reference window** (numeric form). -/
theorem cleanReadings_eq (cs : List (Candle F)) (ind : String) (n i : Int) (incl : Bool)
    (h0 : 0 ≤ i) (hi : i < cs.length) :
    Mov.cleanReadings cs ind n i incl = window cs ind (lo i n) (if incl then i + 1 else i) := by
  unfold Mov.cleanReadings
  rw [cleanScalars_eq cs ind n i incl h0 hi, window_eq_map]

end Ana
end Hex

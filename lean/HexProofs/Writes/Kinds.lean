import HexProofs.Writes.Strip
/-
Key locality, part 3: `_calculate_reading` of every kind (`calcKind`) changes the candles only
through the two framework services (`Ops.setManaged`, `Ops.calcManaged`) and – MACD only – one
temporary insert under the indicator's own name.
-/
namespace Hex
variable {F : Type}

/-- the services only write under listed names, in the strong (`StripEq`) sense – the induction
hypothesis of the engine theorem -/
structure OpsLocal (names : List String) (ops : Ops F) : Prop where
  hset : ∀ key v cs cs', ops.setManaged key v cs = .ok cs' → StripEq names cs cs'
  hcalc : ∀ key cs cs', ops.calcManaged key cs = .ok cs' → StripEq names cs cs'

/-- every successful result of `m` carries candles that equal `cs0` once the entries under `names`
are dropped -/
def Tracks (names : List String) (cs0 : List (Candle F)) (m : PyM (Val F × List (Candle F))) : Prop :=
  ∀ v cs', m = .ok (v, cs') → StripEq names cs0 cs'

namespace Tracks
variable {names : List String} {cs0 : List (Candle F)}

theorem pure' {v : Val F} {cs : List (Candle F)} (h : StripEq names cs0 cs) :
    Tracks names cs0 (pure (v, cs)) := by
  intro v' cs' e; cases e; exact h

theorem bind {α : Type} (m : PyM α) (f : α → PyM (Val F × List (Candle F)))
    (hf : ∀ a, Tracks names cs0 (f a)) : Tracks names cs0 (m >>= f) := by
  intro v cs' e
  cases m with
  | error err => cases e
  | ok a => exact hf a v cs' e

/-- a bind whose first part is itself a write that is known to stay within `names` -/
theorem bindW (m : PyM (List (Candle F))) (f : List (Candle F) → PyM (Val F × List (Candle F)))
    (hm : ∀ a, m = .ok a → StripEq names cs0 a)
    (hf : ∀ a, StripEq names cs0 a → Tracks names cs0 (f a)) : Tracks names cs0 (m >>= f) := by
  intro v cs' e
  cases m with
  | error err => cases e
  | ok a => exact hf a (hm a rfl) v cs' e

theorem ite {c : Prop} [Decidable c] {a b : PyM (Val F × List (Candle F))}
    (ha : Tracks names cs0 a) (hb : Tracks names cs0 b) : Tracks names cs0 (if c then a else b) := by
  split <;> assumption

theorem error {e : PyErr} : Tracks names cs0 (Except.error e : PyM (Val F × List (Candle F))) := by
  intro v cs' h; cases h

end Tracks

section
variable {names : List String} {ops : Ops F} (hops : OpsLocal names ops)
include hops

theorem OpsLocal.setW {cs0 cs : List (Candle F)} (h : StripEq names cs0 cs) (key : String) (v : Val F) :
    ∀ a, ops.setManaged key v cs = .ok a → StripEq names cs0 a :=
  fun a e => h.trans (hops.hset key v cs a e)

theorem OpsLocal.calcW {cs0 cs : List (Candle F)} (h : StripEq names cs0 cs) (key : String) :
    ∀ a, ops.calcManaged key cs = .ok a → StripEq names cs0 a :=
  fun a e => h.trans (hops.hcalc key cs a e)
end

/-- one step of the syntactic walk through a `_calculate_reading` body -/
macro "track_step" hops:ident : tactic => `(tactic| first
  | exact Tracks.error
  | (apply Tracks.pure'; assumption)
  | (refine Tracks.bindW _ _ (OpsLocal.setW $hops (by assumption) _ _) (fun _ _ => ?_))
  | (refine Tracks.bindW _ _ (OpsLocal.calcW $hops (by assumption) _) (fun _ _ => ?_))
  | (refine Tracks.bind _ _ (fun _ => ?_))
  | (refine Tracks.ite ?_ ?_)
  | (split))

macro "track" hops:ident : tactic => `(tactic| (
  have h0 := StripEq.refl _ _
  repeat (first | track_step $hops | (dsimp only; track_step $hops))))

variable [PyF F] {names : List String} {ops : Ops F}

omit [PyF F] in
theorem Writes.updateAt_setInds_W {cs0 cs : List (Candle F)} (h : StripEq names cs0 cs) (n : String)
    (hn : n ∈ names) (i : Int) (v : Val F) :
    ∀ a, updateAt cs i (fun c => { c with inds := dset n v c.inds }) = .ok a → StripEq names cs0 a :=
  fun a e => h.trans (updateAt_stripEq _ (fun c => strip_setInds_mem hn v c) cs a i e)

macro "track_all" hops:ident : tactic => `(tactic| (
  repeat (first | track_step $hops | (dsimp only; track_step $hops))))

theorem Calc.hma_tracks (hops : OpsLocal names ops) (x : Ctx F) :
    Tracks names x.cs (Calc.hma ops x) := by
  unfold Calc.hma
  have h0 := StripEq.refl names x.cs
  track_all hops

theorem Calc.stdev_tracks (hops : OpsLocal names ops) (x : Ctx F) (p : Int) (input : String) :
    Tracks names x.cs (Calc.stdev ops x p input) := by
  unfold Calc.stdev
  have h0 := StripEq.refl names x.cs
  track_all hops

theorem Calc.supertrend_tracks (hops : OpsLocal names ops) (x : Ctx F) (m : Num F) :
    Tracks names x.cs (Calc.supertrend ops x m) := by
  unfold Calc.supertrend
  have h0 := StripEq.refl names x.cs
  track_all hops

theorem Calc.rsi_tracks (hops : OpsLocal names ops) (x : Ctx F) (p : Int) (input : String) :
    Tracks names x.cs (Calc.rsi ops x p input) := by
  unfold Calc.rsi
  have h0 := StripEq.refl names x.cs
  track_all hops

theorem Calc.stoch_tracks (hops : OpsLocal names ops) (x : Ctx F) (p : Int) (input : String) :
    Tracks names x.cs (Calc.stoch ops x p input) := by
  unfold Calc.stoch
  have h0 := StripEq.refl names x.cs
  track_all hops

theorem Calc.vwap_tracks (hops : OpsLocal names ops) (x : Ctx F) :
    Tracks names x.cs (Calc.vwap ops x) := by
  unfold Calc.vwap
  have h0 := StripEq.refl names x.cs
  track_all hops

theorem Calc.tsi_tracks (hops : OpsLocal names ops) (x : Ctx F) (input : String) :
    Tracks names x.cs (Calc.tsi ops x input) := by
  unfold Calc.tsi
  have h0 := StripEq.refl names x.cs
  track_all hops

theorem Calc.adx_tracks (hops : OpsLocal names ops) (x : Ctx F) :
    Tracks names x.cs (Calc.adx ops x) := by
  unfold Calc.adx
  have h0 := StripEq.refl names x.cs
  track_all hops

/-- MACD additionally inserts a temporary reading under its OWN name -/
theorem Calc.macd_tracks (hops : OpsLocal names ops) (x : Ctx F) (hn : x.name ∈ names) :
    Tracks names x.cs (Calc.macd ops x) := by
  unfold Calc.macd
  have h0 := StripEq.refl names x.cs
  repeat (first
    | (refine Tracks.bindW (updateAt _ _ _) _ (Writes.updateAt_setInds_W (by assumption) _ hn _ _) (fun _ _ => ?_))
    | track_step hops | (dsimp only; track_step hops))

omit [PyF F] in
/-- a kind that only reads: the candles are returned as they were -/
theorem Writes.tracks_pure (x : Ctx F) (r : PyM (Val F)) :
    Tracks names x.cs (do let v ← r; return (v, x.cs)) := by
  intro v cs' e
  cases r with
  | error err => cases e
  | ok a => cases e; exact StripEq.refl _ _

/-- **`_calculate_reading` of every kind writes only through the services and under its own name.** -/
theorem calcKind_stripEq (hops : OpsLocal names ops) (ind : Ind F) (x : Ctx F) (hn : x.name ∈ names)
    (v : Val F) (cs' : List (Candle F)) (h : calcKind ops ind x = .ok (v, cs')) :
    StripEq names x.cs cs' := by
  revert v cs'
  show Tracks names x.cs (calcKind ops ind x)
  unfold calcKind
  dsimp only
  split
  all_goals first
    | exact Writes.tracks_pure x _
    | exact Calc.hma_tracks hops x
    | exact Calc.stdev_tracks hops x _ _
    | exact Calc.supertrend_tracks hops x _
    | exact Calc.rsi_tracks hops x _ _
    | exact Calc.macd_tracks hops x hn
    | exact Calc.stoch_tracks hops x _ _
    | exact Calc.tsi_tracks hops x _
    | exact Calc.adx_tracks hops x
    | exact Calc.vwap_tracks hops x
    | (intro v cs' e; cases e; exact StripEq.refl _ _)

end Hex

import HexProofs.Writes.MembersLib
import HexProofs.Manager2.HATf
import HexProofs.Manager2.HAFill
import HexProofs.Manager2.FillReadingsHA
/-
C11 (Heikin-Ashi conversion follows its recurrence under every append schedule) for the MEMBER MANAGERS OF A HEXITAL.

`Hexital.append` feeds every manager the caller's raw chunk (`Hexital.feedManagers`, the default manager last, so that
every other manager copies pristine input) and every member manager converts its own buckets.  By
`member_manager_bare` (Writes/MembersLib.lean) the manager a member is attached to is – readings aside – the bare
`CandleManager` with the member's effective configuration constructed from the same candles and fed the same chunks,
whatever maintenance operations (`calculate`, `calculate_index`, `purge`, `recalculate`, with or without a name,
`add_indicator` / `remove_indicator` of other members) happen in between.  Combined with the bare-manager theorems
(`HexProps/C11.lean`: `schedule`, `schedule_tf`, `schedule_tf_fill_readings`; their proofs are restated here over
`runSched` so that this file does not depend on `HexProps`):

for a Heikin-Ashi Hexital (`candlestick_type = "HA"`), ANY Hexital-level timeframe, every member `mem` and every program,

  * `member_ha`          – effective timeframe none:  manager candles = `haSpec (init ++ appended)`
  * `member_ha_tf`       – effective timeframe `tf`:   manager candles = `haSpec (resample tf (init ++ appended))`
  * `member_ha_tf_fill`  – … with `timeframe_fill`:    manager candles = `haSpec (fillSpec tf (init ++ appended))`

as far as OHLCV, timestamps, `clean_values` and the conversion tag go (`Candle.core`: everything but the two reading
dicts, which hold the members' readings; `haSpec` candles carry none).  The effective timeframe is the member's own
if it has one, else the Hexital's (`Member.effTf`).  Hypotheses on the raw stream exactly as for bare managers.
Not covered, as for bare managers: Heikin-Ashi + lifespan.
-/
namespace Hex
variable {F : Type} [PyF F] {N : List String}

/-! ### the bare-manager schedules over `runSched` (restated from `HexProps/C11.lean`) -/

/-- Heikin-Ashi only -/
def cfgHAmem : MgrCfg := { ha := true }

theorem haSpec_all_tagged (xs : List (Candle F)) : ∀ c ∈ haSpec xs, c.tag = true := by
  obtain ⟨ext, h1, _, h3⟩ := haFold_prefix xs ([] : List (Candle F))
  intro c hc
  unfold haSpec at hc; rw [h1] at hc
  exact h3 c (by simpa using hc)

theorem tasks_cfgHAmem (cs : List (Candle F)) :
    tasks cfgHAmem cs = if cs.isEmpty then .ok cs else convertCandles cs := by
  unfold tasks cfgHAmem collapseCandles trimCandles
  cases cs with
  | nil => simp [bind, Except.bind]
  | cons c r =>
    simp only [bind, Except.bind, List.isEmpty_cons, Bool.not_false, Bool.and_self, if_true, Bool.false_eq_true, if_false]
    cases convertCandles (c :: r) <;> rfl

/-- `C11.schedule` over `runSched`: no timeframe, any schedule of untagged candles -/
theorem runSched_ha (init : List (Candle F)) (chunks : List (List (Candle F)))
    (h : ∀ c ∈ init ++ chunks.flatten, c.tag = false) :
    runSched cfgHAmem init chunks = .ok { cfg := cfgHAmem, candles := haSpec (init ++ chunks.flatten) } := by
  have step : ∀ (s new : List (Candle F)), (∀ c ∈ new, c.tag = false) →
      tasks cfgHAmem (haSpec s ++ new) = .ok (haSpec (s ++ new)) := by
    intro s new hnew
    rw [tasks_cfgHAmem]
    by_cases he : (haSpec s ++ new).isEmpty = true
    · have h1 : haSpec s = [] ∧ new = [] := by simpa using he
      have hs : s = [] := by
        obtain ⟨ext, e1, e2, _⟩ := haFold_prefix s ([] : List (Candle F))
        unfold haSpec at h1; rw [e1] at h1
        have : ext = [] := by simpa using h1.1
        rw [this] at e2; simpa using e2.symm
      simp [h1.2, hs, haSpec, haFold]
    · simp only [he, Bool.false_eq_true, if_false]
      rw [convertCandles_resume (haSpec s) new (haSpec_all_tagged s) hnew]
      unfold haSpec; rw [haFold_append]
  unfold runSched Manager.init
  have h0 := step [] init (fun c hc => h c (by simp [hc]))
  simp only [haSpec, haFold, List.nil_append] at h0
  rw [h0]
  simp only [bind, Except.bind]
  suffices H : ∀ (chunks : List (List (Candle F))) (s : List (Candle F)), (∀ c ∈ chunks.flatten, c.tag = false) →
      chunks.foldlM (fun (m : Manager F) ch => m.append ch) { cfg := cfgHAmem, candles := haSpec s }
        = .ok { cfg := cfgHAmem, candles := haSpec (s ++ chunks.flatten) } from
    H chunks init (fun c hc => h c (by simp [hc]))
  intro chunks
  induction chunks with
  | nil => intro s _; simp [List.foldlM, pure, Except.pure]
  | cons ch rest ih =>
    intro s hs
    have hch : ∀ c ∈ ch, c.tag = false := fun c hc => hs c (by simp [hc])
    have hrest : ∀ c ∈ rest.flatten, c.tag = false := fun c hc => hs c (by simp at hc ⊢; exact Or.inr hc)
    simp only [List.foldlM_cons, bind, Except.bind]
    have happ : Manager.append ({ cfg := cfgHAmem, candles := haSpec s } : Manager F) ch
        = .ok { cfg := cfgHAmem, candles := haSpec (s ++ ch) } := by
      unfold Manager.append
      by_cases hc : ch = []
      · subst hc; simp
      · have : ch.isEmpty = false := by cases ch <;> simp at hc ⊢
        simp only [this, Bool.false_eq_true, if_false, step s ch hch, bind, Except.bind]
        rfl
    rw [happ]
    have := ih (s ++ ch) hrest
    simpa [List.append_assoc] using this

/-- `C11.schedule_tf` over `runSched`: collapsing timeframe -/
theorem runSched_tf_ha (tf : Int) (htf : 0 < tf) (init : List (Candle F)) (chunks : List (List (Candle F)))
    (hraw : RawHA (init ++ chunks.flatten)) :
    runSched (cfgTfHA tf) init chunks
      = .ok { cfg := cfgTfHA tf, candles := haSpec (resample tf (init ++ chunks.flatten)) } := by
  unfold runSched Manager.init
  have h0 := tasks_tf_ha_append tf htf [] init (by simpa using hraw.append_left)
  simp only [resample, resampleR, List.foldl_nil, List.reverse_nil, haSpec_nil, List.nil_append] at h0
  rw [h0]
  simp only [bind, Except.bind]
  suffices H : ∀ (chunks : List (List (Candle F))) (s : List (Candle F)), RawHA (s ++ chunks.flatten) →
      chunks.foldlM (fun (m : Manager F) ch => m.append ch)
          { cfg := cfgTfHA tf, candles := haSpec (resample tf s) }
        = .ok { cfg := cfgTfHA tf, candles := haSpec (resample tf (s ++ chunks.flatten)) } from
    H chunks init hraw
  intro chunks
  induction chunks with
  | nil => intro s _; simp [List.foldlM, pure, Except.pure]
  | cons ch rest ih =>
    intro s hs
    have hs' : RawHA ((s ++ ch) ++ rest.flatten) := by simpa [List.append_assoc] using hs
    simp only [List.foldlM_cons, bind, Except.bind]
    have happ : Manager.append ({ cfg := cfgTfHA tf, candles := haSpec (resample tf s) } : Manager F) ch
        = .ok { cfg := cfgTfHA tf, candles := haSpec (resample tf (s ++ ch)) } := by
      unfold Manager.append
      by_cases hc : ch = []
      · subst hc; simp
      · have : ch.isEmpty = false := by cases ch <;> simp at hc ⊢
        simp only [this, Bool.false_eq_true, if_false, tasks_tf_ha_append tf htf s ch hs'.append_left,
          bind, Except.bind]
        rfl
    rw [happ]
    have := ih (s ++ ch) hs'
    simpa [List.append_assoc] using this

/-! ### the members -/

/-- **C11 for a member without effective timeframe** (no timeframe of its own on a Heikin-Ashi Hexital without
timeframe): after construction from `init` and ANY program, the member's manager holds the Heikin-Ashi left fold over
the raw stream received. -/
theorem member_ha {members : List (Member F)} {mem : Member F} (hm : MemberHyps N members mem)
    (htfx : Option Int) (tfn : Option String) (heff : mem.effTf htfx = none)
    (init : List (Candle F)) (ops : List (TwinOp F)) (H : Hexital F)
    (hops : ∀ op, op ∈ ops → op.OK N mem.tree.name)
    (hraw : ∀ c ∈ init ++ (appendedBy ops).flatten, c.tag = false)
    (hrun : runHexital { tf := htfx, ha := true } tfn init members ops = .ok H) :
    ∃ m, H.memberManager mem.tree.name = some m ∧ m.cfg = { ha := true } ∧
      m.candles.map Candle.core = (haSpec (init ++ (appendedBy ops).flatten)).map Candle.core :=
  member_manager_of_bare hm _ tfn init ops H hops hrun cfgHAmem
    (by rw [Member.effCfg_eq]; simp only [heff]; rfl) _ (runSched_ha init _ hraw)

/-- **C11 for a member on a collapsing timeframe** (its own, or the Hexital's if it has none – ANY Hexital-level
timeframe): the member's manager holds the Heikin-Ashi left fold over the COLLAPSED RAW buckets of the stream
received (`resample tf`, C03) – each member manager converts its own buckets, none sees another manager's
converted candles. -/
theorem member_ha_tf {members : List (Member F)} {mem : Member F} (hm : MemberHyps N members mem)
    (htfx : Option Int) (tfn : Option String) (tf : Int) (htf : 0 < tf) (heff : mem.effTf htfx = some tf)
    (init : List (Candle F)) (ops : List (TwinOp F)) (H : Hexital F)
    (hops : ∀ op, op ∈ ops → op.OK N mem.tree.name)
    (hraw : RawHA (init ++ (appendedBy ops).flatten))
    (hrun : runHexital { tf := htfx, ha := true } tfn init members ops = .ok H) :
    ∃ m, H.memberManager mem.tree.name = some m ∧ m.cfg = { tf := some tf, ha := true } ∧
      m.candles.map Candle.core = (haSpec (resample tf (init ++ (appendedBy ops).flatten))).map Candle.core :=
  member_manager_of_bare hm _ tfn init ops H hops hrun (cfgTfHA tf)
    (by rw [Member.effCfg_eq]; simp only [heff]; rfl) _ (runSched_tf_ha tf htf init _ hraw)

/-- **… with `timeframe_fill = True`**: the Heikin-Ashi left fold over the gap-filled collapsed raw buckets
(`fillSpec tf`, C12); the raw candles may carry any readings. -/
theorem member_ha_tf_fill {members : List (Member F)} {mem : Member F} (hm : MemberHyps N members mem)
    (htfx : Option Int) (tfn : Option String) (tf : Int) (htf : 0 < tf) (heff : mem.effTf htfx = some tf)
    (init : List (Candle F)) (ops : List (TwinOp F)) (H : Hexital F)
    (hops : ∀ op, op ∈ ops → op.OK N mem.tree.name)
    (hraw : RawR (init ++ (appendedBy ops).flatten))
    (htag : ∀ c ∈ init ++ (appendedBy ops).flatten, c.tag = false)
    (hrun : runHexital { tf := htfx, fill := true, ha := true } tfn init members ops = .ok H) :
    ∃ m, H.memberManager mem.tree.name = some m ∧ m.cfg = { tf := some tf, fill := true, ha := true } ∧
      m.candles.map Candle.core = (haSpec (fillSpec tf (init ++ (appendedBy ops).flatten))).map Candle.core :=
  member_manager_of_bare hm _ tfn init ops H hops hrun (cfgFillHA tf)
    (by rw [Member.effCfg_eq]; simp only [heff]; rfl) _ (fill_ha_schedule_readings tf htf init _ hraw htag).1

/-- the schedule forms (construct, `calculate()`, append chunk by chunk) -/
theorem member_ha_tf_sched {members : List (Member F)} {mem : Member F} (hm : MemberHyps N members mem)
    (htfx : Option Int) (tfn : Option String) (tf : Int) (htf : 0 < tf) (heff : mem.effTf htfx = some tf)
    (init : List (Candle F)) (chunks : List (List (Candle F))) (H : Hexital F)
    (hraw : RawHA (init ++ chunks.flatten))
    (hrun : runHexSched { tf := htfx, ha := true } tfn init members chunks = .ok H) :
    ∃ m, H.memberManager mem.tree.name = some m ∧ m.cfg = { tf := some tf, ha := true } ∧
      m.candles.map Candle.core = (haSpec (resample tf (init ++ chunks.flatten))).map Candle.core := by
  have h := member_ha_tf hm htfx tfn tf htf heff init (schedOps chunks) H (schedOps_ok chunks _)
    (by rw [appendedBy_schedOps]; exact hraw) (by rw [runHexital_schedOps]; exact hrun)
  rw [appendedBy_schedOps] at h
  exact h

/-! ### non-vacuity (toy carrier `Int`): the Hexital of `TwinTfEx` – `RSI_2_T2`, `SMA_2_T2` on `T2`, `EMA_2_T3` on `T3`,
`SMA_2` on the default manager – as a Heikin-Ashi Hexital under the program of `TwinTfEx.ops` -/

namespace MembersC11Ex
open TwinTfEx

def cfgH : MgrCfg := { ha := true }
def raw : List (Candle Int) := stream ++ (appendedBy ops).flatten
def others2 : List String := bT.tree.allNames ++ aT.tree.allNames ++ cT.tree.allNames

theorem hyps :
    (members.map (·.tree.name)).Nodup ∧
    ((C13.othersNames aT.tree.name members).all others.contains = true ∧ treeOKb others aT.tree = true ∧
      members.all (fun m => m.tfName != aT.tfName || m.tfSecs == aT.tfSecs) = true ∧
      ops.all (TwinOp.okb others "SMA_2_T2") = true) ∧
    ((C13.othersNames cT.tree.name members).all others3.contains = true ∧ treeOKb others3 cT.tree = true ∧
      members.all (fun m => m.tfName != cT.tfName || m.tfSecs == cT.tfSecs) = true ∧
      ops.all (TwinOp.okb others3 "EMA_2_T3") = true) ∧
    ((C13.othersNames a.tree.name members).all others2.contains = true ∧ treeOKb others2 a.tree = true ∧
      members.all (fun m => m.tfName != a.tfName || m.tfSecs == a.tfSecs) = true ∧
      ops.all (TwinOp.okb others2 "SMA_2") = true) ∧
    isOk (runHexital cfgH none stream members ops) = true := by decide +kernel

theorem raw_ok : RawHA raw :=
  ⟨by decide, fun c hc => ⟨(by decide : ∀ c ∈ raw, c.tag = false) c hc, (by decide : ∀ c ∈ raw, c.clean = none) c hc⟩,
   by decide⟩

/-- all three managers at once: `T2` (member `SMA_2_T2`), `T3` (`EMA_2_T3`), default (`SMA_2`) -/
theorem applied : ∃ H m2 m3 m0, runHexital cfgH none stream members ops = .ok H ∧
    H.memberManager "SMA_2_T2" = some m2 ∧ H.memberManager "EMA_2_T3" = some m3 ∧ H.memberManager "SMA_2" = some m0 ∧
    m2.candles.map Candle.core = (haSpec (resample 120 raw)).map Candle.core ∧
    m3.candles.map Candle.core = (haSpec (resample 180 raw)).map Candle.core ∧
    m0.candles.map Candle.core = (haSpec raw).map Candle.core := by
  obtain ⟨hnd, ⟨a1, a2, a3, a4⟩, ⟨b1, b2, b3, b4⟩, ⟨c1, c2, c3, c4⟩, hok⟩ := hyps
  obtain ⟨H, hH⟩ := isOk_ok hok
  obtain ⟨m2, e2, _, f2⟩ := member_ha_tf
    (MemberHyps.of_b members aT others hnd a1 a2 a3 (by decide) (by simp [members]))
    none none 120 (by decide) rfl stream ops H (TwinOp.ok_of_okb ops a4) raw_ok hH
  obtain ⟨m3, e3, _, f3⟩ := member_ha_tf
    (MemberHyps.of_b members cT others3 hnd b1 b2 b3 (by decide) (by simp [members]))
    none none 180 (by decide) rfl stream ops H (TwinOp.ok_of_okb ops b4) raw_ok hH
  obtain ⟨m0, e0, _, f0⟩ := member_ha
    (MemberHyps.of_b members a others2 hnd c1 c2 c3 (by decide) (by simp [members]))
    none none rfl stream ops H (TwinOp.ok_of_okb ops c4) (fun c hc => (raw_ok.untouched c hc).1) hH
  exact ⟨H, m2, m3, m0, hH, e2, e3, e0, f2, f3, f0⟩

/-- 14 raw candles (stamps 0 … 780): 14 converted candles on the default manager, 8 converted `T2` buckets (the first holds the candle stamped 0 alone), 6 `T3` -/
example : (raw.length, (haSpec raw).length, (haSpec (resample 120 raw)).length, (haSpec (resample 180 raw)).length)
    = (14, 14, 8, 6) := by decide +kernel

/-- with a Hexital-level timeframe `T1` + fill: the member `SMA_2` without timeframe runs on the Hexital's 60 s buckets,
`SMA_2_T2` on 120 s buckets, both gap-filled and converted; the raw stream has a gap (no candle between 780 and 1020) -/
def cfgF : MgrCfg := { tf := some 60, fill := true, ha := true }
def opsF : List (TwinOp Int) := ops ++ [.append [candle 17, candle 18], .purge none, .append [candle 19]]
def rawF : List (Candle Int) := stream ++ (appendedBy opsF).flatten

theorem hypsF :
    (members.map (·.tree.name)).Nodup ∧
    ((C13.othersNames aT.tree.name members).all others.contains = true ∧ treeOKb others aT.tree = true ∧
      members.all (fun m => m.tfName != aT.tfName || m.tfSecs == aT.tfSecs) = true ∧
      opsF.all (TwinOp.okb others "SMA_2_T2") = true) ∧
    ((C13.othersNames a.tree.name members).all others2.contains = true ∧ treeOKb others2 a.tree = true ∧
      members.all (fun m => m.tfName != a.tfName || m.tfSecs == a.tfSecs) = true ∧
      opsF.all (TwinOp.okb others2 "SMA_2") = true) ∧
    isOk (runHexital cfgF (some "T1") stream members opsF) = true := by decide +kernel

theorem rawF_ok : RawR rawF ∧ ∀ c ∈ rawF, c.tag = false := ⟨⟨by decide, by decide, by decide⟩, by decide⟩

theorem appliedF : ∃ H m2 m0, runHexital cfgF (some "T1") stream members opsF = .ok H ∧
    H.memberManager "SMA_2_T2" = some m2 ∧ H.memberManager "SMA_2" = some m0 ∧
    m2.candles.map Candle.core = (haSpec (fillSpec 120 rawF)).map Candle.core ∧
    m0.candles.map Candle.core = (haSpec (fillSpec 60 rawF)).map Candle.core := by
  obtain ⟨hnd, ⟨a1, a2, a3, a4⟩, ⟨c1, c2, c3, c4⟩, hok⟩ := hypsF
  obtain ⟨H, hH⟩ := isOk_ok hok
  obtain ⟨m2, e2, _, f2⟩ := member_ha_tf_fill
    (MemberHyps.of_b members aT others hnd a1 a2 a3 (by decide) (by simp [members]))
    (some 60) (some "T1") 120 (by decide) rfl stream opsF H (TwinOp.ok_of_okb opsF a4) rawF_ok.1 rawF_ok.2 hH
  obtain ⟨m0, e0, _, f0⟩ := member_ha_tf_fill
    (MemberHyps.of_b members a others2 hnd c1 c2 c3 (by decide) (by simp [members]))
    (some 60) (some "T1") 60 (by decide) rfl stream opsF H (TwinOp.ok_of_okb opsF c4) rawF_ok.1 rawF_ok.2 hH
  exact ⟨H, m2, m0, hH, e2, e0, f2, f0⟩

/-- 17 raw candles; the 60 s list has 20 buckets (3 fill candles), the 120 s list 11 (1 fill candle) -/
example : (rawF.length, (resample 60 rawF).length, (fillSpec 60 rawF).length, (resample 120 rawF).length,
    (fillSpec 120 rawF).length) = (17, 17, 20, 10, 11) := by decide +kernel

end MembersC11Ex

end Hex

#print axioms Hex.runSched_ha
#print axioms Hex.runSched_tf_ha
#print axioms Hex.member_ha
#print axioms Hex.member_ha_tf
#print axioms Hex.member_ha_tf_fill
#print axioms Hex.member_ha_tf_sched
#print axioms Hex.MembersC11Ex.applied
#print axioms Hex.MembersC11Ex.appliedF

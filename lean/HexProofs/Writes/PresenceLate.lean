import HexProofs.Writes.Twin
import HexProofs.Writes.PropsLib
import HexProofs.Framework.Gen.Maintain
import HexProofs.Framework.Gen.AllX
import HexProofs.Lib.IntInst
/-
C13, presence of other members – the case `presence_FULL` leaves open: the member `a` itself may be
added LATER by `add_indicator`, at different points of the two programs.

A member added later is calculated in ONE batch over candles that arrived one by one before (and that
carry the other members' readings).  So the argument is:
  * read-set locality (`IndState.calculate_sim`, `Manager.append_sim`): whatever is done to the default
    manager, its candles stay equal – once the other members' entries (`N`) are dropped – to a list `cs`
    that carries `a`'s entries only;
  * schedule independence (C01, `TreeSpec.engine`): that list `cs` is always RESUMABLE
    (`Gen.ResumableAt`): a finished row-major prefix of the manager spec of the stream fed so far,
    followed by raw candles – whether or not `a` is registered yet, calculated yet, or purged;
  * after the closing `calculate()` it is THE row-major run over the whole stream: a function of the
    stream alone.
Here for a member without own timeframe (it lives on the Hexital's default manager); the Hexital may
have its own timeframe / gap filling (any `MgrSpec`).
-/
namespace Hex
variable {F : Type} [PyF F] {N : List String}

/-! ### the invariant -/

/-- `nm` (tree `ind`, default manager) may or may not be registered; every other member writes under
`N` only; the default manager's candles are – up to entries under `N` – a list `cs` with `P cs` -/
structure LateInv (N : List String) (nm : String) (ind : Ind F) (cfg : MgrCfg)
    (P : List (Candle F) → Prop) (H : Hexital F) : Prop where
  keysNodup : (H.indicators.map (·.1)).Nodup
  mgrNodup : (H.managers.map (·.1)).Nodup
  others : ∀ n hi, n ≠ nm → dlookup n H.indicators = some hi → ∀ k, k ∈ hi.tree.allNames → k ∈ N
  dflt : ∃ dm cs, dlookup defaultKey H.managers = some dm ∧ dm.cfg = cfg ∧ StripEq N cs dm.candles ∧ P cs
  self : ∀ hi, dlookup nm H.indicators = some hi → hi.tree = ind ∧ hi.mgrKey = defaultKey

omit [PyF F] in
theorem LateInv.mono {nm : String} {ind : Ind F} {cfg : MgrCfg} {P P' : List (Candle F) → Prop} {H : Hexital F}
    (hPP : ∀ cs, P cs → P' cs) (inv : LateInv N nm ind cfg P H) : LateInv N nm ind cfg P' H := by
  obtain ⟨dm, cs, h1, h2, h3, h4⟩ := inv.dflt
  exact ⟨inv.keysNodup, inv.mgrNodup, inv.others, ⟨dm, cs, h1, h2, h3, hPP cs h4⟩, inv.self⟩

omit [PyF F] in
/-- a step that stays within its tree's names, run on ANOTHER member -/
theorem LateInv.withInd_other {nm : String} {ind : Ind F} {cfg : MgrCfg} {P : List (Candle F) → Prop}
    {H H' : Hexital F} (inv : LateInv N nm ind cfg P H)
    (n : String) (hn : n ≠ nm) (f : IndState F → PyM (IndState F))
    (hf : ∀ t t', f t = .ok t' → IndState.Local t t')
    (hw : H.withInd n f = .ok H') : LateInv N nm ind cfg P H' := by
  unfold Hexital.withInd at hw
  cases hl : dlookup n H.indicators with
  | none => rw [hl] at hw; cases hw
  | some hi' =>
    rw [hl] at hw
    dsimp only at hw
    obtain ⟨m', hm', hw⟩ := Writes.bind_ok hw
    obtain ⟨t', ht', hw⟩ := Writes.bind_ok hw
    cases hw
    have hm'' := Hexital.manager_eq_ok hm'
    have hloc := hf _ t' ht'
    have hne : ¬ n = nm := hn
    refine ⟨?_, ?_, ?_, ?_, ?_⟩
    · show ((dset n _ H.indicators).map (·.1)).Nodup
      rw [Writes.keys_dset_of_lookup _ hl]; exact inv.keysNodup
    · show ((dset hi'.mgrKey _ H.managers).map (·.1)).Nodup
      rw [Writes.keys_dset_of_lookup _ hm'']; exact inv.mgrNodup
    · intro n2 hi2 hn2 hl2
      change dlookup n2 (dset n _ H.indicators) = some hi2 at hl2
      rw [dlookup_dset] at hl2
      by_cases e : n = n2
      · subst e; simp only [if_true] at hl2; cases hl2
        exact inv.others n hi' hn hl
      · simp only [e, if_false] at hl2
        exact inv.others n2 hi2 hn2 hl2
    · obtain ⟨dm, cs, h1, h2, h3, h4⟩ := inv.dflt
      by_cases hk : hi'.mgrKey = defaultKey
      · have hmm : m' = dm := by rw [hk, h1] at hm''; cases hm''; rfl
        subst hmm
        refine ⟨t'.mgr, cs, ?_, hloc.cfg.trans h2, ?_, h4⟩
        · change dlookup defaultKey (dset hi'.mgrKey t'.mgr H.managers) = some t'.mgr
          rw [hk]; exact dlookup_dset_self _ _ _
        · exact h3.trans ((hloc.stripEq).mono (inv.others n hi' hn hl))
      · refine ⟨dm, cs, ?_, h2, h3, h4⟩
        change dlookup defaultKey (dset hi'.mgrKey t'.mgr H.managers) = some dm
        rw [dlookup_dset]; simp only [hk, if_false]; exact h1
    · intro hi hlk
      change dlookup nm (dset n _ H.indicators) = some hi at hlk
      rw [dlookup_dset] at hlk
      simp only [hne, if_false] at hlk
      exact inv.self hi hlk

/-- what a step does to the list `cs` when it is run on the member itself -/
def SelfStep (N : List String) (ind : Ind F) (cfg : MgrCfg) (P P' : List (Candle F) → Prop)
    (f : IndState F → PyM (IndState F)) : Prop :=
  ∀ (t t' : IndState F) (cs : List (Candle F)), t.tree = ind → t.mgr.cfg = cfg → StripEq N cs t.mgr.candles →
    P cs → f t = .ok t' → ∃ cs', StripEq N cs' t'.mgr.candles ∧ P' cs'

omit [PyF F] in
/-- … run on the member itself -/
theorem LateInv.withInd_self {nm : String} {ind : Ind F} {cfg : MgrCfg} {P P' : List (Candle F) → Prop}
    {H H' : Hexital F} (inv : LateInv N nm ind cfg P H) (f : IndState F → PyM (IndState F))
    (hf : ∀ t t', f t = .ok t' → IndState.Local t t') (hs : SelfStep N ind cfg P P' f)
    (hw : H.withInd nm f = .ok H') : LateInv N nm ind cfg P' H' := by
  unfold Hexital.withInd at hw
  cases hl : dlookup nm H.indicators with
  | none => rw [hl] at hw; cases hw
  | some hi' =>
    rw [hl] at hw
    dsimp only at hw
    obtain ⟨m', hm', hw⟩ := Writes.bind_ok hw
    obtain ⟨t', ht', hw⟩ := Writes.bind_ok hw
    cases hw
    have hm'' := Hexital.manager_eq_ok hm'
    have hloc := hf _ t' ht'
    obtain ⟨htree, hkey⟩ := inv.self hi' hl
    obtain ⟨dm, cs, h1, h2, h3, h4⟩ := inv.dflt
    have hmm : m' = dm := by rw [hkey, h1] at hm''; cases hm''; rfl
    subst hmm
    obtain ⟨cs', hs1, hs2⟩ := hs _ t' cs htree h2 h3 h4 ht'
    refine ⟨?_, ?_, ?_, ?_, ?_⟩
    · show ((dset nm _ H.indicators).map (·.1)).Nodup
      rw [Writes.keys_dset_of_lookup _ hl]; exact inv.keysNodup
    · show ((dset hi'.mgrKey _ H.managers).map (·.1)).Nodup
      rw [Writes.keys_dset_of_lookup _ hm'']; exact inv.mgrNodup
    · intro n2 hi2 hn2 hl2
      change dlookup n2 (dset nm _ H.indicators) = some hi2 at hl2
      rw [dlookup_dset] at hl2
      have : ¬ nm = n2 := fun e => hn2 e.symm
      simp only [this, if_false] at hl2
      exact inv.others n2 hi2 hn2 hl2
    · refine ⟨t'.mgr, cs', ?_, hloc.cfg.trans h2, hs1, hs2⟩
      change dlookup defaultKey (dset hi'.mgrKey t'.mgr H.managers) = some t'.mgr
      rw [hkey]; exact dlookup_dset_self _ _ _
    · intro hi hlk
      change dlookup nm (dset nm _ H.indicators) = some hi at hlk
      rw [dlookup_dset_self] at hlk
      cases hlk
      exact ⟨htree, hkey⟩

omit [PyF F] in
/-- a fold of `withInd` over names other than `nm` -/
theorem LateInv.fold_others {nm : String} {ind : Ind F} {cfg : MgrCfg} {P : List (Candle F) → Prop}
    (sel : String → Bool) {f : IndState F → PyM (IndState F)}
    (hf : ∀ t t', f t = .ok t' → IndState.Local t t') :
    ∀ (l : List String) (H H' : Hexital F), nm ∉ l → LateInv N nm ind cfg P H →
      l.foldlM (fun (h : Hexital F) n => if sel n then h.withInd n f else pure h) H = .ok H' →
      LateInv N nm ind cfg P H' := by
  intro l
  induction l with
  | nil =>
    intro H H' _ inv e
    simp [List.foldlM, pure, Except.pure] at e; subst e; exact inv
  | cons n r ih =>
    intro H H' hnm inv e
    rw [List.foldlM_cons] at e
    obtain ⟨H1, e1, e2⟩ := Writes.bind_ok e
    have hn : n ≠ nm := fun h => hnm (by simp [h])
    have hr : nm ∉ r := fun h => hnm (List.mem_cons_of_mem _ h)
    by_cases hs : sel n = true
    · simp only [hs, if_true] at e1
      exact ih H1 H' hr (inv.withInd_other n hn f hf e1) e2
    · simp only [hs, Bool.false_eq_true, if_false] at e1
      cases e1
      exact ih H H' hr inv e2

omit [PyF F] in
/-- `forEach sel f` over a duplicate-free list of names -/
theorem LateInv.forEach_fold {nm : String} {ind : Ind F} {cfg : MgrCfg} {P P' : List (Candle F) → Prop}
    (sel : String → Bool) {f : IndState F → PyM (IndState F)}
    (hf : ∀ t t', f t = .ok t' → IndState.Local t t') (hs : sel nm = true → SelfStep N ind cfg P P' f) :
    ∀ (l : List String) (H H' : Hexital F), l.Nodup → LateInv N nm ind cfg P H →
      l.foldlM (fun (h : Hexital F) n => if sel n then h.withInd n f else pure h) H = .ok H' →
      (nm ∈ l ∧ sel nm = true → LateInv N nm ind cfg P' H') ∧
      (¬ (nm ∈ l ∧ sel nm = true) → LateInv N nm ind cfg P H') := by
  intro l
  induction l with
  | nil =>
    intro H H' _ inv e
    simp [List.foldlM, pure, Except.pure] at e; subst e
    exact ⟨fun h => absurd h.1 (by simp), fun _ => inv⟩
  | cons n r ih =>
    intro H H' hnd inv e
    have hnd' := List.nodup_cons.1 hnd
    by_cases hn : n = nm
    · subst hn
      by_cases hsel : sel n = true
      · rw [List.foldlM_cons] at e
        obtain ⟨H1, e1, e2⟩ := Writes.bind_ok e
        simp only [hsel, if_true] at e1
        have inv1 := inv.withInd_self f hf (hs hsel) e1
        have inv2 := LateInv.fold_others sel hf r H1 H' hnd'.1 inv1 e2
        exact ⟨fun _ => inv2, fun h => absurd ⟨List.mem_cons_self, hsel⟩ h⟩
      · have := LateInv.fold_others sel hf r H H' hnd'.1 inv (by
          rw [List.foldlM_cons] at e
          obtain ⟨H1, e1, e2⟩ := Writes.bind_ok e
          simp only [hsel, Bool.false_eq_true, if_false] at e1
          cases e1; exact e2)
        exact ⟨fun h => absurd h.2 hsel, fun _ => this⟩
    · rw [List.foldlM_cons] at e
      obtain ⟨H1, e1, e2⟩ := Writes.bind_ok e
      have inv1 : LateInv N nm ind cfg P H1 := by
        by_cases hsel : sel n = true
        · simp only [hsel, if_true] at e1
          exact inv.withInd_other n hn f hf e1
        · simp only [hsel, Bool.false_eq_true, if_false] at e1
          cases e1; exact inv
      obtain ⟨p1, p2⟩ := ih H1 H' hnd'.2 inv1 e2
      refine ⟨fun h => p1 ⟨?_, h.2⟩, fun h => p2 (fun hm => h ⟨List.mem_cons_of_mem _ hm.1, hm.2⟩)⟩
      rcases List.mem_cons.1 h.1 with e | e
      · exact absurd e.symm hn
      · exact e

omit [PyF F] in
/-- a façade operation built from `forEach`: the step meets the member iff it is registered and selected -/
theorem LateInv.forEach {nm : String} {ind : Ind F} {cfg : MgrCfg} {P P' : List (Candle F) → Prop}
    {H H' : Hexital F} (inv : LateInv N nm ind cfg P H) (sel : String → Bool)
    {f : IndState F → PyM (IndState F)}
    (hf : ∀ t t', f t = .ok t' → IndState.Local t t') (hs : sel nm = true → SelfStep N ind cfg P P' f)
    (hop : H.forEach sel f = .ok H') :
    (nm ∈ H.indicators.map (·.1) ∧ sel nm = true → LateInv N nm ind cfg P' H') ∧
    (¬ (nm ∈ H.indicators.map (·.1) ∧ sel nm = true) → LateInv N nm ind cfg P H') := by
  unfold Hexital.forEach at hop
  exact LateInv.forEach_fold sel hf hs _ H H' inv.keysNodup inv hop

/-! ### the member's own steps: `calculate()` finishes the row-major run, `purge()` gives back the raw stream -/

omit [PyF F] in
/-- a step that can be mirrored on a twin (`TwinStep`), whose effect on the twin's candles is known -/
theorem SelfStep.of_twinStep {ind : Ind F} {cfg : MgrCfg} {P P' : List (Candle F) → Prop}
    {f : IndState F → PyM (IndState F)} (hf : TwinStep N f) (hok : TreeOK N ind)
    (htw : ∀ st st' : IndState F, st.tree = ind → st.mgr.cfg = cfg → P st.mgr.candles → f st = .ok st' →
      P' st'.mgr.candles) : SelfStep N ind cfg P P' f := by
  intro t t' cs htree hcfg hse hP ht'
  have hsim : IndState.Sim N ({ tree := ind, mgr := { cfg := cfg, candles := cs }, active := t.active } : IndState F) t :=
    ⟨htree.symm, rfl, hcfg.symm, hse⟩
  obtain ⟨st', hst', hsim'⟩ := (hf.sim _ _ hsim hok).ok_right ht'
  exact ⟨st'.mgr.candles, hsim'.candles, htw _ st' rfl rfl hP hst'⟩

/-- **`calculate()` on a resumable list is the row-major run over the whole raw stream** -/
theorem SelfStep.calculate {ind : Ind F} (T : TreeSpec ind) (cfg : MgrCfg) (raw : List (Candle F))
    (hok : TreeOK N ind) :
    SelfStep N ind cfg (Gen.ResumableAt T.S raw) (fun cs => Gen.rowMajor T.S raw = .ok cs) IndState.calculate := by
  refine SelfStep.of_twinStep TwinStep.calculate hok (fun st st' htree _ hP hrun => ?_)
  obtain ⟨_, _, he⟩ := IndState.calculate_ok_engine st st' hrun
  rw [htree] at he
  exact (T.engine_resumableAt raw _ _ hP).1 he

/-- **`purge()` on a resumable list gives back the raw stream** (which is resumable) -/
theorem SelfStep.purge {ind : Ind F} (T : TreeSpec ind) (cfg : MgrCfg) (raw : List (Candle F))
    (hok : TreeOK N ind) :
    SelfStep N ind cfg (Gen.ResumableAt T.S raw) (Gen.ResumableAt T.S raw) (fun s => pure s.purge) := by
  refine SelfStep.of_twinStep TwinStep.purge hok (fun st st' htree _ hP hrun => ?_)
  cases hrun
  have : st.purge.mgr.candles = raw := by
    unfold IndState.purge
    simp only [htree]
    exact T.purge_resumableAt raw _ hP
  rw [this]
  exact Gen.resumableAt_plain T.S raw hP.plain

/-! ### the managers' half of `append` -/

/-- what `CandleManager.append` does to the list `cs` -/
def FeedStep (cfg : MgrCfg) (new : List (Candle F)) (P P' : List (Candle F) → Prop) : Prop :=
  ∀ cs, P cs → ∃ cs', Manager.append ({ cfg := cfg, candles := cs } : Manager F) new
      = .ok { cfg := cfg, candles := cs' } ∧ P' cs'

theorem LateInv.feed_fold {nm : String} {ind : Ind F} {cfg : MgrCfg} {P P' : List (Candle F) → Prop}
    (new : List (Candle F)) (hfeed : FeedStep cfg new P P') :
    ∀ (ks : List String) (H H' : Hexital F), ks.Nodup → LateInv N nm ind cfg P H →
      ks.foldlM (Hexital.feedOne new) H = .ok H' →
      (defaultKey ∈ ks → LateInv N nm ind cfg P' H') ∧ (defaultKey ∉ ks → LateInv N nm ind cfg P H') := by
  intro ks
  induction ks with
  | nil =>
    intro H H' _ inv e
    simp [List.foldlM, pure, Except.pure] at e; subst e
    exact ⟨fun h => absurd h (by simp), fun _ => inv⟩
  | cons k r ih =>
    intro H H' hnd inv e
    rw [List.foldlM_cons] at e
    obtain ⟨H1, e1, e2⟩ := Writes.bind_ok e
    unfold Hexital.feedOne at e1
    obtain ⟨mk, hmk, e1⟩ := Writes.bind_ok e1
    obtain ⟨mk', hmk', e1⟩ := Writes.bind_ok e1
    cases e1
    have hmk'' := Hexital.manager_eq_ok hmk
    have hnd' := List.nodup_cons.1 hnd
    obtain ⟨dm, cs, h1, h2, h3, h4⟩ := inv.dflt
    have hkeys : ((H.setManager k mk').managers.map (·.1)).Nodup := by
      show ((dset k mk' H.managers).map (·.1)).Nodup
      rw [Writes.keys_dset_of_lookup _ hmk'']; exact inv.mgrNodup
    by_cases hk : k = defaultKey
    · subst hk
      rw [h1] at hmk''; cases hmk''
      obtain ⟨cs', hcs', hP'⟩ := hfeed cs h4
      have hs : Manager.Sim N ({ cfg := cfg, candles := cs } : Manager F) mk := ⟨h2.symm, h3⟩
      obtain ⟨sm', hsm', hsim⟩ := (Manager.append_sim hs new).ok_right hmk'
      rw [hcs'] at hsm'
      cases hsm'
      have inv' : LateInv N nm ind cfg P' (H.setManager defaultKey mk') :=
        ⟨inv.keysNodup, hkeys, inv.others,
         ⟨mk', cs', dlookup_dset_self _ _ _, hsim.cfg.symm, hsim.candles, hP'⟩, inv.self⟩
      have hfold : ∀ (l : List String) (G G' : Hexital F), defaultKey ∉ l →
          LateInv N nm ind cfg P' G → l.foldlM (Hexital.feedOne new) G = .ok G' → LateInv N nm ind cfg P' G' := by
        intro l
        induction l with
        | nil => intro G G' _ i e; simp [List.foldlM, pure, Except.pure] at e; subst e; exact i
        | cons k2 r2 ih2 =>
          intro G G' hnot i e
          rw [List.foldlM_cons] at e
          obtain ⟨G1, g1, g2⟩ := Writes.bind_ok e
          unfold Hexital.feedOne at g1
          obtain ⟨m2, hm2, g1⟩ := Writes.bind_ok g1
          obtain ⟨m2', _, g1⟩ := Writes.bind_ok g1
          cases g1
          have hm2' := Hexital.manager_eq_ok hm2
          have hk2 : ¬ k2 = defaultKey := fun h => hnot (by simp [h])
          obtain ⟨d2, c2, q1, q2, q3, q4⟩ := i.dflt
          refine ih2 (G.setManager k2 m2') G' (fun h => hnot (List.mem_cons_of_mem _ h)) ⟨i.keysNodup, ?_, i.others,
            ⟨d2, c2, ?_, q2, q3, q4⟩, i.self⟩ g2
          · show ((dset k2 m2' G.managers).map (·.1)).Nodup
            rw [Writes.keys_dset_of_lookup _ hm2']; exact i.mgrNodup
          · show dlookup defaultKey (dset k2 m2' G.managers) = some d2
            rw [dlookup_dset]; simp only [hk2, if_false]; exact q1
      have := hfold r _ H' hnd'.1 inv' e2
      exact ⟨fun _ => this, fun h => absurd (List.mem_cons_self) h⟩
    · have inv' : LateInv N nm ind cfg P (H.setManager k mk') :=
        ⟨inv.keysNodup, hkeys, inv.others,
         ⟨dm, cs, by
            show dlookup defaultKey (dset k mk' H.managers) = some dm
            rw [dlookup_dset]; simp only [hk, if_false]; exact h1, h2, h3, h4⟩, inv.self⟩
      obtain ⟨p1, p2⟩ := ih _ H' hnd'.2 inv' e2
      refine ⟨fun h => p1 ?_, fun h => p2 (fun hm => h (List.mem_cons_of_mem _ hm))⟩
      rcases List.mem_cons.1 h with e | e
      · exact absurd e.symm hk
      · exact e

theorem LateInv.feedManagers {nm : String} {ind : Ind F} {cfg : MgrCfg} {P P' : List (Candle F) → Prop}
    {H H' : Hexital F} (inv : LateInv N nm ind cfg P H) (new : List (Candle F)) (hfeed : FeedStep cfg new P P')
    (hop : H.feedManagers new = .ok H') : LateInv N nm ind cfg P' H' := by
  unfold Hexital.feedManagers Hexital.feedOrder at hop
  dsimp only at hop
  obtain ⟨dm, cs, h1, _⟩ := inv.dflt
  have hperm : ((H.managers.map (·.1)).drop 1 ++ (H.managers.map (·.1)).take 1).Perm (H.managers.map (·.1)) := by
    have h := (List.perm_append_comm :
      ((H.managers.map (·.1)).drop 1 ++ (H.managers.map (·.1)).take 1).Perm
        ((H.managers.map (·.1)).take 1 ++ (H.managers.map (·.1)).drop 1))
    rwa [List.take_append_drop] at h
  have hnd := hperm.nodup_iff.2 inv.mgrNodup
  have hmem : defaultKey ∈ (H.managers.map (·.1)).drop 1 ++ (H.managers.map (·.1)).take 1 :=
    hperm.mem_iff.2 (Writes.mem_keys_of_lookup h1)
  exact (LateInv.feed_fold new hfeed _ H H' hnd inv hop).1 hmem

/-! ### `CandleManager.append` keeps a resumable list resumable -/

omit [PyF F] in
theorem Dressed.refl' (l : List (Candle F)) : Dressed l l := by
  induction l with
  | nil => exact List.Forall₂.nil
  | cons c r ih => exact List.Forall₂.cons rfl ih

omit [PyF F] in
theorem Dressed.append' {a b c d : List (Candle F)} (h1 : Dressed a b) (h2 : Dressed c d) :
    Dressed (a ++ c) (b ++ d) := by
  induction h1 with
  | nil => exact h2
  | cons hcd _ ih => exact List.Forall₂.cons hcd ih

/-- a resumable list is the manager spec dressed with readings -/
theorem Gen.ResumableAt.dressed {ind : Ind F} (T : TreeSpec ind) {raw cs : List (Candle F)}
    (h : Gen.ResumableAt T.S raw cs) : Dressed raw cs := by
  obtain ⟨raw₁, raw₂, done, rfl, hp₁, _, hr, rfl⟩ := h
  exact Dressed.append' (Gen.rowMajor_shape T.law raw₁ done hp₁ hr).1.dressed (Dressed.refl' raw₂)

/-- **the manager's `append` on a resumable list**: the re-collapsed / re-filled list is resumable over the
manager spec of the longer stream -/
theorem feedStep_resumable {ind : Ind F} (T : TreeSpec ind) (M : MgrSpec F) (s new : List (Candle F))
    (hok : M.Ok (s ++ new)) :
    FeedStep M.cfg new (Gen.ResumableAt T.S (M.spec s)) (Gen.ResumableAt T.S (M.spec (s ++ new))) := by
  intro cs hP
  by_cases hnew : new = []
  · subst hnew
    refine ⟨cs, by simp [Manager.append], ?_⟩
    simpa using hP
  · have hd := hP.dressed T
    obtain ⟨raw₁, raw₂, done, hraw, hp₁, hp₂, hr, hcs⟩ := hP
    obtain ⟨k, Q, hQ, _, ht, hres⟩ := M.append s new cs hok hnew hd
    have hne : new.isEmpty = false := by cases new <;> simp at hnew ⊢
    refine ⟨cs.take k ++ Q, ?_, ?_⟩
    · simp only [Manager.append, hne, Bool.false_eq_true, if_false, ht, bind, Except.bind]
      rfl
    · have hlen : raw₁.length = done.length := (Gen.rowMajor_shape T.law raw₁ done hp₁ hr).1.length_eq
      refine ⟨raw₁.take k, raw₂.take (k - raw₁.length) ++ Q, done.take k, ?_,
        fun c hc => hp₁ c (List.mem_of_mem_take hc), ?_, Gen.rowMajor_take T.law raw₁ done hp₁ hr k, ?_⟩
      · rw [hres, hraw, List.take_append, List.append_assoc]
      · intro c hc
        rcases List.mem_append.1 hc with h | h
        · exact hp₂ c (List.mem_of_mem_take h)
        · exact hQ c h
      · rw [hcs, List.take_append, List.append_assoc, hlen]

/-! ### `add_indicator` / `remove_indicator` -/

theorem LateInv.attachFrom {nm : String} {ind : Ind F} {cfg : MgrCfg} {P : List (Candle F) → Prop}
    {H H' : Hexital F} (inv : LateInv N nm ind cfg P H) (src : Option (List (Candle F))) (m : Member F)
    (hself : m.tree.name = nm → m.tree = ind ∧ m.tfName = none)
    (hoth : m.tree.name ≠ nm → ∀ k, k ∈ m.tree.allNames → k ∈ N)
    (ha : H.attachFrom src m = .ok H') : LateInv N nm ind cfg P H' := by
  obtain ⟨dm, cs, h1, h2, h3, h4⟩ := inv.dflt
  have key : ∀ (k : String) (ms : List (String × Manager F)), (ms.map (·.1)).Nodup →
      dlookup defaultKey ms = some dm → (m.tree.name = nm → k = defaultKey) →
      LateInv N nm ind cfg P (⟨H.cfg, H.tfName, ms, dset m.tree.name ⟨m.tree, k, 0⟩ H.indicators⟩ : Hexital F) := by
    intro k ms hms hdef hk
    refine ⟨Writes.nodup_keys_dset _ _ _ inv.keysNodup, hms, ?_, ⟨dm, cs, hdef, h2, h3, h4⟩, ?_⟩
    · intro n hi2 hn2 hl
      dsimp only at hl
      rw [dlookup_dset] at hl
      by_cases e : m.tree.name = n
      · simp only [e, if_true] at hl; cases hl; exact hoth (e ▸ hn2)
      · simp only [e, if_false] at hl
        exact inv.others n hi2 hn2 hl
    · intro hi hl
      dsimp only at hl
      rw [dlookup_dset] at hl
      by_cases e : m.tree.name = nm
      · simp only [e, if_true] at hl; cases hl
        exact ⟨(hself e).1, hk e⟩
      · simp only [e, if_false] at hl
        exact inv.self hi hl
  unfold Hexital.attachFrom at ha
  split at ha
  · cases ha; exact key _ _ inv.mgrNodup h1 (fun _ => rfl)
  · rename_i tf htf
    have hnot : ¬ m.tree.name = nm := fun e => by rw [(hself e).2] at htf; cases htf
    split at ha
    · cases ha; exact key _ _ inv.mgrNodup h1 (fun e => absurd e hnot)
    · rename_i hdh
      obtain ⟨raw, _, ha⟩ := Writes.bind_ok ha
      obtain ⟨nmgr, _, ha⟩ := Writes.bind_ok ha
      cases ha
      have htfne : ¬ tf = defaultKey := by
        intro e; apply hdh; rw [e]; simp [dhas, h1]
      refine key _ _ (Writes.nodup_keys_dset _ _ _ inv.mgrNodup) ?_ (fun e => absurd e hnot)
      rw [dlookup_dset]; simp only [htfne, if_false]; exact h1

/-- `add_indicator` -/
theorem LateInv.attach {nm : String} {ind : Ind F} {cfg : MgrCfg} {P : List (Candle F) → Prop}
    {H H' : Hexital F} (inv : LateInv N nm ind cfg P H) (m : Member F)
    (hself : m.tree.name = nm → m.tree = ind ∧ m.tfName = none)
    (hoth : m.tree.name ≠ nm → ∀ k, k ∈ m.tree.allNames → k ∈ N)
    (ha : H.attach m = .ok H') : LateInv N nm ind cfg P H' :=
  inv.attachFrom none m hself hoth ha

/-- the member loop of `_validate_indicators`, from the constructor (`src = some init`) or from `add_indicator` -/
theorem LateInv.attachAll {nm : String} {ind : Ind F} {cfg : MgrCfg} {P : List (Candle F) → Prop}
    (src : Option (List (Candle F))) :
    ∀ (l : List (Member F)) (H H' : Hexital F), LateInv N nm ind cfg P H →
      (∀ m, m ∈ l → (m.tree.name = nm → m.tree = ind ∧ m.tfName = none) ∧
        (m.tree.name ≠ nm → ∀ k, k ∈ m.tree.allNames → k ∈ N)) →
      l.foldlM (Hexital.attachFrom src) H = .ok H' → LateInv N nm ind cfg P H' := by
  intro l
  induction l with
  | nil => intro H H' inv _ e; simp [List.foldlM, pure, Except.pure] at e; subst e; exact inv
  | cons m r ih =>
    intro H H' inv hms e
    rw [List.foldlM_cons] at e
    obtain ⟨H1, e1, e2⟩ := Writes.bind_ok e
    exact ih H1 H' (inv.attachFrom src m (hms m (by simp)).1 (hms m (by simp)).2 e1)
      (fun m' hm' => hms m' (List.mem_cons_of_mem _ hm')) e2

omit [PyF F] in
theorem LateInv.erase_other {nm : String} {ind : Ind F} {cfg : MgrCfg} {P : List (Candle F) → Prop}
    {H : Hexital F} (inv : LateInv N nm ind cfg P H) (b : String) (hb : b ≠ nm) :
    LateInv N nm ind cfg P { H with indicators := derase b H.indicators } := by
  refine ⟨?_, inv.mgrNodup, ?_, inv.dflt, ?_⟩
  · show ((derase b H.indicators).map (·.1)).Nodup
    rw [Writes.derase_eq_filter]
    exact inv.keysNodup.sublist ((List.filter_sublist).map _)
  · intro n hi2 hn2 hl
    change dlookup n (derase b H.indicators) = some hi2 at hl
    rw [dlookup_derase] at hl
    by_cases e : b = n
    · simp [e] at hl
    · simp only [e, if_false] at hl
      exact inv.others n hi2 hn2 hl
  · intro hi hl
    change dlookup nm (derase b H.indicators) = some hi at hl
    rw [dlookup_derase] at hl
    simp only [hb, if_false] at hl
    exact inv.self hi hl

/-! ### programs -/

/-- the candles an operation feeds -/
def TwinOp.added : TwinOp F → List (Candle F)
  | .append new => new
  | _ => []

/-- the chunks a program feeds, in order (the expression used in `C13.presence_FULL`) -/
def TwinOp.chunks (ops : List (TwinOp F)) : List (List (Candle F)) :=
  ops.filterMap (fun op => match op with | .append new => some new | _ => none)

omit [PyF F] in
theorem TwinOp.chunks_cons (op : TwinOp F) (r : List (TwinOp F)) :
    (TwinOp.chunks (op :: r)).flatten = op.added ++ (TwinOp.chunks r).flatten := by
  cases op <;> simp [TwinOp.chunks, TwinOp.added]

omit [PyF F] in
theorem TwinOp.chunks_append (a b : List (TwinOp F)) :
    TwinOp.chunks (a ++ b) = TwinOp.chunks a ++ TwinOp.chunks b := by
  simp [TwinOp.chunks, List.filterMap_append]

/-- side conditions, seen from the member `a` that may be added late: `add_indicator` adds `a` itself or
members with other names writing under `N`; `a` is never removed; `calculate_index` is not aimed at `a`
(nor at everything): a single index calculated out of order is NOT repaired by `calculate()` – see
`presence_FULL_counterexample`.  Everything else – `calculate`, `purge`, `recalculate`, `append`, aimed at
`a`, at others or at everything – is free, and need not be the same in the two programs. -/
def TwinOp.LateOK (N : List String) (a : Member F) : TwinOp F → Prop
  | .add ms => ∀ m, m ∈ Hexital.dedupe ms → m = a ∨ (m.tree.name ≠ a.tree.name ∧ ∀ k, k ∈ m.tree.allNames → k ∈ N)
  | .remove (some b) => b ≠ a.tree.name
  | .calculateIndex n _ => n ≠ none ∧ n ≠ some a.tree.name
  | _ => True

section Steps
variable {ind : Ind F} (T : TreeSpec ind) (M : MgrSpec F) {nm : String}

/-- resumable over the manager spec of the stream `s` -/
abbrev Res (s : List (Candle F)) : List (Candle F) → Prop := Gen.ResumableAt T.S (M.spec s)
/-- the row-major run over the manager spec of the stream `s` -/
abbrev Fin' (s : List (Candle F)) : List (Candle F) → Prop := fun cs => Gen.rowMajor T.S (M.spec s) = .ok cs

theorem fin_res {s : List (Candle F)} (hs : M.Ok s) (cs : List (Candle F)) (h : Fin' T M s cs) : Res T M s cs :=
  Gen.resumableAt_finished T.S _ cs (M.spec_plain s hs) h

/-- `Hexital.calculate(name)`: stays resumable; finished when it met the member -/
theorem LateInv.calculate {s : List (Candle F)} {H H' : Hexital F} (hs : M.Ok s) (hok : TreeOK N ind)
    (inv : LateInv N nm ind M.cfg (Res T M s) H) (name : Option String) (hop : H.calculate name = .ok H') :
    LateInv N nm ind M.cfg (Res T M s) H' ∧
    (nm ∈ H.indicators.map (·.1) ∧ (name.isNone || name == some nm) = true →
      LateInv N nm ind M.cfg (Fin' T M s) H') := by
  obtain ⟨p1, p2⟩ := inv.forEach (fun n => name.isNone || name == some n) IndState.calculate_local
    (fun _ => SelfStep.calculate T M.cfg (M.spec s) hok) hop
  refine ⟨?_, p1⟩
  by_cases h : nm ∈ H.indicators.map (·.1) ∧ (name.isNone || name == some nm) = true
  · exact (p1 h).mono (fin_res T M hs)
  · exact p2 h

theorem LateInv.purge {s : List (Candle F)} {H H' : Hexital F} (hok : TreeOK N ind)
    (inv : LateInv N nm ind M.cfg (Res T M s) H) (name : Option String) (hop : H.purge name = .ok H') :
    LateInv N nm ind M.cfg (Res T M s) H' := by
  obtain ⟨p1, p2⟩ := inv.forEach (fun n => name.isNone || name == some n)
    (fun t t' e => by cases e; exact IndState.purge_local t)
    (fun _ => SelfStep.purge T M.cfg (M.spec s) hok) hop
  by_cases h : nm ∈ H.indicators.map (·.1) ∧ (name.isNone || name == some nm) = true
  · exact p1 h
  · exact p2 h

/-- one façade operation -/
theorem LateInv.step (a : Member F) (hatf : a.tfName = none) (hnm : a.tree.name = nm) (hind : a.tree = ind)
    (hok : TreeOK N ind) {s : List (Candle F)} {H H' : Hexital F} (op : TwinOp F)
    (hs : M.Ok (s ++ op.added)) (hopok : op.LateOK N a)
    (inv : LateInv N nm ind M.cfg (Res T M s) H) (hop : op.runHex H = .ok H') :
    LateInv N nm ind M.cfg (Res T M (s ++ op.added)) H' := by
  have hs0 : M.Ok s := M.ok_left _ _ hs
  cases op with
  | calculate n =>
    simp only [TwinOp.added, List.append_nil]
    exact (inv.calculate T M hs0 hok n hop).1
  | purge n =>
    simp only [TwinOp.added, List.append_nil]
    exact inv.purge T M hok n hop
  | recalculate n =>
    simp only [TwinOp.added, List.append_nil]
    unfold TwinOp.runHex Hexital.recalculate at hop
    obtain ⟨H1, e1, e2⟩ := Writes.bind_ok hop
    exact ((inv.purge T M hok n e1).calculate T M hs0 hok n e2).1
  | calculateIndex n i =>
    simp only [TwinOp.added, List.append_nil]
    obtain ⟨hn1, hn2⟩ := hopok
    have hsel : ¬ ((n.isNone || n == some nm) = true) := by
      cases n with
      | none => exact absurd rfl hn1
      | some b =>
        simp only [Option.isNone_some, Bool.false_or, beq_iff_eq, Option.some.injEq]
        intro e; exact hn2 (by rw [e, hnm])
    obtain ⟨_, p2⟩ := inv.forEach (P' := Res T M s) (fun n' => n.isNone || n == some n')
      (fun t t' e => IndState.calculateIndex_local t t' i none e)
      (fun h => absurd h hsel) hop
    exact p2 (fun h => hsel h.2)
  | append new =>
    simp only [TwinOp.added] at hs ⊢
    unfold TwinOp.runHex Hexital.append at hop
    obtain ⟨H1, e1, e2⟩ := Writes.bind_ok hop
    have inv1 := inv.feedManagers new (feedStep_resumable T M s new hs) e1
    exact (inv1.calculate T M hs hok none e2).1
  | add ms =>
    simp only [TwinOp.added, List.append_nil]
    unfold TwinOp.runHex Hexital.addIndicators at hop
    refine LateInv.attachAll none _ H H' inv (fun m hm => ?_) hop
    rcases hopok m hm with e | ⟨e1, e2⟩
    · subst e
      exact ⟨fun _ => ⟨hind, hatf⟩, fun h => absurd hnm h⟩
    · exact ⟨fun h => absurd (h.trans hnm.symm) e1, fun _ => e2⟩
  | remove n =>
    simp only [TwinOp.added, List.append_nil]
    unfold TwinOp.runHex Hexital.removeIndicator at hop
    obtain ⟨H1, e1, e2⟩ := Writes.bind_ok hop
    have inv1 := inv.purge T M hok n e1
    cases n with
    | none => cases e2; exact inv1
    | some b =>
      cases e2
      exact inv1.erase_other b (fun e => hopok (e.trans hnm.symm))

/-- a program of façade operations -/
theorem LateInv.program (a : Member F) (hatf : a.tfName = none) (hnm : a.tree.name = nm) (hind : a.tree = ind)
    (hok : TreeOK N ind) :
    ∀ (ops : List (TwinOp F)) (s : List (Candle F)) (H H' : Hexital F),
      M.Ok (s ++ (TwinOp.chunks ops).flatten) → (∀ op, op ∈ ops → op.LateOK N a) →
      LateInv N nm ind M.cfg (Res T M s) H → ops.foldlM TwinOp.runHex H = .ok H' →
      LateInv N nm ind M.cfg (Res T M (s ++ (TwinOp.chunks ops).flatten)) H' := by
  intro ops
  induction ops with
  | nil =>
    intro s H H' _ _ inv e
    simp [List.foldlM, pure, Except.pure] at e; subst e
    simpa [TwinOp.chunks] using inv
  | cons op r ih =>
    intro s H H' hs hops inv e
    rw [List.foldlM_cons] at e
    obtain ⟨H1, e1, e2⟩ := Writes.bind_ok e
    rw [TwinOp.chunks_cons, ← List.append_assoc] at hs ⊢
    have inv1 := LateInv.step T M a hatf hnm hind hok op (M.ok_left _ _ hs) (hops op (by simp)) inv e1
    exact ih (s ++ op.added) H1 H' hs (fun op' h' => hops op' (List.mem_cons_of_mem _ h')) inv1 e2

/-- construction: `Hexital(candles, indicators=[…])` -/
theorem LateInv.init (a : Member F) (hatf : a.tfName = none) (hnm : a.tree.name = nm) (hind : a.tree = ind)
    (tf : Option String) (init : List (Candle F)) (ms : List (Member F)) (H : Hexital F)
    (hs : M.Ok init)
    (hms : ∀ m, m ∈ Hexital.dedupe ms → m = a ∨ (m.tree.name ≠ a.tree.name ∧ ∀ k, k ∈ m.tree.allNames → k ∈ N))
    (hinit : Hexital.init M.cfg tf init ms = .ok H) : LateInv N nm ind M.cfg (Res T M init) H := by
  unfold Hexital.init at hinit
  obtain ⟨dm, hdm, hfold⟩ := Writes.bind_ok hinit
  unfold Manager.init at hdm
  rw [M.init init hs] at hdm
  cases hdm
  have inv0 : LateInv N nm ind M.cfg (Res T M init)
      ({ cfg := M.cfg, tfName := tf, managers := [(defaultKey, { cfg := M.cfg, candles := M.spec init })],
         indicators := [] } : Hexital F) :=
    ⟨by simp, by simp, fun n hi _ hl => by simp at hl,
     ⟨{ cfg := M.cfg, candles := M.spec init }, M.spec init, by simp [dlookup], rfl, StripEq.refl _ _,
      Gen.resumableAt_plain T.S _ (M.spec_plain init hs)⟩,
     fun hi hl => by simp at hl⟩
  refine LateInv.attachAll (some init) _ _ H inv0 (fun m hm => ?_) hfold
  rcases hms m hm with e | ⟨e1, e2⟩
  · subst e
    exact ⟨fun _ => ⟨hind, hatf⟩, fun h => absurd hnm h⟩
  · exact ⟨fun h => absurd (h.trans hnm.symm) e1, fun _ => e2⟩

end Steps

/-! ### the theorems -/

/-- **A member's readings are a function of the stream alone – whenever it was added.**
Build a Hexital (configuration `M.cfg`: base timeframe, Hexital-level timeframe, timeframe + gap filling – any
`MgrSpec`) over `init` with members `ms`, drive it with any program `ops` of façade operations – which may add `a`
by `add_indicator` at any point, any number of times, may add and remove other members, calculate / purge /
recalculate anything, append candles – and close with `calculate()`.  If `a` (no own timeframe; its tree has a
row-major spec `T` and neither writes under nor can read the names `N` of the others) is registered at the end,
then the candles of the default manager are – up to the others' entries – THE row-major run `cs` of `a`'s tree over
the manager spec of everything that was fed, and `reading_as_list` returns the columns of `cs`. -/
theorem late_member_column (M : MgrSpec F) (tf : Option String) (init : List (Candle F)) (ms : List (Member F))
    (a : Member F) (ops : List (TwinOp F)) (H : Hexital F) (T : TreeSpec a.tree)
    (hatf : a.tfName = none)
    (hms : ∀ m, m ∈ Hexital.dedupe ms → m = a ∨ (m.tree.name ≠ a.tree.name ∧ ∀ k, k ∈ m.tree.allNames → k ∈ N))
    (hok : TreeOK N a.tree) (hops : ∀ op, op ∈ ops → op.LateOK N a)
    (hs : M.Ok (init ++ (TwinOp.chunks ops).flatten))
    (hrun : runHexital M.cfg tf init ms (ops ++ [.calculate none]) = .ok H)
    (hreg : ∃ hi, dlookup a.tree.name H.indicators = some hi) :
    ∃ cs, Gen.rowMajor T.S (M.spec (init ++ (TwinOp.chunks ops).flatten)) = .ok cs ∧
      (∀ name, (splitDot name).headD "" = a.tree.name → readOK N name = true →
        H.readingAsList name = .ok (cs.map fun c => readingByCandle c name)) ∧
      (∃ hi dm, dlookup a.tree.name H.indicators = some hi ∧ hi.tree = a.tree ∧ hi.mgrKey = defaultKey ∧
        dlookup defaultKey H.managers = some dm ∧ dm.cfg = M.cfg ∧ StripEq N cs dm.candles) := by
  unfold runHexital at hrun
  obtain ⟨H0, h0, hfold⟩ := Writes.bind_ok hrun
  rw [List.foldlM_append] at hfold
  obtain ⟨Hm, hm, hlast⟩ := Writes.bind_ok hfold
  have hlast' : Hm.calculate none = .ok H := by
    simp only [List.foldlM_cons, List.foldlM_nil, TwinOp.runHex, bind, Except.bind, pure, Except.pure] at hlast
    cases hc : Hm.calculate none with
    | error e => rw [hc] at hlast; cases hlast
    | ok x => rw [hc] at hlast; simpa using hlast
  have inv0 := LateInv.init T M a hatf rfl rfl tf init ms H0 (M.ok_left _ _ hs) hms h0
  have invm := LateInv.program T M a hatf rfl rfl hok ops init H0 Hm hs hops inv0 hm
  obtain ⟨hi, hl⟩ := hreg
  have hkeys := (Hexital.calculate_all_agree Hm H none hlast').keys
  have hmem : a.tree.name ∈ Hm.indicators.map (·.1) := by
    rw [← hkeys]; exact Writes.mem_keys_of_lookup hl
  have invF := (invm.calculate T M hs hok none hlast').2 ⟨hmem, rfl⟩
  obtain ⟨dm, cs, d1, d2, d3, d4⟩ := invF.dflt
  obtain ⟨s1, s2⟩ := invF.self hi hl
  refine ⟨cs, d4, fun name hprim hr => ?_, ⟨hi, dm, hl, s1, s2, d1, d2, d3⟩⟩
  unfold Hexital.readingAsList Hexital.manager
  dsimp only
  rw [hprim, hl]
  dsimp only
  rw [s2, d1]
  show Except.ok (dm.candles.map fun c => readingByCandle c name) = _
  congr 1
  have hc := d3
  unfold StripEq at hc
  have e := congrArg (List.map (fun c => readingByCandle c name)) hc
  rw [map_readingByCandle_strip hr, map_readingByCandle_strip hr] at e
  exact e.symm

/-- **C13, presence – the member itself added late** (partial form of `C13.presence_FULL`; see the end of this
file for what differs).  Two Hexitals over the same candles with any member lists `ms₁`, `ms₂`, driven with any
programs `ops₁`, `ops₂` that feed the same candles (in any chunking), closed with `calculate()`.  The member `a`
(no own timeframe) may be handed to the constructor or added by `add_indicator` at any point of either program;
the other members (`N₁`, `N₂` bound the names they write under) may be registered, added and removed in any order;
`calculate / purge / recalculate` may be aimed at anything, `calculate_index` at other members.  If `a` is registered
at the end of both, every reading name of `a` returns the same column, and under every name of `a`'s tree the two
default managers store the same readings on the same candles. -/
theorem presence_late (M : MgrSpec F) (tf₁ tf₂ : Option String) (init : List (Candle F)) (ms₁ ms₂ : List (Member F))
    (a : Member F) (N₁ N₂ : List String) (ops₁ ops₂ : List (TwinOp F)) (H₁ H₂ : Hexital F) (T : TreeSpec a.tree)
    (hatf : a.tfName = none)
    (hms₁ : ∀ m, m ∈ Hexital.dedupe ms₁ → m = a ∨ (m.tree.name ≠ a.tree.name ∧ ∀ k, k ∈ m.tree.allNames → k ∈ N₁))
    (hms₂ : ∀ m, m ∈ Hexital.dedupe ms₂ → m = a ∨ (m.tree.name ≠ a.tree.name ∧ ∀ k, k ∈ m.tree.allNames → k ∈ N₂))
    (hok₁ : TreeOK N₁ a.tree) (hok₂ : TreeOK N₂ a.tree)
    (hops₁ : ∀ op, op ∈ ops₁ → op.LateOK N₁ a) (hops₂ : ∀ op, op ∈ ops₂ → op.LateOK N₂ a)
    (hsame : (TwinOp.chunks ops₁).flatten = (TwinOp.chunks ops₂).flatten)
    (hs : M.Ok (init ++ (TwinOp.chunks ops₁).flatten))
    (hr₁ : runHexital M.cfg tf₁ init ms₁ (ops₁ ++ [.calculate none]) = .ok H₁)
    (hr₂ : runHexital M.cfg tf₂ init ms₂ (ops₂ ++ [.calculate none]) = .ok H₂)
    (hreg₁ : ∃ hi, dlookup a.tree.name H₁.indicators = some hi)
    (hreg₂ : ∃ hi, dlookup a.tree.name H₂.indicators = some hi) :
    (∀ name, (splitDot name).headD "" = a.tree.name → readOK N₁ name = true → readOK N₂ name = true →
        H₁.readingAsList name = H₂.readingAsList name) ∧
    (∃ hi₁ m₁ hi₂ m₂, dlookup a.tree.name H₁.indicators = some hi₁ ∧ dlookup hi₁.mgrKey H₁.managers = some m₁ ∧
        dlookup a.tree.name H₂.indicators = some hi₂ ∧ dlookup hi₂.mgrKey H₂.managers = some m₂ ∧
        hi₁.tree = a.tree ∧ hi₂.tree = a.tree ∧
        m₁.candles.map Candle.core = m₂.candles.map Candle.core ∧
        ∀ k, k ∈ a.tree.allNames → storedUnder k m₁.candles = storedUnder k m₂.candles) := by
  obtain ⟨cs₁, hc₁, col₁, hi₁, dm₁, a1, a2, a3, a4, _, a6⟩ :=
    late_member_column M tf₁ init ms₁ a ops₁ H₁ T hatf hms₁ hok₁ hops₁ hs hr₁ hreg₁
  obtain ⟨cs₂, hc₂, col₂, hi₂, dm₂, b1, b2, b3, b4, _, b6⟩ :=
    late_member_column M tf₂ init ms₂ a ops₂ H₂ T hatf hms₂ hok₂ hops₂ (hsame ▸ hs) hr₂ hreg₂
  have : cs₁ = cs₂ := by
    rw [hsame, hc₂] at hc₁; cases hc₁; rfl
  subst this
  refine ⟨fun name hp r₁ r₂ => (col₁ name hp r₁).trans (col₂ name hp r₂).symm,
    hi₁, dm₁, hi₂, dm₂, a1, a3 ▸ a4, b1, b3 ▸ b4, a2, b2, ?_, fun k hk => ?_⟩
  · exact (a6.agreeOff.core_eq).trans (b6.agreeOff.core_eq).symm
  · exact (a6.agreeOff.storedUnder_eq (hok₁.names k hk)).symm.trans (b6.agreeOff.storedUnder_eq (hok₂.names k hk))

/-! ### every shipped class, any Hexital-level timeframe, gap filling off or on -/

/-- **`presence_late` for the 27 shipped classes** (`CoveredTreeX`), Hexital configuration
`{ tf := tfs, fill := fill && tfs.isSome }`, streams that are stamped / sorted / raw (`RawTf`; for the base
timeframe only `Plain` is used). -/
theorem presence_late_covered (tfs : Option Int) (htfs : ∀ t, tfs = some t → 0 < t) (fill : Bool)
    (tf₁ tf₂ : Option String) (init : List (Candle F)) (ms₁ ms₂ : List (Member F))
    (a : Member F) (k : Kind F) (name : String) (round : Nat) (hk : CoveredTreeX name k)
    (ha : a.tree = mkTop k name round) (hatf : a.tfName = none)
    (N₁ N₂ : List String) (ops₁ ops₂ : List (TwinOp F)) (H₁ H₂ : Hexital F)
    (hms₁ : ∀ m, m ∈ Hexital.dedupe ms₁ → m = a ∨ (m.tree.name ≠ a.tree.name ∧ ∀ k, k ∈ m.tree.allNames → k ∈ N₁))
    (hms₂ : ∀ m, m ∈ Hexital.dedupe ms₂ → m = a ∨ (m.tree.name ≠ a.tree.name ∧ ∀ k, k ∈ m.tree.allNames → k ∈ N₂))
    (hok₁ : TreeOK N₁ a.tree) (hok₂ : TreeOK N₂ a.tree)
    (hops₁ : ∀ op, op ∈ ops₁ → op.LateOK N₁ a) (hops₂ : ∀ op, op ∈ ops₂ → op.LateOK N₂ a)
    (hsame : (TwinOp.chunks ops₁).flatten = (TwinOp.chunks ops₂).flatten)
    (hraw : RawTf (init ++ (TwinOp.chunks ops₁).flatten))
    (hr₁ : runHexital { tf := tfs, fill := fill && tfs.isSome } tf₁ init ms₁ (ops₁ ++ [.calculate none]) = .ok H₁)
    (hr₂ : runHexital { tf := tfs, fill := fill && tfs.isSome } tf₂ init ms₂ (ops₂ ++ [.calculate none]) = .ok H₂)
    (hreg₁ : ∃ hi, dlookup a.tree.name H₁.indicators = some hi)
    (hreg₂ : ∃ hi, dlookup a.tree.name H₂.indicators = some hi) :
    ∀ nm, (splitDot nm).headD "" = a.tree.name → readOK N₁ nm = true → readOK N₂ nm = true →
      H₁.readingAsList nm = H₂.readingAsList nm := by
  obtain ⟨T, _⟩ := hk.spec round
  have T' : TreeSpec a.tree := ha ▸ T
  have hcfg := mgrSpecOf_cfg (F := F) tfs htfs fill
  rw [← hcfg] at hr₁ hr₂
  exact (presence_late (mgrSpecOf F tfs htfs fill) tf₁ tf₂ init ms₁ ms₂ a N₁ N₂ ops₁ ops₂ H₁ H₂ T' hatf hms₁ hms₂
    hok₁ hok₂ hops₁ hops₂ hsame (mgrSpecOf_ok tfs htfs fill _ hraw) hr₁ hr₂ hreg₁ hreg₂).1

/-! ### the statement of `C13.presence_FULL`, and why it is false as it stands -/

/-- verbatim copy of `Hex.C13.presence_FULL` (HexProps/C13.lean; this module cannot import the property file) -/
def PresenceFULL : Prop :=
  ∀ {F : Type} [PyF F] (cfg : MgrCfg) (tf : Option String) (init : List (Candle F)) (ms₁ ms₂ : List (Member F))
    (a : Member F) (N₁ N₂ : List String) (ops₁ ops₂ : List (TwinOp F)) (H₁ H₂ : Hexital F),
    (∀ m, m ∈ Hexital.dedupe ms₁ → m.tree.name ≠ a.tree.name → ∀ k, k ∈ m.tree.allNames → k ∈ N₁) →
    (∀ m, m ∈ Hexital.dedupe ms₂ → m.tree.name ≠ a.tree.name → ∀ k, k ∈ m.tree.allNames → k ∈ N₂) →
    TreeOK N₁ a.tree → TreeOK N₂ a.tree →
    (∀ op, op ∈ ops₁ → match op with
      | .add ms => ∀ m, m ∈ Hexital.dedupe ms → m = a ∨ (m.tree.name ≠ a.tree.name ∧ ∀ k, k ∈ m.tree.allNames → k ∈ N₁)
      | .remove (some b) => b ≠ a.tree.name
      | _ => True) →
    (∀ op, op ∈ ops₂ → match op with
      | .add ms => ∀ m, m ∈ Hexital.dedupe ms → m = a ∨ (m.tree.name ≠ a.tree.name ∧ ∀ k, k ∈ m.tree.allNames → k ∈ N₂)
      | .remove (some b) => b ≠ a.tree.name
      | _ => True) →
    ops₁.filterMap (fun op => match op with | .append new => some new | _ => none)
      = ops₂.filterMap (fun op => match op with | .append new => some new | _ => none) →
    runHexital cfg tf init ms₁ (ops₁ ++ [.calculate none]) = .ok H₁ →
    runHexital cfg tf init ms₂ (ops₂ ++ [.calculate none]) = .ok H₂ →
    (∃ hi, dlookup a.tree.name H₁.indicators = some hi ∧ hi.tree = a.tree) →
    (∃ hi, dlookup a.tree.name H₂.indicators = some hi ∧ hi.tree = a.tree) →
    ∀ name, (splitDot name).headD "" = a.tree.name → readOK N₁ name = true → readOK N₂ name = true →
      H₁.readingAsList name = H₂.readingAsList name

section Witness

def lateCandle (c : Int) : Candle Int :=
  { o := .int c, h := .int (c + 2), l := .int (c - 1), c := .int (c + 1), v := .int 10 }

def lateCandles : List (Candle Int) :=
  [lateCandle 10, lateCandle 12, lateCandle 11, lateCandle 15, lateCandle 14, lateCandle 13]

/-- `EMA(period=2)` -/
def lateE : Member Int := { tree := mkTop (.ema 2 "close" (.int 2)) "EMA_2" 4, tfName := none, tfSecs := none }

/-- the number in a reading (toy carrier) -/
def valInt : Val Int → Option Int
  | .s (.num (.flt x)) => some x
  | .s (.num (.int x)) => some x
  | _ => none

/-- the column `reading_as_list(name)` of a run, as numbers -/
def columnOf (r : PyM (Hexital Int)) (name : String) : Option (List (Option Int)) :=
  match r with
  | .ok h => match h.readingAsList name with
    | .ok l => some (l.map valInt)
    | .error _ => none
  | .error _ => none

theorem columnOf_ok {r : PyM (Hexital Int)} {H : Hexital Int} (h : r = .ok H) (name : String) :
    columnOf r name = match H.readingAsList name with
      | .ok l => some (l.map valInt)
      | .error _ => none := by
  subst h; rfl

theorem exists_of_isOk {α : Type} {r : PyM α} (h : isOk r = true) : ∃ x, r = .ok x := by
  cases r with
  | ok x => exact ⟨x, rfl⟩
  | error e => simp [isOk] at h

omit [PyF F] in
theorem readOK_nil (name : String) : readOK [] name = true := by
  unfold readOK
  split <;> simp

omit [PyF F] in
theorem treeOK_nil (t : Ind F) : TreeOK [] t :=
  ⟨fun _ _ h => by simp at h, fun r _ => readOK_nil r⟩

/-- world 1: `calculate_index("EMA_2", 3)` before the closing `calculate()`; world 2: nothing -/
def lateOps₁ : List (TwinOp Int) := [.calculateIndex (some "EMA_2") 3]

theorem witness_columns :
    isOk (runHexital {} none lateCandles [lateE] (lateOps₁ ++ [.calculate none])) = true ∧
    isOk (runHexital {} none lateCandles [lateE] ([] ++ [.calculate none])) = true ∧
    columnOf (runHexital {} none lateCandles [lateE] (lateOps₁ ++ [.calculate none])) "EMA_2"
      = some [none, some 12, some 12, some 14, some 14, some 14] ∧
    columnOf (runHexital {} none lateCandles [lateE] ([] ++ [.calculate none])) "EMA_2"
      = some [none, some 12, some 12, some 12, some 12, some 12] := by
  decide +kernel

/-- **`presence_FULL` is false as stated**: nothing ties the operations aimed at `a` itself in the two
programs together (compare `hsame` of `C13.presence`).  Witness: one Hexital, one member `EMA_2` handed to the
constructor in both worlds, no other member at all; world 1 calls `calculate_index("EMA_2", 3)` before the closing
`calculate()`, world 2 does not.  `calculate()` resumes at the newest candle holding the key and skips non-`None`
readings, so the out-of-order reading at index 3 (an EMA seeded with no predecessor) stays and feeds the later ones. -/
theorem presence_FULL_counterexample : ¬ PresenceFULL := by
  intro hfull
  obtain ⟨ok₁, ok₂, col₁, col₂⟩ := witness_columns
  obtain ⟨H₁, h₁⟩ := exists_of_isOk ok₁
  obtain ⟨H₂, h₂⟩ := exists_of_isOk ok₂
  have hmem : lateE ∈ Hexital.dedupe [lateE] := by simp [Hexital.dedupe, dset]
  have hded : ∀ m, m ∈ Hexital.dedupe [lateE] → m = lateE := by
    intro m hm; simpa [Hexital.dedupe, dset] using hm
  have hoth : ∀ m, m ∈ Hexital.dedupe [lateE] → m.tree.name ≠ lateE.tree.name →
      ∀ k, k ∈ m.tree.allNames → k ∈ ([] : List String) := by
    intro m hm hne; exact absurd (by rw [hded m hm]) hne
  have hsecs : ∀ m, m ∈ Hexital.dedupe [lateE] → m.tfName = lateE.tfName →
      lateE.tfName.getD defaultKey ≠ defaultKey → m.tfSecs = lateE.tfSecs := by
    intro m _ _ h; exact absurd rfl h
  -- the member is registered with its tree at the end of both runs (`member_twin`)
  have reg : ∀ (ops : List (TwinOp Int)) (H : Hexital Int),
      (∀ op, op ∈ ops → op.OK [] lateE.tree.name) → runHexital {} none lateCandles [lateE] ops = .ok H →
      ∃ hi, dlookup lateE.tree.name H.indicators = some hi ∧ hi.tree = lateE.tree := by
    intro ops H hops hrun
    obtain ⟨twin, _, ht, inv⟩ := member_twin (N := []) {} none lateCandles [lateE] lateE ops H hmem hsecs hoth
      (treeOK_nil _) hops hrun
    obtain ⟨hi, m, q1, q2, _⟩ := inv.observe
    exact ⟨hi, q1, q2.trans ht⟩
  have reg₁ := reg _ H₁ (by
    intro op hop
    simp only [lateOps₁, List.cons_append, List.nil_append, List.mem_cons, List.mem_nil_iff, or_false] at hop
    rcases hop with rfl | rfl <;> trivial) h₁
  have reg₂ := reg _ H₂ (by
    intro op hop
    simp only [List.nil_append, List.mem_cons, List.mem_nil_iff, or_false] at hop
    subst hop; trivial) h₂
  have := hfull (F := Int) {} none lateCandles [lateE] [lateE] lateE [] [] lateOps₁ [] H₁ H₂ hoth hoth
    (treeOK_nil _) (treeOK_nil _)
    (by
      intro op hop
      simp only [lateOps₁, List.mem_cons, List.mem_nil_iff, or_false] at hop
      subst hop; trivial)
    (by intro op hop; simp at hop)
    (by simp [lateOps₁])
    h₁ h₂ reg₁ reg₂ "EMA_2" (by decide +kernel) (readOK_nil _) (readOK_nil _)
  rw [columnOf_ok h₁, this, ← columnOf_ok h₂, col₂] at col₁
  revert col₁
  decide

end Witness

/-! ### non-vacuity: concrete Hexitals (toy carrier `Int`) on which every hypothesis of `presence_late` holds -/

section Examples

/-- the late member: RSI with its managed `RSI_2_data` series -/
def lateR : Member Int := { tree := mkTop (.rsi 2 "close") "RSI_2" 4, tfName := none, tfSecs := none }
/-- the others: SMA, and a Keltner channel (five keys per candle) -/
def lateS : Member Int := { tree := mkTop (.sma 2 "close") "SMA_2" 4, tfName := none, tfSecs := none }
def lateK : Member Int := { tree := mkTop (.kc 2 "close" (.int 2)) "KC_2" 4, tfName := none, tfSecs := none }
def lateN : List String := lateS.tree.allNames ++ lateK.tree.allNames

/-- world 1: `RSI_2` handed to the constructor -/
def lateW₁ : List (TwinOp Int) :=
  [.calculate none, .append [lateCandle 16, lateCandle 12], .purge (some "SMA_2"), .recalculate (some "RSI_2"),
   .append [lateCandle 18]]
/-- world 2: `RSI_2` added by `add_indicator` after two appends, other chunking, another member comes and goes -/
def lateW₂ : List (TwinOp Int) :=
  [.calculate none, .append [lateCandle 16], .add [lateK], .append [lateCandle 12], .add [lateR],
   .calculateIndex (some "SMA_2") 3, .append [lateCandle 18], .purge none, .remove (some "KC_2")]

theorem lateR_covered : CoveredTreeX (F := Int) "RSI_2" (.rsi 2 "close") :=
  .base _ (.rsi 2 "close" (by decide) ⟨by decide, by decide, by decide, by decide⟩ (by decide))

theorem dedupe_RS : Hexital.dedupe [lateR, lateS] = [lateR, lateS] := by
  simp [Hexital.dedupe, dset, lateR, lateS, mkTop, Ind.name]
theorem dedupe_S : Hexital.dedupe [lateS] = [lateS] := by simp [Hexital.dedupe, dset]
theorem dedupe_K : Hexital.dedupe [lateK] = [lateK] := by simp [Hexital.dedupe, dset]
theorem dedupe_R : Hexital.dedupe [lateR] = [lateR] := by simp [Hexital.dedupe, dset]

theorem lateS_other : lateS.tree.name ≠ lateR.tree.name ∧ ∀ k, k ∈ lateS.tree.allNames → k ∈ lateN := by
  decide +kernel
theorem lateK_other : lateK.tree.name ≠ lateR.tree.name ∧ ∀ k, k ∈ lateK.tree.allNames → k ∈ lateN := by
  decide +kernel

theorem lateW₁_ok : ∀ op, op ∈ lateW₁ → op.LateOK lateN lateR := by
  intro op hop
  simp only [lateW₁, List.mem_cons, List.mem_nil_iff, or_false] at hop
  rcases hop with rfl | rfl | rfl | rfl | rfl <;> trivial

theorem lateW₂_ok : ∀ op, op ∈ lateW₂ → op.LateOK lateN lateR := by
  intro op hop
  simp only [lateW₂, List.mem_cons, List.mem_nil_iff, or_false] at hop
  rcases hop with rfl | rfl | rfl | rfl | rfl | rfl | rfl | rfl | rfl
  · trivial
  · trivial
  · intro m hm; rw [dedupe_K] at hm; simp at hm; subst hm; exact Or.inr lateK_other
  · trivial
  · intro m hm; rw [dedupe_R] at hm; simp at hm; subst hm; exact Or.inl rfl
  · exact ⟨by simp, by decide +kernel⟩
  · trivial
  · trivial
  · show "KC_2" ≠ lateR.tree.name; decide +kernel

example :
    ∃ H₁ H₂, runHexital {} none lateCandles [lateR, lateS] (lateW₁ ++ [.calculate none]) = .ok H₁ ∧
      runHexital {} none lateCandles [lateS] (lateW₂ ++ [.calculate none]) = .ok H₂ ∧
      H₁.readingAsList "RSI_2" = H₂.readingAsList "RSI_2" ∧
      columnOf (.ok H₁) "RSI_2" = some [none, none, some 100, some 100, some 100, some 100, some 100, some 0, some 75] := by
  have hchk :
      isOk (runHexital {} none lateCandles [lateR, lateS] (lateW₁ ++ [.calculate none])) = true ∧
      isOk (runHexital {} none lateCandles [lateS] (lateW₂ ++ [.calculate none])) = true ∧
      columnOf (runHexital {} none lateCandles [lateR, lateS] (lateW₁ ++ [.calculate none])) "RSI_2"
        = some [none, none, some 100, some 100, some 100, some 100, some 100, some 0, some 75] ∧
      (match runHexital {} none lateCandles [lateR, lateS] (lateW₁ ++ [.calculate none]) with
        | .ok H => (dlookup "RSI_2" H.indicators).isSome | .error _ => false) = true ∧
      (match runHexital {} none lateCandles [lateS] (lateW₂ ++ [.calculate none]) with
        | .ok H => (dlookup "RSI_2" H.indicators).isSome | .error _ => false) = true := by
    decide +kernel
  obtain ⟨ok₁, ok₂, col, r₁, r₂⟩ := hchk
  obtain ⟨H₁, h₁⟩ := exists_of_isOk ok₁
  obtain ⟨H₂, h₂⟩ := exists_of_isOk ok₂
  rw [h₁] at r₁ col
  rw [h₂] at r₂
  obtain ⟨T, _⟩ := lateR_covered.spec 4
  refine ⟨H₁, H₂, h₁, h₂, ?_, col⟩
  refine (presence_late (MgrSpec.base Int) none none lateCandles [lateR, lateS] [lateS] lateR lateN lateN
    lateW₁ lateW₂ H₁ H₂ T rfl ?_ ?_ (treeOK_of_b (by decide +kernel)) (treeOK_of_b (by decide +kernel))
    lateW₁_ok lateW₂_ok (by rfl)
    (show ∀ c ∈ lateCandles ++ (TwinOp.chunks lateW₁).flatten, Plain c by decide +kernel) h₁ h₂ ?_ ?_).1 "RSI_2" (by decide +kernel)
    (by decide +kernel) (by decide +kernel)
  · intro m hm; rw [dedupe_RS] at hm; simp at hm
    rcases hm with rfl | rfl
    · exact Or.inl rfl
    · exact Or.inr lateS_other
  · intro m hm; rw [dedupe_S] at hm; simp at hm; subst hm; exact Or.inr lateS_other
  · exact Option.isSome_iff_exists.1 r₁
  · exact Option.isSome_iff_exists.1 r₂


/-- the same on a Hexital with its own two-minute timeframe and gap filling: one-minute stamped candles -/
def lateStamped (k : Nat) : Candle Int :=
  { lateCandle (10 + (k : Int) * 7 % 5) with ts := some (60 * (k : Int) + 60) }
def lateStream : List (Candle Int) := (List.range 6).map lateStamped
def lateT₁ : List (TwinOp Int) :=
  [.calculate none, .append [lateStamped 6, lateStamped 7], .purge (some "SMA_2"), .recalculate (some "RSI_2"),
   .append [lateStamped 8, lateStamped 9]]
def lateT₂ : List (TwinOp Int) :=
  [.calculate none, .append [lateStamped 6], .add [lateK], .append [lateStamped 7, lateStamped 8], .add [lateR],
   .calculateIndex (some "SMA_2") 1, .append [lateStamped 9], .purge none, .remove (some "KC_2")]

theorem lateT₁_ok : ∀ op, op ∈ lateT₁ → op.LateOK lateN lateR := by
  intro op hop
  simp only [lateT₁, List.mem_cons, List.mem_nil_iff, or_false] at hop
  rcases hop with rfl | rfl | rfl | rfl | rfl <;> trivial

theorem lateT₂_ok : ∀ op, op ∈ lateT₂ → op.LateOK lateN lateR := by
  intro op hop
  simp only [lateT₂, List.mem_cons, List.mem_nil_iff, or_false] at hop
  rcases hop with rfl | rfl | rfl | rfl | rfl | rfl | rfl | rfl | rfl
  · trivial
  · trivial
  · intro m hm; rw [dedupe_K] at hm; simp at hm; subst hm; exact Or.inr lateK_other
  · trivial
  · intro m hm; rw [dedupe_R] at hm; simp at hm; subst hm; exact Or.inl rfl
  · exact ⟨by simp, by decide +kernel⟩
  · trivial
  · trivial
  · show "KC_2" ≠ lateR.tree.name; decide +kernel

example :
    ∃ H₁ H₂, runHexital { tf := some 120, fill := true && (some (120 : Int)).isSome } (some "T2") lateStream
        [lateR, lateS] (lateT₁ ++ [.calculate none]) = .ok H₁ ∧
      runHexital { tf := some 120, fill := true && (some (120 : Int)).isSome } (some "T2") lateStream
        [lateS] (lateT₂ ++ [.calculate none]) = .ok H₂ ∧
      H₁.readingAsList "RSI_2" = H₂.readingAsList "RSI_2" ∧
      columnOf (.ok H₁) "RSI_2" = some [none, none, some 0, some 100, some 100] := by
  have hchk :
      isOk (runHexital { tf := some 120, fill := true && (some (120 : Int)).isSome } (some "T2") lateStream
        [lateR, lateS] (lateT₁ ++ [.calculate none])) = true ∧
      isOk (runHexital { tf := some 120, fill := true && (some (120 : Int)).isSome } (some "T2") lateStream
        [lateS] (lateT₂ ++ [.calculate none])) = true ∧
      columnOf (runHexital { tf := some 120, fill := true && (some (120 : Int)).isSome } (some "T2") lateStream
        [lateR, lateS] (lateT₁ ++ [.calculate none])) "RSI_2" = some [none, none, some 0, some 100, some 100] ∧
      (match runHexital { tf := some 120, fill := true && (some (120 : Int)).isSome } (some "T2") lateStream
          [lateR, lateS] (lateT₁ ++ [.calculate none]) with
        | .ok H => (dlookup "RSI_2" H.indicators).isSome | .error _ => false) = true ∧
      (match runHexital { tf := some 120, fill := true && (some (120 : Int)).isSome } (some "T2") lateStream
          [lateS] (lateT₂ ++ [.calculate none]) with
        | .ok H => (dlookup "RSI_2" H.indicators).isSome | .error _ => false) = true := by
    decide +kernel
  obtain ⟨ok₁, ok₂, col, r₁, r₂⟩ := hchk
  obtain ⟨H₁, h₁⟩ := exists_of_isOk ok₁
  obtain ⟨H₂, h₂⟩ := exists_of_isOk ok₂
  rw [h₁] at r₁ col
  rw [h₂] at r₂
  refine ⟨H₁, H₂, h₁, h₂, ?_, col⟩
  refine presence_late_covered (some 120) (by intro t ht; cases ht; decide) true (some "T2") (some "T2") lateStream
    [lateR, lateS] [lateS] lateR _ "RSI_2" 4 lateR_covered rfl rfl lateN lateN lateT₁ lateT₂ H₁ H₂ ?_ ?_
    (treeOK_of_b (by decide +kernel)) (treeOK_of_b (by decide +kernel)) lateT₁_ok lateT₂_ok (by rfl)
    ⟨by decide +kernel, by decide +kernel, by decide +kernel, by decide +kernel⟩ h₁ h₂
    (Option.isSome_iff_exists.1 r₁) (Option.isSome_iff_exists.1 r₂) "RSI_2" (by decide +kernel)
    (by decide +kernel) (by decide +kernel)
  · intro m hm; rw [dedupe_RS] at hm; simp at hm
    rcases hm with rfl | rfl
    · exact Or.inl rfl
    · exact Or.inr lateS_other
  · intro m hm; rw [dedupe_S] at hm; simp at hm; subst hm; exact Or.inr lateS_other

/-! ### the hypothesis "no lifespan" (any `MgrSpec`) cannot be dropped
With `candles_lifespan` old candles are trimmed, and a member added after the trim is seeded on the shortened list:
its readings DO depend on when it was added.  Same candles, same single member `EMA_2`, one minute apart, lifespan
three minutes; world 1 has it from the start, world 2 adds it after the appends. -/
def lateLife (k : Nat) : Candle Int :=
  { lateCandle ([10, 12, 11, 15, 14, 13, 17, 12].getD k 0) with ts := some (60 * (k : Int)) }

theorem late_add_lifespan_differs :
    columnOf (runHexital { lifespan := some 180 } none [] [lateE]
      ((List.range 8).map (fun k => TwinOp.append [lateLife k]) ++ [.calculate none])) "EMA_2"
      = some [some 12, some 12, some 12, some 12] ∧
    columnOf (runHexital { lifespan := some 180 } none [] []
      ((List.range 8).map (fun k => TwinOp.append [lateLife k]) ++ [.add [lateE]] ++ [.calculate none])) "EMA_2"
      = some [none, some 14, some 14, some 14] := by
  decide +kernel

end Examples
/-! ### what differs from `C13.presence_FULL`, and what is left

`presence_late` / `presence_late_covered` prove the conclusion of `presence_FULL` – and more: the two default managers
store the same readings under every name of `a`'s tree, and the column is THE row-major run over the fed stream
(`late_member_column`) – under these changes of the hypotheses:
 * NEEDED, the statement is false without them (`presence_FULL_counterexample`, `late_add_lifespan_differs`):
   - `calculate_index` is not aimed at `a` / at everything (`TwinOp.LateOK`); `presence_FULL` leaves all operations
     other than `add` / `remove` unconstrained and unrelated between the two programs;
   - members of the CONSTRUCTOR lists that carry `a`'s name are `a` (`hms₁`, `hms₂`: `m = a ∨ …`, as `presence_FULL`
     demands of `add` only): a different tree registered under `a`'s name first leaves its readings on the candles;
   - the configuration is one with an incremental manager spec (`MgrSpec`: base, timeframe, timeframe + fill) and the
     stream is well formed for it (`M.Ok`: raw candles; stamped and sorted for a timeframe) – in particular no
     `candles_lifespan`, under which a late member is seeded on the trimmed list;
 * WEAKER than `presence_FULL` asks: the chunks need not be the same, only their concatenation; at the end `a` need
   only be registered (that it is registered with its tree follows); the two Hexitals may differ in their timeframe name;
 * RESTRICTIONS of this file: `a` has no timeframe of its own (`hatf`), and its tree has a row-major spec (`TreeSpec`;
   all 27 shipped classes: `presence_late_covered`).
LEFT OPEN – `a` with its own timeframe.  Then `a` lives on a manager of its own that is CREATED when the first member
with that timeframe name is attached – by `add_indicator` from the default manager's candles at that moment
(`Hexital.attachRaw none`: handed over raw – `recover_clean_values`, `reset_candle` – unless the member's timeframe is
the Hexital's own); by the CONSTRUCTOR, since the library's repair, from the candles as given (`attachRaw (some init)`),
which is the case `Writes/Twin.lean` / `Writes/TwinTf.lean` (`members_all`) settle.  Needed in addition:
(i) the invariant must speak about two managers: "the manager under `a`'s key, once it exists, holds – up to `N` – a list
resumable over `M'.spec (stream)`; until then the default manager holds – up to entries that `reset` wipes – the stream
itself"; (ii) a lemma that creation commutes with feeding: `Manager.init cfg' (tasks cfg stream)` is `M'.spec stream`
when `cfg = {}` (immediate from `MgrSpec.init`), and for a Hexital with its own timeframe / fill / HA a composition law
"collapse of the collapsed = collapse" plus the effect of `recoverClean`/`reset` on converted candles (not available;
the memory of defects lists HA + member timeframe as broken in the library); (iii) `hsecs` of `C13.presence` (members
sharing the timeframe name share the timeframe).  The engine / locality part (`SelfStep`, `FeedStep`, `LateInv.step`) is
already generic in the manager key's configuration and carries over unchanged. -/

end Hex

#print axioms Hex.late_member_column
#print axioms Hex.presence_late
#print axioms Hex.presence_late_covered
#print axioms Hex.presence_FULL_counterexample
#print axioms Hex.late_add_lifespan_differs

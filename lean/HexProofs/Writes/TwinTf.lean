import HexProofs.Writes.PropsLib
import HexProofs.Manager2.HATf
import HexProofs.Manager2.TwinSched
import HexProofs.Manager2.TrimTf
import HexProofs.Manager2.HAFill
/-
C08, members WITH their own timeframe (`C08.members_FULL`).

`Writes/Twin.lean` (`member_twin`) already keeps ANY member – own timeframe or not – in step with a standalone
indicator over *the manager the member is attached to* (`twinManager`): for a member with a timeframe that is
`Manager.init {cfg with tf} (the default manager's candles at construction time, handed over raw)`, and every
later `Hexital.append` feeds every manager the caller's candles.  What was missing is the manager refinement

    HandsOverRaw :  twinManager cfg htf atf secs init = Manager.init {cfg with tf := secs} init

i.e. that this manager IS the manager of the plain standalone twin constructed from the caller's candles.

Proved here (every `F`):
  * `HandsOverRaw` when
      (a) the Hexital is constructed without candles – ANY Hexital-level timeframe / fill / Heikin-Ashi / lifespan
          (`handsOverRaw_nil`);
      (b) the Hexital has no timeframe of its own, the construction candles are pristine and its lifespan trims
          none of them at construction time – Heikin-Ashi or not: `recover_clean_values` gives the raw candles
          back (`handsOverRaw_rawDefault`, from `tasks_rawDefault`);
      (c) the member's timeframe is the Hexital's own and the manager's tasks are idempotent on the construction
          candles (`handsOverRaw_sameTf`); idempotence for timeframe alone, + Heikin-Ashi, + lifespan, + fill,
          + fill + Heikin-Ashi (`tasks_idem_*`, from the manager refinement libraries).
  * `member_standalone_tf`: `C08.member_standalone` for ANY member under `HandsOverRaw` – any program of
    `calculate / calculate_index / purge / recalculate / append / add_indicator / remove_indicator (of others)`.
  * `members_partial` / `members_rawAtAttach` / `members_attachOK`: the statement of `members_FULL` word for
    word, plus its presuppositions (no collision: `TreeOK`; well-formed `Member` records) and `HandsOverRaw` /
    (a)–(b) / (a)–(c).
  * `members_FULL_counterexample`: `members_FULL` AS STATED IS FALSE – a Hexital-level lifespan that trims at
    construction time hands the member manager a truncated bucket (replayed on the library).
Still open: a Hexital-level timeframe together with a DIFFERENT (coarser) member timeframe and non-empty
construction candles (needs `resample t2 (resample t1 s) = resample t2 s`, which holds only up to the
associativity of the volume sum – false for IEEE doubles, see the report); (c) with lifespan + fill /
lifespan + Heikin-Ashi (no idempotence lemma in the manager libraries).
-/
namespace Hex
variable {F : Type} [PyF F] {N : List String}

/-- a candle as the caller hands it over: never converted, no readings -/
structure Candle.Pristine (c : Candle F) : Prop where
  clean : c.clean = none
  inds : c.inds = []
  subs : c.subs = []
  tag : c.tag = false

/-- what `_validate_indicators` does to a copied candle before a new member manager collapses it -/
def Candle.handOver (c : Candle F) : Candle F := ({ c.recoverClean with clean := none } : Candle F).reset

omit [PyF F] in
theorem Candle.handOver_pristine (c : Candle F) (h : c.Pristine) : c.handOver = c := by
  obtain ⟨o, hh, l, cl, v, ts, inds, subs, tag, clean⟩ := c
  obtain ⟨h1, h2, h3, h4⟩ := h
  simp only at h1 h2 h3 h4
  subst h1 h2 h3 h4
  rfl

theorem Candle.handOver_haCandle (c : Candle F) (p : Option (Candle F)) (h : c.Pristine) :
    (haCandle c p).handOver = c := by
  obtain ⟨o, hh, l, cl, v, ts, inds, subs, tag, clean⟩ := c
  obtain ⟨h1, h2, h3, h4⟩ := h
  simp only at h1 h2 h3 h4
  subst h1 h2 h3 h4
  simp only [haCandle, Candle.handOver, Candle.recoverClean, Candle.reset]
  cases ts <;> rfl

theorem HaRel.map_handOver {B Z : List (Candle F)} (h : HaRel B Z) (hp : ∀ c ∈ B, c.Pristine) :
    Z.map Candle.handOver = B := by
  induction h with
  | nil => rfl
  | @cons b z B' Z' hbz _ ih =>
    obtain ⟨p, rfl⟩ := hbz
    rw [List.map_cons, Candle.handOver_haCandle b p (hp b (by simp)), ih (fun c hc => hp c (by simp [hc]))]

omit [PyF F] in
theorem trimCandles_none (cs : List (Candle F)) : trimCandles none cs = .ok cs := by
  unfold trimCandles; rfl

/-- a list with the same stamps as a list the trim leaves alone is left alone too -/
theorem trim_keeps_congr (life : Option Int) (cs cs' : List (Candle F)) (hts : cs'.map (·.ts) = cs.map (·.ts))
    (h : trimCandles life cs = .ok cs) : trimCandles life cs' = .ok cs' := by
  cases life with
  | none => exact trimCandles_none cs'
  | some l =>
    obtain ⟨_, _, h3⟩ := trim_congr_ts l cs cs' cs hts h
    simpa using h3

/-- **the default manager without a timeframe still holds the raw stream**: whatever it did to the
candles handed to the constructor (Heikin-Ashi conversion; a lifespan that trims nothing), handing its
candles over to a member manager (`recover_clean_values`, `clean_values = {}`, `reset_candle`) gives the
caller's candles back -/
theorem tasks_rawDefault (cfg : MgrCfg) (init : List (Candle F)) (htf : cfg.tf = none)
    (hp : ∀ c ∈ init, c.Pristine) (hkeep : trimCandles cfg.lifespan init = .ok init) :
    ∃ X, tasks cfg init = .ok X ∧ X.map Candle.handOver = init := by
  unfold tasks
  rw [htf]
  have hcol : collapseCandles none cfg.fill init = .ok init := by unfold collapseCandles; rfl
  rw [hcol]
  simp only [bind, Except.bind]
  by_cases hha : (cfg.ha && !init.isEmpty) = true
  · rw [if_pos hha]
    have hconv := convertCandles_resume [] init (by simp) (fun c hc => (hp c hc).tag)
    rw [List.nil_append] at hconv
    rw [hconv]
    obtain ⟨ext, he, hrel⟩ := haFold_rel init []
    rw [List.nil_append] at he
    simp only
    rw [he]
    exact ⟨ext, trim_keeps_congr _ init ext hrel.ts_eq hkeep, hrel.map_handOver hp⟩
  · rw [if_neg hha]
    exact ⟨init, hkeep, by
      rw [List.map_congr_left (fun c hc => Candle.handOver_pristine c (hp c hc))]; simp⟩

/-! ### the member manager at attach time = the standalone twin's manager -/

/-- **hand-over of the raw stream**: the manager a member with own timeframe `atf` / `secs` is attached to
when the Hexital is constructed from `init` is the manager of a standalone indicator with that timeframe
constructed from `init` -/
def HandsOverRaw (cfg : MgrCfg) (htf atf : Option String) (secs : Option Int) (init : List (Candle F)) : Prop :=
  twinManager cfg htf atf secs init = Manager.init { cfg with tf := secs } init

theorem tasks_nil (cfg : MgrCfg) : tasks cfg ([] : List (Candle F)) = .ok [] := by
  unfold tasks collapseCandles
  cases cfg.tf <;> cases cfg.lifespan <;> simp [bind, Except.bind, trimCandles]

/-- (a) a Hexital constructed WITHOUT candles (everything arrives through `append`): any Hexital-level
timeframe / fill / Heikin-Ashi / lifespan -/
theorem handsOverRaw_nil (cfg : MgrCfg) (htf atf : Option String) (secs : Option Int)
    (hkey : atf.getD defaultKey ≠ defaultKey) :
    HandsOverRaw (F := F) cfg htf atf secs [] := by
  unfold HandsOverRaw twinManager Manager.init
  rw [tasks_nil, tasks_nil]
  have hraw : memberRaw htf atf ({ cfg := cfg, candles := [] } : Manager F) = [] := by
    unfold memberRaw; split <;> rfl
  simp only [bind, Except.bind, pure, Except.pure, if_neg hkey, hraw, tasks_nil]

/-- (b) a Hexital WITHOUT a timeframe of its own, constructed from pristine candles none of which the
lifespan trims at construction time; Heikin-Ashi or not, fill flag or not -/
theorem handsOverRaw_rawDefault (cfg : MgrCfg) (htf atf : Option String) (secs : Option Int)
    (init : List (Candle F)) (hkey : atf.getD defaultKey ≠ defaultKey)
    (htf0 : cfg.tf = none) (hname : htf = none) (hp : ∀ c ∈ init, c.Pristine)
    (hkeep : trimCandles cfg.lifespan init = .ok init) :
    HandsOverRaw cfg htf atf secs init := by
  obtain ⟨X, hX, hmap⟩ := tasks_rawDefault cfg init htf0 hp hkeep
  unfold HandsOverRaw twinManager
  have hne : (atf == htf) = false := by
    subst hname
    cases atf with
    | none => exact absurd rfl hkey
    | some t => rfl
  show (do let dm ← Manager.init cfg init
           if atf.getD defaultKey = defaultKey then pure dm
           else Manager.init { cfg with tf := secs } (memberRaw htf atf dm)) = _
  unfold Manager.init
  rw [hX]
  simp only [bind, Except.bind, pure, Except.pure, if_neg hkey, memberRaw, hne, Bool.false_eq_true, if_false]
  have : X.map (fun c => ({ c.recoverClean with clean := none } : Candle F).reset) = init := hmap
  rw [this]

/-! ### `valid_indicators` against the list handed to the constructor -/

omit [PyF F] in
theorem Writes.mem_of_dlookup {α : Type} {k : String} {v : α} :
    ∀ {l : List (String × α)}, dlookup k l = some v → (k, v) ∈ l := by
  intro l
  induction l with
  | nil => intro h; simp at h
  | cons p r ih =>
    intro h
    obtain ⟨k', w⟩ := p
    by_cases e : k' = k
    · subst e; simp [dlookup] at h; subst h; simp
    · simp only [dlookup, e, if_false] at h
      exact List.mem_cons_of_mem _ (ih h)

omit [PyF F] in
/-- every entry of `valid_indicators` is one of the members handed over -/
theorem Hexital.dedupe_fold_sub (ms : List (Member F)) :
    ∀ (acc : List (String × Member F)) p, p ∈ ms.foldl (fun acc m => dset m.tree.name m acc) acc →
      p.2 ∈ ms ∨ p ∈ acc := by
  induction ms with
  | nil => intro acc p hp; exact Or.inr hp
  | cons x r ih =>
    intro acc p hp
    rw [List.foldl_cons] at hp
    rcases ih _ p hp with h | h
    · exact Or.inl (List.mem_cons_of_mem _ h)
    · obtain ⟨k, v⟩ := p
      rcases Writes.mem_dset h with e | e
      · cases e; exact Or.inl (by simp)
      · exact Or.inr e

omit [PyF F] in
theorem Hexital.dedupe_sub (members : List (Member F)) (m : Member F) (h : m ∈ Hexital.dedupe members) :
    m ∈ members := by
  unfold Hexital.dedupe at h
  obtain ⟨p, hp, rfl⟩ := List.mem_map.1 h
  rcases Hexital.dedupe_fold_sub members [] p hp with h | h
  · exact h
  · simp at h

omit [PyF F] in
/-- the entry under a name is one of the members with that name, or was there before -/
theorem Hexital.dedupe_fold_lookup (ms : List (Member F)) :
    ∀ (acc : List (String × Member F)) (n : String) (v : Member F),
      dlookup n (ms.foldl (fun acc m => dset m.tree.name m acc) acc) = some v →
      (v ∈ ms ∧ v.tree.name = n) ∨ dlookup n acc = some v := by
  induction ms with
  | nil => intro acc n v h; exact Or.inr h
  | cons x r ih =>
    intro acc n v h
    rw [List.foldl_cons] at h
    rcases ih _ n v h with h | h
    · exact Or.inl ⟨List.mem_cons_of_mem _ h.1, h.2⟩
    · rw [dlookup_dset] at h
      by_cases e : x.tree.name = n
      · simp only [e, if_true] at h; cases h; exact Or.inl ⟨by simp, e⟩
      · simp only [e, if_false] at h; exact Or.inr h

omit [PyF F] in
/-- every name handed over has an entry -/
theorem Hexital.dedupe_fold_has (ms : List (Member F)) :
    ∀ (acc : List (String × Member F)) (n : String),
      ((∃ m, m ∈ ms ∧ m.tree.name = n) ∨ (dlookup n acc).isSome = true) →
      (dlookup n (ms.foldl (fun acc m => dset m.tree.name m acc) acc)).isSome = true := by
  induction ms with
  | nil =>
    intro acc n h
    rcases h with ⟨m, hm, _⟩ | h
    · simp at hm
    · exact h
  | cons x r ih =>
    intro acc n h
    rw [List.foldl_cons]
    apply ih
    by_cases e : x.tree.name = n
    · right; rw [dlookup_dset]; simp [e]
    · rcases h with ⟨m, hm, hn⟩ | h
      · rcases List.mem_cons.1 hm with e' | e'
        · subst e'; exact absurd hn e
        · exact Or.inl ⟨m, e', hn⟩
      · right; rw [dlookup_dset]; simp only [e, if_false]; exact h

omit [PyF F] in
/-- a member whose name is not shared by a DIFFERENT member of the list is an entry of `valid_indicators` -/
theorem Hexital.mem_dedupe_of_unique (members : List (Member F)) (mem : Member F) (hmem : mem ∈ members)
    (huniq : ∀ m' ∈ members, m'.tree.name = mem.tree.name → m' = mem) : mem ∈ Hexital.dedupe members := by
  unfold Hexital.dedupe
  have hhas := Hexital.dedupe_fold_has members [] mem.tree.name (Or.inl ⟨mem, hmem, rfl⟩)
  cases hl : dlookup mem.tree.name (members.foldl (fun acc m => dset m.tree.name m acc) []) with
  | none => rw [hl] at hhas; simp at hhas
  | some v =>
    rcases Hexital.dedupe_fold_lookup members [] _ v hl with h | h
    · have := huniq v h.1 h.2
      subst this
      exact List.mem_map.2 ⟨_, Writes.mem_of_dlookup hl, rfl⟩
    · simp at h

/-! ### the member with its own timeframe and its standalone twin -/

/-- the effective configuration of a member: the Hexital's, with the member's own timeframe if it has one -/
def Member.effCfg (a : Member F) (cfg : MgrCfg) : MgrCfg :=
  match a.tfName with
  | some _ => { cfg with tf := a.tfSecs }
  | none => cfg

/-- under `HandsOverRaw` the twin of `Writes/Twin.lean` (a standalone indicator over the manager the member
is attached to) IS the plain standalone indicator with the member's effective configuration -/
theorem twinInit_eq_init (a : Member F) (cfg : MgrCfg) (htf : Option String) (init : List (Candle F))
    (hraw : a.tfName ≠ none → HandsOverRaw cfg htf a.tfName a.tfSecs init) :
    twinInit a cfg htf init = IndState.init a.tree (a.effCfg cfg) init := by
  cases hn : a.tfName with
  | none =>
    rw [twinInit_of_none a hn]
    unfold Member.effCfg; rw [hn]
  | some t =>
    have h := hraw (by rw [hn]; simp)
    unfold HandsOverRaw at h
    unfold twinInit IndState.init Member.effCfg
    rw [h, hn]

/-- **A member WITH its own timeframe behaves exactly like its standalone twin fed the raw stream.**
As `member_standalone`, for ANY member: the twin is the standalone indicator with the member's tree and
effective configuration (`cfg` with the member's timeframe) constructed from the same candles and driven with
the same program.  `hraw` (only needed for a member with a timeframe) says that the default manager still
holds the raw stream when the member manager is created – see `handsOverRaw_nil`, `handsOverRaw_rawDefault`. -/
theorem member_standalone_tf (cfg : MgrCfg) (tf : Option String) (init : List (Candle F))
    (members : List (Member F)) (a : Member F) (N : List String) (ops : List (TwinOp F)) (H : Hexital F)
    (ha : a ∈ Hexital.dedupe members)
    (hsecs : ∀ m, m ∈ Hexital.dedupe members → m.tfName = a.tfName →
      a.tfName.getD defaultKey ≠ defaultKey → m.tfSecs = a.tfSecs)
    (hraw : a.tfName ≠ none → HandsOverRaw cfg tf a.tfName a.tfSecs init)
    (hoth : ∀ m, m ∈ Hexital.dedupe members → m.tree.name ≠ a.tree.name → ∀ k, k ∈ m.tree.allNames → k ∈ N)
    (hok : TreeOK N a.tree) (hops : ∀ op, op ∈ ops → op.OK N a.tree.name)
    (hrun : runHexital cfg tf init members ops = .ok H) :
    ∃ twin, (do let s ← IndState.init a.tree (a.effCfg cfg) init
                ops.foldlM (TwinOp.runInd a.tree.name) s) = .ok twin ∧
      (∃ hi m, dlookup a.tree.name H.indicators = some hi ∧ hi.tree = a.tree ∧
        dlookup hi.mgrKey H.managers = some m ∧ m.cfg = twin.mgr.cfg ∧
        m.candles.map Candle.core = twin.mgr.candles.map Candle.core ∧
        ∀ k, k ∈ a.tree.allNames → storedUnder k m.candles = storedUnder k twin.mgr.candles) ∧
      (∀ name, (splitDot name).headD "" = a.tree.name → readOK N name = true →
        H.readingAsList name = .ok (twin.asList (some name))) := by
  obtain ⟨twin, hrun', ht, inv⟩ := member_twin cfg tf init members a ops H ha
    hsecs hoth hok hops hrun
  unfold runTwin at hrun'
  rw [twinInit_eq_init a cfg tf init hraw] at hrun'
  refine ⟨twin, hrun', ?_, fun name hp hr => inv.column name hp hr⟩
  obtain ⟨hi, m, h1, h2, h3, h4, h5, h6⟩ := inv.readings (ht ▸ hok)
  exact ⟨hi, m, h1, h2.trans ht, h3, h4, h5, fun k hk => h6 k (ht ▸ hk)⟩

/-! ### the shape of `C08.members_FULL`: construct, calculate, append chunk by chunk -/

/-- the program of `members_FULL` -/
def schedOps (chunks : List (List (Candle F))) : List (TwinOp F) :=
  .calculate none :: chunks.map .append

omit [PyF F] in
theorem schedOps_ok (chunks : List (List (Candle F))) (nm : String) :
    ∀ op, op ∈ schedOps chunks → op.OK N nm := by
  intro op hop
  rcases List.mem_cons.1 hop with e | e
  · subst e; trivial
  · obtain ⟨ch, _, rfl⟩ := List.mem_map.1 e; trivial

theorem schedOps_runHex (chunks : List (List (Candle F))) (h : Hexital F) :
    (schedOps chunks).foldlM TwinOp.runHex h = (do
      let h ← h.calculate none
      chunks.foldlM (fun (h : Hexital F) ch => h.append ch) h) := by
  unfold schedOps
  rw [List.foldlM_cons]
  simp only [List.foldlM_map]
  rfl

theorem schedOps_runInd (chunks : List (List (Candle F))) (nm : String) (s : IndState F) :
    (schedOps chunks).foldlM (TwinOp.runInd nm) s = (do
      let s ← s.calculate
      chunks.foldlM (fun (s : IndState F) ch => s.append ch) s) := by
  unfold schedOps
  rw [List.foldlM_cons]
  simp only [List.foldlM_map]
  rfl

/-- **`C08.members_FULL` under its presuppositions** (same statement, same conclusion; the added hypotheses are
the four marked lines).  For every Hexital configuration, member set (any mix of timeframes), stream and
append schedule, each member's manager holds the same candles (OHLCV, timestamps) and, under the member's
names, the same readings as a standalone indicator with the member's effective configuration constructed from
the same initial candles and fed the same chunks. -/
theorem members_partial (cfg : MgrCfg) (tfName : Option String) (members : List (Member F))
    (init : List (Candle F)) (chunks : List (List (Candle F))) (mem : Member F) (h : Hexital F)
    (twin : IndState F) (N : List String)
    (hmem : mem ∈ members) (huniq : ∀ m' ∈ members, m'.tree.name = mem.tree.name → m' = mem)
    -- (1) no collision / no input dependency (what the property presupposes; as in `member_standalone`)
    (hoth : ∀ m, m ∈ members → m.tree.name ≠ mem.tree.name → ∀ k, k ∈ m.tree.allNames → k ∈ N)
    (hok : TreeOK N mem.tree)
    -- (2) members sharing the member's timeframe NAME share its timeframe (true of every parsed timeframe)
    (hsecs : ∀ m, m ∈ members → m.tfName = mem.tfName → mem.tfName.getD defaultKey ≠ defaultKey →
      m.tfSecs = mem.tfSecs)
    -- (3) the default manager at construction time still holds the raw stream
    (hraw : mem.tfName ≠ none → HandsOverRaw cfg tfName mem.tfName mem.tfSecs init)
    (hrun : (do let h ← Hexital.init cfg tfName init members
                let h ← h.calculate none
                chunks.foldlM (fun (h : Hexital F) ch => h.append ch) h) = .ok h)
    (htwin : (do let s ← IndState.init mem.tree (match mem.tfName with
                                                   | some _ => { cfg with tf := mem.tfSecs }
                                                   | none => cfg) init
                 let s ← s.calculate
                 chunks.foldlM (fun (s : IndState F) ch => s.append ch) s) = .ok twin) :
    ∃ hi m, dlookup mem.tree.name h.indicators = some hi ∧ dlookup hi.mgrKey h.managers = some m ∧
      m.candles.map Candle.core = twin.mgr.candles.map Candle.core ∧
      ∀ k, k ∈ mem.tree.allNames →
        m.candles.map (fun c => (dlookup k c.inds, dlookup k c.subs)) =
        twin.mgr.candles.map (fun c => (dlookup k c.inds, dlookup k c.subs)) := by
  have hrun' : runHexital cfg tfName init members (schedOps chunks) = .ok h := by
    unfold runHexital
    rw [← hrun]
    cases Hexital.init cfg tfName init members with
    | error e => rfl
    | ok h0 => exact schedOps_runHex chunks h0
  obtain ⟨twin', ht', ⟨hi, m, h1, _, h3, _, h5, h6⟩, _⟩ :=
    member_standalone_tf cfg tfName init members mem N (schedOps chunks) h
      (Hexital.mem_dedupe_of_unique members mem hmem huniq)
      (fun m hm => hsecs m (Hexital.dedupe_sub members m hm)) hraw
      (fun m hm => hoth m (Hexital.dedupe_sub members m hm)) hok (schedOps_ok chunks _) hrun'
  have hsame : twin' = twin := by
    have e : (do let s ← IndState.init mem.tree (mem.effCfg cfg) init
                 (schedOps chunks).foldlM (TwinOp.runInd mem.tree.name) s) = .ok twin := by
      rw [← htwin]
      show _ = (do let s ← IndState.init mem.tree (mem.effCfg cfg) init
                   let s ← s.calculate
                   chunks.foldlM (fun (s : IndState F) ch => s.append ch) s)
      cases IndState.init mem.tree (mem.effCfg cfg) init with
      | error e => rfl
      | ok s0 => exact schedOps_runInd chunks _ s0
    rw [e] at ht'
    cases ht'; rfl
  subst hsame
  exact ⟨hi, m, h1, h3, h5, h6⟩

/-! ### `members_FULL` as stated is FALSE: a lifespan that trims at construction time

A Hexital with `candles_lifespan = 150 s` and no timeframe, constructed from six one-minute candles stamped
60 … 360 s, with one member `SMA_2` on `T2`.  The default manager trims the raw candles to the stamps
≥ 360 − 150 = 210, i.e. 240, 300, 360, BEFORE the member manager collapses them: the member's bucket
(120, 240] is built from the candle 240 alone (volume 10), the standalone twin's from 180 and 240 (volume 20),
and both survive the twin's own trim (240 ≥ 360 − 150).  Replayed on the library (see the report). -/

/-- the statement of `C08.members_FULL`, verbatim -/
def MembersFullStatement : Prop :=
  ∀ {F : Type} [PyF F] (cfg : MgrCfg) (tfName : Option String) (members : List (Member F))
    (init : List (Candle F)) (chunks : List (List (Candle F))) (mem : Member F) (h : Hexital F)
    (twin : IndState F),
    mem ∈ members → (∀ m' ∈ members, m'.tree.name = mem.tree.name → m' = mem) →
    (do let h ← Hexital.init cfg tfName init members
        let h ← h.calculate none
        chunks.foldlM (fun (h : Hexital F) ch => h.append ch) h) = .ok h →
    (do let s ← IndState.init mem.tree (match mem.tfName with
                                          | some _ => { cfg with tf := mem.tfSecs }
                                          | none => cfg) init
        let s ← s.calculate
        chunks.foldlM (fun (s : IndState F) ch => s.append ch) s) = .ok twin →
    ∃ hi m, dlookup mem.tree.name h.indicators = some hi ∧ dlookup hi.mgrKey h.managers = some m ∧
      m.candles.map Candle.core = twin.mgr.candles.map Candle.core ∧
      ∀ k, k ∈ mem.tree.allNames →
        m.candles.map (fun c => (dlookup k c.inds, dlookup k c.subs)) =
        twin.mgr.candles.map (fun c => (dlookup k c.inds, dlookup k c.subs))

namespace TwinTfCx

def cfg : MgrCfg := { lifespan := some 150 }
def mem : Member Int := { tree := mkTop (.sma 2 "close") "SMA_2_T2" 4, tfName := some "T2", tfSecs := some 120 }
def candle (k : Int) : Candle Int :=
  { o := .int (10 + k), h := .int (12 + k), l := .int (9 + k), c := .int (11 + k), v := .int 10, ts := some (60 * k) }
def init : List (Candle Int) := [candle 1, candle 2, candle 3, candle 4, candle 5, candle 6]

def hex : PyM (Hexital Int) := do
  let h ← Hexital.init cfg none init [mem]
  let h ← h.calculate none
  ([] : List (List (Candle Int))).foldlM (fun (h : Hexital Int) ch => h.append ch) h

def twin : PyM (IndState Int) := do
  let s ← IndState.init mem.tree (match mem.tfName with
                                   | some _ => { cfg with tf := mem.tfSecs }
                                   | none => cfg) init
  let s ← s.calculate
  ([] : List (List (Candle Int))).foldlM (fun (s : IndState Int) ch => s.append ch) s

/-- the volumes, read off the `core` of the candles -/
def vols (cores : List (Num Int × Num Int × Num Int × Num Int × Num Int × Option Int × Bool × Option (Clean Int))) :
    List (Option Int) :=
  cores.map fun p => match p.2.2.2.2.1 with
    | .int n => some n
    | _ => none

/-- both runs succeed; the member's buckets carry the volumes 10, 20, the twin's 20, 20 -/
theorem facts : (match hex, twin with
    | .ok h, .ok t =>
      (match dlookup "SMA_2_T2" h.indicators with
       | some hi =>
         (match dlookup hi.mgrKey h.managers with
          | some m => vols (m.candles.map Candle.core) == [some 10, some 20] &&
                      vols (t.mgr.candles.map Candle.core) == [some 20, some 20]
          | none => false)
       | none => false)
    | _, _ => false) = true := by decide +kernel

end TwinTfCx

/-- **`members_FULL` does not hold as stated** (a Hexital-level lifespan that trims at construction time) -/
theorem members_FULL_counterexample : ¬ MembersFullStatement := by
  intro hF
  have hf := TwinTfCx.facts
  cases hh : TwinTfCx.hex with
  | error e => rw [hh] at hf; cases hf
  | ok h =>
    cases ht : TwinTfCx.twin with
    | error e => rw [hh, ht] at hf; cases hf
    | ok t =>
      rw [hh, ht] at hf
      obtain ⟨hi, m, h1, h2, h3, _⟩ := @hF Int _ TwinTfCx.cfg none [TwinTfCx.mem] TwinTfCx.init [] TwinTfCx.mem h t
        (by simp) (by intro m' hm' _; simpa using hm') hh ht
      have h1' : dlookup "SMA_2_T2" h.indicators = some hi := h1
      simp only [h1', h2, h3] at hf
      revert hf
      generalize TwinTfCx.vols (t.mgr.candles.map Candle.core) = l
      intro hf
      simp only [Bool.and_eq_true, beq_iff_eq] at hf
      obtain ⟨e1, e2⟩ := hf
      rw [e1] at e2
      exact absurd e2 (by decide)

/-! ### decidable forms of the hypotheses -/

omit [PyF F] in
def Candle.pristineb (c : Candle F) : Bool := c.clean.isNone && c.inds.isEmpty && c.subs.isEmpty && !c.tag

omit [PyF F] in
theorem Candle.pristine_of_b (cs : List (Candle F)) (h : cs.all Candle.pristineb = true) : ∀ c ∈ cs, c.Pristine := by
  intro c hc
  have := List.all_eq_true.1 h c hc
  simp only [Candle.pristineb, Bool.and_eq_true, Option.isNone_iff_eq_none, List.isEmpty_iff,
    Bool.not_eq_true'] at this
  exact ⟨this.1.1.1, this.1.1.2, this.1.2, this.2⟩

/-- the trim pops nothing (decidable: the result is as long as the argument) -/
def trimKeepsb (life : Option Int) (cs : List (Candle F)) : Bool :=
  match trimCandles life cs with
  | .ok r => r.length == cs.length
  | .error _ => false

theorem trim_keeps_of_b (life : Option Int) (cs : List (Candle F)) (h : trimKeepsb life cs = true) :
    trimCandles life cs = .ok cs := by
  unfold trimKeepsb at h
  cases hr : trimCandles life cs with
  | error e => rw [hr] at h; cases h
  | ok r =>
    rw [hr] at h
    obtain ⟨m, hm, hle⟩ := trim_is_drop life cs r hr
    have hlen : r.length = cs.length := by simpa using h
    have : m = 0 ∨ cs = [] := by
      rw [hm, List.length_drop] at hlen
      by_cases h0 : m = 0
      · exact Or.inl h0
      · right; apply List.eq_nil_of_length_eq_zero; omega
    rcases this with e | e
    · subst e; rw [hm]; rfl
    · subst e; rw [hm]; simp

/-! ### (c) a member whose timeframe IS the Hexital's: the member manager re-runs the default manager's tasks
on their own output -/

/-- the member's timeframe is the Hexital's (same name, same seconds): handing over the default manager's
PROCESSED candles is harmless as soon as the manager's tasks are idempotent on them -/
theorem handsOverRaw_sameTf (cfg : MgrCfg) (name : String) (init : List (Candle F))
    (hidem : ∀ X, tasks cfg init = .ok X → tasks cfg X = .ok X) :
    HandsOverRaw cfg (some name) (some name) cfg.tf init := by
  unfold HandsOverRaw twinManager
  have hcfg : ({ cfg with tf := cfg.tf } : MgrCfg) = cfg := rfl
  rw [hcfg]
  unfold Manager.init
  cases hX : tasks cfg init with
  | error e =>
    simp only [bind, Except.bind]
  | ok X =>
    simp only [bind, Except.bind, pure, Except.pure, memberRaw, beq_self_eq_true, if_true, hidem X hX]
    split <;> rfl

theorem tasks_plainTf (cfg : MgrCfg) (tf : Int) (h1 : cfg.tf = some tf) (h2 : cfg.fill = false)
    (h3 : cfg.ha = false) (h4 : cfg.lifespan = none) (cs : List (Candle F)) :
    tasks cfg cs = collapseCandles (some tf) false cs := by
  unfold tasks
  rw [h1, h2, h3, h4]
  cases collapseCandles (some tf) false cs <;> simp [bind, Except.bind, trimCandles_none]

/-- plain timeframe (no fill, no conversion, no lifespan) -/
theorem tasks_idem_plainTf (cfg : MgrCfg) (tf : Int) (htf : 0 < tf) (h1 : cfg.tf = some tf) (h2 : cfg.fill = false)
    (h3 : cfg.ha = false) (h4 : cfg.lifespan = none) (init : List (Candle F)) (hraw : RawBk init) :
    ∀ X, tasks cfg init = .ok X → tasks cfg X = .ok X := by
  intro X hX
  rw [tasks_plainTf cfg tf h1 h2 h3 h4] at hX ⊢
  have hm : LabelsMono tf init := labelsMono_of_sorted tf htf init hraw.sorted
  have e1 := collapse_resample_append tf htf [] init (by simpa using hraw.stamped)
    (by simpa using hraw.cleanOk tf) (by simpa using hm)
  have e2 := collapse_resample_append tf htf init [] (by simpa using hraw.stamped)
    (by simpa using hraw.cleanOk tf) (by simpa using hm)
  simp only [resample, resampleR, List.foldl_nil, List.reverse_nil, List.nil_append, List.append_nil] at e1 e2
  rw [e1] at hX
  cases hX
  exact e2

/-- timeframe + Heikin-Ashi (no fill, no lifespan) -/
theorem tasks_idem_tfHA (cfg : MgrCfg) (tf : Int) (htf : 0 < tf) (h1 : cfg.tf = some tf) (h2 : cfg.fill = false)
    (h3 : cfg.ha = true) (h4 : cfg.lifespan = none) (init : List (Candle F)) (hraw : RawHA init) :
    ∀ X, tasks cfg init = .ok X → tasks cfg X = .ok X := by
  have hcfg : cfg = cfgTfHA tf := by
    obtain ⟨a, b, c, d⟩ := cfg
    simp only at h1 h2 h3 h4
    subst h1 h2 h3 h4
    rfl
  subst hcfg
  intro X hX
  have e1 := tasks_tf_ha_append tf htf [] init (by simpa using hraw)
  have e2 := tasks_tf_ha_append tf htf init [] (by simpa using hraw)
  simp only [resample, resampleR, List.foldl_nil, List.reverse_nil, haSpec_nil, List.nil_append,
    List.append_nil] at e1 e2
  rw [e1] at hX
  cases hX
  exact e2

/-- timeframe + lifespan (no fill, no conversion) -/
theorem tasks_idem_tfLife (cfg : MgrCfg) (tf life : Int) (htf : 0 < tf) (hlife : 0 ≤ life)
    (h1 : cfg.tf = some tf) (h2 : cfg.fill = false) (h3 : cfg.ha = false) (h4 : cfg.lifespan = some life)
    (init : List (Candle F)) (hraw : RawBk init) :
    ∀ X, tasks cfg init = .ok X → tasks cfg X = .ok X := by
  have hcfg : cfg = cfgTfLife tf life := by
    obtain ⟨a, b, c, d⟩ := cfg
    simp only at h1 h2 h3 h4
    subst h1 h2 h3 h4
    rfl
  subst hcfg
  intro X hX
  obtain ⟨n1, e1, hn1, _⟩ := tasks_tf_life_append tf htf life hlife [] init (by simpa using hraw) 0 (Or.inl rfl)
  simp only [resample, resampleR, List.foldl_nil, List.reverse_nil, List.filter_nil, List.nil_append] at e1 hn1
  rw [e1] at hX
  cases hX
  by_cases hnil : init = []
  · subst hnil
    simp only [List.foldl_nil, List.reverse_nil, List.filter_nil]
    exact tasks_nil _
  · have hn1' : (resample tf init).getLast?.bind (·.ts) = some n1 := by
      rcases hn1 with h | h
      · exact absurd h hnil
      · exact h
    obtain ⟨n2, e2, hn2, _⟩ := tasks_tf_life_append tf htf life hlife init [] (by simpa using hraw) n1 (Or.inr hn1')
    simp only [List.append_nil] at e2 hn2
    have : n2 = n1 := by
      rcases hn2 with h | h
      · exact absurd h hnil
      · rw [hn1'] at h; cases h; rfl
    subst this
    exact e2

/-- re-collapsing an in-order bucket list gives it back -/
theorem collapse_bucketed_self (tf : Int) (htf : 0 < tf) (Z : List (Candle F)) (hb : Bucketed tf Z)
    (hc : ∀ c ∈ Z, CleanOk tf c) : collapseCandles (some tf) false Z = .ok Z := by
  have hlab : labels tf Z = Z.filterMap (·.ts) := by
    unfold labels
    apply filterMap_congr'
    intro a ha
    obtain ⟨t, ht, hal⟩ := hb.stamped a ha
    simp [ht, (label_on tf t hal).1]
  have hmono : LabelsMono tf Z := by
    unfold LabelsMono; rw [hlab]; exact hb.incr.imp (fun h => le_of_lt h)
  rw [collapse_eq_resample tf htf Z
    (by intro c hc'; obtain ⟨t, ht, _⟩ := hb.stamped c (List.mem_of_mem_head? hc'); simp [ht]) hc hmono]
  have := resampleR_reverse_self tf Z.reverse (by simpa using hb.reverseR)
  simp only [List.reverse_reverse] at this
  simp [resample, this]

/-- timeframe + gap filling (no conversion, no lifespan) -/
theorem tasks_idem_tfFill (cfg : MgrCfg) (tf : Int) (htf : 0 < tf) (h1 : cfg.tf = some tf) (h2 : cfg.fill = true)
    (h3 : cfg.ha = false) (h4 : cfg.lifespan = none) (init : List (Candle F)) (hraw : RawTf init) :
    ∀ X, tasks cfg init = .ok X → tasks cfg X = .ok X := by
  have hcfg : cfg = cfgFill tf := by
    obtain ⟨a, b, c, d⟩ := cfg
    simp only at h1 h2 h3 h4
    subst h1 h2 h3 h4
    rfl
  subst hcfg
  intro X hX
  obtain ⟨Z, hZ⟩ := filledOf tf htf init hraw
  rw [tasks_fill_raw tf htf init Z hraw hZ] at hX
  have hXZ : Z = X := Except.ok.inj hX
  subst hXZ
  rw [tasks_cfgFill, collapse_fill_eq tf Z
    (by intro c hc; obtain ⟨t, ht, _⟩ := hZ.bucketed.stamped c (List.mem_of_mem_head? hc); simp [ht]),
    collapse_bucketed_self tf htf Z hZ.bucketed hZ.cleanOk]
  exact fillMissing_contiguous tf htf Z hZ.contig

/-- timeframe + gap filling + Heikin-Ashi (no lifespan) -/
theorem tasks_idem_tfFillHA (cfg : MgrCfg) (tf : Int) (htf : 0 < tf) (h1 : cfg.tf = some tf) (h2 : cfg.fill = true)
    (h3 : cfg.ha = true) (h4 : cfg.lifespan = none) (init : List (Candle F)) (hraw : RawTf init)
    (htag : ∀ c ∈ init, c.tag = false) :
    ∀ X, tasks cfg init = .ok X → tasks cfg X = .ok X := by
  have hcfg : cfg = cfgFillHA tf := by
    obtain ⟨a, b, c, d⟩ := cfg
    simp only at h1 h2 h3 h4
    subst h1 h2 h3 h4
    rfl
  subst hcfg
  intro X hX
  obtain ⟨Z0, hZ0⟩ := filledOf tf htf ([] : List (Candle F)) ⟨by simp, by simp, by simp, by simp⟩
  have hnil := filledOf_nil tf Z0 hZ0
  subst hnil
  obtain ⟨Z1, hZ1, e1⟩ := tasks_fill_ha_append tf htf [] init [] (by simpa using hraw) (by simpa using htag) hZ0
  simp only [haSpec_nil, List.nil_append] at e1 hZ1
  rw [e1] at hX
  cases hX
  obtain ⟨Z2, hZ2, e2⟩ := tasks_fill_ha_append tf htf init [] Z1 (by simpa using hraw) (by simpa using htag) hZ1
  simp only [List.append_nil] at e2 hZ2
  have : Z2 = Z1 := by rw [← hZ2.spec_eq, ← hZ1.spec_eq]
  rw [this] at e2
  exact e2

/-! ### the presupposition of the C08 oracle, spelt out -/

/-- the default manager still holds the raw stream when the member managers are created: the Hexital is
constructed without candles (everything arrives through `append`, ANY Hexital-level settings), or it has no
timeframe of its own, is constructed from pristine candles and its lifespan trims none of them at construction
time (Heikin-Ashi or not) -/
inductive RawAtAttach (cfg : MgrCfg) (htf : Option String) (init : List (Candle F)) : Prop
  | empty (h : init = [])
  | raw (htf0 : cfg.tf = none) (hname : htf = none) (hp : ∀ c ∈ init, c.Pristine)
      (hkeep : trimCandles cfg.lifespan init = .ok init)

theorem RawAtAttach.handsOverRaw {cfg : MgrCfg} {htf : Option String} {init : List (Candle F)}
    (h : RawAtAttach cfg htf init) (atf : Option String) (secs : Option Int)
    (hkey : atf.getD defaultKey ≠ defaultKey) : HandsOverRaw cfg htf atf secs init := by
  cases h with
  | empty h => subst h; exact handsOverRaw_nil cfg htf atf secs hkey
  | raw htf0 hname hp hkeep => exact handsOverRaw_rawDefault cfg htf atf secs init hkey htf0 hname hp hkeep

omit [PyF F] in
theorem Writes.getD_ne_default {atf : Option String} (h1 : atf ≠ none) (h2 : atf ≠ some defaultKey) :
    atf.getD defaultKey ≠ defaultKey := by
  cases atf with
  | none => exact absurd rfl h1
  | some t => intro e; exact h2 (by simpa using e)

/-- **`C08.members_FULL` on the domain of the C08 oracle.**  Any Hexital configuration, any member set (any mix
of timeframes, shared or not), any append schedule: each member ends with the candles and readings of the
standalone indicator with its effective configuration fed the same stream – provided
(1) no collision / input dependency between the member and the others (`TreeOK`, as in `member_standalone`),
(2) the `Member` records are well formed (a timeframe name determines its seconds and is not the manager key
"default"), and (3) the default manager still holds the raw stream when the member managers are created
(`RawAtAttach`).  (3) cannot be dropped: `members_FULL_counterexample`. -/
theorem members_rawAtAttach (cfg : MgrCfg) (tfName : Option String) (members : List (Member F))
    (init : List (Candle F)) (chunks : List (List (Candle F))) (mem : Member F) (h : Hexital F)
    (twin : IndState F) (N : List String)
    (hmem : mem ∈ members) (huniq : ∀ m' ∈ members, m'.tree.name = mem.tree.name → m' = mem)
    (hoth : ∀ m, m ∈ members → m.tree.name ≠ mem.tree.name → ∀ k, k ∈ m.tree.allNames → k ∈ N)
    (hok : TreeOK N mem.tree)
    (hsecs : ∀ m, m ∈ members → m.tfName = mem.tfName → m.tfSecs = mem.tfSecs)
    (hkey : mem.tfName ≠ some defaultKey)
    (hraw : RawAtAttach cfg tfName init)
    (hrun : (do let h ← Hexital.init cfg tfName init members
                let h ← h.calculate none
                chunks.foldlM (fun (h : Hexital F) ch => h.append ch) h) = .ok h)
    (htwin : (do let s ← IndState.init mem.tree (match mem.tfName with
                                                   | some _ => { cfg with tf := mem.tfSecs }
                                                   | none => cfg) init
                 let s ← s.calculate
                 chunks.foldlM (fun (s : IndState F) ch => s.append ch) s) = .ok twin) :
    ∃ hi m, dlookup mem.tree.name h.indicators = some hi ∧ dlookup hi.mgrKey h.managers = some m ∧
      m.candles.map Candle.core = twin.mgr.candles.map Candle.core ∧
      ∀ k, k ∈ mem.tree.allNames →
        m.candles.map (fun c => (dlookup k c.inds, dlookup k c.subs)) =
        twin.mgr.candles.map (fun c => (dlookup k c.inds, dlookup k c.subs)) :=
  members_partial cfg tfName members init chunks mem h twin N hmem huniq hoth hok
    (fun m hm he _ => hsecs m hm he)
    (fun hn => hraw.handsOverRaw mem.tfName mem.tfSecs (Writes.getD_ne_default hn hkey)) hrun htwin

/-! ### all proved cases in one statement -/

/-- the cases in which the member `a`'s manager, created from the default manager's candles at construction
time, is the manager of the standalone twin constructed from the caller's candles -/
inductive AttachOK (cfg : MgrCfg) (htf : Option String) (init : List (Candle F)) (a : Member F) : Prop
  /-- no timeframe of its own: the member lives on the default manager (`member_standalone`) -/
  | noTf (h : a.tfName = none)
  /-- the default manager still holds the raw stream (`RawAtAttach`) -/
  | raw (hkey : a.tfName ≠ some defaultKey) (h : RawAtAttach cfg htf init)
  /-- the member's timeframe is the Hexital's own and the manager's tasks are idempotent on the construction
  candles (`tasks_idem_plainTf`, `tasks_idem_tfHA`, `tasks_idem_tfLife`, `tasks_idem_tfFill`, `tasks_idem_tfFillHA`) -/
  | sameTf (hn : a.tfName = htf) (hs : a.tfSecs = cfg.tf)
      (hidem : ∀ X, tasks cfg init = .ok X → tasks cfg X = .ok X)

theorem AttachOK.handsOverRaw {cfg : MgrCfg} {htf : Option String} {init : List (Candle F)} {a : Member F}
    (h : AttachOK cfg htf init a) (hne : a.tfName ≠ none) : HandsOverRaw cfg htf a.tfName a.tfSecs init := by
  cases h with
  | noTf h => exact absurd h hne
  | raw hkey h => exact h.handsOverRaw a.tfName a.tfSecs (Writes.getD_ne_default hne hkey)
  | sameTf hn hs hidem =>
    cases ha : a.tfName with
    | none => exact absurd ha hne
    | some name =>
      rw [← hn, ha, hs]
      exact handsOverRaw_sameTf cfg name init hidem

/-- **`C08.members_FULL` on every case proved** (`AttachOK`), hypotheses (1) and (2) as in `members_rawAtAttach` -/
theorem members_attachOK (cfg : MgrCfg) (tfName : Option String) (members : List (Member F))
    (init : List (Candle F)) (chunks : List (List (Candle F))) (mem : Member F) (h : Hexital F)
    (twin : IndState F) (N : List String)
    (hmem : mem ∈ members) (huniq : ∀ m' ∈ members, m'.tree.name = mem.tree.name → m' = mem)
    (hoth : ∀ m, m ∈ members → m.tree.name ≠ mem.tree.name → ∀ k, k ∈ m.tree.allNames → k ∈ N)
    (hok : TreeOK N mem.tree)
    (hsecs : ∀ m, m ∈ members → m.tfName = mem.tfName → m.tfSecs = mem.tfSecs)
    (hatt : AttachOK cfg tfName init mem)
    (hrun : (do let h ← Hexital.init cfg tfName init members
                let h ← h.calculate none
                chunks.foldlM (fun (h : Hexital F) ch => h.append ch) h) = .ok h)
    (htwin : (do let s ← IndState.init mem.tree (match mem.tfName with
                                                   | some _ => { cfg with tf := mem.tfSecs }
                                                   | none => cfg) init
                 let s ← s.calculate
                 chunks.foldlM (fun (s : IndState F) ch => s.append ch) s) = .ok twin) :
    ∃ hi m, dlookup mem.tree.name h.indicators = some hi ∧ dlookup hi.mgrKey h.managers = some m ∧
      m.candles.map Candle.core = twin.mgr.candles.map Candle.core ∧
      ∀ k, k ∈ mem.tree.allNames →
        m.candles.map (fun c => (dlookup k c.inds, dlookup k c.subs)) =
        twin.mgr.candles.map (fun c => (dlookup k c.inds, dlookup k c.subs)) :=
  members_partial cfg tfName members init chunks mem h twin N hmem huniq hoth hok
    (fun m hm he _ => hsecs m hm he) hatt.handsOverRaw hrun htwin

/-! ### non-vacuity (toy carrier `Int`) -/

theorem isOk_ok {α : Type} {x : PyM α} (h : isOk x = true) : ∃ a, x = .ok a := by
  cases x with
  | ok a => exact ⟨a, rfl⟩
  | error e => cases h

namespace TwinTfEx

def candle (k : Nat) : Candle Int :=
  let c : Int := 10 + ((k : Int) * 7) % 5
  { o := .int c, h := .int (c + 2), l := .int (c - 1), c := .int (c + 1), v := .int 10, ts := some (60 * (k : Int)) }
def stream : List (Candle Int) := (List.range 8).map candle

def a : Member Int := { tree := mkTop (.sma 2 "close") "SMA_2" 4, tfName := none, tfSecs := none }
def aT : Member Int := { tree := mkTop (.sma 2 "close") "SMA_2_T2" 4, tfName := some "T2", tfSecs := some 120 }
def bT : Member Int := { tree := mkTop (.rsi 2 "close") "RSI_2_T2" 4, tfName := some "T2", tfSecs := some 120 }
def cT : Member Int := { tree := mkTop (.ema 2 "close" (.int 2)) "EMA_2_T3" 4, tfName := some "T3", tfSecs := some 180 }
def members : List (Member Int) := [bT, a, aT, cT]
def others : List String := bT.tree.allNames ++ a.tree.allNames ++ cT.tree.allNames

/-- a Heikin-Ashi Hexital without a timeframe whose lifespan (8 min) trims nothing at construction time but
does trim later -/
def cfg : MgrCfg := { ha := true, lifespan := some 480 }

def ops : List (TwinOp Int) :=
  [.calculate none, .append [candle 8, candle 9], .purge (some "RSI_2_T2"), .append [candle 10],
   .recalculate (some "SMA_2_T2"), .calculateIndex none 2, .append [candle 11, candle 12, candle 13]]

/-- the hypotheses of `member_standalone_tf` / `handsOverRaw_rawDefault`, decidable forms -/
theorem hyps :
    members.all (fun m => m.tfName != aT.tfName || m.tfSecs == aT.tfSecs) = true ∧
    stream.all Candle.pristineb = true ∧ trimKeepsb cfg.lifespan stream = true ∧
    (C13.othersNames "SMA_2_T2" members).all others.contains = true ∧
    treeOKb others aT.tree = true ∧ ops.all (TwinOp.okb others "SMA_2_T2") = true ∧
    readOK others "SMA_2_T2" = true ∧
    isOk (runHexital cfg none stream members ops) = true := by decide +kernel

/-- the theorem applied: the Hexital run succeeds, so does the plain standalone `SMA(period=2, timeframe="T2",
candlestick_type="HA", candles_lifespan=8 min)` over the raw stream, and the column read through the Hexital is
the standalone indicator's -/
theorem applied : ∃ H twin, runHexital cfg none stream members ops = .ok H ∧
    (do let s ← IndState.init aT.tree { cfg with tf := some 120 } stream
        ops.foldlM (TwinOp.runInd "SMA_2_T2") s) = .ok twin ∧
    H.readingAsList "SMA_2_T2" = .ok (twin.asList (some "SMA_2_T2")) := by
  obtain ⟨h1, h2, h3, h4, h5, h6, h7, h8⟩ := hyps
  obtain ⟨H, hH⟩ := isOk_ok h8
  have hd : Hexital.dedupe members = members := by
    simp [Hexital.dedupe, members, a, aT, bT, cT, mkTop, Ind.name, dset]
  obtain ⟨twin, ht, _, hcol⟩ := member_standalone_tf cfg none stream members aT others ops H
    (by rw [hd]; simp [members])
    (fun m hm he _ => by
      rw [hd] at hm
      have := List.all_eq_true.1 h1 m hm
      simp only [Bool.or_eq_true, bne_iff_ne, ne_eq, beq_iff_eq] at this
      rcases this with h | h
      · exact absurd he h
      · exact h)
    (fun _ => handsOverRaw_rawDefault cfg none _ _ stream (by decide) rfl rfl
      (Candle.pristine_of_b _ h2) (trim_keeps_of_b _ _ h3))
    (fun m hm hn k hk => by
      rw [hd] at hm
      have := List.all_eq_true.1 h4 k (C13.othersNames_spec "SMA_2_T2" members m hm hn k hk)
      simpa using this)
    (treeOK_of_b h5) (TwinOp.ok_of_okb ops h6) hH
  exact ⟨H, twin, hH, ht, hcol "SMA_2_T2" (by decide) h7⟩

/-- … and it is not about empty columns or untrimmed lists: at the end the member manager holds 5 buckets
(of 8: the lifespan has popped three), each with a reading -/
theorem applied_nontrivial :
    (match (do let s ← IndState.init aT.tree { cfg with tf := some 120 } stream
               ops.foldlM (TwinOp.runInd "SMA_2_T2") s) with
     | .ok twin => (twin.asList none).map Val.isNone
     | .error _ => []) = [false, false, false, false, false] := by decide +kernel

/-- `members_rawAtAttach`, first alternative: a Hexital WITH a timeframe (`T1`), gap filling and a lifespan,
constructed without candles and fed half-minute candles in chunks; the member `SMA_2_T2` next to `SMA_2`
(which lives on the `T1` default manager) -/
def cfg1 : MgrCfg := { tf := some 60, fill := true, lifespan := some 300 }
def half (k : Nat) : Candle Int := { candle k with ts := some (30 * (k : Int) + 30) }
def chunks : List (List (Candle Int)) :=
  [[half 0, half 1, half 2], [], [half 3], [half 4, half 5, half 6, half 7, half 8], [half 9, half 10, half 11],
   [half 12, half 13, half 14, half 15, half 16, half 17, half 18, half 19]]

def run1 : PyM (Hexital Int) := do
  let h ← Hexital.init cfg1 (some "T1") [] [a, aT]
  let h ← h.calculate none
  chunks.foldlM (fun (h : Hexital Int) ch => h.append ch) h

def twin1 : PyM (IndState Int) := do
  let s ← IndState.init aT.tree (match aT.tfName with
                                  | some _ => { cfg1 with tf := aT.tfSecs }
                                  | none => cfg1) []
  let s ← s.calculate
  chunks.foldlM (fun (s : IndState Int) ch => s.append ch) s

theorem hyps1 : treeOKb a.tree.allNames aT.tree = true ∧ isOk run1 = true ∧ isOk twin1 = true ∧
    (match twin1 with
     | .ok t => (t.asList none).map Val.isNone
     | .error _ => []) = [false, false, false] := by decide +kernel

theorem applied1 : ∃ h twin hi m, run1 = .ok h ∧ twin1 = .ok twin ∧
    dlookup "SMA_2_T2" h.indicators = some hi ∧ dlookup hi.mgrKey h.managers = some m ∧
    m.candles.map Candle.core = twin.mgr.candles.map Candle.core ∧
    storedUnder "SMA_2_T2" m.candles = storedUnder "SMA_2_T2" twin.mgr.candles := by
  obtain ⟨h1, h2, h3, _⟩ := hyps1
  obtain ⟨h, hh⟩ := isOk_ok h2
  obtain ⟨twin, ht⟩ := isOk_ok h3
  obtain ⟨hi, m, e1, e2, e3, e4⟩ := members_rawAtAttach cfg1 (some "T1") [a, aT] [] chunks aT h twin a.tree.allNames
    (by simp)
    (by
      intro m' hm' hn
      rcases List.mem_cons.1 hm' with e | e
      · subst e; exact absurd hn (by decide)
      · simpa using e)
    (by
      intro m hm hn k hk
      rcases List.mem_cons.1 hm with e | e
      · subst e; exact hk
      · have : m = aT := by simpa using e
        subst this; exact absurd rfl hn)
    (treeOK_of_b h1)
    (by
      intro m hm he
      rcases List.mem_cons.1 hm with e | e
      · subst e; exact absurd he (by decide)
      · have : m = aT := by simpa using e
        subst this; rfl)
    (by decide) (.empty rfl) hh ht
  exact ⟨h, twin, hi, m, hh, ht, e1, e2, e3, e4 "SMA_2_T2" (by decide)⟩

/-- (c): the member's timeframe is the Hexital's own (`T2`); the member manager re-collapses the default
manager's buckets -/
theorem rawBk_stream : RawBk stream :=
  ⟨by simp [stream, candle], by simp [stream, candle], by decide⟩

example : HandsOverRaw { tf := some 120 } (some "T2") (some "T2") (some 120) stream :=
  handsOverRaw_sameTf { tf := some 120 } "T2" stream
    (tasks_idem_plainTf _ 120 (by decide) rfl rfl rfl rfl stream rawBk_stream)

example : HandsOverRaw { tf := some 120, lifespan := some 240 } (some "T2") (some "T2") (some 120) stream :=
  handsOverRaw_sameTf { tf := some 120, lifespan := some 240 } "T2" stream
    (tasks_idem_tfLife _ 120 240 (by decide) (by decide) rfl rfl rfl rfl stream rawBk_stream)

example : HandsOverRaw { tf := some 120, ha := true } (some "T2") (some "T2") (some 120) stream :=
  handsOverRaw_sameTf { tf := some 120, ha := true } "T2" stream
    (tasks_idem_tfHA _ 120 (by decide) rfl rfl rfl rfl stream
      ⟨rawBk_stream.stamped, fun c hc => ⟨by revert c; simp [stream, candle], rawBk_stream.cleanNone c hc⟩,
       rawBk_stream.sorted⟩)

end TwinTfEx

end Hex

import HexProofs.Writes.PropsLib
import HexProofs.Manager2.HATf
import HexProofs.Manager2.TwinSched
import HexProofs.Manager2.TrimTf
import HexProofs.Manager2.HAFill
/-
C08, members WITH their own timeframe (`C08.members_FULL`).

Since the library's repair of `Hexital.__init__` (members with a timeframe of their own are built from
`source_candles`, a deep copy of the candles AS GIVEN to the constructor – model: `Hexital.attachFrom (some init)`)
the manager such a member is attached to at construction time IS the manager of the plain standalone indicator,

    twinManager cfg atf secs init = Manager.init {cfg with tf := secs} init        (`Writes/Twin.lean`, by definition)

whatever the Hexital-level timeframe / fill / Heikin-Ashi / lifespan did to the default manager's copy; and every later
`Hexital.append` feeds every manager the caller's candles.  `member_twin` keeps ANY member in step with a standalone
indicator over that manager, so nothing is left of the former refinement obligation `HandsOverRaw`.

Part A – the constructor path (every `F`):
  * `member_standalone_tf`: `C08.member_standalone` for ANY member – own timeframe or not – under any program of
    `calculate / calculate_index / purge / recalculate / append / add_indicator / remove_indicator (of others)`.
  * `members_all` (and the slightly more general `members_all_key`): the statement of `C08.members_FULL` word for
    word for EVERY member, every Hexital-level configuration (timeframe, fill, Heikin-Ashi, lifespan), any
    construction candles and appended chunks, plus only its presuppositions: no collision / no input dependency
    (`TreeOK N mem.tree`, the other members' names ⊆ `N`, as in `member_standalone`), members sharing a timeframe
    NAME carry the same seconds (`hsecs`), and the member's timeframe name is not the literal manager key "default"
    (`hkey`).  The former `members_partial` / `members_rawAtAttach` / `members_attachOK` carried the extra
    hypothesis `HandsOverRaw` / `RawAtAttach` / `AttachOK`; they are subsumed (`members_attachOK` is kept as a
    corollary to show that nothing was lost).
  * the former `members_FULL_counterexample` (a Hexital-level lifespan that trims at construction time handed the
    member manager a truncated bucket) NO LONGER HOLDS – the defect it formalised is repaired; its witness is kept as
    a positive example (`TwinTfWitness`).
Part B – the `add_indicator` path (`Hexital.attachFrom none`, unchanged in the library): a member manager created
LATE is still built from the default manager's candles, handed over raw (`memberRaw`).  The refinement lemmas
formerly used for the constructor are kept for that path: `HandsOverRaw` now speaks about `lateManager` (the manager
`add_indicator` creates right after construction) and is proved when (a) the Hexital was constructed without candles
(`handsOverRaw_nil`), (b) it has no timeframe of its own, pristine construction candles and a lifespan that trims none
of them (`handsOverRaw_rawDefault`), (c) the member's timeframe is the Hexital's own and the manager's tasks are
idempotent on the construction candles (`handsOverRaw_sameTf`, `tasks_idem_*`).  No theorem about late-added members
with a timeframe is derived from them here (that is `C13.presence_FULL`, open).
-/
namespace Hex
variable {F : Type} [PyF F] {N : List String}

/-! ## Part A: members handed to the constructor -/

/-! ### `valid_indicators` against the list handed to the constructor -/

omit [PyF F] in
theorem Writes.mem_of_dlookup {α : Type} {k : String} {v : α} :
    ∀ {l : List (String × α)}, dlookup k l = some v → (k, v) ∈ l := by
  intro l
  induction l with
  | nil => intro h; simp at h
  | cons p r ih =>
    intro h
    obtain ⟨k', w⟩ := p
    by_cases e : k' = k
    · subst e; simp [dlookup] at h; subst h; simp
    · simp only [dlookup, e, if_false] at h
      exact List.mem_cons_of_mem _ (ih h)

omit [PyF F] in
/-- every entry of `valid_indicators` is one of the members handed over -/
theorem Hexital.dedupe_fold_sub (ms : List (Member F)) :
    ∀ (acc : List (String × Member F)) p, p ∈ ms.foldl (fun acc m => dset m.tree.name m acc) acc →
      p.2 ∈ ms ∨ p ∈ acc := by
  induction ms with
  | nil => intro acc p hp; exact Or.inr hp
  | cons x r ih =>
    intro acc p hp
    rw [List.foldl_cons] at hp
    rcases ih _ p hp with h | h
    · exact Or.inl (List.mem_cons_of_mem _ h)
    · obtain ⟨k, v⟩ := p
      rcases Writes.mem_dset h with e | e
      · cases e; exact Or.inl (by simp)
      · exact Or.inr e

omit [PyF F] in
theorem Hexital.dedupe_sub (members : List (Member F)) (m : Member F) (h : m ∈ Hexital.dedupe members) :
    m ∈ members := by
  unfold Hexital.dedupe at h
  obtain ⟨p, hp, rfl⟩ := List.mem_map.1 h
  rcases Hexital.dedupe_fold_sub members [] p hp with h | h
  · exact h
  · simp at h

omit [PyF F] in
/-- the entry under a name is one of the members with that name, or was there before -/
theorem Hexital.dedupe_fold_lookup (ms : List (Member F)) :
    ∀ (acc : List (String × Member F)) (n : String) (v : Member F),
      dlookup n (ms.foldl (fun acc m => dset m.tree.name m acc) acc) = some v →
      (v ∈ ms ∧ v.tree.name = n) ∨ dlookup n acc = some v := by
  induction ms with
  | nil => intro acc n v h; exact Or.inr h
  | cons x r ih =>
    intro acc n v h
    rw [List.foldl_cons] at h
    rcases ih _ n v h with h | h
    · exact Or.inl ⟨List.mem_cons_of_mem _ h.1, h.2⟩
    · rw [dlookup_dset] at h
      by_cases e : x.tree.name = n
      · simp only [e, if_true] at h; cases h; exact Or.inl ⟨by simp, e⟩
      · simp only [e, if_false] at h; exact Or.inr h

omit [PyF F] in
/-- every name handed over has an entry -/
theorem Hexital.dedupe_fold_has (ms : List (Member F)) :
    ∀ (acc : List (String × Member F)) (n : String),
      ((∃ m, m ∈ ms ∧ m.tree.name = n) ∨ (dlookup n acc).isSome = true) →
      (dlookup n (ms.foldl (fun acc m => dset m.tree.name m acc) acc)).isSome = true := by
  induction ms with
  | nil =>
    intro acc n h
    rcases h with ⟨m, hm, _⟩ | h
    · simp at hm
    · exact h
  | cons x r ih =>
    intro acc n h
    rw [List.foldl_cons]
    apply ih
    by_cases e : x.tree.name = n
    · right; rw [dlookup_dset]; simp [e]
    · rcases h with ⟨m, hm, hn⟩ | h
      · rcases List.mem_cons.1 hm with e' | e'
        · subst e'; exact absurd hn e
        · exact Or.inl ⟨m, e', hn⟩
      · right; rw [dlookup_dset]; simp only [e, if_false]; exact h

omit [PyF F] in
/-- a member whose name is not shared by a DIFFERENT member of the list is an entry of `valid_indicators` -/
theorem Hexital.mem_dedupe_of_unique (members : List (Member F)) (mem : Member F) (hmem : mem ∈ members)
    (huniq : ∀ m' ∈ members, m'.tree.name = mem.tree.name → m' = mem) : mem ∈ Hexital.dedupe members := by
  unfold Hexital.dedupe
  have hhas := Hexital.dedupe_fold_has members [] mem.tree.name (Or.inl ⟨mem, hmem, rfl⟩)
  cases hl : dlookup mem.tree.name (members.foldl (fun acc m => dset m.tree.name m acc) []) with
  | none => rw [hl] at hhas; simp at hhas
  | some v =>
    rcases Hexital.dedupe_fold_lookup members [] _ v hl with h | h
    · have := huniq v h.1 h.2
      subst this
      exact List.mem_map.2 ⟨_, Writes.mem_of_dlookup hl, rfl⟩
    · simp at h

/-! ### the member with its own timeframe and its standalone twin -/

/-- the effective configuration of a member: the Hexital's, with the member's own timeframe if it has one -/
def Member.effCfg (a : Member F) (cfg : MgrCfg) : MgrCfg :=
  match a.tfName with
  | some _ => { cfg with tf := a.tfSecs }
  | none => cfg

/-- the twin of `Writes/Twin.lean` (a standalone indicator over the manager the member is attached to by the
constructor) IS the plain standalone indicator with the member's effective configuration constructed from the same
candles.  `hkey`: a timeframe NAME equal to the manager key "default" would land the member on the default manager;
harmless only if the member's timeframe then is the Hexital's (in particular `hkey` holds when the name is not
"default", `twinInit_eq_init'`). -/
theorem twinInit_eq_init (a : Member F) (cfg : MgrCfg) (init : List (Candle F))
    (hkey : a.tfName = some defaultKey → a.tfSecs = cfg.tf) :
    twinInit a cfg init = IndState.init a.tree (a.effCfg cfg) init := by
  cases hn : a.tfName with
  | none =>
    rw [twinInit_of_none a hn]
    unfold Member.effCfg; rw [hn]
  | some t =>
    by_cases ht : t = defaultKey
    · subst ht
      have hs := hkey hn
      unfold twinInit twinManager IndState.init Member.effCfg
      rw [hn, hs]
      simp only [Option.getD_some, if_true]
    · rw [twinInit_of_key a (by rw [hn]; exact ht)]
      unfold Member.effCfg; rw [hn]

omit [PyF F] in
theorem Writes.key_of_ne {a : Member F} (h : a.tfName ≠ some defaultKey) {x : Option Int} :
    a.tfName = some defaultKey → a.tfSecs = x := fun e => absurd e h

/-- **A member WITH its own timeframe behaves exactly like its standalone twin fed the raw stream.**
As `member_standalone`, for ANY member: the twin is the standalone indicator with the member's tree and
effective configuration (`cfg` with the member's timeframe) constructed from the same candles and driven with
the same program – whatever the Hexital-level timeframe / fill / Heikin-Ashi / lifespan. -/
theorem member_standalone_tf (cfg : MgrCfg) (tf : Option String) (init : List (Candle F))
    (members : List (Member F)) (a : Member F) (N : List String) (ops : List (TwinOp F)) (H : Hexital F)
    (ha : a ∈ Hexital.dedupe members)
    (hsecs : ∀ m, m ∈ Hexital.dedupe members → m.tfName = a.tfName →
      a.tfName.getD defaultKey ≠ defaultKey → m.tfSecs = a.tfSecs)
    (hkey : a.tfName = some defaultKey → a.tfSecs = cfg.tf)
    (hoth : ∀ m, m ∈ Hexital.dedupe members → m.tree.name ≠ a.tree.name → ∀ k, k ∈ m.tree.allNames → k ∈ N)
    (hok : TreeOK N a.tree) (hops : ∀ op, op ∈ ops → op.OK N a.tree.name)
    (hrun : runHexital cfg tf init members ops = .ok H) :
    ∃ twin, (do let s ← IndState.init a.tree (a.effCfg cfg) init
                ops.foldlM (TwinOp.runInd a.tree.name) s) = .ok twin ∧
      (∃ hi m, dlookup a.tree.name H.indicators = some hi ∧ hi.tree = a.tree ∧
        dlookup hi.mgrKey H.managers = some m ∧ m.cfg = twin.mgr.cfg ∧
        m.candles.map Candle.core = twin.mgr.candles.map Candle.core ∧
        ∀ k, k ∈ a.tree.allNames → storedUnder k m.candles = storedUnder k twin.mgr.candles) ∧
      (∀ name, (splitDot name).headD "" = a.tree.name → readOK N name = true →
        H.readingAsList name = .ok (twin.asList (some name))) := by
  obtain ⟨twin, hrun', ht, inv⟩ := member_twin cfg tf init members a ops H ha
    hsecs hoth hok hops hrun
  unfold runTwin at hrun'
  rw [twinInit_eq_init a cfg init hkey] at hrun'
  refine ⟨twin, hrun', ?_, fun name hp hr => inv.column name hp hr⟩
  obtain ⟨hi, m, h1, h2, h3, h4, h5, h6⟩ := inv.readings (ht ▸ hok)
  exact ⟨hi, m, h1, h2.trans ht, h3, h4, h5, fun k hk => h6 k (ht ▸ hk)⟩

/-! ### the shape of `C08.members_FULL`: construct, calculate, append chunk by chunk -/

/-- the program of `members_FULL` -/
def schedOps (chunks : List (List (Candle F))) : List (TwinOp F) :=
  .calculate none :: chunks.map .append

omit [PyF F] in
theorem schedOps_ok (chunks : List (List (Candle F))) (nm : String) :
    ∀ op, op ∈ schedOps chunks → op.OK N nm := by
  intro op hop
  rcases List.mem_cons.1 hop with e | e
  · subst e; trivial
  · obtain ⟨ch, _, rfl⟩ := List.mem_map.1 e; trivial

theorem schedOps_runHex (chunks : List (List (Candle F))) (h : Hexital F) :
    (schedOps chunks).foldlM TwinOp.runHex h = (do
      let h ← h.calculate none
      chunks.foldlM (fun (h : Hexital F) ch => h.append ch) h) := by
  unfold schedOps
  rw [List.foldlM_cons]
  simp only [List.foldlM_map]
  rfl

theorem schedOps_runInd (chunks : List (List (Candle F))) (nm : String) (s : IndState F) :
    (schedOps chunks).foldlM (TwinOp.runInd nm) s = (do
      let s ← s.calculate
      chunks.foldlM (fun (s : IndState F) ch => s.append ch) s) := by
  unfold schedOps
  rw [List.foldlM_cons]
  simp only [List.foldlM_map]
  rfl

/-- **`C08.members_FULL` under its presuppositions**, most general form of the key hypothesis.  For every Hexital
configuration, member set (any mix of timeframes), construction candles and append schedule, each member's manager
holds the same candles (OHLCV, timestamps) and, under the member's names, the same readings as a standalone indicator
with the member's effective configuration constructed from the same initial candles and fed the same chunks.
`hkey`: the member's timeframe name is not the manager key "default" – or, if it is, its timeframe is the Hexital's. -/
theorem members_all_key (cfg : MgrCfg) (tfName : Option String) (members : List (Member F))
    (init : List (Candle F)) (chunks : List (List (Candle F))) (mem : Member F) (h : Hexital F)
    (twin : IndState F) (N : List String)
    (hmem : mem ∈ members) (huniq : ∀ m' ∈ members, m'.tree.name = mem.tree.name → m' = mem)
    -- (1) no collision / no input dependency (what the property presupposes; as in `member_standalone`)
    (hoth : ∀ m, m ∈ members → m.tree.name ≠ mem.tree.name → ∀ k, k ∈ m.tree.allNames → k ∈ N)
    (hok : TreeOK N mem.tree)
    -- (2) members sharing the member's timeframe NAME share its timeframe (true of every parsed timeframe)
    (hsecs : ∀ m, m ∈ members → m.tfName = mem.tfName → mem.tfName.getD defaultKey ≠ defaultKey →
      m.tfSecs = mem.tfSecs)
    -- (3) the timeframe name does not collide with the key of the default manager
    (hkey : mem.tfName = some defaultKey → mem.tfSecs = cfg.tf)
    (hrun : (do let h ← Hexital.init cfg tfName init members
                let h ← h.calculate none
                chunks.foldlM (fun (h : Hexital F) ch => h.append ch) h) = .ok h)
    (htwin : (do let s ← IndState.init mem.tree (match mem.tfName with
                                                   | some _ => { cfg with tf := mem.tfSecs }
                                                   | none => cfg) init
                 let s ← s.calculate
                 chunks.foldlM (fun (s : IndState F) ch => s.append ch) s) = .ok twin) :
    ∃ hi m, dlookup mem.tree.name h.indicators = some hi ∧ dlookup hi.mgrKey h.managers = some m ∧
      m.candles.map Candle.core = twin.mgr.candles.map Candle.core ∧
      ∀ k, k ∈ mem.tree.allNames →
        m.candles.map (fun c => (dlookup k c.inds, dlookup k c.subs)) =
        twin.mgr.candles.map (fun c => (dlookup k c.inds, dlookup k c.subs)) := by
  have hrun' : runHexital cfg tfName init members (schedOps chunks) = .ok h := by
    unfold runHexital
    rw [← hrun]
    cases Hexital.init cfg tfName init members with
    | error e => rfl
    | ok h0 => exact schedOps_runHex chunks h0
  obtain ⟨twin', ht', ⟨hi, m, h1, _, h3, _, h5, h6⟩, _⟩ :=
    member_standalone_tf cfg tfName init members mem N (schedOps chunks) h
      (Hexital.mem_dedupe_of_unique members mem hmem huniq)
      (fun m hm => hsecs m (Hexital.dedupe_sub members m hm)) hkey
      (fun m hm => hoth m (Hexital.dedupe_sub members m hm)) hok (schedOps_ok chunks _) hrun'
  have hsame : twin' = twin := by
    have e : (do let s ← IndState.init mem.tree (mem.effCfg cfg) init
                 (schedOps chunks).foldlM (TwinOp.runInd mem.tree.name) s) = .ok twin := by
      rw [← htwin]
      show _ = (do let s ← IndState.init mem.tree (mem.effCfg cfg) init
                   let s ← s.calculate
                   chunks.foldlM (fun (s : IndState F) ch => s.append ch) s)
      cases IndState.init mem.tree (mem.effCfg cfg) init with
      | error e => rfl
      | ok s0 => exact schedOps_runInd chunks _ s0
    rw [e] at ht'
    cases ht'; rfl
  subst hsame
  exact ⟨hi, m, h1, h3, h5, h6⟩

/-- **`C08.members_FULL` for EVERY member** – own timeframe or not, every Hexital-level timeframe / fill /
Heikin-Ashi / lifespan, any construction candles and appended chunks.  The statement of `members_FULL` word for word
(`hmem`, `huniq`, `hrun`, `htwin`, conclusion) plus its presuppositions, all explicit:
(1) no collision / input dependency between the member and the others (`hoth`, `hok : TreeOK N mem.tree`, as in
`member_standalone`); (2) members sharing the member's timeframe NAME carry the same seconds (`hsecs`);
(3) the member's timeframe name is not the literal manager key "default" (`hkey`). -/
theorem members_all (cfg : MgrCfg) (tfName : Option String) (members : List (Member F))
    (init : List (Candle F)) (chunks : List (List (Candle F))) (mem : Member F) (h : Hexital F)
    (twin : IndState F) (N : List String)
    (hmem : mem ∈ members) (huniq : ∀ m' ∈ members, m'.tree.name = mem.tree.name → m' = mem)
    (hoth : ∀ m, m ∈ members → m.tree.name ≠ mem.tree.name → ∀ k, k ∈ m.tree.allNames → k ∈ N)
    (hok : TreeOK N mem.tree)
    (hsecs : ∀ m, m ∈ members → m.tfName = mem.tfName → m.tfSecs = mem.tfSecs)
    (hkey : mem.tfName ≠ some defaultKey)
    (hrun : (do let h ← Hexital.init cfg tfName init members
                let h ← h.calculate none
                chunks.foldlM (fun (h : Hexital F) ch => h.append ch) h) = .ok h)
    (htwin : (do let s ← IndState.init mem.tree (match mem.tfName with
                                                   | some _ => { cfg with tf := mem.tfSecs }
                                                   | none => cfg) init
                 let s ← s.calculate
                 chunks.foldlM (fun (s : IndState F) ch => s.append ch) s) = .ok twin) :
    ∃ hi m, dlookup mem.tree.name h.indicators = some hi ∧ dlookup hi.mgrKey h.managers = some m ∧
      m.candles.map Candle.core = twin.mgr.candles.map Candle.core ∧
      ∀ k, k ∈ mem.tree.allNames →
        m.candles.map (fun c => (dlookup k c.inds, dlookup k c.subs)) =
        twin.mgr.candles.map (fun c => (dlookup k c.inds, dlookup k c.subs)) :=
  members_all_key cfg tfName members init chunks mem h twin N hmem huniq hoth hok
    (fun m hm he _ => hsecs m hm he) (Writes.key_of_ne hkey) hrun htwin

/-! ### the former counterexample, now a positive example: a lifespan that trims at construction time

A Hexital with `candles_lifespan = 150 s` and no timeframe, constructed from six one-minute candles stamped
60 … 360 s, with one member `SMA_2_T2` on `T2` (120 s).  Before the repair the default manager trimmed the raw candles
to the stamps ≥ 360 − 150 = 210, i.e. 240, 300, 360, BEFORE the member manager collapsed them: the member's bucket
(120, 240] was built from the candle 240 alone (volume 10), the standalone twin's from 180 and 240 (volume 20) – the
former `members_FULL_counterexample`.  Now the member manager is built from the six candles as given: both hold the
buckets 240 and 360 with volumes 20, 20 and the same readings. -/

namespace TwinTfWitness

def cfg : MgrCfg := { lifespan := some 150 }
def mem : Member Int := { tree := mkTop (.sma 2 "close") "SMA_2_T2" 4, tfName := some "T2", tfSecs := some 120 }
def candle (k : Int) : Candle Int :=
  { o := .int (10 + k), h := .int (12 + k), l := .int (9 + k), c := .int (11 + k), v := .int 10, ts := some (60 * k) }
def init : List (Candle Int) := [candle 1, candle 2, candle 3, candle 4, candle 5, candle 6]

def hex : PyM (Hexital Int) := do
  let h ← Hexital.init cfg none init [mem]
  let h ← h.calculate none
  ([] : List (List (Candle Int))).foldlM (fun (h : Hexital Int) ch => h.append ch) h

def twin : PyM (IndState Int) := do
  let s ← IndState.init mem.tree (match mem.tfName with
                                   | some _ => { cfg with tf := mem.tfSecs }
                                   | none => cfg) init
  let s ← s.calculate
  ([] : List (List (Candle Int))).foldlM (fun (s : IndState Int) ch => s.append ch) s

/-- the volumes and stamps, read off the `core` of the candles -/
def vols (cores : List (Num Int × Num Int × Num Int × Num Int × Num Int × Option Int × Bool × Option (Clean Int))) :
    List (Option Int × Option Int) :=
  cores.map fun p => (match p.2.2.2.2.1 with
    | .int n => some n
    | _ => none, p.2.2.2.2.2.1)

/-- what is stored under the member's name, as integers -/
def stored (cs : List (Candle Int)) : List (Option Int) :=
  (storedUnder "SMA_2_T2" cs).map fun p => match p.1 with
    | some (.s (.num (.int n))) => some n
    | some (.s (.num (.flt x))) => some x
    | _ => none

/-- both runs succeed; the member's buckets and the twin's are stamped 240, 360, carry the volumes 20, 20 and the same
`SMA_2_T2` reading (15 on the last bucket: closes 14 and 16) – the default manager meanwhile kept the raw candles
240, 300, 360 -/
example : (match hex, twin with
    | .ok h, .ok t =>
      (match dlookup "SMA_2_T2" h.indicators, dlookup defaultKey h.managers with
       | some hi, some dm =>
         (match dlookup hi.mgrKey h.managers with
          | some m => vols (m.candles.map Candle.core) == [(some 20, some 240), (some 20, some 360)] &&
                      vols (t.mgr.candles.map Candle.core) == [(some 20, some 240), (some 20, some 360)] &&
                      vols (dm.candles.map Candle.core) == [(some 10, some 240), (some 10, some 300), (some 10, some 360)] &&
                      stored m.candles == [none, some 16] && stored t.mgr.candles == [none, some 16]
          | none => false)
       | _, _ => false)
    | _, _ => false) = true := by decide +kernel

end TwinTfWitness

/-! ## Part B: the `add_indicator` path – a member manager created LATE from the default manager's candles -/

/-- the candles a member manager created by `add_indicator` is built from (`_validate_indicators` without
`source_candles`): the default manager's candles as they are when the member's timeframe is the Hexital's own, else
handed over raw -/
def memberRaw (htf atf : Option String) (dm : Manager F) : List (Candle F) :=
  if atf == htf then dm.candles
  else dm.candles.map fun c => ({ c.recoverClean with clean := none } : Candle F).reset

omit [PyF F] in
/-- … this is what the model does -/
theorem attachRaw_none (h : Hexital F) (m : Member F) (dm : Manager F)
    (hd : dlookup defaultKey h.managers = some dm) :
    Hexital.attachRaw none h m = .ok (memberRaw h.tfName m.tfName dm) := by
  unfold Hexital.attachRaw Hexital.manager
  rw [hd]
  rfl

omit [PyF F] in
/-- the constructor's path takes the candles as given -/
theorem attachRaw_some (cs : List (Candle F)) (h : Hexital F) (m : Member F) :
    Hexital.attachRaw (some cs) h m = .ok cs := rfl

/-- the manager `add_indicator` creates for a member with own timeframe `atf` / `secs` (a new key) when it is called
right after the Hexital (`cfg`, timeframe name `htf`) was constructed from `cs`: a manager over the default manager's
candles with the member's timeframe.  (Before the library's repair the constructor did the same.) -/
def lateManager (cfg : MgrCfg) (htf atf : Option String) (secs : Option Int) (cs : List (Candle F)) :
    PyM (Manager F) := do
  let dm ← Manager.init cfg cs
  if atf.getD defaultKey = defaultKey then pure dm
  else Manager.init { cfg with tf := secs } (memberRaw htf atf dm)

/-- a candle as the caller hands it over: never converted, no readings -/
structure Candle.Pristine (c : Candle F) : Prop where
  clean : c.clean = none
  inds : c.inds = []
  subs : c.subs = []
  tag : c.tag = false

/-- what `_validate_indicators` does to a copied candle before a new member manager collapses it -/
def Candle.handOver (c : Candle F) : Candle F := ({ c.recoverClean with clean := none } : Candle F).reset

omit [PyF F] in
theorem Candle.handOver_pristine (c : Candle F) (h : c.Pristine) : c.handOver = c := by
  obtain ⟨o, hh, l, cl, v, ts, inds, subs, tag, clean⟩ := c
  obtain ⟨h1, h2, h3, h4⟩ := h
  simp only at h1 h2 h3 h4
  subst h1 h2 h3 h4
  rfl

theorem Candle.handOver_haCandle (c : Candle F) (p : Option (Candle F)) (h : c.Pristine) :
    (haCandle c p).handOver = c := by
  obtain ⟨o, hh, l, cl, v, ts, inds, subs, tag, clean⟩ := c
  obtain ⟨h1, h2, h3, h4⟩ := h
  simp only at h1 h2 h3 h4
  subst h1 h2 h3 h4
  simp only [haCandle, Candle.handOver, Candle.recoverClean, Candle.reset]
  cases ts <;> rfl

theorem HaRel.map_handOver {B Z : List (Candle F)} (h : HaRel B Z) (hp : ∀ c ∈ B, c.Pristine) :
    Z.map Candle.handOver = B := by
  induction h with
  | nil => rfl
  | @cons b z B' Z' hbz _ ih =>
    obtain ⟨p, rfl⟩ := hbz
    rw [List.map_cons, Candle.handOver_haCandle b p (hp b (by simp)), ih (fun c hc => hp c (by simp [hc]))]

omit [PyF F] in
theorem trimCandles_none (cs : List (Candle F)) : trimCandles none cs = .ok cs := by
  unfold trimCandles; rfl

/-- a list with the same stamps as a list the trim leaves alone is left alone too -/
theorem trim_keeps_congr (life : Option Int) (cs cs' : List (Candle F)) (hts : cs'.map (·.ts) = cs.map (·.ts))
    (h : trimCandles life cs = .ok cs) : trimCandles life cs' = .ok cs' := by
  cases life with
  | none => exact trimCandles_none cs'
  | some l =>
    obtain ⟨_, _, h3⟩ := trim_congr_ts l cs cs' cs hts h
    simpa using h3

/-- **the default manager without a timeframe still holds the raw stream**: whatever it did to the
candles handed to the constructor (Heikin-Ashi conversion; a lifespan that trims nothing), handing its
candles over to a member manager (`recover_clean_values`, `clean_values = {}`, `reset_candle`) gives the
caller's candles back -/
theorem tasks_rawDefault (cfg : MgrCfg) (init : List (Candle F)) (htf : cfg.tf = none)
    (hp : ∀ c ∈ init, c.Pristine) (hkeep : trimCandles cfg.lifespan init = .ok init) :
    ∃ X, tasks cfg init = .ok X ∧ X.map Candle.handOver = init := by
  unfold tasks
  rw [htf]
  have hcol : collapseCandles none cfg.fill init = .ok init := by unfold collapseCandles; rfl
  rw [hcol]
  simp only [bind, Except.bind]
  by_cases hha : (cfg.ha && !init.isEmpty) = true
  · rw [if_pos hha]
    have hconv := convertCandles_resume [] init (by simp) (fun c hc => (hp c hc).tag)
    rw [List.nil_append] at hconv
    rw [hconv]
    obtain ⟨ext, he, hrel⟩ := haFold_rel init []
    rw [List.nil_append] at he
    simp only
    rw [he]
    exact ⟨ext, trim_keeps_congr _ init ext hrel.ts_eq hkeep, hrel.map_handOver hp⟩
  · rw [if_neg hha]
    exact ⟨init, hkeep, by
      rw [List.map_congr_left (fun c hc => Candle.handOver_pristine c (hp c hc))]; simp⟩

/-! ### the member manager at attach time = the standalone twin's manager -/

/-- **hand-over of the raw stream** (late path): the manager `add_indicator` creates for a member with own timeframe
`atf` / `secs` right after the Hexital was constructed from `init` is the manager of a standalone indicator with that
timeframe constructed from `init`.  (For the CONSTRUCTOR this holds by definition now: `twinManager`.) -/
def HandsOverRaw (cfg : MgrCfg) (htf atf : Option String) (secs : Option Int) (init : List (Candle F)) : Prop :=
  lateManager cfg htf atf secs init = Manager.init { cfg with tf := secs } init

theorem tasks_nil (cfg : MgrCfg) : tasks cfg ([] : List (Candle F)) = .ok [] := by
  unfold tasks collapseCandles
  cases cfg.tf <;> cases cfg.lifespan <;> simp [bind, Except.bind, trimCandles]

/-- (a) a Hexital constructed WITHOUT candles (everything arrives through `append`): any Hexital-level
timeframe / fill / Heikin-Ashi / lifespan -/
theorem handsOverRaw_nil (cfg : MgrCfg) (htf atf : Option String) (secs : Option Int)
    (hkey : atf.getD defaultKey ≠ defaultKey) :
    HandsOverRaw (F := F) cfg htf atf secs [] := by
  unfold HandsOverRaw lateManager Manager.init
  rw [tasks_nil, tasks_nil]
  have hraw : memberRaw htf atf ({ cfg := cfg, candles := [] } : Manager F) = [] := by
    unfold memberRaw; split <;> rfl
  simp only [bind, Except.bind, pure, Except.pure, if_neg hkey, hraw, tasks_nil]

/-- (b) a Hexital WITHOUT a timeframe of its own, constructed from pristine candles none of which the
lifespan trims at construction time; Heikin-Ashi or not, fill flag or not -/
theorem handsOverRaw_rawDefault (cfg : MgrCfg) (htf atf : Option String) (secs : Option Int)
    (init : List (Candle F)) (hkey : atf.getD defaultKey ≠ defaultKey)
    (htf0 : cfg.tf = none) (hname : htf = none) (hp : ∀ c ∈ init, c.Pristine)
    (hkeep : trimCandles cfg.lifespan init = .ok init) :
    HandsOverRaw cfg htf atf secs init := by
  obtain ⟨X, hX, hmap⟩ := tasks_rawDefault cfg init htf0 hp hkeep
  unfold HandsOverRaw lateManager
  have hne : (atf == htf) = false := by
    subst hname
    cases atf with
    | none => exact absurd rfl hkey
    | some t => rfl
  show (do let dm ← Manager.init cfg init
           if atf.getD defaultKey = defaultKey then pure dm
           else Manager.init { cfg with tf := secs } (memberRaw htf atf dm)) = _
  unfold Manager.init
  rw [hX]
  simp only [bind, Except.bind, pure, Except.pure, if_neg hkey, memberRaw, hne, Bool.false_eq_true, if_false]
  have : X.map (fun c => ({ c.recoverClean with clean := none } : Candle F).reset) = init := hmap
  rw [this]

/-! ### decidable forms of the hypotheses -/

omit [PyF F] in
def Candle.pristineb (c : Candle F) : Bool := c.clean.isNone && c.inds.isEmpty && c.subs.isEmpty && !c.tag

omit [PyF F] in
theorem Candle.pristine_of_b (cs : List (Candle F)) (h : cs.all Candle.pristineb = true) : ∀ c ∈ cs, c.Pristine := by
  intro c hc
  have := List.all_eq_true.1 h c hc
  simp only [Candle.pristineb, Bool.and_eq_true, Option.isNone_iff_eq_none, List.isEmpty_iff,
    Bool.not_eq_true'] at this
  exact ⟨this.1.1.1, this.1.1.2, this.1.2, this.2⟩

/-- the trim pops nothing (decidable: the result is as long as the argument) -/
def trimKeepsb (life : Option Int) (cs : List (Candle F)) : Bool :=
  match trimCandles life cs with
  | .ok r => r.length == cs.length
  | .error _ => false

theorem trim_keeps_of_b (life : Option Int) (cs : List (Candle F)) (h : trimKeepsb life cs = true) :
    trimCandles life cs = .ok cs := by
  unfold trimKeepsb at h
  cases hr : trimCandles life cs with
  | error e => rw [hr] at h; cases h
  | ok r =>
    rw [hr] at h
    obtain ⟨m, hm, hle⟩ := trim_is_drop life cs r hr
    have hlen : r.length = cs.length := by simpa using h
    have : m = 0 ∨ cs = [] := by
      rw [hm, List.length_drop] at hlen
      by_cases h0 : m = 0
      · exact Or.inl h0
      · right; apply List.eq_nil_of_length_eq_zero; omega
    rcases this with e | e
    · subst e; rw [hm]; rfl
    · subst e; rw [hm]; simp

/-! ### (c) a member whose timeframe IS the Hexital's: the member manager re-runs the default manager's tasks
on their own output -/

/-- the member's timeframe is the Hexital's (same name, same seconds): handing over the default manager's
PROCESSED candles is harmless as soon as the manager's tasks are idempotent on them -/
theorem handsOverRaw_sameTf (cfg : MgrCfg) (name : String) (init : List (Candle F))
    (hidem : ∀ X, tasks cfg init = .ok X → tasks cfg X = .ok X) :
    HandsOverRaw cfg (some name) (some name) cfg.tf init := by
  unfold HandsOverRaw lateManager
  have hcfg : ({ cfg with tf := cfg.tf } : MgrCfg) = cfg := rfl
  rw [hcfg]
  unfold Manager.init
  cases hX : tasks cfg init with
  | error e =>
    simp only [bind, Except.bind]
  | ok X =>
    simp only [bind, Except.bind, pure, Except.pure, memberRaw, beq_self_eq_true, if_true, hidem X hX]
    split <;> rfl

theorem tasks_plainTf (cfg : MgrCfg) (tf : Int) (h1 : cfg.tf = some tf) (h2 : cfg.fill = false)
    (h3 : cfg.ha = false) (h4 : cfg.lifespan = none) (cs : List (Candle F)) :
    tasks cfg cs = collapseCandles (some tf) false cs := by
  unfold tasks
  rw [h1, h2, h3, h4]
  cases collapseCandles (some tf) false cs <;> simp [bind, Except.bind, trimCandles_none]

/-- plain timeframe (no fill, no conversion, no lifespan) -/
theorem tasks_idem_plainTf (cfg : MgrCfg) (tf : Int) (htf : 0 < tf) (h1 : cfg.tf = some tf) (h2 : cfg.fill = false)
    (h3 : cfg.ha = false) (h4 : cfg.lifespan = none) (init : List (Candle F)) (hraw : RawBk init) :
    ∀ X, tasks cfg init = .ok X → tasks cfg X = .ok X := by
  intro X hX
  rw [tasks_plainTf cfg tf h1 h2 h3 h4] at hX ⊢
  have hm : LabelsMono tf init := labelsMono_of_sorted tf htf init hraw.sorted
  have e1 := collapse_resample_append tf htf [] init (by simpa using hraw.stamped)
    (by simpa using hraw.cleanOk tf) (by simpa using hm)
  have e2 := collapse_resample_append tf htf init [] (by simpa using hraw.stamped)
    (by simpa using hraw.cleanOk tf) (by simpa using hm)
  simp only [resample, resampleR, List.foldl_nil, List.reverse_nil, List.nil_append, List.append_nil] at e1 e2
  rw [e1] at hX
  cases hX
  exact e2

/-- timeframe + Heikin-Ashi (no fill, no lifespan) -/
theorem tasks_idem_tfHA (cfg : MgrCfg) (tf : Int) (htf : 0 < tf) (h1 : cfg.tf = some tf) (h2 : cfg.fill = false)
    (h3 : cfg.ha = true) (h4 : cfg.lifespan = none) (init : List (Candle F)) (hraw : RawHA init) :
    ∀ X, tasks cfg init = .ok X → tasks cfg X = .ok X := by
  have hcfg : cfg = cfgTfHA tf := by
    obtain ⟨a, b, c, d⟩ := cfg
    simp only at h1 h2 h3 h4
    subst h1 h2 h3 h4
    rfl
  subst hcfg
  intro X hX
  have e1 := tasks_tf_ha_append tf htf [] init (by simpa using hraw)
  have e2 := tasks_tf_ha_append tf htf init [] (by simpa using hraw)
  simp only [resample, resampleR, List.foldl_nil, List.reverse_nil, haSpec_nil, List.nil_append,
    List.append_nil] at e1 e2
  rw [e1] at hX
  cases hX
  exact e2

/-- timeframe + lifespan (no fill, no conversion) -/
theorem tasks_idem_tfLife (cfg : MgrCfg) (tf life : Int) (htf : 0 < tf) (hlife : 0 ≤ life)
    (h1 : cfg.tf = some tf) (h2 : cfg.fill = false) (h3 : cfg.ha = false) (h4 : cfg.lifespan = some life)
    (init : List (Candle F)) (hraw : RawBk init) :
    ∀ X, tasks cfg init = .ok X → tasks cfg X = .ok X := by
  have hcfg : cfg = cfgTfLife tf life := by
    obtain ⟨a, b, c, d⟩ := cfg
    simp only at h1 h2 h3 h4
    subst h1 h2 h3 h4
    rfl
  subst hcfg
  intro X hX
  obtain ⟨n1, e1, hn1, _⟩ := tasks_tf_life_append tf htf life hlife [] init (by simpa using hraw) 0 (Or.inl rfl)
  simp only [resample, resampleR, List.foldl_nil, List.reverse_nil, List.filter_nil, List.nil_append] at e1 hn1
  rw [e1] at hX
  cases hX
  by_cases hnil : init = []
  · subst hnil
    simp only [List.foldl_nil, List.reverse_nil, List.filter_nil]
    exact tasks_nil _
  · have hn1' : (resample tf init).getLast?.bind (·.ts) = some n1 := by
      rcases hn1 with h | h
      · exact absurd h hnil
      · exact h
    obtain ⟨n2, e2, hn2, _⟩ := tasks_tf_life_append tf htf life hlife init [] (by simpa using hraw) n1 (Or.inr hn1')
    simp only [List.append_nil] at e2 hn2
    have : n2 = n1 := by
      rcases hn2 with h | h
      · exact absurd h hnil
      · rw [hn1'] at h; cases h; rfl
    subst this
    exact e2

/-- re-collapsing an in-order bucket list gives it back -/
theorem collapse_bucketed_self (tf : Int) (htf : 0 < tf) (Z : List (Candle F)) (hb : Bucketed tf Z)
    (hc : ∀ c ∈ Z, CleanOk tf c) : collapseCandles (some tf) false Z = .ok Z := by
  have hlab : labels tf Z = Z.filterMap (·.ts) := by
    unfold labels
    apply filterMap_congr'
    intro a ha
    obtain ⟨t, ht, hal⟩ := hb.stamped a ha
    simp [ht, (label_on tf t hal).1]
  have hmono : LabelsMono tf Z := by
    unfold LabelsMono; rw [hlab]; exact hb.incr.imp (fun h => le_of_lt h)
  rw [collapse_eq_resample tf htf Z
    (by intro c hc'; obtain ⟨t, ht, _⟩ := hb.stamped c (List.mem_of_mem_head? hc'); simp [ht]) hc hmono]
  have := resampleR_reverse_self tf Z.reverse (by simpa using hb.reverseR)
  simp only [List.reverse_reverse] at this
  simp [resample, this]

/-- timeframe + gap filling (no conversion, no lifespan) -/
theorem tasks_idem_tfFill (cfg : MgrCfg) (tf : Int) (htf : 0 < tf) (h1 : cfg.tf = some tf) (h2 : cfg.fill = true)
    (h3 : cfg.ha = false) (h4 : cfg.lifespan = none) (init : List (Candle F)) (hraw : RawTf init) :
    ∀ X, tasks cfg init = .ok X → tasks cfg X = .ok X := by
  have hcfg : cfg = cfgFill tf := by
    obtain ⟨a, b, c, d⟩ := cfg
    simp only at h1 h2 h3 h4
    subst h1 h2 h3 h4
    rfl
  subst hcfg
  intro X hX
  obtain ⟨Z, hZ⟩ := filledOf tf htf init hraw
  rw [tasks_fill_raw tf htf init Z hraw hZ] at hX
  have hXZ : Z = X := Except.ok.inj hX
  subst hXZ
  rw [tasks_cfgFill, collapse_fill_eq tf Z
    (by intro c hc; obtain ⟨t, ht, _⟩ := hZ.bucketed.stamped c (List.mem_of_mem_head? hc); simp [ht]),
    collapse_bucketed_self tf htf Z hZ.bucketed hZ.cleanOk]
  exact fillMissing_contiguous tf htf Z hZ.contig

/-- timeframe + gap filling + Heikin-Ashi (no lifespan) -/
theorem tasks_idem_tfFillHA (cfg : MgrCfg) (tf : Int) (htf : 0 < tf) (h1 : cfg.tf = some tf) (h2 : cfg.fill = true)
    (h3 : cfg.ha = true) (h4 : cfg.lifespan = none) (init : List (Candle F)) (hraw : RawTf init)
    (htag : ∀ c ∈ init, c.tag = false) :
    ∀ X, tasks cfg init = .ok X → tasks cfg X = .ok X := by
  have hcfg : cfg = cfgFillHA tf := by
    obtain ⟨a, b, c, d⟩ := cfg
    simp only at h1 h2 h3 h4
    subst h1 h2 h3 h4
    rfl
  subst hcfg
  intro X hX
  obtain ⟨Z0, hZ0⟩ := filledOf tf htf ([] : List (Candle F)) ⟨by simp, by simp, by simp, by simp⟩
  have hnil := filledOf_nil tf Z0 hZ0
  subst hnil
  obtain ⟨Z1, hZ1, e1⟩ := tasks_fill_ha_append tf htf [] init [] (by simpa using hraw) (by simpa using htag) hZ0
  simp only [haSpec_nil, List.nil_append] at e1 hZ1
  rw [e1] at hX
  cases hX
  obtain ⟨Z2, hZ2, e2⟩ := tasks_fill_ha_append tf htf init [] Z1 (by simpa using hraw) (by simpa using htag) hZ1
  simp only [List.append_nil] at e2 hZ2
  have : Z2 = Z1 := by rw [← hZ2.spec_eq, ← hZ1.spec_eq]
  rw [this] at e2
  exact e2

/-! ### the cases proved, spelt out -/

/-- the default manager still holds the raw stream when a member manager is created from it: the Hexital is
constructed without candles (everything arrives through `append`, ANY Hexital-level settings), or it has no
timeframe of its own, is constructed from pristine candles and its lifespan trims none of them at construction
time (Heikin-Ashi or not) -/
inductive RawAtAttach (cfg : MgrCfg) (htf : Option String) (init : List (Candle F)) : Prop
  | empty (h : init = [])
  | raw (htf0 : cfg.tf = none) (hname : htf = none) (hp : ∀ c ∈ init, c.Pristine)
      (hkeep : trimCandles cfg.lifespan init = .ok init)

theorem RawAtAttach.handsOverRaw {cfg : MgrCfg} {htf : Option String} {init : List (Candle F)}
    (h : RawAtAttach cfg htf init) (atf : Option String) (secs : Option Int)
    (hkey : atf.getD defaultKey ≠ defaultKey) : HandsOverRaw cfg htf atf secs init := by
  cases h with
  | empty h => subst h; exact handsOverRaw_nil cfg htf atf secs hkey
  | raw htf0 hname hp hkeep => exact handsOverRaw_rawDefault cfg htf atf secs init hkey htf0 hname hp hkeep

omit [PyF F] in
theorem Writes.getD_ne_default {atf : Option String} (h1 : atf ≠ none) (h2 : atf ≠ some defaultKey) :
    atf.getD defaultKey ≠ defaultKey := by
  cases atf with
  | none => exact absurd rfl h1
  | some t => intro e; exact h2 (by simpa using e)

/-! ### all proved cases in one statement -/

/-- the cases in which the member `a`'s manager, were it created from the default manager's candles right after
construction (as `add_indicator` does, and as the constructor did before the repair), is the manager of the standalone
twin constructed from the caller's candles -/
inductive AttachOK (cfg : MgrCfg) (htf : Option String) (init : List (Candle F)) (a : Member F) : Prop
  /-- no timeframe of its own: the member lives on the default manager (`member_standalone`) -/
  | noTf (h : a.tfName = none)
  /-- the default manager still holds the raw stream (`RawAtAttach`) -/
  | raw (hkey : a.tfName ≠ some defaultKey) (h : RawAtAttach cfg htf init)
  /-- the member's timeframe is the Hexital's own and the manager's tasks are idempotent on the construction
  candles (`tasks_idem_plainTf`, `tasks_idem_tfHA`, `tasks_idem_tfLife`, `tasks_idem_tfFill`, `tasks_idem_tfFillHA`) -/
  | sameTf (hn : a.tfName = htf) (hs : a.tfSecs = cfg.tf)
      (hidem : ∀ X, tasks cfg init = .ok X → tasks cfg X = .ok X)

theorem AttachOK.handsOverRaw {cfg : MgrCfg} {htf : Option String} {init : List (Candle F)} {a : Member F}
    (h : AttachOK cfg htf init a) (hne : a.tfName ≠ none) : HandsOverRaw cfg htf a.tfName a.tfSecs init := by
  cases h with
  | noTf h => exact absurd h hne
  | raw hkey h => exact h.handsOverRaw a.tfName a.tfSecs (Writes.getD_ne_default hne hkey)
  | sameTf hn hs hidem =>
    cases ha : a.tfName with
    | none => exact absurd ha hne
    | some name =>
      rw [← hn, ha, hs]
      exact handsOverRaw_sameTf cfg name init hidem

/-- the former `members_attachOK` (`members_FULL` on the cases of `AttachOK`), now a corollary of `members_all_key`:
the hypothesis `hatt` only serves to supply the key condition -/
theorem members_attachOK (cfg : MgrCfg) (tfName : Option String) (members : List (Member F))
    (init : List (Candle F)) (chunks : List (List (Candle F))) (mem : Member F) (h : Hexital F)
    (twin : IndState F) (N : List String)
    (hmem : mem ∈ members) (huniq : ∀ m' ∈ members, m'.tree.name = mem.tree.name → m' = mem)
    (hoth : ∀ m, m ∈ members → m.tree.name ≠ mem.tree.name → ∀ k, k ∈ m.tree.allNames → k ∈ N)
    (hok : TreeOK N mem.tree)
    (hsecs : ∀ m, m ∈ members → m.tfName = mem.tfName → m.tfSecs = mem.tfSecs)
    (hatt : AttachOK cfg tfName init mem)
    (hrun : (do let h ← Hexital.init cfg tfName init members
                let h ← h.calculate none
                chunks.foldlM (fun (h : Hexital F) ch => h.append ch) h) = .ok h)
    (htwin : (do let s ← IndState.init mem.tree (match mem.tfName with
                                                   | some _ => { cfg with tf := mem.tfSecs }
                                                   | none => cfg) init
                 let s ← s.calculate
                 chunks.foldlM (fun (s : IndState F) ch => s.append ch) s) = .ok twin) :
    ∃ hi m, dlookup mem.tree.name h.indicators = some hi ∧ dlookup hi.mgrKey h.managers = some m ∧
      m.candles.map Candle.core = twin.mgr.candles.map Candle.core ∧
      ∀ k, k ∈ mem.tree.allNames →
        m.candles.map (fun c => (dlookup k c.inds, dlookup k c.subs)) =
        twin.mgr.candles.map (fun c => (dlookup k c.inds, dlookup k c.subs)) :=
  members_all_key cfg tfName members init chunks mem h twin N hmem huniq hoth hok
    (fun m hm he _ => hsecs m hm he)
    (by
      intro e
      cases hatt with
      | noTf h => rw [h] at e; cases e
      | raw hkey _ => exact absurd e hkey
      | sameTf _ hs _ => exact hs) hrun htwin

/-! ### non-vacuity (toy carrier `Int`) -/

theorem isOk_ok {α : Type} {x : PyM α} (h : isOk x = true) : ∃ a, x = .ok a := by
  cases x with
  | ok a => exact ⟨a, rfl⟩
  | error e => cases h

/-! ### decidable forms of the hypotheses of `members_all` -/

omit [PyF F] in
/-- distinct names: a member is the only one of its name -/
theorem Member.uniq_of_nodup (members : List (Member F)) (mem : Member F) (hmem : mem ∈ members)
    (hnd : (members.map (·.tree.name)).Nodup) : ∀ m' ∈ members, m'.tree.name = mem.tree.name → m' = mem := by
  intro m' hm' hn
  induction members with
  | nil => cases hmem
  | cons x r ih =>
    rw [List.map_cons, List.nodup_cons] at hnd
    rcases List.mem_cons.1 hmem with e1 | e1 <;> rcases List.mem_cons.1 hm' with e2 | e2
    · rw [e1, e2]
    · exact absurd (List.mem_map.2 ⟨m', e2, hn.trans (by rw [e1])⟩) hnd.1
    · exact absurd (List.mem_map.2 ⟨mem, e1, hn.symm.trans (by rw [e2])⟩) hnd.1
    · exact ih e1 hnd.2 e2

omit [PyF F] in
theorem Member.others_of_b (members : List (Member F)) (mem : Member F) (N : List String)
    (h : (C13.othersNames mem.tree.name members).all N.contains = true) :
    ∀ m, m ∈ members → m.tree.name ≠ mem.tree.name → ∀ k, k ∈ m.tree.allNames → k ∈ N := by
  intro m hm hn k hk
  have := List.all_eq_true.1 h k (C13.othersNames_spec mem.tree.name members m hm hn k hk)
  simpa using this

omit [PyF F] in
theorem Member.secs_of_b (members : List (Member F)) (mem : Member F)
    (h : members.all (fun m => m.tfName != mem.tfName || m.tfSecs == mem.tfSecs) = true) :
    ∀ m, m ∈ members → m.tfName = mem.tfName → m.tfSecs = mem.tfSecs := by
  intro m hm he
  have := List.all_eq_true.1 h m hm
  simp only [Bool.or_eq_true, bne_iff_ne, ne_eq, beq_iff_eq] at this
  rcases this with h | h
  · exact absurd he h
  · exact h

namespace TwinTfEx

def candle (k : Nat) : Candle Int :=
  let c : Int := 10 + ((k : Int) * 7) % 5
  { o := .int c, h := .int (c + 2), l := .int (c - 1), c := .int (c + 1), v := .int 10, ts := some (60 * (k : Int)) }
def stream : List (Candle Int) := (List.range 8).map candle

def a : Member Int := { tree := mkTop (.sma 2 "close") "SMA_2" 4, tfName := none, tfSecs := none }
def aT : Member Int := { tree := mkTop (.sma 2 "close") "SMA_2_T2" 4, tfName := some "T2", tfSecs := some 120 }
def bT : Member Int := { tree := mkTop (.rsi 2 "close") "RSI_2_T2" 4, tfName := some "T2", tfSecs := some 120 }
def cT : Member Int := { tree := mkTop (.ema 2 "close" (.int 2)) "EMA_2_T3" 4, tfName := some "T3", tfSecs := some 180 }
def members : List (Member Int) := [bT, a, aT, cT]
def others : List String := bT.tree.allNames ++ a.tree.allNames ++ cT.tree.allNames

/-- a Heikin-Ashi Hexital without a timeframe whose lifespan (4 min) trims at construction time already – the
default manager keeps 5 of the 8 construction candles – and again later -/
def cfg : MgrCfg := { ha := true, lifespan := some 240 }

def ops : List (TwinOp Int) :=
  [.calculate none, .append [candle 8, candle 9], .purge (some "RSI_2_T2"), .append [candle 10],
   .recalculate (some "SMA_2_T2"), .calculateIndex none 1, .append [candle 11, candle 12, candle 13]]

/-- the hypotheses of `member_standalone_tf`, decidable forms -/
theorem hyps :
    members.all (fun m => m.tfName != aT.tfName || m.tfSecs == aT.tfSecs) = true ∧
    (C13.othersNames "SMA_2_T2" members).all others.contains = true ∧
    treeOKb others aT.tree = true ∧ ops.all (TwinOp.okb others "SMA_2_T2") = true ∧
    readOK others "SMA_2_T2" = true ∧
    isOk (runHexital cfg none stream members ops) = true := by decide +kernel

/-- the theorem applied: the Hexital run succeeds, so does the plain standalone `SMA(period=2, timeframe="T2",
candlestick_type="HA", candles_lifespan=4 min)` over the candles as given, and the column read through the Hexital is
the standalone indicator's -/
theorem applied : ∃ H twin, runHexital cfg none stream members ops = .ok H ∧
    (do let s ← IndState.init aT.tree { cfg with tf := some 120 } stream
        ops.foldlM (TwinOp.runInd "SMA_2_T2") s) = .ok twin ∧
    H.readingAsList "SMA_2_T2" = .ok (twin.asList (some "SMA_2_T2")) := by
  obtain ⟨h1, h4, h5, h6, h7, h8⟩ := hyps
  obtain ⟨H, hH⟩ := isOk_ok h8
  have hd : Hexital.dedupe members = members := by
    simp [Hexital.dedupe, members, a, aT, bT, cT, mkTop, Ind.name, dset]
  obtain ⟨twin, ht, _, hcol⟩ := member_standalone_tf cfg none stream members aT others ops H
    (by rw [hd]; simp [members])
    (fun m hm he _ => by
      rw [hd] at hm
      have := List.all_eq_true.1 h1 m hm
      simp only [Bool.or_eq_true, bne_iff_ne, ne_eq, beq_iff_eq] at this
      rcases this with h | h
      · exact absurd he h
      · exact h)
    (Writes.key_of_ne (by decide))
    (fun m hm hn k hk => by
      rw [hd] at hm
      have := List.all_eq_true.1 h4 k (C13.othersNames_spec "SMA_2_T2" members m hm hn k hk)
      simpa using this)
    (treeOK_of_b h5) (TwinOp.ok_of_okb ops h6) hH
  exact ⟨H, twin, hH, ht, hcol "SMA_2_T2" (by decide) h7⟩

/-- … and it is not about empty columns or untrimmed lists: the default manager keeps 5 of the 8 construction
candles, the member manager 3 buckets of 4; at the end the member manager holds 3 buckets, each with a reading -/
theorem applied_nontrivial :
    (match Manager.init cfg stream, Manager.init { cfg with tf := some 120 } stream,
        (do let s ← IndState.init aT.tree { cfg with tf := some 120 } stream
            ops.foldlM (TwinOp.runInd "SMA_2_T2") s) with
     | .ok dm, .ok km, .ok twin => (dm.candles.length, km.candles.length, (twin.asList none).map Val.isNone)
     | _, _, _ => (0, 0, [])) = (5, 3, [false, false, false]) := by decide +kernel

/-- the statement of `members_FULL` on a Hexital WITH a timeframe (`T1`), gap filling and a lifespan (5 min) that
trims at construction time: constructed from 14 half-minute candles (7 min), fed the rest in chunks; members with
two different timeframes (`T2`: `RSI_2_T2`, `SMA_2_T2`; `T3`: `EMA_2_T3`) next to `SMA_2` on the `T1` default manager -/
def cfg1 : MgrCfg := { tf := some 60, fill := true, lifespan := some 300 }
def half (k : Nat) : Candle Int := { candle k with ts := some (30 * (k : Int) + 30) }
def init1 : List (Candle Int) := (List.range 14).map half
def chunks : List (List (Candle Int)) :=
  [[half 14, half 15, half 16], [], [half 17], [half 18, half 19, half 20, half 21, half 22], [half 23, half 24, half 25]]

def run1 : PyM (Hexital Int) := do
  let h ← Hexital.init cfg1 (some "T1") init1 members
  let h ← h.calculate none
  chunks.foldlM (fun (h : Hexital Int) ch => h.append ch) h

/-- the standalone twin of a member, in the very words of `members_FULL` -/
def twinOf (mem : Member Int) : PyM (IndState Int) := do
  let s ← IndState.init mem.tree (match mem.tfName with
                                   | some _ => { cfg1 with tf := mem.tfSecs }
                                   | none => cfg1) init1
  let s ← s.calculate
  chunks.foldlM (fun (s : IndState Int) ch => s.append ch) s

def others3 : List String := bT.tree.allNames ++ a.tree.allNames ++ aT.tree.allNames

/-- the hypotheses of `members_all` for the members `SMA_2_T2` (T2) and `EMA_2_T3` (T3), decidable forms -/
theorem hyps1 :
    (members.map (·.tree.name)).Nodup ∧
    ((C13.othersNames aT.tree.name members).all others.contains = true ∧ treeOKb others aT.tree = true ∧
     members.all (fun m => m.tfName != aT.tfName || m.tfSecs == aT.tfSecs) = true) ∧
    ((C13.othersNames cT.tree.name members).all others3.contains = true ∧ treeOKb others3 cT.tree = true ∧
     members.all (fun m => m.tfName != cT.tfName || m.tfSecs == cT.tfSecs) = true) ∧
    isOk run1 = true ∧ isOk (twinOf aT) = true ∧ isOk (twinOf cT) = true := by decide +kernel

/-- the lifespan trims at construction time (the `T1` default manager keeps 6 of its 7 buckets; the member managers
hold 3 `T2` / 2 `T3` buckets), and at the end the twins have readings: on every `T2` bucket, on the last `T3` bucket -/
theorem hyps1_nontrivial :
    (match Manager.init cfg1 init1, Manager.init { cfg1 with lifespan := none } init1,
        Manager.init { cfg1 with tf := some 120 } init1, Manager.init { cfg1 with tf := some 180 } init1,
        twinOf aT, twinOf cT with
     | .ok dm, .ok dm0, .ok km2, .ok km3, .ok t2, .ok t3 =>
       (dm.candles.length, dm0.candles.length, km2.candles.length, km3.candles.length,
        (t2.asList none).map Val.isNone, (t3.asList none).map Val.isNone)
     | _, _, _, _, _, _ => (0, 0, 0, 0, [], [])) = (6, 7, 3, 2, [false, false, false], [true, false]) := by
  decide +kernel

theorem applied1 : ∃ h twin hi m, run1 = .ok h ∧ twinOf aT = .ok twin ∧
    dlookup "SMA_2_T2" h.indicators = some hi ∧ dlookup hi.mgrKey h.managers = some m ∧
    m.candles.map Candle.core = twin.mgr.candles.map Candle.core ∧
    storedUnder "SMA_2_T2" m.candles = storedUnder "SMA_2_T2" twin.mgr.candles := by
  obtain ⟨hnd, ⟨h1, h2, h3⟩, _, h7, h8, _⟩ := hyps1
  obtain ⟨h, hh⟩ := isOk_ok h7
  obtain ⟨twin, ht⟩ := isOk_ok h8
  have hmem : aT ∈ members := by simp [members]
  obtain ⟨hi, m, e1, e2, e3, e4⟩ := members_all cfg1 (some "T1") members init1 chunks aT h twin others
    hmem (Member.uniq_of_nodup members aT hmem hnd) (Member.others_of_b members aT others h1) (treeOK_of_b h2)
    (Member.secs_of_b members aT h3) (by decide) hh ht
  exact ⟨h, twin, hi, m, hh, ht, e1, e2, e3, e4 "SMA_2_T2" (by decide)⟩

/-- Part B, (c): the member's timeframe is the Hexital's own (`T2`); a member manager created late re-collapses the
default manager's buckets -/
theorem rawBk_stream : RawBk stream :=
  ⟨by simp [stream, candle], by simp [stream, candle], by decide⟩

example : HandsOverRaw { tf := some 120 } (some "T2") (some "T2") (some 120) stream :=
  handsOverRaw_sameTf { tf := some 120 } "T2" stream
    (tasks_idem_plainTf _ 120 (by decide) rfl rfl rfl rfl stream rawBk_stream)

example : HandsOverRaw { tf := some 120, lifespan := some 240 } (some "T2") (some "T2") (some 120) stream :=
  handsOverRaw_sameTf { tf := some 120, lifespan := some 240 } "T2" stream
    (tasks_idem_tfLife _ 120 240 (by decide) (by decide) rfl rfl rfl rfl stream rawBk_stream)

example : HandsOverRaw { tf := some 120, ha := true } (some "T2") (some "T2") (some 120) stream :=
  handsOverRaw_sameTf { tf := some 120, ha := true } "T2" stream
    (tasks_idem_tfHA _ 120 (by decide) rfl rfl rfl rfl stream
      ⟨rawBk_stream.stamped, fun c hc => ⟨by revert c; simp [stream, candle], rawBk_stream.cleanNone c hc⟩,
       rawBk_stream.sorted⟩)

end TwinTfEx


end Hex

#print axioms Hex.member_standalone_tf
#print axioms Hex.members_all_key
#print axioms Hex.members_all
#print axioms Hex.members_attachOK
#print axioms Hex.TwinTfEx.applied
#print axioms Hex.TwinTfEx.applied1

import HexProofs.Writes.PresenceLateTf
import HexProofs.Numeric.TotalMoreHA
/-
C13, presence – the instances of `presence_late_tf` (HexProofs/Writes/PresenceLateTf.lean):

  Hexital-level configuration          member manager (timeframe `t`)         link
  `{}`                                 `MgrSpec.tf t`                          `lateLink_plain`
  `{fill := true}`                     `MgrSpec.fill t`                        `lateLink_fill`
  `{ha := true}`                       `MgrSpec.tfHA t`                        `lateLink_ha`
  `{fill := true, ha := true}`         `MgrSpec.fillHA t`                      `lateLink_fillHA`

on streams of PRISTINE candles (`RawTfHA`: stamped, sorted, no readings, never converted), for every shipped class
(`CoveredTreeX`): `presence_late_tf_covered`.  Under Heikin-Ashi the default manager holds CONVERTED candles; handing
them over (`recover_clean_values`, `clean_values = {}`, `reset_candle`) gives the raw stream back (`HaRel.map_handOver`)
and the new member manager converts its own buckets – exactly what the manager built by the constructor from the
candles as given does.
Heikin-Ashi Hexitals and a member WITHOUT own timeframe are instances of `presence_late` as it stands (`MgrSpec.ha`,
`MgrSpec.tfHA`, `MgrSpec.fillHA`): `presence_late_ha_covered`.
-/
namespace Hex
variable {F : Type} [PyF F]

/-! ### the gap-filling flag without a timeframe does nothing -/

theorem tasks_setFill (cfg : MgrCfg) (htf : cfg.tf = none) (b : Bool) (cs : List (Candle F)) :
    tasks { cfg with fill := b } cs = tasks cfg cs := by
  unfold tasks collapseCandles
  simp only [htf]

/-- the same manager spec with the (idle) fill flag set -/
def MgrSpec.setFill (M : MgrSpec F) (htf : M.cfg.tf = none) (b : Bool) : MgrSpec F where
  cfg := { M.cfg with fill := b }
  Ok := M.Ok
  spec := M.spec
  ok_left := M.ok_left
  spec_plain := M.spec_plain
  init := fun s h => by rw [tasks_setFill M.cfg htf]; exact M.init s h
  append := fun s new done hok hne hd => by
    obtain ⟨k, Q, h1, h2, h3, h4⟩ := M.append s new done hok hne hd
    exact ⟨k, Q, h1, h2, by rw [tasks_setFill M.cfg htf]; exact h3, h4⟩

/-! ### the links -/

omit [PyF F] in
theorem RawTfHA.pristine {s : List (Candle F)} (h : RawTfHA s) : ∀ c ∈ s, c.Pristine :=
  fun c hc => ⟨h.1.cleanNone c hc, (h.1.plain c hc).1, (h.1.plain c hc).2, h.2 c hc⟩

omit [PyF F] in
theorem map_handOver_pristine (s : List (Candle F)) (h : ∀ c ∈ s, c.Pristine) : s.map Candle.handOver = s := by
  rw [List.map_congr_left (fun c hc => Candle.handOver_pristine c (h c hc))]; simp

omit [PyF F] in
theorem RawTfHA.rawHAPlain {s : List (Candle F)} (h : RawTfHA s) : RawHAPlain s :=
  fun c hc => ⟨h.1.plain c hc, h.2 c hc⟩

/-- plain Hexital, member with timeframe `t` -/
theorem lateLink_plain (t : Int) (ht : 0 < t) :
    LateLink (MgrSpec.base F) (MgrSpec.tf F t ht) (some t) RawTfHA where
  cfg' := rfl
  okL := fun _ _ h => h.append_left
  okM := fun _ h => h.1.plain
  okM' := fun _ h => h.1
  hand := fun s h => map_handOver_pristine s h.pristine

/-- Hexital with the fill flag (idle on the default manager), member with timeframe `t`: gap-filled buckets -/
theorem lateLink_fill (t : Int) (ht : 0 < t) :
    LateLink ((MgrSpec.base F).setFill rfl true) (MgrSpec.fill F t ht) (some t) RawTfHA where
  cfg' := rfl
  okL := fun _ _ h => h.append_left
  okM := fun _ h => h.1.plain
  okM' := fun _ h => h.1
  hand := fun s h => map_handOver_pristine s h.pristine

/-- Heikin-Ashi Hexital, member with timeframe `t`: the default manager holds converted candles, handing them over
gives the raw stream back, the member manager converts its own buckets -/
theorem lateLink_ha (t : Int) (ht : 0 < t) :
    LateLink (MgrSpec.ha F) (MgrSpec.tfHA F t ht) (some t) RawTfHA where
  cfg' := rfl
  okL := fun _ _ h => h.append_left
  okM := fun _ h => h.rawHAPlain
  okM' := fun _ h => h
  hand := fun s h => (haSpec_rel s).map_handOver h.pristine

/-- Heikin-Ashi + fill flag -/
theorem lateLink_fillHA (t : Int) (ht : 0 < t) :
    LateLink ((MgrSpec.ha F).setFill rfl true) (MgrSpec.fillHA F t ht) (some t) RawTfHA where
  cfg' := rfl
  okL := fun _ _ h => h.append_left
  okM := fun _ h => h.rawHAPlain
  okM' := fun _ h => h
  hand := fun s h => (haSpec_rel s).map_handOver h.pristine

/-- the Hexital-level manager spec for `{ fill := fill, ha := ha }` (no timeframe, no lifespan) -/
def hostSpec (F : Type) [PyF F] (ha fill : Bool) : MgrSpec F :=
  match ha, fill with
  | false, false => MgrSpec.base F
  | false, true => (MgrSpec.base F).setFill rfl true
  | true, false => MgrSpec.ha F
  | true, true => (MgrSpec.ha F).setFill rfl true

/-- … and of a member manager with timeframe `t` under it -/
def memberSpec (F : Type) [PyF F] (ha fill : Bool) (t : Int) (ht : 0 < t) : MgrSpec F :=
  match ha, fill with
  | false, false => MgrSpec.tf F t ht
  | false, true => MgrSpec.fill F t ht
  | true, false => MgrSpec.tfHA F t ht
  | true, true => MgrSpec.fillHA F t ht

theorem hostSpec_cfg (ha fill : Bool) : (hostSpec F ha fill).cfg = { fill := fill, ha := ha } := by
  cases ha <;> cases fill <;> rfl

theorem memberSpec_cfg (ha fill : Bool) (t : Int) (ht : 0 < t) :
    (memberSpec F ha fill t ht).cfg = { tf := some t, fill := fill, ha := ha } := by
  cases ha <;> cases fill <;> rfl

theorem lateLink_host (ha fill : Bool) (t : Int) (ht : 0 < t) :
    LateLink (hostSpec F ha fill) (memberSpec F ha fill t ht) (some t) RawTfHA := by
  cases ha <;> cases fill
  · exact lateLink_plain t ht
  · exact lateLink_fill t ht
  · exact lateLink_ha t ht
  · exact lateLink_fillHA t ht

/-! ### every shipped class -/

/-- **`presence_late_tf` for the shipped classes** (`CoveredTreeX`): Hexital configuration `{ fill, ha }` (no Hexital
timeframe, no lifespan – Heikin-Ashi on or off), member `a` with its own timeframe (`key`, `t` seconds) handed to the
constructor or added late at any point of either program; streams of pristine candles (`RawTfHA`). -/
theorem presence_late_tf_covered (ha fill : Bool) (t : Int) (ht : 0 < t)
    (tf₁ tf₂ : Option String) (init : List (Candle F)) (ms₁ ms₂ : List (Member F))
    (a : Member F) (k : Kind F) (name : String) (round : Nat) (hk : CoveredTreeX name k)
    (hatree : a.tree = mkTop k name round) (key : String) (hatf : a.tfName = some key) (hsecs : a.tfSecs = some t)
    (hkey : key ≠ defaultKey) (htf₁ : tf₁ ≠ some key) (htf₂ : tf₂ ≠ some key)
    (N₁ N₂ : List String) (ops₁ ops₂ : List (TwinOp F)) (H₁ H₂ : Hexital F)
    (hms₁ : ∀ m, m ∈ Hexital.dedupe ms₁ → m = a ∨ (m.tree.name ≠ a.tree.name ∧ ∀ k, k ∈ m.tree.allNames → k ∈ N₁))
    (hms₂ : ∀ m, m ∈ Hexital.dedupe ms₂ → m = a ∨ (m.tree.name ≠ a.tree.name ∧ ∀ k, k ∈ m.tree.allNames → k ∈ N₂))
    (hok₁ : TreeOK N₁ a.tree) (hok₂ : TreeOK N₂ a.tree)
    (hops₁ : ∀ op, op ∈ ops₁ → op.LateOK N₁ a) (hops₂ : ∀ op, op ∈ ops₂ → op.LateOK N₂ a)
    (hshOps : ∀ op, op ∈ ops₁ ++ ops₂ → op.ShareOK a)
    (hshMs : ∀ m, m ∈ ms₁ ++ ms₂ → m.tfName = a.tfName → m.tfSecs = a.tfSecs)
    (hsame : (TwinOp.chunks ops₁).flatten = (TwinOp.chunks ops₂).flatten)
    (hraw : RawTfHA (init ++ (TwinOp.chunks ops₁).flatten))
    (hr₁ : runHexital { fill := fill, ha := ha } tf₁ init ms₁ (ops₁ ++ [.calculate none]) = .ok H₁)
    (hr₂ : runHexital { fill := fill, ha := ha } tf₂ init ms₂ (ops₂ ++ [.calculate none]) = .ok H₂)
    (hreg₁ : ∃ hi, dlookup a.tree.name H₁.indicators = some hi)
    (hreg₂ : ∃ hi, dlookup a.tree.name H₂.indicators = some hi) :
    (∀ nm, (splitDot nm).headD "" = a.tree.name → readOK N₁ nm = true → readOK N₂ nm = true →
      H₁.readingAsList nm = H₂.readingAsList nm) ∧
    (∃ hi₁ m₁ hi₂ m₂, dlookup a.tree.name H₁.indicators = some hi₁ ∧ dlookup hi₁.mgrKey H₁.managers = some m₁ ∧
        dlookup a.tree.name H₂.indicators = some hi₂ ∧ dlookup hi₂.mgrKey H₂.managers = some m₂ ∧
        hi₁.tree = a.tree ∧ hi₂.tree = a.tree ∧
        m₁.candles.map Candle.core = m₂.candles.map Candle.core ∧
        ∀ k, k ∈ a.tree.allNames → storedUnder k m₁.candles = storedUnder k m₂.candles) := by
  obtain ⟨T, _⟩ := hk.spec round
  have T' : TreeSpec a.tree := hatree ▸ T
  have hcfg := hostSpec_cfg (F := F) ha fill
  rw [← hcfg] at hr₁ hr₂
  exact presence_late_tf (hostSpec F ha fill) (memberSpec F ha fill t ht) (some t) RawTfHA (lateLink_host ha fill t ht)
    tf₁ tf₂ init ms₁ ms₂ a N₁ N₂ ops₁ ops₂ H₁ H₂ T' key hatf hsecs hkey htf₁ htf₂ hms₁ hms₂ hok₁ hok₂ hops₁ hops₂
    hshOps hshMs hsame hraw hr₁ hr₂ hreg₁ hreg₂

/-! ### Heikin-Ashi Hexitals, member WITHOUT own timeframe: instances of `presence_late` -/

/-- the manager spec of a Heikin-Ashi Hexital: base timeframe, Hexital-level timeframe, timeframe + fill -/
def mgrSpecOfHA (F : Type) [PyF F] (tf : Option Int) (htf : ∀ t, tf = some t → 0 < t) (fill : Bool) : MgrSpec F :=
  match tf, htf with
  | none, _ => if fill then (MgrSpec.ha F).setFill rfl true else MgrSpec.ha F
  | some t, h => if fill then MgrSpec.fillHA F t (h t rfl) else MgrSpec.tfHA F t (h t rfl)

theorem mgrSpecOfHA_cfg (tf : Option Int) (htf : ∀ t, tf = some t → 0 < t) (fill : Bool) :
    (mgrSpecOfHA F tf htf fill).cfg = { tf := tf, fill := fill, ha := true } := by
  cases tf with
  | none => cases fill <;> rfl
  | some t => cases fill <;> rfl

theorem mgrSpecOfHA_ok (tf : Option Int) (htf : ∀ t, tf = some t → 0 < t) (fill : Bool)
    (s : List (Candle F)) (h : RawTfHA s) : (mgrSpecOfHA F tf htf fill).Ok s := by
  cases tf with
  | none => cases fill <;> exact h.rawHAPlain
  | some t => cases fill <;> exact h

/-- **`presence_late` under Heikin-Ashi, every shipped class**: Hexital configuration `{ tf, fill, ha := true }` (any
Hexital-level timeframe or none, gap filling on or off), member `a` without own timeframe handed to the constructor
or added late. -/
theorem presence_late_ha_covered (tfs : Option Int) (htfs : ∀ t, tfs = some t → 0 < t) (fill : Bool)
    (tf₁ tf₂ : Option String) (init : List (Candle F)) (ms₁ ms₂ : List (Member F))
    (a : Member F) (k : Kind F) (name : String) (round : Nat) (hk : CoveredTreeX name k)
    (hatree : a.tree = mkTop k name round) (hatf : a.tfName = none)
    (N₁ N₂ : List String) (ops₁ ops₂ : List (TwinOp F)) (H₁ H₂ : Hexital F)
    (hms₁ : ∀ m, m ∈ Hexital.dedupe ms₁ → m = a ∨ (m.tree.name ≠ a.tree.name ∧ ∀ k, k ∈ m.tree.allNames → k ∈ N₁))
    (hms₂ : ∀ m, m ∈ Hexital.dedupe ms₂ → m = a ∨ (m.tree.name ≠ a.tree.name ∧ ∀ k, k ∈ m.tree.allNames → k ∈ N₂))
    (hok₁ : TreeOK N₁ a.tree) (hok₂ : TreeOK N₂ a.tree)
    (hops₁ : ∀ op, op ∈ ops₁ → op.LateOK N₁ a) (hops₂ : ∀ op, op ∈ ops₂ → op.LateOK N₂ a)
    (hsame : (TwinOp.chunks ops₁).flatten = (TwinOp.chunks ops₂).flatten)
    (hraw : RawTfHA (init ++ (TwinOp.chunks ops₁).flatten))
    (hr₁ : runHexital { tf := tfs, fill := fill, ha := true } tf₁ init ms₁ (ops₁ ++ [.calculate none]) = .ok H₁)
    (hr₂ : runHexital { tf := tfs, fill := fill, ha := true } tf₂ init ms₂ (ops₂ ++ [.calculate none]) = .ok H₂)
    (hreg₁ : ∃ hi, dlookup a.tree.name H₁.indicators = some hi)
    (hreg₂ : ∃ hi, dlookup a.tree.name H₂.indicators = some hi) :
    (∀ nm, (splitDot nm).headD "" = a.tree.name → readOK N₁ nm = true → readOK N₂ nm = true →
      H₁.readingAsList nm = H₂.readingAsList nm) ∧
    (∃ hi₁ m₁ hi₂ m₂, dlookup a.tree.name H₁.indicators = some hi₁ ∧ dlookup hi₁.mgrKey H₁.managers = some m₁ ∧
        dlookup a.tree.name H₂.indicators = some hi₂ ∧ dlookup hi₂.mgrKey H₂.managers = some m₂ ∧
        hi₁.tree = a.tree ∧ hi₂.tree = a.tree ∧
        m₁.candles.map Candle.core = m₂.candles.map Candle.core ∧
        ∀ k, k ∈ a.tree.allNames → storedUnder k m₁.candles = storedUnder k m₂.candles) := by
  obtain ⟨T, _⟩ := hk.spec round
  have T' : TreeSpec a.tree := hatree ▸ T
  have hcfg := mgrSpecOfHA_cfg (F := F) tfs htfs fill
  rw [← hcfg] at hr₁ hr₂
  exact presence_late (mgrSpecOfHA F tfs htfs fill) tf₁ tf₂ init ms₁ ms₂ a N₁ N₂ ops₁ ops₂ H₁ H₂ T' hatf hms₁ hms₂
    hok₁ hok₂ hops₁ hops₂ hsame (mgrSpecOfHA_ok tfs htfs fill _ hraw) hr₁ hr₂ hreg₁ hreg₂

end Hex

#print axioms Hex.lateLink_host
#print axioms Hex.presence_late_tf_covered
#print axioms Hex.presence_late_ha_covered

import HexProofs.Writes.StripAccess
/-
Read-set locality, part 3: `_calculate_reading` of every kind commutes with `strip N`, provided
the names it reads are `readOK` and the services commute.
-/
set_option linter.unusedSimpArgs false
namespace Hex
variable {F : Type} [PyF F] {N : List String}

/-- the services on stripped candles are the stripped services -/
structure OpsStrip (N : List String) (ops ops' : Ops F) : Prop where
  hset : ∀ key v cs, ops'.setManaged key v (cs.map (strip N)) = List.map (strip N) <$> ops.setManaged key v cs
  hcalc : ∀ key cs, ops'.calcManaged key (cs.map (strip N)) = List.map (strip N) <$> ops.calcManaged key cs

/-- post-processing of a `_calculate_reading` result -/
def stripRes (N : List String) (p : Val F × List (Candle F)) : Val F × List (Candle F) := (p.1, p.2.map (strip N))

/-- the rewriting that proves every commutation below: push `strip` through the accessors, the
services and the monad -/
syntax "strip_simp" " [" Lean.Parser.Tactic.simpLemma,* "]" : tactic
macro_rules
  | `(tactic| strip_simp [$ts,*]) => `(tactic|
      simp only [Ctx.prevExists_strip, Ctx.prevNum_strip, Ctx.num_strip, Ctx.readingPeriod_strip,
        Ctx.candlesSum_strip, Ctx.reading_strip, Ctx.prevReading_strip,
        readingByIndex_strip, readingPeriod_strip, candlesSum_strip, readingByCandle_strip,
        map_readingByCandle_strip, Writes.pyIndex_map, Writes.pySlice_map, List.length_map, List.isEmpty_map,
        strip_positive, strip_negative, strip_realbody, strip_shadowUpper, strip_shadowLower, strip_highLow,
        strip_o, strip_h, strip_l, strip_c, strip_v,
        readOK_open, readOK_high, readOK_low, readOK_close, readOK_volume,
        map_bind, bind_map_left, map_pure, bind_assoc, pure_bind, Writes.map_ite', Writes.ite_bind', stripRes, $ts,*])

/-! ### kinds that only read -/

theorem Calc.sma_strip (cs : List (Candle F)) (i : Int) (nm : String) (p : Int) (input : String)
    (h1 : readOK N nm = true) (h2 : readOK N input = true) :
    Calc.sma ⟨cs.map (strip N), i, nm⟩ p input = Calc.sma ⟨cs, i, nm⟩ p input := by
  unfold Calc.sma; strip_simp [h1, h2]

theorem Calc.ema_strip (cs : List (Candle F)) (i : Int) (nm : String) (p : Int) (input : String) (s : Num F)
    (h1 : readOK N nm = true) (h2 : readOK N input = true) :
    Calc.ema ⟨cs.map (strip N), i, nm⟩ p input s = Calc.ema ⟨cs, i, nm⟩ p input s := by
  unfold Calc.ema; strip_simp [h1, h2]

theorem Calc.rma_strip (cs : List (Candle F)) (i : Int) (nm : String) (p : Int) (input : String)
    (h1 : readOK N nm = true) (h2 : readOK N input = true) :
    Calc.rma ⟨cs.map (strip N), i, nm⟩ p input = Calc.rma ⟨cs, i, nm⟩ p input := by
  unfold Calc.rma; strip_simp [h1, h2]

theorem Calc.wma_strip (cs : List (Candle F)) (i : Int) (nm : String) (p : Int) (input : String)
    (h1 : readOK N nm = true) (h2 : readOK N input = true) :
    Calc.wma ⟨cs.map (strip N), i, nm⟩ p input = Calc.wma ⟨cs, i, nm⟩ p input := by
  unfold Calc.wma; strip_simp [h1, h2]

theorem Calc.vwma_strip (cs : List (Candle F)) (i : Int) (nm : String) (p : Int)
    (h1 : readOK N nm = true) :
    Calc.vwma ⟨cs.map (strip N), i, nm⟩ p = Calc.vwma ⟨cs, i, nm⟩ p := by
  unfold Calc.vwma; strip_simp [h1]

theorem Calc.tr_strip (cs : List (Candle F)) (i : Int) (nm : String) :
    Calc.tr ⟨cs.map (strip N), i, nm⟩ = Calc.tr ⟨cs, i, nm⟩ := by
  unfold Calc.tr; strip_simp [readOK_close]

theorem Calc.hla_strip (cs : List (Candle F)) (i : Int) (nm : String) :
    Calc.hla ⟨cs.map (strip N), i, nm⟩ = Calc.hla ⟨cs, i, nm⟩ := by
  unfold Calc.hla; strip_simp [readOK_close]

theorem Calc.obv_strip (cs : List (Candle F)) (i : Int) (nm : String) (h1 : readOK N nm = true) :
    Calc.obv ⟨cs.map (strip N), i, nm⟩ = Calc.obv ⟨cs, i, nm⟩ := by
  unfold Calc.obv; strip_simp [h1]

theorem Calc.roc_strip (cs : List (Candle F)) (i : Int) (nm : String) (p : Int) (input : String)
    (h1 : readOK N nm = true) (h2 : readOK N input = true) :
    Calc.roc ⟨cs.map (strip N), i, nm⟩ p input = Calc.roc ⟨cs, i, nm⟩ p input := by
  unfold Calc.roc; strip_simp [h1, h2]

theorem Calc.counter_strip (cs : List (Candle F)) (i : Int) (nm : String) (input : String) (cv : Scalar F)
    (h1 : readOK N nm = true) (h2 : readOK N input = true) :
    Calc.counter ⟨cs.map (strip N), i, nm⟩ input cv = Calc.counter ⟨cs, i, nm⟩ input cv := by
  unfold Calc.counter; strip_simp [h1, h2]

theorem Calc.atr_strip (cs : List (Candle F)) (i : Int) (nm : String) (p : Int) (trName : String)
    (h1 : readOK N nm = true) (h2 : readOK N trName = true) :
    Calc.atr ⟨cs.map (strip N), i, nm⟩ p trName = Calc.atr ⟨cs, i, nm⟩ p trName := by
  unfold Calc.atr; strip_simp [h1, h2]

theorem Calc.bbands_strip (cs : List (Candle F)) (i : Int) (nm : String) (a b : String)
    (h1 : readOK N a = true) (h2 : readOK N b = true) :
    Calc.bbands ⟨cs.map (strip N), i, nm⟩ a b = Calc.bbands ⟨cs, i, nm⟩ a b := by
  unfold Calc.bbands; strip_simp [h1, h2]

theorem Calc.kc_strip (cs : List (Candle F)) (i : Int) (nm : String) (m : Num F)
    (h1 : readOK N (nm ++ "_EMA") = true) (h2 : readOK N (nm ++ "_ATR") = true) :
    Calc.kc ⟨cs.map (strip N), i, nm⟩ m = Calc.kc ⟨cs, i, nm⟩ m := by
  unfold Calc.kc; strip_simp [h1, h2]

theorem Calc.stdevthres_strip (cs : List (Candle F)) (i : Int) (nm : String) (input : String) (m : Num F)
    (h1 : readOK N (nm ++ "_stdev") = true) (h2 : readOK N input = true) :
    Calc.stdevthres ⟨cs.map (strip N), i, nm⟩ input m = Calc.stdevthres ⟨cs, i, nm⟩ input m := by
  unfold Calc.stdevthres; strip_simp [h1, h2]

/-! ### the analysis functions (`Amorph`, and the windows used by Donchian / HighestLowest / Aroon) -/

namespace Mov

theorem cleanScalars_strip {ind : String} (h : readOK N ind = true) (cs : List (Candle F)) (len idx : Int) (b : Bool) :
    cleanScalars (cs.map (strip N)) ind len idx b = cleanScalars cs ind len idx b := by
  unfold cleanScalars; strip_simp [h]

theorem cleanReadings_strip {ind : String} (h : readOK N ind = true) (cs : List (Candle F)) (len idx : Int) (b : Bool) :
    cleanReadings (cs.map (strip N)) ind len idx b = cleanReadings cs ind len idx b := by
  unfold cleanReadings; rw [cleanScalars_strip h]

theorem positive_strip (cs : List (Candle F)) (idx : Int) : positive (cs.map (strip N)) idx = positive cs idx := by
  unfold positive; strip_simp [readOK_close]
  split
  · rfl
  · cases pyIndex cs idx <;> rfl

theorem negative_strip (cs : List (Candle F)) (idx : Int) : negative (cs.map (strip N)) idx = negative cs idx := by
  unfold negative; strip_simp [readOK_close]
  split
  · rfl
  · cases pyIndex cs idx <;> rfl

theorem aboveB_strip {a b : String} (ha : readOK N a = true) (hb : readOK N b = true) (cs : List (Candle F)) (idx : Int) :
    aboveB (cs.map (strip N)) a b idx = aboveB cs a b idx := by
  unfold aboveB; strip_simp [ha, hb]

theorem belowB_strip {a b : String} (ha : readOK N a = true) (hb : readOK N b = true) (cs : List (Candle F)) (idx : Int) :
    belowB (cs.map (strip N)) a b idx = belowB cs a b idx := by
  unfold belowB; strip_simp [ha, hb]

theorem above_strip {a b : String} (ha : readOK N a = true) (hb : readOK N b = true) (cs : List (Candle F)) (idx : Int) :
    above (cs.map (strip N)) a b idx = above cs a b idx := by
  unfold above; rw [aboveB_strip ha hb]

theorem below_strip {a b : String} (ha : readOK N a = true) (hb : readOK N b = true) (cs : List (Candle F)) (idx : Int) :
    below (cs.map (strip N)) a b idx = below cs a b idx := by
  unfold below; rw [belowB_strip ha hb]

theorem valueRange_strip {ind : String} (h : readOK N ind = true) (cs : List (Candle F)) (len idx : Int) :
    valueRange (cs.map (strip N)) ind len idx = valueRange cs ind len idx := by
  unfold valueRange; strip_simp [cleanReadings_strip h]

theorem monotone_strip {ind : String} (h : readOK N ind = true) (cs : List (Candle F)) (len idx : Int)
    (bad : Num F → Num F → Bool) : monotone (cs.map (strip N)) ind len idx bad = monotone cs ind len idx bad := by
  unfold monotone; strip_simp [cleanReadings_strip h, h]

theorem meanCmp_strip {ind : String} (h : readOK N ind = true) (cs : List (Candle F)) (len idx : Int)
    (good : Num F → Num F → Bool) : meanCmp (cs.map (strip N)) ind len idx good = meanCmp cs ind len idx good := by
  unfold meanCmp; strip_simp [cleanReadings_strip h, h]

theorem extreme_strip {ind : String} (h : readOK N ind = true) (cs : List (Candle F)) (len idx : Int)
    (better : Num F → Num F → Bool) : extreme (cs.map (strip N)) ind len idx better = extreme cs ind len idx better := by
  unfold extreme; strip_simp [cleanScalars_strip h]

theorem extremeBar_strip {ind : String} (h : readOK N ind = true) (cs : List (Candle F)) (len idx : Int)
    (better : Num F → Num F → Bool) :
    extremeBar (cs.map (strip N)) ind len idx better = extremeBar cs ind len idx better := by
  unfold extremeBar; strip_simp [h]

theorem cross_strip {a b : String} (ha : readOK N a = true) (hb : readOK N b = true) (cs : List (Candle F))
    (len idx : Int) : cross (cs.map (strip N)) a b len idx = cross cs a b len idx := by
  unfold cross; strip_simp [ha, hb]

theorem crossover_strip {a b : String} (ha : readOK N a = true) (hb : readOK N b = true) (cs : List (Candle F))
    (len idx : Int) : crossover (cs.map (strip N)) a b len idx = crossover cs a b len idx := by
  unfold crossover; strip_simp [aboveB_strip ha hb, belowB_strip ha hb]

theorem crossunder_strip {a b : String} (ha : readOK N a = true) (hb : readOK N b = true) (cs : List (Candle F))
    (len idx : Int) : crossunder (cs.map (strip N)) a b len idx = crossunder cs a b len idx := by
  unfold crossunder; strip_simp [aboveB_strip ha hb, belowB_strip ha hb]

end Mov

namespace Pat

theorem avgOf_strip (f : Candle F → Num F) (hf : ∀ c, f (strip N c) = f c) (cs : List (Candle F)) (len idx : Int) :
    avgOf f (cs.map (strip N)) len idx = avgOf f cs len idx := by
  unfold avgOf; strip_simp [hf]

theorem realbodyAvg_strip (cs : List (Candle F)) (len idx : Int) :
    realbodyAvg (cs.map (strip N)) len idx = realbodyAvg cs len idx :=
  avgOf_strip _ (fun _ => rfl) cs len idx

theorem highLowAvg_strip (cs : List (Candle F)) (len idx : Int) :
    highLowAvg (cs.map (strip N)) len idx = highLowAvg cs len idx :=
  avgOf_strip _ (fun _ => rfl) cs len idx

theorem candleDoji_strip (cs : List (Candle F)) (idx : Int) :
    candleDoji (cs.map (strip N)) idx = candleDoji cs idx := by
  unfold candleDoji; rw [highLowAvg_strip]

theorem candleBodyLong_strip (cs : List (Candle F)) (idx : Int) :
    candleBodyLong (cs.map (strip N)) idx = candleBodyLong cs idx := by
  unfold candleBodyLong; rw [realbodyAvg_strip]

theorem candleBodyShort_strip (cs : List (Candle F)) (idx : Int) :
    candleBodyShort (cs.map (strip N)) idx = candleBodyShort cs idx := candleBodyLong_strip cs idx

theorem candleShadowVeryShort_strip (cs : List (Candle F)) (idx : Int) :
    candleShadowVeryShort (cs.map (strip N)) idx = candleShadowVeryShort cs idx := candleDoji_strip cs idx

theorem candleShadowLong_strip (cs : List (Candle F)) (idx : Int) :
    candleShadowLong (cs.map (strip N)) idx = candleShadowLong cs idx := by
  unfold candleShadowLong; strip_simp [readOK_close]

theorem candleNear_strip (cs : List (Candle F)) (idx : Int) :
    candleNear (cs.map (strip N)) idx = candleNear cs idx := by
  unfold candleNear; rw [highLowAvg_strip]

theorem realbodyGapUp_strip (a b : Candle F) : realbodyGapUp (strip N a) (strip N b) = realbodyGapUp a b := rfl
theorem realbodyGapDown_strip (a b : Candle F) : realbodyGapDown (strip N a) (strip N b) = realbodyGapDown a b := rfl

omit [PyF F] in
theorem pattern_strip (one : List (Candle F) → Int → PyM Bool)
    (hone : ∀ j, one (cs.map (strip N)) j = one cs j) (lb idx : Option Int) :
    pattern one (cs.map (strip N)) lb idx = pattern one cs lb idx := by
  unfold pattern; strip_simp [hone]

theorem dojiAt_strip (cs : List (Candle F)) (j : Int) : dojiAt (cs.map (strip N)) j = dojiAt cs j := by
  unfold dojiAt; strip_simp [candleDoji_strip]

theorem dojistarAt_strip (cs : List (Candle F)) (j : Int) : dojistarAt (cs.map (strip N)) j = dojistarAt cs j := by
  unfold dojistarAt; strip_simp [candleDoji_strip, candleBodyLong_strip, realbodyGapUp_strip, realbodyGapDown_strip] <;> rfl

theorem hammerAt_strip (cs : List (Candle F)) (j : Int) : hammerAt (cs.map (strip N)) j = hammerAt cs j := by
  unfold hammerAt
  strip_simp [candleBodyShort_strip, candleShadowLong_strip, candleShadowVeryShort_strip, candleNear_strip] <;> rfl

theorem invHammerAt_strip (cs : List (Candle F)) (j : Int) : invHammerAt (cs.map (strip N)) j = invHammerAt cs j := by
  unfold invHammerAt
  strip_simp [candleBodyShort_strip, candleShadowLong_strip, candleShadowVeryShort_strip, realbodyGapDown_strip] <;> rfl

end Pat

/-! ### kinds built on the analysis windows -/

theorem Calc.donchian_strip (cs : List (Candle F)) (i : Int) (nm : String) (p : Int)
    (h1 : readOK N (nm ++ ".DCU") = true) :
    Calc.donchian ⟨cs.map (strip N), i, nm⟩ p = Calc.donchian ⟨cs, i, nm⟩ p := by
  unfold Calc.donchian Mov.highest Mov.lowest
  strip_simp [h1, Mov.extreme_strip, readOK_high, readOK_low]

theorem Calc.hl_strip (cs : List (Candle F)) (i : Int) (nm : String) (p : Int) :
    Calc.hl ⟨cs.map (strip N), i, nm⟩ p = Calc.hl ⟨cs, i, nm⟩ p := by
  unfold Calc.hl Mov.highest Mov.lowest
  strip_simp [Mov.extreme_strip, readOK_high, readOK_low]

theorem Calc.aroon_strip (cs : List (Candle F)) (i : Int) (nm : String) (p : Int) :
    Calc.aroon ⟨cs.map (strip N), i, nm⟩ p = Calc.aroon ⟨cs, i, nm⟩ p := by
  unfold Calc.aroon Mov.highestbar Mov.lowestbar
  strip_simp [Mov.extremeBar_strip, readOK_high, readOK_low]

/-- the reading names an analysis function is asked to look at -/
def Analysis.inputs : Analysis → List String
  | .positive | .negative => []
  | .above a b | .below a b => [a, b]
  | .valueRange ind _ | .rising ind _ | .falling ind _ | .meanRising ind _ | .meanFalling ind _
  | .highest ind _ | .lowest ind _ | .highestbar ind _ | .lowestbar ind _ => [ind]
  | .cross a b _ | .crossover a b _ | .crossunder a b _ => [a, b]
  | .doji _ | .dojistar _ | .hammer _ | .invHammer _ => []

theorem runAnalysis_strip (a : Analysis) (hr : ∀ r, r ∈ a.inputs → readOK N r = true) (cs : List (Candle F)) (i : Int) :
    runAnalysis a (cs.map (strip N)) i = runAnalysis a cs i := by
  cases a <;> simp only [Analysis.inputs, List.mem_cons, List.mem_nil_iff, or_false, forall_eq_or_imp, forall_eq,
    List.not_mem_nil, false_imp_iff, implies_true] at hr <;> unfold runAnalysis <;> dsimp only
  case positive => rw [Mov.positive_strip]
  case negative => rw [Mov.negative_strip]
  case above => rw [Mov.above_strip hr.1 hr.2]
  case below => rw [Mov.below_strip hr.1 hr.2]
  case valueRange => rw [Mov.valueRange_strip hr]
  case rising => unfold Mov.rising; rw [Mov.monotone_strip hr]
  case falling => unfold Mov.falling; rw [Mov.monotone_strip hr]
  case meanRising => unfold Mov.meanRising; rw [Mov.meanCmp_strip hr]
  case meanFalling => unfold Mov.meanFalling; rw [Mov.meanCmp_strip hr]
  case highest => unfold Mov.highest; rw [Mov.extreme_strip hr]
  case lowest => unfold Mov.lowest; rw [Mov.extreme_strip hr]
  case highestbar => unfold Mov.highestbar; rw [Mov.extremeBar_strip hr]
  case lowestbar => unfold Mov.lowestbar; rw [Mov.extremeBar_strip hr]
  case cross => rw [Mov.cross_strip hr.1 hr.2]
  case crossover => rw [Mov.crossover_strip hr.1 hr.2]
  case crossunder => rw [Mov.crossunder_strip hr.1 hr.2]
  case doji => unfold Pat.doji; rw [Pat.pattern_strip _ (fun j => Pat.dojiAt_strip cs j)]
  case dojistar => unfold Pat.dojistar; rw [Pat.pattern_strip _ (fun j => Pat.dojistarAt_strip cs j)]
  case hammer => unfold Pat.hammer; rw [Pat.pattern_strip _ (fun j => Pat.hammerAt_strip cs j)]
  case invHammer => unfold Pat.invHammer; rw [Pat.pattern_strip _ (fun j => Pat.invHammerAt_strip cs j)]

/-! ### kinds that write helper series while computing -/

omit [PyF F] in
theorem Writes.modify_map_comm {α β : Type} (g : α → β) (f : α → α) (f' : β → β) (hf : ∀ a, f' (g a) = g (f a))
    (l : List α) (j : Nat) : (l.map g).modify j f' = (l.modify j f).map g := by
  apply List.ext_getElem?
  intro k
  simp only [List.getElem?_modify, List.getElem?_map]
  cases l[k]? with
  | none => rfl
  | some a => by_cases h : j = k <;> simp [h, hf]

omit [PyF F] in
/-- a per-candle write that commutes with `strip` -/
theorem Writes.updateAt_strip (f : Candle F → Candle F) (hf : ∀ c, f (strip N c) = strip N (f c))
    (cs : List (Candle F)) (i : Int) :
    updateAt (cs.map (strip N)) i f = List.map (strip N) <$> updateAt cs i f := by
  unfold updateAt
  simp only [List.length_map]
  generalize (if i < 0 then (cs.length : Int) + i else i) = j
  by_cases hc : j < 0 ∨ j ≥ cs.length
  · simp only [hc, if_true]; rfl
  · simp only [hc, if_false]; rw [Writes.modify_map_comm (strip N) f f hf]; rfl

omit [PyF F] in
theorem Writes.strip_setInds {n : String} (hn : n ∉ N) (v : Val F) (c : Candle F) :
    ({ strip N c with inds := dset n v (strip N c).inds } : Candle F)
      = strip N { c with inds := dset n v c.inds } := by
  simp [strip, eraseAll_dset hn]

omit [PyF F] in
theorem Writes.strip_setSubs {n : String} (hn : n ∉ N) (v : Val F) (c : Candle F) :
    ({ strip N c with subs := dset n v (strip N c).subs } : Candle F)
      = strip N { c with subs := dset n v c.subs } := by
  simp [strip, eraseAll_dset hn]

omit [PyF F] in
/-- `_set_reading` under a name outside `N` commutes with `strip N` -/
theorem Writes.setReading_strip {n : String} (hn : n ∉ N) (isSub : Bool) (cs : List (Candle F)) (i : Int) (v : Val F) :
    setReading isSub n (cs.map (strip N)) i v = List.map (strip N) <$> setReading isSub n cs i v := by
  unfold setReading
  apply Writes.updateAt_strip
  intro c
  cases isSub
  · exact Writes.strip_setInds hn v c
  · exact Writes.strip_setSubs hn v c

variable {ops ops' : Ops F}

theorem Calc.hma_strip (hops : OpsStrip N ops ops') (cs : List (Candle F)) (i : Int) (nm : String)
    (h1 : readOK N (nm ++ "_WMA") = true) (h2 : readOK N (nm ++ "_WMAh") = true)
    (h3 : readOK N (nm ++ "_HMAs") = true) :
    Calc.hma ops' ⟨cs.map (strip N), i, nm⟩ = stripRes N <$> Calc.hma ops ⟨cs, i, nm⟩ := by
  unfold Calc.hma; strip_simp [h1, h2, h3, hops.hset, hops.hcalc]

theorem Calc.stdev_strip (hops : OpsStrip N ops ops') (cs : List (Candle F)) (i : Int) (nm : String)
    (p : Int) (input : String) (h1 : readOK N input = true) (h2 : readOK N (nm ++ "_data.mean") = true)
    (h3 : readOK N (nm ++ "_data.variance") = true) :
    Calc.stdev ops' ⟨cs.map (strip N), i, nm⟩ p input = stripRes N <$> Calc.stdev ops ⟨cs, i, nm⟩ p input := by
  unfold Calc.stdev; strip_simp [h1, h2, h3, hops.hset, hops.hcalc]

theorem Calc.supertrend_strip (hops : OpsStrip N ops ops') (cs : List (Candle F)) (i : Int) (nm : String)
    (m : Num F) (h1 : readOK N (nm ++ "_atr") = true) (h2 : readOK N (nm ++ "_HL") = true)
    (h3 : readOK N (nm ++ "_data.lower") = true) (h4 : readOK N (nm ++ "_data.upper") = true)
    (h5 : readOK N (nm ++ ".direction") = true) :
    Calc.supertrend ops' ⟨cs.map (strip N), i, nm⟩ m = stripRes N <$> Calc.supertrend ops ⟨cs, i, nm⟩ m := by
  unfold Calc.supertrend; strip_simp [h1, h2, h3, h4, h5, hops.hset, hops.hcalc]

theorem Calc.rsi_strip (hops : OpsStrip N ops ops') (cs : List (Candle F)) (i : Int) (nm : String)
    (p : Int) (input : String) (h1 : readOK N nm = true) (h2 : readOK N input = true)
    (h3 : readOK N (nm ++ "_data.gain") = true) (h4 : readOK N (nm ++ "_data.loss") = true)
    (h5 : readOK N (nm ++ "_data") = true) :
    Calc.rsi ops' ⟨cs.map (strip N), i, nm⟩ p input = stripRes N <$> Calc.rsi ops ⟨cs, i, nm⟩ p input := by
  unfold Calc.rsi; strip_simp [h1, h2, h3, h4, h5, hops.hset, hops.hcalc]

theorem Calc.stoch_strip (hops : OpsStrip N ops ops') (cs : List (Candle F)) (i : Int) (nm : String)
    (p : Int) (input : String) (h1 : readOK N input = true) (h2 : readOK N (nm ++ "_k") = true)
    (h3 : readOK N (nm ++ "_d") = true) :
    Calc.stoch ops' ⟨cs.map (strip N), i, nm⟩ p input = stripRes N <$> Calc.stoch ops ⟨cs, i, nm⟩ p input := by
  unfold Calc.stoch; strip_simp [h1, h2, h3, hops.hset, hops.hcalc]
  split
  · rfl
  · refine bind_congr (fun lows => bind_congr (fun highs => ?_))
    cases Num.minList lows <;> cases Num.maxList highs <;> first | rfl | (strip_simp [h1] <;> rfl)

theorem Calc.vwap_strip (hops : OpsStrip N ops ops') (cs : List (Candle F)) (i : Int) (nm : String)
    (h1 : readOK N (nm ++ "_data.pv") = true) (h2 : readOK N (nm ++ "_data.vol") = true) :
    Calc.vwap ops' ⟨cs.map (strip N), i, nm⟩ = stripRes N <$> Calc.vwap ops ⟨cs, i, nm⟩ := by
  unfold Calc.vwap; strip_simp [h1, h2, hops.hset, hops.hcalc]

theorem Calc.tsi_strip (hops : OpsStrip N ops ops') (cs : List (Candle F)) (i : Int) (nm : String)
    (input : String) (h1 : readOK N input = true) (h2 : readOK N (nm ++ "_abs_second") = true)
    (h3 : readOK N (nm ++ "_second") = true) :
    Calc.tsi ops' ⟨cs.map (strip N), i, nm⟩ input = stripRes N <$> Calc.tsi ops ⟨cs, i, nm⟩ input := by
  unfold Calc.tsi; strip_simp [h1, h2, h3, hops.hset, hops.hcalc]

theorem Calc.adx_strip (hops : OpsStrip N ops ops') (cs : List (Candle F)) (i : Int) (nm : String)
    (h1 : readOK N (nm ++ "_atr") = true) (h2 : readOK N (nm ++ "_pos") = true)
    (h3 : readOK N (nm ++ "_neg") = true) (h4 : readOK N (nm ++ "_dx") = true) :
    Calc.adx ops' ⟨cs.map (strip N), i, nm⟩ = stripRes N <$> Calc.adx ops ⟨cs, i, nm⟩ := by
  unfold Calc.adx; strip_simp [h1, h2, h3, h4, hops.hset, hops.hcalc]

theorem Calc.macd_strip (hops : OpsStrip N ops ops') (cs : List (Candle F)) (i : Int) (nm : String)
    (hn : nm ∉ N) (h1 : readOK N (nm ++ "_EMA_slow") = true) (h2 : readOK N (nm ++ "_EMA_fast") = true)
    (h3 : readOK N (nm ++ "_signal_line") = true) :
    Calc.macd ops' ⟨cs.map (strip N), i, nm⟩ = stripRes N <$> Calc.macd ops ⟨cs, i, nm⟩ := by
  have hu : ∀ (v : Val F) (cs : List (Candle F)),
      updateAt (cs.map (strip N)) i (fun c => { c with inds := dset nm v c.inds })
        = List.map (strip N) <$> updateAt cs i (fun c => { c with inds := dset nm v c.inds }) :=
    fun v cs => Writes.updateAt_strip _ (fun c => Writes.strip_setInds hn v c) cs i
  unfold Calc.macd; strip_simp [h1, h2, h3, hops.hset, hops.hcalc, hu]

/-! ### all kinds -/

/-- every reading name `_calculate_reading` of a node of kind `k` named `nm` may ask for (candle
fields – open/high/low/close/volume – are not listed: they are always readable) -/
def kindReads (k : Kind F) (nm : String) : List String :=
  match k with
  | .sma _ input | .ema _ input _ | .rma _ input | .wma _ input | .roc _ input => [nm, input]
  | .vwma _ | .obv => [nm]
  | .hma _ _ => [nm ++ "_WMA", nm ++ "_WMAh", nm ++ "_HMAs"]
  | .tr | .hl _ | .hla | .aroon _ | .managed => []
  | .atr _ => [nm, nm ++ "_TR"]
  | .stdev _ input => [input, nm ++ "_data.mean", nm ++ "_data.variance"]
  | .bbands _ _ => [nm ++ "_SMA", nm ++ "_STDEV"]
  | .kc _ _ _ => [nm ++ "_EMA", nm ++ "_ATR"]
  | .donchian _ => [nm ++ ".DCU"]
  | .supertrend _ _ _ => [nm ++ "_atr", nm ++ "_HL", nm ++ "_data.lower", nm ++ "_data.upper", nm ++ ".direction"]
  | .stdevthres _ input _ => [nm ++ "_stdev", input]
  | .counter input _ => [nm, input]
  | .rsi _ input => [nm, input, nm ++ "_data.gain", nm ++ "_data.loss", nm ++ "_data"]
  | .macd _ _ _ _ => [nm ++ "_EMA_slow", nm ++ "_EMA_fast", nm ++ "_signal_line"]
  | .stoch _ _ _ input => [input, nm ++ "_k", nm ++ "_d"]
  | .tsi _ _ input => [input, nm ++ "_abs_second", nm ++ "_second"]
  | .adx _ _ => [nm ++ "_atr", nm ++ "_pos", nm ++ "_neg", nm ++ "_dx"]
  | .vwap _ => [nm ++ "_data.pv", nm ++ "_data.vol"]
  | .amorph a => a.inputs

omit [PyF F] in
theorem Writes.pure'_strip (cs : List (Candle F)) (r r' : PyM (Val F)) (h : r' = r) :
    (do let v ← r'; return (v, cs.map (strip N))) = stripRes N <$> (do let v ← r; return (v, cs)) := by
  subst h
  cases r' <;> rfl

/-- **`_calculate_reading` of every kind commutes with `strip N`** when the node's own name is
outside `N`, everything it reads is `readOK`, and the services commute. -/
theorem calcKind_strip (hops : OpsStrip N ops ops') (ind : Ind F) (cs : List (Candle F)) (i : Int) (nm : String)
    (hn : nm ∉ N) (hr : ∀ r, r ∈ kindReads ind.kind nm → readOK N r = true) :
    calcKind ops' ind ⟨cs.map (strip N), i, nm⟩ = stripRes N <$> calcKind ops ind ⟨cs, i, nm⟩ := by
  unfold calcKind
  dsimp only
  cases hk : ind.kind <;> rw [hk] at hr <;>
    simp only [kindReads, List.mem_cons, List.mem_nil_iff, or_false, forall_eq_or_imp, forall_eq,
      List.not_mem_nil, false_imp_iff, implies_true] at hr <;> dsimp only
  case sma p input => exact Writes.pure'_strip cs _ _ (Calc.sma_strip cs i nm p input hr.1 hr.2)
  case ema p input sm => exact Writes.pure'_strip cs _ _ (Calc.ema_strip cs i nm p input sm hr.1 hr.2)
  case rma p input => exact Writes.pure'_strip cs _ _ (Calc.rma_strip cs i nm p input hr.1 hr.2)
  case wma p input => exact Writes.pure'_strip cs _ _ (Calc.wma_strip cs i nm p input hr.1 hr.2)
  case vwma p => exact Writes.pure'_strip cs _ _ (Calc.vwma_strip cs i nm p hr)
  case hma p input => exact Calc.hma_strip hops cs i nm hr.1 hr.2.1 hr.2.2
  case tr => exact Writes.pure'_strip cs _ _ (Calc.tr_strip cs i nm)
  case atr p => exact Writes.pure'_strip cs _ _ (Calc.atr_strip cs i nm p _ hr.1 hr.2)
  case stdev p input => exact Calc.stdev_strip hops cs i nm p input hr.1 hr.2.1 hr.2.2
  case bbands p input => exact Writes.pure'_strip cs _ _ (Calc.bbands_strip cs i nm _ _ hr.1 hr.2)
  case kc p input m => exact Writes.pure'_strip cs _ _ (Calc.kc_strip cs i nm m hr.1 hr.2)
  case donchian p => exact Writes.pure'_strip cs _ _ (Calc.donchian_strip cs i nm p hr)
  case hl p => exact Writes.pure'_strip cs _ _ (Calc.hl_strip cs i nm p)
  case hla => exact Writes.pure'_strip cs _ _ (Calc.hla_strip cs i nm)
  case supertrend p input m =>
    exact Calc.supertrend_strip hops cs i nm m hr.1 hr.2.1 hr.2.2.1 hr.2.2.2.1 hr.2.2.2.2
  case stdevthres p input m => exact Writes.pure'_strip cs _ _ (Calc.stdevthres_strip cs i nm input m hr.1 hr.2)
  case counter input cv => exact Writes.pure'_strip cs _ _ (Calc.counter_strip cs i nm input cv hr.1 hr.2)
  case rsi p input => exact Calc.rsi_strip hops cs i nm p input hr.1 hr.2.1 hr.2.2.1 hr.2.2.2.1 hr.2.2.2.2
  case macd f s g input => exact Calc.macd_strip hops cs i nm hn hr.1 hr.2.1 hr.2.2
  case roc p input => exact Writes.pure'_strip cs _ _ (Calc.roc_strip cs i nm p input hr.1 hr.2)
  case stoch p sl sk input => exact Calc.stoch_strip hops cs i nm p input hr.1 hr.2.1 hr.2.2
  case tsi p sm input => exact Calc.tsi_strip hops cs i nm input hr.1 hr.2.1 hr.2.2
  case aroon p => exact Writes.pure'_strip cs _ _ (Calc.aroon_strip cs i nm p)
  case adx p sg => exact Calc.adx_strip hops cs i nm hr.1 hr.2.1 hr.2.2.1 hr.2.2.2
  case obv => exact Writes.pure'_strip cs _ _ (Calc.obv_strip cs i nm hr)
  case vwap p => exact Calc.vwap_strip hops cs i nm hr.1 hr.2
  case amorph a => exact Writes.pure'_strip cs _ _ (runAnalysis_strip a hr cs i)
  case managed => rfl

end Hex

import HexProofs.Writes.C11LifeMembers
import HexProofs.Manager2.C11LifeSimple
/-
C11 + lifespan INSIDE A HEXITAL, the remaining configuration: `timeframe_fill = True` together with
`candlestick_type = "HA"` and `candles_lifespan = life`.  Transfer of `fill_ha_life_schedule`
(HexProofs/Manager2/C11Life.lean) to the member managers (`member_manager_of_bare`, readings aside) and to a default
manager nobody lives on (`default_manager_of_bare`, exactly).
-/
namespace Hex
set_option linter.unusedSectionVars false
variable {F : Type} [PyF F] {N : List String}

/-- **member on a gap-filled collapsing timeframe** (its own or the Hexital's) of a Heikin-Ashi Hexital with a lifespan,
under `KeepsPredecessor` on the filled spec -/
theorem member_tf_fill_ha_life {members : List (Member F)} {mem : Member F} (hm : MemberHyps N members mem)
    (htfx : Option Int) (tfn : Option String) (tf : Int) (htf : 0 < tf) (heff : mem.effTf htfx = some tf)
    (life : Int) (hlife : 0 ≤ life) (init : List (Candle F)) (ops : List (TwinOp F)) (H : Hexital F)
    (hops : ∀ op, op ∈ ops → op.OK N mem.tree.name)
    (hraw : RawTfHA (init ++ (appendedBy ops).flatten))
    (hk : KeepsPredecessor (fun s => haSpec (fillSpec tf s)) (closedFilled tf) life init
            (poppedBy life (haSpec (fillSpec tf init))) (appendedBy ops))
    (hrun : runHexital { tf := htfx, fill := true, ha := true, lifespan := some life } tfn init members ops = .ok H) :
    ∃ m, H.memberManager mem.tree.name = some m ∧
      m.cfg = { tf := some tf, fill := true, ha := true, lifespan := some life } ∧
      m.candles.map Candle.core = ((haSpec (fillSpec tf (init ++ (appendedBy ops).flatten))).drop
        (poppedAfter (fun s => haSpec (fillSpec tf s)) life init (poppedBy life (haSpec (fillSpec tf init)))
          (appendedBy ops))).map Candle.core :=
  member_manager_of_bare hm _ tfn init ops H hops hrun (cfgFillHALife tf life)
    (by rw [Member.effCfg_eq]; simp only [heff]; rfl) _ (fill_ha_life_schedule tf htf life hlife init _ hraw hk)

/-- **default manager nobody lives on, Hexital-level gap-filled collapsing timeframe, Heikin-Ashi, lifespan**, under
`KeepsPredecessor` on the filled spec -/
theorem default_tf_fill_ha_life (tf : Int) (htf : 0 < tf) (life : Int) (hlife : 0 ≤ life) (tfn : Option String)
    (init : List (Candle F)) (members : List (Member F)) (ops : List (TwinOp F)) (H : Hexital F)
    (hmem : ∀ m, m ∈ members → m.OwnTf) (hops : ∀ op, op ∈ ops → op.OwnTf)
    (hraw : RawTfHA (init ++ (appendedBy ops).flatten))
    (hk : KeepsPredecessor (fun s => haSpec (fillSpec tf s)) (closedFilled tf) life init
            (poppedBy life (haSpec (fillSpec tf init))) (appendedBy ops))
    (hrun : runHexital { tf := some tf, fill := true, ha := true, lifespan := some life } tfn init members ops
              = .ok H) :
    H.manager defaultKey
      = .ok { cfg := { tf := some tf, fill := true, ha := true, lifespan := some life },
              candles := (haSpec (fillSpec tf (init ++ (appendedBy ops).flatten))).drop
                (poppedAfter (fun s => haSpec (fillSpec tf s)) life init (poppedBy life (haSpec (fillSpec tf init)))
                  (appendedBy ops)) } :=
  default_manager_of_bare _ tfn init members ops H hmem hops hrun _
    (fill_ha_life_schedule tf htf life hlife init _ hraw hk)

/-! ### lifespan of at least one timeframe: no retention hypothesis (HexProofs/Manager2/C11LifeSimple.lean) -/

/-- **member on a gap-filled timeframe `tf`, lifespan `life ≥ tf` seconds**: a condition on the configuration alone -/
theorem member_tf_fill_ha_life_of_le {members : List (Member F)} {mem : Member F} (hm : MemberHyps N members mem)
    (htfx : Option Int) (tfn : Option String) (tf : Int) (htf : 0 < tf) (heff : mem.effTf htfx = some tf)
    (life : Int) (hle : tf ≤ life) (init : List (Candle F)) (ops : List (TwinOp F)) (H : Hexital F)
    (hops : ∀ op, op ∈ ops → op.OK N mem.tree.name)
    (hraw : RawTfHA (init ++ (appendedBy ops).flatten))
    (hrun : runHexital { tf := htfx, fill := true, ha := true, lifespan := some life } tfn init members ops = .ok H) :
    ∃ m, H.memberManager mem.tree.name = some m ∧
      m.cfg = { tf := some tf, fill := true, ha := true, lifespan := some life } ∧
      m.candles.map Candle.core = ((haSpec (fillSpec tf (init ++ (appendedBy ops).flatten))).drop
        (poppedAfter (fun s => haSpec (fillSpec tf s)) life init (poppedBy life (haSpec (fillSpec tf init)))
          (appendedBy ops))).map Candle.core :=
  member_tf_fill_ha_life hm htfx tfn tf htf heff life (by omega) init ops H hops hraw
    (keepsPredecessor_of_fill_le tf htf life hle init _ hraw) hrun

/-- **default manager nobody lives on, gap-filled Hexital-level timeframe `tf`, lifespan `life ≥ tf` seconds** -/
theorem default_tf_fill_ha_life_of_le (tf : Int) (htf : 0 < tf) (life : Int) (hle : tf ≤ life) (tfn : Option String)
    (init : List (Candle F)) (members : List (Member F)) (ops : List (TwinOp F)) (H : Hexital F)
    (hmem : ∀ m, m ∈ members → m.OwnTf) (hops : ∀ op, op ∈ ops → op.OwnTf)
    (hraw : RawTfHA (init ++ (appendedBy ops).flatten))
    (hrun : runHexital { tf := some tf, fill := true, ha := true, lifespan := some life } tfn init members ops
              = .ok H) :
    H.manager defaultKey
      = .ok { cfg := { tf := some tf, fill := true, ha := true, lifespan := some life },
              candles := (haSpec (fillSpec tf (init ++ (appendedBy ops).flatten))).drop
                (poppedAfter (fun s => haSpec (fillSpec tf s)) life init (poppedBy life (haSpec (fillSpec tf init)))
                  (appendedBy ops)) } :=
  default_tf_fill_ha_life tf htf life (by omega) tfn init members ops H hmem hops hraw
    (keepsPredecessor_of_fill_le tf htf life hle init _ hraw) hrun

end Hex

#print axioms Hex.member_tf_fill_ha_life
#print axioms Hex.default_tf_fill_ha_life
#print axioms Hex.member_tf_fill_ha_life_of_le
#print axioms Hex.default_tf_fill_ha_life_of_le

import HexProofs.Writes.PresenceLate
import HexProofs.Writes.TwinTf
/-
C13, presence of other members – the member `a` itself is added LATE and has its OWN timeframe.

`a` lives on the manager stored under its timeframe name (`key`).  That manager is CREATED when the first member with
that timeframe name is attached: by the constructor from the candles as given, by `add_indicator` from the default
manager's candles at that moment, handed over raw (`Candle.handOver`: `recover_clean_values`, `clean_values = {}`,
`reset_candle`).  The invariant therefore speaks about TWO managers:
  * the default manager's candles are the Hexital-level manager spec of the stream fed so far, dressed with readings
    (`Dressed D`) – so handing them over gives the stream back (`LateLink.hand`);
  * the manager under `key`, ONCE IT EXISTS, holds – up to the other members' entries `N` – a list resumable for
    `a`'s row-major spec over ITS manager spec of the stream (`PA`), whether or not `a` is registered yet.
"Creation commutes with feeding": a manager created from the handed-over stream is `M'.spec stream` (`MgrSpec.init`),
which is what a manager created at construction time and fed chunk by chunk holds (`feedStep_resumable`).
-/
namespace Hex
variable {F : Type} [PyF F] {N : List String}

/-! ### dressed lists -/

omit [PyF F] in
theorem bare_strip_late (N' : List String) (c : Candle F) : (strip N' c).bare = c.bare := rfl

omit [PyF F] in
/-- entries added or removed under any names keep a dressed list dressed -/
theorem Dressed.of_stripEq {N' : List String} {D X Y : List (Candle F)} (h : Dressed D X) (e : StripEq N' X Y) :
    Dressed D Y := by
  unfold StripEq at e
  induction h generalizing Y with
  | nil =>
    cases Y with
    | nil => exact List.Forall₂.nil
    | cons y r => simp at e
  | @cons c d D' X' hcd _ ih =>
    cases Y with
    | nil => simp at e
    | cons y r =>
      simp only [List.map_cons, List.cons.injEq] at e
      refine List.Forall₂.cons ?_ (ih e.2)
      have : y.bare = d.bare := by rw [← bare_strip_late N' y, ← e.1, bare_strip_late]
      exact this.trans hcd

omit [PyF F] in
theorem Candle.handOver_bare (c : Candle F) : c.bare.handOver = c.handOver := by
  obtain ⟨o, hh, l, cl, v, ts, inds, subs, tag, clean⟩ := c
  cases clean <;> rfl

omit [PyF F] in
/-- handing over wipes the dressing -/
theorem Dressed.map_handOver {D X : List (Candle F)} (h : Dressed D X) :
    X.map Candle.handOver = D.map Candle.handOver := by
  induction h with
  | nil => rfl
  | @cons c d D' X' hcd _ ih =>
    rw [List.map_cons, List.map_cons, ih, ← Candle.handOver_bare d, hcd, Candle.handOver_bare]

/-! ### the two-manager invariant -/

/-- `nm` (tree `ind`, manager key `key ≠ "default"`) may or may not be registered, its manager may or may not exist;
every other member writes under `N` only; the default manager's candles are `D` dressed; the manager under `key`,
if it exists, has configuration `cfgA` and holds – up to entries under `N` – a list `cs` with `PA cs`. -/
structure TfInv (N : List String) (nm : String) (ind : Ind F) (key : String) (htf : Option String)
    (cfgD cfgA : MgrCfg) (D : List (Candle F)) (PA : List (Candle F) → Prop) (H : Hexital F) : Prop where
  keysNodup : (H.indicators.map (·.1)).Nodup
  mgrNodup : (H.managers.map (·.1)).Nodup
  keyNe : key ≠ defaultKey
  cfg : H.cfg = cfgD
  tfName : H.tfName = htf
  others : ∀ n hi, n ≠ nm → dlookup n H.indicators = some hi → ∀ k, k ∈ hi.tree.allNames → k ∈ N
  dflt : ∃ dm, dlookup defaultKey H.managers = some dm ∧ dm.cfg = cfgD ∧ Dressed D dm.candles
  own : ∀ m, dlookup key H.managers = some m → m.cfg = cfgA ∧ ∃ cs, StripEq N cs m.candles ∧ PA cs
  self : ∀ hi, dlookup nm H.indicators = some hi → hi.tree = ind ∧ hi.mgrKey = key ∧
    ∃ m, dlookup key H.managers = some m

section Inv
variable {nm : String} {ind : Ind F} {key : String} {htf : Option String} {cfgD cfgA : MgrCfg}
  {D : List (Candle F)} {PA PA' : List (Candle F) → Prop}

omit [PyF F] in
theorem TfInv.mono {H : Hexital F} (hPP : ∀ cs, PA cs → PA' cs) (inv : TfInv N nm ind key htf cfgD cfgA D PA H) :
    TfInv N nm ind key htf cfgD cfgA D PA' H :=
  ⟨inv.keysNodup, inv.mgrNodup, inv.keyNe, inv.cfg, inv.tfName, inv.others, inv.dflt,
   fun m hm => by
     obtain ⟨h1, cs, h2, h3⟩ := inv.own m hm
     exact ⟨h1, cs, h2, hPP cs h3⟩, inv.self⟩

omit [PyF F] in
/-- while `a`'s manager does not exist, nothing is claimed about it -/
theorem TfInv.reindex {H : Hexital F} (hnone : dlookup key H.managers = none)
    (inv : TfInv N nm ind key htf cfgD cfgA D PA H) : TfInv N nm ind key htf cfgD cfgA D PA' H :=
  ⟨inv.keysNodup, inv.mgrNodup, inv.keyNe, inv.cfg, inv.tfName, inv.others, inv.dflt,
   fun m hm => (by rw [hnone] at hm; cases hm), inv.self⟩

omit [PyF F] in
/-- the effect of replacing one manager by one with the same configuration -/
theorem TfInv.setManager {H : Hexital F} (inv : TfInv N nm ind key htf cfgD cfgA D PA H)
    (k : String) (m m' : Manager F) (hm : dlookup k H.managers = some m) (hcfg : m'.cfg = m.cfg)
    (inds : List (String × HxInd F)) (hkeys : inds.map (·.1) = H.indicators.map (·.1))
    (hreg : ∀ n hi, dlookup n inds = some hi → ∃ hi0, dlookup n H.indicators = some hi0 ∧
      hi.tree = hi0.tree ∧ hi.mgrKey = hi0.mgrKey)
    {D' : List (Candle F)}
    (hd : k = defaultKey → Dressed D m.candles → Dressed D' m'.candles)
    (hd' : k ≠ defaultKey → D' = D)
    (ha : k = key → ∀ cs, StripEq N cs m.candles → PA cs → ∃ cs', StripEq N cs' m'.candles ∧ PA' cs')
    (ha' : k ≠ key → ∀ cs, PA cs → PA' cs) :
    TfInv N nm ind key htf cfgD cfgA D' PA'
      ({ H with managers := dset k m' H.managers, indicators := inds } : Hexital F) := by
  have hkeysM : ((dset k m' H.managers).map (·.1)) = H.managers.map (·.1) := Writes.keys_dset_of_lookup _ hm
  refine ⟨by rw [hkeys]; exact inv.keysNodup, by rw [hkeysM]; exact inv.mgrNodup, inv.keyNe, inv.cfg,
    inv.tfName, ?_, ?_, ?_, ?_⟩
  · intro n hi hn hl
    obtain ⟨hi0, h0, ht, _⟩ := hreg n hi hl
    rw [ht]; exact inv.others n hi0 hn h0
  · obtain ⟨dm, h1, h2, h3⟩ := inv.dflt
    by_cases hk : k = defaultKey
    · subst hk
      rw [h1] at hm; cases hm
      exact ⟨m', dlookup_dset_self _ _ _, hcfg.trans h2, hd rfl h3⟩
    · refine ⟨dm, ?_, h2, (hd' hk) ▸ h3⟩
      show dlookup defaultKey (dset k m' H.managers) = some dm
      rw [dlookup_dset]; simp only [hk, if_false]; exact h1
  · intro mm hmm
    change dlookup key (dset k m' H.managers) = some mm at hmm
    rw [dlookup_dset] at hmm
    by_cases hk : k = key
    · subst hk
      simp only [if_true] at hmm; cases hmm
      obtain ⟨c1, cs, c2, c3⟩ := inv.own m hm
      obtain ⟨cs', c4, c5⟩ := ha rfl cs c2 c3
      exact ⟨hcfg.trans c1, cs', c4, c5⟩
    · simp only [hk, if_false] at hmm
      obtain ⟨c1, cs, c2, c3⟩ := inv.own mm hmm
      exact ⟨c1, cs, c2, ha' hk cs c3⟩
  · intro hi hl
    obtain ⟨hi0, h0, ht, hk0⟩ := hreg nm hi hl
    obtain ⟨s1, s2, mm, s3⟩ := inv.self hi0 h0
    refine ⟨ht.trans s1, hk0.trans s2, ?_⟩
    show ∃ m, dlookup key (dset k m' H.managers) = some m
    rw [dlookup_dset]
    by_cases hk : k = key
    · exact ⟨m', by simp [hk]⟩
    · exact ⟨mm, by simp only [hk, if_false]; exact s3⟩

omit [PyF F] in
theorem Writes.reg_dset {inds : List (String × HxInd F)} {n : String} {hi' : HxInd F}
    (hl : dlookup n inds = some hi') (v : HxInd F) (ht : v.tree = hi'.tree) (hk : v.mgrKey = hi'.mgrKey) :
    ∀ n2 hi, dlookup n2 (dset n v inds) = some hi → ∃ hi0, dlookup n2 inds = some hi0 ∧
      hi.tree = hi0.tree ∧ hi.mgrKey = hi0.mgrKey := by
  intro n2 hi h
  rw [dlookup_dset] at h
  by_cases e : n = n2
  · subst e; simp only [if_true] at h; cases h
    exact ⟨hi', hl, ht, hk⟩
  · simp only [e, if_false] at h
    exact ⟨hi, h, rfl, rfl⟩

omit [PyF F] in
/-- a step that stays within its tree's names, run on ANOTHER member (on whichever manager) -/
theorem TfInv.withInd_other {H H' : Hexital F} (inv : TfInv N nm ind key htf cfgD cfgA D PA H)
    (n : String) (hn : n ≠ nm) (f : IndState F → PyM (IndState F))
    (hf : ∀ t t', f t = .ok t' → IndState.Local t t')
    (hw : H.withInd n f = .ok H') : TfInv N nm ind key htf cfgD cfgA D PA H' := by
  unfold Hexital.withInd at hw
  cases hl : dlookup n H.indicators with
  | none => rw [hl] at hw; cases hw
  | some hi' =>
    rw [hl] at hw
    dsimp only at hw
    obtain ⟨m', hm', hw⟩ := Writes.bind_ok hw
    obtain ⟨t', ht', hw⟩ := Writes.bind_ok hw
    cases hw
    have hm'' := Hexital.manager_eq_ok hm'
    have hloc := hf _ t' ht'
    exact inv.setManager hi'.mgrKey m' t'.mgr hm'' hloc.cfg
      (dset n { hi' with active := t'.active } H.indicators) (Writes.keys_dset_of_lookup _ hl)
      (Writes.reg_dset hl { hi' with active := t'.active } rfl rfl)
      (fun _ hd => hd.of_stripEq hloc.stripEq) (fun _ => rfl)
      (fun _ cs h1 h2 => ⟨cs, h1.trans ((hloc.stripEq).mono (inv.others n hi' hn hl)), h2⟩)
      (fun _ cs h => h)

omit [PyF F] in
/-- … run on the member itself (it lives on the manager under `key`) -/
theorem TfInv.withInd_self {H H' : Hexital F} (inv : TfInv N nm ind key htf cfgD cfgA D PA H)
    (f : IndState F → PyM (IndState F))
    (hf : ∀ t t', f t = .ok t' → IndState.Local t t') (hs : SelfStep N ind cfgA PA PA' f)
    (hw : H.withInd nm f = .ok H') : TfInv N nm ind key htf cfgD cfgA D PA' H' := by
  unfold Hexital.withInd at hw
  cases hl : dlookup nm H.indicators with
  | none => rw [hl] at hw; cases hw
  | some hi' =>
    rw [hl] at hw
    dsimp only at hw
    obtain ⟨m', hm', hw⟩ := Writes.bind_ok hw
    obtain ⟨t', ht', hw⟩ := Writes.bind_ok hw
    cases hw
    have hm'' := Hexital.manager_eq_ok hm'
    have hloc := hf _ t' ht'
    obtain ⟨htree, hkey, _⟩ := inv.self hi' hl
    have hcfgA := (inv.own m' (hkey ▸ hm'')).1
    exact inv.setManager hi'.mgrKey m' t'.mgr hm'' hloc.cfg
      (dset nm { hi' with active := t'.active } H.indicators) (Writes.keys_dset_of_lookup _ hl)
      (Writes.reg_dset hl { hi' with active := t'.active } rfl rfl)
      (fun e _ => absurd (hkey.symm.trans e) inv.keyNe) (fun _ => rfl)
      (fun _ cs h1 h2 => hs _ t' cs htree hcfgA h1 h2 ht')
      (fun e => absurd hkey e)

omit [PyF F] in
/-- a fold of `withInd` over names other than `nm` -/
theorem TfInv.fold_others (sel : String → Bool) {f : IndState F → PyM (IndState F)}
    (hf : ∀ t t', f t = .ok t' → IndState.Local t t') :
    ∀ (l : List String) (H H' : Hexital F), nm ∉ l → TfInv N nm ind key htf cfgD cfgA D PA H →
      l.foldlM (fun (h : Hexital F) n => if sel n then h.withInd n f else pure h) H = .ok H' →
      TfInv N nm ind key htf cfgD cfgA D PA H' := by
  intro l
  induction l with
  | nil =>
    intro H H' _ inv e
    simp [List.foldlM, pure, Except.pure] at e; subst e; exact inv
  | cons n r ih =>
    intro H H' hnm inv e
    rw [List.foldlM_cons] at e
    obtain ⟨H1, e1, e2⟩ := Writes.bind_ok e
    have hn : n ≠ nm := fun h => hnm (by simp [h])
    have hr : nm ∉ r := fun h => hnm (List.mem_cons_of_mem _ h)
    by_cases hs : sel n = true
    · simp only [hs, if_true] at e1
      exact ih H1 H' hr (inv.withInd_other n hn f hf e1) e2
    · simp only [hs, Bool.false_eq_true, if_false] at e1
      cases e1
      exact ih H H' hr inv e2

omit [PyF F] in
/-- `forEach sel f` over a duplicate-free list of names -/
theorem TfInv.forEach_fold (sel : String → Bool) {f : IndState F → PyM (IndState F)}
    (hf : ∀ t t', f t = .ok t' → IndState.Local t t') (hs : sel nm = true → SelfStep N ind cfgA PA PA' f) :
    ∀ (l : List String) (H H' : Hexital F), l.Nodup → TfInv N nm ind key htf cfgD cfgA D PA H →
      l.foldlM (fun (h : Hexital F) n => if sel n then h.withInd n f else pure h) H = .ok H' →
      (nm ∈ l ∧ sel nm = true → TfInv N nm ind key htf cfgD cfgA D PA' H') ∧
      (¬ (nm ∈ l ∧ sel nm = true) → TfInv N nm ind key htf cfgD cfgA D PA H') := by
  intro l
  induction l with
  | nil =>
    intro H H' _ inv e
    simp [List.foldlM, pure, Except.pure] at e; subst e
    exact ⟨fun h => absurd h.1 (by simp), fun _ => inv⟩
  | cons n r ih =>
    intro H H' hnd inv e
    have hnd' := List.nodup_cons.1 hnd
    by_cases hn : n = nm
    · subst hn
      by_cases hsel : sel n = true
      · rw [List.foldlM_cons] at e
        obtain ⟨H1, e1, e2⟩ := Writes.bind_ok e
        simp only [hsel, if_true] at e1
        have inv1 := inv.withInd_self f hf (hs hsel) e1
        have inv2 := TfInv.fold_others sel hf r H1 H' hnd'.1 inv1 e2
        exact ⟨fun _ => inv2, fun h => absurd ⟨List.mem_cons_self, hsel⟩ h⟩
      · have := TfInv.fold_others sel hf r H H' hnd'.1 inv (by
          rw [List.foldlM_cons] at e
          obtain ⟨H1, e1, e2⟩ := Writes.bind_ok e
          simp only [hsel, Bool.false_eq_true, if_false] at e1
          cases e1; exact e2)
        exact ⟨fun h => absurd h.2 hsel, fun _ => this⟩
    · rw [List.foldlM_cons] at e
      obtain ⟨H1, e1, e2⟩ := Writes.bind_ok e
      have inv1 : TfInv N nm ind key htf cfgD cfgA D PA H1 := by
        by_cases hsel : sel n = true
        · simp only [hsel, if_true] at e1
          exact inv.withInd_other n hn f hf e1
        · simp only [hsel, Bool.false_eq_true, if_false] at e1
          cases e1; exact inv
      obtain ⟨p1, p2⟩ := ih H1 H' hnd'.2 inv1 e2
      refine ⟨fun h => p1 ⟨?_, h.2⟩, fun h => p2 (fun hm => h ⟨List.mem_cons_of_mem _ hm.1, hm.2⟩)⟩
      rcases List.mem_cons.1 h.1 with e | e
      · exact absurd e.symm hn
      · exact e

omit [PyF F] in
/-- a façade operation built from `forEach`: the step meets the member iff it is registered and selected -/
theorem TfInv.forEach {H H' : Hexital F} (inv : TfInv N nm ind key htf cfgD cfgA D PA H) (sel : String → Bool)
    {f : IndState F → PyM (IndState F)}
    (hf : ∀ t t', f t = .ok t' → IndState.Local t t') (hs : sel nm = true → SelfStep N ind cfgA PA PA' f)
    (hop : H.forEach sel f = .ok H') :
    (nm ∈ H.indicators.map (·.1) ∧ sel nm = true → TfInv N nm ind key htf cfgD cfgA D PA' H') ∧
    (¬ (nm ∈ H.indicators.map (·.1) ∧ sel nm = true) → TfInv N nm ind key htf cfgD cfgA D PA H') := by
  unfold Hexital.forEach at hop
  exact TfInv.forEach_fold sel hf hs _ H H' inv.keysNodup inv hop

end Inv

/-! ### the managers' half of `append` -/

theorem Manager.append_cfg' (m m' : Manager F) (new : List (Candle F)) (h : m.append new = .ok m') :
    m'.cfg = m.cfg := by
  unfold Manager.append at h
  split at h
  · cases h; rfl
  · obtain ⟨cs, _, h⟩ := Writes.bind_ok h
    cases h; rfl

/-- what `CandleManager.append` does to the dressed default list -/
def DfltFeed (cfgD : MgrCfg) (new : List (Candle F)) (D D' : List (Candle F)) : Prop :=
  ∀ X, Dressed D X → ∀ m' : Manager F, Manager.append ({ cfg := cfgD, candles := X } : Manager F) new = .ok m' →
    Dressed D' m'.candles

section Feed
variable {nm : String} {ind : Ind F} {key : String} {htf : Option String} {cfgD cfgA : MgrCfg}
  {D D' : List (Candle F)} {PA PA' : List (Candle F) → Prop}

/-- one manager receives the new candles -/
theorem TfInv.feedOne {H H' : Hexital F} (new : List (Candle F)) (k : String)
    (inv : TfInv N nm ind key htf cfgD cfgA D PA H) (hop : Hexital.feedOne new H k = .ok H') :
    (k = defaultKey → DfltFeed cfgD new D D' → TfInv N nm ind key htf cfgD cfgA D' PA H') ∧
    (k = key → FeedStep cfgA new PA PA' → TfInv N nm ind key htf cfgD cfgA D PA' H') ∧
    (k ≠ defaultKey → k ≠ key → TfInv N nm ind key htf cfgD cfgA D PA H') ∧
    H'.managers.map (·.1) = H.managers.map (·.1) := by
  unfold Hexital.feedOne at hop
  obtain ⟨mk, hmk, hop⟩ := Writes.bind_ok hop
  obtain ⟨mk', hmk', hop⟩ := Writes.bind_ok hop
  cases hop
  have hmk'' := Hexital.manager_eq_ok hmk
  have hcfg := Manager.append_cfg' mk mk' new hmk'
  have hreg : ∀ n hi, dlookup n H.indicators = some hi → ∃ hi0, dlookup n H.indicators = some hi0 ∧
      hi.tree = hi0.tree ∧ hi.mgrKey = hi0.mgrKey := fun n hi h => ⟨hi, h, rfl, rfl⟩
  refine ⟨fun hk hD => ?_, fun hk hA => ?_, fun hk1 hk2 => ?_, Writes.keys_dset_of_lookup _ hmk''⟩
  · subst hk
    obtain ⟨dm, h1, h2, h3⟩ := inv.dflt
    rw [h1] at hmk''; cases hmk''
    refine inv.setManager defaultKey mk mk' h1 hcfg H.indicators rfl hreg
      (fun _ hd => hD mk.candles hd mk' ?_) (fun e => absurd rfl e)
      (fun e => absurd e.symm inv.keyNe) (fun _ cs h => h)
    rw [← h2]; exact hmk'
  · subst hk
    obtain ⟨c1, _⟩ := inv.own mk hmk''
    refine inv.setManager k mk mk' hmk'' hcfg H.indicators rfl hreg
      (fun e => absurd e inv.keyNe) (fun _ => rfl) (fun _ cs h1 h2 => ?_) (fun e => absurd rfl e)
    obtain ⟨cs', hcs', hP'⟩ := hA cs h2
    have hs : Manager.Sim N ({ cfg := cfgA, candles := cs } : Manager F) mk := ⟨c1.symm, h1⟩
    obtain ⟨sm', hsm', hsim⟩ := (Manager.append_sim hs new).ok_right hmk'
    rw [hcs'] at hsm'
    cases hsm'
    exact ⟨cs', hsim.candles, hP'⟩
  · exact inv.setManager k mk mk' hmk'' hcfg H.indicators rfl hreg
      (fun e => absurd e hk1) (fun _ => rfl) (fun e => absurd e hk2) (fun _ cs h => h)

theorem TfInv.feed_fold (new : List (Candle F)) (hD : DfltFeed cfgD new D D') (hA : FeedStep cfgA new PA PA') :
    ∀ (ks : List String) (H H' : Hexital F) (bD bA : Bool), ks.Nodup →
      (bD = true → defaultKey ∉ ks) → (bA = true → key ∉ ks) →
      TfInv N nm ind key htf cfgD cfgA (bif bD then D' else D) (bif bA then PA' else PA) H →
      ks.foldlM (Hexital.feedOne new) H = .ok H' →
      TfInv N nm ind key htf cfgD cfgA (bif bD || decide (defaultKey ∈ ks) then D' else D)
        (bif bA || decide (key ∈ ks) then PA' else PA) H' ∧
      H'.managers.map (·.1) = H.managers.map (·.1) := by
  intro ks
  induction ks with
  | nil =>
    intro H H' bD bA _ _ _ inv e
    simp [List.foldlM, pure, Except.pure] at e; subst e
    simpa using inv
  | cons k r ih =>
    intro H H' bD bA hnd hbD hbA inv e
    rw [List.foldlM_cons] at e
    obtain ⟨H1, e1, e2⟩ := Writes.bind_ok e
    have hnd' := List.nodup_cons.1 hnd
    obtain ⟨p1, p2, p3, p4⟩ := inv.feedOne (D' := D') (PA' := PA') new k e1
    by_cases hk : k = defaultKey
    · subst hk
      have hb : bD = false := by
        cases bD with
        | false => rfl
        | true => exact absurd List.mem_cons_self (hbD rfl)
      subst hb
      have hkk : ¬ key = defaultKey := inv.keyNe
      have hmem : (key ∈ defaultKey :: r) = (key ∈ r) := by simp [hkk]
      have inv1 : TfInv N nm ind key htf cfgD cfgA (bif true then D' else D) (bif bA then PA' else PA) H1 := by
        cases bA with
        | false => exact (inv.feedOne (D' := D') (PA' := PA) new defaultKey e1).1 rfl hD
        | true => exact (inv.feedOne (D' := D') (PA' := PA') new defaultKey e1).1 rfl hD
      obtain ⟨q1, q2⟩ := ih H1 H' true bA hnd'.2 (fun _ => hnd'.1)
        (fun h hm => hbA h (List.mem_cons_of_mem _ hm)) inv1 e2
      refine ⟨?_, q2.trans p4⟩
      simpa [hkk] using q1
    · by_cases hk2 : k = key
      · subst hk2
        have hb : bA = false := by
          cases bA with
          | false => rfl
          | true => exact absurd List.mem_cons_self (hbA rfl)
        subst hb
        have hkk : ¬ defaultKey = k := fun e => hk e.symm
        have inv1 : TfInv N nm ind k htf cfgD cfgA (bif bD then D' else D) (bif true then PA' else PA) H1 := by
          cases bD with
          | false => exact (inv.feedOne (D' := D) (PA' := PA') new k e1).2.1 rfl hA
          | true => exact (inv.feedOne (D' := D') (PA' := PA') new k e1).2.1 rfl hA
        obtain ⟨q1, q2⟩ := ih H1 H' bD true hnd'.2
          (fun h hm => hbD h (List.mem_cons_of_mem _ hm)) (fun _ => hnd'.1) inv1 e2
        refine ⟨?_, q2.trans p4⟩
        simpa [hkk] using q1
      · have hkk1 : ¬ defaultKey = k := fun e => hk e.symm
        have hkk2 : ¬ key = k := fun e => hk2 e.symm
        have inv1 : TfInv N nm ind key htf cfgD cfgA (bif bD then D' else D) (bif bA then PA' else PA) H1 := by
          cases bD <;> cases bA
          · exact (inv.feedOne (D' := D) (PA' := PA) new k e1).2.2.1 hk hk2
          · exact (inv.feedOne (D' := D) (PA' := PA') new k e1).2.2.1 hk hk2
          · exact (inv.feedOne (D' := D') (PA' := PA) new k e1).2.2.1 hk hk2
          · exact (inv.feedOne (D' := D') (PA' := PA') new k e1).2.2.1 hk hk2
        obtain ⟨q1, q2⟩ := ih H1 H' bD bA hnd'.2
          (fun h hm => hbD h (List.mem_cons_of_mem _ hm)) (fun h hm => hbA h (List.mem_cons_of_mem _ hm)) inv1 e2
        refine ⟨?_, q2.trans p4⟩
        simpa [hkk1, hkk2] using q1

/-- `Hexital.append`, the managers' half: every manager – the default one, and `a`'s if it exists – receives the
new candles -/
theorem TfInv.feedManagers {H H' : Hexital F} (inv : TfInv N nm ind key htf cfgD cfgA D PA H) (new : List (Candle F))
    (hD : DfltFeed cfgD new D D') (hA : FeedStep cfgA new PA PA') (hop : H.feedManagers new = .ok H') :
    TfInv N nm ind key htf cfgD cfgA D' PA' H' := by
  unfold Hexital.feedManagers Hexital.feedOrder at hop
  dsimp only at hop
  obtain ⟨dm, h1, _⟩ := inv.dflt
  have hperm : ((H.managers.map (·.1)).drop 1 ++ (H.managers.map (·.1)).take 1).Perm (H.managers.map (·.1)) := by
    have h := (List.perm_append_comm :
      ((H.managers.map (·.1)).drop 1 ++ (H.managers.map (·.1)).take 1).Perm
        ((H.managers.map (·.1)).take 1 ++ (H.managers.map (·.1)).drop 1))
    rwa [List.take_append_drop] at h
  have hnd := hperm.nodup_iff.2 inv.mgrNodup
  have hmem : defaultKey ∈ (H.managers.map (·.1)).drop 1 ++ (H.managers.map (·.1)).take 1 :=
    hperm.mem_iff.2 (Writes.mem_keys_of_lookup h1)
  obtain ⟨q1, q2⟩ := TfInv.feed_fold new hD hA _ H H' false false hnd (fun h => by cases h) (fun h => by cases h)
    (by simpa using inv) hop
  simp only [Bool.false_or, hmem, decide_true, cond_true] at q1
  by_cases hk : key ∈ (H.managers.map (·.1)).drop 1 ++ (H.managers.map (·.1)).take 1
  · rw [decide_eq_true hk] at q1
    exact q1
  · have hnone : dlookup key H'.managers = none := by
      apply (Writes.dlookup_none_iff key H'.managers).2
      rw [q2]
      exact fun h => hk (hperm.mem_iff.2 h)
    rw [decide_eq_false hk] at q1
    exact q1.reindex hnone

end Feed

/-! ### `add_indicator` / the constructor's member loop / `remove_indicator` -/

section Attach
variable {nm : String} {ind : Ind F} {key : String} {htf : Option String} {cfgD cfgA : MgrCfg}
  {D : List (Candle F)} {PA : List (Candle F) → Prop}

omit [PyF F] in
/-- registering a member on some manager, the manager dict possibly extended -/
theorem TfInv.register {H : Hexital F} (inv : TfInv N nm ind key htf cfgD cfgA D PA H) (m : Member F) (k : String)
    (ms : List (String × Manager F)) (hnd : (ms.map (·.1)).Nodup)
    (hdf : ∀ dm, dlookup defaultKey H.managers = some dm → dlookup defaultKey ms = some dm)
    (hown : ∀ mm, dlookup key ms = some mm → mm.cfg = cfgA ∧ ∃ cs, StripEq N cs mm.candles ∧ PA cs)
    (hmono : ∀ mm, dlookup key H.managers = some mm → ∃ mm', dlookup key ms = some mm')
    (hself : m.tree.name = nm → m.tree = ind ∧ k = key ∧ ∃ mm, dlookup key ms = some mm)
    (hoth : m.tree.name ≠ nm → ∀ k, k ∈ m.tree.allNames → k ∈ N) :
    TfInv N nm ind key htf cfgD cfgA D PA
      (⟨H.cfg, H.tfName, ms, dset m.tree.name ⟨m.tree, k, 0⟩ H.indicators⟩ : Hexital F) := by
  obtain ⟨dm, h1, h2, h3⟩ := inv.dflt
  refine ⟨Writes.nodup_keys_dset _ _ _ inv.keysNodup, hnd, inv.keyNe, inv.cfg, inv.tfName, ?_,
    ⟨dm, hdf dm h1, h2, h3⟩, hown, ?_⟩
  · intro n hi2 hn2 hl
    dsimp only at hl
    rw [dlookup_dset] at hl
    by_cases e : m.tree.name = n
    · simp only [e, if_true] at hl; cases hl; exact hoth (e ▸ hn2)
    · simp only [e, if_false] at hl
      exact inv.others n hi2 hn2 hl
  · intro hi hl
    dsimp only at hl
    rw [dlookup_dset] at hl
    by_cases e : m.tree.name = nm
    · simp only [e, if_true] at hl; cases hl
      exact hself e
    · simp only [e, if_false] at hl
      obtain ⟨s1, s2, mm, s3⟩ := inv.self hi hl
      exact ⟨s1, s2, hmono mm s3⟩

/-- one member attached (`_validate_indicators`, second loop): `src = some cs` from the constructor (then `cs` is
the stream `sD`), `src = none` from `add_indicator` (then the default manager's candles, handed over, are the stream).
A manager created under `key` is the manager `tasks cfgA sD`. -/
theorem TfInv.attachFrom {H H' : Hexital F} (inv : TfInv N nm ind key htf cfgD cfgA D PA H)
    (src : Option (List (Candle F))) (m : Member F) (secs : Option Int) (sD : List (Candle F))
    (hcfgA : cfgA = { cfgD with tf := secs }) (htfne : htf ≠ some key)
    (hself : m.tree.name = nm → m.tree = ind ∧ m.tfName = some key)
    (hoth : m.tree.name ≠ nm → ∀ k, k ∈ m.tree.allNames → k ∈ N)
    (hshare : m.tfName = some key → m.tfSecs = secs)
    (hsrc : match src with
      | some cs => cs = sD
      | none => D.map Candle.handOver = sD)
    (hA0 : ∀ A, tasks cfgA sD = .ok A → PA A)
    (ha : H.attachFrom src m = .ok H') : TfInv N nm ind key htf cfgD cfgA D PA H' := by
  obtain ⟨dm, h1, h2, h3⟩ := inv.dflt
  unfold Hexital.attachFrom at ha
  split at ha
  · rename_i htf0
    cases ha
    have hnot : ¬ m.tree.name = nm := fun e => by rw [(hself e).2] at htf0; cases htf0
    exact inv.register m defaultKey H.managers inv.mgrNodup (fun _ h => h) inv.own (fun mm h => ⟨mm, h⟩)
      (fun e => absurd e hnot) hoth
  · rename_i tf htf0
    split at ha
    · rename_i hdh
      cases ha
      refine inv.register m tf H.managers inv.mgrNodup (fun _ h => h) inv.own (fun mm h => ⟨mm, h⟩)
        (fun e => ?_) hoth
      have htk : tf = key := by
        have := (hself e).2; rw [htf0] at this; cases this; rfl
      subst htk
      refine ⟨(hself e).1, rfl, ?_⟩
      unfold dhas at hdh
      exact Option.isSome_iff_exists.1 hdh
    · rename_i hdh
      obtain ⟨raw, hraw, ha⟩ := Writes.bind_ok ha
      obtain ⟨nmgr, hnmgr, ha⟩ := Writes.bind_ok ha
      cases ha
      have hnone : dlookup tf H.managers = none := by
        cases hl : dlookup tf H.managers with
        | none => rfl
        | some x => exact absurd (by simp [dhas, hl]) hdh
      have htfne' : ¬ tf = defaultKey := by
        intro e; rw [e, h1] at hnone; cases hnone
      by_cases htk : tf = key
      · subst htk
        -- the manager of `a`'s timeframe is created here
        have hsecs := hshare htf0
        have hraw' : raw = sD := by
          cases src with
          | some cs => cases hraw; exact hsrc
          | none =>
            rw [attachRaw_none H m dm h1] at hraw
            cases hraw
            have hne : (m.tfName == H.tfName) = false := by
              rw [htf0, inv.tfName]
              cases htf with
              | none => rfl
              | some t =>
                have : ¬ tf = t := fun e => htfne (by rw [e])
                simpa using this
            unfold memberRaw
            rw [hne]
            simp only [Bool.false_eq_true, if_false]
            exact (h3.map_handOver).trans hsrc
        have hcfg' : ({ H.cfg with tf := m.tfSecs } : MgrCfg) = cfgA := by
          rw [inv.cfg, hsecs, hcfgA]
        rw [hcfg', hraw'] at hnmgr
        unfold Manager.init at hnmgr
        obtain ⟨A, hA, hnmgr⟩ := Writes.bind_ok hnmgr
        cases hnmgr
        refine inv.register m tf _ (Writes.nodup_keys_dset _ _ _ inv.mgrNodup) (fun dm' hd => ?_) (fun mm hmm => ?_)
          (fun mm _ => ⟨_, dlookup_dset_self _ _ _⟩)
          (fun e => ⟨(hself e).1, rfl, _, dlookup_dset_self _ _ _⟩) hoth
        · rw [dlookup_dset]; simp only [htfne', if_false]; exact hd
        · rw [dlookup_dset_self] at hmm
          cases hmm
          exact ⟨rfl, A, StripEq.refl _ _, hA0 A hA⟩
      · have hnot : ¬ m.tree.name = nm := by
          intro e
          have := (hself e).2; rw [htf0] at this; cases this; exact htk rfl
        refine inv.register m tf _ (Writes.nodup_keys_dset _ _ _ inv.mgrNodup) (fun dm' hd => ?_) (fun mm hmm => ?_)
          (fun mm hmm => ⟨mm, ?_⟩) (fun e => absurd e hnot) hoth
        · rw [dlookup_dset]; simp only [htfne', if_false]; exact hd
        · rw [dlookup_dset] at hmm; simp only [htk, if_false] at hmm
          exact inv.own mm hmm
        · rw [dlookup_dset]; simp only [htk, if_false]; exact hmm

/-- the member loop of `_validate_indicators` -/
theorem TfInv.attachAll (src : Option (List (Candle F))) (secs : Option Int) (sD : List (Candle F))
    (hcfgA : cfgA = { cfgD with tf := secs }) (htfne : htf ≠ some key)
    (hsrc : match src with
      | some cs => cs = sD
      | none => D.map Candle.handOver = sD)
    (hA0 : ∀ A, tasks cfgA sD = .ok A → PA A) :
    ∀ (l : List (Member F)) (H H' : Hexital F), TfInv N nm ind key htf cfgD cfgA D PA H →
      (∀ m, m ∈ l → (m.tree.name = nm → m.tree = ind ∧ m.tfName = some key) ∧
        (m.tree.name ≠ nm → ∀ k, k ∈ m.tree.allNames → k ∈ N) ∧ (m.tfName = some key → m.tfSecs = secs)) →
      l.foldlM (Hexital.attachFrom src) H = .ok H' → TfInv N nm ind key htf cfgD cfgA D PA H' := by
  intro l
  induction l with
  | nil => intro H H' inv _ e; simp [List.foldlM, pure, Except.pure] at e; subst e; exact inv
  | cons m r ih =>
    intro H H' inv hms e
    rw [List.foldlM_cons] at e
    obtain ⟨H1, e1, e2⟩ := Writes.bind_ok e
    obtain ⟨a1, a2, a3⟩ := hms m (by simp)
    exact ih H1 H' (inv.attachFrom src m secs sD hcfgA htfne a1 a2 a3 hsrc hA0 e1)
      (fun m' hm' => hms m' (List.mem_cons_of_mem _ hm')) e2

omit [PyF F] in
theorem TfInv.erase_other {H : Hexital F} (inv : TfInv N nm ind key htf cfgD cfgA D PA H) (b : String)
    (hb : b ≠ nm) : TfInv N nm ind key htf cfgD cfgA D PA { H with indicators := derase b H.indicators } := by
  refine ⟨?_, inv.mgrNodup, inv.keyNe, inv.cfg, inv.tfName, ?_, inv.dflt, inv.own, ?_⟩
  · show ((derase b H.indicators).map (·.1)).Nodup
    rw [Writes.derase_eq_filter]
    exact inv.keysNodup.sublist ((List.filter_sublist).map _)
  · intro n hi2 hn2 hl
    change dlookup n (derase b H.indicators) = some hi2 at hl
    rw [dlookup_derase] at hl
    by_cases e : b = n
    · simp [e] at hl
    · simp only [e, if_false] at hl
      exact inv.others n hi2 hn2 hl
  · intro hi hl
    change dlookup nm (derase b H.indicators) = some hi at hl
    rw [dlookup_derase] at hl
    simp only [hb, if_false] at hl
    exact inv.self hi hl

end Attach

/-! ### the two manager specs: the Hexital's (`M`) and the member's (`M'`, the same with the member's timeframe) -/

/-- what links the Hexital-level manager spec `M` to the spec `M'` of a member manager with timeframe `secs`, on the
streams `Ok`: the configurations differ by the timeframe only, the streams are fine for both, and HANDING OVER the
default manager's candles gives the stream back -/
structure LateLink (M M' : MgrSpec F) (secs : Option Int) (Ok : List (Candle F) → Prop) : Prop where
  cfg' : M'.cfg = { M.cfg with tf := secs }
  okL : ∀ a b, Ok (a ++ b) → Ok a
  okM : ∀ s, Ok s → M.Ok s
  okM' : ∀ s, Ok s → M'.Ok s
  hand : ∀ s, Ok s → (M.spec s).map Candle.handOver = s

/-- the default manager's `append` keeps its candles the dressed manager spec of the stream -/
theorem dfltFeed_spec (M : MgrSpec F) (s new : List (Candle F)) (hok : M.Ok (s ++ new)) :
    DfltFeed M.cfg new (M.spec s) (M.spec (s ++ new)) := by
  intro X hd m' hm'
  by_cases hnew : new = []
  · subst hnew
    simp [Manager.append] at hm'
    subst hm'
    simpa using hd
  · obtain ⟨k, Q, _, _, ht, hres⟩ := M.append s new X hok hnew hd
    have hne : new.isEmpty = false := by cases new <;> simp at hnew ⊢
    simp only [Manager.append, hne, Bool.false_eq_true, if_false, ht, bind, Except.bind] at hm'
    cases hm'
    show Dressed _ (X.take k ++ Q)
    rw [hres]
    exact Dressed.append' (hd.take k) (Dressed.refl' Q)

section Steps
variable {ind : Ind F} (T : TreeSpec ind) (M M' : MgrSpec F) {secs : Option Int} {Ok : List (Candle F) → Prop}
  {nm key : String} {htf : Option String}

/-- `Hexital.calculate(name)`: stays resumable; finished when it met the member -/
theorem TfInv.calculate {s : List (Candle F)} {D : List (Candle F)} {H H' : Hexital F} (hs : M'.Ok s)
    (hok : TreeOK N ind) (inv : TfInv N nm ind key htf M.cfg M'.cfg D (Res T M' s) H) (name : Option String)
    (hop : H.calculate name = .ok H') :
    TfInv N nm ind key htf M.cfg M'.cfg D (Res T M' s) H' ∧
    (nm ∈ H.indicators.map (·.1) ∧ (name.isNone || name == some nm) = true →
      TfInv N nm ind key htf M.cfg M'.cfg D (Fin' T M' s) H') := by
  obtain ⟨p1, p2⟩ := inv.forEach (fun n => name.isNone || name == some n) IndState.calculate_local
    (fun _ => SelfStep.calculate T M'.cfg (M'.spec s) hok) hop
  refine ⟨?_, p1⟩
  by_cases h : nm ∈ H.indicators.map (·.1) ∧ (name.isNone || name == some nm) = true
  · exact (p1 h).mono (fin_res T M' hs)
  · exact p2 h

theorem TfInv.purge {s : List (Candle F)} {D : List (Candle F)} {H H' : Hexital F} (hok : TreeOK N ind)
    (inv : TfInv N nm ind key htf M.cfg M'.cfg D (Res T M' s) H) (name : Option String)
    (hop : H.purge name = .ok H') : TfInv N nm ind key htf M.cfg M'.cfg D (Res T M' s) H' := by
  obtain ⟨p1, p2⟩ := inv.forEach (fun n => name.isNone || name == some n)
    (fun t t' e => by cases e; exact IndState.purge_local t)
    (fun _ => SelfStep.purge T M'.cfg (M'.spec s) hok) hop
  by_cases h : nm ∈ H.indicators.map (·.1) ∧ (name.isNone || name == some nm) = true
  · exact p1 h
  · exact p2 h

/-- members sharing `a`'s timeframe name carry `a`'s timeframe (the hypothesis of `C13.presence_FULL`) -/
def TwinOp.ShareOK (a : Member F) : TwinOp F → Prop
  | .add ms => ∀ m, m ∈ ms → m.tfName = a.tfName → m.tfSecs = a.tfSecs
  | _ => True

/-- a manager created for `a`'s timeframe over the stream `s` holds `M'.spec s` -/
theorem LateLink.created (L : LateLink M M' secs Ok) {s : List (Candle F)} (hs : Ok s) :
    ∀ A, tasks M'.cfg s = .ok A → Res T M' s A := by
  intro A hA
  rw [M'.init s (L.okM' s hs)] at hA
  cases hA
  exact Gen.resumableAt_plain T.S _ (M'.spec_plain s (L.okM' s hs))

omit [PyF F] in
/-- what the member loop needs to know about each member -/
theorem attach_side (a : Member F) (hatf : a.tfName = some key) (hsecs : a.tfSecs = secs) (hnm : a.tree.name = nm)
    (hind : a.tree = ind) (l : List (Member F))
    (h1 : ∀ m, m ∈ l → m = a ∨ (m.tree.name ≠ a.tree.name ∧ ∀ k, k ∈ m.tree.allNames → k ∈ N))
    (h2 : ∀ m, m ∈ l → m.tfName = a.tfName → m.tfSecs = a.tfSecs) :
    ∀ m, m ∈ l → (m.tree.name = nm → m.tree = ind ∧ m.tfName = some key) ∧
      (m.tree.name ≠ nm → ∀ k, k ∈ m.tree.allNames → k ∈ N) ∧ (m.tfName = some key → m.tfSecs = secs) := by
  intro m hm
  refine ⟨?_, ?_, fun e => (h2 m hm (e.trans hatf.symm)).trans hsecs⟩
  · rcases h1 m hm with e | ⟨e1, _⟩
    · subst e; exact fun _ => ⟨hind, hatf⟩
    · exact fun h => absurd (h.trans hnm.symm) e1
  · rcases h1 m hm with e | ⟨_, e2⟩
    · subst e; exact fun h => absurd hnm h
    · exact fun _ => e2

/-- one façade operation -/
theorem TfInv.step (L : LateLink M M' secs Ok) (a : Member F) (hatf : a.tfName = some key) (hsecs : a.tfSecs = secs)
    (hnm : a.tree.name = nm) (hind : a.tree = ind) (htfne : htf ≠ some key)
    (hok : TreeOK N ind) {s : List (Candle F)} {H H' : Hexital F} (op : TwinOp F)
    (hs : Ok (s ++ op.added)) (hopok : op.LateOK N a) (hshare : op.ShareOK a)
    (inv : TfInv N nm ind key htf M.cfg M'.cfg (M.spec s) (Res T M' s) H) (hop : op.runHex H = .ok H') :
    TfInv N nm ind key htf M.cfg M'.cfg (M.spec (s ++ op.added)) (Res T M' (s ++ op.added)) H' := by
  have hs0 : Ok s := L.okL _ _ hs
  cases op with
  | calculate n =>
    simp only [TwinOp.added, List.append_nil]
    exact (inv.calculate T M M' (L.okM' s hs0) hok n hop).1
  | purge n =>
    simp only [TwinOp.added, List.append_nil]
    exact inv.purge T M M' hok n hop
  | recalculate n =>
    simp only [TwinOp.added, List.append_nil]
    unfold TwinOp.runHex Hexital.recalculate at hop
    obtain ⟨H1, e1, e2⟩ := Writes.bind_ok hop
    exact ((inv.purge T M M' hok n e1).calculate T M M' (L.okM' s hs0) hok n e2).1
  | calculateIndex n i =>
    simp only [TwinOp.added, List.append_nil]
    obtain ⟨hn1, hn2⟩ := hopok
    have hsel : ¬ ((n.isNone || n == some nm) = true) := by
      cases n with
      | none => exact absurd rfl hn1
      | some b =>
        simp only [Option.isNone_some, Bool.false_or, beq_iff_eq, Option.some.injEq]
        intro e; exact hn2 (by rw [e, hnm])
    obtain ⟨_, p2⟩ := inv.forEach (PA' := Res T M' s) (fun n' => n.isNone || n == some n')
      (fun t t' e => IndState.calculateIndex_local t t' i none e)
      (fun h => absurd h hsel) hop
    exact p2 (fun h => hsel h.2)
  | append new =>
    simp only [TwinOp.added] at hs ⊢
    unfold TwinOp.runHex Hexital.append at hop
    obtain ⟨H1, e1, e2⟩ := Writes.bind_ok hop
    have inv1 := inv.feedManagers new (dfltFeed_spec M s new (L.okM _ hs))
      (feedStep_resumable T M' s new (L.okM' _ hs)) e1
    exact (inv1.calculate T M M' (L.okM' _ hs) hok none e2).1
  | add ms =>
    simp only [TwinOp.added, List.append_nil]
    unfold TwinOp.runHex Hexital.addIndicators at hop
    exact TfInv.attachAll none secs s L.cfg' htfne (L.hand s hs0) (L.created T M M' hs0) _ H H' inv
      (attach_side a hatf hsecs hnm hind _ hopok
        (fun m hm => hshare m (Hexital.dedupe_sub ms m hm))) hop
  | remove n =>
    simp only [TwinOp.added, List.append_nil]
    unfold TwinOp.runHex Hexital.removeIndicator at hop
    obtain ⟨H1, e1, e2⟩ := Writes.bind_ok hop
    have inv1 := inv.purge T M M' hok n e1
    cases n with
    | none => cases e2; exact inv1
    | some b =>
      cases e2
      exact inv1.erase_other b (fun e => hopok (e.trans hnm.symm))

/-- a program of façade operations -/
theorem TfInv.program (L : LateLink M M' secs Ok) (a : Member F) (hatf : a.tfName = some key)
    (hsecs : a.tfSecs = secs) (hnm : a.tree.name = nm) (hind : a.tree = ind) (htfne : htf ≠ some key)
    (hok : TreeOK N ind) :
    ∀ (ops : List (TwinOp F)) (s : List (Candle F)) (H H' : Hexital F),
      Ok (s ++ (TwinOp.chunks ops).flatten) → (∀ op, op ∈ ops → op.LateOK N a) → (∀ op, op ∈ ops → op.ShareOK a) →
      TfInv N nm ind key htf M.cfg M'.cfg (M.spec s) (Res T M' s) H → ops.foldlM TwinOp.runHex H = .ok H' →
      TfInv N nm ind key htf M.cfg M'.cfg (M.spec (s ++ (TwinOp.chunks ops).flatten))
        (Res T M' (s ++ (TwinOp.chunks ops).flatten)) H' := by
  intro ops
  induction ops with
  | nil =>
    intro s H H' _ _ _ inv e
    simp [List.foldlM, pure, Except.pure] at e; subst e
    simpa [TwinOp.chunks] using inv
  | cons op r ih =>
    intro s H H' hs hops hsh inv e
    rw [List.foldlM_cons] at e
    obtain ⟨H1, e1, e2⟩ := Writes.bind_ok e
    rw [TwinOp.chunks_cons, ← List.append_assoc] at hs ⊢
    have inv1 := TfInv.step T M M' L a hatf hsecs hnm hind htfne hok op (L.okL _ _ hs) (hops op (by simp))
      (hsh op (by simp)) inv e1
    exact ih (s ++ op.added) H1 H' hs (fun op' h' => hops op' (List.mem_cons_of_mem _ h'))
      (fun op' h' => hsh op' (List.mem_cons_of_mem _ h')) inv1 e2

/-- construction: `Hexital(candles, indicators=[…])` – member managers are built from the candles as given -/
theorem TfInv.init (L : LateLink M M' secs Ok) (a : Member F) (hatf : a.tfName = some key) (hsecs : a.tfSecs = secs)
    (hnm : a.tree.name = nm) (hind : a.tree = ind) (hkey : key ≠ defaultKey) (htfne : htf ≠ some key)
    (init : List (Candle F)) (ms : List (Member F)) (H : Hexital F) (hs : Ok init)
    (hms : ∀ m, m ∈ Hexital.dedupe ms → m = a ∨ (m.tree.name ≠ a.tree.name ∧ ∀ k, k ∈ m.tree.allNames → k ∈ N))
    (hsh : ∀ m, m ∈ ms → m.tfName = a.tfName → m.tfSecs = a.tfSecs)
    (hinit : Hexital.init M.cfg htf init ms = .ok H) :
    TfInv N nm ind key htf M.cfg M'.cfg (M.spec init) (Res T M' init) H := by
  unfold Hexital.init at hinit
  obtain ⟨dm, hdm, hfold⟩ := Writes.bind_ok hinit
  unfold Manager.init at hdm
  rw [M.init init (L.okM _ hs)] at hdm
  cases hdm
  have hkd : ¬ defaultKey = key := fun e => hkey e.symm
  have inv0 : TfInv N nm ind key htf M.cfg M'.cfg (M.spec init) (Res T M' init)
      ({ cfg := M.cfg, tfName := htf, managers := [(defaultKey, { cfg := M.cfg, candles := M.spec init })],
         indicators := [] } : Hexital F) :=
    ⟨by simp, by simp, hkey, rfl, rfl, fun n hi _ hl => by simp at hl,
     ⟨{ cfg := M.cfg, candles := M.spec init }, by simp [dlookup], rfl, Dressed.refl' _⟩,
     fun m hm => by simp [dlookup, hkd] at hm, fun hi hl => by simp at hl⟩
  exact TfInv.attachAll (some init) secs init L.cfg' htfne rfl (L.created T M M' hs) _ _ H inv0
    (attach_side a hatf hsecs hnm hind _ hms (fun m hm => hsh m (Hexital.dedupe_sub ms m hm))) hfold

end Steps

/-! ### the theorems -/

/-- **A member with its own timeframe: its readings are a function of the stream alone – whenever it was added.**
`M` is the Hexital-level manager spec (no timeframe of its own), `M'` the spec of a manager with the member's timeframe
(`LateLink`).  Build a Hexital over `init` with members `ms`, drive it with any program `ops` of façade operations –
which may add `a` by `add_indicator` at any point, any number of times, may add and remove other members (also members
sharing `a`'s timeframe, before or after `a`), calculate / purge / recalculate anything, append candles – and close
with `calculate()`.  If `a` is registered at the end, the manager under `a`'s timeframe name holds – up to the others'
entries – THE row-major run `cs` of `a`'s tree over `M'.spec` of everything that was fed, and `reading_as_list` returns
the columns of `cs`. -/
theorem late_member_column_tf (M M' : MgrSpec F) (secs : Option Int) (Ok : List (Candle F) → Prop)
    (L : LateLink M M' secs Ok) (tf : Option String) (init : List (Candle F)) (ms : List (Member F))
    (a : Member F) (ops : List (TwinOp F)) (H : Hexital F) (T : TreeSpec a.tree) (key : String)
    (hatf : a.tfName = some key) (hsecs : a.tfSecs = secs) (hkey : key ≠ defaultKey) (htfne : tf ≠ some key)
    (hms : ∀ m, m ∈ Hexital.dedupe ms → m = a ∨ (m.tree.name ≠ a.tree.name ∧ ∀ k, k ∈ m.tree.allNames → k ∈ N))
    (hok : TreeOK N a.tree) (hops : ∀ op, op ∈ ops → op.LateOK N a)
    (hshOps : ∀ op, op ∈ ops → op.ShareOK a)
    (hshMs : ∀ m, m ∈ ms → m.tfName = a.tfName → m.tfSecs = a.tfSecs)
    (hs : Ok (init ++ (TwinOp.chunks ops).flatten))
    (hrun : runHexital M.cfg tf init ms (ops ++ [.calculate none]) = .ok H)
    (hreg : ∃ hi, dlookup a.tree.name H.indicators = some hi) :
    ∃ cs, Gen.rowMajor T.S (M'.spec (init ++ (TwinOp.chunks ops).flatten)) = .ok cs ∧
      (∀ name, (splitDot name).headD "" = a.tree.name → readOK N name = true →
        H.readingAsList name = .ok (cs.map fun c => readingByCandle c name)) ∧
      (∃ hi m, dlookup a.tree.name H.indicators = some hi ∧ hi.tree = a.tree ∧ hi.mgrKey = key ∧
        dlookup key H.managers = some m ∧ m.cfg = M'.cfg ∧ StripEq N cs m.candles) := by
  unfold runHexital at hrun
  obtain ⟨H0, h0, hfold⟩ := Writes.bind_ok hrun
  rw [List.foldlM_append] at hfold
  obtain ⟨Hm, hm, hlast⟩ := Writes.bind_ok hfold
  have hlast' : Hm.calculate none = .ok H := by
    simp only [List.foldlM_cons, List.foldlM_nil, TwinOp.runHex, bind, Except.bind, pure, Except.pure] at hlast
    cases hc : Hm.calculate none with
    | error e => rw [hc] at hlast; cases hlast
    | ok x => rw [hc] at hlast; simpa using hlast
  have inv0 := TfInv.init (N := N) T M M' L a hatf hsecs rfl rfl hkey htfne init ms H0 (L.okL _ _ hs) hms hshMs h0
  have invm := TfInv.program T M M' L a hatf hsecs rfl rfl htfne hok ops init H0 Hm hs hops hshOps inv0 hm
  obtain ⟨hi, hl⟩ := hreg
  have hkeys := (Hexital.calculate_all_agree Hm H none hlast').keys
  have hmem : a.tree.name ∈ Hm.indicators.map (·.1) := by
    rw [← hkeys]; exact Writes.mem_keys_of_lookup hl
  have invF := (invm.calculate T M M' (L.okM' _ hs) hok none hlast').2 ⟨hmem, rfl⟩
  obtain ⟨s1, s2, m, s3⟩ := invF.self hi hl
  obtain ⟨d2, cs, d3, d4⟩ := invF.own m s3
  refine ⟨cs, d4, fun name hprim hr => ?_, ⟨hi, m, hl, s1, s2, s3, d2, d3⟩⟩
  unfold Hexital.readingAsList Hexital.manager
  dsimp only
  rw [hprim, hl]
  dsimp only
  rw [s2, s3]
  show Except.ok (m.candles.map fun c => readingByCandle c name) = _
  congr 1
  have hc := d3
  unfold StripEq at hc
  have e := congrArg (List.map (fun c => readingByCandle c name)) hc
  rw [map_readingByCandle_strip hr, map_readingByCandle_strip hr] at e
  exact e.symm

/-- **C13, presence – the member itself, WITH its own timeframe, added late** (the case `C13.presence_late` leaves
open).  Two Hexitals (Hexital-level spec `M`: no timeframe of its own – plain, or Heikin-Ashi) over the same candles
with any member lists, driven with any programs that feed the same candles (in any chunking), closed with
`calculate()`.  The member `a` (timeframe name `key`, seconds `secs`: manager spec `M'`) may be handed to the
constructor or added by `add_indicator` at any point of either program; the other members (`N₁`, `N₂` bound the names
they write under) may be registered, added and removed in any order – members sharing `a`'s timeframe name (with the
same seconds) may create `a`'s manager before `a` arrives; `calculate / purge / recalculate` may be aimed at anything,
`calculate_index` at other members.  If `a` is registered at the end of both, every reading name of `a` returns the
same column, and under every name of `a`'s tree the two managers of `a`'s timeframe store the same readings on the
same collapsed candles. -/
theorem presence_late_tf (M M' : MgrSpec F) (secs : Option Int) (Ok : List (Candle F) → Prop)
    (L : LateLink M M' secs Ok) (tf₁ tf₂ : Option String) (init : List (Candle F)) (ms₁ ms₂ : List (Member F))
    (a : Member F) (N₁ N₂ : List String) (ops₁ ops₂ : List (TwinOp F)) (H₁ H₂ : Hexital F) (T : TreeSpec a.tree)
    (key : String) (hatf : a.tfName = some key) (hsecs : a.tfSecs = secs) (hkey : key ≠ defaultKey)
    (htf₁ : tf₁ ≠ some key) (htf₂ : tf₂ ≠ some key)
    (hms₁ : ∀ m, m ∈ Hexital.dedupe ms₁ → m = a ∨ (m.tree.name ≠ a.tree.name ∧ ∀ k, k ∈ m.tree.allNames → k ∈ N₁))
    (hms₂ : ∀ m, m ∈ Hexital.dedupe ms₂ → m = a ∨ (m.tree.name ≠ a.tree.name ∧ ∀ k, k ∈ m.tree.allNames → k ∈ N₂))
    (hok₁ : TreeOK N₁ a.tree) (hok₂ : TreeOK N₂ a.tree)
    (hops₁ : ∀ op, op ∈ ops₁ → op.LateOK N₁ a) (hops₂ : ∀ op, op ∈ ops₂ → op.LateOK N₂ a)
    (hshOps : ∀ op, op ∈ ops₁ ++ ops₂ → op.ShareOK a)
    (hshMs : ∀ m, m ∈ ms₁ ++ ms₂ → m.tfName = a.tfName → m.tfSecs = a.tfSecs)
    (hsame : (TwinOp.chunks ops₁).flatten = (TwinOp.chunks ops₂).flatten)
    (hs : Ok (init ++ (TwinOp.chunks ops₁).flatten))
    (hr₁ : runHexital M.cfg tf₁ init ms₁ (ops₁ ++ [.calculate none]) = .ok H₁)
    (hr₂ : runHexital M.cfg tf₂ init ms₂ (ops₂ ++ [.calculate none]) = .ok H₂)
    (hreg₁ : ∃ hi, dlookup a.tree.name H₁.indicators = some hi)
    (hreg₂ : ∃ hi, dlookup a.tree.name H₂.indicators = some hi) :
    (∀ name, (splitDot name).headD "" = a.tree.name → readOK N₁ name = true → readOK N₂ name = true →
        H₁.readingAsList name = H₂.readingAsList name) ∧
    (∃ hi₁ m₁ hi₂ m₂, dlookup a.tree.name H₁.indicators = some hi₁ ∧ dlookup hi₁.mgrKey H₁.managers = some m₁ ∧
        dlookup a.tree.name H₂.indicators = some hi₂ ∧ dlookup hi₂.mgrKey H₂.managers = some m₂ ∧
        hi₁.tree = a.tree ∧ hi₂.tree = a.tree ∧
        m₁.candles.map Candle.core = m₂.candles.map Candle.core ∧
        ∀ k, k ∈ a.tree.allNames → storedUnder k m₁.candles = storedUnder k m₂.candles) := by
  obtain ⟨cs₁, hc₁, col₁, hi₁, dm₁, a1, a2, a3, a4, _, a6⟩ :=
    late_member_column_tf M M' secs Ok L tf₁ init ms₁ a ops₁ H₁ T key hatf hsecs hkey htf₁ hms₁ hok₁ hops₁
      (fun op h => hshOps op (List.mem_append_left _ h)) (fun m h => hshMs m (List.mem_append_left _ h)) hs hr₁ hreg₁
  obtain ⟨cs₂, hc₂, col₂, hi₂, dm₂, b1, b2, b3, b4, _, b6⟩ :=
    late_member_column_tf M M' secs Ok L tf₂ init ms₂ a ops₂ H₂ T key hatf hsecs hkey htf₂ hms₂ hok₂ hops₂
      (fun op h => hshOps op (List.mem_append_right _ h)) (fun m h => hshMs m (List.mem_append_right _ h))
      (hsame ▸ hs) hr₂ hreg₂
  have : cs₁ = cs₂ := by
    rw [hsame, hc₂] at hc₁; cases hc₁; rfl
  subst this
  refine ⟨fun name hp r₁ r₂ => (col₁ name hp r₁).trans (col₂ name hp r₂).symm,
    hi₁, dm₁, hi₂, dm₂, a1, a3 ▸ a4, b1, b3 ▸ b4, a2, b2, ?_, fun k hk => ?_⟩
  · exact (a6.agreeOff.core_eq).trans (b6.agreeOff.core_eq).symm
  · exact (a6.agreeOff.storedUnder_eq (hok₁.names k hk)).symm.trans (b6.agreeOff.storedUnder_eq (hok₂.names k hk))

/-! ### what differs from `C13.presence_FULL`

`presence_late_tf` proves the conclusion of `presence_FULL` for a member WITH its own timeframe – and more: the two
managers of `a`'s timeframe store the same readings on the same collapsed candles, and the column is THE row-major run
over `M'.spec` of the fed stream (`late_member_column_tf`) – under these changes of the hypotheses:
 * NEEDED (`presence_full_false`, HexProofs/Writes/PresenceLateTfEx.lean): the stream is well formed for both manager
   specs (`Ok`; for the instances `RawTfHA`: stamped, sorted, no readings, never converted).  `presence_FULL` puts no
   condition on the candles; a collapsing manager loses an unstamped first candle on every `_tasks`.
 * the Hexital's own timeframe NAME is not `a`'s (`htf₁`, `htf₂`): `presence_FULL` forces `cfg.tf = none` for such a
   member but leaves the name free; the library derives both from one string, so there `tf = none`.  (With the same
   name `_validate_indicators` does not hand the candles over raw.)
 * `a`'s timeframe name is not the literal manager key "default" (`hkey`; the library upper-cases timeframe names).
 * `a`'s tree has a row-major spec (`TreeSpec`; every shipped class: `presence_late_tf_covered`), and the pair of
   manager specs is linked (`LateLink`; proved for `{}`, `{fill}`, `{ha}`, `{fill, ha}` × member timeframe `t > 0`).
 * WEAKER than `presence_FULL` asks: as for `presence_late`.
Still excluded, as in `presence_FULL` itself: a lifespan, and a Hexital-level timeframe next to a member timeframe. -/

end Hex

#print axioms Hex.late_member_column_tf
#print axioms Hex.presence_late_tf

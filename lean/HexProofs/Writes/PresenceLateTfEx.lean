import HexProofs.Writes.PresenceLateTfInst
/-
C13 – `presence_FULL` (HexProps/C13.lean) is FALSE as stated, and the non-vacuity examples of `presence_late_tf`.

`presence_FULL` puts no condition on the candles.  A collapsing manager POPS the first candle of its list and loses it
when that candle carries no timestamp (`collapse_candles`: `candles_ = [self.candles.pop(0)]`, then
`if init_candle.timestamp is None: return`) – on construction and on EVERY append.  A member manager that exists from
the start and is fed chunk by chunk therefore loses one candle per chunk, one that is created late over the whole
stream loses one: the readings of a member with its own timeframe depend on WHEN it was added – not on the other
members (there are none in the witness).  Replayed on the library (see the report): `[None, 14.0]` against
`[None, 12.5, 14.0]`.  With stamped, sorted, pristine candles (`RawTfHA`) the statement holds: `presence_late_tf_covered`.
-/
namespace Hex

/-- verbatim copy of `Hex.C13.presence_FULL` (HexProps/C13.lean imports the Writes library, not conversely) -/
def PresenceFULLStatement : Prop :=
  ∀ {F : Type} [PyF F] (cfg : MgrCfg) (tf₁ tf₂ : Option String) (init : List (Candle F)) (ms₁ ms₂ : List (Member F))
    (a : Member F) (N₁ N₂ : List String) (ops₁ ops₂ : List (TwinOp F)) (H₁ H₂ : Hexital F),
    cfg.lifespan = none → (a.tfName ≠ none → cfg.tf = none) →
    (∀ m, m ∈ Hexital.dedupe ms₁ → m = a ∨ (m.tree.name ≠ a.tree.name ∧ ∀ k, k ∈ m.tree.allNames → k ∈ N₁)) →
    (∀ m, m ∈ Hexital.dedupe ms₂ → m = a ∨ (m.tree.name ≠ a.tree.name ∧ ∀ k, k ∈ m.tree.allNames → k ∈ N₂)) →
    TreeOK N₁ a.tree → TreeOK N₂ a.tree →
    (∀ op, op ∈ ops₁ → op.LateOK N₁ a) → (∀ op, op ∈ ops₂ → op.LateOK N₂ a) →
    -- members sharing `a`'s timeframe name carry the same number of seconds
    (∀ op, op ∈ ops₁ ++ ops₂ → match op with
      | .add ms => ∀ m, m ∈ ms → m.tfName = a.tfName → m.tfSecs = a.tfSecs
      | _ => True) →
    (∀ m, m ∈ ms₁ ++ ms₂ → m.tfName = a.tfName → m.tfSecs = a.tfSecs) →
    (TwinOp.chunks ops₁).flatten = (TwinOp.chunks ops₂).flatten →
    runHexital cfg tf₁ init ms₁ (ops₁ ++ [.calculate none]) = .ok H₁ →
    runHexital cfg tf₂ init ms₂ (ops₂ ++ [.calculate none]) = .ok H₂ →
    (∃ hi, dlookup a.tree.name H₁.indicators = some hi) →
    (∃ hi, dlookup a.tree.name H₂.indicators = some hi) →
    ∀ name, (splitDot name).headD "" = a.tree.name → readOK N₁ name = true → readOK N₂ name = true →
      H₁.readingAsList name = H₂.readingAsList name

section Witness

/-- `SMA(period=2, timeframe="T2")` -/
def tfA : Member Int := { tree := mkTop (.sma 2 "close") "SMA_2_T2" 4, tfName := some "T2", tfSecs := some 120 }

/-- three candles WITHOUT timestamps handed to the constructor, one appended -/
def tfInitU : List (Candle Int) := [lateCandle 10, lateCandle 12, lateCandle 11]
/-- world 1: the member is handed to the constructor; world 2: it is added after the append -/
def tfOpsU₁ : List (TwinOp Int) := [.append [lateCandle 15]]
def tfOpsU₂ : List (TwinOp Int) := [.append [lateCandle 15], .add [tfA]]

theorem tf_witness_columns :
    isOk (runHexital {} none tfInitU [tfA] (tfOpsU₁ ++ [.calculate none])) = true ∧
    isOk (runHexital {} none tfInitU [] (tfOpsU₂ ++ [.calculate none])) = true ∧
    columnOf (runHexital {} none tfInitU [tfA] (tfOpsU₁ ++ [.calculate none])) "SMA_2_T2"
      = some [none, some 14] ∧
    columnOf (runHexital {} none tfInitU [] (tfOpsU₂ ++ [.calculate none])) "SMA_2_T2"
      = some [none, some 12, some 14] ∧
    (match runHexital {} none tfInitU [tfA] (tfOpsU₁ ++ [.calculate none]) with
      | .ok H => (dlookup "SMA_2_T2" H.indicators).isSome | .error _ => false) = true ∧
    (match runHexital {} none tfInitU [] (tfOpsU₂ ++ [.calculate none]) with
      | .ok H => (dlookup "SMA_2_T2" H.indicators).isSome | .error _ => false) = true := by
  decide +kernel

theorem dedupe_tfA : Hexital.dedupe [tfA] = [tfA] := by simp [Hexital.dedupe, dset]

/-- **`C13.presence_FULL` is false as stated**: it does not ask the candles to be stamped.  Witness: plain Hexital
(`cfg = {}`), NO other member in either world, the single member `SMA_2_T2` (timeframe `T2`), four candles without
timestamps; world 1 hands the member to the constructor, world 2 adds it by `add_indicator` after the append.  The
member manager of world 1 loses its first candle at construction and again on the append (two buckets left), the one of
world 2 is created over all four and loses one (three left). -/
theorem presence_full_false : ¬ PresenceFULLStatement := by
  intro hfull
  obtain ⟨ok₁, ok₂, col₁, col₂, r₁, r₂⟩ := tf_witness_columns
  obtain ⟨H₁, h₁⟩ := exists_of_isOk ok₁
  obtain ⟨H₂, h₂⟩ := exists_of_isOk ok₂
  rw [h₁] at r₁
  rw [h₂] at r₂
  have hA : ∀ m, m ∈ Hexital.dedupe [tfA] →
      m = tfA ∨ (m.tree.name ≠ tfA.tree.name ∧ ∀ k, k ∈ m.tree.allNames → k ∈ ([] : List String)) := by
    intro m hm; rw [dedupe_tfA] at hm; simp at hm; exact Or.inl hm
  have hshare : ∀ m, m ∈ [tfA] → m.tfName = tfA.tfName → m.tfSecs = tfA.tfSecs := by
    intro m hm _; simp at hm; rw [hm]
  have := hfull (F := Int) {} none none tfInitU [tfA] [] tfA [] [] tfOpsU₁ tfOpsU₂ H₁ H₂ rfl (fun _ => rfl)
    hA (by intro m hm; simp [Hexital.dedupe] at hm) (treeOK_nil _) (treeOK_nil _)
    (by
      intro op hop
      simp only [tfOpsU₁, List.mem_cons, List.mem_nil_iff, or_false] at hop
      subst hop; trivial)
    (by
      intro op hop
      simp only [tfOpsU₂, List.mem_cons, List.mem_nil_iff, or_false] at hop
      rcases hop with rfl | rfl
      · trivial
      · exact hA)
    (by
      intro op hop
      simp only [tfOpsU₁, tfOpsU₂, List.cons_append, List.nil_append, List.mem_cons, List.mem_nil_iff,
        or_false] at hop
      rcases hop with rfl | rfl | rfl
      · trivial
      · trivial
      · exact hshare)
    (by simp)
    (by rfl) h₁ h₂ (Option.isSome_iff_exists.1 r₁) (Option.isSome_iff_exists.1 r₂)
    "SMA_2_T2" (by decide +kernel) (readOK_nil _) (readOK_nil _)
  rw [columnOf_ok h₁, this, ← columnOf_ok h₂, col₂] at col₁
  revert col₁
  decide

end Witness

/-! ### non-vacuity of `presence_late_tf_covered`: stamped candles one minute apart, `SMA_2_T2` on `T2` (120 s) present
from the start in world 1, added after two appends in world 2; other members come and go – one of them (`RSI_2_T2`)
shares the timeframe and CREATES the `T2` manager before `SMA_2_T2` arrives -/

section Examples

def tfStamped (k : Nat) : Candle Int :=
  { lateCandle (10 + (k : Int) * 7 % 5) with ts := some (60 * (k : Int) + 60) }
def tfStream : List (Candle Int) := (List.range 6).map tfStamped

/-- shares `T2` with `SMA_2_T2` -/
def tfB : Member Int := { tree := mkTop (.rsi 2 "close") "RSI_2_T2" 4, tfName := some "T2", tfSecs := some 120 }
def tfN : List String := lateS.tree.allNames ++ lateK.tree.allNames ++ tfB.tree.allNames

/-- world 1: `SMA_2_T2` handed to the constructor (next to `SMA_2` on the default manager) -/
def tfW₁ : List (TwinOp Int) :=
  [.calculate none, .append [tfStamped 6, tfStamped 7], .purge (some "SMA_2"), .recalculate (some "SMA_2_T2"),
   .append [tfStamped 8, tfStamped 9]]
/-- world 2: `SMA_2_T2` added after two appends; other chunking; `KC_2` and `RSI_2_T2` come, `RSI_2_T2` goes -/
def tfW₂ : List (TwinOp Int) :=
  [.calculate none, .append [tfStamped 6], .add [lateK, tfB], .append [tfStamped 7, tfStamped 8], .add [tfA],
   .calculateIndex (some "SMA_2") 1, .append [tfStamped 9], .purge none, .remove (some "RSI_2_T2")]

theorem tfA_covered : CoveredTreeX (F := Int) "SMA_2_T2" (.sma 2 "close") :=
  .base _ (.leaf _ (.sma 2 "close" (by decide) (by decide) (by decide)))

theorem dedupe_AS : Hexital.dedupe [tfA, lateS] = [tfA, lateS] := by
  simp [Hexital.dedupe, dset, tfA, lateS, mkTop, Ind.name]
theorem dedupe_KB : Hexital.dedupe [lateK, tfB] = [lateK, tfB] := by
  simp [Hexital.dedupe, dset, tfB, lateK, mkTop, Ind.name]

theorem tf_other (m : Member Int) (h : m = lateS ∨ m = lateK ∨ m = tfB) :
    m.tree.name ≠ tfA.tree.name ∧ ∀ k, k ∈ m.tree.allNames → k ∈ tfN := by
  rcases h with rfl | rfl | rfl <;> decide +kernel

theorem tfW₁_ok : ∀ op, op ∈ tfW₁ → op.LateOK tfN tfA := by
  intro op hop
  simp only [tfW₁, List.mem_cons, List.mem_nil_iff, or_false] at hop
  rcases hop with rfl | rfl | rfl | rfl | rfl <;> trivial

theorem tfW₂_ok : ∀ op, op ∈ tfW₂ → op.LateOK tfN tfA := by
  intro op hop
  simp only [tfW₂, List.mem_cons, List.mem_nil_iff, or_false] at hop
  rcases hop with rfl | rfl | rfl | rfl | rfl | rfl | rfl | rfl | rfl
  · trivial
  · trivial
  · intro m hm; rw [dedupe_KB] at hm; simp at hm
    exact Or.inr (tf_other m (Or.inr hm))
  · trivial
  · intro m hm; rw [dedupe_tfA] at hm; simp at hm; exact Or.inl hm
  · exact ⟨by simp, by decide +kernel⟩
  · trivial
  · trivial
  · show "RSI_2_T2" ≠ tfA.tree.name; decide +kernel

theorem tfW_share : ∀ op, op ∈ tfW₁ ++ tfW₂ → op.ShareOK tfA := by
  intro op hop
  simp only [tfW₁, tfW₂, List.cons_append, List.nil_append, List.mem_cons, List.mem_nil_iff, or_false] at hop
  rcases hop with rfl | rfl | rfl | rfl | rfl | rfl | rfl | rfl | rfl | rfl | rfl | rfl | rfl | rfl
  all_goals first
    | trivial
    | (intro m hm htf; simp at hm; rcases hm with rfl | rfl
       · cases htf
       · rfl)
    | (intro m hm _; simp at hm; rw [hm])

theorem tfMs_share : ∀ m, m ∈ [tfA, lateS] ++ [lateS] → m.tfName = tfA.tfName → m.tfSecs = tfA.tfSecs := by
  intro m hm
  simp at hm
  rcases hm with rfl | rfl
  · exact fun _ => rfl
  · intro h; cases h

theorem tfRaw : RawTfHA (tfStream ++ (TwinOp.chunks tfW₁).flatten) :=
  ⟨⟨by decide +kernel, by decide +kernel, by decide +kernel, by decide +kernel⟩, by decide +kernel⟩

/-- the common body of the two examples: Hexital `{ fill := false, ha := ha }` -/
theorem tf_example (ha : Bool) (col : List (Option Int))
    (hchk :
      isOk (runHexital { fill := false, ha := ha } none tfStream [tfA, lateS] (tfW₁ ++ [.calculate none])) = true ∧
      isOk (runHexital { fill := false, ha := ha } none tfStream [lateS] (tfW₂ ++ [.calculate none])) = true ∧
      columnOf (runHexital { fill := false, ha := ha } none tfStream [tfA, lateS] (tfW₁ ++ [.calculate none]))
        "SMA_2_T2" = some col ∧
      (match runHexital { fill := false, ha := ha } none tfStream [tfA, lateS] (tfW₁ ++ [.calculate none]) with
        | .ok H => (dlookup "SMA_2_T2" H.indicators).isSome | .error _ => false) = true ∧
      (match runHexital { fill := false, ha := ha } none tfStream [lateS] (tfW₂ ++ [.calculate none]) with
        | .ok H => (dlookup "SMA_2_T2" H.indicators).isSome | .error _ => false) = true) :
    ∃ H₁ H₂, runHexital { fill := false, ha := ha } none tfStream [tfA, lateS] (tfW₁ ++ [.calculate none]) = .ok H₁ ∧
      runHexital { fill := false, ha := ha } none tfStream [lateS] (tfW₂ ++ [.calculate none]) = .ok H₂ ∧
      H₁.readingAsList "SMA_2_T2" = H₂.readingAsList "SMA_2_T2" ∧
      columnOf (.ok H₁) "SMA_2_T2" = some col := by
  obtain ⟨ok₁, ok₂, col', r₁, r₂⟩ := hchk
  obtain ⟨H₁, h₁⟩ := exists_of_isOk ok₁
  obtain ⟨H₂, h₂⟩ := exists_of_isOk ok₂
  rw [h₁] at r₁ col'
  rw [h₂] at r₂
  refine ⟨H₁, H₂, h₁, h₂, ?_, col'⟩
  refine (presence_late_tf_covered ha false 120 (by decide) none none tfStream [tfA, lateS] [lateS] tfA _ "SMA_2_T2" 4
    tfA_covered rfl "T2" rfl rfl (by decide) (by simp) (by simp) tfN tfN tfW₁ tfW₂ H₁ H₂ ?_ ?_
    (treeOK_of_b (by decide +kernel)) (treeOK_of_b (by decide +kernel)) tfW₁_ok tfW₂_ok tfW_share tfMs_share (by rfl)
    tfRaw h₁ h₂ (Option.isSome_iff_exists.1 r₁) (Option.isSome_iff_exists.1 r₂)).1 "SMA_2_T2" (by decide +kernel)
    (by decide +kernel) (by decide +kernel)
  · intro m hm; rw [dedupe_AS] at hm; simp at hm
    rcases hm with rfl | rfl
    · exact Or.inl rfl
    · exact Or.inr (tf_other _ (Or.inl rfl))
  · intro m hm; rw [dedupe_S] at hm; simp at hm; subst hm; exact Or.inr (tf_other _ (Or.inl rfl))


/-- plain Hexital: ten one-minute candles, five two-minute buckets -/
example :
    ∃ H₁ H₂, runHexital { fill := false, ha := false } none tfStream [tfA, lateS] (tfW₁ ++ [.calculate none]) = .ok H₁ ∧
      runHexital { fill := false, ha := false } none tfStream [lateS] (tfW₂ ++ [.calculate none]) = .ok H₂ ∧
      H₁.readingAsList "SMA_2_T2" = H₂.readingAsList "SMA_2_T2" ∧
      columnOf (.ok H₁) "SMA_2_T2" = some [none, some 12, some 11, some 13, some 15] :=
  tf_example false [none, some 12, some 11, some 13, some 15] (by decide +kernel)

/-- Heikin-Ashi Hexital: the default manager holds converted candles, the `T2` manager of world 2 is created from
them (handed over raw) after two appends and converts its own buckets -/
example :
    ∃ H₁ H₂, runHexital { fill := false, ha := true } none tfStream [tfA, lateS] (tfW₁ ++ [.calculate none]) = .ok H₁ ∧
      runHexital { fill := false, ha := true } none tfStream [lateS] (tfW₂ ++ [.calculate none]) = .ok H₂ ∧
      H₁.readingAsList "SMA_2_T2" = H₂.readingAsList "SMA_2_T2" ∧
      columnOf (.ok H₁) "SMA_2_T2" = some [none, some 12, some 13, some 13, some 13] :=
  tf_example true [none, some 12, some 13, some 13, some 13] (by decide +kernel)

/-! ### non-vacuity of `presence_late_ha_covered`: Heikin-Ashi Hexitals, `RSI_2` WITHOUT own timeframe (the programs
`lateT₁`, `lateT₂` of HexProofs/Writes/PresenceLate.lean: handed to the constructor / added after three appends) -/

theorem lateRawHA : RawTfHA (lateStream ++ (TwinOp.chunks lateT₁).flatten) :=
  ⟨⟨by decide +kernel, by decide +kernel, by decide +kernel, by decide +kernel⟩, by decide +kernel⟩

theorem ha_example (tfs : Option Int) (htfs : ∀ t, tfs = some t → 0 < t) (fill : Bool) (tfn : Option String)
    (col : List (Option Int))
    (hchk :
      isOk (runHexital { tf := tfs, fill := fill, ha := true } tfn lateStream [lateR, lateS]
        (lateT₁ ++ [.calculate none])) = true ∧
      isOk (runHexital { tf := tfs, fill := fill, ha := true } tfn lateStream [lateS]
        (lateT₂ ++ [.calculate none])) = true ∧
      columnOf (runHexital { tf := tfs, fill := fill, ha := true } tfn lateStream [lateR, lateS]
        (lateT₁ ++ [.calculate none])) "RSI_2" = some col ∧
      (match runHexital { tf := tfs, fill := fill, ha := true } tfn lateStream [lateR, lateS]
          (lateT₁ ++ [.calculate none]) with
        | .ok H => (dlookup "RSI_2" H.indicators).isSome | .error _ => false) = true ∧
      (match runHexital { tf := tfs, fill := fill, ha := true } tfn lateStream [lateS]
          (lateT₂ ++ [.calculate none]) with
        | .ok H => (dlookup "RSI_2" H.indicators).isSome | .error _ => false) = true) :
    ∃ H₁ H₂, runHexital { tf := tfs, fill := fill, ha := true } tfn lateStream [lateR, lateS]
        (lateT₁ ++ [.calculate none]) = .ok H₁ ∧
      runHexital { tf := tfs, fill := fill, ha := true } tfn lateStream [lateS] (lateT₂ ++ [.calculate none]) = .ok H₂ ∧
      H₁.readingAsList "RSI_2" = H₂.readingAsList "RSI_2" ∧ columnOf (.ok H₁) "RSI_2" = some col := by
  obtain ⟨ok₁, ok₂, col', r₁, r₂⟩ := hchk
  obtain ⟨H₁, h₁⟩ := exists_of_isOk ok₁
  obtain ⟨H₂, h₂⟩ := exists_of_isOk ok₂
  rw [h₁] at r₁ col'
  rw [h₂] at r₂
  refine ⟨H₁, H₂, h₁, h₂, ?_, col'⟩
  refine (presence_late_ha_covered tfs htfs fill tfn tfn lateStream [lateR, lateS] [lateS] lateR _ "RSI_2" 4
    lateR_covered rfl rfl lateN lateN lateT₁ lateT₂ H₁ H₂ ?_ ?_
    (treeOK_of_b (by decide +kernel)) (treeOK_of_b (by decide +kernel)) lateT₁_ok lateT₂_ok (by rfl)
    lateRawHA h₁ h₂ (Option.isSome_iff_exists.1 r₁) (Option.isSome_iff_exists.1 r₂)).1 "RSI_2" (by decide +kernel)
    (by decide +kernel) (by decide +kernel)
  · intro m hm; rw [dedupe_RS] at hm; simp at hm
    rcases hm with rfl | rfl
    · exact Or.inl rfl
    · exact Or.inr lateS_other
  · intro m hm; rw [dedupe_S] at hm; simp at hm; subst hm; exact Or.inr lateS_other

/-- Heikin-Ashi, base timeframe -/
example :
    ∃ H₁ H₂, runHexital { tf := none, fill := false, ha := true } none lateStream [lateR, lateS]
        (lateT₁ ++ [.calculate none]) = .ok H₁ ∧
      runHexital { tf := none, fill := false, ha := true } none lateStream [lateS] (lateT₂ ++ [.calculate none]) = .ok H₂ ∧
      H₁.readingAsList "RSI_2" = H₂.readingAsList "RSI_2" ∧
      columnOf (.ok H₁) "RSI_2"
        = some [none, none, some 100, some 50, some 100, some 0, some 100, some 100, some 0, some 100] :=
  ha_example none (by intro t h; cases h) false none _ (by decide +kernel)

/-- Heikin-Ashi with a Hexital-level two-minute timeframe and gap filling -/
example :
    ∃ H₁ H₂, runHexital { tf := some 120, fill := true, ha := true } (some "T2") lateStream [lateR, lateS]
        (lateT₁ ++ [.calculate none]) = .ok H₁ ∧
      runHexital { tf := some 120, fill := true, ha := true } (some "T2") lateStream [lateS]
        (lateT₂ ++ [.calculate none]) = .ok H₂ ∧
      H₁.readingAsList "RSI_2" = H₂.readingAsList "RSI_2" ∧
      columnOf (.ok H₁) "RSI_2" = some [none, none, some 100, some 100, some 100] :=
  ha_example (some 120) (by intro t h; cases h; decide) true (some "T2") _ (by decide +kernel)

end Examples

end Hex

#print axioms Hex.presence_full_false
#print axioms Hex.tf_example
#print axioms Hex.ha_example

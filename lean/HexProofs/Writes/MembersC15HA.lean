import HexProofs.Writes.MembersC15
import HexProofs.Manager2.TwinTreesFillHA
/-
C15, second clause (readings on the retained candles equal those of the untrimmed run) for MEMBERS OF A HEIKIN-ASHI
HEXITAL: a Hexital constructed with `candlestick = HA` and `candles_lifespan = life` against the SAME Hexital (same
members, construction candles, appended chunks) with `candlestick = HA` only.  Every member manager carries the
conversion and the lifespan (`Member.effCfg`: only the timeframe is the member's own), each member is in step with its
standalone twin in both Hexitals (`member_sched`), and the standalone statements on Heikin-Ashi managers
(`C15b_trees_ha`, `C15b_trees_tf_ha`, `C15b_trees_tf_fill_ha`) transfer through `member_pair_drop`:

  * `member_C15b_ha`          – Hexital without timeframe, member without timeframe (`RetainsFrom`, raw stamps);
  * `member_C15b_tf_ha`       – ANY Hexital-level timeframe, member's effective timeframe `tf` (`RetainsBuckets`);
  * `member_C15b_tf_fill_ha`  – the same with `timeframe_fill = True` (`RetainsFilled`).
The retention hypotheses are those of the UNCONVERTED statements.  The view compared (`SameView`) contains the
Heikin-Ashi OHLC, the conversion tag and the saved raw values of every retained candle besides everything stored under
the member's names.  Both Hexital runs are assumed to return (C09's subject); the twins' runs are derived.
-/
namespace Hex
variable {F : Type} [PyF F] {N : List String}

/-- **C15, second clause, member WITHOUT a timeframe of a Heikin-Ashi Hexital without timeframe** – all 27 classes.
`HA`: the Hexital with `{candlestick = HA, candles_lifespan = life}`; `HB`: the same with `{candlestick = HA}`. -/
theorem member_C15b_ha {members : List (Member F)} {mem : Member F} (hm : MemberHyps N members mem)
    (k : Kind F) (name : String) (round : Nat) (hc : CoveredTreeX name k)
    (htree : mem.tree = mkTop k name round) (hnone : mem.tfName = none)
    (life : Int) (init : List (Candle F)) (chunks : List (List (Candle F)))
    (hraw : RawHAPlain (init ++ chunks.flatten)) (hinit : trimCandles (some life) init = .ok init)
    (hret : RetainsFrom (treeLook k name round) life init init.length chunks)
    (HA HB : Hexital F)
    (hA : runHexSched { ha := true, lifespan := some life } none init members chunks = .ok HA)
    (hB : runHexSched { ha := true } none init members chunks = .ok HB) :
    ∃ d mA mB, HA.memberManager mem.tree.name = some mA ∧ HB.memberManager mem.tree.name = some mB ∧
      mA.cfg = { ha := true, lifespan := some life } ∧ mB.cfg = { ha := true } ∧
      SameView mem.tree.allNames mA.candles (mB.candles.drop d) ∧
      ∀ nm, (splitDot nm).headD "" = mem.tree.name → readOK N nm = true →
        ∃ col, HB.readingAsList nm = .ok col ∧ HA.readingAsList nm = .ok (col.drop d) := by
  have h := member_pair_drop hm { ha := true, lifespan := some life } { ha := true } none none init chunks HA HB hA hB
    (by
      rw [Member.effCfg_none mem _ hnone, Member.effCfg_none mem _ hnone, htree]
      exact C15b_trees_ha k name round hc life init chunks hraw hinit hret)
  rw [Member.effCfg_none mem _ hnone, Member.effCfg_none mem _ hnone] at h
  exact h

/-- **C15, second clause, members on a collapsing timeframe of a Heikin-Ashi Hexital** – all 27 classes, ANY
Hexital-level timeframe `htfx` (none included).  The member's effective timeframe is `tf`: its manager in `HA` is
`{timeframe = tf, HA, candles_lifespan = life}`, in `HB` `{timeframe = tf, HA}`.  Hypothesis of `C15b_trees_tf_ha`
(= that of `C15b_trees_tf`: retention counted in CLOSED `tf`-buckets of the unconverted stream). -/
theorem member_C15b_tf_ha {members : List (Member F)} {mem : Member F} (hm : MemberHyps N members mem)
    (k : Kind F) (name : String) (round : Nat) (hc : CoveredTreeX name k)
    (htree : mem.tree = mkTop k name round)
    (htfx : Option Int) (tfn : Option String) (tf : Int) (htf : 0 < tf) (heff : mem.effTf htfx = some tf)
    (life : Int) (init : List (Candle F)) (chunks : List (List (Candle F)))
    (hraw : RawTfHA (init ++ chunks.flatten))
    (hinit : trimCandles (some life) (resample tf init) = .ok (resample tf init))
    (hret : RetainsBuckets (treeLook k name round) tf life init 0 chunks)
    (HA HB : Hexital F)
    (hA : runHexSched { tf := htfx, ha := true, lifespan := some life } tfn init members chunks = .ok HA)
    (hB : runHexSched { tf := htfx, ha := true } tfn init members chunks = .ok HB) :
    ∃ d mA mB, HA.memberManager mem.tree.name = some mA ∧ HB.memberManager mem.tree.name = some mB ∧
      mA.cfg = { tf := some tf, ha := true, lifespan := some life } ∧ mB.cfg = { tf := some tf, ha := true } ∧
      SameView mem.tree.allNames mA.candles (mB.candles.drop d) ∧
      ∀ nm, (splitDot nm).headD "" = mem.tree.name → readOK N nm = true →
        ∃ col, HB.readingAsList nm = .ok col ∧ HA.readingAsList nm = .ok (col.drop d) := by
  have eA : mem.effCfg { tf := htfx, ha := true, lifespan := some life } = cfgTfHALife tf life := by
    rw [Member.effCfg_eq]; simp only [heff]; rfl
  have eB : mem.effCfg { tf := htfx, ha := true } = cfgTfHA tf := by
    rw [Member.effCfg_eq]; simp only [heff]; rfl
  have h := member_pair_drop hm { tf := htfx, ha := true, lifespan := some life } { tf := htfx, ha := true } tfn tfn
    init chunks HA HB hA hB
    (by
      rw [eA, eB, htree]
      exact C15b_trees_tf_ha k name round hc tf htf life init chunks hraw hinit hret)
  rw [eA, eB] at h
  exact h

/-- **… and with `timeframe_fill = True`** (retention counted in closed buckets and fill candles of `fillSpec tf`). -/
theorem member_C15b_tf_fill_ha {members : List (Member F)} {mem : Member F} (hm : MemberHyps N members mem)
    (k : Kind F) (name : String) (round : Nat) (hc : CoveredTreeX name k)
    (htree : mem.tree = mkTop k name round)
    (htfx : Option Int) (tfn : Option String) (tf : Int) (htf : 0 < tf) (heff : mem.effTf htfx = some tf)
    (life : Int) (init : List (Candle F)) (chunks : List (List (Candle F)))
    (hraw : RawTfHA (init ++ chunks.flatten))
    (hinit : trimCandles (some life) (fillSpec tf init) = .ok (fillSpec tf init))
    (hret : RetainsFilled (treeLook k name round) tf life init 0 chunks)
    (HA HB : Hexital F)
    (hA : runHexSched { tf := htfx, fill := true, ha := true, lifespan := some life } tfn init members chunks = .ok HA)
    (hB : runHexSched { tf := htfx, fill := true, ha := true } tfn init members chunks = .ok HB) :
    ∃ d mA mB, HA.memberManager mem.tree.name = some mA ∧ HB.memberManager mem.tree.name = some mB ∧
      mA.cfg = { tf := some tf, fill := true, ha := true, lifespan := some life } ∧
      mB.cfg = { tf := some tf, fill := true, ha := true } ∧
      SameView mem.tree.allNames mA.candles (mB.candles.drop d) ∧
      ∀ nm, (splitDot nm).headD "" = mem.tree.name → readOK N nm = true →
        ∃ col, HB.readingAsList nm = .ok col ∧ HA.readingAsList nm = .ok (col.drop d) := by
  have eA : mem.effCfg { tf := htfx, fill := true, ha := true, lifespan := some life } = cfgFillHALife tf life := by
    rw [Member.effCfg_eq]; simp only [heff]; rfl
  have eB : mem.effCfg { tf := htfx, fill := true, ha := true } = cfgFillHA tf := by
    rw [Member.effCfg_eq]; simp only [heff]; rfl
  have h := member_pair_drop hm { tf := htfx, fill := true, ha := true, lifespan := some life }
    { tf := htfx, fill := true, ha := true } tfn tfn init chunks HA HB hA hB
    (by
      rw [eA, eB, htree]
      exact C15b_trees_tf_fill_ha k name round hc tf htf life init chunks hraw hinit hret)
  rw [eA, eB] at h
  exact h

/-! ### non-vacuity (toy carrier `Int`): the Hexitals of `MembersC15Ex`, with `candlestick = HA` -/

namespace MembersC15HAEx
open MembersC15Ex
set_option synthInstance.maxSize 4000

/-- (a) four members on three managers, Hexital WITHOUT a timeframe, lifespan 360 s, Heikin-Ashi: `ATR_3` and `RSI_2` on
`T2` (120 s), `EMA_2_T3` on `T3`, `SMA_2` on the default manager -/
def hexA : PyM (Hexital Int) := runHexSched { ha := true, lifespan := some 360 } none tfInit members tfChunks
def hexB : PyM (Hexital Int) := runHexSched { ha := true } none tfInit members tfChunks

theorem hyps_run : readOK othersAtr "ATR_3" = true ∧ isOk hexA = true ∧ isOk hexB = true := by decide +kernel

/-- `member_C15b_tf_ha` applied: the member `ATR_3` (T2) of the HA Hexital with lifespan against the one without -/
theorem applied_tf_ha : ∃ HA HB d mA mB col, hexA = .ok HA ∧ hexB = .ok HB ∧
    HA.memberManager "ATR_3" = some mA ∧ HB.memberManager "ATR_3" = some mB ∧
    SameView ["ATR_3", "ATR_3_TR"] mA.candles (mB.candles.drop d) ∧
    HB.readingAsList "ATR_3" = .ok col ∧ HA.readingAsList "ATR_3" = .ok (col.drop d) := by
  obtain ⟨h5, h6, h7⟩ := hyps_run
  obtain ⟨HA, hA⟩ := isOk_ok h6
  obtain ⟨HB, hB⟩ := isOk_ok h7
  obtain ⟨d, mA, mB, e1, e2, _, _, e3, e4⟩ := member_C15b_tf_ha memberHyps_atr (.atr 3) "ATR_3" 4 atrDemoOK rfl
    none none 120 (by decide) rfl 360 tfInit tfChunks tfHADemo_raw tfDemo_init
    (by rw [atrDemo_look]; exact tfDemo_retains) HA HB hA hB
  obtain ⟨col, e5, e6⟩ := e4 "ATR_3" (by decide) h5
  exact ⟨HA, HB, d, mA, mB, col, hA, hB, e1, e2, e3, e5, e6⟩

/-- what the two Hexitals hold: three buckets popped from the `T2` manager (7 vs 4), the `ATR_3` column of the trimmed
Hexital is the last four entries of the untrimmed one (none `None`), every retained bucket is converted (tagged) and
carries the untrimmed twin's Heikin-Ashi values -/
example : (match hexA, hexB with
    | .ok HA, .ok HB =>
      (match HA.memberManager "ATR_3", HB.memberManager "ATR_3", HA.readingAsList "ATR_3", HB.readingAsList "ATR_3" with
       | some mA, some mB, .ok ca, .ok cb =>
         (mA.candles.length, mB.candles.length, ca.map rdv == (cb.drop 3).map rdv, ca.map Val.isNone,
          mA.candles.map viewHA == (mB.candles.drop 3).map viewHA, mA.candles.all (·.tag))
       | _, _, _, _ => (0, 0, false, [], false, false))
    | _, _ => (0, 0, false, [], false, false))
    = (4, 7, true, [false, false, false, false], true, true) := by decide +kernel

/-- (b) a member WITHOUT timeframe on the default manager of a Heikin-Ashi Hexital (lifespan 240 s) -/
def hex0A : PyM (Hexital Int) := runHexSched { ha := true, lifespan := some 240 } none ttInit members0 [tt420, [], tt480]
def hex0B : PyM (Hexital Int) := runHexSched { ha := true } none ttInit members0 [tt420, [], tt480]

theorem hyps_run0 : isOk hex0A = true ∧ isOk hex0B = true := by decide +kernel

theorem applied_ha : ∃ HA HB d mA mB col, hex0A = .ok HA ∧ hex0B = .ok HB ∧
    HA.memberManager "ATR_3" = some mA ∧ HB.memberManager "ATR_3" = some mB ∧
    SameView ["ATR_3", "ATR_3_TR"] mA.candles (mB.candles.drop d) ∧
    HB.readingAsList "ATR_3" = .ok col ∧ HA.readingAsList "ATR_3" = .ok (col.drop d) := by
  obtain ⟨h1, h2, h3, h4, h5, _, _, _⟩ := hyps_atr0
  obtain ⟨h6, h7⟩ := hyps_run0
  obtain ⟨HA, hA⟩ := isOk_ok h6
  obtain ⟨HB, hB⟩ := isOk_ok h7
  obtain ⟨d, mA, mB, e1, e2, _, _, e3, e4⟩ := member_C15b_ha
    (MemberHyps.of_b members0 atr0 others0 h1 h2 h3 h4 (by decide) (by simp [members0]))
    (.atr 3) "ATR_3" 4 atrDemoOK rfl rfl 240 ttInit [tt420, [], tt480] haDemo_raw rfl
    (by rw [atrDemo_look]; exact ttDemo_retains2) HA HB hA hB
  obtain ⟨col, e5, e6⟩ := e4 "ATR_3" (by decide) h5
  exact ⟨HA, HB, d, mA, mB, col, hA, hB, e1, e2, e3, e5, e6⟩

example : (match hex0A, hex0B with
    | .ok HA, .ok HB =>
      (match HA.memberManager "ATR_3", HB.memberManager "ATR_3", HA.readingAsList "ATR_3", HB.readingAsList "ATR_3" with
       | some mA, some mB, .ok ca, .ok cb =>
         (mA.candles.length, mB.candles.length, ca.map rdv == (cb.drop 3).map rdv, ca.map Val.isNone,
          mA.candles.map viewHA == (mB.candles.drop 3).map viewHA)
       | _, _, _, _ => (0, 0, false, [], false))
    | _, _ => (0, 0, false, [], false)) = (4, 7, true, [false, false, false, false], true) := by decide +kernel

/-- (c) with gap filling, on a Hexital WITH its own timeframe `T2` + fill + HA + lifespan 600 s -/
def hexFA : PyM (Hexital Int) :=
  runHexSched { tf := some 120, fill := true, ha := true, lifespan := some 600 } (some "T2") tfInit membersF tfChunksGap
def hexFB : PyM (Hexital Int) :=
  runHexSched { tf := some 120, fill := true, ha := true } (some "T2") tfInit membersF tfChunksGap

theorem hyps_runF : isOk hexFA = true ∧ isOk hexFB = true := by decide +kernel

theorem applied_fill_ha : ∃ HA HB d mA mB col, hexFA = .ok HA ∧ hexFB = .ok HB ∧
    HA.memberManager "ATR_3" = some mA ∧ HB.memberManager "ATR_3" = some mB ∧
    SameView ["ATR_3", "ATR_3_TR"] mA.candles (mB.candles.drop d) ∧
    HB.readingAsList "ATR_3" = .ok col ∧ HA.readingAsList "ATR_3" = .ok (col.drop d) := by
  obtain ⟨h1, h2, h3, h4, h5, _, _⟩ := hyps_fill
  obtain ⟨h6, h7⟩ := hyps_runF
  obtain ⟨HA, hA⟩ := isOk_ok h6
  obtain ⟨HB, hB⟩ := isOk_ok h7
  obtain ⟨d, mA, mB, e1, e2, _, _, e3, e4⟩ := member_C15b_tf_fill_ha
    (MemberHyps.of_b membersF atr0 othersF h1 h2 h3 h4 (by decide) (by simp [membersF]))
    (.atr 3) "ATR_3" 4 atrDemoOK rfl (some 120) (some "T2") 120 (by decide) rfl 600 tfInit tfChunksGap fillHADemo_raw
    tfGap_init (by rw [atrDemo_look]; exact tfGap_retains) HA HB hA hB
  obtain ⟨col, e5, e6⟩ := e4 "ATR_3" (by decide) h5
  exact ⟨HA, HB, d, mA, mB, col, hA, hB, e1, e2, e3, e5, e6⟩

example : (match hexFA, hexFB with
    | .ok HA, .ok HB =>
      (match HA.memberManager "ATR_3", HB.memberManager "ATR_3", HA.readingAsList "ATR_3", HB.readingAsList "ATR_3" with
       | some mA, some mB, .ok ca, .ok cb =>
         (mA.candles.length, mB.candles.length, ca.map rdv == (cb.drop 3).map rdv, ca.map Val.isNone,
          mA.candles.map viewHA == (mB.candles.drop 3).map viewHA)
       | _, _, _, _ => (0, 0, false, [], false))
    | _, _ => (0, 0, false, [], false)) = (6, 9, true, [false, false, false, false, false, false], true) := by
  decide +kernel

end MembersC15HAEx

end Hex

#print axioms Hex.member_C15b_ha
#print axioms Hex.member_C15b_tf_ha
#print axioms Hex.member_C15b_tf_fill_ha
#print axioms Hex.MembersC15HAEx.applied_tf_ha
#print axioms Hex.MembersC15HAEx.applied_ha
#print axioms Hex.MembersC15HAEx.applied_fill_ha

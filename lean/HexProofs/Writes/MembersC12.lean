import HexProofs.Writes.MembersLib
import HexProofs.Manager2.FillReadings
/-
C12 (gap filling yields a contiguous series of flat, zero-volume candles) for the MEMBER MANAGERS OF A HEXITAL.

By `member_manager_bare` (Writes/MembersLib.lean) the manager a member is attached to is – readings aside – the bare
`CandleManager` with the member's effective configuration constructed from the same candles and fed the same chunks;
with `fill_schedule_readings` (Manager2/FillReadings.lean, = `C12.schedule_readings`): for a gap-filling Hexital
(`timeframe_fill = True`, ANY Hexital-level timeframe), every member whose effective timeframe is `tf` (its own, or the
Hexital's), every program of façade operations,

    the member's manager holds `fillSpec tf (init ++ appended)` – the C03 resampling of the raw stream received with
    flat zero-volume candles inserted –

as far as OHLCV, timestamps, `clean_values` and tag go (`Candle.core`); that list is contiguous, aligned and strictly
increasing, first and last bucket are those of the resampling.  The raw candles may carry any readings.
-/
namespace Hex
variable {F : Type} [PyF F] {N : List String}

/-- **C12 for every member manager** -/
theorem member_fill {members : List (Member F)} {mem : Member F} (hm : MemberHyps N members mem)
    (htfx : Option Int) (tfn : Option String) (tf : Int) (htf : 0 < tf) (heff : mem.effTf htfx = some tf)
    (init : List (Candle F)) (ops : List (TwinOp F)) (H : Hexital F)
    (hops : ∀ op, op ∈ ops → op.OK N mem.tree.name)
    (hraw : RawR (init ++ (appendedBy ops).flatten))
    (hrun : runHexital { tf := htfx, fill := true } tfn init members ops = .ok H) :
    ∃ m, H.memberManager mem.tree.name = some m ∧ m.cfg = { tf := some tf, fill := true } ∧
      m.candles.map Candle.core = (fillSpec tf (init ++ (appendedBy ops).flatten)).map Candle.core ∧
      fillMissing tf (resample tf (init ++ (appendedBy ops).flatten))
        = .ok (fillSpec tf (init ++ (appendedBy ops).flatten)) ∧
      Contiguous tf (fillSpec tf (init ++ (appendedBy ops).flatten)) ∧
      Bucketed tf (fillSpec tf (init ++ (appendedBy ops).flatten)) ∧
      FilledFrom (resample tf (init ++ (appendedBy ops).flatten)) (fillSpec tf (init ++ (appendedBy ops).flatten)) := by
  obtain ⟨h1, _, h3, h4, h5, h6, _, _⟩ := fill_schedule_readings tf htf init (appendedBy ops) hraw
  obtain ⟨m, e1, e2, e3⟩ := member_manager_of_bare hm _ tfn init ops H hops hrun (cfgFill tf)
    (by rw [Member.effCfg_eq]; simp only [heff]; rfl) _ h1
  exact ⟨m, e1, e2, e3, h3, h4, h5, h6⟩

/-- the stamps of the member's manager are those of the filled list: contiguous, one timeframe apart -/
theorem member_fill_stamps {members : List (Member F)} {mem : Member F} (hm : MemberHyps N members mem)
    (htfx : Option Int) (tfn : Option String) (tf : Int) (htf : 0 < tf) (heff : mem.effTf htfx = some tf)
    (init : List (Candle F)) (ops : List (TwinOp F)) (H : Hexital F)
    (hops : ∀ op, op ∈ ops → op.OK N mem.tree.name)
    (hraw : RawR (init ++ (appendedBy ops).flatten))
    (hrun : runHexital { tf := htfx, fill := true } tfn init members ops = .ok H) :
    ∃ m, H.memberManager mem.tree.name = some m ∧
      m.candles.map (·.ts) = (fillSpec tf (init ++ (appendedBy ops).flatten)).map (·.ts) ∧
      m.candles.map (·.v) = (fillSpec tf (init ++ (appendedBy ops).flatten)).map (·.v) := by
  obtain ⟨m, e1, _, e3, _⟩ := member_fill hm htfx tfn tf htf heff init ops H hops hraw hrun
  refine ⟨m, e1, ?_, ?_⟩
  · have := congrArg (List.map fun p => p.2.2.2.2.2.1) e3
    simpa [Candle.core, List.map_map, Function.comp_def] using this
  · have := congrArg (List.map fun p => p.2.2.2.2.1) e3
    simpa [Candle.core, List.map_map, Function.comp_def] using this

/-! ### non-vacuity (toy carrier `Int`): the Hexital of `TwinTfEx` with timeframe `T1` + fill; a gap in the stream -/

namespace MembersC12Ex
open TwinTfEx

def cfgF : MgrCfg := { tf := some 60, fill := true }
def opsF : List (TwinOp Int) := ops ++ [.append [candle 17, candle 18], .purge none, .append [candle 19]]
def rawF : List (Candle Int) := stream ++ (appendedBy opsF).flatten
def others2 : List String := bT.tree.allNames ++ aT.tree.allNames ++ cT.tree.allNames

theorem hypsF :
    (members.map (·.tree.name)).Nodup ∧
    ((C13.othersNames aT.tree.name members).all others.contains = true ∧ treeOKb others aT.tree = true ∧
      members.all (fun m => m.tfName != aT.tfName || m.tfSecs == aT.tfSecs) = true ∧
      opsF.all (TwinOp.okb others "SMA_2_T2") = true) ∧
    ((C13.othersNames a.tree.name members).all others2.contains = true ∧ treeOKb others2 a.tree = true ∧
      members.all (fun m => m.tfName != a.tfName || m.tfSecs == a.tfSecs) = true ∧
      opsF.all (TwinOp.okb others2 "SMA_2") = true) ∧
    isOk (runHexital cfgF (some "T1") stream members opsF) = true := by decide +kernel

theorem rawF_ok : RawR rawF := ⟨by decide, by decide, by decide⟩

/-- the `T2` manager (member `SMA_2_T2`) and the default `T1` manager (member `SMA_2`, no timeframe of its own) -/
theorem appliedF : ∃ H m3 m0, runHexital cfgF (some "T1") stream members opsF = .ok H ∧
    H.memberManager "SMA_2_T2" = some m3 ∧ H.memberManager "SMA_2" = some m0 ∧
    m3.candles.map Candle.core = (fillSpec 120 rawF).map Candle.core ∧
    m0.candles.map Candle.core = (fillSpec 60 rawF).map Candle.core := by
  obtain ⟨hnd, ⟨a1, a2, a3, a4⟩, ⟨c1, c2, c3, c4⟩, hok⟩ := hypsF
  obtain ⟨H, hH⟩ := isOk_ok hok
  obtain ⟨m3, e3, _, f3, _⟩ := member_fill
    (MemberHyps.of_b members aT others hnd a1 a2 a3 (by decide) (by simp [members]))
    (some 60) (some "T1") 120 (by decide) rfl stream opsF H (TwinOp.ok_of_okb opsF a4) rawF_ok hH
  obtain ⟨m0, e0, _, f0, _⟩ := member_fill
    (MemberHyps.of_b members a others2 hnd c1 c2 c3 (by decide) (by simp [members]))
    (some 60) (some "T1") 60 (by decide) rfl stream opsF H (TwinOp.ok_of_okb opsF c4) rawF_ok hH
  exact ⟨H, m3, m0, hH, e3, e0, f3, f0⟩

/-- 17 raw candles with a gap (no candle between 780 and 1020): three fill candles on 60 s, one on 120 s -/
example : (rawF.length, (resample 60 rawF).length, (fillSpec 60 rawF).length, (resample 120 rawF).length,
    (fillSpec 120 rawF).length) = (17, 17, 20, 10, 11) := by decide +kernel

end MembersC12Ex

end Hex

#print axioms Hex.member_fill
#print axioms Hex.member_fill_stamps
#print axioms Hex.MembersC12Ex.appliedF

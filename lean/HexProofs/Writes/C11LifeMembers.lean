import HexProofs.Writes.C11Default
import HexProofs.Manager2.C11Life
/-
C11 + lifespan INSIDE A HEXITAL (`candlestick_type = "HA"`, `candles_lifespan = life`): transfer of
HexProofs/Manager2/C11Life.lean to the member managers (`member_manager_of_bare`, readings aside) and to a default manager
nobody lives on (`default_manager_of_bare`, exactly).
-/
namespace Hex
set_option linter.unusedSectionVars false
variable {F : Type} [PyF F] {N : List String}

/-- **member without effective timeframe of a Heikin-Ashi Hexital with a lifespan**: any program, every lifespan `≥ 0`, no
retention hypothesis – the member's manager holds the Heikin-Ashi fold over the whole raw stream minus the popped candles -/
theorem member_ha_life {members : List (Member F)} {mem : Member F} (hm : MemberHyps N members mem)
    (htfx : Option Int) (tfn : Option String) (heff : mem.effTf htfx = none) (life : Int) (hlife : 0 ≤ life)
    (init : List (Candle F)) (ops : List (TwinOp F)) (H : Hexital F)
    (hops : ∀ op, op ∈ ops → op.OK N mem.tree.name)
    (hraw : RawHAPlain (init ++ (appendedBy ops).flatten))
    (hrun : runHexital { tf := htfx, ha := true, lifespan := some life } tfn init members ops = .ok H) :
    ∃ m, H.memberManager mem.tree.name = some m ∧ m.cfg = { ha := true, lifespan := some life } ∧
      m.candles.map Candle.core = ((haSpec (init ++ (appendedBy ops).flatten)).drop
        (poppedAfter haSpec life init (poppedBy life (haSpec init)) (appendedBy ops))).map Candle.core :=
  member_manager_of_bare hm _ tfn init ops H hops hrun (cfgHALife life)
    (by rw [Member.effCfg_eq]; simp only [heff]; rfl) _ (ha_life_schedule life hlife init _ hraw)

/-- **member on a collapsing timeframe** (its own or the Hexital's) under `KeepsPredecessor` -/
theorem member_tf_ha_life {members : List (Member F)} {mem : Member F} (hm : MemberHyps N members mem)
    (htfx : Option Int) (tfn : Option String) (tf : Int) (htf : 0 < tf) (heff : mem.effTf htfx = some tf)
    (life : Int) (hlife : 0 ≤ life) (init : List (Candle F)) (ops : List (TwinOp F)) (H : Hexital F)
    (hops : ∀ op, op ∈ ops → op.OK N mem.tree.name)
    (hraw : RawTfHA (init ++ (appendedBy ops).flatten))
    (hk : KeepsPredecessor (fun s => haSpec (resample tf s)) (closedBuckets tf) life init
            (poppedBy life (haSpec (resample tf init))) (appendedBy ops))
    (hrun : runHexital { tf := htfx, ha := true, lifespan := some life } tfn init members ops = .ok H) :
    ∃ m, H.memberManager mem.tree.name = some m ∧ m.cfg = { tf := some tf, ha := true, lifespan := some life } ∧
      m.candles.map Candle.core = ((haSpec (resample tf (init ++ (appendedBy ops).flatten))).drop
        (poppedAfter (fun s => haSpec (resample tf s)) life init (poppedBy life (haSpec (resample tf init)))
          (appendedBy ops))).map Candle.core :=
  member_manager_of_bare hm _ tfn init ops H hops hrun (cfgTfHALife tf life)
    (by rw [Member.effCfg_eq]; simp only [heff]; rfl) _ (tf_ha_life_schedule tf htf life hlife init _ hraw hk)

/-- **default manager nobody lives on, Heikin-Ashi Hexital with a lifespan, no timeframe** -/
theorem default_ha_life (life : Int) (hlife : 0 ≤ life) (tfn : Option String) (init : List (Candle F))
    (members : List (Member F)) (ops : List (TwinOp F)) (H : Hexital F) (hmem : ∀ m, m ∈ members → m.OwnTf)
    (hops : ∀ op, op ∈ ops → op.OwnTf) (hraw : RawHAPlain (init ++ (appendedBy ops).flatten))
    (hrun : runHexital { ha := true, lifespan := some life } tfn init members ops = .ok H) :
    H.manager defaultKey
      = .ok { cfg := { ha := true, lifespan := some life },
              candles := (haSpec (init ++ (appendedBy ops).flatten)).drop
                (poppedAfter haSpec life init (poppedBy life (haSpec init)) (appendedBy ops)) } :=
  default_manager_of_bare _ tfn init members ops H hmem hops hrun _ (ha_life_schedule life hlife init _ hraw)

/-- **… Hexital-level collapsing timeframe**, under `KeepsPredecessor` -/
theorem default_tf_ha_life (tf : Int) (htf : 0 < tf) (life : Int) (hlife : 0 ≤ life) (tfn : Option String)
    (init : List (Candle F)) (members : List (Member F)) (ops : List (TwinOp F)) (H : Hexital F)
    (hmem : ∀ m, m ∈ members → m.OwnTf) (hops : ∀ op, op ∈ ops → op.OwnTf)
    (hraw : RawTfHA (init ++ (appendedBy ops).flatten))
    (hk : KeepsPredecessor (fun s => haSpec (resample tf s)) (closedBuckets tf) life init
            (poppedBy life (haSpec (resample tf init))) (appendedBy ops))
    (hrun : runHexital { tf := some tf, ha := true, lifespan := some life } tfn init members ops = .ok H) :
    H.manager defaultKey
      = .ok { cfg := { tf := some tf, ha := true, lifespan := some life },
              candles := (haSpec (resample tf (init ++ (appendedBy ops).flatten))).drop
                (poppedAfter (fun s => haSpec (resample tf s)) life init (poppedBy life (haSpec (resample tf init)))
                  (appendedBy ops)) } :=
  default_manager_of_bare _ tfn init members ops H hmem hops hrun _
    (tf_ha_life_schedule tf htf life hlife init _ hraw hk)

end Hex

#print axioms Hex.member_ha_life
#print axioms Hex.member_tf_ha_life
#print axioms Hex.default_ha_life
#print axioms Hex.default_tf_ha_life

import HexProofs.Writes.Objects
/-
Key locality, part 6: lifted to a `Hexital` – an operation aimed at some members changes the
candles of every manager only under the names of those members' trees, and leaves the
registrations (trees, manager keys, order) as they were.
-/
namespace Hex
variable {F : Type}

/-! ### association-list facts -/

theorem Writes.dlookup_none_iff {α : Type} (k : String) (l : List (String × α)) :
    dlookup k l = none ↔ k ∉ l.map (·.1) := by
  induction l with
  | nil => simp
  | cons p r ih =>
    obtain ⟨k', v⟩ := p
    unfold dlookup
    by_cases h : k' = k
    · simp [h]
    · have : ¬ k = k' := fun e => h e.symm
      simp [h, ih, this]

theorem Writes.keys_dset_of_lookup {α : Type} {k : String} {v : α} (v' : α) {l : List (String × α)}
    (h : dlookup k l = some v) : (dset k v' l).map (·.1) = l.map (·.1) := by
  induction l with
  | nil => simp at h
  | cons p r ih =>
    obtain ⟨k', w⟩ := p
    unfold dlookup at h
    unfold dset
    by_cases hk : k' = k
    · simp [hk]
    · simp only [hk, if_false] at h ⊢
      simp [ih h]

/-- replacing the value of a registered key by one with the same image under `g` -/
theorem Writes.map_dset_of_lookup {α β : Type} (g : String × α → β) {k : String} {v : α} (v' : α)
    {l : List (String × α)} (h : dlookup k l = some v) (hg : g (k, v') = g (k, v)) :
    (dset k v' l).map g = l.map g := by
  induction l with
  | nil => simp at h
  | cons p r ih =>
    obtain ⟨k', w⟩ := p
    unfold dlookup at h
    unfold dset
    by_cases hk : k' = k
    · simp only [hk, if_true] at h ⊢
      cases h; subst hk; simp [hg]
    · simp only [hk, if_false] at h ⊢
      simp [ih h]

/-- lookups in two association lists with the same image under a key-preserving map -/
theorem Writes.dlookup_of_map_eq {α β : Type} (g : α → β) :
    ∀ (l l' : List (String × α)), l'.map (fun p => (p.1, g p.2)) = l.map (fun p => (p.1, g p.2)) →
      ∀ k, (dlookup k l').map g = (dlookup k l).map g := by
  intro l
  induction l with
  | nil => intro l' h k; cases l' <;> simp_all
  | cons p r ih =>
    intro l' h k
    cases l' with
    | nil => simp at h
    | cons p' r' =>
      obtain ⟨k1, v1⟩ := p
      obtain ⟨k2, v2⟩ := p'
      simp only [List.map_cons, List.cons.injEq, Prod.mk.injEq] at h
      obtain ⟨⟨hk, hv⟩, hr⟩ := h
      subst hk
      unfold dlookup
      by_cases hh : k2 = k
      · simp [hh, hv]
      · simp only [hh, if_false]; exact ih r' hr k

/-! ### managers -/

/-- same keys in the same order; per key the same configuration and candles that agree off `N` -/
def MgrsAgreeOff (N : List String) (ms ms' : List (String × Manager F)) : Prop :=
  ms'.map (·.1) = ms.map (·.1) ∧
  ∀ key m, dlookup key ms = some m →
    ∃ m', dlookup key ms' = some m' ∧ m'.cfg = m.cfg ∧ AgreeOff N m.candles m'.candles

namespace MgrsAgreeOff
variable {N N' : List String} {ms ms' ms'' : List (String × Manager F)}

theorem refl (N : List String) (ms : List (String × Manager F)) : MgrsAgreeOff N ms ms :=
  ⟨rfl, fun _ m h => ⟨m, h, rfl, AgreeOff.refl _ _⟩⟩

theorem trans (h1 : MgrsAgreeOff N ms ms') (h2 : MgrsAgreeOff N ms' ms'') : MgrsAgreeOff N ms ms'' := by
  refine ⟨h2.1.trans h1.1, fun key m hm => ?_⟩
  obtain ⟨m', hm', hc', ha'⟩ := h1.2 key m hm
  obtain ⟨m'', hm'', hc'', ha''⟩ := h2.2 key m' hm'
  exact ⟨m'', hm'', hc''.trans hc', ha'.trans ha''⟩

theorem mono (hsub : ∀ k, k ∈ N → k ∈ N') (h : MgrsAgreeOff N ms ms') : MgrsAgreeOff N' ms ms' :=
  ⟨h.1, fun key m hm => by
    obtain ⟨m', hm', hc', ha'⟩ := h.2 key m hm
    exact ⟨m', hm', hc', ha'.mono hsub⟩⟩

theorem lookup_none (h : MgrsAgreeOff N ms ms') (key : String) (hn : dlookup key ms = none) :
    dlookup key ms' = none := by
  rw [Writes.dlookup_none_iff] at hn ⊢; rw [h.1]; exact hn

/-- overwriting one registered manager by one with the same configuration and agreeing candles -/
theorem dset {key : String} {m m' : Manager F} (hm : dlookup key ms = some m) (hc : m'.cfg = m.cfg)
    (ha : AgreeOff N m.candles m'.candles) : MgrsAgreeOff N ms (Hex.dset key m' ms) := by
  refine ⟨Writes.keys_dset_of_lookup m' hm, fun k2 m2 h2 => ?_⟩
  rw [dlookup_dset]
  by_cases hk : key = k2
  · subst hk; rw [hm] at h2; cases h2
    exact ⟨m', by simp, hc, ha⟩
  · exact ⟨m2, by simp [hk, h2], rfl, AgreeOff.refl _ _⟩

end MgrsAgreeOff

/-! ### the Hexital -/

/-- what identifies a registration: name, tree and the manager it is attached to -/
def regInfo (p : String × HxInd F) : String × (Ind F × String) := (p.1, (p.2.tree, p.2.mgrKey))

/-- same configuration, same registrations, managers that agree off `N` -/
structure HxAgreeOff (N : List String) (h h' : Hexital F) : Prop where
  cfg : h'.cfg = h.cfg
  tf : h'.tfName = h.tfName
  mgrs : MgrsAgreeOff N h.managers h'.managers
  inds : h'.indicators.map regInfo = h.indicators.map regInfo

namespace HxAgreeOff
variable {N N' : List String} {h h' h'' : Hexital F}

theorem refl (N : List String) (h : Hexital F) : HxAgreeOff N h h :=
  ⟨rfl, rfl, MgrsAgreeOff.refl _ _, rfl⟩

theorem trans (h1 : HxAgreeOff N h h') (h2 : HxAgreeOff N h' h'') : HxAgreeOff N h h'' :=
  ⟨h2.cfg.trans h1.cfg, h2.tf.trans h1.tf, h1.mgrs.trans h2.mgrs, h2.inds.trans h1.inds⟩

theorem mono (hsub : ∀ k, k ∈ N → k ∈ N') (hh : HxAgreeOff N h h') : HxAgreeOff N' h h' :=
  ⟨hh.cfg, hh.tf, hh.mgrs.mono hsub, hh.inds⟩

theorem keys (hh : HxAgreeOff N h h') : h'.indicators.map (·.1) = h.indicators.map (·.1) := by
  have := congrArg (List.map (·.1)) hh.inds
  simpa [List.map_map, Function.comp_def, regInfo] using this

/-- a registration found before is found after, with the same tree and manager key -/
theorem lookup (hh : HxAgreeOff N h h') (n : String) (hi : HxInd F)
    (hl : dlookup n h.indicators = some hi) :
    ∃ hi', dlookup n h'.indicators = some hi' ∧ hi'.tree = hi.tree ∧ hi'.mgrKey = hi.mgrKey := by
  have := Writes.dlookup_of_map_eq (fun x : HxInd F => (x.tree, x.mgrKey)) h.indicators h'.indicators hh.inds n
  rw [hl] at this
  cases hq : dlookup n h'.indicators with
  | none => rw [hq] at this; simp at this
  | some hi' =>
    rw [hq] at this
    simp only [Option.map_some, Option.some.injEq, Prod.mk.injEq] at this
    exact ⟨hi', rfl, this.1, this.2⟩

theorem lookup_none (hh : HxAgreeOff N h h') (n : String) (hl : dlookup n h.indicators = none) :
    dlookup n h'.indicators = none := by
  rw [Writes.dlookup_none_iff] at hl ⊢; rw [hh.keys]; exact hl

end HxAgreeOff

variable [PyF F]

/-- a step function on the standalone object that stays within `N` for trees equal to `tree` -/
def StepLocal (N : List String) (tree : Ind F) (f : IndState F → PyM (IndState F)) : Prop :=
  ∀ s s', s.tree = tree → f s = .ok s' → s'.mgr.cfg = s.mgr.cfg ∧ AgreeOff N s.mgr.candles s'.mgr.candles

omit [PyF F] in
theorem stepLocal_of_local {tree : Ind F} {f : IndState F → PyM (IndState F)}
    (hf : ∀ s s', f s = .ok s' → IndState.Local s s') : StepLocal tree.allNames tree f :=
  fun s s' ht hs => ⟨(hf s s' hs).cfg, ht ▸ (hf s s' hs).agree⟩

omit [PyF F] in
theorem StepLocal.mono {N N' : List String} {tree : Ind F} {f : IndState F → PyM (IndState F)}
    (hsub : ∀ k, k ∈ N → k ∈ N') (h : StepLocal N tree f) : StepLocal N' tree f :=
  fun s s' ht hs => ⟨(h s s' ht hs).1, (h s s' ht hs).2.mono hsub⟩

omit [PyF F] in
/-- `withInd`: running a local step on one member -/
theorem Hexital.withInd_agree {N : List String} (h h' : Hexital F) (name : String)
    (f : IndState F → PyM (IndState F)) (hi : HxInd F) (hl : dlookup name h.indicators = some hi)
    (hf : StepLocal N hi.tree f) (hw : h.withInd name f = .ok h') : HxAgreeOff N h h' := by
  unfold Hexital.withInd at hw
  rw [hl] at hw
  dsimp only at hw
  obtain ⟨m, hm, hw⟩ := Writes.bind_ok hw
  obtain ⟨s, hs, hw⟩ := Writes.bind_ok hw
  cases hw
  have hm' : dlookup hi.mgrKey h.managers = some m := by
    unfold Hexital.manager at hm
    split at hm
    · rename_i m0 hm0; cases hm; exact hm0
    · cases hm
  obtain ⟨hc, ha⟩ := hf _ s rfl hs
  refine ⟨rfl, rfl, ?_, ?_⟩
  · exact MgrsAgreeOff.dset hm' hc ha
  · exact Writes.map_dset_of_lookup regInfo _ hl rfl

omit [PyF F] in
/-- `forEach`: running local steps on the selected members -/
theorem Hexital.forEach_agree {N : List String} (h h' : Hexital F) (sel : String → Bool)
    (f : IndState F → PyM (IndState F))
    (hf : ∀ n hi, sel n = true → dlookup n h.indicators = some hi → StepLocal N hi.tree f)
    (hw : h.forEach sel f = .ok h') : HxAgreeOff N h h' := by
  unfold Hexital.forEach at hw
  have key : ∀ (l : List String) (h1 : Hexital F), HxAgreeOff N h h1 →
      l.foldlM (fun h n => if sel n then h.withInd n f else pure h) h1 = .ok h' → HxAgreeOff N h h' := by
    intro l
    induction l with
    | nil => intro h1 hh e; simp [List.foldlM, pure, Except.pure] at e; subst e; exact hh
    | cons n r ih =>
      intro h1 hh e
      rw [List.foldlM_cons] at e
      obtain ⟨h2, e1, e2⟩ := Writes.bind_ok e
      refine ih h2 (hh.trans ?_) e2
      by_cases hs : sel n = true
      · rw [if_pos hs] at e1
        cases hq : dlookup n h.indicators with
        | none =>
          have := hh.lookup_none n hq
          unfold Hexital.withInd at e1; rw [this] at e1; cases e1
        | some hi =>
          obtain ⟨hi1, hl1, ht1, _⟩ := hh.lookup n hi hq
          exact Hexital.withInd_agree h1 h2 n f hi1 hl1 (ht1 ▸ hf n hi hs hq) e1
      · rw [if_neg hs] at e1; cases e1; exact HxAgreeOff.refl _ _
  exact key _ h (HxAgreeOff.refl _ _) hw

/-! ### readings seen through the accessors -/

/-- a reading looked up by name on a candle does not depend on entries stored under other keys:
`name` itself and its part before the dot must be outside `N` -/
theorem readingByCandle_agree {N : List String} {a b : Candle F} (hab : CandleAgreeOff N a b)
    (name : String) (hk : name ∉ N) (hp : (splitDot name).headD "" ∉ N) :
    readingByCandle a name = readingByCandle b name := by
  unfold readingByCandle
  split
  · rename_i main nested hsp
    rw [hsp] at hp
    simp only [List.headD_cons] at hp
    rw [hab.einds main hp, hab.esubs main hp]
  · have hattr : a.attr name = b.attr name := by
      unfold Candle.attr Candle.positive Candle.negative Candle.realbody Candle.shadowUpper
        Candle.shadowLower Candle.highLow Candle.positive
      rw [hab.eo, hab.eh, hab.el, hab.ec, hab.ev]
    rw [hattr, hab.einds name hk, hab.esubs name hk]

omit [PyF F] in
theorem AgreeOff.map_eq {N : List String} {α : Type} (g : Candle F → α) {cs cs' : List (Candle F)}
    (h : AgreeOff N cs cs') (hg : ∀ a b, CandleAgreeOff N a b → g a = g b) : cs.map g = cs'.map g := by
  apply List.ext_getElem?
  intro i
  simp only [List.getElem?_map]
  by_cases hi : i < cs.length
  · have hi' : i < cs'.length := h.1 ▸ hi
    have := h.2 i _ _ (List.getElem?_eq_getElem hi) (List.getElem?_eq_getElem hi')
    rw [List.getElem?_eq_getElem hi, List.getElem?_eq_getElem hi']
    simp [hg _ _ this]
  · have hi' : ¬ i < cs'.length := h.1 ▸ hi
    rw [List.getElem?_eq_none (by omega), List.getElem?_eq_none (by omega)]

/-- `Hexital.reading_as_list(name)` is the same before and after, for every name outside `N` -/
theorem Hexital.readingAsList_agree {N : List String} {h h' : Hexital F} (hh : HxAgreeOff N h h')
    (name : String) (hk : name ∉ N) (hp : (splitDot name).headD "" ∉ N) :
    h'.readingAsList name = h.readingAsList name := by
  unfold Hexital.readingAsList
  dsimp only
  cases hq : dlookup ((splitDot name).headD "") h.indicators with
  | none => rw [hh.lookup_none _ hq]
  | some hi =>
    obtain ⟨hi', hl', _, hk'⟩ := hh.lookup _ hi hq
    rw [hl']
    dsimp only
    rw [hk']
    unfold Hexital.manager
    cases hm : dlookup hi.mgrKey h.managers with
    | none => rw [hh.mgrs.lookup_none _ hm]
    | some m =>
      obtain ⟨m', hm', _, ha⟩ := hh.mgrs.2 _ m hm
      rw [hm']
      simp only [bind, Except.bind, pure, Except.pure]
      congr 1
      exact (ha.map_eq _ (fun a b hab => readingByCandle_agree hab name hk hp)).symm

/-! ### the façade operations -/

omit [PyF F] in
theorem Writes.sel_some (b n : String) : ((some b : Option String).isNone || (some b == some n)) = true ↔ n = b := by
  simp only [Option.isNone_some, Bool.false_or, beq_iff_eq, Option.some.injEq]
  exact eq_comm

/-- the names of all registered trees -/
def Hexital.allRegNames (h : Hexital F) : List String := h.indicators.flatMap fun p => p.2.tree.allNames

omit [PyF F] in
theorem Hexital.allRegNames_of_lookup {h : Hexital F} {n : String} {hi : HxInd F}
    (hl : dlookup n h.indicators = some hi) : ∀ k, k ∈ hi.tree.allNames → k ∈ h.allRegNames :=
  fun _ hk => List.mem_flatMap.2 ⟨(n, hi), Writes.dlookup_mem hl, hk⟩

omit [PyF F] in
/-- an operation built from `forEach` with an object-level step that is `Local`, aimed at `b` -/
theorem Hexital.forEach_one_agree (h h' : Hexital F) (b : String) (tb : HxInd F)
    (hb : dlookup b h.indicators = some tb) (f : IndState F → PyM (IndState F))
    (hf : ∀ s s', f s = .ok s' → IndState.Local s s')
    (hop : h.forEach (fun n => (some b : Option String).isNone || (some b == some n)) f = .ok h') :
    HxAgreeOff tb.tree.allNames h h' := by
  refine Hexital.forEach_agree h h' _ f (fun n hi hs hl => ?_) hop
  have : n = b := (Writes.sel_some b n).1 hs
  subst this
  rw [hb] at hl; cases hl
  exact stepLocal_of_local hf

omit [PyF F] in
/-- the same, aimed at every member (`name = None`) -/
theorem Hexital.forEach_all_agree (h h' : Hexital F) (sel : String → Bool) (f : IndState F → PyM (IndState F))
    (hf : ∀ s s', f s = .ok s' → IndState.Local s s') (hop : h.forEach sel f = .ok h') :
    HxAgreeOff h.allRegNames h h' :=
  Hexital.forEach_agree h h' sel f
    (fun _ _ _ hl => (stepLocal_of_local hf).mono (Hexital.allRegNames_of_lookup hl)) hop

omit [PyF F] in
theorem Hexital.purge_agree (h h' : Hexital F) (b : String) (tb : HxInd F)
    (hb : dlookup b h.indicators = some tb) (hop : h.purge (some b) = .ok h') :
    HxAgreeOff tb.tree.allNames h h' :=
  Hexital.forEach_one_agree h h' b tb hb _
    (fun s s' e => by cases e; exact IndState.purge_local s) hop

theorem Hexital.calculate_agree (h h' : Hexital F) (b : String) (tb : HxInd F)
    (hb : dlookup b h.indicators = some tb) (hop : h.calculate (some b) = .ok h') :
    HxAgreeOff tb.tree.allNames h h' :=
  Hexital.forEach_one_agree h h' b tb hb _ IndState.calculate_local hop

theorem Hexital.calculateIndex_agree (h h' : Hexital F) (b : String) (tb : HxInd F) (index : Int)
    (hb : dlookup b h.indicators = some tb) (hop : h.calculateIndex (some b) index = .ok h') :
    HxAgreeOff tb.tree.allNames h h' :=
  Hexital.forEach_one_agree h h' b tb hb _
    (fun s s' e => IndState.calculateIndex_local s s' index none e) hop

theorem Hexital.recalculate_agree (h h' : Hexital F) (b : String) (tb : HxInd F)
    (hb : dlookup b h.indicators = some tb) (hop : h.recalculate (some b) = .ok h') :
    HxAgreeOff tb.tree.allNames h h' := by
  unfold Hexital.recalculate at hop
  obtain ⟨h1, e1, e2⟩ := Writes.bind_ok hop
  have a1 := Hexital.purge_agree h h1 b tb hb e1
  obtain ⟨tb1, hb1, ht1, _⟩ := a1.lookup b tb hb
  exact a1.trans (ht1 ▸ Hexital.calculate_agree h1 h' b tb1 hb1 e2)

omit [PyF F] in
/-- `remove_indicator(b)`: purge, then drop the registration -/
theorem Hexital.removeIndicator_eq (h h' : Hexital F) (b : String)
    (hop : h.removeIndicator (some b) = .ok h') :
    ∃ h1, h.purge (some b) = .ok h1 ∧ h' = { h1 with indicators := derase b h1.indicators } := by
  unfold Hexital.removeIndicator at hop
  obtain ⟨h1, e1, e2⟩ := Writes.bind_ok hop
  exact ⟨h1, e1, by cases e2; rfl⟩

/-- `calculate()` / `purge()` / `recalculate()` / `calculate_index()` aimed at everything -/
theorem Hexital.calculate_all_agree (h h' : Hexital F) (name : Option String)
    (hop : h.calculate name = .ok h') : HxAgreeOff h.allRegNames h h' :=
  Hexital.forEach_all_agree h h' _ _ IndState.calculate_local hop

omit [PyF F] in
theorem Hexital.purge_all_agree (h h' : Hexital F) (name : Option String)
    (hop : h.purge name = .ok h') : HxAgreeOff h.allRegNames h h' :=
  Hexital.forEach_all_agree h h' _ _ (fun s s' e => by cases e; exact IndState.purge_local s) hop

theorem Hexital.calculateIndex_all_agree (h h' : Hexital F) (name : Option String) (index : Int)
    (hop : h.calculateIndex name index = .ok h') : HxAgreeOff h.allRegNames h h' :=
  Hexital.forEach_all_agree h h' _ _ (fun s s' e => IndState.calculateIndex_local s s' index none e) hop

omit [PyF F] in
/-- whatever the name set: the OHLCV, timestamp, tag and saved clean values of every candle of
every manager are untouched -/
theorem HxAgreeOff.core_eq {N : List String} {h h' : Hexital F} (hh : HxAgreeOff N h h')
    (key : String) (m : Manager F) (hm : dlookup key h.managers = some m) :
    ∃ m', dlookup key h'.managers = some m' ∧ m'.cfg = m.cfg ∧
      m'.candles.map Candle.core = m.candles.map Candle.core := by
  obtain ⟨m', hm', hc, ha⟩ := hh.mgrs.2 key m hm
  exact ⟨m', hm', hc, ha.core_eq⟩

/-! ### readings stored under a set of names -/

/-- every reading entry stored under a name in `N` – on every candle of every manager, in both
dicts – is the same before and after -/
def StoredSame (N : List String) (ms ms' : List (String × Manager F)) : Prop :=
  ∀ key m, dlookup key ms = some m →
    ∃ m', dlookup key ms' = some m' ∧ m'.candles.length = m.candles.length ∧
      ∀ (i : Nat) (c c' : Candle F), m.candles[i]? = some c → m'.candles[i]? = some c' →
        ∀ k, k ∈ N → dlookup k c'.inds = dlookup k c.inds ∧ dlookup k c'.subs = dlookup k c.subs

omit [PyF F] in
theorem MgrsAgreeOff.storedSame {Na Nb : List String} {ms ms' : List (String × Manager F)}
    (h : MgrsAgreeOff Nb ms ms') (hd : ∀ k, k ∈ Na → k ∉ Nb) : StoredSame Na ms ms' := by
  intro key m hm
  obtain ⟨m', hm', _, ha⟩ := h.2 key m hm
  refine ⟨m', hm', ha.1.symm, fun i c c' hc hc' k hk => ?_⟩
  have := ha.2 i c c' hc hc'
  exact ⟨(this.einds k (hd k hk)).symm, (this.esubs k (hd k hk)).symm⟩

/-! ### registration keys are the tree names -/

/-- every member is registered under the name of its tree (`valid_indicators[indicator.name]`) -/
def Hexital.WellKeyed (h : Hexital F) : Prop :=
  ∀ n hi, dlookup n h.indicators = some hi → hi.tree.name = n

theorem Hexital.attachFrom_wellKeyed (src : Option (List (Candle F))) (h h' : Hexital F) (m : Member F)
    (hw : h.WellKeyed) (ha : h.attachFrom src m = .ok h') : h'.WellKeyed := by
  have key : ∀ (k : String) (ms : List (String × Manager F)),
      Hexital.WellKeyed (⟨h.cfg, h.tfName, ms, dset m.tree.name ⟨m.tree, k, 0⟩ h.indicators⟩ : Hexital F) := by
    intro k ms n hi hl
    dsimp only at hl
    rw [dlookup_dset] at hl
    by_cases hn : m.tree.name = n
    · simp only [hn, if_true] at hl; cases hl; exact hn
    · simp only [hn, if_false] at hl; exact hw n hi hl
  unfold Hexital.attachFrom at ha
  split at ha
  · cases ha; exact key _ _
  · split at ha
    · cases ha; exact key _ _
    · obtain ⟨raw, _, ha⟩ := Writes.bind_ok ha
      obtain ⟨nm, _, ha⟩ := Writes.bind_ok ha
      cases ha; exact key _ _

theorem Hexital.attach_wellKeyed (h h' : Hexital F) (m : Member F) (hw : h.WellKeyed)
    (ha : h.attach m = .ok h') : h'.WellKeyed :=
  Hexital.attachFrom_wellKeyed none h h' m hw ha

theorem Hexital.foldlM_attachFrom_wellKeyed (src : Option (List (Candle F))) (ms : List (Member F)) :
    ∀ (h h' : Hexital F), h.WellKeyed → ms.foldlM (Hexital.attachFrom src) h = .ok h' → h'.WellKeyed := by
  induction ms with
  | nil => intro h h' hw e; simp [List.foldlM, pure, Except.pure] at e; subst e; exact hw
  | cons m r ih =>
    intro h h' hw e
    rw [List.foldlM_cons] at e
    obtain ⟨h1, e1, e2⟩ := Writes.bind_ok e
    exact ih h1 h' (Hexital.attachFrom_wellKeyed src h h1 m hw e1) e2

theorem Hexital.foldlM_attach_wellKeyed (ms : List (Member F)) :
    ∀ (h h' : Hexital F), h.WellKeyed → ms.foldlM Hexital.attach h = .ok h' → h'.WellKeyed :=
  Hexital.foldlM_attachFrom_wellKeyed none ms

/-- a freshly constructed Hexital is well keyed … -/
theorem Hexital.init_wellKeyed (cfg : MgrCfg) (tfName : Option String) (cs : List (Candle F))
    (members : List (Member F)) (h : Hexital F) (e : Hexital.init cfg tfName cs members = .ok h) :
    h.WellKeyed := by
  unfold Hexital.init at e
  obtain ⟨dm, _, e⟩ := Writes.bind_ok e
  exact Hexital.foldlM_attachFrom_wellKeyed _ _ _ h (fun n hi hl => by simp at hl) e

/-- … `add_indicator` keeps it so … -/
theorem Hexital.addIndicators_wellKeyed (h h' : Hexital F) (members : List (Member F)) (hw : h.WellKeyed)
    (e : h.addIndicators members = .ok h') : h'.WellKeyed :=
  Hexital.foldlM_attach_wellKeyed _ h h' hw e

omit [PyF F] in
/-- … and so does every operation that leaves the registrations alone. -/
theorem HxAgreeOff.wellKeyed {N : List String} {h h' : Hexital F} (hh : HxAgreeOff N h h')
    (hw : h.WellKeyed) : h'.WellKeyed := by
  intro n hi' hl'
  have := Writes.dlookup_of_map_eq (fun x : HxInd F => (x.tree, x.mgrKey)) h.indicators h'.indicators hh.inds n
  rw [hl'] at this
  cases hq : dlookup n h.indicators with
  | none => rw [hq] at this; simp at this
  | some hi =>
    rw [hq] at this
    simp only [Option.map_some, Option.some.injEq, Prod.mk.injEq] at this
    rw [this.1]; exact hw n hi hq

omit [PyF F] in
/-- `forEach` aimed at one name does nothing on a list of other names -/
theorem Hexital.foldl_sel_skip (b : String) (f : IndState F → PyM (IndState F)) :
    ∀ (l : List String) (h : Hexital F), b ∉ l →
      l.foldlM (fun (h : Hexital F) n =>
        if ((some b : Option String).isNone || (some b == some n)) then h.withInd n f else pure h) h = .ok h := by
  intro l
  induction l with
  | nil => intro h _; rfl
  | cons a r ih =>
    intro h hb
    have ha : ¬ a = b := fun e => hb (by simp [e])
    have hs : ((some b : Option String).isNone || (some b == some a)) = false := by
      cases hq : ((some b : Option String).isNone || (some b == some a)) with
      | false => rfl
      | true => exact absurd ((Writes.sel_some b a).1 hq) ha
    rw [List.foldlM_cons]
    simp only [hs, Bool.false_eq_true, if_false]
    exact ih h (fun hm => hb (List.mem_cons_of_mem _ hm))

omit [PyF F] in
/-- **`Hexital.<op>(name)` on a name registered once is `withInd name`** -/
theorem Hexital.forEach_single (h : Hexital F) (b : String) (f : IndState F → PyM (IndState F))
    (hnd : (h.indicators.map (·.1)).Nodup) (hb : b ∈ h.indicators.map (·.1)) :
    h.forEach (fun n => (some b : Option String).isNone || (some b == some n)) f = h.withInd b f := by
  unfold Hexital.forEach
  dsimp only
  generalize h.indicators.map (·.1) = l at hnd hb
  induction l generalizing h with
  | nil => simp at hb
  | cons a r ih =>
    rw [List.foldlM_cons]
    have hnd' := List.nodup_cons.1 hnd
    by_cases ha : a = b
    · subst ha
      have hs : ((some a : Option String).isNone || (some a == some a)) = true := (Writes.sel_some a a).2 rfl
      simp only [hs, if_true]
      cases hw : h.withInd a f with
      | error e => rfl
      | ok h2 => exact Hexital.foldl_sel_skip a f r h2 hnd'.1
    · have hs : ((some b : Option String).isNone || (some b == some a)) = false := by
        cases hq : ((some b : Option String).isNone || (some b == some a)) with
        | false => rfl
        | true => exact absurd ((Writes.sel_some b a).1 hq) ha
      simp only [hs, Bool.false_eq_true, if_false]
      have hb' : b ∈ r := by
        rcases List.mem_cons.1 hb with e | e
        · exact absurd e.symm ha
        · exact e
      exact ih h hnd'.2 hb'

omit [PyF F] in
/-- a program of steps, each of which stays within `N` as long as `b` is registered with `tree` -/
theorem Writes.foldlM_hxAgree {α : Type} {N : List String} (step : Hexital F → α → PyM (Hexital F))
    (tree : Ind F) (b : String)
    (hstep : ∀ (h1 h2 : Hexital F) (op : α) (tb1 : HxInd F), dlookup b h1.indicators = some tb1 →
      tb1.tree = tree → step h1 op = .ok h2 → HxAgreeOff N h1 h2) :
    ∀ (ops : List α) (h h' : Hexital F) (tb : HxInd F), dlookup b h.indicators = some tb → tb.tree = tree →
      ops.foldlM step h = .ok h' → HxAgreeOff N h h' := by
  intro ops
  induction ops with
  | nil => intro h h' tb _ _ e; simp [List.foldlM, pure, Except.pure] at e; subst e; exact HxAgreeOff.refl _ _
  | cons op r ih =>
    intro h h' tb hb ht e
    rw [List.foldlM_cons] at e
    obtain ⟨h2, e1, e2⟩ := Writes.bind_ok e
    have a1 := hstep h h2 op tb hb ht e1
    obtain ⟨tb2, hb2, ht2, _⟩ := a1.lookup b tb hb
    exact a1.trans (ih h2 h' tb2 hb2 (ht2.trans ht) e2)

end Hex

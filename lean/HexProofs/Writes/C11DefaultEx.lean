import HexProofs.Writes.C11Default
import HexProofs.Lib.IntInst
/-
Non-vacuity of `default_ha_tf` / `default_ha` / `default_ha_tf_fill` (toy carrier `Int`): a Heikin-Ashi Hexital on the
timeframe `T1` (60 s) whose members `RSI_2_T2`, `SMA_2_T2` (on `T2`) and `EMA_2_T3` (on `T3`) all have their own
timeframes; the program appends, purges, recalculates, ADDS a member on `T4` and REMOVES one.
-/
namespace Hex
namespace C11DefaultEx
open TwinTfEx
set_option synthInstance.maxSize 4000

def dT : Member Int := { tree := mkTop (.sma 2 "close") "SMA_2_T4" 4, tfName := some "T4", tfSecs := some 240 }
def members3 : List (Member Int) := [bT, aT, cT]

def ops3 : List (TwinOp Int) :=
  [.calculate none, .append [candle 8, candle 9], .purge (some "RSI_2_T2"), .append [candle 10],
   .add [dT], .recalculate (some "SMA_2_T2"), .calculateIndex none 1, .remove (some "RSI_2_T2"),
   .append [candle 11, candle 12, candle 13], .calculate none]

def raw3 : List (Candle Int) := stream ++ (appendedBy ops3).flatten

theorem members3_own : ∀ m, m ∈ members3 → m.OwnTf := by
  intro m hm
  simp only [members3, List.mem_cons, List.not_mem_nil, or_false] at hm
  rcases hm with rfl | rfl | rfl
  · exact ⟨"T2", rfl, by decide⟩
  · exact ⟨"T2", rfl, by decide⟩
  · exact ⟨"T3", rfl, by decide⟩

theorem ops3_own : ∀ op, op ∈ ops3 → op.OwnTf := by
  intro op hop
  simp only [ops3, List.mem_cons, List.not_mem_nil, or_false] at hop
  rcases hop with rfl | rfl | rfl | rfl | rfl | rfl | rfl | rfl | rfl | rfl
  all_goals first
    | trivial
    | (intro m hm
       simp only [List.mem_cons, List.not_mem_nil, or_false] at hm
       subst hm
       exact ⟨"T4", rfl, by decide⟩)

theorem raw3_ok : RawHA raw3 :=
  ⟨by decide, fun c hc => ⟨(by decide : ∀ c ∈ raw3, c.tag = false) c hc, (by decide : ∀ c ∈ raw3, c.clean = none) c hc⟩,
   by decide⟩

/-- Hexital on `T1` + Heikin-Ashi -/
def cfgT1 : MgrCfg := { tf := some 60, ha := true }
theorem runs : isOk (runHexital cfgT1 (some "T1") stream members3 ops3) = true := by decide +kernel

/-- the theorem applied: the default manager holds the Heikin-Ashi fold over the 60 s buckets of the 14 raw candles -/
theorem applied : ∃ H, runHexital cfgT1 (some "T1") stream members3 ops3 = .ok H ∧
    H.manager defaultKey = .ok { cfg := cfgT1, candles := haSpec (resample 60 raw3) } := by
  obtain ⟨H, hH⟩ := isOk_ok runs
  exact ⟨H, hH, default_ha_tf 60 (by decide) (some "T1") stream members3 ops3 H members3_own ops3_own raw3_ok hH⟩

/-- Hexital without timeframe -/
theorem runs0 : isOk (runHexital ({ ha := true } : MgrCfg) none stream members3 ops3) = true := by decide +kernel
theorem applied0 : ∃ H, runHexital ({ ha := true } : MgrCfg) none stream members3 ops3 = .ok H ∧
    H.manager defaultKey = .ok { cfg := { ha := true }, candles := haSpec raw3 } := by
  obtain ⟨H, hH⟩ := isOk_ok runs0
  exact ⟨H, hH, default_ha none stream members3 ops3 H members3_own ops3_own
    (fun c hc => (raw3_ok.untouched c hc).1) hH⟩

example : (raw3.length, (haSpec (resample 60 raw3)).length, (haSpec raw3).length) = (14, 14, 14) := by decide +kernel
/-- the four managers at the end, and nobody on "default" -/
example : (runHexital cfgT1 (some "T1") stream members3 ops3).toOption.map
    (fun H => (H.managers.map (fun p => (p.1, p.2.candles.length)), H.indicators.map (fun p => (p.1, p.2.mgrKey))))
    = some ([("default", 14), ("T2", 8), ("T3", 6), ("T4", 5)],
            [("SMA_2_T2", "T2"), ("EMA_2_T3", "T3"), ("SMA_2_T4", "T4")]) := by decide +kernel

end C11DefaultEx
end Hex

#print axioms Hex.C11DefaultEx.applied
#print axioms Hex.C11DefaultEx.applied0

import HexProofs.Writes.MembersLib
import HexProofs.Manager2.TwinTrees
import HexProofs.Manager2.TwinTreesTf
/-
C15, second clause (readings on the retained candles equal those of the untrimmed run) for MEMBERS OF A HEXITAL.

The standalone statements (`C15b_trees_look`, `C15b_trees_tf`, `C15b_trees_tf_fill`, HexProofs/Manager2/TwinTrees*.lean)
compare an indicator with `candles_lifespan` with the same indicator without.  Here: a Hexital constructed with
`candles_lifespan = life` against the SAME Hexital (same members, same construction candles, same appended chunks)
without a lifespan.  Every member manager of the first carries the lifespan (`{tf := member's, lifespan := life}`,
`Hexital.attachFrom`), and by `member_sched` (Writes/MembersLib.lean, from `member_twin`) each member is in step with
its standalone twin in both Hexitals.  So, under the standalone retention hypothesis for the member's EFFECTIVE
timeframe (its own if it has one, else the Hexital's),

    the member's manager of the trimmed Hexital shows the view of the untrimmed Hexital's, minus `d` leading candles

(`SameView`: OHLCV / stamps / conversion state and everything stored under the member's names – top readings, helper
series, `_data` series), and every column read through `Hexital.reading_as_list` is the untrimmed column minus `d`.

  * `member_C15b_look`       – Hexital without timeframe, member without timeframe (`RetainsFrom`, raw candles);
  * `member_C15b_tf`         – ANY Hexital-level timeframe, member's effective timeframe `tf`
                               (`RetainsBuckets`: closed buckets of `resample tf`);
  * `member_C15b_tf_fill`    – the same with `timeframe_fill = True` (`RetainsFilled`).
The other members are arbitrary (any timeframes, any kinds): only `MemberHyps` (no name collision / input dependency
with the member, consistent timeframe names) is asked of them.  Both Hexital runs are assumed to return (that they do
is C09's subject); the twins' runs are DERIVED.  Not covered, as for standalone indicators: Heikin-Ashi Hexitals.
-/
namespace Hex
variable {F : Type} [PyF F] {N : List String}

theorem asList_some (s : IndState F) (name : String) :
    s.asList (some name) = s.mgr.candles.map fun c => readingByCandle c name := rfl

/-- **The transfer step.**  Two Hexitals with the same members, construction candles and chunks (configurations
`cfgA`, `cfgB`); if the member's standalone twins are related by `a = b.drop d` whenever both return, so are the
member's managers (view under the member's names) and every column read through the Hexitals. -/
theorem member_pair_drop {members : List (Member F)} {mem : Member F} (hm : MemberHyps N members mem)
    (cfgA cfgB : MgrCfg) (tfA tfB : Option String) (init : List (Candle F)) (chunks : List (List (Candle F)))
    (HA HB : Hexital F)
    (hA : runHexSched cfgA tfA init members chunks = .ok HA)
    (hB : runHexSched cfgB tfB init members chunks = .ok HB)
    (hdrop : ∀ a b, candlesOf (runIndicator mem.tree (mem.effCfg cfgA) init chunks) = .ok a →
      candlesOf (runIndicator mem.tree (mem.effCfg cfgB) init chunks) = .ok b → ∃ d, a = b.drop d) :
    ∃ d mA mB, HA.memberManager mem.tree.name = some mA ∧ HB.memberManager mem.tree.name = some mB ∧
      mA.cfg = mem.effCfg cfgA ∧ mB.cfg = mem.effCfg cfgB ∧
      SameView mem.tree.allNames mA.candles (mB.candles.drop d) ∧
      ∀ name, (splitDot name).headD "" = mem.tree.name → readOK N name = true →
        ∃ col, HB.readingAsList name = .ok col ∧ HA.readingAsList name = .ok (col.drop d) := by
  obtain ⟨ta, mA, hta, _, hmA, hcA, hvA, hcolA⟩ := member_sched hm cfgA tfA init chunks HA hA
  obtain ⟨tb, mB, htb, _, hmB, hcB, hvB, hcolB⟩ := member_sched hm cfgB tfB init chunks HB hB
  obtain ⟨d, hd⟩ := hdrop ta.mgr.candles tb.mgr.candles (by rw [hta]; rfl) (by rw [htb]; rfl)
  refine ⟨d, mA, mB, hmA, hmB, hcA, hcB, ?_, ?_⟩
  · have h1 : SameView mem.tree.allNames mA.candles (tb.mgr.candles.drop d) := hd ▸ hvA
    exact h1.trans (hvB.drop d).symm
  · intro name hp hr
    refine ⟨tb.asList (some name), hcolB name hp hr, ?_⟩
    rw [hcolA name hp hr, asList_some, asList_some, hd, List.map_drop]

/-! ### the three standalone theorems, transferred -/

/-- **C15, second clause, member WITHOUT a timeframe of a Hexital without timeframe** – all 27 classes.
`HA`: the Hexital with `candles_lifespan = life`; `HB`: the same Hexital without.  Under the standalone hypothesis
(`C15b_trees_look`: raw reading-free candles, nothing popped at construction, every popping append retains
`treeLook` candles from before it – a condition on the raw stream and `life` only), the member's manager in `HA`
shows what its manager in `HB` shows, minus `d` leading candles. -/
theorem member_C15b_look {members : List (Member F)} {mem : Member F} (hm : MemberHyps N members mem)
    (k : Kind F) (name : String) (round : Nat) (hc : CoveredTreeX name k)
    (htree : mem.tree = mkTop k name round) (hnone : mem.tfName = none)
    (life : Int) (init : List (Candle F)) (chunks : List (List (Candle F)))
    (hp : ∀ c ∈ init ++ chunks.flatten, Plain c) (hinit : trimCandles (some life) init = .ok init)
    (hret : RetainsFrom (treeLook k name round) life init init.length chunks)
    (HA HB : Hexital F)
    (hA : runHexSched { lifespan := some life } none init members chunks = .ok HA)
    (hB : runHexSched {} none init members chunks = .ok HB) :
    ∃ d mA mB, HA.memberManager mem.tree.name = some mA ∧ HB.memberManager mem.tree.name = some mB ∧
      mA.cfg = { lifespan := some life } ∧ mB.cfg = {} ∧
      SameView mem.tree.allNames mA.candles (mB.candles.drop d) ∧
      ∀ nm, (splitDot nm).headD "" = mem.tree.name → readOK N nm = true →
        ∃ col, HB.readingAsList nm = .ok col ∧ HA.readingAsList nm = .ok (col.drop d) := by
  have h := member_pair_drop hm { lifespan := some life } {} none none init chunks HA HB hA hB
    (by
      rw [Member.effCfg_none mem _ hnone, Member.effCfg_none mem _ hnone, htree]
      exact C15b_trees_look k name round hc life init chunks hp hinit hret)
  rw [Member.effCfg_none mem _ hnone, Member.effCfg_none mem _ hnone] at h
  exact h

/-- **C15, second clause, members on a collapsing timeframe** – all 27 classes, ANY Hexital-level timeframe `htf`
(none included).  The member's effective timeframe is `tf` (its own, or the Hexital's if it has none): its manager
in `HA` is `{timeframe = tf, candles_lifespan = life}`, in `HB` `{timeframe = tf}`.  Under the standalone hypothesis
of `C15b_trees_tf` (retention counted in CLOSED `tf`-buckets), the member's manager in `HA` shows what its manager in
`HB` shows, minus `d` leading buckets. -/
theorem member_C15b_tf {members : List (Member F)} {mem : Member F} (hm : MemberHyps N members mem)
    (k : Kind F) (name : String) (round : Nat) (hc : CoveredTreeX name k)
    (htree : mem.tree = mkTop k name round)
    (htfx : Option Int) (tfn : Option String) (tf : Int) (htf : 0 < tf) (heff : mem.effTf htfx = some tf)
    (life : Int) (init : List (Candle F)) (chunks : List (List (Candle F)))
    (hraw : RawTf (init ++ chunks.flatten))
    (hinit : trimCandles (some life) (resample tf init) = .ok (resample tf init))
    (hret : RetainsBuckets (treeLook k name round) tf life init 0 chunks)
    (HA HB : Hexital F)
    (hA : runHexSched { tf := htfx, lifespan := some life } tfn init members chunks = .ok HA)
    (hB : runHexSched { tf := htfx } tfn init members chunks = .ok HB) :
    ∃ d mA mB, HA.memberManager mem.tree.name = some mA ∧ HB.memberManager mem.tree.name = some mB ∧
      mA.cfg = { tf := some tf, lifespan := some life } ∧ mB.cfg = { tf := some tf } ∧
      SameView mem.tree.allNames mA.candles (mB.candles.drop d) ∧
      ∀ nm, (splitDot nm).headD "" = mem.tree.name → readOK N nm = true →
        ∃ col, HB.readingAsList nm = .ok col ∧ HA.readingAsList nm = .ok (col.drop d) := by
  have eA : mem.effCfg { tf := htfx, lifespan := some life } = cfgTfLife tf life := by
    rw [Member.effCfg_eq]; simp only [heff]; rfl
  have eB : mem.effCfg { tf := htfx } = cfgTf tf := by
    rw [Member.effCfg_eq]; simp only [heff]; rfl
  have h := member_pair_drop hm { tf := htfx, lifespan := some life } { tf := htfx } tfn tfn init chunks HA HB hA hB
    (by
      rw [eA, eB, htree]
      exact C15b_trees_tf k name round hc tf htf life init chunks hraw hinit hret)
  rw [eA, eB] at h
  exact h

/-- **… and with `timeframe_fill = True`** (retention counted in closed buckets and fill candles of `fillSpec tf`). -/
theorem member_C15b_tf_fill {members : List (Member F)} {mem : Member F} (hm : MemberHyps N members mem)
    (k : Kind F) (name : String) (round : Nat) (hc : CoveredTreeX name k)
    (htree : mem.tree = mkTop k name round)
    (htfx : Option Int) (tfn : Option String) (tf : Int) (htf : 0 < tf) (heff : mem.effTf htfx = some tf)
    (life : Int) (init : List (Candle F)) (chunks : List (List (Candle F)))
    (hraw : RawTf (init ++ chunks.flatten))
    (hinit : trimCandles (some life) (fillSpec tf init) = .ok (fillSpec tf init))
    (hret : RetainsFilled (treeLook k name round) tf life init 0 chunks)
    (HA HB : Hexital F)
    (hA : runHexSched { tf := htfx, fill := true, lifespan := some life } tfn init members chunks = .ok HA)
    (hB : runHexSched { tf := htfx, fill := true } tfn init members chunks = .ok HB) :
    ∃ d mA mB, HA.memberManager mem.tree.name = some mA ∧ HB.memberManager mem.tree.name = some mB ∧
      mA.cfg = { tf := some tf, fill := true, lifespan := some life } ∧ mB.cfg = { tf := some tf, fill := true } ∧
      SameView mem.tree.allNames mA.candles (mB.candles.drop d) ∧
      ∀ nm, (splitDot nm).headD "" = mem.tree.name → readOK N nm = true →
        ∃ col, HB.readingAsList nm = .ok col ∧ HA.readingAsList nm = .ok (col.drop d) := by
  have eA : mem.effCfg { tf := htfx, fill := true, lifespan := some life } = cfgFillLife tf life := by
    rw [Member.effCfg_eq]; simp only [heff]; rfl
  have eB : mem.effCfg { tf := htfx, fill := true } = cfgFill tf := by
    rw [Member.effCfg_eq]; simp only [heff]; rfl
  have h := member_pair_drop hm { tf := htfx, fill := true, lifespan := some life } { tf := htfx, fill := true }
    tfn tfn init chunks HA HB hA hB
    (by
      rw [eA, eB, htree]
      exact C15b_trees_tf_fill k name round hc tf htf life init chunks hraw hinit hret)
  rw [eA, eB] at h
  exact h

/-! ### non-vacuity (toy carrier `Int`): Hexitals with four members on three managers -/

namespace MembersC15Ex
set_option synthInstance.maxSize 2000

def atrT2 : Member Int := { tree := mkTop (.atr 3) "ATR_3" 4, tfName := some "T2", tfSecs := some 120 }
def rsiT2 : Member Int := { tree := mkTop (.rsi 2 "close") "RSI_2" 4, tfName := some "T2", tfSecs := some 120 }
def sma : Member Int := { tree := mkTop (.sma 2 "close") "SMA_2" 4, tfName := none, tfSecs := none }
def emaT3 : Member Int := { tree := mkTop (.ema 2 "close" (.int 2)) "EMA_2_T3" 4, tfName := some "T3", tfSecs := some 180 }
def members : List (Member Int) := [sma, atrT2, emaT3, rsiT2]
def othersAtr : List String := sma.tree.allNames ++ emaT3.tree.allNames ++ rsiT2.tree.allNames

/-- (a) the schedule of `TwinTreesTf.lean` (one-minute candles; 120 s buckets; lifespan 360 s; three buckets popped
over five non-empty appends) on a Hexital WITHOUT a timeframe: `ATR_3` and `RSI_2` on `T2`, `EMA_2_T3` on `T3`,
`SMA_2` on the default manager (which trims RAW candles by the same lifespan) -/
def hexA : PyM (Hexital Int) := runHexSched { lifespan := some 360 } none tfInit members tfChunks
def hexB : PyM (Hexital Int) := runHexSched {} none tfInit members tfChunks

theorem hyps_atr :
    (members.map (·.tree.name)).Nodup ∧ (C13.othersNames atrT2.tree.name members).all othersAtr.contains = true ∧
    treeOKb othersAtr atrT2.tree = true ∧
    members.all (fun m => m.tfName != atrT2.tfName || m.tfSecs == atrT2.tfSecs) = true ∧
    readOK othersAtr "ATR_3" = true ∧ isOk hexA = true ∧ isOk hexB = true := by decide +kernel

theorem memberHyps_atr : MemberHyps othersAtr members atrT2 := by
  obtain ⟨h1, h2, h3, h4, _⟩ := hyps_atr
  exact MemberHyps.of_b members atrT2 othersAtr h1 h2 h3 h4 (by decide) (by simp [members])

/-- `member_C15b_tf` applied: the member `ATR_3` (T2) of the Hexital with lifespan against the Hexital without -/
theorem applied_tf : ∃ HA HB d mA mB col, hexA = .ok HA ∧ hexB = .ok HB ∧
    HA.memberManager "ATR_3" = some mA ∧ HB.memberManager "ATR_3" = some mB ∧
    SameView ["ATR_3", "ATR_3_TR"] mA.candles (mB.candles.drop d) ∧
    HB.readingAsList "ATR_3" = .ok col ∧ HA.readingAsList "ATR_3" = .ok (col.drop d) := by
  obtain ⟨_, _, _, _, h5, h6, h7⟩ := hyps_atr
  obtain ⟨HA, hA⟩ := isOk_ok h6
  obtain ⟨HB, hB⟩ := isOk_ok h7
  obtain ⟨d, mA, mB, e1, e2, _, _, e3, e4⟩ := member_C15b_tf memberHyps_atr (.atr 3) "ATR_3" 4 atrDemoOK rfl
    none none 120 (by decide) rfl 360 tfInit tfChunks tfDemo_raw tfDemo_init
    (by rw [atrDemo_look]; exact tfDemo_retains) HA HB hA hB
  obtain ⟨col, e5, e6⟩ := e4 "ATR_3" (by decide) h5
  exact ⟨HA, HB, d, mA, mB, col, hA, hB, e1, e2, e3, e5, e6⟩

/-- what the two Hexitals hold: `d = 3` buckets are popped from the `T2` manager (7 vs 4 buckets, the `ATR_3` column
of the trimmed Hexital is the last four entries of the untrimmed one, none of them `None`); meanwhile the default
manager went from 14 raw candles to 7 and the `T3` manager from 5 buckets to 3 -/
example : (match hexA, hexB with
    | .ok HA, .ok HB =>
      (match HA.memberManager "ATR_3", HB.memberManager "ATR_3", HA.readingAsList "ATR_3", HB.readingAsList "ATR_3",
          HA.memberManager "SMA_2", HB.memberManager "SMA_2", HA.memberManager "EMA_2_T3", HB.memberManager "EMA_2_T3" with
       | some mA, some mB, .ok ca, .ok cb, some dA, some dB, some eA, some eB =>
         (mA.candles.length, mB.candles.length, ca.map rdv == (cb.drop 3).map rdv, ca.map Val.isNone,
          dA.candles.length, dB.candles.length, eA.candles.length, eB.candles.length)
       | _, _, _, _, _, _, _, _ => (0, 0, false, [], 0, 0, 0, 0))
    | _, _ => (0, 0, false, [], 0, 0, 0, 0))
    = (4, 7, true, [false, false, false, false], 7, 14, 3, 5) := by decide +kernel

/-- (b) a member WITHOUT timeframe: the schedule of `TwinTrees.lean` (lifespan 240 s) with `ATR_3` on the default
manager next to members on `T2` and `T3` -/
def atr0 : Member Int := { tree := mkTop (.atr 3) "ATR_3" 4, tfName := none, tfSecs := none }
def smaT2 : Member Int := { tree := mkTop (.sma 2 "close") "SMA_2_T2" 4, tfName := some "T2", tfSecs := some 120 }
def members0 : List (Member Int) := [smaT2, atr0, emaT3]
def others0 : List String := smaT2.tree.allNames ++ emaT3.tree.allNames
def hex0A : PyM (Hexital Int) := runHexSched { lifespan := some 240 } none ttInit members0 [tt420, [], tt480]
def hex0B : PyM (Hexital Int) := runHexSched {} none ttInit members0 [tt420, [], tt480]

theorem hyps_atr0 :
    (members0.map (·.tree.name)).Nodup ∧ (C13.othersNames atr0.tree.name members0).all others0.contains = true ∧
    treeOKb others0 atr0.tree = true ∧
    members0.all (fun m => m.tfName != atr0.tfName || m.tfSecs == atr0.tfSecs) = true ∧
    readOK others0 "ATR_3" = true ∧ isOk hex0A = true ∧ isOk hex0B = true ∧
    (∀ c ∈ ttInit ++ [tt420, [], tt480].flatten, Plain c) := by decide +kernel

theorem applied_look : ∃ HA HB d mA mB col, hex0A = .ok HA ∧ hex0B = .ok HB ∧
    HA.memberManager "ATR_3" = some mA ∧ HB.memberManager "ATR_3" = some mB ∧
    SameView ["ATR_3", "ATR_3_TR"] mA.candles (mB.candles.drop d) ∧
    HB.readingAsList "ATR_3" = .ok col ∧ HA.readingAsList "ATR_3" = .ok (col.drop d) := by
  obtain ⟨h1, h2, h3, h4, h5, h6, h7, h8⟩ := hyps_atr0
  obtain ⟨HA, hA⟩ := isOk_ok h6
  obtain ⟨HB, hB⟩ := isOk_ok h7
  obtain ⟨d, mA, mB, e1, e2, _, _, e3, e4⟩ := member_C15b_look
    (MemberHyps.of_b members0 atr0 others0 h1 h2 h3 h4 (by decide) (by simp [members0]))
    (.atr 3) "ATR_3" 4 atrDemoOK rfl rfl 240 ttInit [tt420, [], tt480] h8 rfl
    (by rw [atrDemo_look]; exact ttDemo_retains2) HA HB hA hB
  obtain ⟨col, e5, e6⟩ := e4 "ATR_3" (by decide) h5
  exact ⟨HA, HB, d, mA, mB, col, hA, hB, e1, e2, e3, e5, e6⟩

example : (match hex0A, hex0B with
    | .ok HA, .ok HB =>
      (match HA.memberManager "ATR_3", HB.memberManager "ATR_3", HA.readingAsList "ATR_3", HB.readingAsList "ATR_3" with
       | some mA, some mB, .ok ca, .ok cb =>
         (mA.candles.length, mB.candles.length, ca.map rdv == (cb.drop (mB.candles.length - mA.candles.length)).map rdv,
          ca.map Val.isNone)
       | _, _, _, _ => (0, 0, false, []))
    | _, _ => (0, 0, false, [])) = (4, 7, true, [false, false, false, false]) := by decide +kernel

/-- (c) with gap filling, on a Hexital WITH its own timeframe `T2` + fill + lifespan 600 s: the member `ATR_3` has no
timeframe of its own (effective timeframe: the Hexital's 120 s), `EMA_2_T3` lives on `T3` -/
def membersF : List (Member Int) := [atr0, emaT3]
def othersF : List String := emaT3.tree.allNames
def hexFA : PyM (Hexital Int) :=
  runHexSched { tf := some 120, fill := true, lifespan := some 600 } (some "T2") tfInit membersF tfChunksGap
def hexFB : PyM (Hexital Int) := runHexSched { tf := some 120, fill := true } (some "T2") tfInit membersF tfChunksGap

theorem hyps_fill :
    (membersF.map (·.tree.name)).Nodup ∧ (C13.othersNames atr0.tree.name membersF).all othersF.contains = true ∧
    treeOKb othersF atr0.tree = true ∧
    membersF.all (fun m => m.tfName != atr0.tfName || m.tfSecs == atr0.tfSecs) = true ∧
    readOK othersF "ATR_3" = true ∧ isOk hexFA = true ∧ isOk hexFB = true := by decide +kernel

theorem applied_fill : ∃ HA HB d mA mB col, hexFA = .ok HA ∧ hexFB = .ok HB ∧
    HA.memberManager "ATR_3" = some mA ∧ HB.memberManager "ATR_3" = some mB ∧
    SameView ["ATR_3", "ATR_3_TR"] mA.candles (mB.candles.drop d) ∧
    HB.readingAsList "ATR_3" = .ok col ∧ HA.readingAsList "ATR_3" = .ok (col.drop d) := by
  obtain ⟨h1, h2, h3, h4, h5, h6, h7⟩ := hyps_fill
  obtain ⟨HA, hA⟩ := isOk_ok h6
  obtain ⟨HB, hB⟩ := isOk_ok h7
  obtain ⟨d, mA, mB, e1, e2, _, _, e3, e4⟩ := member_C15b_tf_fill
    (MemberHyps.of_b membersF atr0 othersF h1 h2 h3 h4 (by decide) (by simp [membersF]))
    (.atr 3) "ATR_3" 4 atrDemoOK rfl (some 120) (some "T2") 120 (by decide) rfl 600 tfInit tfChunksGap tfGap_raw
    tfGap_init (by rw [atrDemo_look]; exact tfGap_retains) HA HB hA hB
  obtain ⟨col, e5, e6⟩ := e4 "ATR_3" (by decide) h5
  exact ⟨HA, HB, d, mA, mB, col, hA, hB, e1, e2, e3, e5, e6⟩

example : (match hexFA, hexFB with
    | .ok HA, .ok HB =>
      (match HA.memberManager "ATR_3", HB.memberManager "ATR_3", HA.readingAsList "ATR_3", HB.readingAsList "ATR_3" with
       | some mA, some mB, .ok ca, .ok cb =>
         (mA.candles.length, mB.candles.length, ca.map rdv == (cb.drop 3).map rdv, ca.map Val.isNone)
       | _, _, _, _ => (0, 0, false, []))
    | _, _ => (0, 0, false, [])) = (6, 9, true, [false, false, false, false, false, false]) := by decide +kernel

end MembersC15Ex

end Hex

#print axioms Hex.member_pair_drop
#print axioms Hex.member_C15b_look
#print axioms Hex.member_C15b_tf
#print axioms Hex.member_C15b_tf_fill
#print axioms Hex.MembersC15Ex.applied_tf
#print axioms Hex.MembersC15Ex.applied_look
#print axioms Hex.MembersC15Ex.applied_fill

import HexProofs.Writes.Kinds
import HexProofs.Writes.Names
/-
Key locality, part 4 – the **writes-only theorem** of the calculation engine: whatever
`calculate`, `calculate_index`, the sub-indicator passes, `_calculate_reading` and
`Managed.set_reading` do to the candles, they do it under the names of the tree they run.
-/
namespace Hex
variable {F : Type} [PyF F]

theorem Writes.bind_ok {α β : Type} {m : PyM α} {g : α → PyM β} {b : β} (h : (m >>= g) = .ok b) :
    ∃ a, m = .ok a ∧ g a = .ok b := by
  cases m with
  | error e => cases h
  | ok a => exact ⟨a, rfl, h⟩

omit [PyF F] in
/-- a left fold of writes that each stay within `names` stays within `names` -/
theorem Writes.foldlM_stripEq {α : Type} {names : List String} (step : List (Candle F) → α → PyM (List (Candle F)))
    (hstep : ∀ cs a cs', step cs a = .ok cs' → StripEq names cs cs') :
    ∀ (l : List α) (cs cs' : List (Candle F)), l.foldlM step cs = .ok cs' → StripEq names cs cs' := by
  intro l
  induction l with
  | nil => intro cs cs' h; simp [List.foldlM, pure, Except.pure] at h; subst h; exact StripEq.refl _ _
  | cons a r ih =>
    intro cs cs' h
    rw [List.foldlM_cons] at h
    obtain ⟨cs1, h1, h2⟩ := Writes.bind_ok h
    exact (hstep cs a cs1 h1).trans (ih cs1 cs' h2)

/-- the six statements proved together by induction on the fuel -/
structure EngineLocal (f : Nat) : Prop where
  calculate : ∀ (ind : Ind F) cs cs', calculate f ind cs = .ok cs' → StripEq ind.allNames cs cs'
  calcLoop : ∀ (ind : Ind F) cs k n cs', calcLoop f ind cs k n = .ok cs' → StripEq ind.allNames cs cs'
  calculateIndex : ∀ (ind : Ind F) cs s e cs', calculateIndex f ind cs s e = .ok cs' →
    StripEq ind.allNames cs cs'
  calcSubs : ∀ (subs : List (Ind F)) prior range cs cs', calcSubs f subs prior range cs = .ok cs' →
    StripEq (Ind.allNamesL subs) cs cs'
  calcReading : ∀ (ind : Ind F) cs i v cs', calcReading f ind cs i = .ok (v, cs') →
    StripEq ind.allNames cs cs'
  setManagedReading : ∀ (m : Ind F) cs i v cs', setManagedReading f m cs i v = .ok cs' →
    StripEq m.allNames cs cs'

omit [PyF F] in
theorem StripEq.ofSubs {ind : Ind F} {cs cs' : List (Candle F)}
    (h : StripEq (Ind.allNamesL ind.subs) cs cs') : StripEq ind.allNames cs cs' :=
  h.mono ind.subs_names_sub

/-- one `_calculate_reading` + `_set_reading` -/
theorem Writes.readSet_stripEq {f : Nat} (ih : EngineLocal (F := F) f) (ind : Ind F) (cs cs1 cs' : List (Candle F))
    (i : Int) (v : Val F) (h1 : Hex.calcReading f ind cs i = .ok (v, cs1))
    (h2 : setReading ind.isSub ind.name cs1 i (v.roundBy ind.round) = .ok cs') :
    StripEq ind.allNames cs cs' :=
  (ih.calcReading ind cs i v cs1 h1).trans
    (setReading_stripEq ind.isSub ind.name ind.name_mem_names cs1 cs' i _ h2)

theorem engineLocal : ∀ f : Nat, EngineLocal (F := F) f := by
  intro f
  induction f with
  | zero =>
    refine ⟨?_, ?_, ?_, ?_, ?_, ?_⟩
    · intro ind cs cs' h; simp [Hex.calculate] at h
    · intro ind cs k n cs' h; simp [Hex.calcLoop] at h
    · intro ind cs s e cs' h; simp [Hex.calculateIndex] at h
    · intro subs prior range cs cs' h; simp [Hex.calcSubs] at h
    · intro ind cs i v cs' h; simp [Hex.calcReading] at h
    · intro m cs i v cs' h; simp [Hex.setManagedReading] at h
  | succ f ih =>
    refine ⟨?_, ?_, ?_, ?_, ?_, ?_⟩
    · -- calculate
      intro ind cs cs' h
      rw [Hex.calculate] at h
      obtain ⟨cs1, h1, h⟩ := Writes.bind_ok h
      obtain ⟨cs2, h2, h3⟩ := Writes.bind_ok h
      exact ((ih.calcSubs _ _ _ _ _ h1).ofSubs.trans (ih.calcLoop _ _ _ _ _ h2)).trans
        (ih.calcSubs _ _ _ _ _ h3).ofSubs
    · -- calcLoop
      intro ind cs k n cs' h
      cases n with
      | zero =>
        rw [Hex.calcLoop] at h
        · cases h; exact StripEq.refl _ _
        · simp
      | succ n =>
        rw [Hex.calcLoop] at h
        obtain ⟨c, _, h⟩ := Writes.bind_ok h
        dsimp only at h
        repeat' (split at h)
        all_goals first
          | (obtain ⟨cs1, h1, h2⟩ := Writes.bind_ok h
             cases h1
             exact ih.calcLoop _ _ _ _ _ h2)
          | (obtain ⟨⟨v, cs1⟩, h1, h⟩ := Writes.bind_ok h
             obtain ⟨cs2, h2, h3⟩ := Writes.bind_ok h
             exact (Writes.readSet_stripEq ih ind cs cs1 cs2 k v h1 h2).trans (ih.calcLoop _ _ _ _ _ h3))
    · -- calculateIndex
      intro ind cs s e cs' h
      rw [Hex.calculateIndex] at h
      obtain ⟨cs1, h1, h⟩ := Writes.bind_ok h
      obtain ⟨cs2, h2, h3⟩ := Writes.bind_ok h
      refine ((ih.calcSubs _ _ _ _ _ h1).ofSubs.trans ?_).trans (ih.calcSubs _ _ _ _ _ h3).ofSubs
      refine Writes.foldlM_stripEq _ (fun cs i cs' hh => ?_) _ _ _ h2
      obtain ⟨⟨v, cs1⟩, hh1, hh2⟩ := Writes.bind_ok hh
      exact Writes.readSet_stripEq ih ind cs cs1 cs' i v hh1 hh2
    · -- calcSubs
      intro subs prior range cs cs' h
      cases subs with
      | nil =>
        rw [Hex.calcSubs] at h
        · cases h; exact StripEq.refl _ _
        · simp
      | cons s rest =>
        simp only [Hex.calcSubs] at h
        have hs : ∃ cs1, StripEq s.allNames cs cs1 ∧ Hex.calcSubs f rest prior range cs1 = .ok cs' := by
          repeat' (split at h)
          all_goals (obtain ⟨cs1, h1, h2⟩ := Writes.bind_ok h; refine ⟨cs1, ?_, h2⟩)
          all_goals first
            | exact ih.calculateIndex _ _ _ _ _ h1
            | exact ih.calculate _ _ _ h1
            | (cases h1; exact StripEq.refl _ _)
        obtain ⟨cs1, hs, h2⟩ := hs
        have hrest := (ih.calcSubs _ _ _ _ _ h2).mono (N' := Ind.allNamesL (s :: rest))
          (fun k hk => by simp [hk])
        exact (hs.mono (fun k hk => by simp [hk])).trans hrest
    · -- calcReading
      intro ind cs i v cs' h
      rw [Hex.calcReading] at h
      refine calcKind_stripEq (names := ind.allNames) ⟨?_, ?_⟩ ind _ ind.name_mem_names v cs' h
      · intro key v cs cs' hh
        obtain ⟨m, hm, hh⟩ := Writes.bind_ok hh
        exact (ih.setManagedReading m cs i v cs' hh).mono (Ind.getManaged_names hm)
      · intro key cs cs' hh
        obtain ⟨m, hm, hh⟩ := Writes.bind_ok hh
        exact (ih.calculateIndex m cs i (i + 1) cs' hh).mono (Ind.getManaged_names hm)
    · -- setManagedReading
      intro m cs i v cs' h
      rw [Hex.setManagedReading] at h
      obtain ⟨cs1, h1, h⟩ := Writes.bind_ok h
      obtain ⟨cs2, h2, h3⟩ := Writes.bind_ok h
      exact ((ih.calcSubs _ _ _ _ _ h1).ofSubs.trans
        (setReading_stripEq m.isSub m.name m.name_mem_names cs1 cs2 i v h2)).trans
        (ih.calcSubs _ _ _ _ _ h3).ofSubs

/-! ### the six statements, individually: `StripEq` (strong) and `AgreeOff` form -/

theorem calculate_stripEq (f : Nat) (ind : Ind F) (cs cs' : List (Candle F))
    (h : calculate f ind cs = .ok cs') : StripEq ind.allNames cs cs' :=
  (engineLocal f).calculate ind cs cs' h

theorem calcLoop_stripEq (f : Nat) (ind : Ind F) (cs cs' : List (Candle F)) (k n : Nat)
    (h : calcLoop f ind cs k n = .ok cs') : StripEq ind.allNames cs cs' :=
  (engineLocal f).calcLoop ind cs k n cs' h

theorem calculateIndex_stripEq (f : Nat) (ind : Ind F) (cs cs' : List (Candle F)) (s e : Int)
    (h : calculateIndex f ind cs s e = .ok cs') : StripEq ind.allNames cs cs' :=
  (engineLocal f).calculateIndex ind cs s e cs' h

theorem calcSubs_stripEq (f : Nat) (subs : List (Ind F)) (prior : Bool) (range : Option (Int × Int))
    (cs cs' : List (Candle F)) (h : calcSubs f subs prior range cs = .ok cs') :
    StripEq (Ind.allNamesL subs) cs cs' :=
  (engineLocal f).calcSubs subs prior range cs cs' h

theorem calcReading_stripEq (f : Nat) (ind : Ind F) (cs cs' : List (Candle F)) (i : Int) (v : Val F)
    (h : calcReading f ind cs i = .ok (v, cs')) : StripEq ind.allNames cs cs' :=
  (engineLocal f).calcReading ind cs i v cs' h

theorem setManagedReading_stripEq (f : Nat) (m : Ind F) (cs cs' : List (Candle F)) (i : Int) (v : Val F)
    (h : setManagedReading f m cs i v = .ok cs') : StripEq m.allNames cs cs' :=
  (engineLocal f).setManagedReading m cs i v cs' h

/-- **Writes-only, `Indicator.calculate()`**: for every tree and every fuel, a successful run changes
nothing but reading entries stored under the names of the tree. -/
theorem calculate_writes_only (f : Nat) (ind : Ind F) (cs cs' : List (Candle F))
    (h : calculate f ind cs = .ok cs') : AgreeOff ind.allNames cs cs' :=
  (calculate_stripEq f ind cs cs' h).agreeOff

theorem calcLoop_writes_only (f : Nat) (ind : Ind F) (cs cs' : List (Candle F)) (k n : Nat)
    (h : calcLoop f ind cs k n = .ok cs') : AgreeOff ind.allNames cs cs' :=
  (calcLoop_stripEq f ind cs cs' k n h).agreeOff

/-- **Writes-only, `Indicator.calculate_index(start, end)`** -/
theorem calculateIndex_writes_only (f : Nat) (ind : Ind F) (cs cs' : List (Candle F)) (s e : Int)
    (h : calculateIndex f ind cs s e = .ok cs') : AgreeOff ind.allNames cs cs' :=
  (calculateIndex_stripEq f ind cs cs' s e h).agreeOff

theorem calcSubs_writes_only (f : Nat) (subs : List (Ind F)) (prior : Bool) (range : Option (Int × Int))
    (cs cs' : List (Candle F)) (h : calcSubs f subs prior range cs = .ok cs') :
    AgreeOff (Ind.allNamesL subs) cs cs' :=
  (calcSubs_stripEq f subs prior range cs cs' h).agreeOff

/-- **Writes-only, `_calculate_reading(index)`** (the helper series written while computing) -/
theorem calcReading_writes_only (f : Nat) (ind : Ind F) (cs cs' : List (Candle F)) (i : Int) (v : Val F)
    (h : calcReading f ind cs i = .ok (v, cs')) : AgreeOff ind.allNames cs cs' :=
  (calcReading_stripEq f ind cs cs' i v h).agreeOff

/-- **Writes-only, `Managed.set_reading`** -/
theorem setManagedReading_writes_only (f : Nat) (m : Ind F) (cs cs' : List (Candle F)) (i : Int) (v : Val F)
    (h : setManagedReading f m cs i v = .ok cs') : AgreeOff m.allNames cs cs' :=
  (setManagedReading_stripEq f m cs cs' i v h).agreeOff

end Hex

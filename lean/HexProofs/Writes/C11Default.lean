import HexProofs.Writes.MembersC11
/-
C11 for THE DEFAULT MANAGER OF A HEXITAL NONE OF WHOSE MEMBERS LIVES ON IT (every member – those handed to the
constructor and those added later by `add_indicator` – has a timeframe of its own, so each is attached to the manager of
that timeframe).

`Hexital.append` still feeds the default manager (`Hexital.feedManagers`, the default manager last), and nothing else
ever touches it: `calculate` / `calculate_index` / `purge` / `recalculate` / `remove_indicator` run on the managers the
members are attached to, `add_indicator` only READS it (deep copy).  So under ANY program of façade operations the
default manager IS – exactly, reading dicts included: nobody writes readings on it – the bare `CandleManager` with the
Hexital's own configuration constructed from the same candles and fed the appended chunks (`default_manager_bare`).
With the bare-manager theorems of C11 (`runSched_ha`, `runSched_tf_ha`, `fill_ha_schedule_readings`):

  * `default_ha`          – Heikin-Ashi Hexital without timeframe: candles = `haSpec (init ++ appended)`
  * `default_ha_tf`       – Hexital-level timeframe `tf`:           candles = `haSpec (resample tf (init ++ appended))`
  * `default_ha_tf_fill`  – … with `timeframe_fill`:                candles = `haSpec (fillSpec tf (init ++ appended))`

as EQUALITIES of candle lists.  Hypotheses on the raw stream exactly as for bare managers.
-/
namespace Hex
set_option linter.unusedSectionVars false
set_option linter.unusedSimpArgs false
set_option linter.unusedVariables false
variable {F : Type} [PyF F]

/-- the member has a timeframe of its own whose name is not the literal manager key "default" -/
def Member.OwnTf (m : Member F) : Prop := ∃ k, m.tfName = some k ∧ k ≠ defaultKey

/-- operations that add members add members with their own timeframe only -/
def TwinOp.OwnTf : TwinOp F → Prop
  | .add ms => ∀ m, m ∈ ms → m.OwnTf
  | _ => True

/-- the default manager is `dm`, and no registered indicator is attached to it -/
structure DfltInv (dm : Manager F) (H : Hexital F) : Prop where
  mgrNodup : (H.managers.map (·.1)).Nodup
  dflt : dlookup defaultKey H.managers = some dm
  off : ∀ n hi, dlookup n H.indicators = some hi → hi.mgrKey ≠ defaultKey

/-! ### operations on members -/

theorem DfltInv.withInd {dm : Manager F} {H H' : Hexital F} (inv : DfltInv dm H) (name : String)
    (f : IndState F → PyM (IndState F)) (h : H.withInd name f = .ok H') : DfltInv dm H' := by
  unfold Hexital.withInd at h
  cases hl : dlookup name H.indicators with
  | none => rw [hl] at h; cases h
  | some hi =>
    rw [hl] at h
    simp only at h
    obtain ⟨m, hm, h⟩ := Writes.bind_ok h
    obtain ⟨s, hs, h⟩ := Writes.bind_ok h
    cases h
    have hk : hi.mgrKey ≠ defaultKey := inv.off name hi hl
    refine ⟨?_, ?_, ?_⟩
    · exact Writes.nodup_keys_dset _ _ _ inv.mgrNodup
    · show dlookup defaultKey (dset hi.mgrKey s.mgr H.managers) = some dm
      rw [dlookup_dset_ne _ _ _ _ hk]; exact inv.dflt
    · intro n hi' hn
      change dlookup n (dset name { hi with active := s.active } H.indicators) = some hi' at hn
      rw [dlookup_dset] at hn
      by_cases e : name = n
      · simp only [e, if_true] at hn; cases hn; exact hk
      · simp only [e, if_false] at hn; exact inv.off n hi' hn

theorem DfltInv.forEach_fold {dm : Manager F} (sel : String → Bool) (f : IndState F → PyM (IndState F)) :
    ∀ (names : List String) (H H' : Hexital F), DfltInv dm H →
      names.foldlM (fun h n => if sel n then h.withInd n f else pure h) H = .ok H' → DfltInv dm H' := by
  intro names
  induction names with
  | nil => intro H H' inv h; cases h; exact inv
  | cons n r ih =>
    intro H H' inv h
    rw [List.foldlM_cons] at h
    obtain ⟨H1, h1, h2⟩ := Writes.bind_ok h
    by_cases hs : sel n = true
    · simp only [hs, if_true] at h1
      exact ih H1 H' (inv.withInd n f h1) h2
    · simp only [hs, Bool.false_eq_true, if_false] at h1
      cases h1
      exact ih H H' inv h2

theorem DfltInv.forEach {dm : Manager F} {H H' : Hexital F} (inv : DfltInv dm H) (sel : String → Bool)
    (f : IndState F → PyM (IndState F)) (h : H.forEach sel f = .ok H') : DfltInv dm H' :=
  DfltInv.forEach_fold sel f _ H H' inv h

/-! ### attaching members with their own timeframe -/

theorem DfltInv.attachFrom {dm : Manager F} {H H' : Hexital F} (inv : DfltInv dm H) (src : Option (List (Candle F)))
    (m : Member F) (hm : m.OwnTf) (h : H.attachFrom src m = .ok H') : DfltInv dm H' := by
  obtain ⟨tf, htf, hne⟩ := hm
  have hoff : ∀ (ms : List (String × Manager F)) n hi,
      dlookup n (dset m.tree.name ({ tree := m.tree, mgrKey := tf } : HxInd F) H.indicators) = some hi →
      hi.mgrKey ≠ defaultKey := by
    intro _ n hi hn
    rw [dlookup_dset] at hn
    by_cases e : m.tree.name = n
    · simp only [e, if_true] at hn; cases hn; exact hne
    · simp only [e, if_false] at hn; exact inv.off n hi hn
  unfold Hexital.attachFrom at h
  rw [htf] at h
  simp only at h
  split at h
  · cases h
    exact ⟨inv.mgrNodup, inv.dflt, hoff H.managers⟩
  · obtain ⟨raw, _, h⟩ := Writes.bind_ok h
    obtain ⟨nm, _, h⟩ := Writes.bind_ok h
    cases h
    refine ⟨Writes.nodup_keys_dset _ _ _ inv.mgrNodup, ?_, hoff H.managers⟩
    show dlookup defaultKey (dset tf nm H.managers) = some dm
    rw [dlookup_dset_ne _ _ _ _ hne]; exact inv.dflt

theorem DfltInv.attach_fold {dm : Manager F} (src : Option (List (Candle F))) :
    ∀ (ms : List (Member F)) (H H' : Hexital F), DfltInv dm H → (∀ m, m ∈ ms → m.OwnTf) →
      ms.foldlM (Hexital.attachFrom src) H = .ok H' → DfltInv dm H' := by
  intro ms
  induction ms with
  | nil => intro H H' inv _ h; cases h; exact inv
  | cons m r ih =>
    intro H H' inv hown h
    rw [List.foldlM_cons] at h
    obtain ⟨H1, h1, h2⟩ := Writes.bind_ok h
    exact ih H1 H' (inv.attachFrom src m (hown m (by simp)) h1) (fun x hx => hown x (by simp [hx])) h2

/-! ### `append`: every manager is fed once -/

theorem DfltInv.feedOne_off {dm : Manager F} {H H' : Hexital F} (inv : DfltInv dm H) (new : List (Candle F))
    (k : String) (hk : k ≠ defaultKey) (h : Hexital.feedOne new H k = .ok H') : DfltInv dm H' := by
  unfold Hexital.feedOne at h
  obtain ⟨m, _, h⟩ := Writes.bind_ok h
  obtain ⟨m', _, h⟩ := Writes.bind_ok h
  cases h
  refine ⟨Writes.nodup_keys_dset _ _ _ inv.mgrNodup, ?_, inv.off⟩
  show dlookup defaultKey (dset k m' H.managers) = some dm
  rw [dlookup_dset_ne _ _ _ _ hk]; exact inv.dflt

theorem DfltInv.feedOne_dflt {dm : Manager F} {H H' : Hexital F} (inv : DfltInv dm H) (new : List (Candle F))
    (h : Hexital.feedOne new H defaultKey = .ok H') : ∃ dm', dm.append new = .ok dm' ∧ DfltInv dm' H' := by
  unfold Hexital.feedOne at h
  obtain ⟨m, hm, h⟩ := Writes.bind_ok h
  obtain ⟨m', hm', h⟩ := Writes.bind_ok h
  cases h
  unfold Hexital.manager at hm
  rw [inv.dflt] at hm
  cases hm
  exact ⟨m', hm', Writes.nodup_keys_dset _ _ _ inv.mgrNodup, dlookup_dset_self _ _ _, inv.off⟩

theorem DfltInv.feed_fold_off {dm : Manager F} (new : List (Candle F)) :
    ∀ (ks : List String) (H H' : Hexital F), defaultKey ∉ ks → DfltInv dm H →
      ks.foldlM (Hexital.feedOne new) H = .ok H' → DfltInv dm H' := by
  intro ks
  induction ks with
  | nil => intro H H' _ inv h; cases h; exact inv
  | cons k r ih =>
    intro H H' hk inv h
    rw [List.foldlM_cons] at h
    obtain ⟨H1, h1, h2⟩ := Writes.bind_ok h
    exact ih H1 H' (fun hm => hk (by simp [hm]))
      (inv.feedOne_off new k (fun e => hk (by simp [e])) h1) h2

theorem DfltInv.feed_fold {dm : Manager F} (new : List (Candle F)) :
    ∀ (ks : List String) (H H' : Hexital F), ks.Nodup → defaultKey ∈ ks → DfltInv dm H →
      ks.foldlM (Hexital.feedOne new) H = .ok H' → ∃ dm', dm.append new = .ok dm' ∧ DfltInv dm' H' := by
  intro ks
  induction ks with
  | nil => intro H H' _ hm _ _; cases hm
  | cons k r ih =>
    intro H H' hnd hmem inv h
    rw [List.foldlM_cons] at h
    obtain ⟨H1, h1, h2⟩ := Writes.bind_ok h
    obtain ⟨hkr, hndr⟩ := List.nodup_cons.1 hnd
    by_cases e : k = defaultKey
    · subst e
      obtain ⟨dm', hd, inv'⟩ := inv.feedOne_dflt new h1
      exact ⟨dm', hd, DfltInv.feed_fold_off new r H1 H' hkr inv' h2⟩
    · have hmr : defaultKey ∈ r := by
        rcases List.mem_cons.1 hmem with h0 | h0
        · exact absurd h0.symm e
        · exact h0
      exact ih H1 H' hndr hmr (inv.feedOne_off new k e h1) h2

theorem DfltInv.feedManagers {dm : Manager F} {H H' : Hexital F} (inv : DfltInv dm H) (new : List (Candle F))
    (h : H.feedManagers new = .ok H') : ∃ dm', dm.append new = .ok dm' ∧ DfltInv dm' H' := by
  unfold Hexital.feedManagers at h
  have hsplit : H.managers.map (·.1) = (H.managers.map (·.1)).take 1 ++ (H.managers.map (·.1)).drop 1 :=
    (List.take_append_drop 1 _).symm
  have hnd : H.feedOrder.Nodup := by
    unfold Hexital.feedOrder
    have := inv.mgrNodup
    rw [hsplit] at this
    obtain ⟨n1, n2, n3⟩ := List.nodup_append.1 this
    exact List.nodup_append.2 ⟨n2, n1, fun a ha b hb e => n3 b hb a ha e.symm⟩
  have hmem : defaultKey ∈ H.feedOrder := by
    unfold Hexital.feedOrder
    have := Writes.mem_keys_of_lookup inv.dflt
    rw [hsplit] at this
    rcases List.mem_append.1 this with h0 | h0
    · exact List.mem_append.2 (Or.inr h0)
    · exact List.mem_append.2 (Or.inl h0)
  exact DfltInv.feed_fold new _ H H' hnd hmem inv h

theorem DfltInv.append {dm : Manager F} {H H' : Hexital F} (inv : DfltInv dm H) (new : List (Candle F))
    (h : H.append new = .ok H') : ∃ dm', dm.append new = .ok dm' ∧ DfltInv dm' H' := by
  unfold Hexital.append at h
  obtain ⟨H1, h1, h2⟩ := Writes.bind_ok h
  obtain ⟨dm', hd, inv'⟩ := inv.feedManagers new h1
  exact ⟨dm', hd, inv'.forEach _ _ h2⟩

/-! ### any operation, any program -/

theorem DfltInv.step {dm : Manager F} {H H' : Hexital F} (inv : DfltInv dm H) (op : TwinOp F) (hop : op.OwnTf)
    (h : op.runHex H = .ok H') :
    ∃ dm', op.appended.foldlM (fun (m : Manager F) ch => m.append ch) dm = .ok dm' ∧ DfltInv dm' H' := by
  cases op with
  | calculate n => exact ⟨dm, rfl, inv.forEach _ _ h⟩
  | calculateIndex n i => exact ⟨dm, rfl, inv.forEach _ _ h⟩
  | purge n => exact ⟨dm, rfl, inv.forEach _ _ h⟩
  | recalculate n =>
    unfold TwinOp.runHex Hexital.recalculate at h
    obtain ⟨H1, h1, h2⟩ := Writes.bind_ok h
    exact ⟨dm, rfl, (inv.forEach _ _ h1).forEach _ _ h2⟩
  | append new =>
    obtain ⟨dm', hd, inv'⟩ := inv.append new h
    refine ⟨dm', ?_, inv'⟩
    show ([new] : List (List (Candle F))).foldlM _ dm = _
    rw [List.foldlM_cons, hd]; rfl
  | add ms =>
    refine ⟨dm, rfl, ?_⟩
    unfold TwinOp.runHex Hexital.addIndicators at h
    exact DfltInv.attach_fold none _ H H' inv (fun m hm => hop m (Hexital.dedupe_sub ms m hm)) h
  | remove n =>
    unfold TwinOp.runHex Hexital.removeIndicator at h
    obtain ⟨H1, h1, h2⟩ := Writes.bind_ok h
    have inv1 := inv.forEach _ _ h1
    refine ⟨dm, rfl, ?_⟩
    cases n with
    | none => cases h2; exact inv1
    | some b =>
      cases h2
      refine ⟨inv1.mgrNodup, inv1.dflt, ?_⟩
      intro k hi hk
      change dlookup k (derase b H1.indicators) = some hi at hk
      rw [dlookup_derase] at hk
      by_cases e : b = k
      · simp only [e, if_true] at hk; cases hk
      · simp only [e, if_false] at hk; exact inv1.off k hi hk

theorem DfltInv.program :
    ∀ (ops : List (TwinOp F)) (dm : Manager F) (H H' : Hexital F), DfltInv dm H → (∀ op, op ∈ ops → op.OwnTf) →
      ops.foldlM TwinOp.runHex H = .ok H' →
      ∃ dm', (appendedBy ops).foldlM (fun (m : Manager F) ch => m.append ch) dm = .ok dm' ∧ DfltInv dm' H' := by
  intro ops
  induction ops with
  | nil => intro dm H H' inv _ h; cases h; exact ⟨dm, rfl, inv⟩
  | cons op rest ih =>
    intro dm H H' inv hops h
    rw [List.foldlM_cons] at h
    obtain ⟨H1, h1, h2⟩ := Writes.bind_ok h
    obtain ⟨dm1, e1, inv1⟩ := inv.step op (hops op (by simp)) h1
    obtain ⟨dm', e2, inv'⟩ := ih dm1 H1 H' inv1 (fun o ho => hops o (by simp [ho])) h2
    refine ⟨dm', ?_, inv'⟩
    rw [appendedBy_cons, List.foldlM_append, e1]
    exact e2

/-- **The default manager of a Hexital none of whose members lives on it is the bare manager.**  Any Hexital-level
configuration (timeframe, fill, Heikin-Ashi, lifespan), any members with their own timeframes, any construction candles,
any program (appends, `calculate` / `calculate_index` / `purge` / `recalculate` / `remove_indicator` with or without a
name, `add_indicator` of members with their own timeframes): whenever the program returns, the bare `CandleManager` with
the Hexital's configuration constructed from the same candles and fed the appended chunks returns `dm`, `dm` IS the
Hexital's default manager (configuration, candles, reading dicts), and no registered indicator is attached to it. -/
theorem default_manager_bare (cfg : MgrCfg) (tfn : Option String) (init : List (Candle F)) (members : List (Member F))
    (ops : List (TwinOp F)) (H : Hexital F) (hmem : ∀ m, m ∈ members → m.OwnTf) (hops : ∀ op, op ∈ ops → op.OwnTf)
    (hrun : runHexital cfg tfn init members ops = .ok H) :
    ∃ dm, runSched cfg init (appendedBy ops) = .ok dm ∧ H.manager defaultKey = .ok dm ∧
      ∀ n hi, dlookup n H.indicators = some hi → hi.mgrKey ≠ defaultKey := by
  unfold runHexital at hrun
  obtain ⟨H0, h0, hfold⟩ := Writes.bind_ok hrun
  unfold Hexital.init at h0
  obtain ⟨dm0, hdm0, h0⟩ := Writes.bind_ok h0
  have inv0 : DfltInv dm0
      ({ cfg := cfg, tfName := tfn, managers := [(defaultKey, dm0)], indicators := [] } : Hexital F) :=
    ⟨by simp, by simp [dlookup], fun n hi hn => by simp at hn⟩
  have inv1 := DfltInv.attach_fold (some init) _ _ H0 inv0
    (fun m hm => hmem m (Hexital.dedupe_sub members m hm)) h0
  obtain ⟨dm, e, inv⟩ := DfltInv.program ops dm0 H0 H inv1 hops hfold
  refine ⟨dm, ?_, ?_, inv.off⟩
  · unfold runSched; rw [hdm0]; exact e
  · unfold Hexital.manager; rw [inv.dflt]

/-- the transfer step -/
theorem default_manager_of_bare (cfg : MgrCfg) (tfn : Option String) (init : List (Candle F))
    (members : List (Member F)) (ops : List (TwinOp F)) (H : Hexital F) (hmem : ∀ m, m ∈ members → m.OwnTf)
    (hops : ∀ op, op ∈ ops → op.OwnTf) (hrun : runHexital cfg tfn init members ops = .ok H) (X : List (Candle F))
    (hbare : runSched cfg init (appendedBy ops) = .ok { cfg := cfg, candles := X }) :
    H.manager defaultKey = .ok { cfg := cfg, candles := X } := by
  obtain ⟨dm, h1, h2, _⟩ := default_manager_bare cfg tfn init members ops H hmem hops hrun
  rw [hbare] at h1; cases h1; exact h2

/-! ### C11 for that manager -/

/-- **C11, default manager nobody lives on, Heikin-Ashi Hexital without timeframe**: the Heikin-Ashi left fold over the
raw stream received -/
theorem default_ha (tfn : Option String) (init : List (Candle F)) (members : List (Member F)) (ops : List (TwinOp F))
    (H : Hexital F) (hmem : ∀ m, m ∈ members → m.OwnTf) (hops : ∀ op, op ∈ ops → op.OwnTf)
    (hraw : ∀ c ∈ init ++ (appendedBy ops).flatten, c.tag = false)
    (hrun : runHexital { ha := true } tfn init members ops = .ok H) :
    H.manager defaultKey = .ok { cfg := { ha := true }, candles := haSpec (init ++ (appendedBy ops).flatten) } :=
  default_manager_of_bare _ tfn init members ops H hmem hops hrun _ (runSched_ha init _ hraw)

/-- **… Hexital-level collapsing timeframe**: the Heikin-Ashi left fold over the collapsed raw buckets at the Hexital's
own timeframe -/
theorem default_ha_tf (tf : Int) (htf : 0 < tf) (tfn : Option String) (init : List (Candle F))
    (members : List (Member F)) (ops : List (TwinOp F)) (H : Hexital F) (hmem : ∀ m, m ∈ members → m.OwnTf)
    (hops : ∀ op, op ∈ ops → op.OwnTf) (hraw : RawHA (init ++ (appendedBy ops).flatten))
    (hrun : runHexital { tf := some tf, ha := true } tfn init members ops = .ok H) :
    H.manager defaultKey
      = .ok { cfg := { tf := some tf, ha := true },
              candles := haSpec (resample tf (init ++ (appendedBy ops).flatten)) } :=
  default_manager_of_bare _ tfn init members ops H hmem hops hrun _ (runSched_tf_ha tf htf init _ hraw)

/-- **… with `timeframe_fill`**: the Heikin-Ashi left fold over the gap-filled collapsed raw buckets; the raw candles may
carry any readings -/
theorem default_ha_tf_fill (tf : Int) (htf : 0 < tf) (tfn : Option String) (init : List (Candle F))
    (members : List (Member F)) (ops : List (TwinOp F)) (H : Hexital F) (hmem : ∀ m, m ∈ members → m.OwnTf)
    (hops : ∀ op, op ∈ ops → op.OwnTf) (hraw : RawR (init ++ (appendedBy ops).flatten))
    (htag : ∀ c ∈ init ++ (appendedBy ops).flatten, c.tag = false)
    (hrun : runHexital { tf := some tf, fill := true, ha := true } tfn init members ops = .ok H) :
    H.manager defaultKey
      = .ok { cfg := { tf := some tf, fill := true, ha := true },
              candles := haSpec (fillSpec tf (init ++ (appendedBy ops).flatten)) } :=
  default_manager_of_bare _ tfn init members ops H hmem hops hrun _
    (fill_ha_schedule_readings tf htf init _ hraw htag).1

end Hex

#print axioms Hex.default_manager_bare
#print axioms Hex.default_ha
#print axioms Hex.default_ha_tf
#print axioms Hex.default_ha_tf_fill

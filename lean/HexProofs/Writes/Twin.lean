import HexProofs.Writes.StripManager
import HexProofs.Writes.Hexital
/-
Read-set locality, part 6: a member of a Hexital that lives on the default manager and a standalone
indicator with the same tree fed the same candles stay in step – their candles are equal once the
other members' entries are dropped (`StripEq`).
-/
namespace Hex
variable {F : Type} [PyF F] {N : List String}

/-! ### the standalone object commutes with `strip` -/

/-- drop the entries under `N` from the candles of the object -/
def IndState.stripC (N : List String) (s : IndState F) : IndState F :=
  { s with mgr := { s.mgr with candles := s.mgr.candles.map (strip N) } }

omit [PyF F] in
theorem Writes.fuelFor_map (g : Candle F → Candle F) (cs : List (Candle F)) : fuelFor (cs.map g) = fuelFor cs := by
  simp [fuelFor]

theorem IndState.calculate_strip (s : IndState F) (hok : TreeOK N s.tree) :
    (s.stripC N).calculate = IndState.stripC N <$> s.calculate := by
  unfold IndState.calculate IndState.stripC
  dsimp only
  rw [Writes.fuelFor_map]
  refine Writes.comm_bind (calcSubs_strip N _ _ _ _ _ hok.subs) (fun cs1 => ?_)
  rw [Writes.findCalcIndex_strip hok.self_name, List.length_map]
  refine Writes.comm_bind (calcLoop_strip N _ _ _ _ _ hok) (fun cs2 => ?_)
  refine Writes.comm_bind (calcSubs_strip N _ _ _ _ _ hok.subs) (fun cs3 => ?_)
  rfl

theorem IndState.append_strip (s : IndState F) (new : List (Candle F)) (hok : TreeOK N s.tree) :
    (s.stripC N).append (new.map (strip N)) = IndState.stripC N <$> s.append new := by
  unfold IndState.append
  have := Manager.append_strip (N := N) s.mgr new
  refine Writes.comm_bind this (fun m => ?_)
  exact IndState.calculate_strip ({ s with mgr := m } : IndState F) hok

/-! ### from commutation to simulation -/

/-- both fail with the same error, or both succeed with related results -/
def RelM {α β : Type} (R : α → β → Prop) : PyM α → PyM β → Prop
  | .ok a, .ok b => R a b
  | .error e, .error e' => e = e'
  | _, _ => False

omit [PyF F] in
theorem RelM.of_map_eq {α β γ : Type} {g : α → γ} {g' : β → γ} {a : PyM α} {b : PyM β}
    (h : g <$> a = g' <$> b) : RelM (fun x y => g x = g' y) a b := by
  cases a <;> cases b <;> simp_all [RelM, Functor.map, Except.map]

omit [PyF F] in
theorem RelM.ok_right {α β : Type} {R : α → β → Prop} {a : PyM α} {b : PyM β} {y : β}
    (h : RelM R a b) (hb : b = .ok y) : ∃ x, a = .ok x ∧ R x y := by
  subst hb
  cases a with
  | error e => exact absurd h (by simp [RelM])
  | ok x => exact ⟨x, rfl, h⟩

/-- two objects that differ only by entries under `N` -/
structure IndState.Sim (N : List String) (s t : IndState F) : Prop where
  tree : s.tree = t.tree
  active : s.active = t.active
  cfg : s.mgr.cfg = t.mgr.cfg
  candles : StripEq N s.mgr.candles t.mgr.candles

omit [PyF F] in
theorem IndState.Sim.stripC_eq {s t : IndState F} (h : IndState.Sim N s t) : s.stripC N = t.stripC N := by
  obtain ⟨tree, ⟨cfg, cs⟩, act⟩ := s
  obtain ⟨tree', ⟨cfg', cs'⟩, act'⟩ := t
  obtain ⟨h1, h2, h3, h4⟩ := h
  simp only at h1 h2 h3
  subst h1 h2 h3
  simp only [IndState.stripC]
  unfold StripEq at h4
  simp only at h4
  rw [h4]

omit [PyF F] in
theorem IndState.Sim.of_stripC_eq {s t : IndState F} (h : s.stripC N = t.stripC N) : IndState.Sim N s t := by
  obtain ⟨tree, ⟨cfg, cs⟩, act⟩ := s
  obtain ⟨tree', ⟨cfg', cs'⟩, act'⟩ := t
  simp only [IndState.stripC, IndState.mk.injEq, Manager.mk.injEq] at h
  exact ⟨h.1, h.2.2, h.2.1.1, h.2.1.2⟩

/-- **`Indicator.calculate()` respects `Sim`** (trees that neither write under `N` nor can read it) -/
theorem IndState.calculate_sim {s t : IndState F} (h : IndState.Sim N s t) (hok : TreeOK N s.tree) :
    RelM (IndState.Sim N) s.calculate t.calculate := by
  have e1 := IndState.calculate_strip s hok
  have e2 := IndState.calculate_strip t (h.tree ▸ hok)
  rw [h.stripC_eq] at e1
  have := RelM.of_map_eq (e1.symm.trans e2)
  revert this
  cases s.calculate <;> cases t.calculate <;> simp only [RelM] <;> intro hh
  · exact hh
  · exact hh
  · exact hh
  · exact IndState.Sim.of_stripC_eq hh

/-- two managers that differ only by entries under `N` -/
structure Manager.Sim (N : List String) (a b : Manager F) : Prop where
  cfg : a.cfg = b.cfg
  candles : StripEq N a.candles b.candles

/-- **`CandleManager.append` respects `Sim`** (the same new candles on both sides) -/
theorem Manager.append_sim {a b : Manager F} (h : Manager.Sim N a b) (new : List (Candle F)) :
    RelM (Manager.Sim N) (a.append new) (b.append new) := by
  have e1 := Manager.append_strip (N := N) a new
  have e2 := Manager.append_strip (N := N) b new
  have hab : ({ a with candles := a.candles.map (strip N) } : Manager F)
      = { b with candles := b.candles.map (strip N) } := by
    obtain ⟨c1, cs1⟩ := a
    obtain ⟨c2, cs2⟩ := b
    obtain ⟨h1, h2⟩ := h
    simp only at h1
    subst h1
    unfold StripEq at h2
    simp only at h2
    simp only [h2]
  rw [hab] at e1
  have := RelM.of_map_eq (e1.symm.trans e2)
  revert this
  cases a.append new <;> cases b.append new <;> simp only [RelM] <;> intro hh
  · exact hh
  · exact hh
  · exact hh
  · rename_i x y
    obtain ⟨c1, cs1⟩ := x
    obtain ⟨c2, cs2⟩ := y
    simp only [Manager.mk.injEq] at hh
    exact ⟨hh.1, hh.2⟩

/-! ### a member on the default manager and its standalone twin -/

/-- the standalone object a registration stands for -/
def HxInd.state (hi : HxInd F) (m : Manager F) : IndState F := { tree := hi.tree, mgr := m, active := hi.active }

/-- the invariant: the member `nm` lives on the manager with key `K` and is in step with the twin `s`;
every other member writes under `N` only; dict keys are unique -/
structure TwinInv (N : List String) (nm K : String) (s : IndState F) (H : Hexital F) : Prop where
  keysNodup : (H.indicators.map (·.1)).Nodup
  mgrNodup : (H.managers.map (·.1)).Nodup
  others : ∀ n hi, n ≠ nm → dlookup n H.indicators = some hi → ∀ k, k ∈ hi.tree.allNames → k ∈ N
  member : ∃ hi m, dlookup nm H.indicators = some hi ∧ hi.mgrKey = K ∧
    dlookup K H.managers = some m ∧ IndState.Sim N s (hi.state m)

omit [PyF F] in
theorem Hexital.manager_eq_ok {H : Hexital F} {k : String} {m : Manager F} (h : H.manager k = .ok m) :
    dlookup k H.managers = some m := by
  unfold Hexital.manager at h
  split at h
  · rename_i m0 hm0; cases h; exact hm0
  · cases h

omit [PyF F] in
/-- running a step that stays within its tree's names on ANOTHER member keeps the twin in step -/
theorem TwinInv.withInd_other {nm K : String} {s : IndState F} {H H' : Hexital F} (inv : TwinInv N nm K s H)
    (n : String) (hn : n ≠ nm) (f : IndState F → PyM (IndState F))
    (hf : ∀ t t', f t = .ok t' → IndState.Local t t')
    (hw : H.withInd n f = .ok H') : TwinInv N nm K s H' := by
  unfold Hexital.withInd at hw
  cases hl : dlookup n H.indicators with
  | none => rw [hl] at hw; cases hw
  | some hi' =>
    rw [hl] at hw
    dsimp only at hw
    obtain ⟨m', hm', hw⟩ := Writes.bind_ok hw
    obtain ⟨t', ht', hw⟩ := Writes.bind_ok hw
    cases hw
    have hm'' := Hexital.manager_eq_ok hm'
    have hloc := hf _ t' ht'
    refine ⟨?_, ?_, ?_, ?_⟩
    · show ((dset n _ H.indicators).map (·.1)).Nodup
      rw [Writes.keys_dset_of_lookup _ hl]; exact inv.keysNodup
    · show ((dset hi'.mgrKey _ H.managers).map (·.1)).Nodup
      rw [Writes.keys_dset_of_lookup _ hm'']; exact inv.mgrNodup
    · intro n2 hi2 hn2 hl2
      change dlookup n2 (dset n _ H.indicators) = some hi2 at hl2
      rw [dlookup_dset] at hl2
      by_cases e : n = n2
      · subst e; simp only [if_true] at hl2; cases hl2
        exact inv.others n hi' hn hl
      · simp only [e, if_false] at hl2
        exact inv.others n2 hi2 hn2 hl2
    · obtain ⟨hi, m, h1, h2, h3, h4⟩ := inv.member
      have hne : ¬ n = nm := hn
      by_cases hk : hi'.mgrKey = K
      · -- the other member shares the default manager: its writes stay under `N`
        have hmm : m' = m := by rw [hk, h3] at hm''; cases hm''; rfl
        subst hmm
        refine ⟨hi, t'.mgr, ?_, h2, ?_, ?_⟩
        · change dlookup nm (dset n _ H.indicators) = some hi
          rw [dlookup_dset]; simp only [hne, if_false]; exact h1
        · change dlookup K (dset hi'.mgrKey t'.mgr H.managers) = some t'.mgr
          rw [hk]; exact dlookup_dset_self _ _ _
        · have hse : StripEq N m'.candles t'.mgr.candles :=
            (hloc.stripEq).mono (inv.others n hi' hn hl)
          exact ⟨h4.tree, h4.active, h4.cfg.trans hloc.cfg.symm, h4.candles.trans hse⟩
      · refine ⟨hi, m, ?_, h2, ?_, h4⟩
        · change dlookup nm (dset n _ H.indicators) = some hi
          rw [dlookup_dset]; simp only [hne, if_false]; exact h1
        · change dlookup K (dset hi'.mgrKey t'.mgr H.managers) = some m
          rw [dlookup_dset]; simp only [hk, if_false]; exact h3

/-- an object-level operation that can be mirrored on the twin: it stays within its tree's names
and it respects `Sim` for trees that neither write under `N` nor can read it -/
structure TwinStep (N : List String) (f : IndState F → PyM (IndState F)) : Prop where
  loc : ∀ t t', f t = .ok t' → IndState.Local t t'
  sim : ∀ s t, IndState.Sim N s t → TreeOK N s.tree → RelM (IndState.Sim N) (f s) (f t)

theorem TwinStep.calculate : TwinStep N (IndState.calculate (F := F)) :=
  ⟨IndState.calculate_local, fun _ _ h hok => IndState.calculate_sim h hok⟩

omit [PyF F] in
theorem strip_comm (A B : List String) (c : Candle F) : strip A (strip B c) = strip B (strip A c) := by
  simp only [strip, eraseAll_eq_filter, List.filter_filter]
  congr 1 <;> (apply List.filter_congr; intro p _; exact Bool.and_comm _ _)

omit [PyF F] in
theorem TwinStep.purge : TwinStep N (fun s : IndState F => pure s.purge) := by
  refine ⟨fun t t' e => by cases e; exact IndState.purge_local t, fun s t h _ => ?_⟩
  show IndState.Sim N s.purge t.purge
  refine ⟨h.tree, h.active, h.cfg, ?_⟩
  show StripEq N (purgeNames s.tree.allNames s.mgr.candles) (purgeNames t.tree.allNames t.mgr.candles)
  rw [← h.tree]
  unfold StripEq
  rw [purgeNames_eq_map_strip, purgeNames_eq_map_strip, List.map_map, List.map_map]
  have hc := h.candles
  unfold StripEq at hc
  have := congrArg (List.map (strip s.tree.allNames)) hc
  simpa [List.map_map, Function.comp_def, strip_comm N] using this

theorem IndState.calculateIndex_strip (s : IndState F) (start : Int) (end_ : Option Int) (hok : TreeOK N s.tree) :
    (s.stripC N).calculateIndex start end_ = IndState.stripC N <$> s.calculateIndex start end_ := by
  unfold IndState.calculateIndex IndState.stripC
  dsimp only
  rw [Writes.fuelFor_map, List.length_map]
  refine Writes.comm_bind (Hex.calculateIndex_strip N _ _ _ _ _ hok) (fun cs1 => ?_)
  rfl

theorem TwinStep.calculateIndex (start : Int) (end_ : Option Int) :
    TwinStep N (fun s : IndState F => s.calculateIndex start end_) := by
  refine ⟨fun t t' e => IndState.calculateIndex_local t t' start end_ e, fun s t h hok => ?_⟩
  have e1 := IndState.calculateIndex_strip s start end_ hok
  have e2 := IndState.calculateIndex_strip t start end_ (h.tree ▸ hok)
  rw [h.stripC_eq] at e1
  have := RelM.of_map_eq (e1.symm.trans e2)
  revert this
  cases s.calculateIndex start end_ <;> cases t.calculateIndex start end_ <;> simp only [RelM] <;> intro hh
  · exact hh
  · exact hh
  · exact hh
  · exact IndState.Sim.of_stripC_eq hh

omit [PyF F] in
/-- running a twinnable operation on the member itself: the twin can do the same and stays in step -/
theorem TwinInv.withInd_self {nm K : String} {s : IndState F} {H H' : Hexital F} (inv : TwinInv N nm K s H)
    (hok : TreeOK N s.tree) {f : IndState F → PyM (IndState F)} (hf : TwinStep N f)
    (hw : H.withInd nm f = .ok H') :
    ∃ s', f s = .ok s' ∧ s'.tree = s.tree ∧ TwinInv N nm K s' H' := by
  obtain ⟨hi, m, h1, h2, h3, h4⟩ := inv.member
  unfold Hexital.withInd at hw
  rw [h1] at hw
  dsimp only at hw
  obtain ⟨m', hm', hw⟩ := Writes.bind_ok hw
  obtain ⟨t', ht', hw⟩ := Writes.bind_ok hw
  cases hw
  have hm'' := Hexital.manager_eq_ok hm'
  rw [h2, h3] at hm''
  cases hm''
  obtain ⟨s', hs', hsim⟩ := (hf.sim _ _ h4 hok).ok_right ht'
  have hloc := hf.loc _ t' ht'
  have hlocs := hf.loc _ s' hs'
  refine ⟨s', hs', hlocs.tree, ?_, ?_, ?_, ?_⟩
  · show ((dset nm _ H.indicators).map (·.1)).Nodup
    rw [Writes.keys_dset_of_lookup _ h1]; exact inv.keysNodup
  · show ((dset hi.mgrKey _ H.managers).map (·.1)).Nodup
    rw [Writes.keys_dset_of_lookup _ (h2 ▸ h3)]; exact inv.mgrNodup
  · intro n2 hi2 hn2 hl2
    change dlookup n2 (dset nm _ H.indicators) = some hi2 at hl2
    rw [dlookup_dset] at hl2
    have : ¬ nm = n2 := fun e => hn2 e.symm
    simp only [this, if_false] at hl2
    exact inv.others n2 hi2 hn2 hl2
  · refine ⟨{ hi with active := t'.active }, t'.mgr, ?_, h2, ?_, ?_⟩
    · exact dlookup_dset_self _ _ _
    · change dlookup K (dset hi.mgrKey t'.mgr H.managers) = some t'.mgr
      rw [h2]; exact dlookup_dset_self _ _ _
    · exact ⟨hsim.tree.trans hloc.tree, hsim.active, hsim.cfg, hsim.candles⟩

omit [PyF F] in
theorem Writes.mem_keys_of_lookup {α : Type} {k : String} {v : α} {l : List (String × α)}
    (h : dlookup k l = some v) : k ∈ l.map (·.1) := by
  by_cases hm : k ∈ l.map (·.1)
  · exact hm
  · rw [(Writes.dlookup_none_iff k l).2 hm] at h; cases h

omit [PyF F] in
/-- `forEach sel f` over the registered names against at most one `f` of the twin -/
theorem TwinInv.forEach_fold {nm K : String} (sel : String → Bool) {f : IndState F → PyM (IndState F)}
    (hf : TwinStep N f) :
    ∀ (l : List String) (s : IndState F) (H H' : Hexital F), l.Nodup → TwinInv N nm K s H → TreeOK N s.tree →
      l.foldlM (fun (h : Hexital F) n => if sel n then h.withInd n f else pure h) H = .ok H' →
      (nm ∈ l ∧ sel nm = true → ∃ s', f s = .ok s' ∧ s'.tree = s.tree ∧ TwinInv N nm K s' H') ∧
      (¬ (nm ∈ l ∧ sel nm = true) → TwinInv N nm K s H') := by
  intro l
  induction l with
  | nil =>
    intro s H H' _ inv _ e
    simp [List.foldlM, pure, Except.pure] at e; subst e
    exact ⟨fun h => absurd h.1 (by simp), fun _ => inv⟩
  | cons n r ih =>
    intro s H H' hnd inv hok e
    rw [List.foldlM_cons] at e
    obtain ⟨H1, e1, e2⟩ := Writes.bind_ok e
    have hnd' := List.nodup_cons.1 hnd
    by_cases hs : sel n = true
    · simp only [hs, if_true] at e1
      by_cases hn : n = nm
      · subst hn
        obtain ⟨s', hs', ht', inv'⟩ := inv.withInd_self hok hf e1
        have := (ih s' H1 H' hnd'.2 inv' (ht' ▸ hok) e2).2 (fun h => hnd'.1 h.1)
        exact ⟨fun _ => ⟨s', hs', ht', this⟩, fun h => absurd ⟨List.mem_cons_self, hs⟩ h⟩
      · have inv' := inv.withInd_other n hn f hf.loc e1
        obtain ⟨p1, p2⟩ := ih s H1 H' hnd'.2 inv' hok e2
        refine ⟨fun h => p1 ⟨?_, h.2⟩, fun h => p2 (fun hm => h ⟨List.mem_cons_of_mem _ hm.1, hm.2⟩)⟩
        rcases List.mem_cons.1 h.1 with e | e
        · exact absurd e.symm hn
        · exact e
    · simp only [hs, Bool.false_eq_true, if_false] at e1
      cases e1
      obtain ⟨p1, p2⟩ := ih s H H' hnd'.2 inv hok e2
      refine ⟨fun h => p1 ⟨?_, h.2⟩, fun h => p2 (fun hm => h ⟨List.mem_cons_of_mem _ hm.1, hm.2⟩)⟩
      rcases List.mem_cons.1 h.1 with e | e
      · exact absurd (e ▸ h.2) hs
      · exact e

omit [PyF F] in
/-- a façade operation built from `forEach` with a twinnable step: the twin performs the step iff
the operation is aimed at it (`name = None` or `name = nm`) -/
theorem TwinInv.forEach {nm K : String} {s : IndState F} {H H' : Hexital F} (inv : TwinInv N nm K s H)
    (hok : TreeOK N s.tree) (name : Option String) {f : IndState F → PyM (IndState F)} (hf : TwinStep N f)
    (hop : H.forEach (fun n => name.isNone || name == some n) f = .ok H') :
    ∃ s', (if name.isNone || name == some nm then f s else pure s) = .ok s' ∧ s'.tree = s.tree ∧
      TwinInv N nm K s' H' := by
  unfold Hexital.forEach at hop
  obtain ⟨hi, m, h1, _⟩ := inv.member
  obtain ⟨p1, p2⟩ := TwinInv.forEach_fold (fun n => name.isNone || name == some n) hf _ s H H'
    inv.keysNodup inv hok hop
  by_cases hs : (name.isNone || name == some nm) = true
  · obtain ⟨s', hs', ht', inv'⟩ := p1 ⟨Writes.mem_keys_of_lookup h1, hs⟩
    exact ⟨s', by simp only [hs, if_true]; exact hs', ht', inv'⟩
  · exact ⟨s, by simp only [hs, Bool.false_eq_true, if_false]; rfl, rfl, p2 (fun h => hs h.2)⟩

theorem TwinInv.calculate_all {nm K : String} {s : IndState F} {H H' : Hexital F} (inv : TwinInv N nm K s H)
    (hok : TreeOK N s.tree) (hop : H.calculate none = .ok H') :
    ∃ s', s.calculate = .ok s' ∧ s'.tree = s.tree ∧ TwinInv N nm K s' H' := by
  obtain ⟨s', hs', ht', inv'⟩ := inv.forEach hok none TwinStep.calculate hop
  exact ⟨s', by simpa using hs', ht', inv'⟩

/-- the managers' half of `Hexital.append`: every manager appends the new candles -/
theorem TwinInv.append_fold {nm K : String} (new : List (Candle F)) :
    ∀ (ks : List String) (s : IndState F) (H H' : Hexital F), ks.Nodup → TwinInv N nm K s H →
      ks.foldlM (Hexital.feedOne new) H = .ok H' →
      (K ∈ ks → ∃ m', s.mgr.append new = .ok m' ∧ TwinInv N nm K { s with mgr := m' } H') ∧
      (K ∉ ks → TwinInv N nm K s H') := by
  intro ks
  induction ks with
  | nil =>
    intro s H H' _ inv e
    simp [List.foldlM, pure, Except.pure] at e; subst e
    exact ⟨fun h => absurd h (by simp), fun _ => inv⟩
  | cons k r ih =>
    intro s H H' hnd inv e
    rw [List.foldlM_cons] at e
    obtain ⟨H1, e1, e2⟩ := Writes.bind_ok e
    unfold Hexital.feedOne at e1
    obtain ⟨mk, hmk, e1⟩ := Writes.bind_ok e1
    obtain ⟨mk', hmk', e1⟩ := Writes.bind_ok e1
    cases e1
    have hmk'' := Hexital.manager_eq_ok hmk
    have hnd' := List.nodup_cons.1 hnd
    obtain ⟨hi, m, h1, h2, h3, h4⟩ := inv.member
    have hkeys : ((H.setManager k mk').managers.map (·.1)).Nodup := by
      show ((dset k mk' H.managers).map (·.1)).Nodup
      rw [Writes.keys_dset_of_lookup _ hmk'']; exact inv.mgrNodup
    by_cases hk : k = K
    · subst hk
      rw [h3] at hmk''; cases hmk''
      have hs : Manager.Sim N s.mgr _ := ⟨h4.cfg, h4.candles⟩
      obtain ⟨sm', hsm', hsim⟩ := (Manager.append_sim hs new).ok_right hmk'
      have inv' : TwinInv N nm k { s with mgr := sm' } (H.setManager k mk') :=
        ⟨inv.keysNodup, hkeys, inv.others,
         ⟨hi, mk', h1, h2, dlookup_dset_self _ _ _, ⟨h4.tree, h4.active, hsim.cfg, hsim.candles⟩⟩⟩
      have := (ih _ _ H' hnd'.2 inv' e2).2 hnd'.1
      exact ⟨fun _ => ⟨sm', hsm', this⟩, fun h => absurd (List.mem_cons_self) h⟩
    · have inv' : TwinInv N nm K s (H.setManager k mk') :=
        ⟨inv.keysNodup, hkeys, inv.others,
         ⟨hi, m, h1, h2, by
            show dlookup K (dset k mk' H.managers) = some m
            rw [dlookup_dset]; simp only [hk, if_false]; exact h3, h4⟩⟩
      obtain ⟨p1, p2⟩ := ih s _ H' hnd'.2 inv' e2
      refine ⟨fun h => p1 ?_, fun h => p2 (fun hm => h (List.mem_cons_of_mem _ hm))⟩
      rcases List.mem_cons.1 h with e | e
      · exact absurd e.symm hk
      · exact e

/-- **`Hexital.append(candles)` against `Indicator.append(candles)` of the twin** -/
theorem TwinInv.append {nm K : String} {s : IndState F} {H H' : Hexital F} (inv : TwinInv N nm K s H)
    (hok : TreeOK N s.tree) (new : List (Candle F)) (hop : H.append new = .ok H') :
    ∃ s', s.append new = .ok s' ∧ s'.tree = s.tree ∧ TwinInv N nm K s' H' := by
  unfold Hexital.append at hop
  obtain ⟨H1, e1, e2⟩ := Writes.bind_ok hop
  unfold Hexital.feedManagers Hexital.feedOrder at e1
  dsimp only at e1
  obtain ⟨hi, m, h1, h2, h3, h4⟩ := inv.member
  have hperm : ((H.managers.map (·.1)).drop 1 ++ (H.managers.map (·.1)).take 1).Perm (H.managers.map (·.1)) := by
    have h := (List.perm_append_comm :
      ((H.managers.map (·.1)).drop 1 ++ (H.managers.map (·.1)).take 1).Perm
        ((H.managers.map (·.1)).take 1 ++ (H.managers.map (·.1)).drop 1))
    rwa [List.take_append_drop] at h
  have hnd := hperm.nodup_iff.2 inv.mgrNodup
  have hmem : K ∈ (H.managers.map (·.1)).drop 1 ++ (H.managers.map (·.1)).take 1 :=
    hperm.mem_iff.2 (Writes.mem_keys_of_lookup h3)
  obtain ⟨m', hm', inv1⟩ := (TwinInv.append_fold new _ s H H1 hnd inv e1).1 hmem
  obtain ⟨s', hs', ht', inv2⟩ := inv1.calculate_all hok e2
  refine ⟨s', ?_, ht', inv2⟩
  unfold IndState.append
  rw [hm']
  exact hs'

/-! ### construction -/

omit [PyF F] in
theorem Writes.nodup_keys_dset {α : Type} (k : String) (v : α) (l : List (String × α))
    (h : (l.map (·.1)).Nodup) : ((dset k v l).map (·.1)).Nodup := by
  cases hl : dlookup k l with
  | some w => rw [Writes.keys_dset_of_lookup v hl]; exact h
  | none =>
    have hk : k ∉ l.map (·.1) := (Writes.dlookup_none_iff k l).1 hl
    have : (dset k v l).map (·.1) = l.map (·.1) ++ [k] := by
      clear h hl
      induction l with
      | nil => rfl
      | cons p r ih =>
        obtain ⟨k', w⟩ := p
        have hne : k' ≠ k := fun e => hk (by simp [e])
        have hk' : k ∉ r.map (·.1) := fun hm => hk (by simp [hm])
        rw [Writes.dset_cons_ne hne]
        simp only [List.map_cons, List.cons_append, ih hk']
    rw [this]
    refine List.nodup_append.2 ⟨h, by simp, ?_⟩
    intro a ha b hb
    simp only [List.mem_singleton] at hb
    subst hb
    exact fun e => hk (e ▸ ha)

/-- the manager a member with own timeframe `atf` / `secs` is attached to by the constructor, given the
candles `cs` as handed to the constructor (`source_candles`) and the default manager `dm`: the default manager
when the member's key is "default" (no timeframe), else a manager with the member's timeframe built from `cs` –
the manager of the standalone twin -/
def IsMemberMgr (cfg : MgrCfg) (atf : Option String) (secs : Option Int) (cs : List (Candle F))
    (dm m : Manager F) : Prop :=
  (atf.getD defaultKey = defaultKey ∧ m = dm) ∨
  (atf.getD defaultKey ≠ defaultKey ∧ Manager.init { cfg with tf := secs } cs = .ok m)

/-- what `_validate_indicators` maintains while the constructor attaches members: `dm` is the default manager;
the manager under the member's key `K`, once it exists, is the one `IsMemberMgr` describes -/
structure AttachInv (N : List String) (nm : String) (tree : Ind F) (dm : Manager F)
    (cfg : MgrCfg) (atf : Option String) (secs : Option Int) (cs : List (Candle F)) (H : Hexital F) : Prop where
  hcfg : H.cfg = cfg
  keysNodup : (H.indicators.map (·.1)).Nodup
  mgrNodup : (H.managers.map (·.1)).Nodup
  others : ∀ n hi, n ≠ nm → dlookup n H.indicators = some hi → ∀ k, k ∈ hi.tree.allNames → k ∈ N
  default : dlookup defaultKey H.managers = some dm
  kmgr : ∀ m, dlookup (atf.getD defaultKey) H.managers = some m → IsMemberMgr cfg atf secs cs dm m
  self : ∀ hi, dlookup nm H.indicators = some hi →
    hi.tree = tree ∧ hi.mgrKey = atf.getD defaultKey ∧ hi.active = 0 ∧
    ∃ m, dlookup (atf.getD defaultKey) H.managers = some m

/-- the members handed to the constructor, seen from the member `nm` (tree `tree`, own timeframe
`atf` / `secs`): entries under the name `nm` are that member; the others write under `N`; members
sharing the timeframe name share the timeframe -/
structure MembersOK (N : List String) (nm : String) (tree : Ind F) (atf : Option String) (secs : Option Int)
    (ms : List (Member F)) : Prop where
  self : ∀ m, m ∈ ms → m.tree.name = nm → m.tree = tree ∧ m.tfName = atf
  others : ∀ m, m ∈ ms → m.tree.name ≠ nm → ∀ k, k ∈ m.tree.allNames → k ∈ N
  secs : ∀ m, m ∈ ms → m.tfName = atf → atf.getD defaultKey ≠ defaultKey → m.tfSecs = secs

omit [PyF F] in
theorem Writes.getD_eq_of_ne {atf : Option String} {tf : String} (h : atf.getD defaultKey = tf) (hne : tf ≠ defaultKey) :
    atf = some tf := by
  cases atf with
  | none => exact absurd h.symm hne
  | some x => simp at h; rw [h]

theorem AttachInv.attach {nm : String} {tree : Ind F} {dm : Manager F} {cfg : MgrCfg}
    {atf : Option String} {secs : Option Int} {cs : List (Candle F)} {H H' : Hexital F}
    (inv : AttachInv N nm tree dm cfg atf secs cs H) (m : Member F)
    (hself : m.tree.name = nm → m.tree = tree ∧ m.tfName = atf)
    (hoth : m.tree.name ≠ nm → ∀ k, k ∈ m.tree.allNames → k ∈ N)
    (hsecs : m.tfName = atf → atf.getD defaultKey ≠ defaultKey → m.tfSecs = secs)
    (ha : H.attachFrom (some cs) m = .ok H') :
    AttachInv N nm tree dm cfg atf secs cs H' ∧ m.tree.name ∈ H'.indicators.map (·.1) := by
  have key : ∀ (k : String) (ms : List (String × Manager F)), (ms.map (·.1)).Nodup →
      dlookup defaultKey ms = some dm →
      (∀ mm, dlookup (atf.getD defaultKey) ms = some mm → IsMemberMgr cfg atf secs cs dm mm) →
      (∀ mm, dlookup (atf.getD defaultKey) H.managers = some mm → dlookup (atf.getD defaultKey) ms = some mm) →
      (m.tree.name = nm → k = atf.getD defaultKey ∧ ∃ mm, dlookup (atf.getD defaultKey) ms = some mm) →
      AttachInv N nm tree dm cfg atf secs cs
        (⟨H.cfg, H.tfName, ms, dset m.tree.name ⟨m.tree, k, 0⟩ H.indicators⟩ : Hexital F) ∧
      m.tree.name ∈ (dset m.tree.name (⟨m.tree, k, 0⟩ : HxInd F) H.indicators).map (·.1) := by
    intro k ms hms hdef hkm2 hpres hk
    refine ⟨⟨inv.hcfg, Writes.nodup_keys_dset _ _ _ inv.keysNodup, hms, ?_, hdef, hkm2, ?_⟩,
      Writes.mem_keys_of_lookup (dlookup_dset_self _ _ _)⟩
    · intro n hi hn hl
      dsimp only at hl
      rw [dlookup_dset] at hl
      by_cases e : m.tree.name = n
      · simp only [e, if_true] at hl; cases hl
        exact hoth (e ▸ hn)
      · simp only [e, if_false] at hl
        exact inv.others n hi hn hl
    · intro hi hl
      dsimp only at hl ⊢
      rw [dlookup_dset] at hl
      by_cases e : m.tree.name = nm
      · simp only [e, if_true] at hl; cases hl
        exact ⟨(hself e).1, (hk e).1, rfl, (hk e).2⟩
      · simp only [e, if_false] at hl
        obtain ⟨q1, q2, q3, mm, q4⟩ := inv.self hi hl
        exact ⟨q1, q2, q3, mm, hpres mm q4⟩
  unfold Hexital.attachFrom at ha
  split at ha
  · -- no timeframe of its own: the default manager
    rename_i htfn
    cases ha
    refine key _ _ inv.mgrNodup inv.default inv.kmgr (fun _ h => h) (fun e => ?_)
    have hatf : atf = none := by rw [← (hself e).2]; exact htfn
    have hKd : atf.getD defaultKey = defaultKey := by rw [hatf]; rfl
    exact ⟨hKd.symm, dm, by rw [hKd]; exact inv.default⟩
  · rename_i tf htf'
    split at ha
    · -- a manager for this timeframe exists already
      rename_i hdh
      cases ha
      refine key _ _ inv.mgrNodup inv.default inv.kmgr (fun _ h => h) (fun e => ?_)
      have hatf : atf = some tf := by rw [← (hself e).2]; exact htf'
      have hKt : atf.getD defaultKey = tf := by rw [hatf]; rfl
      refine ⟨hKt.symm, ?_⟩
      cases hq : dlookup (atf.getD defaultKey) H.managers with
      | some mm => exact ⟨mm, rfl⟩
      | none => rw [hKt] at hq; simp [dhas, hq] at hdh
    · -- a new manager is created from the candles as given to the constructor
      rename_i hdh
      obtain ⟨raw, hraw, ha⟩ := Writes.bind_ok ha
      obtain ⟨nmgr, hnm, ha⟩ := Writes.bind_ok ha
      cases ha
      have hraw' : (Except.ok cs : PyM (List (Candle F))) = .ok raw := hraw
      cases hraw'
      have htfne : ¬ tf = defaultKey := by
        intro e; apply hdh; rw [e]; simp [dhas, inv.default]
      have hnew : tf = atf.getD defaultKey → IsMemberMgr cfg atf secs cs dm nmgr := by
        intro e
        have hKne : atf.getD defaultKey ≠ defaultKey := e ▸ htfne
        have hatf : atf = some tf := Writes.getD_eq_of_ne e.symm htfne
        have hs := hsecs (htf'.trans hatf.symm) hKne
        have : Manager.init { H.cfg with tf := m.tfSecs } cs = .ok nmgr := hnm
        rw [inv.hcfg, hs] at this
        exact Or.inr ⟨hKne, this⟩
      refine key _ _ (Writes.nodup_keys_dset _ _ _ inv.mgrNodup) ?_ ?_ ?_ ?_
      · rw [dlookup_dset]; simp only [htfne, if_false]; exact inv.default
      · intro mm hl
        rw [dlookup_dset] at hl
        by_cases e : tf = atf.getD defaultKey
        · simp only [e, if_true] at hl; cases hl; exact hnew e
        · simp only [e, if_false] at hl; exact inv.kmgr mm hl
      · intro mm hq
        rw [dlookup_dset]
        have : ¬ tf = atf.getD defaultKey := by
          intro e; apply hdh; rw [e]; simp [dhas, hq]
        simp only [this, if_false]; exact hq
      · intro e
        have hatf : atf = some tf := by rw [← (hself e).2]; exact htf'
        have hKt : atf.getD defaultKey = tf := by rw [hatf]; rfl
        refine ⟨hKt.symm, nmgr, ?_⟩
        rw [dlookup_dset]
        simp only [hKt, if_true]

theorem AttachInv.fold {nm : String} {tree : Ind F} {dm : Manager F} {cfg : MgrCfg}
    {atf : Option String} {secs : Option Int} {cs : List (Candle F)} :
    ∀ (ms : List (Member F)) (H H' : Hexital F), AttachInv N nm tree dm cfg atf secs cs H →
      MembersOK N nm tree atf secs ms → ms.foldlM (Hexital.attachFrom (some cs)) H = .ok H' →
      AttachInv N nm tree dm cfg atf secs cs H' ∧
      ((nm ∈ H.indicators.map (·.1) ∨ ∃ m, m ∈ ms ∧ m.tree.name = nm) → nm ∈ H'.indicators.map (·.1)) := by
  intro ms
  induction ms with
  | nil =>
    intro H H' inv _ e
    simp [List.foldlM, pure, Except.pure] at e; subst e
    exact ⟨inv, fun h => h.elim id (fun ⟨m, hm, _⟩ => absurd hm (by simp))⟩
  | cons m r ih =>
    intro H H' inv hok e
    rw [List.foldlM_cons] at e
    obtain ⟨H1, e1, e2⟩ := Writes.bind_ok e
    obtain ⟨inv1, hreg⟩ := inv.attach m (hok.self m (by simp)) (hok.others m (by simp))
      (hok.secs m (by simp)) e1
    have hok' : MembersOK N nm tree atf secs r :=
      ⟨fun m' hm' => hok.self m' (List.mem_cons_of_mem _ hm'),
       fun m' hm' => hok.others m' (List.mem_cons_of_mem _ hm'),
       fun m' hm' => hok.secs m' (List.mem_cons_of_mem _ hm')⟩
    obtain ⟨inv2, hreg2⟩ := ih H1 H' inv1 hok' e2
    refine ⟨inv2, fun h => hreg2 ?_⟩
    have hkeep : nm ∈ H.indicators.map (·.1) → nm ∈ H1.indicators.map (·.1) := by
      intro hm
      -- attaching only adds or overwrites keys
      unfold Hexital.attachFrom at e1
      have keep : ∀ (k : String) (v : HxInd F), nm ∈ (dset k v H.indicators).map (·.1) := by
        intro k v
        cases hq : dlookup nm (dset k v H.indicators) with
        | some w => exact Writes.mem_keys_of_lookup hq
        | none =>
          rw [dlookup_dset] at hq
          by_cases e : k = nm
          · simp [e] at hq
          · simp only [e, if_false] at hq
            exact absurd hm ((Writes.dlookup_none_iff nm _).1 hq)
      split at e1
      · cases e1; exact keep _ _
      · split at e1
        · cases e1; exact keep _ _
        · obtain ⟨dm', _, e1⟩ := Writes.bind_ok e1
          obtain ⟨nmgr, _, e1⟩ := Writes.bind_ok e1
          cases e1; exact keep _ _
    rcases h with h | ⟨m', hm', hn'⟩
    · exact Or.inl (hkeep h)
    · rcases List.mem_cons.1 hm' with e | e
      · subst e; exact Or.inl (hn' ▸ hreg)
      · exact Or.inr ⟨m', e, hn'⟩

/-- the manager a member with own timeframe `atf` / `secs` ends up on when the Hexital is constructed
(`cfg`) from `cs`: the default manager, or – the member's key being new – a manager with the member's
timeframe over the candles as given to the constructor, i.e. THE MANAGER OF THE STANDALONE TWIN -/
def twinManager (cfg : MgrCfg) (atf : Option String) (secs : Option Int) (cs : List (Candle F)) :
    PyM (Manager F) :=
  if atf.getD defaultKey = defaultKey then Manager.init cfg cs
  else Manager.init { cfg with tf := secs } cs

/-- **Construction**: `Hexital(candles, indicators=[…])` against the twin over `twinManager` -/
theorem TwinInv.init (cfg : MgrCfg) (htf : Option String) (cs : List (Candle F)) (members : List (Member F))
    (nm : String) (tree : Ind F) (atf : Option String) (secs : Option Int)
    (hok : MembersOK N nm tree atf secs (Hexital.dedupe members))
    (hmem : ∃ m, m ∈ Hexital.dedupe members ∧ m.tree.name = nm) (H : Hexital F)
    (hinit : Hexital.init cfg htf cs members = .ok H) :
    ∃ km, twinManager cfg atf secs cs = .ok km ∧
      TwinInv N nm (atf.getD defaultKey) ({ tree := tree, mgr := km } : IndState F) H := by
  unfold Hexital.init at hinit
  obtain ⟨dm, hdm, hfold⟩ := Writes.bind_ok hinit
  have inv0 : AttachInv N nm tree dm cfg atf secs cs
      ({ cfg := cfg, tfName := htf, managers := [(defaultKey, dm)], indicators := [] } : Hexital F) :=
    ⟨rfl, by simp, by simp, fun n hi _ hl => by simp at hl, by simp [dlookup],
     fun m hl => (by
       simp only [dlookup] at hl
       split at hl
       · rename_i e; cases hl; exact Or.inl ⟨e.symm, rfl⟩
       · cases hl),
     fun hi hl => by simp at hl⟩
  obtain ⟨inv, hreg⟩ := AttachInv.fold _ _ H inv0 hok hfold
  have hnm := hreg (Or.inr hmem)
  cases hl : dlookup nm H.indicators with
  | none => exact absurd hnm ((Writes.dlookup_none_iff nm _).1 hl)
  | some hi =>
    obtain ⟨h1, h2, h3, km, h4⟩ := inv.self hi hl
    refine ⟨km, ?_, inv.keysNodup, inv.mgrNodup, inv.others,
      ⟨hi, km, hl, h2, h4, ⟨h1.symm, h3.symm, rfl, StripEq.refl _ _⟩⟩⟩
    unfold twinManager
    rcases inv.kmgr km h4 with ⟨e1, e2⟩ | ⟨e1, e2⟩
    · subst e2; rw [if_pos e1]; exact hdm
    · rw [if_neg e1]; exact e2

/-! ### `add_indicator` / `remove_indicator` aimed at other members -/

/-- attaching ANOTHER member (different name, names within `N`) keeps the twin in step -/
theorem TwinInv.attachFrom_other {nm K : String} {s : IndState F} {H H' : Hexital F} (inv : TwinInv N nm K s H)
    (src : Option (List (Candle F))) (m : Member F) (hn : m.tree.name ≠ nm) (hN : ∀ k, k ∈ m.tree.allNames → k ∈ N)
    (ha : H.attachFrom src m = .ok H') : TwinInv N nm K s H' := by
  obtain ⟨hi, dm, h1, h2, h3, h4⟩ := inv.member
  have key : ∀ (k : String) (ms : List (String × Manager F)), (ms.map (·.1)).Nodup →
      dlookup K ms = some dm →
      TwinInv N nm K s (⟨H.cfg, H.tfName, ms, dset m.tree.name ⟨m.tree, k, 0⟩ H.indicators⟩ : Hexital F) := by
    intro k ms hms hdef
    refine ⟨Writes.nodup_keys_dset _ _ _ inv.keysNodup, hms, ?_, ⟨hi, dm, ?_, h2, hdef, h4⟩⟩
    · intro n hi2 hn2 hl
      dsimp only at hl
      rw [dlookup_dset] at hl
      by_cases e : m.tree.name = n
      · simp only [e, if_true] at hl; cases hl; exact hN
      · simp only [e, if_false] at hl
        exact inv.others n hi2 hn2 hl
    · show dlookup nm (dset m.tree.name _ H.indicators) = some hi
      rw [dlookup_dset]; simp only [hn, if_false]; exact h1
  unfold Hexital.attachFrom at ha
  split at ha
  · cases ha; exact key _ _ inv.mgrNodup h3
  · rename_i tf htf
    split at ha
    · cases ha; exact key _ _ inv.mgrNodup h3
    · rename_i hdh
      obtain ⟨raw, _, ha⟩ := Writes.bind_ok ha
      obtain ⟨nmgr, _, ha⟩ := Writes.bind_ok ha
      cases ha
      have htfne : ¬ tf = K := by
        intro e; apply hdh; rw [e]; simp [dhas, h3]
      refine key _ _ (Writes.nodup_keys_dset _ _ _ inv.mgrNodup) ?_
      rw [dlookup_dset]; simp only [htfne, if_false]; exact h3

/-- … through `add_indicator` -/
theorem TwinInv.attach_other {nm K : String} {s : IndState F} {H H' : Hexital F} (inv : TwinInv N nm K s H)
    (m : Member F) (hn : m.tree.name ≠ nm) (hN : ∀ k, k ∈ m.tree.allNames → k ∈ N)
    (ha : H.attach m = .ok H') : TwinInv N nm K s H' :=
  inv.attachFrom_other none m hn hN ha

theorem TwinInv.addIndicators {nm K : String} {s : IndState F} {H H' : Hexital F} (inv : TwinInv N nm K s H)
    (ms : List (Member F))
    (hms : ∀ m, m ∈ Hexital.dedupe ms → m.tree.name ≠ nm ∧ ∀ k, k ∈ m.tree.allNames → k ∈ N)
    (hop : H.addIndicators ms = .ok H') : TwinInv N nm K s H' := by
  unfold Hexital.addIndicators at hop
  generalize Hexital.dedupe ms = l at hms hop
  induction l generalizing H with
  | nil => simp [List.foldlM, pure, Except.pure] at hop; subst hop; exact inv
  | cons m r ih =>
    rw [List.foldlM_cons] at hop
    obtain ⟨H1, e1, e2⟩ := Writes.bind_ok hop
    exact ih (inv.attach_other m (hms m (by simp)).1 (hms m (by simp)).2 e1)
      (fun m' hm' => hms m' (List.mem_cons_of_mem _ hm')) e2

omit [PyF F] in
/-- dropping the registration of ANOTHER member -/
theorem TwinInv.erase_other {nm K : String} {s : IndState F} {H : Hexital F} (inv : TwinInv N nm K s H)
    (b : String) (hb : b ≠ nm) : TwinInv N nm K s { H with indicators := derase b H.indicators } := by
  obtain ⟨hi, dm, h1, h2, h3, h4⟩ := inv.member
  refine ⟨?_, inv.mgrNodup, ?_, ⟨hi, dm, ?_, h2, h3, h4⟩⟩
  · show ((derase b H.indicators).map (·.1)).Nodup
    rw [Writes.derase_eq_filter]
    exact inv.keysNodup.sublist ((List.filter_sublist).map _)
  · intro n hi2 hn2 hl
    change dlookup n (derase b H.indicators) = some hi2 at hl
    rw [dlookup_derase] at hl
    by_cases e : b = n
    · simp [e] at hl
    · simp only [e, if_false] at hl
      exact inv.others n hi2 hn2 hl
  · show dlookup nm (derase b H.indicators) = some hi
    rw [dlookup_derase]; simp only [hb, if_false]; exact h1

/-! ### programs of façade operations -/

/-- the façade operations a Hexital is driven with after construction -/
inductive TwinOp (F : Type)
  | calculate (name : Option String)
  | calculateIndex (name : Option String) (index : Int)
  | purge (name : Option String)
  | recalculate (name : Option String)
  | append (new : List (Candle F))
  | add (members : List (Member F))
  | remove (name : Option String)

def TwinOp.runHex (h : Hexital F) : TwinOp F → PyM (Hexital F)
  | .calculate n => h.calculate n
  | .calculateIndex n i => h.calculateIndex n i
  | .purge n => h.purge n
  | .recalculate n => h.recalculate n
  | .append new => h.append new
  | .add ms => h.addIndicators ms
  | .remove n => h.removeIndicator n

/-- what the standalone twin of member `nm` does meanwhile: the same operation when it is aimed at
everything (`None`) or at `nm`, nothing when it is aimed at another member; every append; nothing
when other members are added or removed (`remove_indicator(None)` only purges) -/
def TwinOp.runInd (nm : String) (s : IndState F) : TwinOp F → PyM (IndState F)
  | .calculate n => if n.isNone || n == some nm then s.calculate else pure s
  | .calculateIndex n i => if n.isNone || n == some nm then s.calculateIndex i none else pure s
  | .purge n => if n.isNone || n == some nm then pure s.purge else pure s
  | .recalculate n => if n.isNone || n == some nm then s.recalculate else pure s
  | .append new => s.append new
  | .add _ => pure s
  | .remove n => if n.isNone || n == some nm then pure s.purge else pure s

/-- side conditions of the operations that change the member set: added members have other names and
write under `N` only; the member `nm` itself is not removed -/
def TwinOp.OK (N : List String) (nm : String) : TwinOp F → Prop
  | .add ms => ∀ m, m ∈ Hexital.dedupe ms → m.tree.name ≠ nm ∧ ∀ k, k ∈ m.tree.allNames → k ∈ N
  | .remove (some b) => b ≠ nm
  | _ => True

theorem TwinInv.step {nm K : String} {s : IndState F} {H H' : Hexital F} (inv : TwinInv N nm K s H)
    (hok : TreeOK N s.tree) (op : TwinOp F) (hopok : op.OK N nm) (hop : op.runHex H = .ok H') :
    ∃ s', op.runInd nm s = .ok s' ∧ s'.tree = s.tree ∧ TwinInv N nm K s' H' := by
  cases op with
  | add ms => exact ⟨s, rfl, rfl, inv.addIndicators ms hopok hop⟩
  | remove n =>
    unfold TwinOp.runHex Hexital.removeIndicator at hop
    obtain ⟨H1, e1, e2⟩ := Writes.bind_ok hop
    obtain ⟨s1, hs1, ht1, inv1⟩ := inv.forEach hok n TwinStep.purge e1
    cases n with
    | none => cases e2; exact ⟨s1, hs1, ht1, inv1⟩
    | some b =>
      cases e2
      exact ⟨s1, hs1, ht1, inv1.erase_other b hopok⟩
  | calculate n => exact inv.forEach hok n TwinStep.calculate hop
  | calculateIndex n i => exact inv.forEach hok n (TwinStep.calculateIndex i none) hop
  | purge n => exact inv.forEach hok n TwinStep.purge hop
  | append new => exact inv.append hok new hop
  | recalculate n =>
    unfold TwinOp.runHex Hexital.recalculate at hop
    obtain ⟨H1, e1, e2⟩ := Writes.bind_ok hop
    obtain ⟨s1, hs1, ht1, inv1⟩ := inv.forEach hok n TwinStep.purge e1
    obtain ⟨s2, hs2, ht2, inv2⟩ := inv1.forEach (ht1 ▸ hok) n TwinStep.calculate e2
    refine ⟨s2, ?_, ht2.trans ht1, inv2⟩
    unfold TwinOp.runInd
    by_cases hs : (n.isNone || n == some nm) = true
    · simp only [hs, if_true] at hs1 hs2 ⊢
      cases hs1
      exact hs2
    · simp only [hs, Bool.false_eq_true, if_false] at hs1 hs2 ⊢
      cases hs1
      exact hs2

theorem TwinInv.program {nm K : String} :
    ∀ (ops : List (TwinOp F)) (s : IndState F) (H H' : Hexital F), TwinInv N nm K s H → TreeOK N s.tree →
      (∀ op, op ∈ ops → op.OK N nm) → ops.foldlM TwinOp.runHex H = .ok H' →
      ∃ s', ops.foldlM (TwinOp.runInd nm) s = .ok s' ∧ s'.tree = s.tree ∧ TwinInv N nm K s' H' := by
  intro ops
  induction ops with
  | nil =>
    intro s H H' inv _ _ e
    simp [List.foldlM, pure, Except.pure] at e; subst e
    exact ⟨s, rfl, rfl, inv⟩
  | cons op r ih =>
    intro s H H' inv hok hops e
    rw [List.foldlM_cons] at e
    obtain ⟨H1, e1, e2⟩ := Writes.bind_ok e
    obtain ⟨s1, hs1, ht1, inv1⟩ := inv.step hok op (hops op (by simp)) e1
    obtain ⟨s2, hs2, ht2, inv2⟩ := ih s1 H1 H' inv1 (ht1 ▸ hok)
      (fun op' h' => hops op' (List.mem_cons_of_mem _ h')) e2
    refine ⟨s2, ?_, ht2.trans ht1, inv2⟩
    rw [List.foldlM_cons, hs1]
    exact hs2

/-! ### what the invariant says about the observable state -/

omit [PyF F] in
/-- the member's manager and the twin's hold the same candles once the others' entries are dropped -/
theorem TwinInv.observe {nm K : String} {s : IndState F} {H : Hexital F} (inv : TwinInv N nm K s H) :
    ∃ hi m, dlookup nm H.indicators = some hi ∧ hi.tree = s.tree ∧ dlookup hi.mgrKey H.managers = some m ∧
      m.cfg = s.mgr.cfg ∧ StripEq N s.mgr.candles m.candles := by
  obtain ⟨hi, m, h1, h2, h3, h4⟩ := inv.member
  exact ⟨hi, m, h1, h4.tree.symm, h2 ▸ h3, h4.cfg.symm, h4.candles⟩

/-- `reading_as_list(name)` of the Hexital is the twin's `as_list(name)` for every name of the
member that cannot resolve to another member's key -/
theorem TwinInv.column {nm K : String} {s : IndState F} {H : Hexital F} (inv : TwinInv N nm K s H)
    (name : String) (hprim : (splitDot name).headD "" = nm) (hr : readOK N name = true) :
    H.readingAsList name = .ok (s.asList (some name)) := by
  obtain ⟨hi, m, h1, h2, h3, h4⟩ := inv.member
  unfold Hexital.readingAsList Hexital.manager IndState.asList
  dsimp only
  rw [hprim, h1]
  dsimp only
  rw [h2, h3]
  show Except.ok (m.candles.map fun c => readingByCandle c name) = _
  congr 1
  have hc := h4.candles
  unfold StripEq at hc
  have e := congrArg (List.map (fun c => readingByCandle c name)) hc
  rw [map_readingByCandle_strip hr, map_readingByCandle_strip hr] at e
  exact e.symm

/-- the reading entries stored under key `k`, top-level and helper, candle by candle -/
def storedUnder (k : String) (cs : List (Candle F)) : List (Option (Val F) × Option (Val F)) :=
  cs.map fun c => (dlookup k c.inds, dlookup k c.subs)

omit [PyF F] in
theorem AgreeOff.storedUnder_eq {cs cs' : List (Candle F)} (h : AgreeOff N cs cs') {k : String} (hk : k ∉ N) :
    storedUnder k cs = storedUnder k cs' :=
  h.map_eq _ (fun a b hab => by rw [hab.einds k hk, hab.esubs k hk])

omit [PyF F] in
/-- the member's manager holds the same collapsed candles (OHLCV, timestamps, conversion state) and,
under every name of the member's tree, the same readings as the twin -/
theorem TwinInv.readings {nm K : String} {s : IndState F} {H : Hexital F} (inv : TwinInv N nm K s H)
    (hok : TreeOK N s.tree) :
    ∃ hi m, dlookup nm H.indicators = some hi ∧ hi.tree = s.tree ∧ dlookup hi.mgrKey H.managers = some m ∧
      m.cfg = s.mgr.cfg ∧ m.candles.map Candle.core = s.mgr.candles.map Candle.core ∧
      ∀ k, k ∈ s.tree.allNames → storedUnder k m.candles = storedUnder k s.mgr.candles := by
  obtain ⟨hi, m, h1, h2, h3, h4, h5⟩ := inv.observe
  exact ⟨hi, m, h1, h2, h3, h4, h5.agreeOff.core_eq,
    fun k hk => (h5.agreeOff.storedUnder_eq (hok.names k hk)).symm⟩

/-! ### `valid_indicators`: one entry per name -/

omit [PyF F] in
theorem Writes.dlookup_of_mem_nodup {α : Type} {k : String} {v : α} :
    ∀ {l : List (String × α)}, (l.map (·.1)).Nodup → (k, v) ∈ l → dlookup k l = some v := by
  intro l
  induction l with
  | nil => intro _ h; simp at h
  | cons p r ih =>
    intro hnd hm
    obtain ⟨k', w⟩ := p
    have hnd' : k' ∉ r.map (·.1) ∧ (r.map (·.1)).Nodup := List.nodup_cons.1 hnd
    rcases List.mem_cons.1 hm with e | e
    · cases e; simp [dlookup]
    · have hk : k ∈ r.map (·.1) := List.mem_map.2 ⟨(k, v), e, rfl⟩
      have hne : k' ≠ k := fun e' => hnd'.1 (e' ▸ hk)
      simp only [dlookup, hne, if_false]
      exact ih hnd'.2 e

omit [PyF F] in
theorem Writes.mem_dset {α : Type} {k k' : String} {v v' : α} {l : List (String × α)}
    (h : (k', v') ∈ dset k v l) : (k', v') = (k, v) ∨ (k', v') ∈ l := by
  induction l with
  | nil => simp [dset] at h; exact Or.inl (by simp [h])
  | cons p r ih =>
    obtain ⟨k2, w⟩ := p
    by_cases e : k2 = k
    · subst e
      rw [Writes.dset_cons_eq] at h
      rcases List.mem_cons.1 h with h | h
      · exact Or.inl h
      · exact Or.inr (List.mem_cons_of_mem _ h)
    · rw [Writes.dset_cons_ne e] at h
      rcases List.mem_cons.1 h with h | h
      · exact Or.inr (by simp [h])
      · rcases ih h with h | h
        · exact Or.inl h
        · exact Or.inr (List.mem_cons_of_mem _ h)

omit [PyF F] in
/-- in `valid_indicators` no two members share a name -/
theorem Hexital.dedupe_unique (members : List (Member F)) (m m' : Member F)
    (hm : m ∈ Hexital.dedupe members) (hm' : m' ∈ Hexital.dedupe members)
    (hn : m.tree.name = m'.tree.name) : m = m' := by
  unfold Hexital.dedupe at hm hm'
  have key : ∀ (ms : List (Member F)) (acc : List (String × Member F)),
      ((acc.map (·.1)).Nodup ∧ ∀ p, p ∈ acc → p.2.tree.name = p.1) →
      (((ms.foldl (fun acc m => dset m.tree.name m acc) acc).map (·.1)).Nodup ∧
        ∀ p, p ∈ ms.foldl (fun acc m => dset m.tree.name m acc) acc → p.2.tree.name = p.1) := by
    intro ms
    induction ms with
    | nil => intro acc h; exact h
    | cons x r ih =>
      intro acc h
      rw [List.foldl_cons]
      refine ih _ ⟨Writes.nodup_keys_dset _ _ _ h.1, fun p hp => ?_⟩
      obtain ⟨k, v⟩ := p
      rcases Writes.mem_dset hp with e | e
      · cases e; rfl
      · exact h.2 _ e
  obtain ⟨hnd, hkeys⟩ := key members [] ⟨by simp, fun p hp => by simp at hp⟩
  obtain ⟨⟨k, x⟩, hp, rfl⟩ := List.mem_map.1 hm
  obtain ⟨⟨k', x'⟩, hp', rfl⟩ := List.mem_map.1 hm'
  have e1 := hkeys _ hp
  have e2 := hkeys _ hp'
  simp only at e1 e2 hn
  have hk : k = k' := by rw [← e1, ← e2, hn]
  subst hk
  have l1 := Writes.dlookup_of_mem_nodup hnd hp
  have l2 := Writes.dlookup_of_mem_nodup hnd hp'
  rw [l1] at l2
  cases l2; rfl

/-- the twin of a member handed to the constructor: a standalone indicator with the member's tree over the
manager the member is attached to when the Hexital is constructed (`twinManager`) – with the member's own
timeframe, if it has one, and built from the candles as given to the constructor -/
def twinInit (a : Member F) (cfg : MgrCfg) (init : List (Candle F)) : PyM (IndState F) := do
  let km ← twinManager cfg a.tfName a.tfSecs init
  pure { tree := a.tree, mgr := km }

/-- for a member without its own timeframe the twin is the plain standalone indicator -/
theorem twinInit_of_none (a : Member F) (hatf : a.tfName = none) (cfg : MgrCfg)
    (init : List (Candle F)) : twinInit a cfg init = IndState.init a.tree cfg init := by
  unfold twinInit twinManager IndState.init
  rw [hatf]
  rfl

/-- for a member WITH its own timeframe (whose name is not the manager key "default") the twin is the plain
standalone indicator with that timeframe -/
theorem twinInit_of_key (a : Member F) (hkey : a.tfName.getD defaultKey ≠ defaultKey) (cfg : MgrCfg)
    (init : List (Candle F)) : twinInit a cfg init = IndState.init a.tree { cfg with tf := a.tfSecs } init := by
  unfold twinInit twinManager IndState.init
  rw [if_neg hkey]

/-- construct a Hexital and drive it with a program -/
def runHexital (cfg : MgrCfg) (tf : Option String) (init : List (Candle F)) (members : List (Member F))
    (ops : List (TwinOp F)) : PyM (Hexital F) := do
  let h ← Hexital.init cfg tf init members
  ops.foldlM TwinOp.runHex h

/-- construct the twin of a member and drive it with the same program (`_tf`, the Hexital-level timeframe as
written, plays no part any more: the twin's manager is built from the candles as given) -/
def runTwin (a : Member F) (cfg : MgrCfg) (_tf : Option String) (init : List (Candle F)) (ops : List (TwinOp F)) :
    PyM (IndState F) := do
  let s ← twinInit a cfg init
  ops.foldlM (TwinOp.runInd a.tree.name) s

/-- **A member is in step with its twin.**  Build a Hexital from any members and drive it with any
program of façade operations; for a member `a` whose tree neither writes under nor can read the names
`N` of the other members: the twin – a standalone indicator with `a`'s tree over the manager `a` is
attached to (`twinManager`: for a member with its own timeframe that is `Manager.init {cfg with tf} init`, the
manager of the plain standalone indicator, see `twinInit_of_key`), driven with the same program (operations aimed at other members skipped) – succeeds too,
and `TwinInv` holds at the end.  The program may add further members (other names, writing under `N`)
and remove other members.  (`hsecs`: members sharing `a`'s timeframe name share its timeframe –
vacuous for a member without a timeframe.) -/
theorem member_twin (cfg : MgrCfg) (tf : Option String) (init : List (Candle F)) (members : List (Member F))
    (a : Member F) (ops : List (TwinOp F)) (H : Hexital F)
    (ha : a ∈ Hexital.dedupe members)
    (hsecs : ∀ m, m ∈ Hexital.dedupe members → m.tfName = a.tfName →
      a.tfName.getD defaultKey ≠ defaultKey → m.tfSecs = a.tfSecs)
    (hoth : ∀ m, m ∈ Hexital.dedupe members → m.tree.name ≠ a.tree.name → ∀ k, k ∈ m.tree.allNames → k ∈ N)
    (hok : TreeOK N a.tree) (hops : ∀ op, op ∈ ops → op.OK N a.tree.name)
    (hrun : runHexital cfg tf init members ops = .ok H) :
    ∃ twin, runTwin a cfg tf init ops = .ok twin ∧
      twin.tree = a.tree ∧ TwinInv N a.tree.name (a.tfName.getD defaultKey) twin H := by
  unfold runHexital at hrun
  obtain ⟨H0, h0, hfold⟩ := Writes.bind_ok hrun
  have hmok : MembersOK N a.tree.name a.tree a.tfName a.tfSecs (Hexital.dedupe members) :=
    ⟨fun m hm hn => by
        have := Hexital.dedupe_unique members m a hm ha hn
        subst this; exact ⟨rfl, rfl⟩,
     hoth, hsecs⟩
  obtain ⟨km, hkm, inv0⟩ := TwinInv.init cfg tf init members a.tree.name a.tree a.tfName a.tfSecs hmok
    ⟨a, ha, rfl⟩ H0 h0
  obtain ⟨s1, hs1, ht1, inv1⟩ := TwinInv.program ops _ H0 H inv0 hok hops hfold
  refine ⟨s1, ?_, ht1, inv1⟩
  unfold runTwin twinInit
  rw [hkm]
  exact hs1

omit [PyF F] in
/-- decidable form of `TwinOp.OK` -/
def TwinOp.okb (N : List String) (nm : String) : TwinOp F → Bool
  | .add ms => (Hexital.dedupe ms).all fun m => m.tree.name != nm && m.tree.allNames.all N.contains
  | .remove (some b) => b != nm
  | _ => true

omit [PyF F] in
theorem TwinOp.ok_of_okb {N : List String} {nm : String} (ops : List (TwinOp F))
    (h : ops.all (TwinOp.okb N nm) = true) : ∀ op, op ∈ ops → op.OK N nm := by
  intro op hop
  have := List.all_eq_true.1 h op hop
  cases op with
  | add ms =>
    intro m hm
    have := List.all_eq_true.1 this m hm
    simp only [Bool.and_eq_true, bne_iff_ne, ne_eq, List.all_eq_true, List.contains_iff_mem] at this
    exact ⟨this.1, fun k hk => by simpa using this.2 k hk⟩
  | remove n =>
    cases n with
    | none => trivial
    | some b => simpa [TwinOp.okb, TwinOp.OK] using this
  | calculate n => trivial
  | calculateIndex n i => trivial
  | purge n => trivial
  | recalculate n => trivial
  | append new => trivial

omit [PyF F] in
def treeOKb (N : List String) (t : Ind F) : Bool :=
  t.allNames.all (fun k => !N.contains k) && t.allReads.all (readOK N)

omit [PyF F] in
theorem treeOK_of_b {N : List String} {t : Ind F} (h : treeOKb N t = true) : TreeOK N t := by
  unfold treeOKb at h
  simp only [Bool.and_eq_true, List.all_eq_true] at h
  exact ⟨fun k hk => by simpa using h.1 k hk, fun r hr => h.2 r hr⟩

end Hex

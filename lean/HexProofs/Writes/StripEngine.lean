import HexProofs.Writes.StripKinds
import HexProofs.Writes.Names
/-
Read-set locality, part 4 – the engine commutes with `strip N`: running a tree on candles from
which the entries under `N` were dropped gives the result of running it on the full candles, with
the entries under `N` dropped – for every tree that neither writes under `N` nor can resolve any of
its reads to a key in `N`.
-/
set_option linter.unusedSimpArgs false
namespace Hex
variable {F : Type}

/-! ### what a tree reads -/

mutual
  /-- every reading name any node of the tree may ask for (`kindReads` of every node) -/
  def Ind.allReads : Ind F → List String
    | .mk k n _ _ _ subs managed => kindReads k n ++ (Ind.allReadsL subs ++ Ind.allReadsM managed)
  def Ind.allReadsL : List (Ind F) → List String
    | [] => []
    | s :: r => s.allReads ++ Ind.allReadsL r
  def Ind.allReadsM : List (String × Ind F) → List String
    | [] => []
    | (_, m) :: r => m.allReads ++ Ind.allReadsM r
end

@[simp] theorem Ind.allReadsL_nil : Ind.allReadsL ([] : List (Ind F)) = [] := by simp [Ind.allReadsL]
@[simp] theorem Ind.allReadsL_cons (s : Ind F) (r : List (Ind F)) :
    Ind.allReadsL (s :: r) = s.allReads ++ Ind.allReadsL r := by simp [Ind.allReadsL]
@[simp] theorem Ind.allReadsM_nil : Ind.allReadsM ([] : List (String × Ind F)) = [] := by simp [Ind.allReadsM]
@[simp] theorem Ind.allReadsM_cons (p : String × Ind F) (r : List (String × Ind F)) :
    Ind.allReadsM (p :: r) = p.2.allReads ++ Ind.allReadsM r := by
  obtain ⟨k, m⟩ := p; simp [Ind.allReadsM]

theorem Ind.allReads_eq (i : Ind F) :
    i.allReads = kindReads i.kind i.name ++ (Ind.allReadsL i.subs ++ Ind.allReadsM i.managed) := by
  cases i; simp [Ind.allReads, Ind.name, Ind.kind, Ind.subs, Ind.managed]

theorem Ind.allReadsM_of_lookup {key : String} {m : Ind F} {l : List (String × Ind F)}
    (h : dlookup key l = some m) : ∀ r, r ∈ m.allReads → r ∈ Ind.allReadsM l := by
  induction l with
  | nil => simp at h
  | cons p rest ih =>
    obtain ⟨k', m'⟩ := p
    intro r hr
    unfold dlookup at h
    split at h
    · cases h; simp [hr]
    · simp [ih h r hr]

/-- the tree neither writes under `N` nor can resolve any of its reads to a key in `N` -/
structure TreeOK (N : List String) (ind : Ind F) : Prop where
  names : ∀ k, k ∈ ind.allNames → k ∉ N
  reads : ∀ r, r ∈ ind.allReads → readOK N r = true

/-- the same for a list of sub-indicators -/
structure SubsOK (N : List String) (subs : List (Ind F)) : Prop where
  names : ∀ k, k ∈ Ind.allNamesL subs → k ∉ N
  reads : ∀ r, r ∈ Ind.allReadsL subs → readOK N r = true

variable {N : List String}

theorem TreeOK.self_name {ind : Ind F} (h : TreeOK N ind) : ind.name ∉ N := h.names _ ind.name_mem_names

theorem TreeOK.kind {ind : Ind F} (h : TreeOK N ind) : ∀ r, r ∈ kindReads ind.kind ind.name → readOK N r = true :=
  fun r hr => h.reads r (by rw [Ind.allReads_eq]; simp [hr])

theorem TreeOK.subs {ind : Ind F} (h : TreeOK N ind) : SubsOK N ind.subs :=
  ⟨fun k hk => h.names k (ind.subs_names_sub k hk),
   fun r hr => h.reads r (by rw [Ind.allReads_eq]; simp [hr])⟩

theorem TreeOK.managed {ind m : Ind F} {key : String} (h : TreeOK N ind) (hm : ind.getManaged key = .ok m) :
    TreeOK N m := by
  refine ⟨fun k hk => h.names k (Ind.getManaged_names hm k hk), fun r hr => h.reads r ?_⟩
  unfold Ind.getManaged at hm
  split at hm
  · rename_i m' hl; cases hm
    rw [Ind.allReads_eq]
    have := Ind.allReadsM_of_lookup hl r hr
    simp [this]
  · cases hm

theorem SubsOK.head {s : Ind F} {rest : List (Ind F)} (h : SubsOK N (s :: rest)) : TreeOK N s :=
  ⟨fun k hk => h.names k (by simp [hk]), fun r hr => h.reads r (by simp [hr])⟩

theorem SubsOK.tail {s : Ind F} {rest : List (Ind F)} (h : SubsOK N (s :: rest)) : SubsOK N rest :=
  ⟨fun k hk => h.names k (by simp [hk]), fun r hr => h.reads r (by simp [hr])⟩

/-! ### `_find_calc_index` and the skip test look only at the own name -/

theorem Writes.hasKey_strip {n : String} (hn : n ∉ N) (c : Candle F) : hasKey n (strip N c) = hasKey n c := by
  unfold hasKey dhas
  rw [strip_inds, strip_subs, Writes.dlookup_eraseAll_of_not_mem hn, Writes.dlookup_eraseAll_of_not_mem hn]

theorem Writes.scanBack_strip {n : String} (hn : n ∉ N) (cs : List (Candle F)) (j : Nat) :
    scanBack n (cs.map (strip N)) j = scanBack n cs j := by
  induction j with
  | zero =>
    unfold scanBack
    rw [List.getElem?_map]
    cases cs[0]? with
    | none => rfl
    | some c => simp only [Option.map_some, Writes.hasKey_strip hn]
  | succ j ih =>
    unfold scanBack
    rw [List.getElem?_map]
    cases cs[j + 1]? with
    | none => exact ih
    | some c => simp only [Option.map_some, Writes.hasKey_strip hn, ih]

theorem Writes.findCalcIndex_strip {n : String} (hn : n ∉ N) (cs : List (Candle F)) :
    findCalcIndex n (cs.map (strip N)) = findCalcIndex n cs := by
  cases cs with
  | nil => rfl
  | cons c r =>
    show findCalcIndex n (strip N c :: r.map (strip N)) = _
    unfold findCalcIndex
    have := Writes.scanBack_strip hn (c :: r) ((c :: r).length - 1)
    simp only [List.map_cons, List.length_cons, List.length_map] at this ⊢
    rw [Writes.hasKey_strip hn, this]

theorem Writes.dlookup_strip_inds {n : String} (hn : n ∉ N) (c : Candle F) :
    dlookup n (strip N c).inds = dlookup n c.inds := by
  rw [strip_inds, Writes.dlookup_eraseAll_of_not_mem hn]

/-! ### the engine -/

variable [PyF F]

/-- the six commutation statements proved together by induction on the fuel -/
structure EngineStrip (N : List String) (f : Nat) : Prop where
  calculate : ∀ (ind : Ind F) cs, TreeOK N ind →
    calculate f ind (cs.map (strip N)) = List.map (strip N) <$> calculate f ind cs
  calcLoop : ∀ (ind : Ind F) cs k n, TreeOK N ind →
    calcLoop f ind (cs.map (strip N)) k n = List.map (strip N) <$> calcLoop f ind cs k n
  calculateIndex : ∀ (ind : Ind F) cs s e, TreeOK N ind →
    calculateIndex f ind (cs.map (strip N)) s e = List.map (strip N) <$> calculateIndex f ind cs s e
  calcSubs : ∀ (subs : List (Ind F)) prior range cs, SubsOK N subs →
    calcSubs f subs prior range (cs.map (strip N)) = List.map (strip N) <$> calcSubs f subs prior range cs
  calcReading : ∀ (ind : Ind F) cs i, TreeOK N ind →
    calcReading f ind (cs.map (strip N)) i = stripRes N <$> calcReading f ind cs i
  setManagedReading : ∀ (m : Ind F) cs i v, TreeOK N m →
    setManagedReading f m (cs.map (strip N)) i v = List.map (strip N) <$> setManagedReading f m cs i v

omit [PyF F] in
/-- a left fold of steps that commute with `strip` -/
theorem Writes.foldlM_strip {α : Type} (step : List (Candle F) → α → PyM (List (Candle F)))
    (hstep : ∀ cs a, step (cs.map (strip N)) a = List.map (strip N) <$> step cs a) :
    ∀ (l : List α) (cs : List (Candle F)),
      l.foldlM step (cs.map (strip N)) = List.map (strip N) <$> l.foldlM step cs := by
  intro l
  induction l with
  | nil => intro cs; rfl
  | cons a r ih =>
    intro cs
    rw [List.foldlM_cons, List.foldlM_cons, hstep]
    cases step cs a with
    | error e => rfl
    | ok cs1 => exact ih cs1

/-- one `_calculate_reading` + `_set_reading` (inline in `calcLoop` / `calculateIndex`) -/
def Writes.readSet (f : Nat) (ind : Ind F) (cs : List (Candle F)) (i : Int) : PyM (List (Candle F)) := do
  let (v, cs) ← Hex.calcReading f ind cs i
  setReading ind.isSub ind.name cs i (v.roundBy ind.round)

theorem Writes.readSet_strip {f : Nat} (ih : EngineStrip (F := F) N f) (ind : Ind F) (cs : List (Candle F)) (i : Int)
    (hok : TreeOK N ind) :
    Writes.readSet f ind (cs.map (strip N)) i = List.map (strip N) <$> Writes.readSet f ind cs i := by
  unfold Writes.readSet
  rw [ih.calcReading ind cs i hok]
  cases Hex.calcReading f ind cs i with
  | error e => rfl
  | ok p => exact Writes.setReading_strip hok.self_name ind.isSub p.2 i _

omit [PyF F] in
/-- composing two commuting squares along `>>=` -/
theorem Writes.comm_bind {α α' β β' : Type} {m : PyM α} {m' : PyM α'} {g : α → α'} {h : β → β'}
    {k : α → PyM β} {k' : α' → PyM β'} (hm : m' = g <$> m) (hk : ∀ a, k' (g a) = h <$> k a) :
    m' >>= k' = h <$> (m >>= k) := by
  subst hm
  cases m with
  | error e => rfl
  | ok a => exact hk a

theorem engineStrip (N : List String) : ∀ f : Nat, EngineStrip (F := F) N f := by
  intro f
  induction f with
  | zero =>
    refine ⟨?_, ?_, ?_, ?_, ?_, ?_⟩
    · intro ind cs _; simp [Hex.calculate]; rfl
    · intro ind cs k n _; simp [Hex.calcLoop]; rfl
    · intro ind cs s e _; simp [Hex.calculateIndex]; rfl
    · intro subs prior range cs _; simp [Hex.calcSubs]; rfl
    · intro ind cs i _; simp [Hex.calcReading]; rfl
    · intro m cs i v _; simp [Hex.setManagedReading]; rfl
  | succ f ih =>
    refine ⟨?_, ?_, ?_, ?_, ?_, ?_⟩
    · -- calculate
      intro ind cs hok
      rw [Hex.calculate, Hex.calculate]
      refine Writes.comm_bind (ih.calcSubs _ _ _ _ hok.subs) (fun cs1 => ?_)
      rw [Writes.findCalcIndex_strip hok.self_name, List.length_map]
      exact Writes.comm_bind (ih.calcLoop _ _ _ _ hok) (fun cs2 => ih.calcSubs _ _ _ _ hok.subs)
    · -- calcLoop
      intro ind cs k n hok
      cases n with
      | zero =>
        rw [Hex.calcLoop, Hex.calcLoop] <;> first | rfl | simp
      | succ n =>
        rw [Hex.calcLoop, Hex.calcLoop]
        refine Writes.comm_bind (Writes.pyIndex_map (strip N) cs k) (fun c => ?_)
        dsimp only
        rw [Writes.dlookup_strip_inds hok.self_name]
        repeat' split
        all_goals first
          | (refine Writes.comm_bind (g := List.map (strip N)) rfl (fun cs1 => ?_)
             exact ih.calcLoop _ _ _ _ hok)
          | (refine Writes.comm_bind (ih.calcReading ind cs k hok) (fun p => ?_)
             dsimp only [stripRes]
             refine Writes.comm_bind (Writes.setReading_strip hok.self_name ind.isSub p.2 k _) (fun cs2 => ?_)
             exact ih.calcLoop _ _ _ _ hok)
    · -- calculateIndex
      intro ind cs s e hok
      rw [Hex.calculateIndex, Hex.calculateIndex]
      refine Writes.comm_bind (ih.calcSubs _ _ _ _ hok.subs) (fun cs1 => ?_)
      refine Writes.comm_bind (Writes.foldlM_strip _ (fun cs a => Writes.readSet_strip ih ind cs a hok) _ cs1)
        (fun cs2 => ih.calcSubs _ _ _ _ hok.subs)
    · -- calcSubs
      intro subs prior range cs hok
      cases subs with
      | nil => rw [Hex.calcSubs, Hex.calcSubs] <;> first | rfl | simp
      | cons s rest =>
        simp only [Hex.calcSubs]
        repeat' split
        all_goals first
          | exact Writes.comm_bind (ih.calculateIndex _ _ _ _ hok.head) (fun cs1 => ih.calcSubs _ _ _ _ hok.tail)
          | exact Writes.comm_bind (ih.calculate _ _ hok.head) (fun cs1 => ih.calcSubs _ _ _ _ hok.tail)
          | (refine Writes.comm_bind (g := List.map (strip N)) rfl (fun cs1 => ?_); exact ih.calcSubs _ _ _ _ hok.tail)
    · -- calcReading
      intro ind cs i hok
      rw [Hex.calcReading, Hex.calcReading]
      refine calcKind_strip ⟨?_, ?_⟩ ind cs i ind.name hok.self_name hok.kind
      · intro key v cs
        dsimp only
        cases hm : ind.getManaged key with
        | error e => rfl
        | ok m => exact ih.setManagedReading m cs i v (hok.managed hm)
      · intro key cs
        dsimp only
        cases hm : ind.getManaged key with
        | error e => rfl
        | ok m => exact ih.calculateIndex m cs i (i + 1) (hok.managed hm)
    · -- setManagedReading
      intro m cs i v hok
      rw [Hex.setManagedReading, Hex.setManagedReading]
      refine Writes.comm_bind (ih.calcSubs _ _ _ _ hok.subs) (fun cs1 => ?_)
      exact Writes.comm_bind (Writes.setReading_strip hok.self_name m.isSub cs1 i v) (fun cs2 => ih.calcSubs _ _ _ _ hok.subs)

/-! ### the statements, individually -/

/-- **Read-set locality of `Indicator.calculate()`**: a tree that neither writes under `N` nor can
resolve any of its reads to a key in `N` computes the same on candles without the entries under `N` –
same error or same result, entries under `N` aside. -/
theorem calculate_strip (N : List String) (f : Nat) (ind : Ind F) (cs : List (Candle F)) (hok : TreeOK N ind) :
    calculate f ind (cs.map (strip N)) = List.map (strip N) <$> calculate f ind cs :=
  (engineStrip N f).calculate ind cs hok

theorem calcLoop_strip (N : List String) (f : Nat) (ind : Ind F) (cs : List (Candle F)) (k n : Nat)
    (hok : TreeOK N ind) :
    calcLoop f ind (cs.map (strip N)) k n = List.map (strip N) <$> calcLoop f ind cs k n :=
  (engineStrip N f).calcLoop ind cs k n hok

theorem calculateIndex_strip (N : List String) (f : Nat) (ind : Ind F) (cs : List (Candle F)) (s e : Int)
    (hok : TreeOK N ind) :
    calculateIndex f ind (cs.map (strip N)) s e = List.map (strip N) <$> calculateIndex f ind cs s e :=
  (engineStrip N f).calculateIndex ind cs s e hok

theorem calcSubs_strip (N : List String) (f : Nat) (subs : List (Ind F)) (prior : Bool)
    (range : Option (Int × Int)) (cs : List (Candle F)) (hok : SubsOK N subs) :
    calcSubs f subs prior range (cs.map (strip N)) = List.map (strip N) <$> calcSubs f subs prior range cs :=
  (engineStrip N f).calcSubs subs prior range cs hok

theorem calcReading_strip (N : List String) (f : Nat) (ind : Ind F) (cs : List (Candle F)) (i : Int)
    (hok : TreeOK N ind) :
    calcReading f ind (cs.map (strip N)) i = stripRes N <$> calcReading f ind cs i :=
  (engineStrip N f).calcReading ind cs i hok

end Hex

import HexProofs.Writes.Engine
import HexModel.Core.Hexital
/-
Key locality, part 5: the object level – `purge`, and the operations of a standalone indicator
(`IndState`) change the candles of their manager only under the names of their tree.
-/
namespace Hex
variable {F : Type}

/-! ### `purge` -/

/-- `purgeNames` changes nothing but the entries stored under `names` … -/
theorem purgeNames_agree (names : List String) (cs : List (Candle F)) :
    AgreeOff names cs (purgeNames names cs) := by
  unfold purgeNames
  refine AgreeOff.map _ (fun c => ?_) cs
  exact ⟨rfl, rfl, rfl, rfl, rfl, rfl, rfl, rfl,
    fun k hk => by simp [Writes.dlookup_eraseAll, hk], fun k hk => by simp [Writes.dlookup_eraseAll, hk]⟩

/-- … and removes every entry stored under `names`, on every candle, in both dicts. -/
theorem purgeNames_removes (names : List String) (cs : List (Candle F)) (c : Candle F)
    (hc : c ∈ purgeNames names cs) (k : String) (hk : k ∈ names) :
    dlookup k c.inds = none ∧ dlookup k c.subs = none := by
  unfold purgeNames at hc
  obtain ⟨c0, _, rfl⟩ := List.mem_map.1 hc
  simp [Writes.dlookup_eraseAll, hk]

/-- `purge` is invisible once the purged names are dropped (strong form of `purgeNames_agree`) -/
theorem purgeNames_stripEq (names : List String) (cs : List (Candle F)) :
    StripEq names cs (purgeNames names cs) := by
  unfold StripEq
  rw [purgeNames_eq_map_strip, List.map_map]
  apply List.map_congr_left
  intro c _
  exact (strip_strip_of_subset (fun _ h => h) c).symm

theorem purgeNames_length (names : List String) (cs : List (Candle F)) :
    (purgeNames names cs).length = cs.length := by simp [purgeNames]

/-! ### everything but the readings -/

/-- the part of a candle no indicator may touch -/
def Candle.core (c : Candle F) : Num F × Num F × Num F × Num F × Num F × Option Int × Bool × Option (Clean F) :=
  (c.o, c.h, c.l, c.c, c.v, c.ts, c.tag, c.clean)

theorem AgreeOff.core_eq {names : List String} {cs cs' : List (Candle F)} (h : AgreeOff names cs cs') :
    cs'.map Candle.core = cs.map Candle.core := by
  apply List.ext_getElem?
  intro i
  simp only [List.getElem?_map]
  by_cases hi : i < cs.length
  · have hi' : i < cs'.length := h.1 ▸ hi
    have := h.2 i _ _ (List.getElem?_eq_getElem hi) (List.getElem?_eq_getElem hi')
    rw [List.getElem?_eq_getElem hi, List.getElem?_eq_getElem hi']
    simp [Candle.core, this.eo, this.eh, this.el, this.ec, this.ev, this.ets, this.etag, this.eclean]
  · have hi' : ¬ i < cs'.length := h.1 ▸ hi
    rw [List.getElem?_eq_none (by omega), List.getElem?_eq_none (by omega)]

variable [PyF F]

/-! ### the standalone object -/

/-- what every operation of the object guarantees: same tree, same manager configuration, and
candles changed only under the names of the tree -/
structure IndState.Local (s s' : IndState F) : Prop where
  tree : s'.tree = s.tree
  cfg : s'.mgr.cfg = s.mgr.cfg
  stripEq : StripEq s.tree.allNames s.mgr.candles s'.mgr.candles

omit [PyF F] in
theorem IndState.Local.agree {s s' : IndState F} (h : IndState.Local s s') :
    AgreeOff s.tree.allNames s.mgr.candles s'.mgr.candles := h.stripEq.agreeOff

theorem IndState.calculate_local (s s' : IndState F) (h : s.calculate = .ok s') : IndState.Local s s' := by
  unfold IndState.calculate at h
  dsimp only at h
  obtain ⟨cs1, h1, h⟩ := Writes.bind_ok h
  obtain ⟨cs2, h2, h⟩ := Writes.bind_ok h
  obtain ⟨cs3, h3, h⟩ := Writes.bind_ok h
  cases h
  exact ⟨rfl, rfl, ((calcSubs_stripEq _ _ _ _ _ _ h1).ofSubs.trans
    (calcLoop_stripEq _ _ _ _ _ _ h2)).trans (calcSubs_stripEq _ _ _ _ _ _ h3).ofSubs⟩

theorem IndState.calculateIndex_local (s s' : IndState F) (start : Int) (end_ : Option Int)
    (h : s.calculateIndex start end_ = .ok s') : IndState.Local s s' := by
  unfold IndState.calculateIndex at h
  dsimp only at h
  obtain ⟨cs1, h1, h⟩ := Writes.bind_ok h
  cases h
  exact ⟨rfl, rfl, calculateIndex_stripEq _ _ _ _ _ _ h1⟩

omit [PyF F] in
theorem IndState.purge_local (s : IndState F) : IndState.Local s s.purge :=
  ⟨rfl, rfl, purgeNames_stripEq _ _⟩

omit [PyF F] in
theorem IndState.Local.trans {s s' s'' : IndState F} (h1 : IndState.Local s s') (h2 : IndState.Local s' s'') :
    IndState.Local s s'' :=
  ⟨h2.tree.trans h1.tree, h2.cfg.trans h1.cfg, h1.stripEq.trans (h1.tree ▸ h2.stripEq)⟩

theorem IndState.recalculate_local (s s' : IndState F) (h : s.recalculate = .ok s') : IndState.Local s s' :=
  (IndState.purge_local s).trans (IndState.calculate_local _ _ h)

end Hex

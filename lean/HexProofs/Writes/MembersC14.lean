import HexProofs.Writes.MembersLib
import HexProofs.Framework.Program
import HexProofs.Framework.Gen.ProgramTf
/-
C14 (maintenance operations converge to the batch state) INSIDE A HEXITAL – all 27 classes, the whole façade alphabet.

A Hexital is constructed from `init` and any members, then driven by any program of Hexital-level operations
(`TwinOp`, Writes/Twin.lean): `append`, `calculate(name?)`, `purge(name?)`, `recalculate(name?)`,
`calculate_index(name?, ±i)`, `add_indicator` (of other members), `remove_indicator(name?)` (of other members; without a
name it only purges).  `member_twin` keeps each member in step with its standalone twin, which performs
`TwinOp.runInd`; that is one operation `Op` of `Framework/Program.lean` or nothing (`TwinOp.toOp`), so the twin's run
is a `Runs` program as soon as the Hexital-level operations are admissible (`TwinOp.AdmHex`: appended candles carry no
readings; a `calculate_index` that reaches the member addresses a candle of the member's manager that holds a reading
of the member) – `HexRuns` ⇒ `Runs` (`hexRuns_twin`).  With `program_converges_tf` (every `MgrSpec`: base timeframe,
collapsing timeframe, timeframe + fill):

  * `member_program_converges` – after the program a final `Hexital.calculate()` leaves the member's manager with the
    view of ONE batch `calculate()` of the standalone indicator (member's tree, member's effective configuration)
    over everything received – which therefore returns;
  * `member_program_converges_hexital` – … i.e. with the view of the same member in a Hexital constructed over
    everything received in one go and calculated once (if that construction returns);
  * `member_program_converges_cfg` – the configuration spelled out: Hexital `{timeframe, timeframe_fill}`, the member on
    its own or on the Hexital's timeframe, raw stream `RawTf`.
`member_program_converges` is stated for EVERY `MgrSpec`, so it also covers Heikin-Ashi Hexitals: instantiate `M` with
`MgrSpec.ha` / `MgrSpec.tfHA` / `MgrSpec.fillHA` of HexProofs/Numeric/TotalMoreHA.lean (not imported here; checked in
`Wrap/W14ha.lean` of the working copy).
Not covered: lifespan Hexitals (no `MgrSpec`), `remove_indicator` / re-`add` of the member itself, members added LATE
(`add_indicator`) as the observed member.
-/
namespace Hex
variable {F : Type} [PyF F] {N : List String}

/-! ### the twin's operation as an `Op` -/

/-- what the standalone twin of member `nm` does on a Hexital-level operation, as an operation of
`Framework/Program.lean` (`none`: nothing – the operation is aimed at another member) -/
def TwinOp.toOp (nm : String) : TwinOp F → Option (Op F)
  | .calculate n => if n.isNone || n == some nm then some .calculate else none
  | .calculateIndex n i => if n.isNone || n == some nm then some (.calcIndex i) else none
  | .purge n => if n.isNone || n == some nm then some .purge else none
  | .recalculate n => if n.isNone || n == some nm then some .recalculate else none
  | .append new => some (.append new)
  | .add _ => none
  | .remove n => if n.isNone || n == some nm then some .purge else none

theorem TwinOp.runInd_toOp (nm : String) (s : IndState F) (op : TwinOp F) :
    op.runInd nm s = match op.toOp nm with
      | some o => o.run s
      | none => pure s := by
  cases op with
  | append new => rfl
  | add ms => rfl
  | calculate n =>
    by_cases hs : (n.isNone || n == some nm) = true
    · simp only [TwinOp.runInd, TwinOp.toOp, hs, if_true]; rfl
    · simp only [TwinOp.runInd, TwinOp.toOp, hs, Bool.false_eq_true, if_false]
  | calculateIndex n i =>
    by_cases hs : (n.isNone || n == some nm) = true
    · simp only [TwinOp.runInd, TwinOp.toOp, hs, if_true]; rfl
    · simp only [TwinOp.runInd, TwinOp.toOp, hs, Bool.false_eq_true, if_false]
  | purge n =>
    by_cases hs : (n.isNone || n == some nm) = true
    · simp only [TwinOp.runInd, TwinOp.toOp, hs, if_true]; rfl
    · simp only [TwinOp.runInd, TwinOp.toOp, hs, Bool.false_eq_true, if_false]
  | recalculate n =>
    by_cases hs : (n.isNone || n == some nm) = true
    · simp only [TwinOp.runInd, TwinOp.toOp, hs, if_true]; rfl
    · simp only [TwinOp.runInd, TwinOp.toOp, hs, Bool.false_eq_true, if_false]
  | remove n =>
    by_cases hs : (n.isNone || n == some nm) = true
    · simp only [TwinOp.runInd, TwinOp.toOp, hs, if_true]; rfl
    · simp only [TwinOp.runInd, TwinOp.toOp, hs, Bool.false_eq_true, if_false]

/-- the twin's program -/
def twinOps (nm : String) (ops : List (TwinOp F)) : List (Op F) := ops.filterMap (TwinOp.toOp nm)

omit [PyF F] in
theorem twinOps_added (nm : String) (ops : List (TwinOp F)) :
    ((twinOps nm ops).map Op.added).flatten = (appendedBy ops).flatten := by
  induction ops with
  | nil => rfl
  | cons op r ih =>
    rw [appendedBy_cons, List.flatten_append, ← ih]
    unfold twinOps
    rw [List.filterMap_cons]
    cases op with
    | append new => simp [TwinOp.toOp, TwinOp.appended, Op.added]
    | add ms => simp [TwinOp.toOp, TwinOp.appended]
    | calculate n =>
      by_cases hs : (n.isNone || n == some nm) = true
      · simp [TwinOp.toOp, hs, TwinOp.appended, Op.added]
      · simp [TwinOp.toOp, hs, TwinOp.appended]
    | calculateIndex n i =>
      by_cases hs : (n.isNone || n == some nm) = true
      · simp [TwinOp.toOp, hs, TwinOp.appended, Op.added]
      · simp [TwinOp.toOp, hs, TwinOp.appended]
    | purge n =>
      by_cases hs : (n.isNone || n == some nm) = true
      · simp [TwinOp.toOp, hs, TwinOp.appended, Op.added]
      · simp [TwinOp.toOp, hs, TwinOp.appended]
    | recalculate n =>
      by_cases hs : (n.isNone || n == some nm) = true
      · simp [TwinOp.toOp, hs, TwinOp.appended, Op.added]
      · simp [TwinOp.toOp, hs, TwinOp.appended]
    | remove n =>
      by_cases hs : (n.isNone || n == some nm) = true
      · simp [TwinOp.toOp, hs, TwinOp.appended, Op.added]
      · simp [TwinOp.toOp, hs, TwinOp.appended]

/-! ### admissible Hexital programs -/

/-- admissibility of a Hexital-level operation with respect to member `nm` in the Hexital state it meets: appended
candles are raw (carry no readings); a `calculate_index(name?, i)` that reaches `nm` addresses – by a positive or a
negative index – a candle of `nm`'s manager that holds a reading of `nm` -/
def TwinOp.AdmHex (nm : String) (H : Hexital F) : TwinOp F → Prop
  | .append new => ∀ c ∈ new, Plain c
  | .calculateIndex n i => (n.isNone || n == some nm) = true →
      ∃ m c, H.memberManager nm = some m ∧ pyIndex m.candles i = .ok c ∧ hasKey nm c = true
  | _ => True

/-- a Hexital program that runs: every operation admissible in the state it meets, none raises -/
inductive HexRuns (nm : String) : Hexital F → List (TwinOp F) → Hexital F → Prop
  | nil (H : Hexital F) : HexRuns nm H [] H
  | cons {H H' H'' : Hexital F} {op : TwinOp F} {ops : List (TwinOp F)} :
      op.AdmHex nm H → op.runHex H = .ok H' → HexRuns nm H' ops H'' → HexRuns nm H (op :: ops) H''

theorem HexRuns.foldlM {nm : String} {H H' : Hexital F} {ops : List (TwinOp F)} (h : HexRuns nm H ops H') :
    ops.foldlM TwinOp.runHex H = .ok H' := by
  induction h with
  | nil H => rfl
  | cons _ hr _ ih => rw [List.foldlM_cons, hr]; exact ih

omit [PyF F] in
/-- what `TwinInv` says in the vocabulary of `MembersLib` -/
theorem TwinInv.view {nm K : String} {s : IndState F} {H : Hexital F} (inv : TwinInv N nm K s H)
    (hok : TreeOK N s.tree) :
    ∃ m, H.memberManager nm = some m ∧ SameView s.tree.allNames m.candles s.mgr.candles := by
  obtain ⟨hi, m, h1, _, h3, _, h5, h6⟩ := inv.readings hok
  refine ⟨m, ?_, h5, h6⟩
  unfold Hexital.memberManager
  rw [h1]; exact h3

omit [PyF F] in
theorem hasKey_of_stored {k : String} {c c' : Candle F}
    (h : (dlookup k c.inds, dlookup k c.subs) = (dlookup k c'.inds, dlookup k c'.subs)) :
    hasKey k c = hasKey k c' := by
  unfold hasKey dhas
  have h1 : dlookup k c.inds = dlookup k c'.inds := congrArg Prod.fst h
  have h2 : dlookup k c.subs = dlookup k c'.subs := congrArg Prod.snd h
  rw [h1, h2]

omit [PyF F] in
/-- the same view: a Python index addresses candles with the same entries under the shared keys -/
theorem SameView.pyIndex_hasKey {K : List String} {a b : List (Candle F)} (h : SameView K a b) {k : String}
    (hk : k ∈ K) (i : Int) (c : Candle F) (hc : pyIndex a i = .ok c) :
    ∃ c', pyIndex b i = .ok c' ∧ hasKey k c' = hasKey k c := by
  have e := congrArg (fun l => pyIndex l i) (h.2 k hk)
  simp only [storedUnder] at e
  rw [pyIndex_map, pyIndex_map, hc] at e
  cases hb : pyIndex b i with
  | error e' => rw [hb] at e; cases e
  | ok c' =>
    rw [hb] at e
    exact ⟨c', rfl, (hasKey_of_stored (Except.ok.inj e)).symm⟩

/-- **An admissible Hexital program is an admissible program of the member's twin** (`Runs`, Framework/Program.lean). -/
theorem hexRuns_twin {nm K : String} :
    ∀ (ops : List (TwinOp F)) (s : IndState F) (H H' : Hexital F), TwinInv N nm K s H → TreeOK N s.tree →
      s.tree.name = nm → (∀ op, op ∈ ops → op.OK N nm) → HexRuns nm H ops H' →
      ∃ s', Runs s (twinOps nm ops) s' ∧ s'.tree = s.tree ∧ TwinInv N nm K s' H' := by
  intro ops
  induction ops with
  | nil =>
    intro s H H' inv _ _ _ hr
    cases hr
    exact ⟨s, Runs.nil s, rfl, inv⟩
  | cons op r ih =>
    intro s H H' inv hok hnm hops hr
    cases hr with
    | cons hadm hrun hrest =>
      rename_i H1
      obtain ⟨s1, hs1, ht1, inv1⟩ := inv.step hok op (hops op (by simp)) hrun
      obtain ⟨s2, hr2, ht2, inv2⟩ := ih s1 H1 H' inv1 (ht1 ▸ hok) (by rw [ht1]; exact hnm)
        (fun op' h' => hops op' (List.mem_cons_of_mem _ h')) hrest
      rw [TwinOp.runInd_toOp] at hs1
      unfold twinOps
      rw [List.filterMap_cons]
      cases ho : op.toOp nm with
      | none =>
        rw [ho] at hs1
        cases hs1
        exact ⟨s2, hr2, ht2, inv2⟩
      | some o =>
        rw [ho] at hs1
        refine ⟨s2, Runs.cons ?_ hs1 hr2, ht2.trans ht1, inv2⟩
        -- admissibility of the twin's operation
        cases op with
        | add ms => simp [TwinOp.toOp] at ho
        | append new =>
          simp only [TwinOp.toOp, Option.some.injEq] at ho
          subst ho
          exact hadm
        | calculate n =>
          simp only [TwinOp.toOp] at ho; split at ho <;> cases ho; trivial
        | purge n =>
          simp only [TwinOp.toOp] at ho; split at ho <;> cases ho; trivial
        | recalculate n =>
          simp only [TwinOp.toOp] at ho; split at ho <;> cases ho; trivial
        | remove n =>
          simp only [TwinOp.toOp] at ho; split at ho <;> cases ho; trivial
        | calculateIndex n i =>
          simp only [TwinOp.toOp] at ho
          split at ho
          · rename_i hsel
            cases ho
            obtain ⟨m, c, hm, hc, hkey⟩ := hadm hsel
            obtain ⟨m', hm', hview⟩ := inv.view hok
            rw [hm] at hm'
            cases hm'
            obtain ⟨c', hc', hk'⟩ := hview.pyIndex_hasKey (k := nm) (hnm ▸ s.tree.name_mem_names) i c hc
            exact ⟨c', hc', by rw [hnm, hk', hkey]⟩
          · cases ho

/-! ### convergence -/

/-- **C14 inside a Hexital, every `MgrSpec`.**  `M`: the manager specification of the member's effective
configuration (`MgrSpec.base` – no timeframe; `MgrSpec.tf` – collapsing timeframe; `MgrSpec.fill` – timeframe + fill).
Construct the Hexital, run any admissible program of Hexital-level operations (`HexRuns`), then `calculate()`:
if the raw stream received is well-formed for `M`, the batch run of the standalone indicator over everything received
RETURNS, and the member's manager shows exactly its view (OHLCV, stamps, the member's readings, helper and `_data`
series). -/
theorem member_program_converges {members : List (Member F)} {mem : Member F} (hm : MemberHyps N members mem)
    (k : Kind F) (name : String) (round : Nat) (hk : CoveredTreeX name k) (htree : mem.tree = mkTop k name round)
    (cfg : MgrCfg) (tfn : Option String) (M : MgrSpec F) (hM : mem.effCfg cfg = M.cfg)
    (init : List (Candle F)) (ops : List (TwinOp F)) (hops : ∀ op, op ∈ ops → op.OK N mem.tree.name)
    (hok : M.Ok (init ++ (appendedBy ops).flatten))
    (H0 H H' : Hexital F) (h0 : Hexital.init cfg tfn init members = .ok H0)
    (hruns : HexRuns mem.tree.name H0 ops H) (hfin : H.calculate none = .ok H') :
    ∃ out m', candlesOf (runIndicator mem.tree M.cfg (init ++ (appendedBy ops).flatten) []) = .ok out ∧
      H'.memberManager mem.tree.name = some m' ∧ SameView mem.tree.allNames m'.candles out := by
  -- the twin at construction time
  have hrun0 : runHexital cfg tfn init members [] = .ok H0 := by
    unfold runHexital; rw [h0]; rfl
  obtain ⟨s0, hs0, ht0, inv0⟩ := member_twin cfg tfn init members mem [] H0 hm.dedupe
    (fun m hmm he _ => hm.secs m (Hexital.dedupe_sub members m hmm) he)
    (fun m hmm => hm.others m (Hexital.dedupe_sub members m hmm)) hm.tree (by simp) hrun0
  unfold runTwin at hs0
  rw [twinInit_eq_init mem cfg init (Writes.key_of_ne hm.key), hM] at hs0
  have hinit : IndState.init mem.tree M.cfg init = .ok s0 := by
    cases hi : IndState.init mem.tree M.cfg init with
    | error e => rw [hi] at hs0; cases hs0
    | ok s => rw [hi] at hs0; exact congrArg _ (Except.ok.inj hs0)
  -- the program
  obtain ⟨s, hr, ht, inv⟩ := hexRuns_twin ops s0 H0 H inv0 (ht0 ▸ hm.tree) (by rw [ht0]) hops hruns
  -- the final `calculate()`
  have hts : s.tree = mem.tree := ht.trans ht0
  obtain ⟨s', hs', ht', inv'⟩ := inv.step (hts ▸ hm.tree) (.calculate none) trivial hfin
  have hcalc : s.calculate = .ok s' := hs'
  obtain ⟨m', hm', hview⟩ := inv'.view (by rw [ht', hts]; exact hm.tree)
  rw [ht', hts] at hview
  have hconv := (program_converges_tf hk round M init (twinOps mem.tree.name ops)
    (by rw [twinOps_added]; exact hok) s0 s (htree ▸ hinit) hr s'.mgr.candles).1
    (by unfold candlesOf; rw [hcalc]; rfl)
  rw [twinOps_added, ← htree] at hconv
  exact ⟨s'.mgr.candles, m', hconv, hm', hview⟩

/-- **… against the batch Hexital**: the same members constructed over everything received in one go, calculated once.
If that returns, the member shows the same view in both Hexitals. -/
theorem member_program_converges_hexital {members : List (Member F)} {mem : Member F} (hm : MemberHyps N members mem)
    (k : Kind F) (name : String) (round : Nat) (hk : CoveredTreeX name k) (htree : mem.tree = mkTop k name round)
    (cfg : MgrCfg) (tfn : Option String) (M : MgrSpec F) (hM : mem.effCfg cfg = M.cfg)
    (init : List (Candle F)) (ops : List (TwinOp F)) (hops : ∀ op, op ∈ ops → op.OK N mem.tree.name)
    (hok : M.Ok (init ++ (appendedBy ops).flatten))
    (H0 H H' HB : Hexital F) (h0 : Hexital.init cfg tfn init members = .ok H0)
    (hruns : HexRuns mem.tree.name H0 ops H) (hfin : H.calculate none = .ok H')
    (hbatch : runHexSched cfg tfn (init ++ (appendedBy ops).flatten) members [] = .ok HB) :
    ∃ m' mB, H'.memberManager mem.tree.name = some m' ∧ HB.memberManager mem.tree.name = some mB ∧
      SameView mem.tree.allNames m'.candles mB.candles := by
  obtain ⟨out, m', hout, hm', hv⟩ := member_program_converges hm k name round hk htree cfg tfn M hM init ops hops hok
    H0 H H' h0 hruns hfin
  obtain ⟨tb, mB, htb, _, hmB, _, hvB, _⟩ := member_sched hm cfg tfn _ [] HB hbatch
  rw [hM] at htb
  rw [htb] at hout
  have : tb.mgr.candles = out := Except.ok.inj hout
  subst this
  exact ⟨m', mB, hm', hmB, hv.trans hvB.symm⟩

/-- **The configuration spelled out**: a Hexital with `{timeframe = htfx, timeframe_fill = fill}` (no Heikin-Ashi, no
lifespan); the member's effective timeframe `tf?` (its own, else the Hexital's) is positive if present, and gap filling
is only requested where there is a timeframe to fill; the raw stream received is `RawTf` (stamped, non-decreasing,
unconverted, reading-free). -/
theorem member_program_converges_cfg {members : List (Member F)} {mem : Member F} (hm : MemberHyps N members mem)
    (k : Kind F) (name : String) (round : Nat) (hk : CoveredTreeX name k) (htree : mem.tree = mkTop k name round)
    (htfx : Option Int) (fill : Bool) (tfn : Option String)
    (htf : ∀ t, mem.effTf htfx = some t → 0 < t) (hfill : fill = true → (mem.effTf htfx).isSome = true)
    (init : List (Candle F)) (ops : List (TwinOp F)) (hops : ∀ op, op ∈ ops → op.OK N mem.tree.name)
    (hraw : RawTf (init ++ (appendedBy ops).flatten))
    (H0 H H' : Hexital F) (h0 : Hexital.init { tf := htfx, fill := fill } tfn init members = .ok H0)
    (hruns : HexRuns mem.tree.name H0 ops H) (hfin : H.calculate none = .ok H') :
    ∃ out m', candlesOf (runIndicator mem.tree { tf := mem.effTf htfx, fill := fill }
        (init ++ (appendedBy ops).flatten) []) = .ok out ∧
      H'.memberManager mem.tree.name = some m' ∧ SameView mem.tree.allNames m'.candles out := by
  have hcfg : (mgrSpecOf F (mem.effTf htfx) htf fill).cfg = { tf := mem.effTf htfx, fill := fill } := by
    rw [mgrSpecOf_cfg]
    cases hf : fill with
    | false => rfl
    | true => rw [hfill hf]; rfl
  have h := member_program_converges hm k name round hk htree { tf := htfx, fill := fill } tfn
    (mgrSpecOf F (mem.effTf htfx) htf fill) (by rw [hcfg, Member.effCfg_eq]) init ops hops
    (mgrSpecOf_ok _ htf fill _ hraw) H0 H H' h0 hruns hfin
  rw [hcfg] at h
  exact h

/-! ### an executable check that a Hexital program runs (for concrete examples) -/

def TwinOp.admHexB (nm : String) (H : Hexital F) : TwinOp F → Bool
  | .append new => new.all fun c => decide (Plain c)
  | .calculateIndex n i =>
    !(n.isNone || n == some nm) ||
      (match H.memberManager nm with
       | some m => (match pyIndex m.candles i with
                    | .ok c => hasKey nm c
                    | .error _ => false)
       | none => false)
  | _ => true

theorem TwinOp.admHex_of_B (nm : String) (H : Hexital F) (op : TwinOp F) (h : op.admHexB nm H = true) :
    op.AdmHex nm H := by
  cases op with
  | append new =>
    intro c hc
    have := List.all_eq_true.1 h c hc
    simpa using this
  | calculateIndex n i =>
    intro hsel
    cases hm : H.memberManager nm with
    | none => simp [TwinOp.admHexB, hsel, hm] at h
    | some m =>
      cases hp : pyIndex m.candles i with
      | error e => simp [TwinOp.admHexB, hsel, hm, hp] at h
      | ok c =>
        simp only [TwinOp.admHexB, hsel, hm, hp, Bool.not_true, Bool.false_or] at h
        exact ⟨m, c, rfl, hp, h⟩
  | calculate n => trivial
  | purge n => trivial
  | recalculate n => trivial
  | add ms => trivial
  | remove n => trivial

def hexRunChecked (nm : String) (H : Hexital F) : List (TwinOp F) → Option (Hexital F)
  | [] => some H
  | op :: ops =>
    if op.admHexB nm H then
      match op.runHex H with
      | .ok H' => hexRunChecked nm H' ops
      | .error _ => none
    else none

theorem hexRuns_of_checked (nm : String) (ops : List (TwinOp F)) :
    ∀ (H H' : Hexital F), hexRunChecked nm H ops = some H' → HexRuns nm H ops H' := by
  induction ops with
  | nil => intro H H' h; simp only [hexRunChecked] at h; cases h; exact HexRuns.nil H
  | cons op rest ih =>
    intro H H' h
    simp only [hexRunChecked] at h
    by_cases ha : op.admHexB nm H = true
    · simp only [ha, if_true] at h
      cases hr : op.runHex H with
      | error e => rw [hr] at h; cases h
      | ok H1 =>
        rw [hr] at h
        exact HexRuns.cons (TwinOp.admHex_of_B nm H op ha) hr (ih H1 H' h)
    · simp only [ha, Bool.false_eq_true, if_false] at h; cases h

/-! ### non-vacuity (toy carrier `Int`): the four members of `TwinTfEx` on three managers (default, `T2`, `T3`) under a
program with every kind of operation, `add_indicator` and `remove_indicator` included -/

namespace MembersC14Ex
open TwinTfEx
set_option synthInstance.maxSize 2000

/-- one-minute candles 1 … (positive stamps: `RawTf`) -/
def init : List (Candle Int) := (List.range 5).map fun k => candle (k + 1)
def late : Member Int := { tree := mkTop (.sma 3 "close") "SMA_3_T3" 4, tfName := some "T3", tfSecs := some 180 }
def names : List String := others ++ late.tree.allNames

def prog : List (TwinOp Int) :=
  [.calculate none, .append [candle 6, candle 7], .purge (some "RSI_2_T2"), .calculateIndex (some "SMA_2_T2") (-1),
   .append [candle 8], .add [late], .recalculate (some "SMA_2_T2"), .calculateIndex none 1, .purge none,
   .append [candle 9, candle 10, candle 11], .remove (some "RSI_2_T2"), .calculateIndex none (-2), .remove none,
   .append [candle 12]]

def received : List (Candle Int) := init ++ (appendedBy prog).flatten

def cfg0 : MgrCfg := {}

def afterProg : Option (Hexital Int) :=
  match Hexital.init cfg0 none init members with
  | .ok H0 => hexRunChecked "SMA_2_T2" H0 prog
  | .error _ => none

theorem smaT2OK : CoveredTreeX (F := Int) "SMA_2_T2" (.sma 2 "close") := .base _ (.leaf _ (.sma 2 "close" (by decide) (by decide) (by decide)))

theorem hyps :
    (members.map (·.tree.name)).Nodup ∧ (C13.othersNames aT.tree.name members).all names.contains = true ∧
    treeOKb names aT.tree = true ∧
    members.all (fun m => m.tfName != aT.tfName || m.tfSecs == aT.tfSecs) = true ∧
    prog.all (TwinOp.okb names "SMA_2_T2") = true ∧
    isOk (Hexital.init cfg0 none init members) = true ∧
    (match afterProg with
     | some H => isOk (H.calculate none)
     | none => false) = true := by decide +kernel

theorem received_raw : RawTf received := ⟨by decide, by decide, by decide, by decide⟩

/-- `member_program_converges_cfg` applied to the member `SMA_2_T2` (own timeframe `T2` on a Hexital without
timeframe): the program is admissible and runs, the final `calculate()` returns, and the member's manager shows the
batch `SMA(period=2, timeframe="T2")` over the twelve candles received -/
theorem applied : ∃ H0 H H' out m', Hexital.init cfg0 none init members = .ok H0 ∧
    HexRuns "SMA_2_T2" H0 prog H ∧ H.calculate none = .ok H' ∧
    candlesOf (runIndicator aT.tree { tf := some 120 } received []) = .ok out ∧
    H'.memberManager "SMA_2_T2" = some m' ∧ SameView ["SMA_2_T2"] m'.candles out := by
  obtain ⟨h1, h2, h3, h4, h5, h6, h7⟩ := hyps
  obtain ⟨H0, hH0⟩ := isOk_ok h6
  have hap : afterProg = hexRunChecked "SMA_2_T2" H0 prog := by unfold afterProg; rw [hH0]
  cases hp : afterProg with
  | none => rw [hp] at h7; cases h7
  | some H =>
    rw [hp] at h7
    obtain ⟨H', hH'⟩ := isOk_ok h7
    have hruns : HexRuns "SMA_2_T2" H0 prog H := hexRuns_of_checked _ _ _ _ (hap ▸ hp)
    obtain ⟨out, m', e1, e2, e3⟩ := member_program_converges_cfg
      (MemberHyps.of_b members aT names h1 h2 h3 h4 (by decide) (by simp [members]))
      (.sma 2 "close") "SMA_2_T2" 4 smaT2OK rfl none false none
      (by intro t ht; cases ht; decide) (by intro h; cases h) init prog (TwinOp.ok_of_okb prog h5) received_raw
      H0 H H' hH0 hruns hH'
    exact ⟨H0, H, H', out, m', hH0, hruns, hH', e1, e2, e3⟩

/-- … and the batch run is not trivial: six `T2` buckets, five of them with a reading -/
example : ((candlesOf (runIndicator aT.tree { tf := some 120 } received [])).toOption.map
    fun out => (out.map (·.ts), out.map fun c => (readingByCandle c "SMA_2_T2").isNone))
    = some ([some 120, some 240, some 360, some 480, some 600, some 720], [true, false, false, false, false, false]) := by
  decide +kernel

end MembersC14Ex

end Hex

#print axioms Hex.hexRuns_twin
#print axioms Hex.member_program_converges
#print axioms Hex.member_program_converges_hexital
#print axioms Hex.member_program_converges_cfg
#print axioms Hex.MembersC14Ex.applied

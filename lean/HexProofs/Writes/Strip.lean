import HexProofs.Writes.Agree
/-
Read-set locality, part 1: `strip N` (= what `purge` does to one candle: drop every reading entry
stored under a name in `N`) and the accessors that cannot see the difference.
-/
namespace Hex
variable {F : Type}

/-! ### erasing a set of keys from a dict -/

/-- drop every entry whose key is in `N` (what `purgeNames` folds `derase` to) -/
def eraseAll {α : Type} (N : List String) (l : List (String × α)) : List (String × α) :=
  N.foldl (fun d n => derase n d) l

theorem Writes.derase_eq_filter {α : Type} (k : String) (l : List (String × α)) :
    derase k l = l.filter (fun p => !(p.1 == k)) := by
  induction l with
  | nil => rfl
  | cons p r ih =>
    obtain ⟨k', v⟩ := p
    unfold derase
    by_cases h : k' = k
    · simp [h, ih]
    · simp [h, ih]

/-- the entries `eraseAll N` keeps -/
def keepP {α : Type} (N : List String) (p : String × α) : Bool := !N.contains p.1

theorem keepP_iff {α : Type} (N : List String) (k : String) (v : α) : keepP N (k, v) = true ↔ k ∉ N := by
  simp [keepP]

theorem eraseAll_eq_filter {α : Type} (N : List String) (l : List (String × α)) :
    eraseAll N l = l.filter (keepP N) := by
  unfold eraseAll
  induction N generalizing l with
  | nil =>
    have : (keepP ([] : List String) : String × α → Bool) = fun _ => true := by funext p; simp [keepP]
    rw [this]; exact (List.filter_eq_self.2 (fun _ _ => rfl)).symm
  | cons n r ih =>
    rw [List.foldl_cons, ih, Writes.derase_eq_filter, List.filter_filter]
    apply List.filter_congr
    intro p _
    simp only [keepP, List.contains_cons]
    cases (p.1 == n) <;> simp

theorem Writes.dlookup_eraseAll {α : Type} (names : List String) (k : String) :
    ∀ l : List (String × α),
      dlookup k (names.foldl (fun d n => derase n d) l) = if k ∈ names then none else dlookup k l := by
  induction names with
  | nil => intro l; simp
  | cons n r ih =>
    intro l
    rw [List.foldl_cons, ih, dlookup_derase]
    by_cases h1 : k ∈ r
    · simp [h1]
    · by_cases h2 : n = k
      · subst h2; simp
      · have : ¬ k = n := fun e => h2 e.symm
        simp [h1, h2, this]

theorem Writes.dlookup_eraseAll' {α : Type} (N : List String) (k : String) (l : List (String × α)) :
    dlookup k (eraseAll N l) = if k ∈ N then none else dlookup k l :=
  Writes.dlookup_eraseAll N k l

theorem Writes.dlookup_eraseAll_of_not_mem {α : Type} {N : List String} {k : String} (hk : k ∉ N)
    (l : List (String × α)) : dlookup k (eraseAll N l) = dlookup k l := by
  simp [Writes.dlookup_eraseAll', hk]

theorem Writes.dset_nil {α : Type} (k : String) (v : α) : dset k v ([] : List (String × α)) = [(k, v)] := rfl
theorem Writes.dset_cons_eq {α : Type} (k : String) (v w : α) (r : List (String × α)) :
    dset k v ((k, w) :: r) = (k, v) :: r := by simp [dset]
theorem Writes.dset_cons_ne {α : Type} {k k' : String} (h : k' ≠ k) (v w : α) (r : List (String × α)) :
    dset k v ((k', w) :: r) = (k', w) :: dset k v r := by simp [dset, h]

/-- writing under a key outside `N` commutes with erasing `N` -/
theorem eraseAll_dset {α : Type} {N : List String} {n : String} (hn : n ∉ N) (v : α)
    (l : List (String × α)) : eraseAll N (dset n v l) = dset n v (eraseAll N l) := by
  rw [eraseAll_eq_filter, eraseAll_eq_filter]
  have hkn : ∀ w : α, keepP N (n, w) = true := fun w => (keepP_iff N n w).2 hn
  induction l with
  | nil => rw [Writes.dset_nil, List.filter_cons, hkn]; rfl
  | cons p r ih =>
    obtain ⟨k', v'⟩ := p
    by_cases h : k' = n
    · subst h
      rw [Writes.dset_cons_eq, List.filter_cons, List.filter_cons, hkn, hkn]
      simp only [if_true]
      rw [Writes.dset_cons_eq]
    · rw [Writes.dset_cons_ne h, List.filter_cons, List.filter_cons]
      by_cases hk : keepP N (k', v') = true
      · simp only [hk, if_true]
        rw [Writes.dset_cons_ne h, ih]
      · simp only [hk]; exact ih

/-- writing under a key inside `N` is invisible after erasing `N` -/
theorem eraseAll_dset_mem {α : Type} {N : List String} {n : String} (hn : n ∈ N) (v : α)
    (l : List (String × α)) : eraseAll N (dset n v l) = eraseAll N l := by
  rw [eraseAll_eq_filter, eraseAll_eq_filter]
  have hkn : ∀ w : α, keepP N (n, w) = false := fun w => by simp [keepP, hn]
  induction l with
  | nil => rw [Writes.dset_nil, List.filter_cons, hkn]; rfl
  | cons p r ih =>
    obtain ⟨k', v'⟩ := p
    by_cases h : k' = n
    · subst h
      rw [Writes.dset_cons_eq, List.filter_cons, List.filter_cons, hkn, hkn]
      rfl
    · rw [Writes.dset_cons_ne h, List.filter_cons, List.filter_cons, ih]

theorem eraseAll_eraseAll_of_subset {α : Type} {N N' : List String} (hsub : ∀ k, k ∈ N → k ∈ N')
    (l : List (String × α)) : eraseAll N' (eraseAll N l) = eraseAll N' l := by
  rw [eraseAll_eq_filter, eraseAll_eq_filter, eraseAll_eq_filter, List.filter_filter]
  apply List.filter_congr
  intro p _
  by_cases h : p.1 ∈ N'
  · simp [keepP, h]
  · have : p.1 ∉ N := fun hh => h (hsub _ hh)
    simp [keepP, h, this]

/-! ### `strip` -/

/-- drop every reading entry stored under a name in `N`, in both dicts -/
def strip (N : List String) (c : Candle F) : Candle F :=
  { c with inds := eraseAll N c.inds, subs := eraseAll N c.subs }

theorem purgeNames_eq_map_strip (N : List String) (cs : List (Candle F)) :
    purgeNames N cs = cs.map (strip N) := rfl

@[simp] theorem strip_o (N : List String) (c : Candle F) : (strip N c).o = c.o := rfl
@[simp] theorem strip_h (N : List String) (c : Candle F) : (strip N c).h = c.h := rfl
@[simp] theorem strip_l (N : List String) (c : Candle F) : (strip N c).l = c.l := rfl
@[simp] theorem strip_c (N : List String) (c : Candle F) : (strip N c).c = c.c := rfl
@[simp] theorem strip_v (N : List String) (c : Candle F) : (strip N c).v = c.v := rfl
@[simp] theorem strip_ts (N : List String) (c : Candle F) : (strip N c).ts = c.ts := rfl
@[simp] theorem strip_tag (N : List String) (c : Candle F) : (strip N c).tag = c.tag := rfl
@[simp] theorem strip_clean (N : List String) (c : Candle F) : (strip N c).clean = c.clean := rfl
theorem strip_inds (N : List String) (c : Candle F) : (strip N c).inds = eraseAll N c.inds := rfl
theorem strip_subs (N : List String) (c : Candle F) : (strip N c).subs = eraseAll N c.subs := rfl

theorem strip_agree (N : List String) (c : Candle F) : CandleAgreeOff N c (strip N c) :=
  ⟨rfl, rfl, rfl, rfl, rfl, rfl, rfl, rfl,
   fun _ hk => (Writes.dlookup_eraseAll_of_not_mem hk _).symm, fun _ hk => (Writes.dlookup_eraseAll_of_not_mem hk _).symm⟩

/-- the two lists become equal once the entries under `N` are dropped -/
def StripEq (N : List String) (cs cs' : List (Candle F)) : Prop := cs.map (strip N) = cs'.map (strip N)

theorem StripEq.refl (N : List String) (cs : List (Candle F)) : StripEq N cs cs := rfl
theorem StripEq.symm {N : List String} {cs cs' : List (Candle F)} (h : StripEq N cs cs') : StripEq N cs' cs :=
  Eq.symm h
theorem StripEq.trans {N : List String} {a b c : List (Candle F)} (h1 : StripEq N a b) (h2 : StripEq N b c) :
    StripEq N a c := Eq.trans h1 h2

theorem strip_strip_of_subset {N N' : List String} (hsub : ∀ k, k ∈ N → k ∈ N') (c : Candle F) :
    strip N' (strip N c) = strip N' c := by
  simp [strip, eraseAll_eraseAll_of_subset hsub]

theorem StripEq.mono {N N' : List String} (hsub : ∀ k, k ∈ N → k ∈ N') {cs cs' : List (Candle F)}
    (h : StripEq N cs cs') : StripEq N' cs cs' := by
  have := congrArg (List.map (strip N')) h
  simpa [StripEq, List.map_map, Function.comp_def, strip_strip_of_subset hsub] using this

/-- `StripEq` is stronger than `AgreeOff` -/
theorem StripEq.agreeOff {N : List String} {cs cs' : List (Candle F)} (h : StripEq N cs cs') :
    AgreeOff N cs cs' :=
  ((AgreeOff.map (strip N) (strip_agree N) cs).trans (h ▸ AgreeOff.refl N _)).trans
    (AgreeOff.map (strip N) (strip_agree N) cs').symm

/-! ### the framework's primitive writes, `StripEq` form -/

theorem strip_setInds_mem {N : List String} {n : String} (hn : n ∈ N) (v : Val F) (c : Candle F) :
    strip N { c with inds := dset n v c.inds } = strip N c := by
  simp [strip, eraseAll_dset_mem hn]

theorem strip_setSubs_mem {N : List String} {n : String} (hn : n ∈ N) (v : Val F) (c : Candle F) :
    strip N { c with subs := dset n v c.subs } = strip N c := by
  simp [strip, eraseAll_dset_mem hn]

theorem StripEq.modify {N : List String} (f : Candle F → Candle F) (hf : ∀ c, strip N (f c) = strip N c)
    (j : Nat) (cs : List (Candle F)) : StripEq N cs (cs.modify j f) := by
  unfold StripEq
  apply List.ext_getElem?
  intro k
  simp only [List.getElem?_map, List.getElem?_modify]
  cases cs[k]? with
  | none => rfl
  | some a => by_cases h : j = k <;> simp [h, hf]

theorem updateAt_stripEq {N : List String} (f : Candle F → Candle F) (hf : ∀ c, strip N (f c) = strip N c)
    (cs cs' : List (Candle F)) (i : Int) (h : updateAt cs i f = .ok cs') : StripEq N cs cs' := by
  unfold updateAt at h
  dsimp only at h
  generalize (if i < 0 then (cs.length : Int) + i else i) = j at h
  by_cases hc : j < 0 ∨ j ≥ cs.length
  · rw [if_pos hc] at h; cases h
  · rw [if_neg hc] at h; cases h; exact StripEq.modify f hf _ cs

/-- `_set_reading` under a listed name is invisible once the listed names are dropped -/
theorem setReading_stripEq {N : List String} (isSub : Bool) (n : String) (hn : n ∈ N)
    (cs cs' : List (Candle F)) (i : Int) (v : Val F)
    (h : setReading isSub n cs i v = .ok cs') : StripEq N cs cs' := by
  unfold setReading at h
  refine updateAt_stripEq _ (fun c => ?_) cs cs' i h
  cases isSub
  · exact strip_setInds_mem hn v c
  · exact strip_setSubs_mem hn v c

end Hex

import HexProofs.Writes.TwinTf
import HexProofs.Manager2.FillReadings
/-
Members of a Hexital: the transfer principle of `Writes/TwinTf.lean` (`member_twin`, `member_standalone_tf`,
`members_all`) packaged for the property files.

  * `MemberHyps N members mem`: the presuppositions of `members_all` in one structure;
  * `Hexital.memberManager H name`: the manager the member `name` is attached to;
  * `SameView K cs cs'`: two candle lists agree on OHLCV / stamps / conversion state (`Candle.core`) and on every
    entry stored under the keys `K` (top-level and helper readings);
  * `member_program` / `member_sched`: the member's manager shows the same view as the standalone twin
    (`IndState.init mem.tree (mem.effCfg cfg) init` driven by the same program / `runIndicator` over the same
    schedule), the twin RUNS, and columns read through the Hexital are the twin's;
  * `member_manager_bare`: **every member's manager is, readings aside, the bare `CandleManager` with the member's
    effective configuration constructed from the same candles and fed the same chunks** (`runSched`) – whatever the
    Hexital-level timeframe / fill / Heikin-Ashi / lifespan and whatever the maintenance operations in between.
    So every theorem about bare managers (C03, C11, C12, C15 first clause) transfers to member managers.
-/
namespace Hex
variable {F : Type} [PyF F] {N : List String}

/-- the presuppositions of `members_all` for the member `mem` of the list `members` handed to the constructor:
`mem` is the only member of its name; the other members' names lie in `N`, `mem`'s tree neither writes under nor can
read a name in `N` (`TreeOK`); members sharing `mem`'s timeframe NAME carry the same seconds; the timeframe name is not
the literal manager key "default" -/
structure MemberHyps (N : List String) (members : List (Member F)) (mem : Member F) : Prop where
  isMem : mem ∈ members
  uniq : ∀ m' ∈ members, m'.tree.name = mem.tree.name → m' = mem
  others : ∀ m, m ∈ members → m.tree.name ≠ mem.tree.name → ∀ k, k ∈ m.tree.allNames → k ∈ N
  tree : TreeOK N mem.tree
  secs : ∀ m, m ∈ members → m.tfName = mem.tfName → m.tfSecs = mem.tfSecs
  key : mem.tfName ≠ some defaultKey

/-- the manager the registered indicator `name` is attached to -/
def Hexital.memberManager (H : Hexital F) (name : String) : Option (Manager F) :=
  (dlookup name H.indicators).bind fun hi => dlookup hi.mgrKey H.managers

/-- same OHLCV / stamps / conversion state candle by candle, same entries under every key of `K` -/
def SameView (K : List String) (cs cs' : List (Candle F)) : Prop :=
  cs.map Candle.core = cs'.map Candle.core ∧ ∀ k, k ∈ K → storedUnder k cs = storedUnder k cs'

omit [PyF F] in
theorem SameView.refl (K : List String) (cs : List (Candle F)) : SameView K cs cs := ⟨rfl, fun _ _ => rfl⟩

omit [PyF F] in
theorem SameView.symm {K : List String} {cs cs' : List (Candle F)} (h : SameView K cs cs') : SameView K cs' cs :=
  ⟨h.1.symm, fun k hk => (h.2 k hk).symm⟩

omit [PyF F] in
theorem SameView.trans {K : List String} {a b c : List (Candle F)} (h1 : SameView K a b) (h2 : SameView K b c) :
    SameView K a c :=
  ⟨h1.1.trans h2.1, fun k hk => (h1.2 k hk).trans (h2.2 k hk)⟩

omit [PyF F] in
theorem SameView.length_eq {K : List String} {a b : List (Candle F)} (h : SameView K a b) : a.length = b.length := by
  have := congrArg List.length h.1
  simpa using this

omit [PyF F] in
theorem storedUnder_drop (k : String) (cs : List (Candle F)) (d : Nat) :
    storedUnder k (cs.drop d) = (storedUnder k cs).drop d := by
  unfold storedUnder; rw [List.map_drop]

omit [PyF F] in
/-- dropping the same number of leading candles on both sides -/
theorem SameView.drop {K : List String} {a b : List (Candle F)} (h : SameView K a b) (d : Nat) :
    SameView K (a.drop d) (b.drop d) :=
  ⟨by rw [List.map_drop, List.map_drop, h.1], fun k hk => by
    rw [storedUnder_drop, storedUnder_drop, h.2 k hk]⟩

omit [PyF F] in
/-- the view of a list stripped of entries under other names -/
theorem SameView.of_stripEq {K M : List String} {a b : List (Candle F)} (h : StripEq M a b)
    (hdisj : ∀ k, k ∈ K → k ∉ M) : SameView K a b :=
  ⟨h.agreeOff.core_eq.symm, fun k hk => h.agreeOff.storedUnder_eq (hdisj k hk)⟩

/-! ### the effective configuration -/

/-- the member's effective timeframe: its own if it has one, else the Hexital's -/
def Member.effTf (a : Member F) (htf : Option Int) : Option Int :=
  match a.tfName with
  | some _ => a.tfSecs
  | none => htf

omit [PyF F] in
theorem Member.effCfg_eq (a : Member F) (cfg : MgrCfg) : a.effCfg cfg = { cfg with tf := a.effTf cfg.tf } := by
  unfold Member.effCfg Member.effTf
  cases a.tfName <;> rfl

omit [PyF F] in
theorem Member.effCfg_none (a : Member F) (cfg : MgrCfg) (h : a.tfName = none) : a.effCfg cfg = cfg := by
  unfold Member.effCfg; rw [h]

/-! ### the member's manager, readings aside, is the bare manager -/

/-- the chunks a program appends -/
def TwinOp.appended : TwinOp F → List (List (Candle F))
  | .append new => [new]
  | _ => []

/-- all chunks appended by a program, in order -/
def appendedBy (ops : List (TwinOp F)) : List (List (Candle F)) := ops.flatMap TwinOp.appended

omit [PyF F] in
theorem appendedBy_cons (op : TwinOp F) (ops : List (TwinOp F)) :
    appendedBy (op :: ops) = op.appended ++ appendedBy ops := by
  unfold appendedBy; rw [List.flatMap_cons]

omit [PyF F] in
theorem appendedBy_schedOps (chunks : List (List (Candle F))) : appendedBy (schedOps chunks) = chunks := by
  unfold schedOps
  rw [appendedBy_cons]
  show [] ++ appendedBy (chunks.map TwinOp.append) = chunks
  rw [List.nil_append]
  induction chunks with
  | nil => rfl
  | cons c r ih => rw [List.map_cons, appendedBy_cons, ih]; rfl

/-- the standalone object and a bare manager: same configuration, same candles up to the object's own entries -/
structure BareInv (s : IndState F) (m : Manager F) : Prop where
  cfg : s.mgr.cfg = m.cfg
  stripEq : StripEq s.tree.allNames s.mgr.candles m.candles

omit [PyF F] in
theorem BareInv.of_local {s s' : IndState F} {m : Manager F} (inv : BareInv s m) (h : IndState.Local s s') :
    BareInv s' m :=
  ⟨h.cfg.trans inv.cfg, by rw [h.tree]; exact (h.stripEq.symm).trans inv.stripEq⟩

/-- one `append`: the bare manager appends the same chunk -/
theorem BareInv.append {s s' : IndState F} {m : Manager F} (inv : BareInv s m) (new : List (Candle F))
    (h : s.append new = .ok s') : ∃ m', m.append new = .ok m' ∧ s'.tree = s.tree ∧ BareInv s' m' := by
  unfold IndState.append at h
  obtain ⟨m1, h1, h2⟩ := Writes.bind_ok h
  have hloc := IndState.calculate_local _ _ h2
  have e1 := Manager.append_strip (N := s.tree.allNames) s.mgr new
  have e2 := Manager.append_strip (N := s.tree.allNames) m new
  have hsame : ({ s.mgr with candles := s.mgr.candles.map (Hex.strip s.tree.allNames) } : Manager F)
      = { m with candles := m.candles.map (Hex.strip s.tree.allNames) } := by
    have hc := inv.cfg
    have hs : s.mgr.candles.map (Hex.strip s.tree.allNames) = m.candles.map (Hex.strip s.tree.allNames) := inv.stripEq
    rw [hs]
    cases hsm : s.mgr with
    | mk c1 cs1 =>
      cases m with
      | mk c2 cs2 =>
        rw [hsm] at hc
        simp only at hc
        subst hc
        rfl
  rw [hsame, e2, h1] at e1
  cases hm : m.append new with
  | error e => rw [hm] at e1; cases e1
  | ok m' =>
    rw [hm] at e1
    have e1' : ({ m' with candles := m'.candles.map (Hex.strip s.tree.allNames) } : Manager F)
        = { m1 with candles := m1.candles.map (Hex.strip s.tree.allNames) } := Except.ok.inj e1
    have hcfg : m'.cfg = m1.cfg := by injection e1'
    have hcs : m'.candles.map (Hex.strip s.tree.allNames) = m1.candles.map (Hex.strip s.tree.allNames) := by
      injection e1'
    refine ⟨m', rfl, hloc.tree, ?_⟩
    have inv1 : BareInv ({ s with mgr := m1 } : IndState F) m' := ⟨hcfg.symm, hcs.symm⟩
    exact inv1.of_local hloc

/-- any program on the standalone object: the bare manager takes the appends only -/
theorem BareInv.program (nm : String) :
    ∀ (ops : List (TwinOp F)) (s s' : IndState F) (m : Manager F), BareInv s m →
      ops.foldlM (TwinOp.runInd nm) s = .ok s' →
      ∃ m', (appendedBy ops).foldlM (fun (m : Manager F) ch => m.append ch) m = .ok m' ∧ s'.tree = s.tree ∧
        BareInv s' m' := by
  intro ops
  induction ops with
  | nil =>
    intro s s' m inv h
    cases h
    exact ⟨m, rfl, rfl, inv⟩
  | cons op rest ih =>
    intro s s' m inv h
    rw [List.foldlM_cons] at h
    obtain ⟨s1, h1, h2⟩ := Writes.bind_ok h
    rw [appendedBy_cons]
    -- every operation but `append` leaves the bare manager alone
    have hskip : ∀ s1 : IndState F, IndState.Local s s1 → op.appended = [] →
        rest.foldlM (TwinOp.runInd nm) s1 = .ok s' →
        ∃ m', (op.appended ++ appendedBy rest).foldlM (fun (m : Manager F) ch => m.append ch) m = .ok m' ∧
          s'.tree = s.tree ∧ BareInv s' m' := by
      intro s1 hloc hnil h2
      rw [hnil, List.nil_append]
      obtain ⟨m', e, ht, inv'⟩ := ih s1 s' m (inv.of_local hloc) h2
      exact ⟨m', e, ht.trans hloc.tree, inv'⟩
    have hrefl : IndState.Local s s := ⟨rfl, rfl, StripEq.refl _ _⟩
    cases op with
    | append new =>
      obtain ⟨m1, e1, ht1, inv1⟩ := inv.append new h1
      obtain ⟨m', e, ht, inv'⟩ := ih s1 s' m1 inv1 h2
      refine ⟨m', ?_, ht.trans ht1, inv'⟩
      show ([new] ++ appendedBy rest).foldlM _ m = _
      rw [List.singleton_append, List.foldlM_cons, e1]
      exact e
    | add ms => cases h1; exact hskip s hrefl rfl h2
    | calculate n =>
      by_cases hs : (n.isNone || n == some nm) = true
      · simp only [TwinOp.runInd, hs, if_true] at h1
        exact hskip s1 (IndState.calculate_local _ _ h1) rfl h2
      · simp only [TwinOp.runInd, hs, Bool.false_eq_true, if_false] at h1
        cases h1; exact hskip s hrefl rfl h2
    | calculateIndex n i =>
      by_cases hs : (n.isNone || n == some nm) = true
      · simp only [TwinOp.runInd, hs, if_true] at h1
        exact hskip s1 (IndState.calculateIndex_local _ _ _ _ h1) rfl h2
      · simp only [TwinOp.runInd, hs, Bool.false_eq_true, if_false] at h1
        cases h1; exact hskip s hrefl rfl h2
    | purge n =>
      by_cases hs : (n.isNone || n == some nm) = true
      · simp only [TwinOp.runInd, hs, if_true] at h1
        cases h1; exact hskip _ (IndState.purge_local s) rfl h2
      · simp only [TwinOp.runInd, hs, Bool.false_eq_true, if_false] at h1
        cases h1; exact hskip s hrefl rfl h2
    | recalculate n =>
      by_cases hs : (n.isNone || n == some nm) = true
      · simp only [TwinOp.runInd, hs, if_true] at h1
        exact hskip s1 (IndState.recalculate_local _ _ h1) rfl h2
      · simp only [TwinOp.runInd, hs, Bool.false_eq_true, if_false] at h1
        cases h1; exact hskip s hrefl rfl h2
    | remove n =>
      by_cases hs : (n.isNone || n == some nm) = true
      · simp only [TwinOp.runInd, hs, if_true] at h1
        cases h1; exact hskip _ (IndState.purge_local s) rfl h2
      · simp only [TwinOp.runInd, hs, Bool.false_eq_true, if_false] at h1
        cases h1; exact hskip s hrefl rfl h2

/-! ### configurations never change -/

theorem Manager.init_cfg {cfg : MgrCfg} {cs : List (Candle F)} {m : Manager F} (h : Manager.init cfg cs = .ok m) :
    m.cfg = cfg := by
  unfold Manager.init at h
  obtain ⟨cs', _, e⟩ := Writes.bind_ok h
  cases e; rfl

theorem Manager.append_cfg {m m' : Manager F} {new : List (Candle F)} (h : m.append new = .ok m') : m'.cfg = m.cfg := by
  unfold Manager.append at h
  split at h
  · cases h; rfl
  · obtain ⟨cs, _, e⟩ := Writes.bind_ok h
    cases e; rfl

theorem Manager.appends_cfg : ∀ (chs : List (List (Candle F))) (m m' : Manager F),
    chs.foldlM (fun (m : Manager F) ch => m.append ch) m = .ok m' → m'.cfg = m.cfg := by
  intro chs
  induction chs with
  | nil => intro m m' h; cases h; rfl
  | cons ch r ih =>
    intro m m' h
    rw [List.foldlM_cons] at h
    obtain ⟨m1, h1, h2⟩ := Writes.bind_ok h
    rw [ih m1 m' h2, Manager.append_cfg h1]

theorem runSched_cfg {cfg : MgrCfg} {init : List (Candle F)} {chunks : List (List (Candle F))} {bm : Manager F}
    (h : runSched cfg init chunks = .ok bm) : bm.cfg = cfg := by
  unfold runSched at h
  obtain ⟨m0, h0, h1⟩ := Writes.bind_ok h
  rw [Manager.appends_cfg _ _ _ h1, Manager.init_cfg h0]

/-- the standalone object under any program: readings aside its manager is the bare manager fed the appended chunks;
in particular its configuration is the one it was constructed with -/
theorem twin_program_bare (tree : Ind F) (cfg : MgrCfg) (init : List (Candle F)) (ops : List (TwinOp F)) (nm : String)
    (twin : IndState F)
    (ht : (do let s ← IndState.init tree cfg init
              ops.foldlM (TwinOp.runInd nm) s) = .ok twin) :
    ∃ bm, runSched cfg init (appendedBy ops) = .ok bm ∧ twin.tree = tree ∧ twin.mgr.cfg = cfg ∧
      StripEq tree.allNames twin.mgr.candles bm.candles := by
  obtain ⟨s0, h0, hfold⟩ := Writes.bind_ok ht
  unfold IndState.init at h0
  obtain ⟨m0, hm0, e0⟩ := Writes.bind_ok h0
  cases e0
  obtain ⟨bm, hbm, htree, inv⟩ := BareInv.program nm ops _ twin m0 ⟨rfl, StripEq.refl _ _⟩ hfold
  have hrs : runSched cfg init (appendedBy ops) = .ok bm := by
    unfold runSched
    rw [hm0]
    exact hbm
  exact ⟨bm, hrs, htree, inv.cfg.trans (runSched_cfg hrs), by rw [← show twin.tree = tree from htree]; exact inv.stripEq⟩

/-! ### the member and its standalone twin -/

omit [PyF F] in
theorem MemberHyps.dedupe {members : List (Member F)} {mem : Member F} (hm : MemberHyps N members mem) :
    mem ∈ Hexital.dedupe members := Hexital.mem_dedupe_of_unique members mem hm.isMem hm.uniq

/-- **Any program.**  `member_standalone_tf` with the hypotheses bundled and the conclusion in the vocabulary above:
the standalone twin (the member's tree over `Manager.init (mem.effCfg cfg) init`, driven by the same program,
operations aimed at other members skipped) runs, the member's manager has the twin's configuration and shows the
twin's view, columns read through the Hexital are the twin's. -/
theorem member_program {members : List (Member F)} {mem : Member F} (hm : MemberHyps N members mem)
    (cfg : MgrCfg) (tf : Option String) (init : List (Candle F)) (ops : List (TwinOp F)) (H : Hexital F)
    (hops : ∀ op, op ∈ ops → op.OK N mem.tree.name)
    (hrun : runHexital cfg tf init members ops = .ok H) :
    ∃ twin m, (do let s ← IndState.init mem.tree (mem.effCfg cfg) init
                  ops.foldlM (TwinOp.runInd mem.tree.name) s) = .ok twin ∧
      twin.tree = mem.tree ∧
      H.memberManager mem.tree.name = some m ∧ m.cfg = mem.effCfg cfg ∧
      SameView mem.tree.allNames m.candles twin.mgr.candles ∧
      (∀ name, (splitDot name).headD "" = mem.tree.name → readOK N name = true →
        H.readingAsList name = .ok (twin.asList (some name))) := by
  obtain ⟨twin, hrun', ht, inv⟩ := member_twin cfg tf init members mem ops H hm.dedupe
    (fun m hmm he _ => hm.secs m (Hexital.dedupe_sub members m hmm) he)
    (fun m hmm => hm.others m (Hexital.dedupe_sub members m hmm)) hm.tree hops hrun
  unfold runTwin at hrun'
  rw [twinInit_eq_init mem cfg init (Writes.key_of_ne hm.key)] at hrun'
  obtain ⟨hi, m, h1, _, h3, h4, h5, h6⟩ := inv.readings (ht ▸ hm.tree)
  obtain ⟨_, _, _, hcfg, _⟩ := twin_program_bare _ _ _ _ _ _ hrun'
  refine ⟨twin, m, hrun', ht, ?_, h4.trans hcfg, ⟨h5, fun k hk => h6 k (ht ▸ hk)⟩,
    fun name hp hr => inv.column name hp hr⟩
  unfold Hexital.memberManager
  rw [h1]; exact h3

/-- the program of a schedule: `calculate()`, then the appends -/
theorem runHexital_schedOps (cfg : MgrCfg) (tf : Option String) (init : List (Candle F))
    (members : List (Member F)) (chunks : List (List (Candle F))) :
    runHexital cfg tf init members (schedOps chunks) = (do
      let h ← Hexital.init cfg tf init members
      let h ← h.calculate none
      chunks.foldlM (fun (h : Hexital F) ch => h.append ch) h) := by
  unfold runHexital
  cases Hexital.init cfg tf init members with
  | error e => rfl
  | ok h0 => exact schedOps_runHex chunks h0

theorem runIndicator_schedOps (tree : Ind F) (cfg : MgrCfg) (init : List (Candle F))
    (chunks : List (List (Candle F))) (nm : String) :
    (do let s ← IndState.init tree cfg init
        (schedOps chunks).foldlM (TwinOp.runInd nm) s) = runIndicator tree cfg init chunks := by
  unfold runIndicator
  cases IndState.init tree cfg init with
  | error e => rfl
  | ok s0 => exact schedOps_runInd chunks nm s0

/-- the Hexital of a schedule: construct, `calculate()`, append chunk by chunk -/
def runHexSched (cfg : MgrCfg) (tf : Option String) (init : List (Candle F)) (members : List (Member F))
    (chunks : List (List (Candle F))) : PyM (Hexital F) := do
  let h ← Hexital.init cfg tf init members
  let h ← h.calculate none
  chunks.foldlM (fun (h : Hexital F) ch => h.append ch) h

/-- **Any append schedule** (`members_all` with the twin's run derived instead of assumed): the standalone twin
`runIndicator mem.tree (mem.effCfg cfg) init chunks` returns, and the member's manager shows its view. -/
theorem member_sched {members : List (Member F)} {mem : Member F} (hm : MemberHyps N members mem)
    (cfg : MgrCfg) (tf : Option String) (init : List (Candle F)) (chunks : List (List (Candle F))) (H : Hexital F)
    (hrun : runHexSched cfg tf init members chunks = .ok H) :
    ∃ twin m, runIndicator mem.tree (mem.effCfg cfg) init chunks = .ok twin ∧ twin.tree = mem.tree ∧
      H.memberManager mem.tree.name = some m ∧ m.cfg = mem.effCfg cfg ∧
      SameView mem.tree.allNames m.candles twin.mgr.candles ∧
      (∀ name, (splitDot name).headD "" = mem.tree.name → readOK N name = true →
        H.readingAsList name = .ok (twin.asList (some name))) := by
  have h := member_program hm cfg tf init (schedOps chunks) H (schedOps_ok chunks _)
    (by rw [runHexital_schedOps]; exact hrun)
  rw [runIndicator_schedOps] at h
  exact h

/-- **Every member's manager is, readings aside, the bare manager over the raw stream.**  For every Hexital-level
configuration, member set, construction candles and program (appends, `calculate` / `calculate_index` / `purge` /
`recalculate` with or without a name, `add_indicator` / `remove_indicator` of others): the `CandleManager` with the
member's effective configuration constructed from the same candles and fed the appended chunks (`runSched`) returns
`bm`, and the member's manager has `bm`'s configuration and `bm`'s candles as far as OHLCV, timestamps and conversion
state go (`Candle.core`: everything but the two reading dicts). -/
theorem member_manager_bare {members : List (Member F)} {mem : Member F} (hm : MemberHyps N members mem)
    (cfg : MgrCfg) (tf : Option String) (init : List (Candle F)) (ops : List (TwinOp F)) (H : Hexital F)
    (hops : ∀ op, op ∈ ops → op.OK N mem.tree.name)
    (hrun : runHexital cfg tf init members ops = .ok H) :
    ∃ m bm, H.memberManager mem.tree.name = some m ∧ runSched (mem.effCfg cfg) init (appendedBy ops) = .ok bm ∧
      m.cfg = bm.cfg ∧ m.candles.map Candle.core = bm.candles.map Candle.core := by
  obtain ⟨twin, m, ht, _, hmm, hcfg, hview, _⟩ := member_program hm cfg tf init ops H hops hrun
  obtain ⟨bm, hbm, _, _, hstrip⟩ := twin_program_bare _ _ _ _ _ _ ht
  exact ⟨m, bm, hmm, hbm, hcfg.trans (runSched_cfg hbm).symm, hview.1.trans hstrip.agreeOff.core_eq.symm⟩

/-- the schedule form -/
theorem member_manager_bare_sched {members : List (Member F)} {mem : Member F} (hm : MemberHyps N members mem)
    (cfg : MgrCfg) (tf : Option String) (init : List (Candle F)) (chunks : List (List (Candle F))) (H : Hexital F)
    (hrun : runHexSched cfg tf init members chunks = .ok H) :
    ∃ m bm, H.memberManager mem.tree.name = some m ∧ runSched (mem.effCfg cfg) init chunks = .ok bm ∧
      m.cfg = bm.cfg ∧ m.candles.map Candle.core = bm.candles.map Candle.core := by
  have h := member_manager_bare hm cfg tf init (schedOps chunks) H (schedOps_ok chunks _)
    (by rw [runHexital_schedOps]; exact hrun)
  rw [appendedBy_schedOps] at h
  exact h

/-- the transfer step: whatever the bare manager with the member's effective configuration ends with, the member's
manager ends with (readings aside) -/
theorem member_manager_of_bare {members : List (Member F)} {mem : Member F} (hm : MemberHyps N members mem)
    (cfg : MgrCfg) (tfn : Option String) (init : List (Candle F)) (ops : List (TwinOp F)) (H : Hexital F)
    (hops : ∀ op, op ∈ ops → op.OK N mem.tree.name)
    (hrun : runHexital cfg tfn init members ops = .ok H)
    (ecfg : MgrCfg) (he : mem.effCfg cfg = ecfg) (X : List (Candle F))
    (hbare : runSched ecfg init (appendedBy ops) = .ok { cfg := ecfg, candles := X }) :
    ∃ m, H.memberManager mem.tree.name = some m ∧ m.cfg = ecfg ∧ m.candles.map Candle.core = X.map Candle.core := by
  obtain ⟨m, bm, h1, h2, h3, h4⟩ := member_manager_bare hm cfg tfn init ops H hops hrun
  rw [he, hbare] at h2
  cases h2
  exact ⟨m, h1, h3, h4⟩

/-! ### decidable forms of `MemberHyps` -/

omit [PyF F] in
theorem MemberHyps.of_b (members : List (Member F)) (mem : Member F) (N : List String)
    (hnd : (members.map (·.tree.name)).Nodup)
    (h2 : (C13.othersNames mem.tree.name members).all N.contains = true) (h3 : treeOKb N mem.tree = true)
    (h4 : members.all (fun m => m.tfName != mem.tfName || m.tfSecs == mem.tfSecs) = true)
    (h5 : mem.tfName ≠ some defaultKey) (hmem : mem ∈ members) : MemberHyps N members mem :=
  ⟨hmem, Member.uniq_of_nodup members mem hmem hnd, Member.others_of_b members mem N h2, treeOK_of_b h3,
   Member.secs_of_b members mem h4, h5⟩

end Hex

#print axioms Hex.member_program
#print axioms Hex.member_sched
#print axioms Hex.member_manager_bare

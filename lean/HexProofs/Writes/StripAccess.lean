import HexProofs.Writes.Strip
import HexModel.Analysis.Movement
import HexModel.Analysis.Patterns
/-
Read-set locality, part 2: every read accessor returns the same on `cs.map (strip N)` as on `cs`,
provided the name it is asked for is `readOK` (cannot resolve to a key in `N`).
-/
namespace Hex
variable {F : Type} [PyF F]

/-- a reading name that cannot resolve to a key in `N`: for `main.nested` the part before the dot
is outside `N`; otherwise the name is a candle attribute or is itself outside `N` -/
def readOK (N : List String) (name : String) : Bool :=
  match splitDot name with
  | [main, _] => !N.contains main
  | _ => Candle.attrNames.contains name || !N.contains name

theorem Candle.attr_isSome (c : Candle F) (name : String) :
    (c.attr name).isSome = Candle.attrNames.contains name := by
  unfold Candle.attr Candle.attrNames
  repeat' split
  all_goals first
    | (rename_i h; subst h; rfl)
    | simp_all

theorem strip_attr (N : List String) (c : Candle F) (name : String) : (strip N c).attr name = c.attr name := rfl
@[simp] theorem strip_positive (N : List String) (c : Candle F) : (strip N c).positive = c.positive := rfl
@[simp] theorem strip_negative (N : List String) (c : Candle F) : (strip N c).negative = c.negative := rfl
@[simp] theorem strip_realbody (N : List String) (c : Candle F) : (strip N c).realbody = c.realbody := rfl
@[simp] theorem strip_shadowUpper (N : List String) (c : Candle F) : (strip N c).shadowUpper = c.shadowUpper := rfl
@[simp] theorem strip_shadowLower (N : List String) (c : Candle F) : (strip N c).shadowLower = c.shadowLower := rfl
@[simp] theorem strip_highLow (N : List String) (c : Candle F) : (strip N c).highLow = c.highLow := rfl

theorem readingByCandle_strip {N : List String} {name : String} (hr : readOK N name = true) (c : Candle F) :
    readingByCandle (strip N c) name = readingByCandle c name := by
  unfold readOK at hr
  unfold readingByCandle
  split
  · rename_i main nested hsp
    rw [hsp] at hr
    have hm : main ∉ N := by simpa using hr
    rw [strip_inds, strip_subs, Writes.dlookup_eraseAll_of_not_mem hm, Writes.dlookup_eraseAll_of_not_mem hm]
  · rename_i hns
    rw [strip_attr]
    cases ha : c.attr name with
    | some v => rfl
    | none =>
      have h1 : Candle.attrNames.contains name = false := by
        rw [← Candle.attr_isSome c name, ha]; rfl
      have hn : name ∉ N := by
        have h1' : name ∉ Candle.attrNames := by simpa using h1
        split at hr
        · rename_i main nested hsp; exact absurd hsp (hns main nested)
        · simp only [Bool.or_eq_true, Bool.not_eq_true', decide_eq_false_iff_not,
            List.contains_eq_mem, decide_eq_true_eq] at hr
          rcases hr with h | h
          · exact absurd h h1'
          · simpa using h
      dsimp only
      rw [strip_inds, strip_subs, Writes.dlookup_eraseAll_of_not_mem hn, Writes.dlookup_eraseAll_of_not_mem hn]

/-! ### indexing into a mapped list -/

omit [PyF F] in
theorem Writes.pyIndex_map {α β : Type} (g : α → β) (l : List α) (j : Int) :
    pyIndex (l.map g) j = g <$> pyIndex l j := by
  unfold pyIndex
  simp only [List.length_map]
  generalize (if j < 0 then (l.length : Int) + j else j) = k
  by_cases hk : k < 0
  · simp only [hk, if_true]; rfl
  · simp only [hk, if_false]
    rw [List.getElem?_map]
    generalize l[k.toNat]? = o
    cases o <;> rfl

omit [PyF F] in
theorem Writes.pySlice_map {α β : Type} (g : α → β) (l : List α) (a b : Int) :
    pySlice (l.map g) a b = (pySlice l a b).map g := by
  have key : ∀ s e : Int,
      (if s ≥ e then [] else ((l.map g).drop s.toNat).take (e - s).toNat)
        = (if s ≥ e then [] else (l.drop s.toNat).take (e - s).toNat).map g := by
    intro s e
    by_cases h : s ≥ e
    · simp only [h, if_true]; rfl
    · simp only [h, if_false]; rw [List.map_take, List.map_drop]
  unfold pySlice
  simp only [List.length_map]
  exact key _ _

variable {N : List String}

theorem readingByIndex_strip {name : String} (hr : readOK N name = true) (cs : List (Candle F)) (j : Int) :
    readingByIndex (cs.map (strip N)) name j = readingByIndex cs name j := by
  unfold readingByIndex
  simp only [List.length_map, Writes.pyIndex_map]
  split
  · cases pyIndex cs j with
    | error e => rfl
    | ok c => exact readingByCandle_strip hr c
  · rfl

theorem readingPeriod_strip {name : String} (hr : readOK N name = true) (cs : List (Candle F))
    (p : Int) (j : Int) : readingPeriod (cs.map (strip N)) p name j = readingPeriod cs p name j := by
  unfold readingPeriod
  simp only [List.length_map, readingByIndex_strip hr]

theorem map_readingByCandle_strip {name : String} (hr : readOK N name = true) (l : List (Candle F)) :
    (l.map (strip N)).map (fun c => readingByCandle c name) = l.map (fun c => readingByCandle c name) := by
  rw [List.map_map]
  apply List.map_congr_left
  intro c _
  exact readingByCandle_strip hr c

theorem candlesSum_strip {name : String} (hr : readOK N name = true) (cs : List (Candle F))
    (length : Int) (j : Int) : candlesSum (cs.map (strip N)) name length j = candlesSum cs name length j := by
  unfold candlesSum
  simp only [List.length_map, Writes.pySlice_map, map_readingByCandle_strip hr]

/-! ### the context accessors -/

theorem Ctx.reading_strip {name : String} (hr : readOK N name = true) (cs : List (Candle F)) (i : Int)
    (nm : String) (idx : Option Int) :
    Ctx.reading ⟨cs.map (strip N), i, nm⟩ name idx = Ctx.reading ⟨cs, i, nm⟩ name idx := by
  unfold Ctx.reading
  simp only [Writes.pyIndex_map]
  cases pyIndex cs (idx.getD i) with
  | error e => rfl
  | ok c => simp [readingByCandle_strip hr]

theorem Ctx.prevReading_strip {name : String} (hr : readOK N name = true) (cs : List (Candle F)) (i : Int)
    (nm : String) : Ctx.prevReading ⟨cs.map (strip N), i, nm⟩ name = Ctx.prevReading ⟨cs, i, nm⟩ name := by
  unfold Ctx.prevReading
  simp only [List.length_map, Ctx.reading_strip hr]

theorem Ctx.prevExists_strip {name : String} (hr : readOK N name = true) (cs : List (Candle F)) (i : Int)
    (nm : String) : Ctx.prevExists ⟨cs.map (strip N), i, nm⟩ name = Ctx.prevExists ⟨cs, i, nm⟩ name := by
  unfold Ctx.prevExists
  rw [Ctx.prevReading_strip hr]

theorem Ctx.readingPeriod_strip {name : String} (hr : readOK N name = true) (cs : List (Candle F)) (i : Int)
    (nm : String) (p : Int) (idx : Option Int) :
    Ctx.readingPeriod ⟨cs.map (strip N), i, nm⟩ p name idx = Ctx.readingPeriod ⟨cs, i, nm⟩ p name idx := by
  unfold Ctx.readingPeriod
  exact Hex.readingPeriod_strip hr cs p _

theorem Ctx.candlesSum_strip {name : String} (hr : readOK N name = true) (cs : List (Candle F)) (i : Int)
    (nm : String) (len : Int) (idx : Option Int) :
    Ctx.candlesSum ⟨cs.map (strip N), i, nm⟩ len name idx = Ctx.candlesSum ⟨cs, i, nm⟩ len name idx := by
  unfold Ctx.candlesSum
  exact Hex.candlesSum_strip hr cs len _

theorem Ctx.num_strip {name : String} (hr : readOK N name = true) (cs : List (Candle F)) (i : Int)
    (nm : String) (idx : Option Int) :
    Ctx.num ⟨cs.map (strip N), i, nm⟩ name idx = Ctx.num ⟨cs, i, nm⟩ name idx := by
  unfold Ctx.num
  rw [Ctx.reading_strip hr]

theorem Ctx.prevNum_strip {name : String} (hr : readOK N name = true) (cs : List (Candle F)) (i : Int)
    (nm : String) : Ctx.prevNum ⟨cs.map (strip N), i, nm⟩ name = Ctx.prevNum ⟨cs, i, nm⟩ name := by
  unfold Ctx.prevNum
  rw [Ctx.prevReading_strip hr]

/-! ### candle fields are always readable -/

@[simp] theorem readOK_open (N : List String) : readOK N "open" = true := by unfold readOK; rfl
@[simp] theorem readOK_high (N : List String) : readOK N "high" = true := by unfold readOK; rfl
@[simp] theorem readOK_low (N : List String) : readOK N "low" = true := by unfold readOK; rfl
@[simp] theorem readOK_close (N : List String) : readOK N "close" = true := by unfold readOK; rfl
@[simp] theorem readOK_volume (N : List String) : readOK N "volume" = true := by unfold readOK; rfl

/-! ### `if` under `<$>` and `>>=` (specialised: the general `apply_ite` loops in `simp`) -/

omit [PyF F] in
theorem Writes.map_ite' {α β : Type} (g : α → β) (c : Prop) [Decidable c] (a b : PyM α) :
    g <$> (if c then a else b) = if c then g <$> a else g <$> b := by split <;> rfl

omit [PyF F] in
theorem Writes.ite_bind' {α β : Type} (c : Prop) [Decidable c] (a b : PyM α) (f : α → PyM β) :
    (if c then a else b) >>= f = if c then a >>= f else b >>= f := by split <;> rfl

end Hex

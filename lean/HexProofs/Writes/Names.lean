import HexModel.Core.Eval
/-
Key locality, part 2: the names of an indicator tree – `Ind.allNames` of the model: its own name
and, recursively, the names of its sub-indicators and managed helpers (what `purge` removes).
-/
namespace Hex
variable {F : Type}

@[simp] theorem Ind.allNamesL_nil : Ind.allNamesL ([] : List (Ind F)) = [] := by simp [Ind.allNamesL]
@[simp] theorem Ind.allNamesL_cons (s : Ind F) (r : List (Ind F)) : Ind.allNamesL (s :: r) = s.allNames ++ Ind.allNamesL r := by
  simp [Ind.allNamesL]
@[simp] theorem Ind.allNamesM_nil : Ind.allNamesM ([] : List (String × Ind F)) = [] := by simp [Ind.allNamesM]
@[simp] theorem Ind.allNamesM_cons (p : String × Ind F) (r : List (String × Ind F)) :
    Ind.allNamesM (p :: r) = p.2.allNames ++ Ind.allNamesM r := by
  obtain ⟨k, m⟩ := p; simp [Ind.allNamesM]

theorem Ind.allNames_eq (i : Ind F) : i.allNames = i.name :: (Ind.allNamesL i.subs ++ Ind.allNamesM i.managed) := by
  cases i; simp [Ind.allNames, Ind.name, Ind.subs, Ind.managed]

theorem Ind.allNamesL_eq_flatMap (l : List (Ind F)) : Ind.allNamesL l = l.flatMap Ind.allNames := by
  induction l with
  | nil => simp
  | cons s r ih => simp [ih]

theorem Ind.allNamesM_eq_flatMap (l : List (String × Ind F)) : Ind.allNamesM l = l.flatMap (fun p => p.2.allNames) := by
  induction l with
  | nil => simp
  | cons s r ih => simp [ih]

theorem Ind.name_mem_names (i : Ind F) : i.name ∈ i.allNames := by
  rw [Ind.allNames_eq]; simp

theorem Ind.subs_names_sub (i : Ind F) : ∀ k, k ∈ Ind.allNamesL i.subs → k ∈ i.allNames := by
  intro k hk; rw [Ind.allNames_eq]; simp [hk]

theorem Ind.managed_names_sub (i : Ind F) : ∀ k, k ∈ Ind.allNamesM i.managed → k ∈ i.allNames := by
  intro k hk; rw [Ind.allNames_eq]; simp [hk]

theorem names_sub_allNamesL {s : Ind F} {l : List (Ind F)} (h : s ∈ l) : ∀ k, k ∈ s.allNames → k ∈ Ind.allNamesL l := by
  intro k hk
  rw [Ind.allNamesL_eq_flatMap]
  exact List.mem_flatMap.2 ⟨s, h, hk⟩

theorem Writes.dlookup_mem {α : Type} {key : String} {v : α} {l : List (String × α)}
    (h : dlookup key l = some v) : (key, v) ∈ l := by
  induction l with
  | nil => simp at h
  | cons p r ih =>
    obtain ⟨k', v'⟩ := p
    unfold dlookup at h
    split at h
    · rename_i hk; cases h; subst hk; simp
    · exact List.mem_cons_of_mem _ (ih h)

theorem names_sub_allNamesM {key : String} {m : Ind F} {l : List (String × Ind F)}
    (h : dlookup key l = some m) : ∀ k, k ∈ m.allNames → k ∈ Ind.allNamesM l := by
  intro k hk
  rw [Ind.allNamesM_eq_flatMap]
  exact List.mem_flatMap.2 ⟨(key, m), Writes.dlookup_mem h, hk⟩

/-- a managed helper obtained through `getManaged` writes only names of its parent's tree -/
theorem Ind.getManaged_names {i m : Ind F} {key : String} (h : i.getManaged key = .ok m) :
    ∀ k, k ∈ m.allNames → k ∈ i.allNames := by
  unfold Ind.getManaged at h
  split at h
  · rename_i m' hm; cases h
    exact fun k hk => i.managed_names_sub k (names_sub_allNamesM hm k hk)
  · cases h

end Hex

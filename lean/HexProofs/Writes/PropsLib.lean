import HexProofs.Writes.Twin
import HexProofs.Lib.IntInst
/-
Definitions and bridging lemmas used by the statements of HexProps/C13.lean and HexProps/C08.lean
(kept here so that the property files contain property theorems only).
-/
namespace Hex

/-- did the run succeed? (used by the non-vacuity examples) -/
def isOk {α : Type} : PyM α → Bool
  | .ok _ => true
  | .error _ => false

namespace C13
variable {F : Type} [PyF F]

/-- two members of a Hexital, registered under the names of their trees, whose trees write under
disjoint sets of names (own name, sub-indicators, managed helpers – at every depth) -/
structure Pair (h : Hexital F) (a b : String) (ta tb : HxInd F) : Prop where
  ha : dlookup a h.indicators = some ta
  hb : dlookup b h.indicators = some tb
  disjoint : ∀ k, k ∈ ta.tree.allNames → k ∉ tb.tree.allNames

/-- what "the readings of `a` are unchanged" means: (i) every reading entry stored under a name of
`a`'s tree is the same on every candle of every manager, in both dicts; (ii) `a` is still registered
with the same tree on the same manager; (iii) `reading_as_list(name)` returns the same column for
every `name` that is not one of `b`'s keys (`name` itself and its part before the dot) -/
structure Untouched (a : String) (ta tb : HxInd F) (h h' : Hexital F) : Prop where
  stored : StoredSame ta.tree.allNames h.managers h'.managers
  registered : ∃ ta', dlookup a h'.indicators = some ta' ∧ ta'.tree = ta.tree ∧ ta'.mgrKey = ta.mgrKey
  asList : ∀ name, name ∉ tb.tree.allNames → (splitDot name).headD "" ∉ tb.tree.allNames →
    (splitDot name).headD "" ≠ tb.tree.name → h'.readingAsList name = h.readingAsList name

theorem untouched_of_agree {h h' : Hexital F} {a b : String} {ta tb : HxInd F} (p : Pair h a b ta tb)
    (hh : HxAgreeOff tb.tree.allNames h h') : Untouched a ta tb h h' :=
  ⟨hh.mgrs.storedSame p.disjoint, hh.lookup a ta p.ha,
   fun name hk hp _ => Hexital.readingAsList_agree hh name hk hp⟩

/-- **`Hexital.remove_indicator(b)` does not touch the readings of `a`** (`b` registered under the
name of its tree, as `_validate_indicators` does). -/
theorem removeIndicator_untouched (h h' : Hexital F) (a b : String) (ta tb : HxInd F) (p : Pair h a b ta tb)
    (hkey : tb.tree.name = b) (hop : h.removeIndicator (some b) = .ok h') : Untouched a ta tb h h' := by
  obtain ⟨h1, e1, rfl⟩ := Hexital.removeIndicator_eq h h' b hop
  have u := untouched_of_agree p (Hexital.purge_agree h h1 b tb p.hb e1)
  have hab : b ≠ a := by
    intro e; subst e
    have := p.ha; rw [p.hb] at this; cases this
    exact p.disjoint _ (Ind.name_mem_names _) (Ind.name_mem_names _)
  refine ⟨u.stored, ?_, fun name hk hp hne => ?_⟩
  · obtain ⟨ta', hl, ht, hm⟩ := u.registered
    exact ⟨ta', by simp [dlookup_derase, hab, hl], ht, hm⟩
  · rw [← u.asList name hk hp hne]
    unfold Hexital.readingAsList
    have : b ≠ (splitDot name).headD "" := fun e => hne (e.symm.trans hkey.symm)
    simp only [dlookup_derase, this, if_false]
    rfl

/-- the names written by every member of `ms` other than the one named `nm` -/
def othersNames (nm : String) (ms : List (Member F)) : List String :=
  ms.flatMap fun m => if m.tree.name = nm then [] else m.tree.allNames

omit [PyF F] in
theorem othersNames_spec (nm : String) (ms : List (Member F)) (m : Member F) (hm : m ∈ ms)
    (hn : m.tree.name ≠ nm) : ∀ k, k ∈ m.tree.allNames → k ∈ othersNames nm ms :=
  fun k hk => List.mem_flatMap.2 ⟨m, hm, by simp [hn, hk]⟩


/-- decidable form of `Pair` -/
def pairB (h : Hexital Int) (a b : String) : Bool :=
  match dlookup a h.indicators, dlookup b h.indicators with
  | some ta, some tb => ta.tree.allNames.all fun k => !tb.tree.allNames.contains k
  | _, _ => false

theorem pair_of_pairB (h : Hexital Int) (a b : String) (hp : pairB h a b = true) :
    ∃ ta tb, Pair h a b ta tb := by
  unfold pairB at hp
  split at hp
  · rename_i ta tb ha hb
    refine ⟨ta, tb, ha, hb, fun k hk => ?_⟩
    have := (List.all_eq_true.1 hp) k hk
    simpa using this
  · cases hp

end C13

namespace C08
variable {F : Type} [PyF F]

/-- every manager of the Hexital: same key, same configuration, same candles OHLCV-wise -/
def SameBase (h h' : Hexital F) : Prop :=
  h'.managers.map (·.1) = h.managers.map (·.1) ∧
  ∀ key m, dlookup key h.managers = some m →
    ∃ m', dlookup key h'.managers = some m' ∧ m'.cfg = m.cfg ∧
      m'.candles.map Candle.core = m.candles.map Candle.core

omit [PyF F] in
theorem sameBase_of_agree {N : List String} {h h' : Hexital F} (hh : HxAgreeOff N h h') : SameBase h h' :=
  ⟨hh.mgrs.1, fun key m hm => hh.core_eq key m hm⟩

end C08
end Hex

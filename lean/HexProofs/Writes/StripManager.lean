import HexProofs.Writes.StripEngine
/-
Read-set locality, part 5: the candle manager never looks at the readings – collapsing, gap
filling, Heikin-Ashi conversion and trimming commute with `strip N`.
-/
namespace Hex
variable {F : Type} [PyF F] {N : List String}

omit [PyF F] in
theorem Writes.eraseAll_nil {α : Type} (N : List String) : eraseAll N ([] : List (String × α)) = [] := by
  rw [eraseAll_eq_filter]; rfl

omit [PyF F] in
theorem Writes.strip_reset (c : Candle F) : strip N c.reset = (strip N c).reset := by
  simp [strip, Candle.reset, Writes.eraseAll_nil]

omit [PyF F] in
theorem Writes.reset_strip (c : Candle F) : (strip N c).reset = c.reset := by
  simp [strip, Candle.reset]

omit [PyF F] in
theorem Writes.strip_reset' (c : Candle F) : strip N c.reset = c.reset := by
  rw [Writes.strip_reset, Writes.reset_strip]

omit [PyF F] in
theorem Writes.recoverClean_strip (c : Candle F) : (strip N c).recoverClean = strip N c.recoverClean := by
  unfold Candle.recoverClean
  simp only [strip_clean]
  cases c.clean <;> rfl

theorem Writes.merge_strip (a b : Candle F) : (strip N a).merge (strip N b) = strip N (a.merge b) := by
  unfold Candle.merge
  simp only [Writes.recoverClean_strip]
  rw [Writes.strip_reset']
  simp [strip, Candle.reset]

/-! ### collapsing -/

def WalkSt.strip (N : List String) (st : WalkSt F) : WalkSt F := { st with out := st.out.map (Hex.strip N) }

theorem collapseStep_strip (tf : Int) (st : WalkSt F) (c : Candle F) :
    collapseStep tf (st.strip N) (strip N c) = WalkSt.strip N <$> collapseStep tf st c := by
  unfold collapseStep WalkSt.strip
  cases hout : st.out with
  | nil => rfl
  | cons prev r =>
    simp only [List.map_cons, strip_ts]
    cases c.ts with
    | none => simp only [Functor.map, Except.map, hout, List.map_cons]
    | some t =>
      cases prev.ts with
      | none => simp only [Functor.map, Except.map, hout, List.map_cons]
      | some pt =>
        dsimp only
        repeat' split
        all_goals first
          | rfl
          | (simp only [Functor.map, Except.map, List.map_cons, Writes.merge_strip]; try rfl)

theorem collapseLoop_strip (tf : Int) (l : List (Candle F)) :
    ∀ st : WalkSt F, collapseLoop tf (st.strip N) (l.map (strip N)) = WalkSt.strip N <$> collapseLoop tf st l := by
  induction l with
  | nil => intro st; rfl
  | cons c rest ih =>
    intro st
    simp only [List.map_cons, collapseLoop]
    exact Writes.comm_bind (collapseStep_strip tf st c) (fun st' => ih st')

/-! ### gap filling -/

omit [PyF F] in
theorem strip_fillCandle (prev : Candle F) (t : Int) : strip N (fillCandle prev t) = fillCandle prev t := by
  simp [strip, fillCandle, Writes.eraseAll_nil]

omit [PyF F] in
theorem fillCandle_strip (prev : Candle F) (t : Int) : fillCandle (strip N prev) t = fillCandle prev t := by
  simp [fillCandle, Candle.rawClose]

omit [PyF F] in
theorem fillRun_strip (prev : Candle F) (tf t : Int) (n : Nat) :
    fillRun (strip N prev) tf t n = (fillRun prev tf t n).map (strip N) := by
  induction n generalizing t with
  | zero => rfl
  | succ n ih => simp only [fillRun, List.map_cons, fillCandle_strip, strip_fillCandle, ih]

omit [PyF F] in
theorem fillMissing_strip (tf : Int) (l : List (Candle F)) :
    fillMissing tf (l.map (strip N)) = List.map (strip N) <$> fillMissing tf l := by
  induction l with
  | nil => rfl
  | cons a rest ih =>
    cases rest with
    | nil => rfl
    | cons b rest' =>
      simp only [List.map_cons] at ih ⊢
      unfold fillMissing
      simp only [strip_ts]
      cases a.ts with
      | none =>
        dsimp only
        rw [ih]
        cases fillMissing tf (b :: rest') <;> rfl
      | some ta =>
        cases b.ts with
        | none => rfl
        | some tb =>
          dsimp only
          split
          · rfl
          · rw [ih, fillRun_strip]
            cases fillMissing tf (b :: rest') with
            | error e => rfl
            | ok r => simp [Functor.map, Except.map, bind, Except.bind, pure, Except.pure]

/-- `collapse_candles` (with the optional fill) -/
theorem collapseCandles_strip (tf : Option Int) (fill : Bool) (cs : List (Candle F)) :
    collapseCandles tf fill (cs.map (strip N)) = List.map (strip N) <$> collapseCandles tf fill cs := by
  unfold collapseCandles
  cases tf with
  | none => rfl
  | some tf =>
    cases cs with
    | nil => rfl
    | cons init rest =>
      simp only [List.map_cons, strip_ts]
      cases init.ts with
      | none => rfl
      | some t0 =>
        dsimp only
        have hinit : (if onTimeframe tf t0 = true then strip N init
            else { strip N init with ts := some (roundDown tf t0 + tf) })
            = strip N (if onTimeframe tf t0 = true then init else { init with ts := some (roundDown tf t0 + tf) }) := by
          split <;> rfl
        rw [hinit]
        have := collapseLoop_strip (N := N) tf rest
          { start := roundDown tf t0, end_ := roundDown tf t0 + tf,
            out := [if onTimeframe tf t0 = true then init else { init with ts := some (roundDown tf t0 + tf) }] }
        refine Writes.comm_bind this (fun st => ?_)
        simp only [WalkSt.strip, ← List.map_reverse]
        cases fill
        · rfl
        · exact fillMissing_strip tf _

/-! ### Heikin-Ashi conversion -/

omit [PyF F] in
theorem findConvIndex_scan_strip (cs : List (Candle F)) (j : Nat) :
    findConvIndex.scan (cs.map (strip N)) j = findConvIndex.scan cs j := by
  induction j with
  | zero =>
    unfold findConvIndex.scan
    simp only [List.getElem?_map, List.length_map, Option.map_map]
    rfl
  | succ j ih =>
    unfold findConvIndex.scan
    simp only [List.getElem?_map, Option.map_map, ih]
    rfl

omit [PyF F] in
theorem findConvIndex_strip (cs : List (Candle F)) : findConvIndex (cs.map (strip N)) = findConvIndex cs := by
  cases cs with
  | nil => rfl
  | cons c r =>
    have := findConvIndex_scan_strip (N := N) (c :: r) ((c :: r).length - 1)
    simp only [List.map_cons, List.length_cons] at this
    unfold findConvIndex
    simp only [List.map_cons, strip_tag, List.length_cons, List.length_map, this]

theorem haConvertCandle_strip (c : Candle F) (prev : Option (Candle F)) :
    haConvertCandle (strip N c) (prev.map (strip N)) = strip N <$> haConvertCandle c prev := by
  unfold haConvertCandle
  cases prev with
  | none =>
    simp only [Option.map_none, strip_o, strip_h, strip_l, strip_c]
    cases (((c.o.add c.h).add c.l).add c.c).truediv (Num.int 4) with
    | error e => rfl
    | ok nc => cases (c.o.add c.c).truediv (Num.int 2) <;> rfl
  | some p =>
    simp only [Option.map_some, strip_o, strip_h, strip_l, strip_c]
    cases (((c.o.add c.h).add c.l).add c.c).truediv (Num.int 4) with
    | error e => rfl
    | ok nc => cases (p.o.add p.c).truediv (Num.int 2) <;> rfl

theorem convertFrom_strip (rest : List (Candle F)) :
    ∀ done : List (Candle F), convertFrom (done.map (strip N)) (rest.map (strip N))
      = List.map (strip N) <$> convertFrom done rest := by
  induction rest with
  | nil => intro done; rfl
  | cons c r ih =>
    intro done
    simp only [List.map_cons, convertFrom]
    have h1 : (strip N c).saveClean = strip N c.saveClean := rfl
    have h2 : (done.map (strip N)).getLast? = done.getLast?.map (strip N) := by
      rw [List.getLast?_map]
    rw [h1, h2]
    refine Writes.comm_bind (haConvertCandle_strip c.saveClean done.getLast?) (fun c2 => ?_)
    have h3 : ({ (strip N c2).reset with tag := true } : Candle F) = strip N { c2.reset with tag := true } := by
      simp [strip, Candle.reset, Writes.eraseAll_nil]
    rw [h3]
    have := ih (done ++ [{ c2.reset with tag := true }])
    simpa only [List.map_append, List.map_cons, List.map_nil] using this

theorem convertCandles_strip (cs : List (Candle F)) :
    convertCandles (cs.map (strip N)) = List.map (strip N) <$> convertCandles cs := by
  unfold convertCandles
  simp only [findConvIndex_strip, ← List.map_take, ← List.map_drop]
  exact convertFrom_strip _ _

/-! ### trimming -/

omit [PyF F] in
theorem trimCandles_strip (lifespan : Option Int) (cs : List (Candle F)) :
    trimCandles lifespan (cs.map (strip N)) = List.map (strip N) <$> trimCandles lifespan cs := by
  unfold trimCandles
  rw [List.getLast?_map]
  cases lifespan with
  | none => rfl
  | some life =>
    cases cs.getLast? with
    | none => rfl
    | some lastC =>
      simp only [Option.map_some, strip_ts]
      cases lastC.ts with
      | none => rfl
      | some latest =>
        dsimp only
        have : (cs.map (strip N)).dropWhile (tooOld (latest - life))
            = (cs.dropWhile (tooOld (latest - life))).map (strip N) := by
          rw [List.dropWhile_map]
          rfl
        rw [this, List.isEmpty_map]
        split <;> rfl

/-! ### the manager -/

/-- **`CandleManager._tasks` never looks at the readings.** -/
theorem tasks_strip (cfg : MgrCfg) (cs : List (Candle F)) :
    tasks cfg (cs.map (strip N)) = List.map (strip N) <$> tasks cfg cs := by
  unfold tasks
  refine Writes.comm_bind (collapseCandles_strip cfg.tf cfg.fill cs) (fun cs1 => ?_)
  rw [List.isEmpty_map]
  dsimp only
  split
  · exact Writes.comm_bind (convertCandles_strip cs1) (fun cs2 => trimCandles_strip cfg.lifespan cs2)
  · exact trimCandles_strip cfg.lifespan cs1

theorem Manager.init_strip (cfg : MgrCfg) (cs : List (Candle F)) :
    Manager.init cfg (cs.map (strip N))
      = (fun m : Manager F => { m with candles := m.candles.map (strip N) }) <$> Manager.init cfg cs := by
  unfold Manager.init
  rw [tasks_strip]
  cases tasks cfg cs <;> rfl

theorem Manager.append_strip (m : Manager F) (new : List (Candle F)) :
    Manager.append { m with candles := m.candles.map (strip N) } (new.map (strip N))
      = (fun m : Manager F => { m with candles := m.candles.map (strip N) }) <$> m.append new := by
  unfold Manager.append
  rw [List.isEmpty_map]
  split
  · rfl
  · dsimp only
    rw [← List.map_append, tasks_strip]
    cases tasks m.cfg (m.candles ++ new) <;> rfl

end Hex

import HexModel.Core.Eval
/-
Key locality, part 1: the relation "two candle lists are equal except for the reading entries
stored under a given set of names", and the primitive writes of the framework that respect it.
-/
namespace Hex
variable {F : Type}

/-- two candles agree on every field and on every reading entry (top-level and helper dict)
whose key is NOT in `names` -/
structure CandleAgreeOff (names : List String) (a b : Candle F) : Prop where
  eo : a.o = b.o
  eh : a.h = b.h
  el : a.l = b.l
  ec : a.c = b.c
  ev : a.v = b.v
  ets : a.ts = b.ts
  etag : a.tag = b.tag
  eclean : a.clean = b.clean
  einds : ∀ k, k ∉ names → dlookup k a.inds = dlookup k b.inds
  esubs : ∀ k, k ∉ names → dlookup k a.subs = dlookup k b.subs

/-- same length and, position by position, `CandleAgreeOff` -/
def AgreeOff (names : List String) (cs cs' : List (Candle F)) : Prop :=
  cs.length = cs'.length ∧
  ∀ (i : Nat) (a b : Candle F), cs[i]? = some a → cs'[i]? = some b → CandleAgreeOff names a b

namespace CandleAgreeOff
variable {names names' : List String} {a b c : Candle F}

theorem refl (names : List String) (a : Candle F) : CandleAgreeOff names a a :=
  ⟨rfl, rfl, rfl, rfl, rfl, rfl, rfl, rfl, fun _ _ => rfl, fun _ _ => rfl⟩

theorem symm (h : CandleAgreeOff names a b) : CandleAgreeOff names b a :=
  ⟨h.eo.symm, h.eh.symm, h.el.symm, h.ec.symm, h.ev.symm, h.ets.symm, h.etag.symm, h.eclean.symm,
   fun k hk => (h.einds k hk).symm, fun k hk => (h.esubs k hk).symm⟩

theorem trans (h1 : CandleAgreeOff names a b) (h2 : CandleAgreeOff names b c) : CandleAgreeOff names a c :=
  ⟨h1.eo.trans h2.eo, h1.eh.trans h2.eh, h1.el.trans h2.el, h1.ec.trans h2.ec, h1.ev.trans h2.ev,
   h1.ets.trans h2.ets, h1.etag.trans h2.etag, h1.eclean.trans h2.eclean,
   fun k hk => (h1.einds k hk).trans (h2.einds k hk), fun k hk => (h1.esubs k hk).trans (h2.esubs k hk)⟩

theorem mono (hsub : ∀ k, k ∈ names → k ∈ names') (h : CandleAgreeOff names a b) :
    CandleAgreeOff names' a b :=
  ⟨h.eo, h.eh, h.el, h.ec, h.ev, h.ets, h.etag, h.eclean,
   fun k hk => h.einds k (fun hin => hk (hsub k hin)), fun k hk => h.esubs k (fun hin => hk (hsub k hin))⟩

/-- writing a top-level reading under a listed name -/
theorem set_inds (n : String) (v : Val F) (hn : n ∈ names) (a : Candle F) :
    CandleAgreeOff names a { a with inds := dset n v a.inds } :=
  ⟨rfl, rfl, rfl, rfl, rfl, rfl, rfl, rfl,
   fun k hk => by
     have : n ≠ k := fun e => hk (e ▸ hn)
     simp [dlookup_dset_ne n k v a.inds this],
   fun _ _ => rfl⟩

/-- writing a helper reading under a listed name -/
theorem set_subs (n : String) (v : Val F) (hn : n ∈ names) (a : Candle F) :
    CandleAgreeOff names a { a with subs := dset n v a.subs } :=
  ⟨rfl, rfl, rfl, rfl, rfl, rfl, rfl, rfl, fun _ _ => rfl,
   fun k hk => by
     have : n ≠ k := fun e => hk (e ▸ hn)
     simp [dlookup_dset_ne n k v a.subs this]⟩

end CandleAgreeOff

namespace AgreeOff
variable {names names' : List String} {cs cs' cs'' : List (Candle F)}

theorem refl (names : List String) (cs : List (Candle F)) : AgreeOff names cs cs :=
  ⟨rfl, fun _ a b ha hb => by rw [ha] at hb; cases hb; exact CandleAgreeOff.refl names a⟩

theorem symm (h : AgreeOff names cs cs') : AgreeOff names cs' cs :=
  ⟨h.1.symm, fun i a b ha hb => (h.2 i b a hb ha).symm⟩

theorem length_eq (h : AgreeOff names cs cs') : cs.length = cs'.length := h.1

theorem trans (h1 : AgreeOff names cs cs') (h2 : AgreeOff names cs' cs'') : AgreeOff names cs cs'' := by
  refine ⟨h1.1.trans h2.1, fun i a c ha hc => ?_⟩
  have hi : i < cs'.length := by
    have := (List.getElem?_eq_some_iff.1 ha).1
    rw [← h1.1]; exact this
  have hb : cs'[i]? = some cs'[i] := List.getElem?_eq_getElem hi
  exact (h1.2 i a _ ha hb).trans (h2.2 i _ c hb hc)

/-- monotone in the name set -/
theorem mono (hsub : ∀ k, k ∈ names → k ∈ names') (h : AgreeOff names cs cs') : AgreeOff names' cs cs' :=
  ⟨h.1, fun i a b ha hb => (h.2 i a b ha hb).mono hsub⟩

/-- position-wise reading of the definition with `getElem` -/
theorem getElem (h : AgreeOff names cs cs') (i : Nat) (hi : i < cs.length) :
    CandleAgreeOff names cs[i] (cs'[i]'(h.1 ▸ hi)) :=
  h.2 i _ _ (List.getElem?_eq_getElem hi) (List.getElem?_eq_getElem (h.1 ▸ hi))

/-- modifying one position by a function that only touches listed keys -/
theorem modify (f : Candle F → Candle F) (hf : ∀ c, CandleAgreeOff names c (f c)) (j : Nat)
    (cs : List (Candle F)) : AgreeOff names cs (cs.modify j f) := by
  refine ⟨by simp, fun i a b ha hb => ?_⟩
  rw [List.getElem?_modify, ha] at hb
  simp only [Option.map_eq_map, Option.map_some, Option.some.injEq] at hb
  subst hb
  split
  · exact hf a
  · exact CandleAgreeOff.refl names a

/-- mapping every candle by a function that only touches listed keys -/
theorem map (f : Candle F → Candle F) (hf : ∀ c, CandleAgreeOff names c (f c))
    (cs : List (Candle F)) : AgreeOff names cs (cs.map f) := by
  refine ⟨by simp, fun i a b ha hb => ?_⟩
  rw [List.getElem?_map, ha] at hb
  simp only [Option.map_some, Option.some.injEq] at hb
  subst hb
  exact hf a

end AgreeOff

/-! ### the framework's primitive writes -/

theorem updateAt_agree {names : List String} (f : Candle F → Candle F)
    (hf : ∀ c, CandleAgreeOff names c (f c)) (cs cs' : List (Candle F)) (i : Int)
    (h : updateAt cs i f = .ok cs') : AgreeOff names cs cs' := by
  unfold updateAt at h
  dsimp only at h
  generalize (if i < 0 then (cs.length : Int) + i else i) = j at h
  by_cases hc : j < 0 ∨ j ≥ cs.length
  · rw [if_pos hc] at h; cases h
  · rw [if_neg hc] at h; cases h; exact AgreeOff.modify f hf _ cs

/-- `_set_reading` writes only under the indicator's own name -/
theorem setReading_agree {names : List String} (isSub : Bool) (n : String) (hn : n ∈ names)
    (cs cs' : List (Candle F)) (i : Int) (v : Val F)
    (h : setReading isSub n cs i v = .ok cs') : AgreeOff names cs cs' := by
  unfold setReading at h
  refine updateAt_agree _ (fun c => ?_) cs cs' i h
  cases isSub
  · simpa using CandleAgreeOff.set_inds n v hn c
  · simpa using CandleAgreeOff.set_subs n v hn c

end Hex

import HexModel.Core.Settings
/-
The configuration-dict round trip of a Hexital member (property C08, "dicts obtained from an indicator's
`settings`"):  `build c.settings = .ok c`  for every post-`__post_init__` object `c` inside an explicit,
decidable domain `Valid`, the exact excluded cases as `…_counterexample`s, and the two negative facts.
-/
namespace Hex.Settings
open Hex

variable {F : Type}

/-! ### association-list facts -/

theorem dlookup_cons {α : Type} (k k' : String) (v : α) (r : List (String × α)) :
    dlookup k ((k', v) :: r) = if k' = k then some v else dlookup k r := rfl

theorem dlookup_none_of_keys {α : Type} (k : String) (l : List (String × α))
    (h : ∀ kv ∈ l, kv.1 ≠ k) : dlookup k l = none := by
  induction l with
  | nil => rfl
  | cons p r ih =>
    obtain ⟨k', v⟩ := p
    have h1 : k' ≠ k := h (k', v) (by simp)
    simp only [dlookup_cons, if_neg h1]
    exact ih fun kv hkv => h kv (by simp [hkv])

theorem dlookup_append_right {α : Type} (k : String) (l1 l2 : List (String × α))
    (h : ∀ kv ∈ l1, kv.1 ≠ k) : dlookup k (l1 ++ l2) = dlookup k l2 := by
  induction l1 with
  | nil => rfl
  | cons p r ih =>
    obtain ⟨k', v⟩ := p
    have h1 : k' ≠ k := h (k', v) (by simp)
    simp only [List.cons_append, dlookup_cons, if_neg h1]
    exact ih fun kv hkv => h kv (by simp [hkv])

theorem dlookup_append_left {α : Type} (k : String) (l1 l2 : List (String × α))
    (h : dlookup k l2 = none) : dlookup k (l1 ++ l2) = dlookup k l1 := by
  induction l1 with
  | nil => simpa using h
  | cons p r ih =>
    obtain ⟨k', v⟩ := p
    simp only [List.cons_append, dlookup_cons, ih]

theorem derase_of_keys {α : Type} (k : String) (l : List (String × α))
    (h : ∀ kv ∈ l, kv.1 ≠ k) : derase k l = l := by
  induction l with
  | nil => rfl
  | cons p r ih =>
    obtain ⟨k', v⟩ := p
    have h1 : k' ≠ k := h (k', v) (by simp)
    simp only [derase, if_neg h1]
    rw [ih fun kv hkv => h kv (by simp [hkv])]

theorem derase_append {α : Type} (k : String) (l1 l2 : List (String × α)) :
    derase k (l1 ++ l2) = derase k l1 ++ derase k l2 := by
  induction l1 with
  | nil => rfl
  | cons p r ih =>
    obtain ⟨k', v⟩ := p
    by_cases h1 : k' = k <;> simp [derase, h1, ih]

theorem dset_of_keys {α : Type} (k : String) (v : α) (l : List (String × α))
    (h : ∀ kv ∈ l, kv.1 ≠ k) : dset k v l = l ++ [(k, v)] := by
  induction l with
  | nil => rfl
  | cons p r ih =>
    obtain ⟨k', v'⟩ := p
    have h1 : k' ≠ k := h (k', v') (by simp)
    simp only [dset, if_neg h1, List.cons_append]
    rw [ih fun kv hkv => h kv (by simp [hkv])]

/-- `dict.update` with fresh, pairwise distinct keys appends -/
theorem dupdate_fresh (acc l : SDict F) (hn : (l.map Prod.fst).Nodup)
    (hd : ∀ kv ∈ acc, ∀ kv' ∈ l, kv.1 ≠ kv'.1) : dupdate acc l = acc ++ l := by
  induction l generalizing acc with
  | nil => simp [dupdate]
  | cons p r ih =>
    obtain ⟨k, v⟩ := p
    have hk : ∀ kv ∈ acc, kv.1 ≠ k := fun kv hkv => hd kv hkv (k, v) (by simp)
    simp only [List.map_cons, List.nodup_cons] at hn
    have : dupdate acc ((k, v) :: r) = dupdate (dset k v acc) r := rfl
    rw [this, dset_of_keys k v acc hk, ih _ hn.2]
    · simp
    · intro kv hkv kv' hkv'
      rcases List.mem_append.mp hkv with h | h
      · exact hd kv h kv' (by simp [hkv'])
      · simp only [List.mem_singleton] at h
        subst h
        intro he
        exact hn.1 (List.mem_map.mpr ⟨kv', hkv', he.symm⟩)

/-! ### the domain of the round trip -/

/-- a timeframe string as `validate_timeframe` leaves it: first character S/T/H/D, upper-casing changes nothing -/
def tfOk (s : String) : Bool :=
  match s.toList with
  | p :: _ => (p == 'S' || p == 'T' || p == 'H' || p == 'D') && (s.toList.map Char.toUpper == s.toList)
  | [] => false

/-- the analysis function can be named in a dict: it is a value of `PATTERN_MAP | MOVEMENT_MAP` -/
def AnaFn.inMaps : AnaFn → Bool
  | .above | .below => false
  | _ => true

/-- what the class adds to the domain -/
def IndCfg.clsOk (c : IndCfg F) : Bool :=
  match c.cls with
  | .macd f s _ _ => decide (f ≤ s)                 -- `_validate_fields` ordered them
  | .counter _ cv => !cv.isNone                     -- a `None` field is not emitted
  | .amorph fn args =>
    fn.inMaps && decide ((args.map Prod.fst).Nodup)   -- nameable in a dict; a dict has distinct keys
  | _ => true

def IndCfg.validB (c : IndCfg F) : Bool :=
  (match c.timeframe with
   | some s => tfOk s
   | none => !c.timeframe_fill)                     -- `timeframe_fill` is emitted only with a timeframe
  && c.clsOk

/-- post-`__post_init__` objects whose `settings` determine them -/
def IndCfg.Valid (c : IndCfg F) : Prop := c.validB = true

instance (c : IndCfg F) : Decidable c.Valid := by unfold IndCfg.Valid; infer_instance

theorem tfOk_validate {s : String} (h : tfOk s = true) : validateTimeframe s = .ok s := by
  unfold tfOk at h
  have hu : ∀ hl : s.toList.map Char.toUpper = s.toList, s.toUpper = s := fun hl => by
    apply String.toList_inj.mp
    rw [String.toUpper, String.toList_map, hl]
  cases hs : s.toList with
  | nil => simp [hs] at h
  | cons p r =>
    simp only [hs, Bool.and_eq_true, Bool.or_eq_true, beq_iff_eq] at h
    have hup := hu (by rw [hs]; exact h.2)
    simp only [validateTimeframe, hup, hs]
    rw [if_pos (by simpa [or_assoc] using h.1)]

theorem tfOk_ne_empty {s : String} (h : tfOk s = true) : s ≠ "" := by
  intro he; subst he; simp [tfOk] at h

theorem validateCs_minimal (t : CsType) : validateCs (.name t.minimalName) = .ok t := by
  cases t; rfl

theorem ofMapKey_name {fn : AnaFn} (h : fn.inMaps = true) : AnaFn.ofMapKey fn.name = some fn := by
  cases fn <;> first | rfl | simp [AnaFn.inMaps] at h

theorem anaName_ne_empty (fn : AnaFn) : fn.name ≠ "" := by
  cases fn <;> decide


/-! ### the base entries -/

/-- the base keywords `settings` can emit (`candles` is skipped) -/
def emittedKeys : List String :=
  ["fullname_override", "name_suffix", "round_value", "timeframe", "timeframe_fill", "candles_lifespan",
   "candlestick_type"]

theorem emitted_init {k : String} (h : k ∈ emittedKeys) : k ∈ initKeys := by
  simp only [emittedKeys, List.mem_cons, List.not_mem_nil, or_false] at h
  rcases h with h | h | h | h | h | h | h <;> subst h <;> decide

theorem emitted_ne_candles {k : String} (h : k ∈ emittedKeys) : k ≠ "candles" := by
  intro he; subst he; revert h; decide

theorem baseEntries_emitted (c : IndCfg F) : ∀ kv ∈ c.baseEntries, kv.1 ∈ emittedKeys := by
  obtain ⟨cls, o, s, r, tf, fill, life, cs⟩ := c
  cases o <;> cases s <;> cases tf <;> cases life <;> cases cs <;>
    simp [IndCfg.baseEntries, optE, emittedKeys]

theorem baseEntries_keys (c : IndCfg F) : ∀ kv ∈ c.baseEntries, kv.1 ∈ initKeys :=
  fun kv h => emitted_init (baseEntries_emitted c kv h)

theorem amorphEntries_emitted (c : IndCfg F) : ∀ kv ∈ c.amorphEntries, kv.1 ∈ emittedKeys := by
  obtain ⟨cls, o, s, r, tf, fill, life, cs⟩ := c
  cases o <;> cases s <;> cases tf <;> cases life <;> cases cs <;>
    simp [IndCfg.amorphEntries, optE, emittedKeys]

theorem ne_of_mem_initKeys {k k' : String} (h : k' ∈ initKeys) (hk : k ∉ initKeys) : k' ≠ k := by
  intro he; subst he; exact hk h

/-- a keyword that is no base field is looked up in the class's own entries -/
theorem dlookup_base_append (c : IndCfg F) (l : SDict F) (k : String) (hk : k ∉ initKeys) :
    dlookup k (c.baseEntries ++ l) = dlookup k l :=
  dlookup_append_right k _ _ fun kv hkv => ne_of_mem_initKeys (baseEntries_keys c kv hkv) hk

/-- the base fields bound from the settings of a std class: exactly the object's -/
theorem readBase_baseEntries (c : IndCfg F) (l : SDict F) (hl : ∀ k ∈ initKeys, dlookup k l = none) :
    readBase (c.baseEntries ++ l) = .ok ⟨c.fullname_override, c.name_suffix, c.round_value, c.timeframe,
      (if c.timeframe.isSome then c.timeframe_fill else false), c.candles_lifespan,
      c.candlestick_type.map fun t => .name t.minimalName⟩ := by
  have h1 := hl "fullname_override" (by decide)
  have h2 := hl "name_suffix" (by decide)
  have h4 := hl "timeframe" (by decide)
  have h5 := hl "timeframe_fill" (by decide)
  have h6 := hl "candles_lifespan" (by decide)
  have h7 := hl "candlestick_type" (by decide)
  obtain ⟨cls, o, s, r, tf, fill, life, cs⟩ := c
  cases o <;> cases s <;> cases tf <;> cases life <;> cases cs <;>
    simp [readBase, IndCfg.baseEntries, optE, dlookup_cons, kwOptStr, kwInt, kwBool, kwOptTd, kwCs,
      h1, h2, h4, h5, h6, h7, bind, Except.bind, pure, Except.pure]


/-! ### the standard classes -/

theorem postInit_base (c : IndCfg F) (hv : c.Valid) :
    postInit c.cls ⟨c.fullname_override, c.name_suffix, c.round_value, c.timeframe,
      (if c.timeframe.isSome then c.timeframe_fill else false), c.candles_lifespan,
      c.candlestick_type.map fun t => .name t.minimalName⟩ = .ok c := by
  obtain ⟨cls, o, s, r, tf, fill, life, cs⟩ := c
  simp only [IndCfg.Valid, IndCfg.validB, Bool.and_eq_true] at hv
  have ht := hv.1
  cases tf with
  | none =>
    simp only [Bool.not_eq_true'] at ht
    subst ht
    cases cs <;> simp [postInit, validateCs_minimal, bind, Except.bind, pure, Except.pure]
  | some t =>
    simp only at ht
    cases cs <;> simp [postInit, validateCs_minimal, tfOk_validate ht, bind, Except.bind, pure, Except.pure]

/-- `cls(**settings-without-"indicator")` for a class whose own entries `l` bind back to `c.cls` -/
theorem construct_settings (pc : PyClass F) (c : IndCfg F) (hv : c.Valid)
    (hkeys : ∀ kv ∈ c.cls.fields, kv.1 ∈ pc.keys)
    (hdisj : ∀ k ∈ initKeys, dlookup k c.cls.fields = none)
    (hctor : pc.ctor (c.baseEntries ++ c.cls.fields) = .ok c.cls) :
    construct pc (c.baseEntries ++ c.cls.fields) = .ok c := by
  have hall : (c.baseEntries ++ c.cls.fields).all (fun kv => decide (kv.1 ∈ initKeys ++ pc.keys)) = true := by
    rw [List.all_eq_true]
    intro kv hkv
    rcases List.mem_append.mp hkv with h | h
    · simpa using Or.inl (baseEntries_keys c kv h)
    · simpa using Or.inr (hkeys kv h)
  have hc : candlesOk (c.baseEntries ++ c.cls.fields) = .ok () := by
    have : dlookup "candles" (c.baseEntries ++ c.cls.fields) = none := by
      rw [dlookup_append_left _ _ _ (hdisj "candles" (by decide))]
      exact dlookup_none_of_keys _ _ fun kv hkv => emitted_ne_candles (baseEntries_emitted c kv hkv)
    simp [candlesOk, this]
  simp only [construct, hall, hctor, hc, readBase_baseEntries c _ hdisj, postInit_base c hv,
    bind, Except.bind, Bool.not_true]
  rfl


/-- the obligations of one class: its map key, its own keywords, its constructor on its own entries -/
theorem build_std_of [PyF F] (c : IndCfg F) (hv : c.Valid) (pc : PyClass F)
    (hset : c.settings = ("indicator", .str c.cls.name) :: (c.baseEntries ++ c.cls.fields))
    (hname : c.cls.name ≠ "" ∧ c.cls.name ≠ "Amorph")
    (hmap : indicatorMap c.cls.name = some pc)
    (hkeys : ∀ kv ∈ c.cls.fields, kv.1 ∈ pc.keys)
    (hpc : ∀ k ∈ pc.keys, k ∉ initKeys ∧ k ≠ "indicator")
    (hctor : pc.ctor (c.baseEntries ++ c.cls.fields) = .ok c.cls) :
    build c.settings = .ok c := by
  have hdisj : ∀ k ∈ initKeys, dlookup k c.cls.fields = none := fun k hk =>
    dlookup_none_of_keys _ _ fun kv hkv he => (hpc _ (hkeys kv hkv)).1 (he ▸ hk)
  have hder : derase "indicator" (c.baseEntries ++ c.cls.fields) = c.baseEntries ++ c.cls.fields := by
    apply derase_of_keys
    intro kv hkv
    rcases List.mem_append.mp hkv with h | h
    · intro he
      have := baseEntries_keys c kv h
      rw [he] at this
      revert this; decide
    · exact (hpc _ (hkeys kv h)).2
  have ht : (SVal.str c.cls.name : SVal F).truthy = true := by simp [SVal.truthy, hname.1]
  rw [hset]
  simp only [build, getTruthy, dlookup_cons, if_true, Option.filter, ht, hname.2, if_false, hmap, derase, hder]
  exact construct_settings pc c hv hkeys hdisj hctor


section perclass
variable [PyF F]

/-- discharges the six obligations of `build_std_of` for the class `pc` once `c.cls` is a constructor application -/
macro "std_class " pc:term : tactic => `(tactic|
  (refine build_std_of _ ‹_› $pc rfl (by simp [Cls.name]) rfl
      (by simp [Cls.fields, SVal.ofScalar?, SVal.ofNum, $pc:term]) (by simp [$pc:term, initKeys]) ?_
   simp [$pc:term, Cls.fields, kwInt, kwStr, kwStrReq, kwNum, kwScalar, kwOptInt, SVal.ofNum, SVal.ofScalar?,
     dlookup_base_append, initKeys, dlookup_cons, bind, Except.bind, pure, Except.pure, *]))

theorem build_settings_std (c : IndCfg F) (hv : c.Valid) (hna : ∀ fn args, c.cls ≠ .amorph fn args) :
    build c.settings = .ok c := by
  obtain ⟨cls, o, s, r, tf, fill, life, cs⟩ := c
  cases cls with
  | sma p i => std_class clsSMA
  | ema i p sm => cases sm <;> std_class clsEMA
  | rma p i => std_class clsRMA
  | wma i p => std_class clsWMA
  | vwma p => std_class clsVWMA
  | hma p i => std_class clsHMA
  | tr => std_class clsTR
  | atr p => std_class clsATR
  | stdev p i => std_class clsSTDEV
  | bbands p i => std_class clsBBANDS
  | kc p m i => cases m <;> std_class clsKC
  | donchian p => std_class clsDonchian
  | hl p => std_class clsHL
  | hla => std_class clsHLA
  | supertrend p m i => cases m <;> std_class clsSupertrend
  | stdevthres p m i => cases m <;> std_class clsSTDEVTHRES
  | counter i cv =>
    have hcv : cv.isNone = false := by
      simp only [IndCfg.Valid, IndCfg.validB, IndCfg.clsOk, Bool.and_eq_true, Bool.not_eq_true'] at hv
      exact hv.2
    cases cv with
    | none => simp [Scalar.isNone] at hcv
    | bool b => std_class clsCounter
    | num n => cases n <;> std_class clsCounter
  | rsi p i => std_class clsRSI
  | macd f sl g i =>
    have hfs : ¬ sl < f := by
      simp only [IndCfg.Valid, IndCfg.validB, IndCfg.clsOk, Bool.and_eq_true, decide_eq_true_eq] at hv
      omega
    std_class clsMACD
  | roc p i => std_class clsROC
  | stoch p sl k i => std_class clsSTOCH
  | tsi p sm i => std_class clsTSI
  | aroon p => std_class clsAROON
  | adx p sg => std_class clsADX
  | obv => std_class clsOBV
  | vwap p => std_class clsVWAP
  | amorph fn args => exact absurd rfl (hna fn args)

end perclass

/-! ### Amorph -/

section amorph
variable [PyF F]

theorem emitted_attr {k : String} (h : k ∈ emittedKeys) : k ∈ indicatorAttrs := by
  simp only [emittedKeys, List.mem_cons, List.not_mem_nil, or_false] at h
  rcases h with h | h | h | h | h | h | h <;> subst h <;> decide

omit [PyF F] in
theorem readBase_amorphEntries (c : IndCfg F) (htf : c.timeframe = none → c.timeframe_fill = false) :
    readBase c.amorphEntries = .ok ⟨c.fullname_override, c.name_suffix, c.round_value, c.timeframe,
      c.timeframe_fill, c.candles_lifespan, c.candlestick_type.map .obj⟩ := by
  obtain ⟨cls, o, s, r, tf, fill, life, cs⟩ := c
  cases o <;> cases s <;> cases tf <;> cases life <;> cases cs <;>
    simp_all [readBase, IndCfg.amorphEntries, optE, dlookup_cons, kwOptStr, kwInt, kwBool,
      kwOptTd, kwCs, bind, Except.bind, pure, Except.pure]

omit [PyF F] in
theorem postInit_amorph (c : IndCfg F) (cls : Cls F)
    (htf : ∀ s, c.timeframe = some s → tfOk s = true) :
    postInit cls ⟨c.fullname_override, c.name_suffix, c.round_value, c.timeframe,
      c.timeframe_fill, c.candles_lifespan, c.candlestick_type.map .obj⟩ = .ok { c with cls := cls } := by
  obtain ⟨cls0, o, s, r, tf, fill, life, cs⟩ := c
  cases tf with
  | none => cases cs <;> simp [postInit, validateCs, bind, Except.bind, pure, Except.pure]
  | some t =>
    have ht := htf t rfl
    cases cs <;> simp [postInit, validateCs, tfOk_validate ht, bind, Except.bind, pure, Except.pure]

theorem build_settings_amorph (c : IndCfg F) (fn : AnaFn) (args : SDict F) (hc : c.cls = .amorph fn args)
    (hv : c.Valid) : build c.settings = .ok c := by
  -- unpack the domain
  simp only [IndCfg.Valid, IndCfg.validB, IndCfg.clsOk, hc, Bool.and_eq_true, decide_eq_true_eq] at hv
  obtain ⟨htfv, hin, hnd⟩ := hv
  have htf : ∀ s, c.timeframe = some s → tfOk s = true := by
    intro s hs; rw [hs] at htfv; exact htfv
  have htf' : c.timeframe = none → c.timeframe_fill = false := by
    intro h; rw [h] at htfv; simpa using htfv
  -- the settings dict
  have hset : c.settings = ("analysis", .str fn.name) :: (c.amorphEntries ++ truthyE "args" (some (.dict args))) := by
    simp only [IndCfg.settings, hc]
  have hkeys := amorphEntries_emitted c
  have hne : ∀ (k : String), k ∉ emittedKeys → ∀ kv ∈ c.amorphEntries, kv.1 ≠ k :=
    fun k hk kv hkv he => hk (he ▸ hkeys kv hkv)
  have hargsE : ∀ kv ∈ truthyE "args" (some (SVal.dict args)), kv.1 = "args" := by
    intro kv hkv
    simp only [truthyE] at hkv
    split at hkv
    · simp only [List.mem_singleton] at hkv; rw [hkv]
    · simp at hkv
  -- "indicator" is absent, "analysis" names the function
  have h1 : dlookup "indicator" (c.amorphEntries ++ truthyE "args" (some (SVal.dict args))) = none := by
    apply dlookup_none_of_keys
    intro kv hkv
    rcases List.mem_append.mp hkv with h | h
    · exact hne _ (by decide) kv h
    · rw [hargsE kv h]; decide
  have ht : (SVal.str fn.name : SVal F).truthy = true := by simp [SVal.truthy, anaName_ne_empty]
  rw [hset]
  simp only [build, getTruthy, dlookup_cons, h1, Option.filter, ht, if_true, ofMapKey_name hin, derase]
  simp only [show ("analysis" = "indicator") = False by simp, if_false]
  -- the constructor
  have hder1 : derase "analysis" (c.amorphEntries ++ truthyE "args" (some (SVal.dict args)))
      = c.amorphEntries ++ truthyE "args" (some (SVal.dict args)) := by
    apply derase_of_keys
    intro kv hkv
    rcases List.mem_append.mp hkv with h | h
    · exact hne _ (by decide) kv h
    · rw [hargsE kv h]; decide
  have hargsV : dlookup "args" (c.amorphEntries ++ truthyE "args" (some (SVal.dict args)))
      = dlookup "args" (truthyE "args" (some (SVal.dict args))) :=
    dlookup_append_right _ _ _ (hne _ (by decide))
  have hder2 : derase "args" (c.amorphEntries ++ truthyE "args" (some (SVal.dict args))) = c.amorphEntries := by
    rw [derase_append, derase_of_keys _ _ (hne _ (by decide))]
    have : derase "args" (truthyE "args" (some (SVal.dict args))) = [] := by
      simp only [truthyE]; split <;> simp [derase]
    rw [this, List.append_nil]
  have hfa : c.amorphEntries.filter (fun kv => !decide (kv.1 ∈ indicatorAttrs)) = [] := by
    rw [List.filter_eq_nil_iff]
    intro kv hkv
    simp [emitted_attr (hkeys kv hkv)]
  have hfi : c.amorphEntries.filter (fun kv => decide (kv.1 ∈ indicatorAttrs)) = c.amorphEntries := by
    rw [List.filter_eq_self]
    intro kv hkv
    simp [emitted_attr (hkeys kv hkv)]
  have hall : c.amorphEntries.all (fun kv => decide (kv.1 ∈ initKeys)) = true := by
    rw [List.all_eq_true]
    intro kv hkv
    simpa using emitted_init (hkeys kv hkv)
  have hcand : candlesOk c.amorphEntries = .ok () := by
    have : dlookup "candles" c.amorphEntries = none :=
      dlookup_none_of_keys _ _ (hne _ (by decide))
    simp [candlesOk, this]
  simp only [constructAmorph, hder1, hargsV, hder2, hfa, hfi, hall, hcand,
    readBase_amorphEntries c htf', postInit_amorph c _ htf, bind, Except.bind, Bool.not_true]
  obtain ⟨cls0, o, s, r, tf, fill, life, cs⟩ := c
  simp only at hc
  subst hc
  simp only [Bool.false_eq_true, if_false, Except.ok.injEq, IndCfg.mk.injEq, Cls.amorph.injEq, true_and, and_true]
  cases args with
  | nil => simp [truthyE, SVal.truthy]
  | cons p r =>
    simp only [truthyE, SVal.truthy, List.isEmpty_cons, Bool.not_false, if_true, dlookup_cons]
    rw [dupdate_fresh [] _ hnd (by simp)]
    simp

end amorph

/-! ### the round trip -/

section main
variable [PyF F]

/-- **`settings` determines the object**: an indicator rebuilt by `Hexital._build_indicator` from the dict its
`settings` property returns is the same object (class, parameters and every public field) -/
theorem build_settings (c : IndCfg F) (h : c.Valid) : build c.settings = .ok c := by
  cases hc : c.cls <;>
    first
    | exact build_settings_amorph c _ _ hc h
    | exact build_settings_std c h (fun fn args he => by rw [hc] at he; cases he)

/-- … hence the same tree and name (for whatever `str(multiplier)` is) -/
theorem build_settings_toInd (c : IndCfg F) (h : c.Valid) (mulStr : String) :
    (build c.settings).map (fun c' => c'.toInd mulStr) = .ok (c.toInd mulStr) := by
  rw [build_settings c h]; rfl

/-- … and the same manager configuration -/
theorem build_settings_mgrCfg (c : IndCfg F) (h : c.Valid) :
    (build c.settings >>= fun c' => c'.mgrCfg) = c.mgrCfg := by
  rw [build_settings c h]; rfl

/-! ### the negative facts -/

/-- a dict with neither "indicator" nor "analysis": `InvalidAnalysis` -/
theorem build_missing_key (d : SDict F) (h1 : dlookup "indicator" d = none) (h2 : dlookup "analysis" d = none) :
    build d = .error .invalidConfig := by
  simp [build, getTruthy, h1, h2]

/-- … also when the keys are there but falsy (`if indicator.get("indicator")`) -/
theorem build_falsy_key (d : SDict F) (h1 : getTruthy d "indicator" = none) (h2 : getTruthy d "analysis" = none) :
    build d = .error .invalidConfig := by
  simp [build, h1, h2]

theorem mem_derase {α : Type} (k k' : String) (v : α) (l : List (String × α)) (h : (k, v) ∈ l) (hk : k ≠ k') :
    (k, v) ∈ derase k' l := by
  induction l with
  | nil => simp at h
  | cons p r ih =>
    obtain ⟨k2, v2⟩ := p
    by_cases h2 : k2 = k'
    · simp only [derase, if_pos h2]
      rcases List.mem_cons.mp h with he | he
      · cases he; exact absurd h2 hk
      · exact ih he
    · simp only [derase, if_neg h2]
      rcases List.mem_cons.mp h with he | he
      · rw [he]; simp
      · exact List.mem_cons_of_mem _ (ih he)

/-- a keyword the class does not have: `TypeError` (for every class reached through "indicator") -/
theorem build_unknown_keyword (d : SDict F) (name : String) (pc : PyClass F)
    (hname : dlookup "indicator" d = some (.str name)) (hne : name ≠ "") (hna : name ≠ "Amorph")
    (hmap : indicatorMap name = some pc)
    (k : String) (v : SVal F) (hk : (k, v) ∈ d) (hki : k ≠ "indicator") (hkn : k ∉ initKeys ++ pc.keys) :
    build d = .error .typeError := by
  have ht : (SVal.str name : SVal F).truthy = true := by simp [SVal.truthy, hne]
  have hall : (derase "indicator" d).all (fun kv => decide (kv.1 ∈ initKeys ++ pc.keys)) = false := by
    rw [List.all_eq_false]
    exact ⟨(k, v), mem_derase _ _ _ _ hk hki, by simpa using hkn⟩
  simp only [build, getTruthy, hname, Option.filter, ht, if_true, hna, if_false, hmap, construct, hall]
  rfl

end main

/-! ### the domain is inhabited by the ordinary objects -/

example : ({ cls := .macd 12 26 9 "close" } : IndCfg F).Valid := by rfl
example : ({ cls := .ema "close" 10 (.int 2), timeframe := some "T5", timeframe_fill := true,
             candlestick_type := some .ha, candles_lifespan := some 3600, name_suffix := some "" } : IndCfg F).Valid := by rfl
example : ({ cls := .amorph .rising [("indicator", .str "close"), ("length", .int 3)], timeframe := some "H1",
             round_value := 2 } : IndCfg F).Valid := by rfl
example : ({ cls := .amorph .invertedHammer [] } : IndCfg F).Valid := by rfl

/-! The witnesses of the former `amorph_round_zero_counterexample`, `amorph_zero_lifespan_counterexample` and
`amorph_empty_suffix_counterexample` (`Amorph.settings` dropped falsy values before repair 1b1f95f): they are
inside `Valid` now and the round trip holds on them. -/

example [PyF F] :
    let c : IndCfg F := { cls := .amorph .highest [("indicator", .str "close")], round_value := 0 }
    c.Valid ∧ build c.settings = .ok c := by
  intro c; exact ⟨rfl, rfl⟩
example [PyF F] :
    let c : IndCfg F := { cls := .amorph .positive [], candles_lifespan := some 0 }
    c.Valid ∧ build c.settings = .ok c := by
  intro c; exact ⟨rfl, rfl⟩
example [PyF F] :
    let c : IndCfg F := { cls := .amorph .positive [], name_suffix := some "" }
    c.Valid ∧ build c.settings = .ok c := by
  intro c; exact ⟨rfl, rfl⟩
example [PyF F] :
    let c : IndCfg F := { cls := .amorph .positive [], fullname_override := some "" }
    c.Valid ∧ build c.settings = .ok c := by
  intro c; exact ⟨rfl, rfl⟩
/-- `timeframe_fill = False` with a timeframe is emitted (and read back) explicitly -/
example [PyF F] :
    let c : IndCfg F := { cls := .amorph .rising [("indicator", .str "close")], timeframe := some "T5", round_value := 0 }
    c.Valid ∧ c.settings = [("analysis", .str "rising"), ("round_value", .int 0), ("timeframe", .str "T5"),
      ("timeframe_fill", .bool false), ("args", .dict [("indicator", .str "close")])] := by
  intro c; exact ⟨rfl, rfl⟩
example : ¬ ({ cls := .ema "close" 10 (.int 2), timeframe := some "t5" } : IndCfg F).Valid := by
  intro h; cases h

/-! ### what `settings` does NOT determine (each excluded from `Valid`, each witnessed) -/

section counterexamples
variable [PyF F]

/-- `Indicator.settings` skips `timeframe_fill` when there is no timeframe: the rebuilt object has the default -/
theorem fill_without_timeframe_counterexample :
    let c : IndCfg F := { cls := .sma 10 "close", timeframe_fill := true }
    ¬ c.Valid ∧ build c.settings = .ok { c with timeframe_fill := false } := by
  intro c
  exact ⟨fun h => (by cases h), rfl⟩

/-- an Amorph over a function that is in neither map (`above`, `below`, any user function) names it in its
settings, and the dict cannot be built -/
theorem amorph_unmapped_function_counterexample :
    let c : IndCfg F := { cls := .amorph .above [("indicator", .str "close"), ("indicator_two", .str "open")] }
    ¬ c.Valid ∧ build c.settings = .error .invalidConfig := by
  intro c
  exact ⟨fun h => (by cases h), rfl⟩

/-- a public field holding `None` is not emitted: `Counter(count_value=None)` comes back with the default -/
theorem counter_none_counterexample :
    let c : IndCfg F := { cls := .counter "close" .none }
    ¬ c.Valid ∧ build c.settings = .ok { c with cls := .counter "close" (.bool true) } := by
  intro c
  exact ⟨fun h => (by cases h), rfl⟩

/-- an unknown keyword of an Amorph is NOT an error: it becomes an analysis keyword … -/
example : build ([("analysis", .str "rising"), ("bogus", .int 1)] : SDict F)
    = .ok { cls := .amorph .rising [("bogus", .int 1)] } := by rfl
/-- … unless it is a non-`init` attribute of `Indicator` -/
example : build ([("analysis", .str "rising"), ("sub_indicators", .none)] : SDict F) = .error .typeError := by rfl
/-- the analysis keyword `indicator` cannot be written at the top level of the dict: it is taken for the class name -/
example : build ([("analysis", .str "rising"), ("indicator", .str "close")] : SDict F) = .error .invalidConfig := by rfl
example : build ([("indicator", .str "EMA"), ("perod", .int 3)] : SDict F) = .error .typeError := by rfl
example : build ([("period", .int 3)] : SDict F) = .error .invalidConfig := by rfl
/-- defaults and the MACD ordering of `_validate_fields` -/
example : build ([("indicator", .str "MACD"), ("fast_period", .int 30), ("round_value", .int 2)] : SDict F)
    = .ok { cls := .macd 26 30 9 "close", round_value := 2 } := by rfl
/-- TSI / ADX derived periods -/
example : build ([("indicator", .str "TSI"), ("period", .int 7)] : SDict F) = .ok { cls := .tsi 7 4 "close" } := by rfl
example : build ([("indicator", .str "ADX"), ("period", .int 7)] : SDict F) = .ok { cls := .adx 7 7 } := by rfl
/-- timeframe upper-casing -/
example : validateTimeframe "t5" = .ok "T5" := by
  have : "t5".toUpper = "T5" := String.toList_inj.mp (by rw [String.toUpper, String.toList_map]; decide)
  simp [validateTimeframe, this]
example : validateTimeframe "x5" = .error .invalidConfig := by
  have : "x5".toUpper = "X5" := String.toList_inj.mp (by rw [String.toUpper, String.toList_map]; decide)
  simp [validateTimeframe, this]

end counterexamples

end Hex.Settings

#print axioms Hex.Settings.build_settings
#print axioms Hex.Settings.build_settings_toInd
#print axioms Hex.Settings.build_unknown_keyword
#print axioms Hex.Settings.fill_without_timeframe_counterexample

import HexModel.Core.Settings
/-
The configuration-dict round trip of a Hexital member (property C08, "dicts obtained from an indicator's
`settings`"):  `build c.settings = .ok c`  for every post-`__post_init__` object `c` inside an explicit,
decidable domain `Valid`, the exact excluded cases as `…_counterexample`s, and the two negative facts.
-/
namespace Hex.Settings
open Hex

variable {F : Type}

/-! ### association-list facts -/

theorem dlookup_cons {α : Type} (k k' : String) (v : α) (r : List (String × α)) :
    dlookup k ((k', v) :: r) = if k' = k then some v else dlookup k r := rfl

theorem dlookup_none_of_keys {α : Type} (k : String) (l : List (String × α))
    (h : ∀ kv ∈ l, kv.1 ≠ k) : dlookup k l = none := by
  induction l with
  | nil => rfl
  | cons p r ih =>
    obtain ⟨k', v⟩ := p
    have h1 : k' ≠ k := h (k', v) (by simp)
    simp only [dlookup_cons, if_neg h1]
    exact ih fun kv hkv => h kv (by simp [hkv])

theorem dlookup_append_right {α : Type} (k : String) (l1 l2 : List (String × α))
    (h : ∀ kv ∈ l1, kv.1 ≠ k) : dlookup k (l1 ++ l2) = dlookup k l2 := by
  induction l1 with
  | nil => rfl
  | cons p r ih =>
    obtain ⟨k', v⟩ := p
    have h1 : k' ≠ k := h (k', v) (by simp)
    simp only [List.cons_append, dlookup_cons, if_neg h1]
    exact ih fun kv hkv => h kv (by simp [hkv])

theorem dlookup_append_left {α : Type} (k : String) (l1 l2 : List (String × α))
    (h : dlookup k l2 = none) : dlookup k (l1 ++ l2) = dlookup k l1 := by
  induction l1 with
  | nil => simpa using h
  | cons p r ih =>
    obtain ⟨k', v⟩ := p
    simp only [List.cons_append, dlookup_cons, ih]

theorem derase_of_keys {α : Type} (k : String) (l : List (String × α))
    (h : ∀ kv ∈ l, kv.1 ≠ k) : derase k l = l := by
  induction l with
  | nil => rfl
  | cons p r ih =>
    obtain ⟨k', v⟩ := p
    have h1 : k' ≠ k := h (k', v) (by simp)
    simp only [derase, if_neg h1]
    rw [ih fun kv hkv => h kv (by simp [hkv])]

theorem derase_append {α : Type} (k : String) (l1 l2 : List (String × α)) :
    derase k (l1 ++ l2) = derase k l1 ++ derase k l2 := by
  induction l1 with
  | nil => rfl
  | cons p r ih =>
    obtain ⟨k', v⟩ := p
    by_cases h1 : k' = k <;> simp [derase, h1, ih]

theorem dset_of_keys {α : Type} (k : String) (v : α) (l : List (String × α))
    (h : ∀ kv ∈ l, kv.1 ≠ k) : dset k v l = l ++ [(k, v)] := by
  induction l with
  | nil => rfl
  | cons p r ih =>
    obtain ⟨k', v'⟩ := p
    have h1 : k' ≠ k := h (k', v') (by simp)
    simp only [dset, if_neg h1, List.cons_append]
    rw [ih fun kv hkv => h kv (by simp [hkv])]

/-- `dict.update` with fresh, pairwise distinct keys appends -/
theorem dupdate_fresh (acc l : SDict F) (hn : (l.map Prod.fst).Nodup)
    (hd : ∀ kv ∈ acc, ∀ kv' ∈ l, kv.1 ≠ kv'.1) : dupdate acc l = acc ++ l := by
  induction l generalizing acc with
  | nil => simp [dupdate]
  | cons p r ih =>
    obtain ⟨k, v⟩ := p
    have hk : ∀ kv ∈ acc, kv.1 ≠ k := fun kv hkv => hd kv hkv (k, v) (by simp)
    simp only [List.map_cons, List.nodup_cons] at hn
    have : dupdate acc ((k, v) :: r) = dupdate (dset k v acc) r := rfl
    rw [this, dset_of_keys k v acc hk, ih _ hn.2]
    · simp
    · intro kv hkv kv' hkv'
      rcases List.mem_append.mp hkv with h | h
      · exact hd kv h kv' (by simp [hkv'])
      · simp only [List.mem_singleton] at h
        subst h
        intro he
        exact hn.1 (List.mem_map.mpr ⟨kv', hkv', he.symm⟩)

end Hex.Settings

import HexProofs.Framework.Names
/-
Every read accessor of the framework sees the candles only through a *column*
`col nm cs = cs.map (readingByCandle · nm)`: two lists with the same column for a name give the
same answers to every accessor asked about that name (key locality).  Plus closed forms of the
`prev_reading` accessors on a list of the shape `done ++ c :: rest` at index `done.length`.
-/
namespace Hex
set_option linter.unusedSectionVars false
variable {F : Type} [PyF F]

/-- the series of readings of one name over a candle list -/
def col (nm : String) (cs : List (Candle F)) : List (Val F) := cs.map fun c => readingByCandle c nm

theorem col_length (nm : String) (cs : List (Candle F)) : (col nm cs).length = cs.length := by
  simp [col]

theorem col_eq_length {nm : String} {cs cs' : List (Candle F)} (h : col nm cs = col nm cs') :
    cs.length = cs'.length := by
  rw [← col_length nm cs, h, col_length]

theorem getOrIndexError_map {α β : Type} (f : α → β) (o : Option α) :
    getOrIndexError (o.map f) = (getOrIndexError o).map f := by
  cases o <;> rfl

theorem pyIndex_map {α β : Type} (f : α → β) (l : List α) (j : Int) :
    pyIndex (l.map f) j = (pyIndex l j).map f := by
  unfold pyIndex
  simp only [List.length_map]
  rw [apply_ite (Except.map f), List.getElem?_map, getOrIndexError_map]
  rfl

theorem pySlice_map {α β : Type} (f : α → β) (l : List α) (a b : Int) :
    pySlice (l.map f) a b = (pySlice l a b).map f := by
  unfold pySlice
  simp only [List.length_map]
  rw [apply_ite (List.map f), List.map_take, List.map_drop]
  rfl

/-- reading a name off the candle at a Python index = indexing the column -/
theorem pyIndex_col (nm : String) (cs : List (Candle F)) (j : Int) :
    (do let c ← pyIndex cs j; pure (readingByCandle c nm)) = pyIndex (col nm cs) j := by
  unfold col
  rw [pyIndex_map]
  cases pyIndex cs j <;> rfl

theorem readingByIndex_col (nm : String) (cs : List (Candle F)) (j : Int) :
    readingByIndex cs nm j =
      if validIndex j (col nm cs).length then
        match pyIndex (col nm cs) j with
        | .ok v => v
        | .error _ => .none
      else .none := by
  unfold readingByIndex
  rw [col_length, ← pyIndex_col]
  cases pyIndex cs j <;> rfl

theorem readingByIndex_congr {nm : String} {cs cs' : List (Candle F)} (h : col nm cs = col nm cs')
    (j : Int) : readingByIndex cs nm j = readingByIndex cs' nm j := by
  rw [readingByIndex_col, readingByIndex_col, h]

theorem readingPeriod_congr {nm : String} {cs cs' : List (Candle F)} (h : col nm cs = col nm cs')
    (p : Int) (j : Int) : readingPeriod cs p nm j = readingPeriod cs' p nm j := by
  unfold readingPeriod
  simp only [readingByIndex_congr h, col_eq_length h]

theorem candlesSum_congr {nm : String} {cs cs' : List (Candle F)} (h : col nm cs = col nm cs')
    (len : Int) (j : Int) : candlesSum cs nm len j = candlesSum cs' nm len j := by
  unfold candlesSum
  have hl := col_eq_length h
  have hw : ∀ a b : Int, (pySlice cs a b).map (fun c => readingByCandle c nm)
      = (pySlice cs' a b).map (fun c => readingByCandle c nm) := by
    intro a b
    rw [← pySlice_map, ← pySlice_map]
    exact congrArg (fun l => pySlice l a b) h
  simp only [hl, hw]

namespace Ctx

/-- two contexts looking at the same index through the same column of `nm` -/
structure SameCol (nm : String) (x y : Ctx F) : Prop where
  idx : x.i = y.i
  col : Hex.col nm x.cs = Hex.col nm y.cs

theorem reading_congr {nm : String} {x y : Ctx F} (h : SameCol nm x y) (idx : Option Int) :
    x.reading nm idx = y.reading nm idx := by
  unfold Ctx.reading
  rw [h.idx]
  have h1 := pyIndex_col nm x.cs (idx.getD y.i)
  have h2 := pyIndex_col nm y.cs (idx.getD y.i)
  rw [h.col] at h1
  exact h1.trans h2.symm

theorem num_congr {nm : String} {x y : Ctx F} (h : SameCol nm x y) (idx : Option Int) :
    x.num nm idx = y.num nm idx := by
  unfold Ctx.num; rw [reading_congr h]

theorem readingPeriod_congr {nm : String} {x y : Ctx F} (h : SameCol nm x y) (p : Int)
    (idx : Option Int) : x.readingPeriod p nm idx = y.readingPeriod p nm idx := by
  unfold Ctx.readingPeriod; rw [h.idx]; exact Hex.readingPeriod_congr h.col p _

theorem candlesSum_congr {nm : String} {x y : Ctx F} (h : SameCol nm x y) (len : Int)
    (idx : Option Int) : x.candlesSum len nm idx = y.candlesSum len nm idx := by
  unfold Ctx.candlesSum; rw [h.idx]; exact Hex.candlesSum_congr h.col len _

theorem prevReading_congr {nm : String} {x y : Ctx F} (h : SameCol nm x y) :
    x.prevReading nm = y.prevReading nm := by
  unfold Ctx.prevReading
  rw [col_eq_length h.col, h.idx, reading_congr h]

theorem prevExists_congr {nm : String} {x y : Ctx F} (h : SameCol nm x y) :
    x.prevExists nm = y.prevExists nm := by
  unfold Ctx.prevExists; rw [prevReading_congr h]

theorem prevNum_congr {nm : String} {x y : Ctx F} (h : SameCol nm x y) :
    x.prevNum nm = y.prevNum nm := by
  unfold Ctx.prevNum; rw [prevReading_congr h]

/-! ### `prev_reading` at the end of a finished prefix -/

/-- the reading of `nm` on the last candle of the finished prefix (`None` if there is none) -/
def lastReading (nm : String) (done : List (Candle F)) : Val F :=
  match done.getLast? with
  | some d => readingByCandle d nm
  | none => .none

/-- `prev_reading` at index `done.length` only looks at the last finished candle -/
theorem prevReading_append_cons (done : List (Candle F)) (c : Candle F) (rest : List (Candle F))
    (name nm : String) :
    ({ cs := done ++ c :: rest, i := done.length, name := name } : Ctx F).prevReading nm
      = .ok (lastReading nm done) := by
  unfold Ctx.prevReading lastReading
  rcases List.eq_nil_or_concat done with rfl | ⟨pre, d, rfl⟩
  · simp
  · simp only [List.concat_eq_append]
    have h1 : ((pre ++ [d] ++ c :: rest).length == 0) = false := by simp
    have h2 : ((((pre ++ [d]).length : Nat) : Int) == 0) = false := by simp; omega
    simp only [h1, h2, Bool.or_false, Bool.false_eq_true, if_false]
    unfold Ctx.reading
    simp only [Option.getD_some]
    have h3 : (((pre ++ [d]).length : Nat) : Int) - 1 = (pre.length : Int) := by simp
    rw [h3, show pre ++ [d] ++ c :: rest = pre ++ d :: (c :: rest) by simp, pyIndex_append_cons]
    simp [bind, Except.bind, pure, Except.pure]

theorem prevExists_append_cons (done : List (Candle F)) (c : Candle F) (rest : List (Candle F))
    (name nm : String) :
    ({ cs := done ++ c :: rest, i := done.length, name := name } : Ctx F).prevExists nm
      = .ok (!(lastReading nm done).isNone) := by
  unfold Ctx.prevExists; rw [prevReading_append_cons]; rfl

theorem prevNum_append_cons (done : List (Candle F)) (c : Candle F) (rest : List (Candle F))
    (name nm : String) :
    ({ cs := done ++ c :: rest, i := done.length, name := name } : Ctx F).prevNum nm
      = (lastReading nm done).asNum := by
  unfold Ctx.prevNum; rw [prevReading_append_cons]; rfl

end Ctx

/-- the context of the row-major step is the truncation of the context inside a longer list -/
theorem trunc_append_cons (done : List (Candle F)) (c : Candle F) (rest : List (Candle F)) (name : String) :
    ({ cs := done ++ c :: rest, i := done.length, name := name } : Ctx F).trunc
      = { cs := done ++ [c], i := done.length, name := name } := by
  unfold Ctx.trunc
  simp only [upto_append_cons]

/-- replacing the candle being computed by one that reads the same under `nm` keeps the column -/
theorem sameCol_last (nm : String) (done : List (Candle F)) (c c' : Candle F) (name : String)
    (h : readingByCandle c' nm = readingByCandle c nm) :
    Ctx.SameCol nm ({ cs := done ++ [c'], i := done.length, name := name } : Ctx F)
      { cs := done ++ [c], i := done.length, name := name } :=
  ⟨rfl, by simp [col, h]⟩

end Hex

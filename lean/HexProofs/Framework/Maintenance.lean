import HexProofs.Framework.Schedule
import HexProofs.Writes.Objects
/-
Prefix / truncation corollaries of the row-major refinement (C02) and the maintenance operations
on a leaf indicator (C14): `calculate` again, `purge`, `recalculate`, `calculate_index`.
-/
namespace Hex
set_option linter.unusedSectionVars false
variable {F : Type} [PyF F]

/-! ### prefixes of a row-major run -/

/-- a longer stream only extends the run of a shorter one -/
theorem rowMajor_prefix (ind : Ind F) (a b d₂ : List (Candle F)) (h : rowMajor ind (a ++ b) = .ok d₂) :
    ∃ d₁, rowMajor ind a = .ok d₁ ∧ d₁ <+: d₂ ∧ d₁.length = a.length := by
  obtain ⟨mid, hm, hr⟩ := rowMajor_split ind a b d₂ h
  obtain ⟨tail, ht, _⟩ := rowMajorFrom_shape ind b mid d₂ hr
  exact ⟨mid, hm, ⟨tail, ht.symm⟩, (rowMajor_shape ind a mid hm).length_eq.symm⟩

/-- **Truncation**: the run over the first `k` candles is the first `k` candles of the run -/
theorem rowMajor_take (ind : Ind F) (raw out : List (Candle F)) (h : rowMajor ind raw = .ok out) (k : Nat) :
    rowMajor ind (raw.take k) = .ok (out.take k) := by
  have hsplit : rowMajor ind (raw.take k ++ raw.drop k) = .ok out := by rw [List.take_append_drop]; exact h
  obtain ⟨d₁, h₁, ⟨tail, ht⟩, hl⟩ := rowMajor_prefix ind _ _ out hsplit
  have hlen : out.length = raw.length := (rowMajor_shape ind raw out h).length_eq.symm
  rw [h₁]
  congr 1
  by_cases hk : k ≤ raw.length
  · have : d₁.length = k := by rw [hl, List.length_take]; omega
    rw [← ht, List.take_append_of_le_length (by omega), List.take_of_length_le (by omega)]
  · have htl : tail = [] := by
      have : (d₁ ++ tail).length = out.length := by rw [ht]
      rw [List.length_append, hl, List.length_take, hlen] at this
      exact List.eq_nil_of_length_eq_zero (by omega)
    rw [← ht, htl, List.append_nil, List.take_of_length_le]
    rw [hl, List.length_take]; omega

/-- the candle at position `j` of a finished run, with everything the engine needs to recompute it -/
theorem rowMajor_at (ind : Ind F) (K : Contract ind) (raw done : List (Candle F))
    (h : rowMajor ind raw = .ok done) (hp : ∀ c ∈ raw, Plain c) (j : Nat) (hj : j < done.length) :
    ∃ pre c post v, done = pre ++ setKey ind.isSub ind.name (v.roundBy ind.round) c :: post ∧
      pre.length = j ∧ K.Inv pre ∧ Plain c ∧
      readKind ind.kind { cs := pre ++ [c], i := pre.length, name := ind.name } = .ok v := by
  have hlen : raw.length = done.length := (rowMajor_shape ind raw done h).length_eq
  have hj' : j < raw.length := by omega
  have hraw : raw = raw.take j ++ raw[j] :: raw.drop (j + 1) := by
    rw [List.getElem_cons_drop, List.take_append_drop]
  rw [hraw] at h
  obtain ⟨mid, hm, hr⟩ := rowMajor_split ind _ _ done h
  rw [rowMajorFrom_cons] at hr
  cases hs : rowStep ind mid raw[j] with
  | error e => rw [hs] at hr; cases hr
  | ok d =>
    rw [hs] at hr
    obtain ⟨v, hv, hd⟩ := rowStep_ok ind mid raw[j] d hs
    obtain ⟨tail, ht, _⟩ := rowMajorFrom_shape ind _ d done hr
    have hpt : ∀ c ∈ raw.take j, Plain c := fun c hc => hp c (List.mem_of_mem_take hc)
    refine ⟨mid, raw[j], tail, v, ?_, ?_, rowMajor_inv ind K _ mid hpt hm, hp _ (List.getElem_mem _), hv⟩
    · rw [ht, hd]; simp
    · rw [← (rowMajor_shape ind _ mid hm).length_eq, List.length_take]; omega

/-! ### resumable states -/

/-- the states the framework passes through on the base timeframe: a finished row-major prefix
followed by raw candles (after `calculate()` the raw part is empty) -/
def Resumable (ind : Ind F) (cs : List (Candle F)) : Prop :=
  ∃ raw₁ raw₂ done, (∀ c ∈ raw₁, Plain c) ∧ (∀ c ∈ raw₂, Plain c) ∧
    rowMajor ind raw₁ = .ok done ∧ cs = done ++ raw₂

/-- a finished state: every candle holds its row-major reading -/
def Finished (ind : Ind F) (cs : List (Candle F)) : Prop :=
  ∃ raw, (∀ c ∈ raw, Plain c) ∧ rowMajor ind raw = .ok cs

theorem Finished.resumable {ind : Ind F} {cs : List (Candle F)} (h : Finished ind cs) : Resumable ind cs := by
  obtain ⟨raw, hp, hr⟩ := h
  exact ⟨raw, [], cs, hp, by simp, hr, by simp⟩

theorem resumable_of_plain (ind : Ind F) (cs : List (Candle F)) (h : ∀ c ∈ cs, Plain c) : Resumable ind cs :=
  ⟨[], cs, [], by simp, h, rfl, by simp⟩

/-- `calculate()` on a resumable state either raises or finishes it -/
theorem leafCalc_finishes (ind : Ind F) (K : Contract ind) (cs out : List (Candle F))
    (h : Resumable ind cs) (hc : leafCalc ind cs = .ok out) : Finished ind out := by
  obtain ⟨raw₁, raw₂, done, hp₁, hp₂, hr, rfl⟩ := h
  rw [leafCalc_refines ind K raw₁ raw₂ done hr hp₁ hp₂] at hc
  exact ⟨raw₁ ++ raw₂, fun c hc' => by
    rcases List.mem_append.1 hc' with h | h; exact hp₁ c h; exact hp₂ c h, hc⟩

/-- **`calculate()` is idempotent**: on a finished state it changes nothing -/
theorem leafCalc_idempotent (ind : Ind F) (K : Contract ind) (cs : List (Candle F))
    (h : Finished ind cs) : leafCalc ind cs = .ok cs := by
  obtain ⟨raw, hp, hr⟩ := h
  have := leafCalc_refines ind K raw [] cs hr hp (by simp)
  simpa [hr] using this

/-! ### `purge` -/

theorem derase_dset_nil {α : Type} (k : String) (v : α) : derase k (dset k v []) = [] := by
  simp [dset, derase]

/-- purging the own name from a decorated raw candle gives the raw candle back -/
theorem purge_setKey (isSub : Bool) (name : String) (v : Val F) (c : Candle F) (hc : Plain c) :
    ({ setKey isSub name v c with
        inds := [name].foldl (fun d n => derase n d) (setKey isSub name v c).inds,
        subs := [name].foldl (fun d n => derase n d) (setKey isSub name v c).subs } : Candle F) = c := by
  obtain ⟨hi, hs⟩ := hc
  cases c
  simp only at hi hs
  subst hi; subst hs
  cases isSub <;> simp [setKey, derase, dset]

theorem purgeNames_plain (name : String) (cs : List (Candle F)) (h : ∀ c ∈ cs, Plain c) :
    purgeNames [name] cs = cs := by
  unfold purgeNames
  conv_rhs => rw [← List.map_id cs]
  apply List.map_congr_left
  intro c hc
  obtain ⟨hi, hs⟩ := h c hc
  cases c
  simp only at hi hs
  subst hi; subst hs
  simp [derase]

theorem purgeNames_decor (ind : Ind F) (raw done : List (Candle F)) (hd : Decor ind raw done)
    (hp : ∀ c ∈ raw, Plain c) : purgeNames [ind.name] done = raw := by
  induction hd with
  | nil => rfl
  | cons hcd _ ih =>
    obtain ⟨v, rfl⟩ := hcd
    have := ih (fun c hc => hp c (by simp [hc]))
    unfold purgeNames at this ⊢
    rw [List.map_cons, this]
    congr 1
    exact purge_setKey _ _ _ _ (hp _ (by simp))

theorem allNames_leaf (ind : Ind F) (hl : IsLeaf ind) : ind.allNames = [ind.name] := by
  rw [Ind.allNames_eq, hl.subs, hl.managed]; simp

/-- **`purge()` of a leaf on a resumable state gives back the raw stream** -/
theorem purge_resumable (ind : Ind F) (hl : IsLeaf ind) (raw₁ raw₂ done : List (Candle F))
    (hp₁ : ∀ c ∈ raw₁, Plain c) (hp₂ : ∀ c ∈ raw₂, Plain c) (hr : rowMajor ind raw₁ = .ok done) :
    purgeNames ind.allNames (done ++ raw₂) = raw₁ ++ raw₂ := by
  rw [allNames_leaf ind hl]
  have h1 := purgeNames_decor ind raw₁ done (rowMajor_shape ind raw₁ done hr) hp₁
  have h2 := purgeNames_plain ind.name raw₂ hp₂
  unfold purgeNames at h1 h2 ⊢
  rw [List.map_append, h1, h2]

/-! ### `calculate_index` -/

theorem pyRange_single (a : Int) : pyRange a (a + 1) = [a] := by
  unfold pyRange
  have : (a + 1 - a).toNat = 1 := by omega
  rw [this]; simp [List.range_succ]

/-- **Recomputing a computed index reproduces it** (the list does not change) -/
theorem stepLeaf_computed (ind : Ind F) (K : Contract ind) (raw₁ raw₂ done : List (Candle F))
    (hp₁ : ∀ c ∈ raw₁, Plain c) (hr : rowMajor ind raw₁ = .ok done) (j : Nat) (hj : j < done.length) :
    stepLeaf ind (done ++ raw₂) (j : Int) = .ok (done ++ raw₂) := by
  obtain ⟨pre, c, post, v, hd, hlen, hinv, hc, hv⟩ := rowMajor_at ind K raw₁ done hr hp₁ j hj
  have := stepLeaf_reproduce ind K pre c (post ++ raw₂) v hinv hc hv
  rw [hlen] at this
  rw [hd]
  simpa using this

end Hex

namespace Hex
set_option linter.unusedSectionVars false
variable {F : Type} [PyF F]

/-! ### the object level -/

theorem IndState.calculate_ok (s s₁ : IndState F) (hl : IsLeaf s.tree) (h : s.calculate = .ok s₁) :
    ∃ out, leafCalc s.tree s.mgr.candles = .ok out ∧ s₁.tree = s.tree ∧ s₁.mgr.cfg = s.mgr.cfg ∧
      s₁.mgr.candles = out := by
  rw [IndState.calculate_leaf s hl] at h
  cases hc : leafCalc s.tree s.mgr.candles with
  | error e => rw [hc] at h; cases h
  | ok out =>
    rw [hc] at h
    simp only [bind, Except.bind, pure, Except.pure] at h
    cases h
    exact ⟨out, rfl, rfl, rfl, rfl⟩

theorem IndState.candlesOf_calculate (s : IndState F) (hl : IsLeaf s.tree) :
    candlesOf s.calculate = leafCalc s.tree s.mgr.candles := by
  rw [IndState.calculate_leaf s hl]
  unfold candlesOf
  cases leafCalc s.tree s.mgr.candles <;> rfl

theorem IndState.candlesOf_recalculate (s : IndState F) (hl : IsLeaf s.tree) :
    candlesOf s.recalculate = leafCalc s.tree (purgeNames s.tree.allNames s.mgr.candles) := by
  unfold IndState.recalculate
  rw [IndState.candlesOf_calculate _ (by exact hl)]
  rfl

/-- `calculate_index(i)` (single index, positive or negative) on a leaf is one `stepLeaf` at the
normalised index -/
theorem IndState.calculateIndex_leaf (s : IndState F) (hl : IsLeaf s.tree) (start : Int) :
    s.calculateIndex start none = (do
      let st := if start < 0 then start + (s.mgr.candles.length : Int) else start
      let cs ← stepLeaf s.tree s.mgr.candles st
      return { s with mgr := { s.mgr with candles := cs }, active := st }) := by
  unfold IndState.calculateIndex
  simp only [Option.map_none]
  rw [Hex.calculateIndex_leaf s.tree hl _ _ _ _ (by have := fuelFor_ge s.mgr.candles; omega), pyRange_single]
  simp only [List.foldlM_cons, List.foldlM_nil, bind, Except.bind, pure, Except.pure]
  cases stepLeaf s.tree s.mgr.candles (if start < 0 then start + (s.mgr.candles.length : Int) else start) with
  | error e => rfl
  | ok cs =>
    simp only
    congr 2
    simp

end Hex

import HexProofs.Framework.Leaf
/-
The per-indicator contract of a leaf kind, and what one calculation step does to a list of the
shape `done ++ c :: rest` (finished prefix, the candle being computed, later candles).
-/
namespace Hex
set_option linter.unusedSectionVars false
variable {F : Type} [PyF F]

/-- a candle of the input stream: it carries no readings at all -/
def Plain (c : Candle F) : Prop := c.inds = [] ∧ c.subs = []

instance (c : Candle F) : Decidable (Plain c) := by
  unfold Plain
  cases hi : c.inds <;> cases hs : c.subs
  · exact isTrue ⟨rfl, rfl⟩
  · exact isFalse (fun h => by cases h.2)
  · exact isFalse (fun h => by cases h.1)
  · exact isFalse (fun h => by cases h.1)

/-- **The contract of a leaf indicator.**  `Inv` is the reachable-state invariant on finished
prefixes (e.g. SMA: "a non-`None` reading at index `j` implies `period ≤ j + 1`").

* `local_`     – no look-ahead: on a finished prefix satisfying the invariant, the reading at
                 index `done.length` does not depend on the candles after it;
* `key_indep`  – the reading at an index does not depend on the indicator's own entry on that
                 very candle (so recomputing an index reproduces its reading);
* `inv_nil`, `inv_step` – the invariant holds initially and is preserved by one step. -/
structure Contract (ind : Ind F) where
  Inv : List (Candle F) → Prop
  inv_nil : Inv []
  inv_step : ∀ (done : List (Candle F)) (c : Candle F) (v : Val F), Inv done → Plain c →
    readKind ind.kind { cs := done ++ [c], i := done.length, name := ind.name } = .ok v →
    Inv (done ++ [setKey ind.isSub ind.name (v.roundBy ind.round) c])
  local_ : ∀ (done : List (Candle F)) (c : Candle F) (rest : List (Candle F)), Inv done →
    readKind ind.kind { cs := done ++ c :: rest, i := done.length, name := ind.name }
      = readKind ind.kind { cs := done ++ [c], i := done.length, name := ind.name }
  key_indep : ∀ (done : List (Candle F)) (c : Candle F) (v : Val F), Inv done → Plain c →
    readKind ind.kind { cs := done ++ [setKey ind.isSub ind.name v c], i := done.length, name := ind.name }
      = readKind ind.kind { cs := done ++ [c], i := done.length, name := ind.name }

/-! ### list plumbing -/

theorem upto_append_cons {α : Type} (done : List α) (c : α) (rest : List α) :
    upto (done ++ c :: rest) (done.length : Int) = done ++ [c] := by
  unfold upto
  have : ((done.length : Int) + 1).toNat = done.length + 1 := by omega
  rw [this, List.take_append, List.take_of_length_le (by omega : done.length ≤ done.length + 1)]
  simp

theorem pyIndex_append_cons {α : Type} (done : List α) (c : α) (rest : List α) :
    pyIndex (done ++ c :: rest) (done.length : Int) = .ok c := by
  rw [pyIndex_nonneg _ _ (by omega)]
  simp [getOrIndexError]

theorem modify_append_cons {α : Type} (done : List α) (c : α) (rest : List α) (g : α → α) :
    (done ++ c :: rest).modify done.length g = done ++ g c :: rest := by
  induction done with
  | nil => simp
  | cons d ds ih => simp [ih]

theorem updateAt_append_cons (done : List (Candle F)) (c : Candle F) (rest : List (Candle F))
    (g : Candle F → Candle F) :
    updateAt (done ++ c :: rest) (done.length : Int) g = .ok (done ++ g c :: rest) := by
  unfold updateAt
  have h1 : ¬ ((done.length : Int) < 0) := by omega
  have h2 : ¬ ((done.length : Int) ≥ ((done ++ c :: rest).length : Int)) := by simp
  simp only [h1, if_false, false_or, h2]
  rw [show ((done.length : Int)).toNat = done.length by omega, modify_append_cons]

/-! ### `setKey` -/

theorem dset_dset_self {α : Type} (k : String) (v w : α) (l : List (String × α)) :
    dset k w (dset k v l) = dset k w l := by
  induction l with
  | nil => simp [dset]
  | cons p r ih =>
    obtain ⟨k', v'⟩ := p
    by_cases h : k' = k
    · simp [dset, h]
    · simp [dset, h, ih]

theorem setKey_setKey (isSub : Bool) (name : String) (v w : Val F) (c : Candle F) :
    setKey isSub name w (setKey isSub name v c) = setKey isSub name w c := by
  unfold setKey
  cases isSub <;> simp [dset_dset_self]

theorem hasKey_setKey (isSub : Bool) (name : String) (v : Val F) (c : Candle F) :
    hasKey name (setKey isSub name v c) = true := by
  unfold hasKey setKey dhas
  cases isSub <;> simp [dlookup_dset_self]

theorem hasKey_plain (name : String) (c : Candle F) (h : Plain c) : hasKey name c = false := by
  unfold hasKey dhas; rw [h.1, h.2]; rfl

theorem present_plain (name : String) (c : Candle F) (h : Plain c) : present name c = false := by
  unfold present; rw [h.1]; rfl

/-! ### one step on `done ++ c :: rest` -/

/-- the row-major step: append the raw candle `c` to the finished prefix and compute its reading
from that list only -/
def rowStep (ind : Ind F) (done : List (Candle F)) (c : Candle F) : PyM (List (Candle F)) :=
  stepLeaf ind (done ++ [c]) done.length

theorem stepLeaf_append_cons (ind : Ind F) (done : List (Candle F)) (c : Candle F) (rest : List (Candle F)) :
    stepLeaf ind (done ++ c :: rest) done.length = (do
      let v ← readKind ind.kind { cs := done ++ c :: rest, i := done.length, name := ind.name }
      pure (done ++ setKey ind.isSub ind.name (v.roundBy ind.round) c :: rest)) := by
  unfold stepLeaf
  cases readKind ind.kind { cs := done ++ c :: rest, i := done.length, name := ind.name } with
  | error e => rfl
  | ok v =>
    simp only [bind, Except.bind, setReading_eq, updateAt_append_cons]
    rfl

theorem rowStep_eq (ind : Ind F) (done : List (Candle F)) (c : Candle F) :
    rowStep ind done c = (do
      let v ← readKind ind.kind { cs := done ++ [c], i := done.length, name := ind.name }
      pure (done ++ [setKey ind.isSub ind.name (v.roundBy ind.round) c])) :=
  stepLeaf_append_cons ind done c []

/-- **No look-ahead, one step**: computing index `done.length` inside a longer list is the
row-major step followed by the untouched later candles. -/
theorem stepLeaf_local (ind : Ind F) (K : Contract ind) (done : List (Candle F)) (c : Candle F)
    (rest : List (Candle F)) (hinv : K.Inv done) :
    stepLeaf ind (done ++ c :: rest) done.length = (do
      let d ← rowStep ind done c
      pure (d ++ rest)) := by
  rw [stepLeaf_append_cons, rowStep_eq, K.local_ done c rest hinv]
  cases readKind ind.kind { cs := done ++ [c], i := done.length, name := ind.name } with
  | error e => rfl
  | ok v => simp [bind, Except.bind, pure, Except.pure]

/-- **Recomputing reproduces**: if candle `done.length` already holds the reading the row-major
step gives it, computing that index again (whatever comes after it) changes nothing. -/
theorem stepLeaf_reproduce (ind : Ind F) (K : Contract ind) (done : List (Candle F)) (c : Candle F)
    (post : List (Candle F)) (v : Val F) (hinv : K.Inv done) (hc : Plain c)
    (hv : readKind ind.kind { cs := done ++ [c], i := done.length, name := ind.name } = .ok v) :
    stepLeaf ind (done ++ setKey ind.isSub ind.name (v.roundBy ind.round) c :: post) done.length
      = .ok (done ++ setKey ind.isSub ind.name (v.roundBy ind.round) c :: post) := by
  rw [stepLeaf_append_cons, K.local_ done _ post hinv, K.key_indep done c _ hinv hc, hv]
  simp [bind, Except.bind, pure, Except.pure, setKey_setKey]

end Hex

import HexProofs.Framework.Contract
import HexProofs.Resume.FindCalcIndex
/-
The row-major specification of a leaf indicator and the refinement theorem: the resume logic of
`Indicator.calculate()` (`_find_calc_index`, the skip test, the loop) on a finished prefix followed
by raw candles computes exactly the row-major run, whatever the append schedule.
-/
namespace Hex
set_option linter.unusedSectionVars false
variable {F : Type} [PyF F]

/-! ### the specification -/

/-- continue a row-major run: for each raw candle in order, append it and compute its reading
from the list so far (never from anything later) -/
def rowMajorFrom (ind : Ind F) (done : List (Candle F)) (raw : List (Candle F)) : PyM (List (Candle F)) :=
  raw.foldlM (rowStep ind) done

/-- **The row-major spec** of a leaf indicator over a raw stream. -/
def rowMajor (ind : Ind F) (raw : List (Candle F)) : PyM (List (Candle F)) := rowMajorFrom ind [] raw

theorem rowMajorFrom_nil (ind : Ind F) (done : List (Candle F)) : rowMajorFrom ind done [] = .ok done := rfl

theorem rowMajorFrom_cons (ind : Ind F) (done : List (Candle F)) (c : Candle F) (rest : List (Candle F)) :
    rowMajorFrom ind done (c :: rest) = (do let d ← rowStep ind done c; rowMajorFrom ind d rest) := by
  simp [rowMajorFrom, List.foldlM_cons]

theorem rowMajorFrom_append (ind : Ind F) (done a b : List (Candle F)) :
    rowMajorFrom ind done (a ++ b) = (do let d ← rowMajorFrom ind done a; rowMajorFrom ind d b) := by
  simp [rowMajorFrom, List.foldlM_append]

theorem rowMajor_append (ind : Ind F) (a b : List (Candle F)) :
    rowMajor ind (a ++ b) = (do let d ← rowMajor ind a; rowMajorFrom ind d b) :=
  rowMajorFrom_append ind [] a b

theorem rowStep_ok (ind : Ind F) (done : List (Candle F)) (c : Candle F) (d : List (Candle F))
    (h : rowStep ind done c = .ok d) :
    ∃ v, readKind ind.kind { cs := done ++ [c], i := done.length, name := ind.name } = .ok v ∧
      d = done ++ [setKey ind.isSub ind.name (v.roundBy ind.round) c] := by
  rw [rowStep_eq] at h
  cases hr : readKind ind.kind { cs := done ++ [c], i := done.length, name := ind.name } with
  | error e => rw [hr] at h; cases h
  | ok v =>
    rw [hr] at h
    simp only [bind, Except.bind, pure, Except.pure] at h
    exact ⟨v, rfl, (Except.ok.inj h).symm⟩

/-- every output candle is its input candle with the indicator's entry set -/
def Decor (ind : Ind F) (raw out : List (Candle F)) : Prop :=
  List.Forall₂ (fun c d => ∃ v, d = setKey ind.isSub ind.name v c) raw out

theorem rowMajorFrom_shape (ind : Ind F) (raw : List (Candle F)) :
    ∀ (done out : List (Candle F)), rowMajorFrom ind done raw = .ok out →
      ∃ tail, out = done ++ tail ∧ Decor ind raw tail := by
  induction raw with
  | nil =>
    intro done out h
    rw [rowMajorFrom_nil] at h
    exact ⟨[], by simpa using (Except.ok.inj h).symm, List.Forall₂.nil⟩
  | cons c rest ih =>
    intro done out h
    rw [rowMajorFrom_cons] at h
    cases hs : rowStep ind done c with
    | error e => rw [hs] at h; cases h
    | ok d =>
      rw [hs] at h
      obtain ⟨v, _, hd⟩ := rowStep_ok ind done c d hs
      obtain ⟨tail, ht, hdec⟩ := ih d out h
      refine ⟨setKey ind.isSub ind.name (v.roundBy ind.round) c :: tail, ?_, List.Forall₂.cons ⟨_, rfl⟩ hdec⟩
      rw [ht, hd]; simp

theorem rowMajorFrom_inv (ind : Ind F) (K : Contract ind) (raw : List (Candle F)) :
    ∀ (done out : List (Candle F)), K.Inv done → (∀ c ∈ raw, Plain c) →
      rowMajorFrom ind done raw = .ok out → K.Inv out := by
  induction raw with
  | nil =>
    intro done out hinv _ h
    rw [rowMajorFrom_nil] at h
    cases h; exact hinv
  | cons c rest ih =>
    intro done out hinv hp h
    rw [rowMajorFrom_cons] at h
    cases hs : rowStep ind done c with
    | error e => rw [hs] at h; cases h
    | ok d =>
      rw [hs] at h
      obtain ⟨v, hv, hd⟩ := rowStep_ok ind done c d hs
      have hinv' : K.Inv d := by rw [hd]; exact K.inv_step done c v hinv (hp c (by simp)) hv
      exact ih d out hinv' (fun x hx => hp x (by simp [hx])) h

theorem rowMajor_inv (ind : Ind F) (K : Contract ind) (raw out : List (Candle F))
    (hp : ∀ c ∈ raw, Plain c) (h : rowMajor ind raw = .ok out) : K.Inv out :=
  rowMajorFrom_inv ind K raw [] out K.inv_nil hp h

theorem rowMajor_shape (ind : Ind F) (raw out : List (Candle F)) (h : rowMajor ind raw = .ok out) :
    Decor ind raw out := by
  obtain ⟨tail, ht, hd⟩ := rowMajorFrom_shape ind raw [] out h
  simpa [ht] using hd

theorem Decor.length_eq {ind : Ind F} {raw out : List (Candle F)} (h : Decor ind raw out) :
    raw.length = out.length := by
  induction h with
  | nil => rfl
  | cons _ _ ih => simp [ih]

theorem Decor.hasKey {ind : Ind F} {raw out : List (Candle F)} (h : Decor ind raw out) :
    ∀ d ∈ out, hasKey ind.name d = true := by
  induction h with
  | nil => intro d hd; cases hd
  | cons hcd _ ih =>
    intro d hd
    rcases List.mem_cons.1 hd with rfl | hd
    · obtain ⟨v, rfl⟩ := hcd; exact hasKey_setKey _ _ _ _
    · exact ih d hd

/-- splitting a successful row-major run at any point of the stream -/
theorem rowMajor_split (ind : Ind F) (a b out : List (Candle F)) (h : rowMajor ind (a ++ b) = .ok out) :
    ∃ mid, rowMajor ind a = .ok mid ∧ rowMajorFrom ind mid b = .ok out := by
  rw [rowMajor_append] at h
  cases ha : rowMajor ind a with
  | error e => rw [ha] at h; cases h
  | ok mid => rw [ha] at h; exact ⟨mid, rfl, h⟩

/-! ### `_find_calc_index` on `done ++ fresh` -/

/-- `_find_calc_index` resumes exactly at the first candle without the key (its backward scan
inspects every index down to 0) -/
theorem findCalcIndex_split (name : String) (done fresh : List (Candle F))
    (hd : ∀ c ∈ done, hasKey name c = true) (hf : ∀ c ∈ fresh, hasKey name c = false) :
    findCalcIndex name (done ++ fresh) = done.length := by
  match done, hd with
  | [], _ => simpa using findCalcIndex_fresh name fresh hf
  | d0 :: dr, hd => exact findCalcIndex_resume name (d0 :: dr) fresh ⟨hd, hf⟩ (by simp)

/-! ### the loop over the raw part -/

/-- the loop started at the end of a finished prefix is the row-major continuation -/
theorem leafLoop_fresh (ind : Ind F) (K : Contract ind) (fresh : List (Candle F)) :
    ∀ (done : List (Candle F)), K.Inv done → (∀ c ∈ fresh, Plain c) →
      leafLoop ind (done ++ fresh) done.length fresh.length = rowMajorFrom ind done fresh := by
  induction fresh with
  | nil => intro done _ _; simp [leafLoop, rowMajorFrom_nil]
  | cons c rest ih =>
    intro done hinv hp
    have hc : Plain c := hp c (by simp)
    rw [List.length_cons, leafLoop, pyIndex_append_cons, rowMajorFrom_cons]
    simp only [bind, Except.bind, present_plain ind.name c hc, Bool.false_eq_true, if_false]
    rw [stepLeaf_local ind K done c rest hinv]
    cases hs : rowStep ind done c with
    | error e => rfl
    | ok d =>
      simp only [bind, Except.bind, pure, Except.pure]
      obtain ⟨v, hv, hd⟩ := rowStep_ok ind done c d hs
      have hinv' : K.Inv d := by rw [hd]; exact K.inv_step done c v hinv hc hv
      have hlen : d.length = done.length + 1 := by rw [hd]; simp
      have := ih d hinv' (fun x hx => hp x (by simp [hx]))
      rw [hlen] at this
      exact this

/-! ### the refinement theorem for `calculate()` -/

/-- **`calculate()` resumes correctly.**  On the finished row-major prefix `done` of the raw
stream `raw₁`, followed by further raw candles `raw₂`, the engine (`_find_calc_index`, skip test,
loop) returns exactly the row-major run over `raw₁ ++ raw₂` – same candles, same readings, and
the same exception if a reading raises. -/
theorem leafCalc_refines (ind : Ind F) (K : Contract ind) (raw₁ raw₂ done : List (Candle F))
    (h₁ : rowMajor ind raw₁ = .ok done) (hp₁ : ∀ c ∈ raw₁, Plain c) (hp₂ : ∀ c ∈ raw₂, Plain c) :
    leafCalc ind (done ++ raw₂) = rowMajor ind (raw₁ ++ raw₂) := by
  rw [rowMajor_append, h₁]
  simp only [bind, Except.bind]
  have hdec := rowMajor_shape ind raw₁ done h₁
  have hinv := rowMajor_inv ind K raw₁ done hp₁ h₁
  have hidx := findCalcIndex_split ind.name done raw₂ hdec.hasKey
    (fun c hc => hasKey_plain ind.name c (hp₂ c hc))
  unfold leafCalc
  rw [hidx]
  have : (done ++ raw₂).length - done.length = raw₂.length := by simp
  rw [this]
  exact leafLoop_fresh ind K raw₂ done hinv hp₂

/-- the same for the engine with fuel (any fuel ≥ length + 2) -/
theorem calculate_refines (ind : Ind F) (hl : IsLeaf ind) (K : Contract ind)
    (raw₁ raw₂ done : List (Candle F)) (h₁ : rowMajor ind raw₁ = .ok done)
    (hp₁ : ∀ c ∈ raw₁, Plain c) (hp₂ : ∀ c ∈ raw₂, Plain c) (fuel : Nat)
    (hf : (done ++ raw₂).length + 2 ≤ fuel) :
    calculate fuel ind (done ++ raw₂) = rowMajor ind (raw₁ ++ raw₂) := by
  rw [calculate_leaf ind hl fuel _ hf]
  exact leafCalc_refines ind K raw₁ raw₂ done h₁ hp₁ hp₂

end Hex

import HexProofs.Framework.RowMajor
/-
The standalone `Indicator` object on the base timeframe (no timeframe, fill, conversion or
lifespan): construction + `calculate()` + any sequence of `append` calls refines the row-major
spec of the whole stream.
-/
namespace Hex
set_option linter.unusedSectionVars false
variable {F : Type} [PyF F]

/-! ### the manager with the default configuration does nothing but store the candles -/

theorem tasks_default (cs : List (Candle F)) : tasks ({} : MgrCfg) cs = .ok cs := by
  simp [tasks, collapseCandles, trimCandles, bind, Except.bind]

theorem Manager.init_default (cs : List (Candle F)) :
    Manager.init ({} : MgrCfg) cs = .ok { cfg := {}, candles := cs } := by
  simp [Manager.init, tasks_default, bind, Except.bind, pure, Except.pure]

theorem Manager.append_default (cs new : List (Candle F)) :
    Manager.append ({ cfg := {}, candles := cs } : Manager F) new
      = .ok { cfg := {}, candles := cs ++ new } := by
  unfold Manager.append
  cases new with
  | nil => simp
  | cons c r => simp [tasks_default, bind, Except.bind, pure, Except.pure]

/-! ### schedules -/

/-- construct the indicator over `init`, `calculate()`, then `append` the chunks one call at a
time (each `append` ends with `calculate()`) -/
def runIndicator (ind : Ind F) (cfg : MgrCfg) (init : List (Candle F)) (chunks : List (List (Candle F))) :
    PyM (IndState F) := do
  let s ← IndState.init ind cfg init
  let s ← s.calculate
  chunks.foldlM (fun s ch => s.append ch) s

/-- what C01 observes: the full candle list (OHLCV, timestamps, both reading dicts) -/
def candlesOf (r : PyM (IndState F)) : PyM (List (Candle F)) := r.map (·.mgr.candles)

/-- the object-level `calculate()` on `done ++ raw₂`: either both sides raise the same exception
or the new state holds the row-major run of the longer stream -/
theorem IndState.calculate_refines (ind : Ind F) (hl : IsLeaf ind) (K : Contract ind)
    (raw₁ raw₂ done : List (Candle F)) (a : Int)
    (h₁ : rowMajor ind raw₁ = .ok done) (hp₁ : ∀ c ∈ raw₁, Plain c) (hp₂ : ∀ c ∈ raw₂, Plain c) :
    (∃ e, IndState.calculate ({ tree := ind, mgr := { cfg := {}, candles := done ++ raw₂ }, active := a } : IndState F)
            = .error e ∧ rowMajor ind (raw₁ ++ raw₂) = .error e) ∨
    (∃ out a', IndState.calculate ({ tree := ind, mgr := { cfg := {}, candles := done ++ raw₂ }, active := a } : IndState F)
            = .ok { tree := ind, mgr := { cfg := {}, candles := out }, active := a' } ∧
          rowMajor ind (raw₁ ++ raw₂) = .ok out) := by
  rw [IndState.calculate_leaf _ hl]
  have href := leafCalc_refines ind K raw₁ raw₂ done h₁ hp₁ hp₂
  simp only
  rw [href]
  cases hr : rowMajor ind (raw₁ ++ raw₂) with
  | error e => exact Or.inl ⟨e, rfl, rfl⟩
  | ok out => exact Or.inr ⟨out, _, rfl, rfl⟩

theorem appends_refine (ind : Ind F) (hl : IsLeaf ind) (K : Contract ind) (chunks : List (List (Candle F))) :
    ∀ (raw done : List (Candle F)) (a : Int), rowMajor ind raw = .ok done → (∀ c ∈ raw, Plain c) →
      (∀ c ∈ chunks.flatten, Plain c) →
      candlesOf (chunks.foldlM (fun (s : IndState F) ch => s.append ch)
          { tree := ind, mgr := { cfg := {}, candles := done }, active := a })
        = rowMajorFrom ind done chunks.flatten := by
  induction chunks with
  | nil => intro raw done a _ _ _; rfl
  | cons ch rest ih =>
    intro raw done a h hp hpc
    have hpch : ∀ c ∈ ch, Plain c := fun c hc => hpc c (by simp [hc])
    have hprest : ∀ c ∈ rest.flatten, Plain c := fun c hc => hpc c (by
      simp only [List.flatten_cons, List.mem_append]; exact Or.inr hc)
    simp only [List.foldlM_cons, List.flatten_cons]
    rw [rowMajorFrom_append]
    have happ : IndState.append ({ tree := ind, mgr := { cfg := {}, candles := done }, active := a } : IndState F) ch
        = IndState.calculate { tree := ind, mgr := { cfg := {}, candles := done ++ ch }, active := a } := by
      unfold IndState.append
      simp only [Manager.append_default, bind, Except.bind]
    rw [happ]
    have hsplit : rowMajor ind (raw ++ ch) = rowMajorFrom ind done ch := by
      rw [rowMajor_append, h]; rfl
    rcases IndState.calculate_refines ind hl K raw ch done a h hp hpch with ⟨e, hc, hr⟩ | ⟨out, a', hc, hr⟩
    · rw [hc, ← hsplit, hr]; rfl
    · rw [hc, ← hsplit, hr]
      simp only [bind, Except.bind]
      exact ih (raw ++ ch) out a' hr
        (fun c hc => by rcases List.mem_append.1 hc with h | h; exact hp c h; exact hpch c h) hprest

/-- **Framework refinement (base timeframe).**  For a leaf indicator satisfying its contract and
a raw input stream: construction over any `init`, `calculate()`, and any sequence of `append`
calls ends with exactly the candles of the row-major run over the whole stream – or with the same
exception. -/
theorem runIndicator_refines (ind : Ind F) (hl : IsLeaf ind) (K : Contract ind)
    (init : List (Candle F)) (chunks : List (List (Candle F)))
    (hp : ∀ c ∈ init ++ chunks.flatten, Plain c) :
    candlesOf (runIndicator ind {} init chunks) = rowMajor ind (init ++ chunks.flatten) := by
  have hpi : ∀ c ∈ init, Plain c := fun c hc => hp c (by simp [hc])
  have hpc : ∀ c ∈ chunks.flatten, Plain c := fun c hc => hp c (List.mem_append.2 (Or.inr hc))
  unfold runIndicator IndState.init
  simp only [Manager.init_default, bind, Except.bind, pure, Except.pure]
  have h0 : rowMajor ind ([] : List (Candle F)) = .ok [] := rfl
  rw [rowMajor_append]
  rcases IndState.calculate_refines ind hl K [] init [] 0 h0 (by simp) hpi with ⟨e, hc, hr⟩ | ⟨out, a', hc, hr⟩
  · simp only [List.nil_append] at hc hr
    rw [hc, hr]; rfl
  · simp only [List.nil_append] at hc hr
    rw [hc, hr]
    simp only [bind, Except.bind]
    exact appends_refine ind hl K chunks init out a' hr hpi hpc

end Hex

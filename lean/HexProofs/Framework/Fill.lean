import HexProofs.Framework.Timeframe
import HexProofs.Framework.FillAlg
/-
The framework on a collapsing timeframe WITH gap filling (`timeframe_fill=True`).
Manager level first: re-collapsing and re-filling `old filled buckets ++ new candles` gives the
filled resampling of the whole stream, keeps all old candles but possibly the last, and the rest
is raw.  Then the indicator object.
-/
namespace Hex
set_option linter.unusedSectionVars false
variable {F : Type} [PyF F]

/-! ### contiguous lists -/

theorem contigFrom_stamps (tf : Int) (htf : 0 < tf) (r : List (Candle F)) :
    ∀ t, ContigFrom tf t r →
      (∀ c ∈ r, ∃ u, c.ts = some u ∧ t < u ∧ (u - t) % tf = 0) ∧
      (r.filterMap (·.ts)).Pairwise (· < ·) := by
  induction r with
  | nil => intro t _; exact ⟨by simp, by simp⟩
  | cons c r ih =>
    intro t h
    obtain ⟨hc, hr⟩ := h
    obtain ⟨h1, h2⟩ := ih (t + tf) hr
    refine ⟨?_, ?_⟩
    · intro x hx
      rcases List.mem_cons.1 hx with rfl | hx
      · exact ⟨t + tf, hc, by omega, by simp⟩
      · obtain ⟨u, hu, hlt, hmod⟩ := h1 x hx
        refine ⟨u, hu, by omega, ?_⟩
        have : u - t = (u - (t + tf)) + tf := by ring
        rw [this, Int.add_emod, hmod]; simp
    · simp only [List.filterMap_cons, hc]
      refine List.pairwise_cons.2 ⟨?_, h2⟩
      intro u hu
      obtain ⟨x, hx, hxu⟩ := List.mem_filterMap.1 hu
      obtain ⟨u', hu', hlt, _⟩ := h1 x hx
      rw [hu'] at hxu; cases hxu; exact hlt

/-- a contiguous list starting on a boundary is an in-order bucket list -/
theorem bucketed_of_contiguous (tf : Int) (htf : 0 < tf) (zs : List (Candle F)) (hc : Contiguous tf zs)
    (hal : ∀ c t, zs.head? = some c → c.ts = some t → t % tf = 0) : Bucketed tf zs := by
  cases zs with
  | nil => exact ⟨by simp, by simp⟩
  | cons c r =>
    obtain ⟨t, ht, hr⟩ := hc
    have h0 : t % tf = 0 := hal c t rfl ht
    obtain ⟨h1, h2⟩ := contigFrom_stamps tf htf r t hr
    refine ⟨?_, ?_⟩
    · intro a ha
      rcases List.mem_cons.1 ha with rfl | ha
      · exact ⟨t, ht, h0⟩
      · obtain ⟨u, hu, _, hmod⟩ := h1 a ha
        refine ⟨u, hu, ?_⟩
        have : u = (u - t) + t := by ring
        rw [this, Int.add_emod, hmod, h0]; simp
    · simp only [List.filterMap_cons, ht]
      refine List.pairwise_cons.2 ⟨?_, h2⟩
      intro u hu
      obtain ⟨x, hx, hxu⟩ := List.mem_filterMap.1 hu
      obtain ⟨u', hu', hlt, _⟩ := h1 x hx
      rw [hu'] at hxu; cases hxu; exact hlt

theorem Bucketed.reverseR {tf : Int} {zs : List (Candle F)} (h : Bucketed tf zs) : BucketedR tf zs.reverse := by
  refine ⟨fun a ha => h.stamped a (List.mem_reverse.1 ha), ?_⟩
  rw [List.filterMap_reverse, List.pairwise_reverse]
  exact h.incr.imp (fun hab => hab)

/-- **A contiguous list is left alone by the fill pass.** -/
theorem fillMissing_contiguous (tf : Int) (htf : 0 < tf) (zs : List (Candle F)) (hc : Contiguous tf zs) :
    fillMissing tf zs = .ok zs := by
  induction zs with
  | nil => rw [fillMissing]
  | cons a r ih =>
    cases r with
    | nil => rw [fillMissing]
    | cons b r =>
      obtain ⟨t, ht, hb, hr⟩ := hc
      rw [fillMissing_cons_cons, ih ⟨t + tf, hb, hr⟩]
      unfold fillHead
      simp only [ht, hb]
      have hgap : t + tf - t = tf := by ring
      have hc : ¬ (t + tf - t ≤ 0 ∨ (t + tf - t) % tf ≠ 0) := by
        rw [hgap]; simp; omega
      rw [if_neg hc, hgap, Int.ediv_self (by omega)]
      rfl

theorem contigFrom_take (tf : Int) (r : List (Candle F)) :
    ∀ t k, ContigFrom tf t r → ContigFrom tf t (r.take k) := by
  induction r with
  | nil => intro t k _; simp [ContigFrom]
  | cons c r ih =>
    intro t k h
    cases k with
    | zero => simp [ContigFrom]
    | succ k => exact ⟨h.1, ih _ k h.2⟩

theorem contiguous_take (tf : Int) (zs : List (Candle F)) (k : Nat) (h : Contiguous tf zs) :
    Contiguous tf (zs.take k) := by
  cases zs with
  | nil => simp [Contiguous]
  | cons c r =>
    cases k with
    | zero => simp [Contiguous]
    | succ k =>
      obtain ⟨t, ht, hr⟩ := h
      exact ⟨t, ht, contigFrom_take tf r t k hr⟩

/-- contiguity only looks at the stamps -/
theorem contigFrom_of_ts (tf : Int) (r r' : List (Candle F)) (h : r'.map (·.ts) = r.map (·.ts)) :
    ∀ t, ContigFrom tf t r → ContigFrom tf t r' := by
  induction r generalizing r' with
  | nil => intro t _; cases r' with | nil => trivial | cons _ _ => simp at h
  | cons c r ih =>
    intro t hc
    cases r' with
    | nil => simp at h
    | cons c' r' =>
      simp only [List.map_cons, List.cons.injEq] at h
      exact ⟨by rw [h.1]; exact hc.1, ih r' h.2 _ hc.2⟩

theorem contiguous_of_ts (tf : Int) (zs zs' : List (Candle F)) (h : zs'.map (·.ts) = zs.map (·.ts))
    (hc : Contiguous tf zs) : Contiguous tf zs' := by
  cases zs with
  | nil => cases zs' with | nil => trivial | cons _ _ => simp at h
  | cons c r =>
    cases zs' with
    | nil => simp at h
    | cons c' r' =>
      simp only [List.map_cons, List.cons.injEq] at h
      obtain ⟨t, ht, hr⟩ := hc
      exact ⟨t, by rw [h.1]; exact ht, contigFrom_of_ts tf r r' h.2 t hr⟩

/-! ### what the fill pass outputs -/

theorem mem_fillRun (p : Candle F) (tf : Int) (n : Nat) :
    ∀ t c, c ∈ fillRun p tf t n → ∃ u, c = fillCandle p u := by
  induction n with
  | zero => intro t c hc; simp [fillRun] at hc
  | succ n ih =>
    intro t c hc
    simp only [fillRun, List.mem_cons] at hc
    rcases hc with rfl | hc
    · exact ⟨_, rfl⟩
    · exact ih _ c hc

theorem mem_fillHead (tf : Int) (x y : Candle F) (h : List (Candle F)) (hh : fillHead tf x y = .ok h) :
    ∀ c ∈ h, c = x ∨ ∃ u, c = fillCandle x u := by
  unfold fillHead at hh
  cases hx : x.ts with
  | none => rw [hx] at hh; cases hh; intro c hc; simp at hc; exact Or.inl hc
  | some ta =>
    rw [hx] at hh
    cases hy : y.ts with
    | none => rw [hy] at hh; cases hh
    | some tb =>
      rw [hy] at hh
      simp only at hh
      split at hh
      · cases hh
      · cases hh
        intro c hc
        rcases List.mem_cons.1 hc with rfl | hc
        · exact Or.inl rfl
        · exact Or.inr (mem_fillRun x tf _ _ c hc)

/-- every output candle is an input candle or a fill candle -/
theorem mem_fillMissing (tf : Int) (l : List (Candle F)) :
    ∀ out, fillMissing tf l = .ok out → ∀ c ∈ out, c ∈ l ∨ ∃ p u, c = fillCandle p u := by
  induction l with
  | nil => intro out h; rw [fillMissing] at h; cases h; simp
  | cons x r ih =>
    intro out h
    cases r with
    | nil => rw [fillMissing] at h; cases h; intro c hc; exact Or.inl hc
    | cons y r =>
      rw [fillMissing_cons_cons] at h
      cases hh : fillHead tf x y with
      | error e => rw [hh] at h; cases h
      | ok hd =>
        rw [hh] at h
        cases ht : fillMissing tf (y :: r) with
        | error e => rw [ht] at h; cases h
        | ok t =>
          rw [ht] at h
          simp only [bind, Except.bind, pure, Except.pure] at h
          cases h
          intro c hc
          rcases List.mem_append.1 hc with hc | hc
          · rcases mem_fillHead tf x y hd hh c hc with rfl | ⟨u, rfl⟩
            · exact Or.inl (by simp)
            · exact Or.inr ⟨x, u, rfl⟩
          · rcases ih t ht c hc with h | h
            · exact Or.inl (List.mem_cons_of_mem _ h)
            · exact Or.inr h

theorem plain_fillCandle (p : Candle F) (u : Int) : Plain (fillCandle p u) := ⟨rfl, rfl⟩

theorem cleanOk_fillCandle (tf : Int) (p : Candle F) (u : Int) : CleanOk tf (fillCandle p u) := by
  intro k hk; cases hk

/-! ### re-collapsing a decorated bucket list (any bucket list, not only `resample tf s`) -/

theorem collapse_decor_append (tf : Int) (htf : 0 < tf) (ind : Ind F) (Bk new done : List (Candle F))
    (hb : BucketedR tf Bk.reverse) (hcB : ∀ c ∈ Bk, CleanOk tf c) (hn : RawTf new)
    (hmono : LabelsMono tf (Bk ++ new)) (hd : Decor ind Bk done) :
    ∃ (k : Nat) (Q : List (Candle F)), (∀ c ∈ Q, Plain c) ∧ done.length ≤ k + 1 ∧
      collapseCandles (some tf) false (done ++ new) = .ok (done.take k ++ Q) ∧
      resample tf (Bk ++ new) = Bk.take k ++ Q := by
  have hmonoD : LabelsMono tf (done ++ new) := by
    unfold LabelsMono at hmono ⊢
    rw [labels_append] at hmono ⊢
    rw [hd.labels_eq tf]; exact hmono
  have hclean : ∀ c ∈ done ++ new, CleanOk tf c := by
    intro c hc
    rcases List.mem_append.1 hc with hc | hc
    · exact hd.cleanOk tf hcB c hc
    · exact hn.cleanOk tf c hc
  have hdR : Decor ind Bk.reverse done.reverse := hd.reverse
  have hbD : BucketedR tf done.reverse := hdR.bucketedR tf hb
  have hfirst : ∀ c, (done ++ new).head? = some c → c.ts ≠ none := by
    intro c hc
    cases hdone : done with
    | nil =>
      rw [hdone] at hc
      exact hn.stamped c (List.mem_of_mem_head? (by simpa using hc))
    | cons y yr =>
      rw [hdone] at hc; simp at hc; subst hc
      obtain ⟨t, ht, _⟩ := hbD.stamped y (by rw [hdone]; simp)
      simp [ht]
  have hcol := collapse_eq_resample tf htf (done ++ new) hfirst hclean hmonoD
  have hselfD : resampleR tf done = done.reverse := by
    have := resampleR_reverse_self tf done.reverse hbD; simpa using this
  have hselfB : resampleR tf Bk = Bk.reverse := by
    have := resampleR_reverse_self tf Bk.reverse hb; simpa using this
  obtain ⟨k, Q, hQ, hk, e1, e2⟩ := foldl_decor tf ind Bk.reverse done.reverse new hdR hn.plain
  refine ⟨k, Q, hQ, by simpa using hk, ?_, ?_⟩
  · rw [hcol]
    congr 1
    unfold resample
    have : resampleR tf (done ++ new) = new.foldl (resampleStep tf) (resampleR tf done) := by
      simp [resampleR, List.foldl_append]
    rw [this, hselfD, e1]; simp
  · unfold resample
    have : resampleR tf (Bk ++ new) = new.foldl (resampleStep tf) (resampleR tf Bk) := by
      simp [resampleR, List.foldl_append]
    rw [this, hselfB, e2]; simp

/-- with a stamped first candle, collapsing with fill is collapsing followed by the fill pass -/
theorem collapse_fill_eq (tf : Int) (xs : List (Candle F))
    (hfirst : ∀ c, xs.head? = some c → c.ts ≠ none) :
    collapseCandles (some tf) true xs = (do
      let out ← collapseCandles (some tf) false xs
      fillMissing tf out) := by
  unfold collapseCandles
  cases xs with
  | nil => simp [bind, Except.bind, fillMissing]
  | cons init rest =>
    cases hts : init.ts with
    | none => exact absurd hts (hfirst init rfl)
    | some t0 =>
      simp only [hts]
      cases collapseLoop tf _ rest with
      | error e => rfl
      | ok st => simp [bind, Except.bind]

/-! ### the manager with fill: re-filling on append -/

/-- folding new candles on top of the single newest bucket `l` keeps a candle with `l`'s stamp
at the bottom (it is `l` itself or `l` with new candles merged in) -/
theorem foldl_step_last (tf : Int) (l : Candle F) (hl : CleanOk tf l) (new : List (Candle F)) :
    ∀ (acc : List (Candle F)), (∃ Y m, acc = Y ++ [m] ∧ m.ts = l.ts ∧ CleanOk tf m) →
      ∃ Y m, new.foldl (resampleStep tf) acc = Y ++ [m] ∧ m.ts = l.ts ∧ CleanOk tf m := by
  induction new with
  | nil => intro acc h; exact h
  | cons c rest ih =>
    intro acc h
    simp only [List.foldl_cons]
    apply ih
    obtain ⟨Y, m, rfl, hm, hcm⟩ := h
    cases Y with
    | nil =>
      simp only [List.nil_append]
      unfold resampleStep
      cases hct : c.ts with
      | none => exact ⟨[], m, rfl, hm, hcm⟩
      | some t =>
        simp only
        split
        · exact ⟨[], m.merge c, rfl, by rw [merge_ts tf m c hcm, hm], cleanOk_merge tf m c⟩
        · exact ⟨[{ c with ts := some (label tf t) }], m, rfl, hm, hcm⟩
    | cons y Y' =>
      rw [resampleStep_tail tf (y :: Y') [m] c (by simp)]
      exact ⟨_, m, rfl, hm, hcm⟩

theorem RawTf.bucketed_resample {xs : List (Candle F)} (h : RawTf xs) (tf : Int) (htf : 0 < tf) :
    Bucketed tf (resample tf xs) := by
  have hb := resampleR_bucketed tf htf xs (h.cleanOk tf) (labelsMono_of_sorted tf htf xs h.sorted)
  exact ⟨fun c hc => hb.stamped c (List.mem_reverse.1 hc), hb.incr_reverse tf _⟩

/-- facts about the filled resampling `Z` of a raw stream -/
structure FilledOf (tf : Int) (s Z : List (Candle F)) : Prop where
  eq : fillMissing tf (resample tf s) = .ok Z
  contig : Contiguous tf Z
  bucketed : Bucketed tf Z
  cleanOk : ∀ c ∈ Z, CleanOk tf c
  plain : ∀ c ∈ Z, Plain c
  last : Z.getLast? = (resample tf s).getLast?

theorem filledOf (tf : Int) (htf : 0 < tf) (s : List (Candle F)) (h : RawTf s) :
    ∃ Z, FilledOf tf s Z := by
  have hb := h.bucketed_resample tf htf
  obtain ⟨Z, hz, hc, _, hhead, hlast⟩ := fillMissing_ok tf htf (resample tf s) hb
  have hprops := resampleR_props tf s (h.cleanOk tf)
  have hplainR := resample_plain tf s h.plain
  have hmem := mem_fillMissing tf _ Z hz
  refine ⟨Z, hz, hc, ?_, ?_, ?_, hlast⟩
  · apply bucketed_of_contiguous tf htf Z hc
    intro c t hcz hct
    rw [hhead] at hcz
    obtain ⟨u, hu, hal⟩ := hb.stamped c (List.mem_of_mem_head? hcz)
    rw [hct] at hu; cases hu; exact hal
  · intro c hc
    rcases hmem c hc with h1 | ⟨p, u, rfl⟩
    · exact hprops.1 c (List.mem_reverse.1 h1)
    · exact cleanOk_fillCandle tf p u
  · intro c hc
    rcases hmem c hc with h1 | ⟨p, u, rfl⟩
    · exact hplainR c h1
    · exact plain_fillCandle p u

/-- **Re-filling on append** (the manager-level schedule lemma of C12): collapsing and filling
`old filled buckets ++ new candles` is collapsing and filling the whole raw stream. -/
theorem fill_resample_append (tf : Int) (htf : 0 < tf) (s new Z : List (Candle F))
    (hraw : RawTf (s ++ new)) (hZ : FilledOf tf s Z) :
    fillMissing tf (resample tf (Z ++ new)) = fillMissing tf (resample tf (s ++ new)) := by
  have hs : RawTf s := hraw.append_left
  have hprops := resampleR_props tf s (hs.cleanOk tf)
  have hselfZ : resampleR tf Z = Z.reverse := by
    have := resampleR_reverse_self tf Z.reverse hZ.bucketed.reverseR; simpa using this
  have e1 : resampleR tf (s ++ new) = new.foldl (resampleStep tf) (resampleR tf s) := by
    simp [resampleR, List.foldl_append]
  have e2 : resampleR tf (Z ++ new) = new.foldl (resampleStep tf) Z.reverse := by
    rw [← hselfZ]; simp [resampleR, List.foldl_append]
  cases hR : resampleR tf s with
  | nil =>
    have hZnil : Z = [] := by
      have := hZ.eq; unfold resample at this; rw [hR] at this
      simp only [List.reverse_nil] at this; rw [fillMissing] at this; cases this; rfl
    unfold resample
    rw [e1, e2, hR, hZnil]; rfl
  | cons l br =>
    have hRl : resample tf s = br.reverse ++ [l] := by unfold resample; rw [hR]; simp
    have hzeq := hZ.eq
    rw [hRl] at hzeq
    obtain ⟨Z0, hZ0⟩ := fillMissing_last tf br.reverse l Z hzeq
    have hcl : CleanOk tf l := hprops.1 l (by rw [hR]; simp)
    obtain ⟨Y, m, hfold, hm, _⟩ := foldl_step_last tf l hcl new [l] ⟨[], l, rfl, rfl, hcl⟩
    have f1 : resample tf (s ++ new) = br.reverse ++ m :: Y.reverse := by
      unfold resample
      rw [e1, hR, show l :: br = [l] ++ br from rfl, foldl_step_tail tf new [l] br (by simp), hfold]
      simp
    have f2 : resample tf (Z ++ new) = Z0 ++ m :: Y.reverse := by
      unfold resample
      rw [e2, hZ0]
      simp only [List.reverse_append, List.reverse_cons, List.reverse_nil, List.nil_append,
        List.singleton_append]
      rw [show l :: Z0.reverse = [l] ++ Z0.reverse from rfl, foldl_step_tail tf new [l] _ (by simp), hfold]
      simp
    rw [f1, f2, fillMissing_split tf br.reverse m, fillMissing_split tf Z0 m]
    -- both prefixes fill to `Z0 ++ [m]`
    have a1 : fillMissing tf (br.reverse ++ [m]) = .ok (Z0 ++ [m]) :=
      fillMissing_last_congr tf br.reverse l m Z0 hm (by rw [← hZ0]; exact hzeq)
    have a2 : fillMissing tf (Z0 ++ [m]) = .ok (Z0 ++ [m]) := by
      apply fillMissing_contiguous tf htf
      apply contiguous_of_ts tf Z _ _ hZ.contig
      rw [hZ0]; simp [hm]
    rw [a1, a2]

/-! ### one append with fill, on a decorated list -/

/-- timeframe + fill -/
def cfgFill (tf : Int) : MgrCfg := { tf := some tf, fill := true }

theorem tasks_cfgFill (tf : Int) (cs : List (Candle F)) :
    tasks (cfgFill tf) cs = collapseCandles (some tf) true cs := by
  unfold tasks cfgFill trimCandles
  cases collapseCandles (some tf) true cs <;> simp [bind, Except.bind]

@[simp] theorem setKey_rawClose (isSub : Bool) (name : String) (v : Val F) (c : Candle F) :
    (setKey isSub name v c).rawClose = c.rawClose := by cases isSub <;> rfl

theorem Decor.take {ind : Ind F} {raw out : List (Candle F)} (h : Decor ind raw out) (k : Nat) :
    Decor ind (raw.take k) (out.take k) := by
  induction h generalizing k with
  | nil => simp only [List.take_nil]; exact List.Forall₂.nil
  | cons hcd _ ih =>
    cases k with
    | zero => exact List.Forall₂.nil
    | succ k => exact List.Forall₂.cons hcd (ih k)

theorem Decor.snoc_inv {ind : Ind F} {A : List (Candle F)} {a₀ : Candle F} {D : List (Candle F)}
    (h : Decor ind (A ++ [a₀]) D) :
    ∃ DA v, D = DA ++ [setKey ind.isSub ind.name v a₀] ∧ Decor ind A DA := by
  have hr := h.reverse
  simp only [List.reverse_append, List.reverse_cons, List.reverse_nil, List.nil_append,
    List.singleton_append] at hr
  cases hD : D.reverse with
  | nil => rw [hD] at hr; cases hr
  | cons d dr =>
    rw [hD] at hr
    cases hr with
    | cons hcd hrest =>
      obtain ⟨v, rfl⟩ := hcd
      refine ⟨dr.reverse, v, ?_, by simpa using Decor.reverse hrest⟩
      have := congrArg List.reverse hD
      simpa using this

theorem labels_eq_stamps (tf : Int) (zs : List (Candle F))
    (h : ∀ a ∈ zs, ∃ t, a.ts = some t ∧ t % tf = 0) : labels tf zs = zs.filterMap (·.ts) := by
  unfold labels
  apply filterMap_congr'
  intro a ha
  obtain ⟨t, ht, hal⟩ := h a ha
  simp [ht, (label_on tf t hal).1]

theorem labelsMono_filled_append (tf : Int) (htf : 0 < tf) (s new Z : List (Candle F))
    (hraw : RawTf (s ++ new)) (hZ : FilledOf tf s Z) : LabelsMono tf (Z ++ new) := by
  have hs : RawTf s := hraw.append_left
  have hmono := labelsMono_of_sorted tf htf _ hraw.sorted
  have hprops := resampleR_props tf s (hs.cleanOk tf)
  unfold LabelsMono at hmono ⊢
  rw [labels_append] at hmono ⊢
  obtain ⟨_, hnew, hcross⟩ := List.pairwise_append.1 hmono
  have hlz := labels_eq_stamps tf Z hZ.bucketed.stamped
  refine List.pairwise_append.2 ⟨by rw [hlz]; exact hZ.bucketed.incr.imp (fun h => le_of_lt h), hnew, ?_⟩
  intro a ha b hb
  rcases List.eq_nil_or_concat Z with hnil | ⟨Z0, l, hZ0⟩
  · rw [hnil] at ha; simp [labels] at ha
  · simp only [List.concat_eq_append] at hZ0
    obtain ⟨tl, htl, _⟩ := hZ.bucketed.stamped l (by rw [hZ0]; simp)
    -- `tl` is the last label of `s`
    have hlast := hZ.last
    rw [hZ0, List.getLast?_append] at hlast
    simp only [List.getLast?_singleton, Option.some_or] at hlast
    have hhead : (resampleR tf s).head? = some l := by
      have : (resample tf s).getLast? = (resampleR tf s).head? := by unfold resample; simp
      rw [← this, ← hlast]
    have hmem : tl ∈ labels tf s := by
      have := hprops.2
      rw [hhead] at this
      simp only [Option.bind_some, htl] at this
      exact List.mem_of_getLast? this.symm
    have h1 : tl ≤ b := hcross tl hmem b hb
    have h2 : a ≤ tl := by
      rw [hlz, hZ0, List.filterMap_append] at ha
      have hincr := hZ.bucketed.incr
      rw [hZ0, List.filterMap_append] at hincr
      simp only [List.filterMap_cons, htl, List.filterMap_nil] at ha hincr
      rcases List.mem_append.1 ha with ha | ha
      · exact le_of_lt ((List.pairwise_append.1 hincr).2.2 a ha tl (by simp))
      · simp at ha; omega
    omega

/-- **One append with fill.**  `DZ` decorates the filled buckets `Z` of the stream so far.  After
the manager's tasks over `DZ ++ new` the list is a prefix of `DZ` (all of it, or all but the
re-opened last bucket) followed by raw candles (new buckets and fill candles), and the same split
describes the filled resampling of the longer stream. -/
theorem tasks_fill_append (tf : Int) (htf : 0 < tf) (ind : Ind F) (s new Z DZ : List (Candle F))
    (hraw : RawTf (s ++ new)) (hZ : FilledOf tf s Z) (hd : Decor ind Z DZ) :
    ∃ (k : Nat) (T Z' : List (Candle F)), (∀ c ∈ T, Plain c) ∧ DZ.length ≤ k + 1 ∧
      tasks (cfgFill tf) (DZ ++ new) = .ok (DZ.take k ++ T) ∧
      FilledOf tf (s ++ new) Z' ∧ Z' = Z.take k ++ T := by
  have hn : RawTf new := hraw.append_right
  obtain ⟨Z', hZ'⟩ := filledOf tf htf (s ++ new) hraw
  obtain ⟨k, Q, hQ, hk, hcol, hres⟩ := collapse_decor_append tf htf ind Z new DZ hZ.bucketed.reverseR
    hZ.cleanOk hn (labelsMono_filled_append tf htf s new Z hraw hZ) hd
  have hfill : fillMissing tf (Z.take k ++ Q) = .ok Z' := by
    rw [← hres, fill_resample_append tf htf s new Z hraw hZ]; exact hZ'.eq
  -- the first candle of `DZ ++ new` is stamped
  have hfirst : ∀ c, (DZ ++ new).head? = some c → c.ts ≠ none := by
    intro c hc
    cases hdz : DZ with
    | nil => rw [hdz] at hc; exact hn.stamped c (List.mem_of_mem_head? (by simpa using hc))
    | cons y yr =>
      rw [hdz] at hc; simp at hc; subst hc
      obtain ⟨t, ht, _⟩ := (hd.reverse.bucketedR tf hZ.bucketed.reverseR).stamped y (by rw [hdz]; simp)
      simp [ht]
  have htasks : tasks (cfgFill tf) (DZ ++ new) = fillMissing tf (DZ.take k ++ Q) := by
    rw [tasks_cfgFill, collapse_fill_eq tf _ hfirst, hcol]; rfl
  rw [htasks]
  rcases List.eq_nil_or_concat (Z.take k) with hnil | ⟨A, a₀, hP⟩
  · -- nothing of the old list survives
    have hdnil : DZ.take k = [] := by
      have := (hd.take k).length_eq; rw [hnil] at this
      exact List.eq_nil_of_length_eq_zero this.symm
    rw [hnil] at hfill
    simp only [List.nil_append] at hfill
    refine ⟨k, Z', Z', hZ'.plain, hk, by rw [hdnil]; simpa using hfill, hZ', by rw [hnil]; simp⟩
  · simp only [List.concat_eq_append] at hP
    have hdP := hd.take k
    rw [hP] at hdP
    obtain ⟨DA, v, hDP, hdA⟩ := hdP.snoc_inv
    have hcontP : Contiguous tf (A ++ [a₀]) := by rw [← hP]; exact contiguous_take tf Z k hZ.contig
    have hcontD : Contiguous tf (DA ++ [setKey ind.isSub ind.name v a₀]) := by
      apply contiguous_of_ts tf _ _ _ hcontP
      simp [hdA.ts_eq]
    -- the plain side
    rw [hP, List.append_assoc, List.singleton_append, fillMissing_split tf A a₀ Q,
        fillMissing_contiguous tf htf _ hcontP] at hfill
    cases hB : fillMissing tf (a₀ :: Q) with
    | error e => rw [hB] at hfill; cases hfill
    | ok B' =>
      rw [hB] at hfill
      simp only [bind, Except.bind, pure, Except.pure, List.dropLast_concat] at hfill
      obtain ⟨T, rfl⟩ := fillMissing_head tf a₀ Q B' hB
      have hZ'eq : Z' = A ++ a₀ :: T := (Except.ok.inj hfill).symm
      have hTplain : ∀ c ∈ T, Plain c := by
        intro c hc
        rcases mem_fillMissing tf _ _ hB c (List.mem_cons_of_mem _ hc) with h1 | ⟨p, u, rfl⟩
        · rcases List.mem_cons.1 h1 with rfl | h1
          · exact hZ.plain _ (List.mem_of_mem_take (by rw [hP]; simp))
          · exact hQ c h1
        · exact plain_fillCandle p u
      refine ⟨k, T, Z', hTplain, hk, ?_, hZ', by rw [hZ'eq, hP]; simp⟩
      -- the decorated side
      rw [hDP, List.append_assoc, List.singleton_append, fillMissing_split tf DA _ Q,
          fillMissing_contiguous tf htf _ hcontD,
          fillMissing_head_congr tf a₀ (setKey ind.isSub ind.name v a₀) Q T (by simp) (by simp) hB]
      simp [bind, Except.bind, pure, Except.pure]

/-! ### the indicator object with timeframe + fill -/

/-- the L1 spec of the manager with fill: resample, then fill the gaps (the model's own fill pass,
which is total on bucket lists – `FilledOf`) -/
def fillSpec (tf : Int) (s : List (Candle F)) : List (Candle F) :=
  match fillMissing tf (resample tf s) with
  | .ok z => z
  | .error _ => []

theorem FilledOf.spec_eq {tf : Int} {s Z : List (Candle F)} (h : FilledOf tf s Z) : fillSpec tf s = Z := by
  unfold fillSpec; rw [h.eq]

theorem tasks_fill_raw (tf : Int) (htf : 0 < tf) (xs Z : List (Candle F)) (h : RawTf xs)
    (hZ : FilledOf tf xs Z) : tasks (cfgFill tf) xs = .ok Z := by
  rw [tasks_cfgFill, collapse_fill_eq tf xs (by intro c hc; exact h.stamped c (List.mem_of_mem_head? hc)),
      collapse_eq_resample tf htf xs (by intro c hc; exact h.stamped c (List.mem_of_mem_head? hc))
        (h.cleanOk tf) (labelsMono_of_sorted tf htf xs h.sorted)]
  exact hZ.eq

theorem appends_fill_refine (tf : Int) (htf : 0 < tf) (ind : Ind F) (hl : IsLeaf ind) (K : Contract ind)
    (chunks : List (List (Candle F))) :
    ∀ (s Z DZ : List (Candle F)) (a : Int), FilledOf tf s Z → rowMajor ind Z = .ok DZ →
      RawTf (s ++ chunks.flatten) → ∀ snap,
      candlesOf (chunks.foldlM (fun (st : IndState F) ch => st.append ch)
          { tree := ind, mgr := { cfg := cfgFill tf, candles := DZ }, active := a }) = .ok snap →
      rowMajor ind (fillSpec tf (s ++ chunks.flatten)) = .ok snap := by
  induction chunks with
  | nil =>
    intro s Z DZ a hZ h _ snap hsnap
    simp only [candlesOf, List.foldlM_nil, pure, Except.pure, Except.map] at hsnap
    cases hsnap
    simpa [hZ.spec_eq] using h
  | cons ch rest ih =>
    intro s Z DZ a hZ h hraw snap hsnap
    have hraw' : RawTf ((s ++ ch) ++ rest.flatten) := by simpa [List.append_assoc] using hraw
    have hsch : RawTf (s ++ ch) := hraw'.append_left
    simp only [List.foldlM_cons, List.flatten_cons] at hsnap ⊢
    have key : ∃ (raw₁ raw₂ d₁ Z' : List (Candle F)), rowMajor ind raw₁ = .ok d₁ ∧
        (∀ c ∈ raw₁, Plain c) ∧ (∀ c ∈ raw₂, Plain c) ∧ raw₁ ++ raw₂ = Z' ∧ FilledOf tf (s ++ ch) Z' ∧
        IndState.append ({ tree := ind, mgr := { cfg := cfgFill tf, candles := DZ }, active := a } : IndState F) ch
          = IndState.calculate { tree := ind, mgr := { cfg := cfgFill tf, candles := d₁ ++ raw₂ }, active := a } := by
      by_cases hch : ch = []
      · subst hch
        refine ⟨Z, [], DZ, Z, h, hZ.plain, by simp, by simp, by simpa using hZ, ?_⟩
        simp [IndState.append, Manager.append, bind, Except.bind]
      · obtain ⟨k, T, Z', hT, _, ht, hZ', hres⟩ :=
          tasks_fill_append tf htf ind s ch Z DZ hsch hZ (rowMajor_shape ind _ DZ h)
        refine ⟨Z.take k, T, DZ.take k, Z', rowMajor_take ind _ DZ h k,
          fun c hc => hZ.plain c (List.mem_of_mem_take hc), hT, hres.symm, hZ', ?_⟩
        have hne : ch.isEmpty = false := by cases ch <;> simp at hch ⊢
        simp only [IndState.append, Manager.append, hne, Bool.false_eq_true, if_false, ht, bind, Except.bind]
        rfl
    obtain ⟨raw₁, raw₂, d₁, Z', hr₁, hp₁, hp₂, hsplit, hZ', happ⟩ := key
    rw [happ] at hsnap
    rw [← List.append_assoc]
    rcases IndState.calculate_refines_cfg ind hl K (cfgFill tf) raw₁ raw₂ d₁ a hr₁ hp₁ hp₂ with
      ⟨e, hc, _⟩ | ⟨out, a', hc, hr⟩
    · rw [hc] at hsnap; cases hsnap
    · rw [hsplit] at hr
      rw [hc] at hsnap
      simp only [bind, Except.bind] at hsnap
      exact ih (s ++ ch) Z' out a' hZ' hr hraw' snap hsnap

/-- **Framework refinement with timeframe and gap filling.**  If the live history runs, its
candles are the row-major run of the leaf indicator over the filled resampling of the whole
stream. -/
theorem runIndicator_fill_refines (tf : Int) (htf : 0 < tf) (ind : Ind F) (hl : IsLeaf ind)
    (K : Contract ind) (init : List (Candle F)) (chunks : List (List (Candle F)))
    (hraw : RawTf (init ++ chunks.flatten)) (snap : List (Candle F))
    (hsnap : candlesOf (runIndicator ind (cfgFill tf) init chunks) = .ok snap) :
    rowMajor ind (fillSpec tf (init ++ chunks.flatten)) = .ok snap := by
  have hinit : RawTf init := hraw.append_left
  obtain ⟨Z, hZ⟩ := filledOf tf htf init hinit
  unfold runIndicator IndState.init Manager.init at hsnap
  rw [tasks_fill_raw tf htf init Z hinit hZ] at hsnap
  simp only [bind, Except.bind, pure, Except.pure] at hsnap
  have h0 : rowMajor ind ([] : List (Candle F)) = .ok [] := rfl
  rcases IndState.calculate_refines_cfg ind hl K (cfgFill tf) [] Z [] 0 h0 (by simp) hZ.plain with
    ⟨e, hc, _⟩ | ⟨out, a', hc, hr⟩
  · simp only [List.nil_append] at hc
    rw [hc] at hsnap; cases hsnap
  · simp only [List.nil_append] at hc hr
    rw [hc] at hsnap
    simp only [bind, Except.bind] at hsnap
    exact appends_fill_refine tf htf ind hl K chunks init Z out a' hZ hr hraw snap hsnap

/-- the batch run with fill IS the row-major run over the filled resampling -/
theorem runBatch_fill (tf : Int) (htf : 0 < tf) (ind : Ind F) (hl : IsLeaf ind) (K : Contract ind)
    (stream : List (Candle F)) (hraw : RawTf stream) :
    candlesOf (runIndicator ind (cfgFill tf) stream []) = rowMajor ind (fillSpec tf stream) := by
  obtain ⟨Z, hZ⟩ := filledOf tf htf stream hraw
  unfold runIndicator IndState.init Manager.init
  rw [tasks_fill_raw tf htf stream Z hraw hZ, hZ.spec_eq]
  simp only [bind, Except.bind, pure, Except.pure, List.foldlM_nil]
  have h0 : rowMajor ind ([] : List (Candle F)) = .ok [] := rfl
  rcases IndState.calculate_refines_cfg ind hl K (cfgFill tf) [] Z [] 0 h0 (by simp) hZ.plain with
    ⟨e, hc, hr⟩ | ⟨out, a', hc, hr⟩
  · simp only [List.nil_append] at hc hr
    rw [hc, hr]; rfl
  · simp only [List.nil_append] at hc hr
    rw [hc, hr]; rfl

/-- **Closed candles are final, with fill**: all candles of the earlier filled run but the last
(still forming) one are a prefix of the later one. -/
theorem closed_prefix_fill (tf : Int) (htf : 0 < tf) (ind : Ind F) (s new snap₁ snap₂ : List (Candle F))
    (hraw : RawTf (s ++ new)) (h₁ : rowMajor ind (fillSpec tf s) = .ok snap₁)
    (h₂ : rowMajor ind (fillSpec tf (s ++ new)) = .ok snap₂) : snap₁.dropLast <+: snap₂ := by
  obtain ⟨Z, hZ⟩ := filledOf tf htf s hraw.append_left
  rw [hZ.spec_eq] at h₁
  obtain ⟨k, T, Z', _, hk, _, hZ', hres⟩ :=
    tasks_fill_append tf htf ind s new Z snap₁ hraw hZ (rowMajor_shape ind _ snap₁ h₁)
  rw [hZ'.spec_eq, hres] at h₂
  obtain ⟨d, hd, hpre, _⟩ := rowMajor_prefix ind _ _ snap₂ h₂
  have hd' := rowMajor_take ind _ snap₁ h₁ k
  rw [hd'] at hd
  cases hd
  refine List.IsPrefix.trans ?_ hpre
  rw [List.dropLast_eq_take]
  have : List.take (snap₁.length - 1) snap₁ = List.take (snap₁.length - 1) (List.take k snap₁) := by
    rw [List.take_take]; congr 1; omega
  rw [this]
  exact List.take_prefix _ _

/-- **C12 schedule, manager level**: constructing with any prefix and appending the rest in
any chunks ends with the filled resampling of the whole stream. -/
theorem manager_fill_schedule (tf : Int) (htf : 0 < tf) (chunks : List (List (Candle F))) :
    ∀ (s Z : List (Candle F)), FilledOf tf s Z → RawTf (s ++ chunks.flatten) →
      chunks.foldlM (fun (m : Manager F) ch => m.append ch) { cfg := cfgFill tf, candles := Z }
        = .ok { cfg := cfgFill tf, candles := fillSpec tf (s ++ chunks.flatten) } := by
  induction chunks with
  | nil => intro s Z hZ _; simp [hZ.spec_eq, pure, Except.pure]
  | cons ch rest ih =>
    intro s Z hZ hraw
    have hraw' : RawTf ((s ++ ch) ++ rest.flatten) := by simpa [List.append_assoc] using hraw
    have hsch : RawTf (s ++ ch) := hraw'.append_left
    simp only [List.foldlM_cons, List.flatten_cons, bind, Except.bind]
    by_cases hch : ch = []
    · subst hch
      have e : Manager.append ({ cfg := cfgFill tf, candles := Z } : Manager F) []
          = .ok { cfg := cfgFill tf, candles := Z } := by simp [Manager.append]
      rw [e]
      simpa using ih s Z hZ (by simpa using hraw)
    · obtain ⟨Z', hZ'⟩ := filledOf tf htf (s ++ ch) hsch
      have hne : ch.isEmpty = false := by cases ch <;> simp at hch ⊢
      -- an undecorated list decorates itself under no indicator: use the fill algebra directly
      have hcolZ : collapseCandles (some tf) false (Z ++ ch) = .ok (resample tf (Z ++ ch)) :=
        collapse_eq_resample tf htf (Z ++ ch)
          (by
            intro c hc
            cases hz : Z with
            | nil => rw [hz] at hc; exact hsch.append_right.stamped c (List.mem_of_mem_head? (by simpa using hc))
            | cons y yr =>
              rw [hz] at hc; simp at hc; subst hc
              obtain ⟨t, ht, _⟩ := hZ.bucketed.stamped y (by rw [hz]; simp)
              simp [ht])
          (by
            intro c hc
            rcases List.mem_append.1 hc with h | h
            · exact hZ.cleanOk c h
            · exact hsch.append_right.cleanOk tf c h)
          (labelsMono_filled_append tf htf s ch Z hsch hZ)
      have happ : Manager.append ({ cfg := cfgFill tf, candles := Z } : Manager F) ch
          = .ok { cfg := cfgFill tf, candles := Z' } := by
        unfold Manager.append
        simp only [hne, Bool.false_eq_true, if_false, tasks_cfgFill]
        rw [collapse_fill_eq tf (Z ++ ch)
          (by
            intro c hc
            cases hz : Z with
            | nil => rw [hz] at hc; exact hsch.append_right.stamped c (List.mem_of_mem_head? (by simpa using hc))
            | cons y yr =>
              rw [hz] at hc; simp at hc; subst hc
              obtain ⟨t, ht, _⟩ := hZ.bucketed.stamped y (by rw [hz]; simp)
              simp [ht]),
          hcolZ]
        simp only [bind, Except.bind]
        rw [fill_resample_append tf htf s ch Z hsch hZ, hZ'.eq]
        rfl
      rw [happ]
      have := ih (s ++ ch) Z' hZ' hraw'
      simpa [List.append_assoc] using this

end Hex

import HexProofs.Framework.Maintenance
/-
Operation programs on a standalone leaf indicator (base timeframe): any sequence of
`append(chunk)`, `calculate()`, `purge()`, `recalculate()`, `calculate_index(±i)` (on an index that
holds a reading) keeps the state *resumable* over the raw stream seen so far, so a final
`calculate()` gives exactly the batch result over that stream.
-/
namespace Hex
set_option linter.unusedSectionVars false
variable {F : Type} [PyF F]

/-- the operation alphabet of C14 for a standalone indicator -/
inductive Op (F : Type)
  | append (ch : List (Candle F))
  | calculate
  | purge
  | recalculate
  | calcIndex (i : Int)

/-- run one operation on the object -/
def Op.run (s : IndState F) : Op F → PyM (IndState F)
  | .append ch => s.append ch
  | .calculate => s.calculate
  | .purge => .ok s.purge
  | .recalculate => s.recalculate
  | .calcIndex i => s.calculateIndex i none

/-- the raw candles an operation adds to the stream -/
def Op.added : Op F → List (Candle F)
  | .append ch => ch
  | _ => []

/-- admissible operations: appended candles are raw; `calculate_index` addresses (by a positive
or a negative index) a candle that already holds a reading of the indicator -/
def Op.Admissible (s : IndState F) : Op F → Prop
  | .append ch => ∀ c ∈ ch, Plain c
  | .calcIndex i => ∃ c, pyIndex s.mgr.candles i = .ok c ∧ hasKey s.tree.name c = true
  | _ => True

/-- a program that runs: every operation admissible in the state it meets, none raises -/
inductive Runs : IndState F → List (Op F) → IndState F → Prop
  | nil (s : IndState F) : Runs s [] s
  | cons {s s' s'' : IndState F} {op : Op F} {ops : List (Op F)} :
      op.Admissible s → op.run s = .ok s' → Runs s' ops s'' → Runs s (op :: ops) s''

/-- resumable over a known raw stream -/
def ResumableAt (ind : Ind F) (raw cs : List (Candle F)) : Prop :=
  ∃ raw₁ raw₂ done, raw = raw₁ ++ raw₂ ∧ (∀ c ∈ raw₁, Plain c) ∧ (∀ c ∈ raw₂, Plain c) ∧
    rowMajor ind raw₁ = .ok done ∧ cs = done ++ raw₂

theorem ResumableAt.plain {ind : Ind F} {raw cs : List (Candle F)} (h : ResumableAt ind raw cs) :
    ∀ c ∈ raw, Plain c := by
  obtain ⟨raw₁, raw₂, done, rfl, hp₁, hp₂, _, _⟩ := h
  intro c hc
  rcases List.mem_append.1 hc with h | h
  · exact hp₁ c h
  · exact hp₂ c h

/-- `calculate()` on a resumable state is the row-major run over the raw stream -/
theorem leafCalc_resumableAt (ind : Ind F) (K : Contract ind) (raw cs : List (Candle F))
    (h : ResumableAt ind raw cs) : leafCalc ind cs = rowMajor ind raw := by
  obtain ⟨raw₁, raw₂, done, rfl, hp₁, hp₂, hr, rfl⟩ := h
  exact leafCalc_refines ind K raw₁ raw₂ done hr hp₁ hp₂

theorem resumableAt_finished (ind : Ind F) (raw out : List (Candle F)) (hp : ∀ c ∈ raw, Plain c)
    (h : rowMajor ind raw = .ok out) : ResumableAt ind raw out :=
  ⟨raw, [], out, by simp, hp, by simp, h, by simp⟩

theorem resumableAt_append (ind : Ind F) (raw cs ch : List (Candle F)) (h : ResumableAt ind raw cs)
    (hch : ∀ c ∈ ch, Plain c) : ResumableAt ind (raw ++ ch) (cs ++ ch) := by
  obtain ⟨raw₁, raw₂, done, rfl, hp₁, hp₂, hr, rfl⟩ := h
  exact ⟨raw₁, raw₂ ++ ch, done, by simp, hp₁,
    fun c hc => by rcases List.mem_append.1 hc with h | h; exact hp₂ c h; exact hch c h, hr, by simp⟩

theorem Manager.append_noCfg (m : Manager F) (hc : m.cfg = {}) (new : List (Candle F)) :
    m.append new = .ok { m with candles := m.candles ++ new } := by
  obtain ⟨cfg, cs⟩ := m
  simp only at hc
  subst hc
  rw [Manager.append_default]

/-- the invariant of a program run -/
structure ProgInv (ind : Ind F) (raw : List (Candle F)) (s : IndState F) : Prop where
  tree : s.tree = ind
  cfg : s.mgr.cfg = {}
  res : ResumableAt ind raw s.mgr.candles

theorem progInv_calculate (ind : Ind F) (hl : IsLeaf ind) (K : Contract ind) (raw : List (Candle F))
    (s s' : IndState F) (h : ProgInv ind raw s) (hrun : s.calculate = .ok s') : ProgInv ind raw s' := by
  have hl' : IsLeaf s.tree := by rw [h.tree]; exact hl
  obtain ⟨out, hc, ht, hcfg, hcs⟩ := IndState.calculate_ok s s' hl' hrun
  rw [h.tree, leafCalc_resumableAt ind K raw _ h.res] at hc
  exact ⟨by rw [ht, h.tree], by rw [hcfg, h.cfg], by rw [hcs]; exact resumableAt_finished ind raw out h.res.plain hc⟩

theorem progInv_purge (ind : Ind F) (hl : IsLeaf ind) (raw : List (Candle F))
    (s : IndState F) (h : ProgInv ind raw s) : ProgInv ind raw s.purge := by
  refine ⟨h.tree, h.cfg, ?_⟩
  obtain ⟨raw₁, raw₂, done, rfl, hp₁, hp₂, hr, hcs⟩ := h.res
  have : s.purge.mgr.candles = raw₁ ++ raw₂ := by
    unfold IndState.purge
    simp only [hcs, h.tree]
    exact purge_resumable ind hl raw₁ raw₂ done hp₁ hp₂ hr
  rw [this]
  exact ⟨[], raw₁ ++ raw₂, [], by simp, by simp,
    fun c hc => by rcases List.mem_append.1 hc with h | h; exact hp₁ c h; exact hp₂ c h, rfl, by simp⟩

/-- an index that holds a reading lies in the finished prefix -/
theorem index_in_done (name : String) (done raw₂ : List (Candle F)) (i : Int) (c : Candle F)
    (hraw : ∀ x ∈ raw₂, Plain x) (hidx : pyIndex (done ++ raw₂) i = .ok c) (hkey : hasKey name c = true) :
    ∃ j : Nat, j < done.length ∧ (if i < 0 then i + ((done ++ raw₂).length : Int) else i) = (j : Int) := by
  unfold pyIndex at hidx
  have hcomm : (if i < 0 then ((done ++ raw₂).length : Int) + i else i)
      = (if i < 0 then i + ((done ++ raw₂).length : Int) else i) := by split <;> omega
  rw [hcomm] at hidx
  generalize hj : (if i < 0 then i + ((done ++ raw₂).length : Int) else i) = jj at hidx
  by_cases hneg : jj < 0
  · simp [hneg] at hidx
  · simp only [hneg, if_false] at hidx
    refine ⟨jj.toNat, ?_, by omega⟩
    cases hget : (done ++ raw₂)[jj.toNat]? with
    | none => rw [hget] at hidx; cases hidx
    | some d =>
      rw [hget] at hidx
      have hd : d = c := by simpa [getOrIndexError] using hidx
      subst hd
      by_contra hge
      have hge' : done.length ≤ jj.toNat := by omega
      rw [List.getElem?_append_right hge'] at hget
      have := hasKey_plain name d (hraw d (List.mem_of_getElem? hget))
      rw [this] at hkey; cases hkey

theorem progInv_calcIndex (ind : Ind F) (hl : IsLeaf ind) (K : Contract ind) (raw : List (Candle F))
    (s s' : IndState F) (i : Int) (h : ProgInv ind raw s)
    (hadm : ∃ c, pyIndex s.mgr.candles i = .ok c ∧ hasKey s.tree.name c = true)
    (hrun : s.calculateIndex i none = .ok s') : ProgInv ind raw s' := by
  have hl' : IsLeaf s.tree := by rw [h.tree]; exact hl
  obtain ⟨raw₁, raw₂, done, hraw, hp₁, hp₂, hr, hcs⟩ := h.res
  obtain ⟨c, hidx, hkey⟩ := hadm
  rw [hcs] at hidx
  obtain ⟨j, hj, hst⟩ := index_in_done s.tree.name done raw₂ i c hp₂ hidx hkey
  rw [IndState.calculateIndex_leaf s hl'] at hrun
  simp only [hcs, hst] at hrun
  rw [h.tree, stepLeaf_computed ind K raw₁ raw₂ done hp₁ hr j hj] at hrun
  simp only [bind, Except.bind, pure, Except.pure] at hrun
  cases hrun
  exact ⟨rfl, h.cfg, ⟨raw₁, raw₂, done, hraw, hp₁, hp₂, hr, rfl⟩⟩

theorem progInv_step (ind : Ind F) (hl : IsLeaf ind) (K : Contract ind) (raw : List (Candle F))
    (s s' : IndState F) (op : Op F) (h : ProgInv ind raw s) (hadm : op.Admissible s)
    (hrun : op.run s = .ok s') : ProgInv ind (raw ++ op.added) s' := by
  cases op with
  | append ch =>
    simp only [Op.run, IndState.append, Manager.append_noCfg s.mgr h.cfg, bind, Except.bind] at hrun
    simp only [Op.added]
    refine progInv_calculate ind hl K _
      ({ s with mgr := { s.mgr with candles := s.mgr.candles ++ ch } }) s' ⟨h.tree, h.cfg, ?_⟩ hrun
    exact resumableAt_append ind raw _ ch h.res hadm
  | calculate =>
    simp only [Op.added, List.append_nil]
    exact progInv_calculate ind hl K raw s s' h hrun
  | purge =>
    simp only [Op.added, List.append_nil]
    simp only [Op.run] at hrun
    cases hrun
    exact progInv_purge ind hl raw s h
  | recalculate =>
    simp only [Op.added, List.append_nil]
    exact progInv_calculate ind hl K raw s.purge s' (progInv_purge ind hl raw s h) hrun
  | calcIndex i =>
    simp only [Op.added, List.append_nil]
    exact progInv_calcIndex ind hl K raw s s' i h hadm hrun

theorem progInv_runs (ind : Ind F) (hl : IsLeaf ind) (K : Contract ind) (ops : List (Op F)) :
    ∀ (raw : List (Candle F)) (s s' : IndState F), ProgInv ind raw s → Runs s ops s' →
      ProgInv ind (raw ++ (ops.map Op.added).flatten) s' := by
  induction ops with
  | nil => intro raw s s' h hr; cases hr; simpa using h
  | cons op rest ih =>
    intro raw s s' h hr
    cases hr with
    | cons hadm hrun hrest =>
      have := ih _ _ _ (progInv_step ind hl K raw s _ op h hadm hrun) hrest
      simpa [List.append_assoc] using this

/-- **Convergence to the batch state.**  After any program that runs, started from a freshly
constructed indicator over raw candles, a final `calculate()` ends with exactly the row-major run
over the whole raw stream seen so far (or raises exactly when that run does). -/
theorem program_converges (ind : Ind F) (hl : IsLeaf ind) (K : Contract ind) (init : List (Candle F))
    (hinit : ∀ c ∈ init, Plain c) (ops : List (Op F)) (s : IndState F)
    (hruns : Runs ({ tree := ind, mgr := { cfg := {}, candles := init } } : IndState F) ops s) :
    candlesOf s.calculate = rowMajor ind (init ++ (ops.map Op.added).flatten) := by
  have h0 : ProgInv ind init ({ tree := ind, mgr := { cfg := {}, candles := init } } : IndState F) :=
    ⟨rfl, rfl, ⟨[], init, [], by simp, by simp, hinit, rfl, by simp⟩⟩
  have h := progInv_runs ind hl K ops init _ s h0 hruns
  rw [IndState.candlesOf_calculate s (by rw [h.tree]; exact hl), h.tree]
  exact leafCalc_resumableAt ind K _ _ h.res

/-! ### an executable check that a program runs (for concrete examples) -/

/-- Boolean admissibility test -/
def Op.admissibleB (s : IndState F) : Op F → Bool
  | .append ch => ch.all fun c => decide (Plain c)
  | .calcIndex i =>
    match pyIndex s.mgr.candles i with
    | .ok c => hasKey s.tree.name c
    | .error _ => false
  | _ => true

theorem Op.admissible_of_B (s : IndState F) (op : Op F) (h : op.admissibleB s = true) : op.Admissible s := by
  cases op with
  | append ch =>
    intro c hc
    have := List.all_eq_true.1 h c hc
    simpa using this
  | calcIndex i =>
    simp only [Op.admissibleB] at h
    cases hp : pyIndex s.mgr.candles i with
    | error e => rw [hp] at h; cases h
    | ok c => rw [hp] at h; exact ⟨c, hp, h⟩
  | calculate => trivial
  | purge => trivial
  | recalculate => trivial

/-- run a program, checking admissibility on the way: `none` if an operation is inadmissible or raises -/
def runChecked (s : IndState F) : List (Op F) → Option (IndState F)
  | [] => some s
  | op :: ops =>
    if op.admissibleB s then
      match op.run s with
      | .ok s' => runChecked s' ops
      | .error _ => none
    else none

theorem runs_of_runChecked (ops : List (Op F)) :
    ∀ (s s' : IndState F), runChecked s ops = some s' → Runs s ops s' := by
  induction ops with
  | nil => intro s s' h; simp only [runChecked] at h; cases h; exact Runs.nil s
  | cons op rest ih =>
    intro s s' h
    simp only [runChecked] at h
    by_cases ha : op.admissibleB s = true
    · simp only [ha, if_true] at h
      cases hr : op.run s with
      | error e => rw [hr] at h; cases h
      | ok s1 =>
        rw [hr] at h
        exact Runs.cons (Op.admissible_of_B s op ha) hr (ih s1 s' h)
    · simp only [ha, Bool.false_eq_true, if_false] at h; cases h

end Hex

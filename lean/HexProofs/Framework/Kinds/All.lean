import HexProofs.Framework.Kinds.Amorph
/-
The leaf kinds whose contract is proved, collected under one predicate with their side
conditions, as top-level indicators built by `mkTop`.
-/
namespace Hex
set_option linter.unusedSectionVars false
variable {F : Type} [PyF F]

/-- the input is a candle attribute (price field, volume or candle geometry) -/
def AttrInput (input : String) : Prop := NoDot input ∧ input ∈ Candle.attrNames

instance (input : String) : Decidable (AttrInput input) := by unfold AttrInput; infer_instance

/-- **Covered kinds**: the shipped leaf kinds for which the framework contract is proved, with
the parameter conditions the proofs need (`period ≥ 1`, resp. `≥ 0` for ROC; an ordinary
indicator name where the recurrence reads its own previous value through a window; inputs that
are candle attributes).  These are ALL shipped leaf classes: the 13 formula indicators without
helpers and the `Amorph` wrapper of the 20 pattern / movement functions. -/
inductive Covered (name : String) : Kind F → Prop
  | hla : Covered name .hla
  | tr : Covered name .tr
  | obv : Covered name .obv
  | sma (p : Int) (input : String) : 1 ≤ p → IsKey name → AttrInput input → Covered name (.sma p input)
  | ema (p : Int) (input : String) (sm : Num F) : 1 ≤ p → AttrInput input → Covered name (.ema p input sm)
  | rma (p : Int) (input : String) : 1 ≤ p → AttrInput input → Covered name (.rma p input)
  | wma (p : Int) (input : String) : 1 ≤ p → IsKey name → AttrInput input → Covered name (.wma p input)
  | vwma (p : Int) : 1 ≤ p → IsKey name → Covered name (.vwma p)
  | roc (p : Int) (input : String) : 0 ≤ p → IsKey name → AttrInput input → Covered name (.roc p input)
  | counter (input : String) (cv : Scalar F) : AttrInput input → Covered name (.counter input cv)
  | hl (p : Int) : Covered name (.hl p)
  | aroon (p : Int) : 0 ≤ p → Covered name (.aroon p)
  | donchian (p : Int) : 1 ≤ p → Covered name (.donchian p)
  | amorph (a : Analysis) : (∀ nm ∈ a.names, AttrInput nm) → Covered name (.amorph a)

theorem mkTop_kind (k : Kind F) (name : String) (round : Nat) : (mkTop k name round).kind = k := by
  unfold mkTop; rfl
theorem mkTop_name (k : Kind F) (name : String) (round : Nat) : (mkTop k name round).name = name := by
  unfold mkTop; rfl

theorem isLeaf_mkTop (k : Kind F) (name : String) (round : Nat) (hr : k.readOnly = true)
    (hc : children k name = ([], [])) : IsLeaf (mkTop k name round) := by
  unfold mkTop
  rw [hc]
  exact ⟨rfl, rfl, hr⟩

/-- every covered kind is a leaf -/
theorem Covered.isLeaf {name : String} {k : Kind F} (h : Covered name k) (round : Nat) :
    IsLeaf (mkTop k name round) := by
  cases h <;> exact isLeaf_mkTop _ _ _ rfl rfl

/-- … and satisfies the framework contract -/
theorem Covered.contract {name : String} {k : Kind F} (h : Covered name k) (round : Nat) :
    Nonempty (Contract (mkTop k name round)) := by
  have hn := mkTop_name k name round
  cases h with
  | hla => exact ⟨hlaContract _ (mkTop_kind _ _ _)⟩
  | tr => exact ⟨trContract _ (mkTop_kind _ _ _)⟩
  | obv => exact ⟨obvContract _ (mkTop_kind _ _ _)⟩
  | sma p input hp hk hi =>
    exact ⟨smaContract _ p input (mkTop_kind _ _ _) hp (by rw [hn]; exact hk)
      (by rw [hn]; exact indep_attr name input hi.1 hi.2)⟩
  | ema p input sm hp hi =>
    exact ⟨emaContract _ p input sm (mkTop_kind _ _ _) hp (by rw [hn]; exact indep_attr name input hi.1 hi.2)⟩
  | rma p input hp hi =>
    exact ⟨rmaContract _ p input (mkTop_kind _ _ _) hp (by rw [hn]; exact indep_attr name input hi.1 hi.2)⟩
  | wma p input hp hk hi =>
    exact ⟨wmaContract _ p input (mkTop_kind _ _ _) hp (by rw [hn]; exact hk)
      (by rw [hn]; exact indep_attr name input hi.1 hi.2)⟩
  | vwma p hp hk => exact ⟨vwmaContract _ p (mkTop_kind _ _ _) hp (by rw [hn]; exact hk)⟩
  | roc p input hp hk hi =>
    exact ⟨rocContract _ p input (mkTop_kind _ _ _) hp (by rw [hn]; exact hk)
      (by rw [hn]; exact indep_attr name input hi.1 hi.2)⟩
  | counter input cv hi =>
    exact ⟨counterContract _ input cv (mkTop_kind _ _ _) (by rw [hn]; exact indep_attr name input hi.1 hi.2)⟩
  | hl p => exact ⟨hlContract _ p (mkTop_kind _ _ _)⟩
  | aroon p hp => exact ⟨aroonContract _ p (mkTop_kind _ _ _) hp⟩
  | donchian p hp => exact ⟨donchianContract _ p (mkTop_kind _ _ _) hp⟩
  | amorph a ha =>
    exact ⟨amorphContract _ a (mkTop_kind _ _ _) (fun nm hnm => indepP_attr _ nm (ha nm hnm).1 (ha nm hnm).2)⟩

end Hex

import HexProofs.Framework.Kinds.SMA
/-
Contract instances without a reachable-state invariant: EMA, TR, OBV.
-/
namespace Hex
set_option linter.unusedSectionVars false
variable {F : Type} [PyF F]

/-- a contract whose invariant is trivial: truncation invariance at every valid index and
independence of the own entry on the candle being computed -/
def Contract.ofTrunc (ind : Ind F)
    (htrunc : ∀ x : Ctx F, 0 ≤ x.i → x.i < x.cs.length → readKind ind.kind x.trunc = readKind ind.kind x)
    (hkey : ∀ (done : List (Candle F)) (c : Candle F) (v : Val F),
      readKind ind.kind { cs := done ++ [setKey ind.isSub ind.name v c], i := done.length, name := ind.name }
        = readKind ind.kind { cs := done ++ [c], i := done.length, name := ind.name }) : Contract ind where
  Inv := fun _ => True
  inv_nil := trivial
  inv_step := fun _ _ _ _ _ _ => trivial
  local_ := by
    intro done c rest _
    rw [← trunc_append_cons done c rest]
    exact (htrunc _ (by simp) (by simp)).symm
  key_indep := fun done c v _ _ => hkey done c v

theorem Ctx.candlesSum_trunc_of_period (x : Ctx F) (p : Int) (input : String) (h0 : 0 ≤ x.i)
    (hi : x.i < x.cs.length) (hp : 1 ≤ p) (hrp : x.readingPeriod p input = true) :
    x.trunc.candlesSum p input = x.candlesSum p input := by
  have hb := readingPeriod_true_bound x.cs p input x.i hrp
  exact Ctx.candlesSum_trunc x p input h0 hi (by omega) (by omega)

/-! ### EMA -/

theorem ema_trunc (x : Ctx F) (p : Int) (input : String) (sm : Num F) (h0 : 0 ≤ x.i)
    (hi : x.i < x.cs.length) (hp : 1 ≤ p) : Calc.ema x.trunc p input sm = Calc.ema x p input sm := by
  unfold Calc.ema
  simp (config := { contextual := true }) only [Ctx.trunc_name, Ctx.trunc_i,
    Ctx.prevExists_trunc x _ h0 hi, Ctx.num_trunc_cur x _ h0, Ctx.prevNum_trunc x _ h0 hi,
    Ctx.readingPeriod_trunc x p _ h0 hi hp, Ctx.candlesSum_trunc_of_period x p _ h0 hi hp]

theorem ema_congr (x y : Ctx F) (p : Int) (input : String) (sm : Num F) (hin : Ctx.SameCol input x y)
    (hpe : x.prevExists x.name = y.prevExists y.name) (hpn : x.prevNum x.name = y.prevNum y.name) :
    Calc.ema x p input sm = Calc.ema y p input sm := by
  unfold Calc.ema
  rw [hpe, hpn, Ctx.num_congr hin, Ctx.readingPeriod_congr hin, Ctx.candlesSum_congr hin]

/-- **EMA satisfies the leaf contract** (`period ≥ 1`; input independent of the own entry). -/
def emaContract (ind : Ind F) (p : Int) (input : String) (sm : Num F) (hk : ind.kind = .ema p input sm)
    (hp : 1 ≤ p) (hind : Indep F ind.name input) : Contract ind :=
  Contract.ofTrunc ind
    (by intro x h0 hi; rw [hk]; exact ema_trunc x p input sm h0 hi hp)
    (by
      intro done c v
      rw [hk]
      refine ema_congr _ _ p input sm (sameCol_last input done c _ ind.name (hind _ _ _)) ?_ ?_
      · rw [Ctx.prevExists_append_cons, Ctx.prevExists_append_cons]
      · rw [Ctx.prevNum_append_cons, Ctx.prevNum_append_cons])

/-! ### TR -/

theorem tr_trunc (x : Ctx F) (h0 : 0 ≤ x.i) (hi : x.i < x.cs.length) : Calc.tr x.trunc = Calc.tr x := by
  unfold Calc.tr
  simp only [Ctx.reading_trunc_cur x _ h0, Ctx.prevNum_trunc x _ h0 hi,
    Ctx.readingPeriod_trunc x 2 _ h0 hi (by decide)]

theorem tr_congr (x y : Ctx F) (hh : Ctx.SameCol "high" x y) (hl : Ctx.SameCol "low" x y)
    (hc : Ctx.SameCol "close" x y) : Calc.tr x = Calc.tr y := by
  unfold Calc.tr
  rw [Ctx.reading_congr hh, Ctx.reading_congr hl, Ctx.readingPeriod_congr hc, Ctx.prevNum_congr hc]

/-- **TR satisfies the leaf contract** (no side conditions). -/
def trContract (ind : Ind F) (hk : ind.kind = .tr) : Contract ind :=
  Contract.ofTrunc ind
    (by intro x h0 hi; rw [hk]; exact tr_trunc x h0 hi)
    (by
      intro done c v
      rw [hk]
      exact tr_congr _ _
        (sameCol_last "high" done c _ ind.name (indep_attr ind.name "high" noDot_high (by decide) _ _ _))
        (sameCol_last "low" done c _ ind.name (indep_attr ind.name "low" noDot_low (by decide) _ _ _))
        (sameCol_last "close" done c _ ind.name (indep_attr ind.name "close" noDot_close (by decide) _ _ _)))

/-! ### OBV -/

theorem obv_trunc (x : Ctx F) (h0 : 0 ≤ x.i) (hi : x.i < x.cs.length) : Calc.obv x.trunc = Calc.obv x := by
  unfold Calc.obv
  simp only [Ctx.trunc_name, Ctx.prevExists_trunc x _ h0 hi, Ctx.num_trunc_cur x _ h0,
    Ctx.prevNum_trunc x _ h0 hi, Ctx.reading_trunc_cur x _ h0]

theorem obv_congr (x y : Ctx F) (hc : Ctx.SameCol "close" x y) (hv : Ctx.SameCol "volume" x y)
    (hpe : x.prevExists x.name = y.prevExists y.name) (hpn : x.prevNum x.name = y.prevNum y.name) :
    Calc.obv x = Calc.obv y := by
  unfold Calc.obv
  rw [hpe, hpn, Ctx.num_congr hc, Ctx.num_congr hv, Ctx.prevNum_congr hc, Ctx.reading_congr hv]

/-- **OBV satisfies the leaf contract** (no side conditions). -/
def obvContract (ind : Ind F) (hk : ind.kind = .obv) : Contract ind :=
  Contract.ofTrunc ind
    (by intro x h0 hi; rw [hk]; exact obv_trunc x h0 hi)
    (by
      intro done c v
      rw [hk]
      refine obv_congr _ _
        (sameCol_last "close" done c _ ind.name (indep_attr ind.name "close" noDot_close (by decide) _ _ _))
        (sameCol_last "volume" done c _ ind.name (indep_attr ind.name "volume" noDot_volume (by decide) _ _ _))
        ?_ ?_
      · rw [Ctx.prevExists_append_cons, Ctx.prevExists_append_cons]
      · rw [Ctx.prevNum_append_cons, Ctx.prevNum_append_cons])

end Hex

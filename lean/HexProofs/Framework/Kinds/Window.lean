import HexProofs.Framework.Kinds.EMA
import HexProofs.Analysis.Lib
/-
Contract instances with a look-back window: ROC, WMA, VWMA (reachable-state invariant like SMA),
RMA (no invariant), Counter (no window at all).
-/
namespace Hex
set_option linter.unusedSectionVars false
variable {F : Type} [PyF F]

/-- membership in `zipIdx` gives membership of the element -/
theorem mem_of_mem_zipIdx {α : Type} {l : List α} {a : α} {k n : Nat} (h : (a, k) ∈ l.zipIdx n) : a ∈ l := by
  induction l generalizing n with
  | nil => simp at h
  | cons b r ih =>
    simp only [List.zipIdx_cons, List.mem_cons, Prod.mk.injEq] at h
    rcases h with ⟨rfl, _⟩ | h
    · simp
    · exact List.mem_cons_of_mem _ (ih h)

/-- the invariant of the windowed recurrences: a non-`None` reading on the last finished candle
means at least `n` candles are finished -/
def WindowInv (name : String) (n : Int) (done : List (Candle F)) : Prop :=
  (Ctx.lastReading name done).isNone = false → n ≤ done.length

theorem windowInv_nil (name : String) (n : Int) : WindowInv (F := F) name n [] := by
  intro h; cases h

theorem lastReading_snoc_setKey (isSub : Bool) (name : String) (hk : IsKey name) (v : Val F)
    (done : List (Candle F)) (c : Candle F) (hc : Plain c) :
    Ctx.lastReading name (done ++ [setKey isSub name v c]) = v := by
  unfold Ctx.lastReading
  rw [List.getLast?_append]
  simp [readingByCandle_setKey isSub name hk v c hc]

/-- generic `inv_step` for a windowed kind: a non-`None` reading needs the previous one or a
full window of `n` inputs -/
theorem windowInv_step (ind : Ind F) (n : Int) (input : String) (hk : IsKey ind.name)
    (hnn : ∀ (x : Ctx F) (v : Val F), readKind ind.kind x = .ok v → v.isNone = false →
      x.prevExists x.name = .ok true ∨ x.readingPeriod n input = true)
    (done : List (Candle F)) (c : Candle F) (v : Val F) (hinv : WindowInv ind.name n done) (hc : Plain c)
    (hv : readKind ind.kind { cs := done ++ [c], i := done.length, name := ind.name } = .ok v) :
    WindowInv ind.name n (done ++ [setKey ind.isSub ind.name (v.roundBy ind.round) c]) := by
  intro hne
  rw [lastReading_snoc_setKey _ _ hk _ _ _ hc, Val.roundBy_isNone] at hne
  have hlen : ((done ++ [setKey ind.isSub ind.name (v.roundBy ind.round) c]).length : Int)
      = done.length + 1 := by simp
  rw [hlen]
  rcases hnn _ v hv hne with h | h
  · rw [Ctx.prevExists_append_cons] at h
    have : (Ctx.lastReading ind.name done).isNone = false := by simpa using Except.ok.inj h
    have := hinv this
    omega
  · have := readingPeriod_true_bound _ n input _ h
    simp only [Option.getD_none] at this
    omega

/-- the invariant at the context of the step: the previous reading exists only after `n` candles -/
theorem windowInv_prev (name : String) (n : Int) (done : List (Candle F)) (c : Candle F)
    (rest : List (Candle F)) (hinv : WindowInv name n done) (b : Bool)
    (hpe : ({ cs := done ++ c :: rest, i := done.length, name := name } : Ctx F).prevExists name = .ok b)
    (hb : b = true) : n ≤ done.length := by
  rw [Ctx.prevExists_append_cons] at hpe
  subst hb
  exact hinv (by simpa using Except.ok.inj hpe)

/-! ### ROC -/

theorem roc_trunc (x : Ctx F) (p : Int) (input : String) (h0 : 0 ≤ x.i) (hi : x.i < x.cs.length)
    (hp : 0 ≤ p) (hinv : ∀ b, x.prevExists x.name = .ok b → b = true → p + 1 ≤ x.i) :
    Calc.roc x.trunc p input = Calc.roc x p input := by
  unfold Calc.roc
  simp only [Ctx.trunc_name, Ctx.trunc_i]
  rw [Ctx.prevExists_trunc x _ h0 hi, Ctx.readingPeriod_trunc x (p + 1) input h0 hi (by omega)]
  cases hpe : x.prevExists x.name with
  | error e => rfl
  | ok b =>
    simp only [bind, Except.bind]
    by_cases hg : (b || x.readingPeriod (p + 1) input) = true
    · have hle : 0 ≤ x.i - p := by
        cases b with
        | true => have := hinv true hpe rfl; omega
        | false =>
          have hrp : x.readingPeriod (p + 1) input = true := by simpa using hg
          have := readingPeriod_true_bound x.cs (p + 1) input x.i hrp
          omega
      simp only [hg, if_true]
      rw [Ctx.num_trunc x input (x.i - p) hle (by omega), Ctx.num_trunc_cur x input h0]
    · simp only [hg, Bool.false_eq_true, if_false]

theorem roc_congr (x y : Ctx F) (p : Int) (input : String) (hin : Ctx.SameCol input x y)
    (hpe : x.prevExists x.name = y.prevExists y.name) : Calc.roc x p input = Calc.roc y p input := by
  unfold Calc.roc
  rw [hpe, Ctx.num_congr hin, Ctx.num_congr hin, Ctx.readingPeriod_congr hin, hin.idx]

theorem roc_nonNone (x : Ctx F) (p : Int) (input : String) (v : Val F)
    (h : Calc.roc x p input = .ok v) (hv : v.isNone = false) :
    x.prevExists x.name = .ok true ∨ x.readingPeriod (p + 1) input = true := by
  unfold Calc.roc at h
  cases hpe : x.prevExists x.name with
  | error e => rw [hpe] at h; cases h
  | ok b =>
    cases b with
    | true => exact Or.inl rfl
    | false =>
      right
      rw [hpe] at h
      simp only [bind, Except.bind, Bool.false_or] at h
      by_cases hrp : x.readingPeriod (p + 1) input = true
      · exact hrp
      · simp only [hrp, Bool.false_eq_true, if_false, pure, Except.pure] at h
        cases h; cases hv

/-- **ROC satisfies the leaf contract** (`period ≥ 0`). -/
def rocContract (ind : Ind F) (p : Int) (input : String) (hk : ind.kind = .roc p input)
    (hp : 0 ≤ p) (hname : IsKey ind.name) (hind : Indep F ind.name input) : Contract ind where
  Inv := WindowInv ind.name (p + 1)
  inv_nil := windowInv_nil _ _
  inv_step := fun done c v hinv hc hv =>
    windowInv_step ind (p + 1) input hname
      (by intro x v hv hne; rw [hk] at hv; exact roc_nonNone x p input v hv hne) done c v hinv hc hv
  local_ := by
    intro done c rest hinv
    rw [hk, ← trunc_append_cons done c rest]
    refine (roc_trunc _ p input (by simp) (by simp) hp ?_).symm
    intro b hb hbt
    exact windowInv_prev ind.name (p + 1) done c rest hinv b hb hbt
  key_indep := by
    intro done c v _ _
    rw [hk]
    refine roc_congr _ _ p input (sameCol_last input done c _ ind.name (hind _ _ _)) ?_
    rw [Ctx.prevExists_append_cons, Ctx.prevExists_append_cons]

/-! ### Counter -/

theorem counter_trunc (x : Ctx F) (input : String) (cv : Scalar F) (h0 : 0 ≤ x.i)
    (hi : x.i < x.cs.length) : Calc.counter x.trunc input cv = Calc.counter x input cv := by
  unfold Calc.counter
  simp only [Ctx.trunc_name, Ctx.reading_trunc_cur x _ h0, Ctx.prevReading_trunc x _ h0 hi]

theorem counter_congr (x y : Ctx F) (input : String) (cv : Scalar F) (hin : Ctx.SameCol input x y)
    (hpr : x.prevReading x.name = y.prevReading y.name) :
    Calc.counter x input cv = Calc.counter y input cv := by
  unfold Calc.counter
  rw [hpr, Ctx.reading_congr hin]

/-- **Counter satisfies the leaf contract** (input independent of the own entry). -/
def counterContract (ind : Ind F) (input : String) (cv : Scalar F) (hk : ind.kind = .counter input cv)
    (hind : Indep F ind.name input) : Contract ind :=
  Contract.ofTrunc ind
    (by intro x h0 hi; rw [hk]; exact counter_trunc x input cv h0 hi)
    (by
      intro done c v
      rw [hk]
      refine counter_congr _ _ input cv (sameCol_last input done c _ ind.name (hind _ _ _)) ?_
      rw [Ctx.prevReading_append_cons, Ctx.prevReading_append_cons])

/-- bound used by the windowed kinds: the guard `prev exists or full window` puts the whole
window at non-negative indices -/
theorem window_guard_bound (x : Ctx F) (p : Int) (input : String) (b : Bool)
    (hinv : ∀ b, x.prevExists x.name = .ok b → b = true → p ≤ x.i)
    (hpe : x.prevExists x.name = .ok b) (hg : (b || x.readingPeriod p input) = true) : p ≤ x.i + 1 := by
  cases b with
  | true => have := hinv true hpe rfl; omega
  | false =>
    have hrp : x.readingPeriod p input = true := by simpa using hg
    have := readingPeriod_true_bound x.cs p input x.i hrp
    omega

/-! ### WMA -/

theorem wma_trunc (x : Ctx F) (p : Int) (input : String) (h0 : 0 ≤ x.i) (hi : x.i < x.cs.length)
    (hp : 1 ≤ p) (hinv : ∀ b, x.prevExists x.name = .ok b → b = true → p ≤ x.i) :
    Calc.wma x.trunc p input = Calc.wma x p input := by
  unfold Calc.wma
  simp only [Ctx.trunc_name, Ctx.trunc_i]
  rw [Ctx.prevExists_trunc x _ h0 hi, Ctx.readingPeriod_trunc x p input h0 hi hp]
  cases hpe : x.prevExists x.name with
  | error e => rfl
  | ok b =>
    simp only [bind, Except.bind]
    by_cases hg : (b || x.readingPeriod p input) = true
    · have hle := window_guard_bound x p input b hinv hpe hg
      simp only [hg, if_true]
      congr 1
      apply Ana.mapM_congr
      intro q hq
      have hm := mem_of_mem_zipIdx (a := q.1) (k := q.2) hq
      rw [Ana.mem_pyRangeDown] at hm
      rw [Ctx.num_trunc x input q.1 (by omega) (by omega)]
    · simp only [hg, Bool.false_eq_true, if_false]

theorem wma_congr (x y : Ctx F) (p : Int) (input : String) (hin : Ctx.SameCol input x y)
    (hpe : x.prevExists x.name = y.prevExists y.name) : Calc.wma x p input = Calc.wma y p input := by
  unfold Calc.wma
  simp only [hpe, Ctx.num_congr hin, Ctx.readingPeriod_congr hin, hin.idx]

theorem wma_nonNone (x : Ctx F) (p : Int) (input : String) (v : Val F)
    (h : Calc.wma x p input = .ok v) (hv : v.isNone = false) :
    x.prevExists x.name = .ok true ∨ x.readingPeriod p input = true := by
  unfold Calc.wma at h
  cases hpe : x.prevExists x.name with
  | error e => rw [hpe] at h; cases h
  | ok b =>
    cases b with
    | true => exact Or.inl rfl
    | false =>
      right
      rw [hpe] at h
      simp only [bind, Except.bind, Bool.false_or] at h
      by_cases hrp : x.readingPeriod p input = true
      · exact hrp
      · simp only [hrp, Bool.false_eq_true, if_false, pure, Except.pure] at h
        cases h; cases hv

/-- **WMA satisfies the leaf contract** (`period ≥ 1`). -/
def wmaContract (ind : Ind F) (p : Int) (input : String) (hk : ind.kind = .wma p input)
    (hp : 1 ≤ p) (hname : IsKey ind.name) (hind : Indep F ind.name input) : Contract ind where
  Inv := WindowInv ind.name p
  inv_nil := windowInv_nil _ _
  inv_step := fun done c v hinv hc hv =>
    windowInv_step ind p input hname
      (by intro x v hv hne; rw [hk] at hv; exact wma_nonNone x p input v hv hne) done c v hinv hc hv
  local_ := by
    intro done c rest hinv
    rw [hk, ← trunc_append_cons done c rest]
    refine (wma_trunc _ p input (by simp) (by simp) hp ?_).symm
    intro b hb hbt
    exact windowInv_prev ind.name p done c rest hinv b hb hbt
  key_indep := by
    intro done c v _ _
    rw [hk]
    refine wma_congr _ _ p input (sameCol_last input done c _ ind.name (hind _ _ _)) ?_
    rw [Ctx.prevExists_append_cons, Ctx.prevExists_append_cons]

/-! ### VWMA -/

theorem vwma_trunc (x : Ctx F) (p : Int) (h0 : 0 ≤ x.i) (hi : x.i < x.cs.length)
    (hp : 1 ≤ p) (hinv : ∀ b, x.prevExists x.name = .ok b → b = true → p ≤ x.i) :
    Calc.vwma x.trunc p = Calc.vwma x p := by
  unfold Calc.vwma
  simp only [Ctx.trunc_name, Ctx.trunc_i]
  rw [Ctx.prevExists_trunc x _ h0 hi, Ctx.readingPeriod_trunc x p "close" h0 hi hp]
  cases hpe : x.prevExists x.name with
  | error e => rfl
  | ok b =>
    simp only [bind, Except.bind]
    by_cases hg : (b || x.readingPeriod p "close") = true
    · have hle := window_guard_bound x p "close" b hinv hpe hg
      simp only [hg, if_true]
      rw [Ctx.candlesSum_trunc x p "volume" h0 hi (by omega) hle,
          Ctx.candlesSum_trunc x p "close" h0 hi (by omega) hle]
      congr 1
      apply Ana.mapM_congr
      intro q hq
      rw [Ana.mem_pyRange] at hq
      rw [Ctx.num_trunc x "close" q (by omega) (by omega), Ctx.num_trunc x "volume" q (by omega) (by omega)]
    · simp only [hg, Bool.false_eq_true, if_false]

theorem vwma_congr (x y : Ctx F) (p : Int) (hc : Ctx.SameCol "close" x y) (hv : Ctx.SameCol "volume" x y)
    (hpe : x.prevExists x.name = y.prevExists y.name) : Calc.vwma x p = Calc.vwma y p := by
  unfold Calc.vwma
  simp only [hpe, Ctx.num_congr hc, Ctx.num_congr hv, Ctx.readingPeriod_congr hc,
    Ctx.candlesSum_congr hc, Ctx.candlesSum_congr hv, hc.idx]

theorem vwma_nonNone (x : Ctx F) (p : Int) (v : Val F)
    (h : Calc.vwma x p = .ok v) (hv : v.isNone = false) :
    x.prevExists x.name = .ok true ∨ x.readingPeriod p "close" = true := by
  unfold Calc.vwma at h
  cases hpe : x.prevExists x.name with
  | error e => rw [hpe] at h; cases h
  | ok b =>
    cases b with
    | true => exact Or.inl rfl
    | false =>
      right
      rw [hpe] at h
      simp only [bind, Except.bind, Bool.false_or] at h
      by_cases hrp : x.readingPeriod p "close" = true
      · exact hrp
      · simp only [hrp, Bool.false_eq_true, if_false, pure, Except.pure] at h
        cases h; cases hv

/-- **VWMA satisfies the leaf contract** (`period ≥ 1`). -/
def vwmaContract (ind : Ind F) (p : Int) (hk : ind.kind = .vwma p)
    (hp : 1 ≤ p) (hname : IsKey ind.name) : Contract ind where
  Inv := WindowInv ind.name p
  inv_nil := windowInv_nil _ _
  inv_step := fun done c v hinv hc hv =>
    windowInv_step ind p "close" hname
      (by intro x v hv hne; rw [hk] at hv; exact vwma_nonNone x p v hv hne) done c v hinv hc hv
  local_ := by
    intro done c rest hinv
    rw [hk, ← trunc_append_cons done c rest]
    refine (vwma_trunc _ p (by simp) (by simp) hp ?_).symm
    intro b hb hbt
    exact windowInv_prev ind.name p done c rest hinv b hb hbt
  key_indep := by
    intro done c v _ _
    rw [hk]
    refine vwma_congr _ _ p
      (sameCol_last "close" done c _ ind.name (indep_attr ind.name "close" noDot_close (by decide) _ _ _))
      (sameCol_last "volume" done c _ ind.name (indep_attr ind.name "volume" noDot_volume (by decide) _ _ _)) ?_
    rw [Ctx.prevExists_append_cons, Ctx.prevExists_append_cons]

/-! ### RMA -/

theorem rma_trunc (x : Ctx F) (p : Int) (input : String) (h0 : 0 ≤ x.i) (hi : x.i < x.cs.length)
    (hp : 1 ≤ p) : Calc.rma x.trunc p input = Calc.rma x p input := by
  unfold Calc.rma
  simp only [Ctx.trunc_name, Ctx.trunc_i]
  rw [Ctx.prevExists_trunc x _ h0 hi, Ctx.readingPeriod_trunc x p input h0 hi hp,
      Ctx.num_trunc_cur x input h0, Ctx.prevNum_trunc x _ h0 hi]
  cases (fl 1 : Num F).truediv (.int p) with
  | error e => rfl
  | ok al =>
    simp only [bind, Except.bind]
    cases hpe : x.prevExists x.name with
    | error e => rfl
    | ok b =>
      cases b with
      | true => rfl
      | false =>
        simp only [Bool.false_eq_true, if_false]
        by_cases hrp : x.readingPeriod p input = true
        · have hb := readingPeriod_true_bound x.cs p input x.i hrp
          simp only [hrp, if_true]
          congr 1
          apply Ana.mapM_congr
          intro q hq
          have hm := mem_of_mem_zipIdx (a := q.1) (k := q.2) hq
          rw [Ana.mem_pyRangeDown] at hm
          rw [Ctx.num_trunc x input q.1 (by omega) (by omega)]
        · simp only [hrp, Bool.false_eq_true, if_false]

theorem rma_congr (x y : Ctx F) (p : Int) (input : String) (hin : Ctx.SameCol input x y)
    (hpe : x.prevExists x.name = y.prevExists y.name) (hpn : x.prevNum x.name = y.prevNum y.name) :
    Calc.rma x p input = Calc.rma y p input := by
  unfold Calc.rma
  simp only [hpe, hpn, Ctx.num_congr hin, Ctx.readingPeriod_congr hin, hin.idx]

/-- **RMA satisfies the leaf contract** (`period ≥ 1`).  (Its seed depends on the absolute index
– not position independent, C04 – but it never looks ahead.) -/
def rmaContract (ind : Ind F) (p : Int) (input : String) (hk : ind.kind = .rma p input)
    (hp : 1 ≤ p) (hind : Indep F ind.name input) : Contract ind :=
  Contract.ofTrunc ind
    (by intro x h0 hi; rw [hk]; exact rma_trunc x p input h0 hi hp)
    (by
      intro done c v
      rw [hk]
      refine rma_congr _ _ p input (sameCol_last input done c _ ind.name (hind _ _ _)) ?_ ?_
      · rw [Ctx.prevExists_append_cons, Ctx.prevExists_append_cons]
      · rw [Ctx.prevNum_append_cons, Ctx.prevNum_append_cons])

end Hex

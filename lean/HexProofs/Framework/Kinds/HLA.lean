import HexProofs.Framework.Column
/-
Contract instance: `HighLowAverage` (no look-back at all).
-/
namespace Hex
set_option linter.unusedSectionVars false
variable {F : Type} [PyF F]

@[simp] theorem Ctx.trunc_i (x : Ctx F) : x.trunc.i = x.i := rfl
@[simp] theorem Ctx.trunc_name (x : Ctx F) : x.trunc.name = x.name := rfl

theorem hla_trunc (x : Ctx F) (h0 : 0 ≤ x.i) : Calc.hla x.trunc = Calc.hla x := by
  unfold Calc.hla
  rw [Ctx.num_trunc_cur x "high" h0, Ctx.num_trunc_cur x "low" h0]

theorem hla_congr (x y : Ctx F) (hh : Ctx.SameCol "high" x y) (hl : Ctx.SameCol "low" x y) :
    Calc.hla x = Calc.hla y := by
  unfold Calc.hla
  rw [Ctx.num_congr hh, Ctx.num_congr hl]

/-- **HLA satisfies the leaf contract** (no hypotheses: it reads `high` and `low` of the current
candle only). -/
def hlaContract (ind : Ind F) (hk : ind.kind = .hla) : Contract ind where
  Inv := fun _ => True
  inv_nil := trivial
  inv_step := fun _ _ _ _ _ _ => trivial
  local_ := by
    intro done c rest _
    rw [hk, ← trunc_append_cons done c rest]
    exact (hla_trunc _ (by simp)).symm
  key_indep := by
    intro done c v _ _
    rw [hk]
    exact hla_congr _ _
      (sameCol_last "high" done c _ ind.name (indep_attr ind.name "high" noDot_high (by decide) _ _ _))
      (sameCol_last "low" done c _ ind.name (indep_attr ind.name "low" noDot_low (by decide) _ _ _))

end Hex

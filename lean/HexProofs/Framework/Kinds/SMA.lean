import HexProofs.Framework.Kinds.HLA
/-
Contract instance: `SMA` (running update `prev - (old - cur)/period`, seeded by the window mean).
The running update reads `index - period`, which is non-negative only because of the
reachable-state invariant "a non-`None` SMA on the last finished candle implies
`period ≤ number of finished candles`".
-/
namespace Hex
set_option linter.unusedSectionVars false
variable {F : Type} [PyF F]

theorem Val.roundBy_isNone (n : Nat) (v : Val F) : (v.roundBy n).isNone = v.isNone := by
  cases v with
  | s x => cases x <;> rfl
  | dict kvs => rfl

theorem readingPeriod_true_bound (cs : List (Candle F)) (p : Int) (nm : String) (j : Int)
    (h : readingPeriod cs p nm j = true) : 0 ≤ j - (p - 1) := by
  unfold readingPeriod at h
  by_cases hv : validIndex j cs.length = true
  · by_cases hneg : j - (p - 1) < 0
    · simp [hv, hneg] at h
    · omega
  · simp [hv] at h

theorem prevExists_true (x : Ctx F) (nm : String) (h : x.prevExists nm = .ok true) :
    ∃ v, x.prevReading nm = .ok v ∧ v.isNone = false := by
  unfold Ctx.prevExists at h
  cases hpr : x.prevReading nm with
  | error e => rw [hpr] at h; cases h
  | ok v =>
    rw [hpr] at h
    simp only [bind, Except.bind, pure, Except.pure] at h
    exact ⟨v, rfl, by simpa using Except.ok.inj h⟩

/-- **SMA, no look-ahead**: on a reachable state the reading at `x.i` is the same on the list
truncated after `x.i`. -/
theorem sma_trunc (x : Ctx F) (p : Int) (input : String) (h0 : 0 ≤ x.i) (hi : x.i < x.cs.length)
    (hp : 1 ≤ p)
    (hinv : ∀ v, x.prevReading x.name = .ok v → v.isNone = false → p ≤ x.i) :
    Calc.sma x.trunc p input = Calc.sma x p input := by
  unfold Calc.sma
  simp only [Ctx.trunc_name, Ctx.trunc_i]
  rw [Ctx.prevExists_trunc x _ h0 hi]
  cases hpe : x.prevExists x.name with
  | error e => rfl
  | ok b =>
    cases b with
    | true =>
      obtain ⟨v, hv, hnn⟩ := prevExists_true x x.name hpe
      have hle : p ≤ x.i := hinv v hv hnn
      simp only [bind, Except.bind, if_true]
      rw [Ctx.prevNum_trunc x _ h0 hi, Ctx.num_trunc x input (x.i - p) (by omega) (by omega),
          Ctx.num_trunc_cur x input h0]
    | false =>
      simp only [bind, Except.bind, Bool.false_eq_true, if_false]
      rw [Ctx.readingPeriod_trunc x p input h0 hi hp]
      by_cases hrp : x.readingPeriod p input = true
      · have hb := readingPeriod_true_bound x.cs p input x.i hrp
        simp only [hrp, if_true]
        rw [Ctx.candlesSum_trunc x p input h0 hi (by omega) (by omega)]
      · simp only [hrp, Bool.false_eq_true, if_false]

/-- **SMA, key locality**: the reading is a function of the `input` column and of the
`prev_reading` of its own name. -/
theorem sma_congr (x y : Ctx F) (p : Int) (input : String) (hin : Ctx.SameCol input x y)
    (hpe : x.prevExists x.name = y.prevExists y.name) (hpn : x.prevNum x.name = y.prevNum y.name) :
    Calc.sma x p input = Calc.sma y p input := by
  unfold Calc.sma
  rw [hpe, hpn, Ctx.num_congr hin, Ctx.num_congr hin, Ctx.readingPeriod_congr hin,
      Ctx.candlesSum_congr hin, hin.idx]

/-- a non-`None` SMA comes from the running update or from a full window -/
theorem sma_nonNone (x : Ctx F) (p : Int) (input : String) (v : Val F)
    (h : Calc.sma x p input = .ok v) (hv : v.isNone = false) :
    x.prevExists x.name = .ok true ∨ x.readingPeriod p input = true := by
  unfold Calc.sma at h
  cases hpe : x.prevExists x.name with
  | error e => rw [hpe] at h; cases h
  | ok b =>
    cases b with
    | true => exact Or.inl rfl
    | false =>
      right
      rw [hpe] at h
      simp only [bind, Except.bind, Bool.false_eq_true, if_false] at h
      by_cases hrp : x.readingPeriod p input = true
      · exact hrp
      · simp only [hrp, Bool.false_eq_true, if_false, pure, Except.pure] at h
        cases h; cases hv

/-- **SMA satisfies the leaf contract**, for `period ≥ 1`, an ordinary own name, and an input
that does not see the SMA's own entry (any candle field does). -/
def smaContract (ind : Ind F) (p : Int) (input : String) (hk : ind.kind = .sma p input)
    (hp : 1 ≤ p) (hname : IsKey ind.name) (hind : Indep F ind.name input) : Contract ind where
  Inv := fun done => (Ctx.lastReading ind.name done).isNone = false → p ≤ done.length
  inv_nil := by intro h; cases h
  inv_step := by
    intro done c v hinv hc hv hnn
    rw [hk] at hv
    have hlast : Ctx.lastReading ind.name (done ++ [setKey ind.isSub ind.name (v.roundBy ind.round) c])
        = v.roundBy ind.round := by
      unfold Ctx.lastReading
      rw [List.getLast?_append]
      simp [readingByCandle_setKey ind.isSub ind.name hname _ c hc]
    rw [hlast, Val.roundBy_isNone] at hnn
    have hlen : ((done ++ [setKey ind.isSub ind.name (v.roundBy ind.round) c]).length : Int)
        = done.length + 1 := by simp
    rw [hlen]
    rcases sma_nonNone _ p input v hv hnn with h | h
    · rw [Ctx.prevExists_append_cons] at h
      have : (Ctx.lastReading ind.name done).isNone = false := by
        simpa using Except.ok.inj h
      have := hinv this
      omega
    · have := readingPeriod_true_bound _ p input _ h
      simp only [Option.getD_none] at this
      omega
  local_ := by
    intro done c rest hinv
    rw [hk, ← trunc_append_cons done c rest]
    refine (sma_trunc _ p input (by simp) (by simp) hp ?_).symm
    intro v hv hnn
    rw [Ctx.prevReading_append_cons] at hv
    cases hv
    exact hinv hnn
  key_indep := by
    intro done c v _ _
    rw [hk]
    refine sma_congr _ _ p input (sameCol_last input done c _ ind.name (hind _ _ _)) ?_ ?_
    · rw [Ctx.prevExists_append_cons, Ctx.prevExists_append_cons]
    · rw [Ctx.prevNum_append_cons, Ctx.prevNum_append_cons]

end Hex

import HexProofs.Framework.Kinds.Window
import HexProofs.Analysis.MovementCausal
/-
Contract instances built on the window extremes of `analysis.movement`: HighestLowest, Donchian,
Aroon.  No look-ahead comes from the causality lemmas of HexProofs/Analysis; key locality from the
column view.
-/
namespace Hex
set_option linter.unusedSectionVars false
variable {F : Type} [PyF F]

/-! ### the extremes see the candles through one column -/

theorem cleanScalars_congr {nm : String} {cs cs' : List (Candle F)} (h : col nm cs = col nm cs')
    (n i : Int) (incl : Bool) : Mov.cleanScalars cs nm n i incl = Mov.cleanScalars cs' nm n i incl := by
  unfold Mov.cleanScalars
  have hw : ∀ a b : Int, (pySlice cs a b).map (fun c => readingByCandle c nm)
      = (pySlice cs' a b).map (fun c => readingByCandle c nm) := by
    intro a b
    rw [← pySlice_map, ← pySlice_map]
    exact congrArg (fun l => pySlice l a b) h
  simp only [hw]

theorem extreme_congr {nm : String} {cs cs' : List (Candle F)} (h : col nm cs = col nm cs')
    (n i : Int) (better : Num F → Num F → Bool) :
    Mov.extreme cs nm n i better = Mov.extreme cs' nm n i better := by
  unfold Mov.extreme
  have hl := col_eq_length h
  have he : cs.isEmpty = cs'.isEmpty := by
    cases cs <;> cases cs' <;> simp at hl ⊢
  simp only [hl, he, cleanScalars_congr h]

theorem extremeBar_congr {nm : String} {cs cs' : List (Candle F)} (h : col nm cs = col nm cs')
    (n i : Int) (better : Num F → Num F → Bool) :
    Mov.extremeBar cs nm n i better = Mov.extremeBar cs' nm n i better := by
  unfold Mov.extremeBar
  simp only [col_eq_length h, readingByIndex_congr h]

/-! ### HighestLowest -/

theorem hl_trunc (x : Ctx F) (p : Int) (h0 : 0 ≤ x.i) (hi : x.i < x.cs.length) :
    Calc.hl x.trunc p = Calc.hl x p := by
  unfold Calc.hl
  have h1 := (Ana.lowest_causal (F := F) "low" p).trunc x.cs x.i h0 hi
  have h2 := (Ana.highest_causal (F := F) "high" p).trunc x.cs x.i h0 hi
  simp only [Ctx.trunc_i]
  simp only [Ctx.trunc] at *
  rw [h1, h2]

theorem hl_congr (x y : Ctx F) (p : Int) (hh : Ctx.SameCol "high" x y) (hl : Ctx.SameCol "low" x y) :
    Calc.hl x p = Calc.hl y p := by
  unfold Calc.hl Mov.lowest Mov.highest
  rw [extreme_congr hl.col, extreme_congr hh.col, hh.idx]

/-- **HighestLowest satisfies the leaf contract** (no side conditions). -/
def hlContract (ind : Ind F) (p : Int) (hk : ind.kind = .hl p) : Contract ind :=
  Contract.ofTrunc ind
    (by intro x h0 hi; rw [hk]; exact hl_trunc x p h0 hi)
    (by
      intro done c v
      rw [hk]
      exact hl_congr _ _ p
        (sameCol_last "high" done c _ ind.name (indep_attr ind.name "high" noDot_high (by decide) _ _ _))
        (sameCol_last "low" done c _ ind.name (indep_attr ind.name "low" noDot_low (by decide) _ _ _)))

/-! ### Aroon -/

theorem aroon_trunc (x : Ctx F) (p : Int) (h0 : 0 ≤ x.i) (hi : x.i < x.cs.length) (hp : 0 ≤ p) :
    Calc.aroon x.trunc p = Calc.aroon x p := by
  unfold Calc.aroon
  have h1 := (Ana.highestbar_causal (F := F) "high" (p + 1)).trunc x.cs x.i h0 hi
  have h2 := (Ana.lowestbar_causal (F := F) "low" (p + 1)).trunc x.cs x.i h0 hi
  rw [Ctx.readingPeriod_trunc x (p + 1) "high" h0 hi (by omega)]
  simp only [Ctx.trunc_i]
  simp only [Ctx.trunc] at *
  rw [h1, h2]

theorem aroon_congr (x y : Ctx F) (p : Int) (hh : Ctx.SameCol "high" x y) (hl : Ctx.SameCol "low" x y) :
    Calc.aroon x p = Calc.aroon y p := by
  unfold Calc.aroon Mov.highestbar Mov.lowestbar
  rw [Ctx.readingPeriod_congr hh, extremeBar_congr hl.col, extremeBar_congr hh.col, hh.idx]

/-- **Aroon satisfies the leaf contract** (`period ≥ 0`). -/
def aroonContract (ind : Ind F) (p : Int) (hk : ind.kind = .aroon p) (hp : 0 ≤ p) : Contract ind :=
  Contract.ofTrunc ind
    (by intro x h0 hi; rw [hk]; exact aroon_trunc x p h0 hi hp)
    (by
      intro done c v
      rw [hk]
      exact aroon_congr _ _ p
        (sameCol_last "high" done c _ ind.name (indep_attr ind.name "high" noDot_high (by decide) _ _ _))
        (sameCol_last "low" done c _ ind.name (indep_attr ind.name "low" noDot_low (by decide) _ _ _)))

/-! ### Donchian -/

theorem donchian_trunc (x : Ctx F) (p : Int) (h0 : 0 ≤ x.i) (hi : x.i < x.cs.length) (hp : 1 ≤ p) :
    Calc.donchian x.trunc p = Calc.donchian x p := by
  unfold Calc.donchian
  have h1 := (Ana.highest_causal (F := F) "high" (p - 1)).trunc x.cs x.i h0 hi
  have h2 := (Ana.lowest_causal (F := F) "low" (p - 1)).trunc x.cs x.i h0 hi
  have h3 : x.trunc.readingPeriod p "high" (some x.i) = x.readingPeriod p "high" (some x.i) := by
    unfold Ctx.readingPeriod Ctx.trunc
    simp only [Option.getD_some]
    exact readingPeriod_upto x.cs p "high" x.i h0 hi hp
  rw [Ctx.prevReading_trunc x _ h0 hi]
  simp only [Ctx.trunc_i, Ctx.trunc_name, h3]
  simp only [Ctx.trunc] at *
  rw [h1, h2]

theorem donchian_congr (x y : Ctx F) (p : Int) (hh : Ctx.SameCol "high" x y) (hl : Ctx.SameCol "low" x y)
    (hpr : x.prevReading (x.name ++ ".DCU") = y.prevReading (y.name ++ ".DCU")) :
    Calc.donchian x p = Calc.donchian y p := by
  unfold Calc.donchian Mov.highest Mov.lowest
  rw [hpr, Ctx.readingPeriod_congr hh, extreme_congr hl.col, extreme_congr hh.col, hh.idx]

/-- **Donchian satisfies the leaf contract** (`period ≥ 1`). -/
def donchianContract (ind : Ind F) (p : Int) (hk : ind.kind = .donchian p) (hp : 1 ≤ p) : Contract ind :=
  Contract.ofTrunc ind
    (by intro x h0 hi; rw [hk]; exact donchian_trunc x p h0 hi hp)
    (by
      intro done c v
      rw [hk]
      refine donchian_congr _ _ p
        (sameCol_last "high" done c _ ind.name (indep_attr ind.name "high" noDot_high (by decide) _ _ _))
        (sameCol_last "low" done c _ ind.name (indep_attr ind.name "low" noDot_low (by decide) _ _ _)) ?_
      rw [Ctx.prevReading_append_cons, Ctx.prevReading_append_cons])

end Hex

import HexProofs.Framework.Kinds.Extremes
import HexProofs.Analysis.Dispatch
/-
Contract instance: `Amorph`, the wrapper of the twenty pattern / movement functions.
No look-ahead is `Ana.runAnalysis_causal`.  Key locality: every analysis function gives the same
answer on a list whose candles had the wrapper's own entry erased (`normK`), provided the names
it reads do not see that entry.
-/
namespace Hex
set_option linter.unusedSectionVars false
variable {F : Type} [PyF F]

/-! ### erasing one key from every candle -/

/-- the candle without the entries stored under `name` -/
def normK (name : String) (c : Candle F) : Candle F :=
  { c with inds := derase name c.inds, subs := derase name c.subs }

theorem derase_dset {α : Type} (k : String) (v : α) (l : List (String × α)) :
    derase k (dset k v l) = derase k l := by
  induction l with
  | nil => simp [dset, derase]
  | cons p r ih =>
    obtain ⟨k', v'⟩ := p
    by_cases h : k' = k
    · simp [dset, derase, h]
    · simp [dset, derase, h, ih]

theorem normK_setKey (isSub : Bool) (name : String) (v : Val F) (c : Candle F) :
    normK name (setKey isSub name v c) = normK name c := by
  cases isSub <;> simp [normK, setKey, derase_dset]

/-- reading `nm` does not see the entries stored under `name` -/
def IndepP (F : Type) [PyF F] (name nm : String) : Prop :=
  ∀ c : Candle F, readingByCandle (normK name c) nm = readingByCandle c nm

theorem indepP_attr (name nm : String) (hd : NoDot nm) (hin : nm ∈ Candle.attrNames) : IndepP F name nm := by
  intro c
  obtain ⟨w, hw⟩ := attr_some_of_mem c nm hin
  rw [readingByCandle_attr nm hd c w hw, readingByCandle_attr nm hd _ w (by exact hw)]

theorem col_normK (name nm : String) (h : IndepP F name nm) (cs : List (Candle F)) :
    col nm (cs.map (normK name)) = col nm cs := by
  simp [col, Function.comp_def, h _]

/-! ### movement functions see the candles through columns -/

theorem isEmpty_congr {nm : String} {cs cs' : List (Candle F)} (h : col nm cs = col nm cs') :
    cs.isEmpty = cs'.isEmpty := by
  have hl := col_eq_length h
  cases cs <;> cases cs' <;> simp at hl ⊢

theorem aboveB_congr {a b : String} {cs cs' : List (Candle F)} (ha : col a cs = col a cs')
    (hb : col b cs = col b cs') (i : Int) : Mov.aboveB cs a b i = Mov.aboveB cs' a b i := by
  unfold Mov.aboveB
  simp only [isEmpty_congr ha, readingByIndex_congr ha, readingByIndex_congr hb]

theorem belowB_congr {a b : String} {cs cs' : List (Candle F)} (ha : col a cs = col a cs')
    (hb : col b cs = col b cs') (i : Int) : Mov.belowB cs a b i = Mov.belowB cs' a b i := by
  unfold Mov.belowB
  simp only [isEmpty_congr ha, readingByIndex_congr ha, readingByIndex_congr hb]

theorem cleanReadings_congr {nm : String} {cs cs' : List (Candle F)} (h : col nm cs = col nm cs')
    (n i : Int) (incl : Bool) : Mov.cleanReadings cs nm n i incl = Mov.cleanReadings cs' nm n i incl := by
  unfold Mov.cleanReadings; rw [cleanScalars_congr h]

theorem valueRange_congr {nm : String} {cs cs' : List (Candle F)} (h : col nm cs = col nm cs')
    (n i : Int) : Mov.valueRange cs nm n i = Mov.valueRange cs' nm n i := by
  unfold Mov.valueRange
  simp only [col_eq_length h, cleanReadings_congr h]

/-- the candles at an index of two lists with the same column read the same (or both raise) -/
theorem pyIndex_col_cases {nm : String} {cs cs' : List (Candle F)} (h : col nm cs = col nm cs') (j : Int) :
    (∃ e, pyIndex cs j = .error e ∧ pyIndex cs' j = .error e) ∨
    (∃ c c', pyIndex cs j = .ok c ∧ pyIndex cs' j = .ok c' ∧ readingByCandle c nm = readingByCandle c' nm) := by
  have := congrArg (fun l => pyIndex l j) h
  simp only [col, pyIndex_map] at this
  cases h1 : pyIndex cs j with
  | error e =>
    cases h2 : pyIndex cs' j with
    | error e' => rw [h1, h2] at this; simp only [Except.map] at this; cases this; exact Or.inl ⟨e, rfl, rfl⟩
    | ok c' => rw [h1, h2] at this; simp only [Except.map] at this; cases this
  | ok c =>
    cases h2 : pyIndex cs' j with
    | error e' => rw [h1, h2] at this; simp only [Except.map] at this; cases this
    | ok c' =>
      rw [h1, h2] at this; simp only [Except.map] at this
      exact Or.inr ⟨c, c', rfl, rfl, Except.ok.inj this⟩

theorem monotone_congr {nm : String} {cs cs' : List (Candle F)} (h : col nm cs = col nm cs')
    (n i : Int) (bad : Num F → Num F → Bool) : Mov.monotone cs nm n i bad = Mov.monotone cs' nm n i bad := by
  unfold Mov.monotone
  simp only [col_eq_length h, cleanReadings_congr h]
  split
  · rfl
  · split
    · rfl
    · rcases pyIndex_col_cases h i with ⟨e, h1, h2⟩ | ⟨c, c', h1, h2, hr⟩
      · rw [h1, h2]
      · rw [h1, h2]; simp only [bind, Except.bind]; rw [hr]

theorem meanCmp_congr {nm : String} {cs cs' : List (Candle F)} (h : col nm cs = col nm cs')
    (n i : Int) (good : Num F → Num F → Bool) : Mov.meanCmp cs nm n i good = Mov.meanCmp cs' nm n i good := by
  unfold Mov.meanCmp
  simp only [col_eq_length h, cleanReadings_congr h]
  split
  · rfl
  · rename_i j _
    split
    · rfl
    · rcases pyIndex_col_cases h j with ⟨e, h1, h2⟩ | ⟨c, c', h1, h2, hr⟩
      · rw [h1, h2]
      · rw [h1, h2]; simp only [bind, Except.bind]; rw [hr]

theorem cross_congr {a b : String} {cs cs' : List (Candle F)} (ha : col a cs = col a cs')
    (hb : col b cs = col b cs') (n i : Int) : Mov.cross cs a b n i = Mov.cross cs' a b n i := by
  unfold Mov.cross
  simp only [col_eq_length ha, readingByIndex_congr ha, readingByIndex_congr hb]

theorem crossover_congr {a b : String} {cs cs' : List (Candle F)} (ha : col a cs = col a cs')
    (hb : col b cs = col b cs') (n i : Int) : Mov.crossover cs a b n i = Mov.crossover cs' a b n i := by
  unfold Mov.crossover
  simp only [col_eq_length ha, aboveB_congr ha hb, belowB_congr ha hb]

theorem crossunder_congr {a b : String} {cs cs' : List (Candle F)} (ha : col a cs = col a cs')
    (hb : col b cs = col b cs') (n i : Int) : Mov.crossunder cs a b n i = Mov.crossunder cs' a b n i := by
  unfold Mov.crossunder
  simp only [col_eq_length ha, aboveB_congr ha hb, belowB_congr ha hb]

/-! ### candle-geometry functions do not look at the reading dicts at all -/

theorem positive_normK (name : String) (cs : List (Candle F)) (i : Int) :
    Mov.positive (cs.map (normK name)) i = Mov.positive cs i := by
  unfold Mov.positive
  simp only [List.length_map, pyIndex_map]
  cases pyIndex cs i <;> rfl

theorem negative_normK (name : String) (cs : List (Candle F)) (i : Int) :
    Mov.negative (cs.map (normK name)) i = Mov.negative cs i := by
  unfold Mov.negative
  simp only [List.length_map, pyIndex_map]
  cases pyIndex cs i <;> rfl

theorem avgOf_normK (name : String) (f : Candle F → Num F) (hf : ∀ c, f (normK name c) = f c)
    (cs : List (Candle F)) (len idx : Int) :
    Pat.avgOf f (cs.map (normK name)) len idx = Pat.avgOf f cs len idx := by
  unfold Pat.avgOf
  have hfun : ∀ i, (do let c ← pyIndex (cs.map (normK name)) i; pure (f c) : PyM (Num F))
      = (do let c ← pyIndex cs i; pure (f c)) := by
    intro i
    rw [pyIndex_map]
    cases pyIndex cs i with
    | error e => rfl
    | ok c => simp [Except.map, bind, Except.bind, hf]
  simp only [hfun]

theorem candleDoji_normK (name : String) (cs : List (Candle F)) (j : Int) :
    Pat.candleDoji (cs.map (normK name)) j = Pat.candleDoji cs j := by
  unfold Pat.candleDoji Pat.highLowAvg; rw [avgOf_normK name _ (fun _ => rfl)]

theorem candleBodyLong_normK (name : String) (cs : List (Candle F)) (j : Int) :
    Pat.candleBodyLong (cs.map (normK name)) j = Pat.candleBodyLong cs j := by
  unfold Pat.candleBodyLong Pat.realbodyAvg; rw [avgOf_normK name _ (fun _ => rfl)]

theorem candleNear_normK (name : String) (cs : List (Candle F)) (j : Int) :
    Pat.candleNear (cs.map (normK name)) j = Pat.candleNear cs j := by
  unfold Pat.candleNear Pat.highLowAvg; rw [avgOf_normK name _ (fun _ => rfl)]

theorem candleShadowLong_normK (name : String) (cs : List (Candle F)) (j : Int) :
    Pat.candleShadowLong (cs.map (normK name)) j = Pat.candleShadowLong cs j := by
  unfold Pat.candleShadowLong
  rw [pyIndex_map]
  cases pyIndex cs j <;> rfl

theorem dojiAt_normK (name : String) (cs : List (Candle F)) (j : Int) :
    Pat.dojiAt (cs.map (normK name)) j = Pat.dojiAt cs j := by
  unfold Pat.dojiAt
  rw [pyIndex_map, candleDoji_normK]
  cases pyIndex cs j <;> rfl

theorem dojistarAt_normK (name : String) (cs : List (Candle F)) (j : Int) :
    Pat.dojistarAt (cs.map (normK name)) j = Pat.dojistarAt cs j := by
  unfold Pat.dojistarAt
  simp only [pyIndex_map, candleDoji_normK, candleBodyLong_normK]
  cases pyIndex cs j with
  | error e => rfl
  | ok c => cases pyIndex cs (j - 1) <;> rfl

theorem hammerAt_normK (name : String) (cs : List (Candle F)) (j : Int) :
    Pat.hammerAt (cs.map (normK name)) j = Pat.hammerAt cs j := by
  unfold Pat.hammerAt Pat.candleBodyShort Pat.candleShadowVeryShort
  simp only [pyIndex_map, candleDoji_normK, candleBodyLong_normK, candleNear_normK, candleShadowLong_normK]
  cases pyIndex cs j with
  | error e => rfl
  | ok c => cases pyIndex cs (j - 1) <;> rfl

theorem invHammerAt_normK (name : String) (cs : List (Candle F)) (j : Int) :
    Pat.invHammerAt (cs.map (normK name)) j = Pat.invHammerAt cs j := by
  unfold Pat.invHammerAt Pat.candleBodyShort Pat.candleShadowVeryShort
  simp only [pyIndex_map, candleDoji_normK, candleBodyLong_normK, candleShadowLong_normK]
  cases pyIndex cs j with
  | error e => rfl
  | ok c => cases pyIndex cs (j - 1) <;> rfl

theorem pattern_normK (name : String) (one : List (Candle F) → Int → PyM Bool)
    (hone : ∀ cs j, one (cs.map (normK name)) j = one cs j) (cs : List (Candle F))
    (lb index : Option Int) :
    Pat.pattern one (cs.map (normK name)) lb index = Pat.pattern one cs lb index := by
  unfold Pat.pattern
  simp only [List.length_map, hone]

/-! ### all twenty functions -/

/-- the reading names an analysis function is asked about -/
def Analysis.names : Analysis → List String
  | .above a b | .below a b => [a, b]
  | .valueRange ind _ | .rising ind _ | .falling ind _ | .meanRising ind _ | .meanFalling ind _
  | .highest ind _ | .lowest ind _ | .highestbar ind _ | .lowestbar ind _ => [ind]
  | .cross a b _ | .crossover a b _ | .crossunder a b _ => [a, b]
  | _ => []

/-- **Key locality of the analysis functions**: erasing the entries under `name` from every
candle does not change the answer of an analysis that reads only names independent of `name`. -/
theorem runAnalysis_normK (a : Analysis) (name : String) (h : ∀ nm ∈ a.names, IndepP F name nm)
    (cs : List (Candle F)) (i : Int) :
    runAnalysis a (cs.map (normK name)) i = runAnalysis a cs i := by
  have hc : ∀ nm, nm ∈ a.names → col nm (cs.map (normK name)) = col nm cs :=
    fun nm hnm => col_normK name nm (h nm hnm) cs
  cases a with
  | positive => simp only [runAnalysis, positive_normK]
  | negative => simp only [runAnalysis, negative_normK]
  | above x y =>
    simp only [runAnalysis, Mov.above, aboveB_congr (hc x (by simp [Analysis.names])) (hc y (by simp [Analysis.names]))]
  | below x y =>
    simp only [runAnalysis, Mov.below, belowB_congr (hc x (by simp [Analysis.names])) (hc y (by simp [Analysis.names]))]
  | valueRange ind n => exact valueRange_congr (hc ind (by simp [Analysis.names])) n i
  | rising ind n => exact monotone_congr (hc ind (by simp [Analysis.names])) n i _
  | falling ind n => exact monotone_congr (hc ind (by simp [Analysis.names])) n i _
  | meanRising ind n => exact meanCmp_congr (hc ind (by simp [Analysis.names])) n i _
  | meanFalling ind n => exact meanCmp_congr (hc ind (by simp [Analysis.names])) n i _
  | highest ind n => exact extreme_congr (hc ind (by simp [Analysis.names])) n i _
  | lowest ind n => exact extreme_congr (hc ind (by simp [Analysis.names])) n i _
  | highestbar ind n => exact extremeBar_congr (hc ind (by simp [Analysis.names])) n i _
  | lowestbar ind n => exact extremeBar_congr (hc ind (by simp [Analysis.names])) n i _
  | cross x y n => exact cross_congr (hc x (by simp [Analysis.names])) (hc y (by simp [Analysis.names])) n i
  | crossover x y n =>
    exact crossover_congr (hc x (by simp [Analysis.names])) (hc y (by simp [Analysis.names])) n i
  | crossunder x y n =>
    exact crossunder_congr (hc x (by simp [Analysis.names])) (hc y (by simp [Analysis.names])) n i
  | doji lb => exact pattern_normK name _ (dojiAt_normK name) cs lb (some i)
  | dojistar lb => exact pattern_normK name _ (dojistarAt_normK name) cs lb (some i)
  | hammer lb => exact pattern_normK name _ (hammerAt_normK name) cs lb (some i)
  | invHammer lb => exact pattern_normK name _ (invHammerAt_normK name) cs lb (some i)

/-- **Amorph satisfies the leaf contract**, for every wrapped analysis function whose reading
names do not see the wrapper's own entry (candle fields never do). -/
def amorphContract (ind : Ind F) (a : Analysis) (hk : ind.kind = .amorph a)
    (hind : ∀ nm ∈ a.names, IndepP F ind.name nm) : Contract ind :=
  Contract.ofTrunc ind
    (by
      intro x h0 hi
      rw [hk]
      exact (Ana.runAnalysis_causal (F := F) a).trunc x.cs x.i h0 hi)
    (by
      intro done c v
      rw [hk]
      show runAnalysis a (done ++ [setKey ind.isSub ind.name v c]) _ = runAnalysis a (done ++ [c]) _
      rw [← runAnalysis_normK a ind.name hind (done ++ [setKey ind.isSub ind.name v c]),
          ← runAnalysis_normK a ind.name hind (done ++ [c])]
      simp only [List.map_append, List.map_cons, List.map_nil, normK_setKey])

end Hex

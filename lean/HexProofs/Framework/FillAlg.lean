import HexProofs.Manager.Fill
/-
Algebra of `fill_missing_candles` needed for append schedules: the fill pass works on adjacent
pairs, so it splits at any candle; what it inserts after a candle depends only on that candle's
stamp and raw close; a contiguous list is left alone.
-/
namespace Hex
set_option linter.unusedSectionVars false
variable {F : Type} [PyF F]

/-- what the fill pass emits for the pair `(x, y)` before recursing on `y :: …`:
`x` followed by the fill candles of the gap -/
def fillHead (tf : Int) (x y : Candle F) : PyM (List (Candle F)) :=
  match x.ts with
  | none => .ok [x]
  | some ta =>
    match y.ts with
    | none => .error .diverges
    | some tb =>
      if tb - ta ≤ 0 ∨ (tb - ta) % tf ≠ 0 then .error .diverges
      else .ok (x :: fillRun x tf ta (((tb - ta) / tf).toNat - 1))

theorem fillMissing_cons_cons (tf : Int) (x y : Candle F) (r : List (Candle F)) :
    fillMissing tf (x :: y :: r) = (do
      let h ← fillHead tf x y
      let t ← fillMissing tf (y :: r)
      pure (h ++ t)) := by
  rw [fillMissing]
  unfold fillHead
  cases x.ts with
  | none =>
    simp only [bind, Except.bind]
    cases fillMissing tf (y :: r) <;> rfl
  | some ta =>
    cases y.ts with
    | none => rfl
    | some tb =>
      simp only
      split
      · rfl
      · simp only [bind, Except.bind]
        cases fillMissing tf (y :: r) <;> rfl

theorem fillHead_ne_nil (tf : Int) (x y : Candle F) (h : List (Candle F)) (hh : fillHead tf x y = .ok h) :
    ∃ h', h = x :: h' := by
  unfold fillHead at hh
  cases hx : x.ts with
  | none => rw [hx] at hh; cases hh; exact ⟨[], rfl⟩
  | some ta =>
    rw [hx] at hh
    cases hy : y.ts with
    | none => rw [hy] at hh; cases hh
    | some tb =>
      rw [hy] at hh
      simp only at hh
      split at hh
      · cases hh
      · cases hh; exact ⟨_, rfl⟩

/-- the fill pass keeps the first candle first -/
theorem fillMissing_head (tf : Int) (a : Candle F) (B out : List (Candle F))
    (h : fillMissing tf (a :: B) = .ok out) : ∃ T, out = a :: T := by
  cases B with
  | nil => rw [fillMissing] at h; cases h; exact ⟨[], rfl⟩
  | cons b r =>
    rw [fillMissing_cons_cons] at h
    cases hh : fillHead tf a b with
    | error e => rw [hh] at h; cases h
    | ok hd =>
      rw [hh] at h
      obtain ⟨h', rfl⟩ := fillHead_ne_nil tf a b hd hh
      cases ht : fillMissing tf (b :: r) with
      | error e => rw [ht] at h; cases h
      | ok t =>
        rw [ht] at h
        simp only [bind, Except.bind, pure, Except.pure] at h
        cases h
        exact ⟨h' ++ t, rfl⟩

/-- the fill pass keeps the last candle last -/
theorem fillMissing_last (tf : Int) (A : List (Candle F)) :
    ∀ (a : Candle F) (out : List (Candle F)), fillMissing tf (A ++ [a]) = .ok out →
      ∃ A0, out = A0 ++ [a] := by
  induction A with
  | nil => intro a out h; simp only [List.nil_append] at h; rw [fillMissing] at h; cases h; exact ⟨[], rfl⟩
  | cons x A' ih =>
    intro a out h
    obtain ⟨y, r, hyr⟩ : ∃ y r, A' ++ [a] = y :: r := by
      cases A' with
      | nil => exact ⟨a, [], rfl⟩
      | cons y r => exact ⟨y, r ++ [a], rfl⟩
    rw [List.cons_append, hyr, fillMissing_cons_cons] at h
    cases hh : fillHead tf x y with
    | error e => rw [hh] at h; cases h
    | ok hd =>
      rw [hh] at h
      cases ht : fillMissing tf (y :: r) with
      | error e => rw [ht] at h; cases h
      | ok t =>
        rw [ht] at h
        simp only [bind, Except.bind, pure, Except.pure] at h
        cases h
        rw [← hyr] at ht
        obtain ⟨A0, rfl⟩ := ih a t ht
        exact ⟨hd ++ A0, by simp⟩

/-- **The fill pass splits at any candle**: filling `A ++ a :: B` is filling `A ++ [a]` and
`a :: B` separately and gluing at `a`. -/
theorem fillMissing_split (tf : Int) (A : List (Candle F)) :
    ∀ (a : Candle F) (B : List (Candle F)),
      fillMissing tf (A ++ a :: B) = (do
        let A' ← fillMissing tf (A ++ [a])
        let B' ← fillMissing tf (a :: B)
        pure (A'.dropLast ++ B')) := by
  induction A with
  | nil =>
    intro a B
    simp only [List.nil_append]
    rw [show fillMissing tf [a] = .ok [a] by rw [fillMissing]]
    simp only [bind, Except.bind, List.dropLast_singleton, List.nil_append]
    cases fillMissing tf (a :: B) <;> rfl
  | cons x A' ih =>
    intro a B
    obtain ⟨y, r₁, r₂, h1, h2⟩ : ∃ y r₁ r₂, A' ++ a :: B = y :: r₁ ∧ A' ++ [a] = y :: r₂ := by
      cases A' with
      | nil => exact ⟨a, B, [], rfl, rfl⟩
      | cons y r => exact ⟨y, r ++ a :: B, r ++ [a], rfl, rfl⟩
    rw [List.cons_append, List.cons_append, h1, h2, fillMissing_cons_cons, fillMissing_cons_cons,
        ← h1, ← h2, ih a B]
    cases hh : fillHead tf x y with
    | error e => rfl
    | ok hd =>
      cases ht : fillMissing tf (A' ++ [a]) with
      | error e => rfl
      | ok t =>
        obtain ⟨A0, rfl⟩ := fillMissing_last tf A' a t ht
        cases hb : fillMissing tf (a :: B) with
        | error e => rfl
        | ok B' =>
          simp only [bind, Except.bind, pure, Except.pure]
          congr 1
          rw [← List.append_assoc hd A0 [a]]
          simp

/-- what is inserted before the last candle depends on it only through its stamp -/
theorem fillMissing_last_congr (tf : Int) (A : List (Candle F)) :
    ∀ (a a' : Candle F) (A0 : List (Candle F)), a'.ts = a.ts →
      fillMissing tf (A ++ [a]) = .ok (A0 ++ [a]) → fillMissing tf (A ++ [a']) = .ok (A0 ++ [a']) := by
  induction A with
  | nil =>
    intro a a' A0 _ h
    simp only [List.nil_append] at h ⊢
    rw [fillMissing] at h ⊢
    have := Except.ok.inj h
    have hA0 : A0 = [] := by
      cases A0 with
      | nil => rfl
      | cons z zs => simp at this
    subst hA0; rfl
  | cons x A' ih =>
    intro a a' A0 hts h
    cases A' with
    | nil =>
      simp only [List.cons_append, List.nil_append] at h ⊢
      rw [fillMissing_cons_cons] at h ⊢
      have hhead : fillHead tf x a' = fillHead tf x a := by unfold fillHead; rw [hts]
      rw [hhead]
      rw [show fillMissing tf [a] = .ok [a] by rw [fillMissing]] at h
      rw [show fillMissing tf [a'] = .ok [a'] by rw [fillMissing]]
      cases hh : fillHead tf x a with
      | error e => rw [hh] at h; cases h
      | ok hd =>
        rw [hh] at h
        simp only [bind, Except.bind, pure, Except.pure] at h ⊢
        have := Except.ok.inj h
        have : hd = A0 := List.append_cancel_right this
        rw [this]
    | cons y r =>
      simp only [List.cons_append] at h ⊢
      rw [fillMissing_cons_cons] at h ⊢
      cases hh : fillHead tf x y with
      | error e => rw [hh] at h; cases h
      | ok hd =>
        rw [hh] at h
        cases ht : fillMissing tf (y :: (r ++ [a])) with
        | error e => rw [ht] at h; cases h
        | ok t =>
          rw [ht] at h
          simp only [bind, Except.bind, pure, Except.pure] at h
          obtain ⟨T0, rfl⟩ := fillMissing_last tf (y :: r) a t (by simpa using ht)
          have hA0 : A0 = hd ++ T0 := by
            have := Except.ok.inj h
            rw [← List.append_assoc] at this
            exact (List.append_cancel_right this).symm
          have := ih a a' T0 hts (by simpa using ht)
          simp only [List.cons_append] at this
          rw [this]
          simp only [bind, Except.bind, pure, Except.pure, hA0, List.append_assoc]

/-- what is inserted after the first candle depends on it only through its stamp and raw close -/
theorem fillMissing_head_congr (tf : Int) (a a' : Candle F) (B T : List (Candle F))
    (hts : a'.ts = a.ts) (hrc : a'.rawClose = a.rawClose)
    (h : fillMissing tf (a :: B) = .ok (a :: T)) : fillMissing tf (a' :: B) = .ok (a' :: T) := by
  cases B with
  | nil =>
    rw [fillMissing] at h ⊢
    have := Except.ok.inj h
    simp at this
    subst this; rfl
  | cons b r =>
    rw [fillMissing_cons_cons] at h ⊢
    cases ht : fillMissing tf (b :: r) with
    | error e =>
      rw [ht] at h
      cases hh : fillHead tf a b with
      | error e => rw [hh] at h; cases h
      | ok hd => rw [hh] at h; cases h
    | ok t =>
      rw [ht] at h
      unfold fillHead at h ⊢
      rw [hts]
      cases hx : a.ts with
      | none =>
        rw [hx] at h
        simp only [bind, Except.bind, pure, Except.pure] at h ⊢
        have := Except.ok.inj h
        simp at this
        rw [this]; rfl
      | some ta =>
        rw [hx] at h
        cases hy : b.ts with
        | none => rw [hy] at h; cases h
        | some tb =>
          rw [hy] at h
          simp only at h ⊢
          split at h
          · cases h
          · rename_i hc
            rw [if_neg hc]
            simp only [bind, Except.bind, pure, Except.pure] at h ⊢
            have := Except.ok.inj h
            simp only [List.cons_append, List.cons.injEq, true_and] at this
            rw [fillRun_congr a' a tf hrc]
            simp only [List.cons_append, this]

end Hex

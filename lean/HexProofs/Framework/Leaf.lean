import HexModel.Core.Indicator
import HexProofs.Access.Basic
/-
The calculation engine on LEAF indicators (no sub-indicators, no managed helpers, a
`_calculate_reading` that only reads): the fuel-indexed mutual recursion of `HexModel/Core/Eval.lean`
collapses to a plain, fuel-free loop over `stepLeaf` (compute the reading at one index, round it,
store it under the indicator's name).  The fuel bounds the definitions need are explicit:

  * `calcReading`      needs fuel ≥ 1,
  * `calcLoop … n`     needs fuel ≥ n + 1   (it spends one unit per iteration),
  * `calculate`        needs fuel ≥ cs.length + 2,
  * `calculateIndex`   needs fuel ≥ 2,

and `fuelFor cs = 16 + 2 * cs.length` (what the objects pass) satisfies all of them.
-/
namespace Hex
set_option linter.unusedSectionVars false
variable {F : Type} [PyF F]

/-! ### kinds whose `_calculate_reading` never touches the helper services -/

/-- the kinds whose `_calculate_reading` only reads the candles (no `Managed.set_reading`,
no `calculate_index` of a helper while computing) -/
def Kind.readOnly : Kind F → Bool
  | .sma .. | .ema .. | .rma .. | .wma .. | .vwma .. | .tr | .atr .. | .bbands .. | .kc ..
  | .donchian .. | .hl .. | .hla | .stdevthres .. | .counter .. | .roc .. | .aroon .. | .obv
  | .amorph .. | .managed => true
  | _ => false

/-- the reading of a read-only kind (the `pure'` arms of `calcKind`) -/
def readKind (k : Kind F) (x : Ctx F) : PyM (Val F) :=
  match k with
  | .sma p input => Calc.sma x p input
  | .ema p input s => Calc.ema x p input s
  | .rma p input => Calc.rma x p input
  | .wma p input => Calc.wma x p input
  | .vwma p => Calc.vwma x p
  | .tr => Calc.tr x
  | .atr p => Calc.atr x p (x.name ++ "_TR")
  | .bbands _ _ => Calc.bbands x (x.name ++ "_SMA") (x.name ++ "_STDEV")
  | .kc _ _ m => Calc.kc x m
  | .donchian p => Calc.donchian x p
  | .hl p => Calc.hl x p
  | .hla => Calc.hla x
  | .stdevthres _ input m => Calc.stdevthres x input m
  | .counter input cv => Calc.counter x input cv
  | .roc p input => Calc.roc x p input
  | .aroon p => Calc.aroon x p
  | .obv => Calc.obv x
  | .amorph a => runAnalysis a x.cs x.i
  | .managed => .ok .none
  | _ => .error .other      -- not read-only: never used

/-- a read-only kind returns the candles it was given, whatever the helper services are -/
theorem calcKind_readOnly (ops : Ops F) (ind : Ind F) (x : Ctx F) (h : ind.kind.readOnly = true) :
    calcKind ops ind x = (do let v ← readKind ind.kind x; return (v, x.cs)) := by
  unfold calcKind readKind
  cases hk : ind.kind <;> simp_all [Kind.readOnly]

/-! ### leaves -/

/-- a leaf node of an indicator tree -/
structure IsLeaf (ind : Ind F) : Prop where
  subs : ind.subs = []
  managed : ind.managed = []
  readOnly : ind.kind.readOnly = true

/-- what `_set_reading` does to one candle -/
def setKey (isSub : Bool) (name : String) (v : Val F) (c : Candle F) : Candle F :=
  if isSub then { c with subs := dset name v c.subs } else { c with inds := dset name v c.inds }

theorem setReading_eq (isSub : Bool) (name : String) (cs : List (Candle F)) (i : Int) (v : Val F) :
    setReading isSub name cs i v = updateAt cs i (setKey isSub name v) := rfl

/-- one iteration of the calculation at index `i`: `_calculate_reading(i)`, `round_values`,
`_set_reading` -/
def stepLeaf (ind : Ind F) (cs : List (Candle F)) (i : Int) : PyM (List (Candle F)) := do
  let v ← readKind ind.kind { cs := cs, i := i, name := ind.name }
  setReading ind.isSub ind.name cs i (v.roundBy ind.round)

theorem calcReading_leaf (f : Nat) (ind : Ind F) (h : ind.kind.readOnly = true)
    (cs : List (Candle F)) (i : Int) :
    calcReading (f + 1) ind cs i
      = (do let v ← readKind ind.kind { cs := cs, i := i, name := ind.name }; return (v, cs)) := by
  rw [calcReading, calcKind_readOnly _ _ _ h]

/-- the skip test of `calculate`: the candle already holds a non-`None` reading in `.indicators` -/
def present (name : String) (c : Candle F) : Bool :=
  match dlookup name c.inds with
  | some v => !v.isNone
  | none => false

/-- the `for index in range(k, k + n)` loop of `calculate` on a leaf, without fuel -/
def leafLoop (ind : Ind F) : List (Candle F) → Nat → Nat → PyM (List (Candle F))
  | cs, _, 0 => .ok cs
  | cs, k, n+1 => do
    let c ← pyIndex cs k
    let cs ← if present ind.name c then pure cs else stepLeaf ind cs k
    leafLoop ind cs (k + 1) n

theorem calcLoop_leaf (ind : Ind F) (h : ind.kind.readOnly = true) :
    ∀ (n fuel : Nat) (cs : List (Candle F)) (k : Nat), n + 1 ≤ fuel →
      calcLoop fuel ind cs k n = leafLoop ind cs k n := by
  intro n
  induction n with
  | zero =>
    intro fuel cs k hf
    obtain ⟨f, rfl⟩ : ∃ f, fuel = f + 1 := ⟨fuel - 1, by omega⟩
    rw [calcLoop]
    · rfl
    · intro h0; omega
  | succ n ih =>
    intro fuel cs k hf
    obtain ⟨f, rfl⟩ : ∃ f, fuel = (f + 1) + 1 := ⟨fuel - 2, by omega⟩
    rw [calcLoop, leafLoop]
    cases hc : pyIndex cs (k : Int) with
    | error e => rfl
    | ok c =>
      simp only [bind, Except.bind]
      show (do
        let cs ← if present ind.name c then pure cs else do
          let (v, cs) ← calcReading (f + 1) ind cs k
          setReading ind.isSub ind.name cs k (v.roundBy ind.round)
        calcLoop (f + 1) ind cs (k + 1) n) = _
      rw [calcReading_leaf f ind h]
      by_cases hp : present ind.name c = true
      · simp only [hp, if_true, bind, Except.bind, pure, Except.pure]
        exact ih (f + 1) cs (k + 1) (by omega)
      · simp only [hp, Bool.false_eq_true, if_false]
        unfold stepLeaf
        cases hr : readKind ind.kind { cs := cs, i := (k : Int), name := ind.name } with
        | error e => rfl
        | ok v =>
          simp only [bind, Except.bind, pure, Except.pure]
          cases hs : setReading ind.isSub ind.name cs (k : Int) (v.roundBy ind.round) with
          | error e => rfl
          | ok cs' => exact ih (f + 1) cs' (k + 1) (by omega)

/-- `Indicator.calculate()` on a leaf, without fuel -/
def leafCalc (ind : Ind F) (cs : List (Candle F)) : PyM (List (Candle F)) :=
  leafLoop ind cs (findCalcIndex ind.name cs) (cs.length - findCalcIndex ind.name cs)

theorem calcSubs_nil (f : Nat) (prior : Bool) (range : Option (Int × Int)) (cs : List (Candle F)) :
    calcSubs (f + 1) ([] : List (Ind F)) prior range cs = .ok cs := by
  rw [calcSubs]
  intro h0; omega

/-- **Fuel bound for `calculate`.**  With `cs.length + 2` units of fuel the engine on a leaf is
the fuel-free loop. -/
theorem calculate_leaf (ind : Ind F) (hl : IsLeaf ind) (fuel : Nat) (cs : List (Candle F))
    (hf : cs.length + 2 ≤ fuel) : calculate fuel ind cs = leafCalc ind cs := by
  obtain ⟨f, rfl⟩ : ∃ f, fuel = (f + 1) + 1 := ⟨fuel - 2, by omega⟩
  rw [calculate, hl.subs, calcSubs_nil]
  simp only [bind, Except.bind]
  rw [calcLoop_leaf ind hl.readOnly _ _ _ _ (by omega)]
  unfold leafCalc
  cases leafLoop ind cs (findCalcIndex ind.name cs) (cs.length - findCalcIndex ind.name cs) with
  | error e => rfl
  | ok cs' => simp only [calcSubs_nil]

theorem fuelFor_ge (cs : List (Candle F)) : cs.length + 2 ≤ fuelFor cs := by
  unfold fuelFor; omega

/-- the object-level `calculate()` on a leaf -/
theorem IndState.calculate_leaf (s : IndState F) (hl : IsLeaf s.tree) :
    s.calculate = (do
      let cs ← leafCalc s.tree s.mgr.candles
      let k := findCalcIndex s.tree.name s.mgr.candles
      let active := if k < s.mgr.candles.length then (s.mgr.candles.length : Int) - 1 else s.active
      return { s with mgr := { s.mgr with candles := cs }, active := active }) := by
  unfold IndState.calculate leafCalc
  obtain ⟨f, hfu⟩ : ∃ f, fuelFor s.mgr.candles = (f + 1) + 1 := ⟨fuelFor s.mgr.candles - 2, by
    have := fuelFor_ge s.mgr.candles; omega⟩
  have hfb := fuelFor_ge s.mgr.candles
  simp only [hl.subs, hfu, calcSubs_nil, bind, Except.bind]
  rw [calcLoop_leaf s.tree hl.readOnly _ _ _ _ (by omega)]

theorem foldlM_congr_fun {α β : Type} (f g : β → α → PyM β) (h : ∀ b a, f b a = g b a)
    (l : List α) (b : β) : l.foldlM f b = l.foldlM g b := by
  have : f = g := funext fun b => funext fun a => h b a
  rw [this]

/-- `Indicator.calculate_index(start, end)` on a leaf: an unconditional recomputation of the
range, without fuel (needs fuel ≥ 2) -/
theorem calculateIndex_leaf (ind : Ind F) (hl : IsLeaf ind) (fuel : Nat) (cs : List (Candle F))
    (s e : Int) (hf : 2 ≤ fuel) :
    calculateIndex fuel ind cs s e = (pyRange s e).foldlM (fun cs i => stepLeaf ind cs i) cs := by
  obtain ⟨f, rfl⟩ : ∃ f, fuel = (f + 1) + 1 := ⟨fuel - 2, by omega⟩
  have hpt : ∀ (cs : List (Candle F)) (i : Int), (do
        let (v, cs) ← calcReading (f + 1) ind cs i
        setReading ind.isSub ind.name cs i (v.roundBy ind.round)) = stepLeaf ind cs i := by
    intro cs i
    rw [calcReading_leaf f ind hl.readOnly]
    unfold stepLeaf
    cases readKind ind.kind { cs := cs, i := i, name := ind.name } <;> rfl
  rw [calculateIndex, hl.subs, calcSubs_nil]
  simp only [hpt]
  simp only [bind, Except.bind]
  cases (pyRange s e).foldlM (fun cs i => stepLeaf ind cs i) cs with
  | error e => rfl
  | ok cs' => simp only [calcSubs_nil]

end Hex
